#!/usr/bin/env python3
"""usage: tools/seed_keep.py <seed-id> <property> <round> '<change>' '<needs>' [silent props...]
moves the replay files named in seeded/<id>/runs/*.log into seeded/<id>/replays/ and writes meta.json"""
import json, os, re, shutil, sys
sid, prop, rnd, change, needs = sys.argv[1:6]
silent_expected = sys.argv[6:]
d = os.path.join('/verif/seeded', sid)
os.makedirs(os.path.join(d, 'replays'), exist_ok=True)
caught, silent = {}, []
for f in sorted(os.listdir(os.path.join(d, 'runs'))):
    p = f.split('.')[0]
    txt = open(os.path.join(d, 'runs', f)).read()
    vio = re.findall(r'^VIOLATION property=(\S+) replay=(\S+)(.*)$', txt, re.M)
    summ = [l for l in txt.split('\n') if l.startswith(p + ' tier=')]
    if vio:
        kinds = []
        for _, path, tail in vio:
            if os.path.exists(path):
                shutil.move(path, os.path.join(d, 'replays', os.path.basename(path)))
            kinds.append(os.path.basename(path).split('-')[1] + (' (no failing input)' if 'no-failing-input-found' in tail else ''))
        caught[p] = ', '.join(sorted(set(kinds))) + ' | ' + (summ[0] if summ else '')
    else:
        silent.append(p)
meta = dict(property=prop, change=change, needs=needs, caught_by=caught, silent=silent, round=int(rnd),
            confirmed=['cargo test --offline --no-fail-fast: the 59 existing tests pass with the change (tools/seed_confirm.sh, scratch worktree)',
                       'seeded_demo.rs fails with the change and passes without it (same script)',
                       'checks run with tools/seed_try.sh against /repo with the patch applied, /repo restored afterwards'])
json.dump(meta, open(os.path.join(d, 'meta.json'), 'w'), indent=1)
print(sid, 'caught by', list(caught), 'silent', silent)
if prop not in caught: print('!!! MISSED by its own property', prop)
