#!/bin/bash
# usage: tools/seed_confirm.sh <worktree> <seed-id>
# confirms a sub-agent's seeded change in its scratch worktree (tests pass with it, demo fails with it and passes
# without it), then stores patch, demo and notes under /verif/seeded/<seed-id>/
wt=$1; id=$2; d=/verif/seeded/$id
export CARGO_NET_OFFLINE=true CARGO_TARGET_DIR=$wt/target
cd $wt || exit 2
git apply --check -R patch.diff || { echo "patch.diff is not the applied change"; exit 2; }
echo "--- with the change: existing tests"
cargo test --workspace --no-fail-fast --offline --lib --test array_tests --test map_tests --test set_tests --test tree_tests 2>&1 | grep -E "^test result|FAILED|failed" | tr '\n' ' '; echo
echo "--- with the change: demo"
cargo test --offline --test seeded_demo 2>&1 | grep -E "^test result|^test .*FAILED" | tr '\n' ' '; echo
git apply -R patch.diff
echo "--- without the change: demo"
cargo test --offline --test seeded_demo 2>&1 | grep -E "^test result|^test .*FAILED" | tr '\n' ' '; echo
git apply patch.diff
mkdir -p $d
cp patch.diff $d/patch.diff; cp tests/seeded_demo.rs $d/seeded_demo.rs; cp NOTES.md $d/NOTES.md
( cd /repo && git apply --check $d/patch.diff ) && echo "patch applies to /repo"
