#!/usr/bin/env python3
"""Mutation sweep: which systematic source mutants of /repo survive the 59 tests AND every quick check?

  tools/mutsweep.py <workdir> <workers> [first last]     (e.g. /tmp/mut 6 0 400)

Each worker owns a private copy of /verif (with its build output) and of /repo; per mutant it applies the
mutant, runs the crate's own tests (a mutant they kill is of no interest), then the quick checks of the
properties that concern the mutated file first and all the others after, stopping at the first VIOLATION.
Results: <workdir>/results.jsonl (one line per mutant: status stillborn | killed-by-tests | killed | survived).
Survivors are either equivalent mutants or gaps of the checks; they are examined by hand (DESIGN.md section 8).
Nothing here is a registered check; /repo and /verif themselves are only read.
"""
import json, os, shutil, subprocess, sys, threading, time
sys.path.insert(0, os.path.dirname(os.path.abspath(__file__)))
import mutate

VERIF = os.path.dirname(os.path.dirname(os.path.abspath(__file__)))
ALL = ['C%02d' % i for i in range(1, 21)]
FIRST = {
    'src/map/tree': ['C04', 'C08', 'C02', 'C11', 'C17', 'C10', 'C12'],
    'src/map/pool': ['C11', 'C04', 'C10'],
    'src/map/list': ['C13', 'C18', 'C12', 'C10'],
    'src/map': ['C04', 'C13'],
    'src/set/tree': ['C05', 'C09', 'C08', 'C02', 'C11', 'C17', 'C10', 'C12'],
    'src/set/pool': ['C11', 'C05', 'C10'],
    'src/set/list': ['C13', 'C18', 'C12', 'C10'],
    'src/set': ['C05', 'C13'],
    'src/key/tree': ['C01', 'C06', 'C20', 'C02', 'C11', 'C07', 'C10', 'C12', 'C18'],
    'src/key/array': ['C07', 'C19', 'C11', 'C10', 'C20'],
    'src/key/pool': ['C11', 'C01', 'C10'],
    'src/key/list': ['C13', 'C20', 'C18', 'C12', 'C07'],
    'src/key': ['C01', 'C13'],
    'src/seg/layout': ['C14', 'C03', 'C10'],
    'src/seg/heap': ['C15', 'C03', 'C14'],
    'src/seg': ['C03', 'C16', 'C12', 'C15', 'C14', 'C18', 'C10'],
    'src': ALL,
}

def order_for(f):
    for k in sorted(FIRST, key=len, reverse=True):
        if f.startswith(k):
            first = FIRST[k]
            return first + [p for p in ALL if p not in first]
    return ALL

def sh(cmd, cwd, timeout, env=None):
    """run in its own process group, so that a timeout also ends the test binaries cargo started"""
    import signal
    p = subprocess.Popen(cmd, cwd=cwd, stdout=subprocess.PIPE, stderr=subprocess.STDOUT, text=True, env=env, start_new_session=True)
    try:
        out, _ = p.communicate(timeout=timeout)
        return p.returncode, out
    except subprocess.TimeoutExpired:
        try:
            os.killpg(p.pid, signal.SIGKILL)
        except Exception:
            pass
        try:
            out, _ = p.communicate(timeout=10)
        except Exception:
            out = ''
        return 124, out or ''

def worker(wid, work, queue, lock, out):
    wdir = os.path.join(work, 'w%d' % wid)
    repo = os.path.join(wdir, 'repo'); verif = os.path.join(wdir, 'verif')
    if not os.path.isdir(wdir):
        os.makedirs(wdir)
        sh(['rsync', '-a', '--exclude', 'target', '--exclude', '.git', '/repo/', repo + '/'], '/', 600)
        sh(['rsync', '-a', '--exclude', '.git', '--exclude', 'work', '--exclude', 'seeded', VERIF + '/', verif + '/'], '/', 600)
    env = dict(os.environ, CARGO_NET_OFFLINE='true', VP_RUN_REPO=repo, CARGO_TARGET_DIR=os.path.join(wdir, 'rtarget'))
    cenv = dict(os.environ, CARGO_NET_OFFLINE='true', VP_RUN_REPO=repo)
    while True:
        with lock:
            if not queue:
                return
            m = queue.pop(0)
        path = os.path.join(repo, m['file'])
        orig = open(path).read()
        t0 = time.time()
        res = dict(m); res.pop('old', None) if m['op'] == 'del' else None
        try:
            mutate.apply(repo, m)
            rc, o = sh(['cargo', 'test', '--workspace', '--no-fail-fast', '--offline'], repo, 240, env)
            if rc != 0:
                res['status'] = 'stillborn' if 'error[' in o or 'error:' in o and 'test result' not in o else 'killed-by-tests'
            else:
                res['status'] = 'survived'; res['ran'] = []
                for p in order_for(m['file']):
                    rc, o = sh(['./check', 'run', p, '--tier', 'quick'], verif, 900, cenv)
                    res['ran'].append(p)
                    if rc != 0 or 'VIOLATION' in o:
                        res['status'] = 'killed'; res['by'] = p
                        v = [l for l in o.split('\n') if l.startswith('VIOLATION')]
                        res['viol'] = v[0][:200] if v else ('rc=%d ' % rc) + o[-200:]
                        break
        finally:
            open(path, 'w').write(orig)
        res['secs'] = round(time.time() - t0, 1)
        with lock:
            out.write(json.dumps(res) + '\n'); out.flush()

def main():
    work, nw = sys.argv[1], int(sys.argv[2])
    ms = mutate.mutants('/repo')
    lo, hi = (int(sys.argv[3]), int(sys.argv[4])) if len(sys.argv) > 4 else (0, len(ms))
    os.makedirs(work, exist_ok=True)
    done = set()
    rp = os.path.join(work, 'results.jsonl')
    if os.path.exists(rp):
        done = {json.loads(l)['id'] for l in open(rp)}
    # interleave files so that early results cover everything
    sel = [m for m in ms[lo:hi] if m['id'] not in done]
    step = 7
    queue = [sel[i] for s in range(step) for i in range(s, len(sel), step)]
    lock = threading.Lock()
    with open(rp, 'a') as out:
        ts = [threading.Thread(target=worker, args=(w, work, queue, lock, out)) for w in range(nw)]
        [t.start() for t in ts]; [t.join() for t in ts]

if __name__ == '__main__':
    main()
