#!/usr/bin/env python3
"""Systematic source mutants of /repo/src for the mutation sweep (tools/mutsweep.py).

  mutate.py list <repo>              -> JSON list of mutants on stdout
  mutate.py apply <repo> <index>     -> rewrites the mutant's file inside <repo> (caller restores it)

Only library code is mutated: `#[cfg(test)]` modules and `#[cfg(feature = "verif")]` items are skipped.
Operators: relational (< <= > >= == !=), logical (&& ||), Ordering::Less/Greater, +1/-1 dropped or flipped,
boolean literals, `!` dropped, left/right field swapped, statement deletion (calls and assignments).
"""
import json, os, re, sys

def library_lines(path):
    """indices of lines that belong to library code (not tests, not verif hooks)"""
    src = open(path).read().split('\n')
    keep = [True] * len(src)
    i = 0
    while i < len(src):
        s = src[i].strip()
        if s.startswith('#[cfg(test)]') or s.startswith('#[cfg(feature = "verif")]'):
            # skip the attribute and the item that follows (to its closing brace or `;`)
            j = i + 1
            depth = 0; seen = False
            while j < len(src):
                depth += src[j].count('{') - src[j].count('}')
                if '{' in src[j]:
                    seen = True
                if (seen and depth <= 0) or (not seen and src[j].rstrip().endswith(';')):
                    break
                j += 1
            for k in range(i, min(j + 1, len(src))):
                keep[k] = False
            i = j + 1
            continue
        i += 1
    return src, keep

REL = [(' < ', ' <= '), (' <= ', ' < '), (' > ', ' >= '), (' >= ', ' > '), (' == ', ' != '), (' != ', ' == '),
       (' < ', ' > '), (' > ', ' < '), (' <= ', ' >= '), (' >= ', ' <= ')]
LOGIC = [(' && ', ' || '), (' || ', ' && ')]
ORD = [('Ordering::Less', 'Ordering::Greater'), ('Ordering::Greater', 'Ordering::Less'),
       ('Ordering::Equal', 'Ordering::Less'), ('Ordering::Equal', 'Ordering::Greater')]
ARITH = [(' + 1', ''), (' - 1', ''), (' + 1', ' - 1'), (' - 1', ' + 1'), (' + 1', ' + 2'), ('<< 1', '<< 2'), ('>> 1', '>> 2'),
         (' += 1', ' += 2'), (' -= 1', ' -= 2'), ('..=', '..')]
BOOL = [('true', 'false'), ('false', 'true')]
SIDE = [('.left', '.right'), ('.right', '.left'), ('left_', 'right_'), ('right_', 'left_'), ('is_black', '!self.is_black'.replace('self.', ''))]

def occurrences(line, pat):
    i = line.find(pat)
    while i >= 0:
        yield i
        i = line.find(pat, i + 1)

def mutants(repo):
    out = []
    for d, _, fs in sorted(os.walk(os.path.join(repo, 'src'))):
        for f in sorted(fs):
            if not f.endswith('.rs') or f == 'verif.rs':
                continue
            path = os.path.join(d, f)
            rel = os.path.relpath(path, repo)
            src, keep = library_lines(path)
            for n, line in enumerate(src):
                if not keep[n]:
                    continue
                s = line.strip()
                if not s or s.startswith('//') or s.startswith('#[') or s.startswith('use ') or s.startswith('pub use'):
                    continue
                code = line.split('//')[0]
                if 'debug_assert' in code:
                    continue
                sig = s.startswith('fn ') or s.startswith('pub fn ') or s.startswith('pub(crate) fn ') or s.startswith('impl') \
                    or s.startswith('pub struct') or s.startswith('struct') or s.startswith('pub trait') or s.startswith('where') \
                    or s.startswith('pub(super) fn ') or s.startswith('type ') or s.startswith('const fn')
                if not sig:
                    for group, name in ((REL, 'rel'), (LOGIC, 'logic'), (ORD, 'ord'), (ARITH, 'arith'), (BOOL, 'bool')):
                        for a, b in group:
                            for col in occurrences(code, a):
                                if name == 'bool' and (col > 0 and (code[col - 1].isalnum() or code[col - 1] == '_')
                                                       or code[col + len(a):col + len(a) + 1].isalnum()
                                                       or code[col + len(a):col + len(a) + 1] == '_'):
                                    continue
                                out.append(dict(file=rel, line=n + 1, col=col, old=a, new=b, op=name))
                    for a, b in SIDE[:4]:
                        for col in occurrences(code, a):
                            out.append(dict(file=rel, line=n + 1, col=col, old=a, new=b, op='side'))
                    for col in occurrences(code, '!self.'):
                        out.append(dict(file=rel, line=n + 1, col=col, old='!self.', new='self.', op='neg'))
                    for col in occurrences(code, 'if !'):
                        out.append(dict(file=rel, line=n + 1, col=col, old='if !', new='if ', op='neg'))
                    # statement deletion: a call or an assignment on one line
                    if s.endswith(';') and not s.startswith('let ') and not s.startswith('return') and not s.startswith('break') \
                            and not s.startswith('continue') and s.count('(') == s.count(')') and '{' not in s and '}' not in s:
                        out.append(dict(file=rel, line=n + 1, col=0, old=line, new='', op='del'))
    # stable order, stable ids
    for i, m in enumerate(out):
        m['id'] = i
    return out

def apply(repo, m):
    path = os.path.join(repo, m['file'])
    src = open(path).read().split('\n')
    line = src[m['line'] - 1]
    if m['op'] == 'del':
        assert line == m['old']
        src[m['line'] - 1] = ''
    else:
        assert line[m['col']:m['col'] + len(m['old'])] == m['old'], (line, m)
        src[m['line'] - 1] = line[:m['col']] + m['new'] + line[m['col'] + len(m['old']):]
    open(path, 'w').write('\n'.join(src))

if __name__ == '__main__':
    cmd, repo = sys.argv[1], sys.argv[2]
    ms = mutants(repo)
    if cmd == 'list':
        json.dump(ms, sys.stdout, indent=0)
    elif cmd == 'count':
        from collections import Counter
        print(len(ms), Counter(m['op'] for m in ms), Counter(m['file'] for m in ms))
    elif cmd == 'apply':
        apply(repo, ms[int(sys.argv[3])])
