#!/bin/bash
# usage: tools/seed_try.sh <seed-id> <props...>   (expects /verif/seeded/<seed-id>/patch.diff)
# applies the seeded change to /repo, runs the named checks, reverts /repo. Prints one line per check.
id=$1; shift
d=/verif/seeded/$id
cd /repo || exit 2
git diff --quiet || { echo "/repo not clean"; exit 2; }
git apply $d/patch.diff || { echo "patch does not apply"; exit 2; }
mkdir -p $d/runs
for p in "$@"; do
  ( cd /verif && timeout 900 ./check run $p --tier quick > $d/runs/$p.quick.log 2>&1; echo "rc=$?" >> $d/runs/$p.quick.log )
  echo "== $id / $p: $(grep -E '^VIOLATION|^KNOWN' $d/runs/$p.quick.log | head -2 | tr '\n' ' ') $(tail -2 $d/runs/$p.quick.log | tr '\n' ' ')"
done
cd /repo && git checkout -- . && git status --short | head -3
# restore evidence of the unchanged tree is the caller's job (re-run the checks)
