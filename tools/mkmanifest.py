#!/usr/bin/env python3
"""regenerate /verif/MANIFEST.json from lean/props.json and the table below"""
import json, os
ROOT = os.path.dirname(os.path.dirname(os.path.abspath(__file__)))
reg = json.load(open(os.path.join(ROOT, 'lean', 'props.json')))
props = [json.loads(l) for l in open(os.path.join(ROOT, 'properties.jsonl'))]
TEXT = json.load(open(os.path.join(ROOT, 'tools', 'levels.json')))
hooks_commit = '7d8da2e'
hooks_commit2 = 'cc671f2'
checks = []; na = []
for p in props:
    pid = p['id']
    if pid in reg and reg[pid].get('theorems') and pid in TEXT:
        t = TEXT[pid]
        checks.append(dict(
            property_id=pid,
            quick_cmd='./check run %s --tier quick' % pid,
            thorough_cmd='./check run %s --tier thorough' % pid,
            evidence_file='/verif/evidence/%s.json' % pid,
            replay_cmd_template='./check replay {path}',
            engine='lean-model+tie-harness',
            level_claimed=dict(category='proof', text=t['text'], design_ref=t.get('design_ref', 'DESIGN.md §4 (theorems of ' + pid + '), §5 (tie), §8 (seeded changes)')),
            level_note=t['note'],
            technique=t.get('technique', 'Lean 4 theorems about a hand-written model + transition correspondence check against the real code + oracle search'),
        ))
    else:
        na.append(dict(property_id=pid, reason=TEXT.get(pid, {}).get('na', 'check not yet registered: the Lean theorems for this property are still under construction in this session (model, tie and oracle already exist)')))
m = dict(
    version=1,
    setup_cmd='./check setup',
    hooks=dict(guard='verif', enable='cargo feature: the harness depends on i_tree by path with features = ["verif"] (cargo build --offline in /verif/harness)',
               baseline_off_cmd='cd /repo && cargo test --workspace --no-fail-fast --offline', source_commits=[hooks_commit, hooks_commit2], add_only=True),
    engines=[dict(name='lean-model', path='/verif/lean', serves_properties=[c['property_id'] for c in checks], kind_free_text='Lean 4 model of the collections, property theorems (ITree/Props), protocol driver (lean_exe)'),
             dict(name='tie-harness', path='/verif/harness', serves_properties=[c['property_id'] for c in checks], kind_free_text='Rust harness running the real collections (feature verif): abstraction function, transition emitter, oracles, generators, panic injection')],
    checks=checks,
    notes='Every check = (1) lake build of the property theorems + axiom audit, (2) correspondence of the Lean model with the real code on exhaustive small universes, seeded random histories and the corpus, (3) independent oracles on the real code to search for a failing input. See DESIGN.md.',
    not_applicable=na,
)
json.dump(m, open(os.path.join(ROOT, 'MANIFEST.json'), 'w'), indent=1)
print('checks:', [c['property_id'] for c in checks]); print('not claimed:', [x['property_id'] for x in na])
