#!/bin/bash
# usage: tools/coverage.sh [quick|thorough]
# Which lines of /repo/src do the generators of the correspondence check execute? Builds the harness with
# source-based coverage (nightly toolchain: its llvm-tools match its rustc), runs every suite of the tie,
# and prints llvm-cov's per-file summary plus the uncovered library lines. A supporting measurement of the
# tie's reach (DESIGN.md section 5); not a registered check.
tier=${1:-quick}
W=/tmp/itree-cov
BIN=$(rustc +nightly --print sysroot)/lib/rustlib/x86_64-unknown-linux-gnu/bin
rm -rf $W/prof $W/out; mkdir -p $W/prof $W/out
cd /verif/harness || exit 2
RUSTFLAGS="-C instrument-coverage" CARGO_NET_OFFLINE=true CARGO_TARGET_DIR=$W/target cargo +nightly build --offline 2>&1 | tail -1
H=$W/target/debug/itree-harness
for s in map set key mlist slist klist seg seg-layout seg-masks seg-pairs export-size \
         inject-map inject-set inject-key inject-mlist inject-slist inject-klist inject-seg arena-map arena-set arena-key; do
  base=${s#arena-}
  corpus=/verif/corpus/$base.ops
  [ -f $corpus ] || corpus=
  LLVM_PROFILE_FILE=$W/prof/$s-%p.profraw timeout 1200 $H $s $W/out/$s 1 $tier $corpus > /dev/null 2>&1
  echo "suite $s rc=$?"
  rm -rf $W/out/$s
done
$BIN/llvm-profdata merge -sparse $W/prof/*.profraw -o $W/all.profdata
$BIN/llvm-cov report $H -instr-profile=$W/all.profdata --ignore-filename-regex='(\.cargo|rustc|harness/src|verif\.rs)' 2>/dev/null | tee $W/report.txt
$BIN/llvm-cov show $H -instr-profile=$W/all.profdata --ignore-filename-regex='(\.cargo|rustc|harness/src|verif\.rs)' --show-line-counts-or-regions 2>/dev/null > $W/show.txt
python3 - <<'PY'
import re
cur=None; unc={}
intest=False
for line in open('/tmp/itree-cov/show.txt'):
    if line.startswith('/repo/src') and line.rstrip().endswith(':'):
        cur=line.strip()[:-1]; continue
    m=re.match(r'\s*(\d+)\|\s*([0-9.kMG]*)\|(.*)',line)
    if not m or cur is None: continue
    n,cnt,src=m.groups()
    if cnt=='0': unc.setdefault(cur,[]).append((int(n),src.rstrip()))
print('\nUNCOVERED LINES (count 0), excluding #[cfg(test)] code by inspection:')
for f,ls in sorted(unc.items()):
    print(f, len(ls))
    for n,s in ls: print('   %4d %s'%(n,s[:110]))
PY
