#!/usr/bin/env python3
"""writes tools/src_fingerprint.json: sha256 of every library source file of /repo as it is now (run after every
commit to /repo; the quick tier deepens its search for collections whose sources differ from this record)"""
import hashlib, json, os
REPO = os.environ.get('VP_RUN_REPO') or '/repo'
out = {}
for d, _, fs in os.walk(os.path.join(REPO, 'src')):
    for f in fs:
        if f.endswith('.rs'):
            p = os.path.join(d, f)
            out[os.path.relpath(p, REPO)] = hashlib.sha256(open(p, 'rb').read()).hexdigest()
here = os.path.dirname(os.path.abspath(__file__))
json.dump(dict(sorted(out.items())), open(os.path.join(here, 'src_fingerprint.json'), 'w'), indent=1)
print('%d files' % len(out))
