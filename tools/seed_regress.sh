#!/bin/bash
# runs every seeded change against the check of the property it was written for; one line per seed
cd /verif
for d in seeded/*/; do
  id=$(basename $d)
  [ -f $d/patch.diff ] || continue
  p=$(python3 -c "import json,sys; m=json.load(open('$d/meta.json')); print(m.get('property',''))" 2>/dev/null)
  [ -z "$p" ] && p=$(echo $id | sed 's/-.*//')
  tools/seed_try.sh $id $p 2>&1 | grep "^=="
done
