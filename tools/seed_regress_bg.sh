#!/bin/bash
# Background form of seed_regress.sh: runs every seeded change against the check of the property it was written
# for, in the private repository copy of a `vp run --with-repo` (VP_RUN_REPO), never in /repo. One line per seed.
#   vp run --with-repo -- tools/seed_regress_bg.sh
R=${VP_RUN_REPO:?needs VP_RUN_REPO (vp run --with-repo)}
cd "$(dirname "$0")/.."
./check setup > setup.log 2>&1 || { echo "setup failed"; exit 2; }
for d in seeded/*/; do
  id=$(basename $d)
  [ -f $d/patch.diff ] || continue
  case $id in harmless-*) continue;; esac
  p=$(python3 -c "import json; m=json.load(open('$d/meta.json')); print(m.get('property',''))" 2>/dev/null)
  [ -z "$p" ] && p=$(echo $id | sed 's/-.*//')
  git -C $R apply $PWD/$d/patch.diff || { echo "== $id: patch does not apply"; continue; }
  out=$(timeout 900 ./check run $p --tier quick 2>&1)
  v=$(echo "$out" | grep -c '^VIOLATION')
  echo "== $id / $p: violations=$v $(echo "$out" | grep -E '^VIOLATION' | head -1 | sed 's/replay=.*replays\// /') | $(echo "$out" | tail -1)"
  git -C $R checkout -- . 
done
