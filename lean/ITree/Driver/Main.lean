import ITree.Model.Tree
import ITree.Model.Pool
import ITree.Model.Map
import ITree.Model.KeyExp
import ITree.Model.Lists
import ITree.Model.Seg
import ITree.Model.SegMach
import ITree.Model.SegTrace
import ITree.Model.Check
import ITree.Model.SegCheck
import ITree.Model.Arena
import ITree.Model.ArenaTrace
/-!
# Line-protocol driver: evaluates the model definitions (the ones the theorems are about)

One request per line: `<coll> <op> <args…> | <state> [| inj <k>]`; one answer per line.
The parser/printer below is part of the trusted tie, not of the verified model.
-/
open ITree

abbrev E := Ent Int
abbrev Toks := List String

def tokInt (s : String) : Option Int := s.toInt?
def tokNat (s : String) : Option Nat := s.toNat?

/-- parse a prefix-encoded tree: `L` or `N <R|B> <slot> <key> <exp> <val> <left> <right>` -/
partial def parseTree : Toks → Option (T E × Toks)
  | "L" :: rest => some (.leaf, rest)
  | "N" :: c :: s :: k :: x :: v :: rest => do
    let c ← (if c == "R" then some Color.red else if c == "B" then some Color.black else none)
    let s ← tokNat s
    let k ← tokInt k
    let x ← tokInt x
    let v ← tokInt v
    let (l, rest) ← parseTree rest
    let (r, rest) ← parseTree rest
    some (.node c l s ⟨k, x, v⟩ r, rest)
  | _ => none

def takeN {α} (f : String → Option α) : Nat → Toks → Option (List α × Toks)
  | 0, ts => some ([], ts)
  | n+1, t :: ts => do
    let a ← f t
    let (as, rest) ← takeN f n ts
    some (a :: as, rest)
  | _, [] => none

/-- `P <bufLen> <cap> <n> <bottom … top>` -/
def parsePool : Toks → Option (Pool × Toks)
  | "P" :: b :: c :: n :: rest => do
    let b ← tokNat b
    let c ← tokNat c
    let n ← tokNat n
    let (us, rest) ← takeN tokNat n rest
    some ({ bufLen := b, unused := us.reverse, cap := c }, rest)
  | _ => none

def parseSt (ts : Toks) : Option (St Int) := do
  let (p, rest) ← parsePool ts
  match rest with
  | "T" :: rest =>
    let (t, rest) ← parseTree rest
    if rest.isEmpty then some { tree := t, pool := p } else none
  | _ => none

def parseEnts : Nat → Toks → Option (List E × Toks)
  | 0, ts => some ([], ts)
  | n+1, k :: x :: v :: ts => do
    let k ← tokInt k
    let x ← tokInt x
    let v ← tokInt v
    let (es, rest) ← parseEnts n ts
    some (⟨k, x, v⟩ :: es, rest)
  | _, _ => none

def parseL : Toks → Option (List E)
  | "L" :: n :: rest => do
    let n ← tokNat n
    let (es, rest) ← parseEnts n rest
    if rest.isEmpty then some es else none
  | _ => none

def parseK : Toks → Option (KL Int)
  | "K" :: m :: mx :: n :: rest => do
    let m ← tokInt m
    let mx ← tokInt mx
    let n ← tokNat n
    let (es, rest) ← parseEnts n rest
    if rest.isEmpty then some { buf := es, minExp := m, maxE := mx } else none
  | _ => none

def parseSegEnts : Nat → Toks → Option (List (SegEnt Int) × Toks)
  | 0, ts => some ([], ts)
  | n+1, v :: x :: m :: ts => do
    let v ← tokInt v
    let x ← tokInt x
    let m ← tokNat m
    let (es, rest) ← parseSegEnts n ts
    some (⟨v, x, m⟩ :: es, rest)
  | _, _ => none

def parseChunks : Nat → Toks → Option (List (List (SegEnt Int)) × Toks)
  | 0, ts => some ([], ts)
  | n+1, len :: ts => do
    let len ← tokNat len
    let (c, rest) ← parseSegEnts len ts
    let (cs, rest) ← parseChunks n rest
    some (c :: cs, rest)
  | _, _ => none

/-- `S <min> <max> <scale> <count> (<len> (<val> <exp> <mask>)*)*` -/
def parseSeg : Toks → Option (Seg Int)
  | "S" :: mn :: mx :: sc :: cnt :: rest => do
    let mn ← tokInt mn
    let mx ← tokInt mx
    let sc ← tokNat sc
    let cnt ← tokNat cnt
    let (cs, rest) ← parseChunks cnt rest
    if rest.isEmpty then some { layout := ⟨mn, mx, sc⟩, chunks := cs } else none
  | _ => none

/-! printers -/

def showTree : T E → String
  | .leaf => "L"
  | .node c l s e r =>
    s!"N {if c == .red then "R" else "B"} {s} {e.key} {e.exp} {e.val} {showTree l} {showTree r}"

def joinSp (l : List String) : String := " ".intercalate l

def showPool (p : Pool) : String :=
  joinSp (["P", toString p.bufLen, toString p.cap, toString p.unused.length] ++ p.unused.reverse.map toString)

def showSt (st : St Int) : String := s!"{showPool st.pool} T {showTree st.tree}"

def showEnts (es : List E) : String :=
  joinSp (es.flatMap fun e => [toString e.key, toString e.exp, toString e.val])

def showL (l : List E) : String := joinSp ["L", toString l.length, showEnts l] |>.trimAscii.toString
def showK (s : KL Int) : String :=
  (joinSp ["K", toString s.minExp, toString s.maxE, toString s.buf.length, showEnts s.buf]).trimAscii.toString

def showSeg (s : Seg Int) : String :=
  joinSp (["S", toString s.layout.min, toString s.layout.max, toString s.layout.scale, toString s.chunks.length] ++
    s.chunks.flatMap fun c => toString c.length :: c.flatMap fun e => [toString e.val, toString e.exp, toString e.mask])

def showOptNat : Option Nat → String
  | none => "none"
  | some n => toString n
def showOptInt : Option Int → String
  | none => "none"
  | some n => toString n
def showInts (l : List Int) : String := "[" ++ ",".intercalate (l.map toString) ++ "]"

def showEv (ev : Ev Int) : String :=
  s!"{if ev.kind == .cmp then "c" else "e"}:{ev.ent.key}:{ev.ent.exp}"
/-- chronological -/
def showTrace (tr : List (Ev Int)) : String := joinSp (tr.reverse.map showEv)

def wfStr (st : St Int) : String :=
  let o := st.tree.orderedCheck
  let b := st.tree.balCheck.isSome
  let s := slotsCheck st.tree st.pool
  if o && b && s then "1" else s!"0:ord={o},bal={b},slots={s}"

/-- comparator family used by the harness: `f k = (2k).cmp(q)` -/
def cmpQ (q : Int) : Int → Ordering := fun k => compare (2 * k) q

def answer (wf out st tr : String) : String := s!"wf={wf} | out={out} | st={st} | tr={tr}"

def injAnswer (wf : String) (tr : List (Ev Int)) (k : Nat) (total : String) : String :=
  match tr.reverse[k]? with
  | some ev => answer wf "panic" (showSt { tree := ev.tree, pool := ev.pool }) total
  | none => answer wf "no-such-callback" "-" total

def runTree (coll : String) (op : Toks) (st : St Int) (inj : Option Nat) : String :=
  let wf := wfStr st
  let isSet := coll == "set"
  let isKey := coll == "key"
  let fault := answer wf "FAULT" "-" ""
  -- the set calls `KeyValue::key` on the stored value before each comparison
  let cbs (visited : Nat) : Nat := if isSet then 2 * visited else visited
  let noCb (n : Nat) (out : String) (st' : St Int) : String :=
    -- map/set: all callbacks precede the first write, so an injected panic leaves the pre-state
    let ns := if isKey then "" else s!"n={n}"
    match inj with
    | none => answer wf out (showSt st') ns
    | some k => if k < n then answer wf "panic" (showSt st) ns else answer wf "no-such-callback" "-" ns
  match isKey, op with
  | _, ["new", c] => match tokNat c with
    | some c => answer "1" "ok" (showSt (St.new c : St Int)) ""
    | none => "BAD"
  | false, ["insert", k, v] => match tokInt k, tokInt v with
    | some k, some v => noCb (if isSet then (if st.tree.isLeaf then 0 else 2 * st.tree.visitIns k + 1) else st.tree.visitIns k) "ok" (st.insert ⟨k, 0, v⟩)
    | _, _ => "BAD"
  | false, ["delete", k] => match tokInt k with
    | some k => match st.delete k with
      | some st' => noCb (cbs (st.tree.visitFind k)) "ok" st'
      | none => fault
    | none => "BAD"
  | false, ["delidx", h] => match tokNat h with
    | some h => match st.deleteByIndex h with
      | some st' => noCb 0 "ok" st'
      | none => fault
    | none => "BAD"
  | false, ["get", k] => match tokInt k with
    | some k => noCb (cbs (st.tree.visitFind k)) (showOptInt (st.getValue k)) st
    | none => "BAD"
  | false, ["validx", h] => match tokNat h with
    | some h => match st.valueByIndex h with
      | some v => noCb 0 (toString v) st
      | none => fault
    | none => "BAD"
  | false, ["setidx", h, v] => match tokNat h, tokInt v with
    | some h, some v => match st.setValueByIndex h v with
      | some st' => noCb 0 "ok" st'
      | none => fault
    | _, _ => "BAD"
  | false, ["fil", k] => match tokInt k with
    | some k => noCb (cbs (st.tree.visitLEBy (fun x => compare x k))) (showOptNat (st.firstIndexLess k)) st
    | none => "BAD"
  | false, ["filby", q] => match tokInt q with
    | some q => noCb (cbs (st.tree.visitLEBy (cmpQ q))) (showOptNat (st.firstIndexLessBy (cmpQ q))) st
    | none => "BAD"
  | _, ["clear"] => noCb 0 "ok" st.clear
  | _, ["isempty"] => noCb 0 (toString st.isEmpty) st
  | false, ["after", h] => if !isSet then "BAD" else match tokNat h with
    | some h => match st.indexAfter h with
      | some r => noCb 0 (showOptNat r) st
      | none => fault
    | none => "BAD"
  | false, ["before", h] => if !isSet then "BAD" else match tokNat h with
    | some h => match st.indexBefore h with
      | some r => noCb 0 (showOptNat r) st
      | none => fault
    | none => "BAD"
  | true, ["insert", k, x, v, t] => match tokInt k, tokInt x, tokInt v, tokInt t with
    | some k, some x, some v, some t => match st.kInsert ⟨k, x, v⟩ t with
      | some (st', tr) => match inj with
        | none => answer wf "ok" (showSt st') (showTrace tr)
        | some i => injAnswer wf tr i (showTrace tr)
      | none => fault
    | _, _, _, _ => "BAD"
  | true, [m, t, k] =>
    let mode : Option (Mode × Bool) := match m with
      | "fl" => some (.fl, false) | "fle" => some (.fle, false) | "fleby" => some (.fle, true)
      | "get" => some (.get, false) | _ => none
    if m == "export" then "BAD" else
    match mode, tokInt t, tokInt k with
    | some (mode, by_), some t, some k =>
      let f : Int → Ordering := if by_ then cmpQ k else fun x => compare x k
      match st.kQuery mode t f with
      | some (st', r, tr) => match inj with
        | none => answer wf (showOptInt r) (showSt st') (showTrace tr)
        | some i => injAnswer wf tr i (showTrace tr)
      | none => fault
    | _, _, _ => "BAD"
  | true, ["export", t] => match tokInt t with
    | some t => match st.kExport t with
      | some (st', vals, capReq, tr) => match inj with
        | none => answer wf s!"{showInts vals} cap={capReq}" (showSt st') (showTrace tr)
        | some i => injAnswer wf tr i (showTrace tr)
      | none => fault
    | none => "BAD"
  | _, _ => "BAD"

def runList (op : Toks) (l : List E) (inj : Option Nat := none) : String :=
  let wf := if sortedCheck l then "1" else "0:sorted"
  -- every callback of the plain lists is made by the binary search, before any mutation
  if inj.isSome then answer wf "panic" (showL l) "" else
  let fault := answer wf "FAULT" "-" ""
  let ok (out : String) (l' : List E) := answer wf out (showL l') ""
  match op with
  | ["new", _] => ok "ok" LSt.new
  | ["insert", k, v] => match tokInt k, tokInt v with
    | some k, some v => ok "ok" (LSt.insert l ⟨k, 0, v⟩)
    | _, _ => "BAD"
  | ["delete", k] => match tokInt k with
    | some k => ok "ok" (LSt.delete l k)
    | none => "BAD"
  | ["delidx", h] => match tokNat h with
    | some h => match LSt.deleteByIndex l h with
      | some l' => ok "ok" l'
      | none => fault
    | none => "BAD"
  | ["get", k] => match tokInt k with
    | some k => ok (showOptInt (LSt.getValue l k)) l
    | none => "BAD"
  | ["validx", h] => match tokNat h with
    | some h => match LSt.valueByIndex l h with
      | some v => ok (toString v) l
      | none => fault
    | none => "BAD"
  | ["setidx", h, v] => match tokNat h, tokInt v with
    | some h, some v => match LSt.setValueByIndex l h v with
      | some l' => ok "ok" l'
      | none => fault
    | _, _ => "BAD"
  | ["fil", k] => match tokInt k with
    | some k => ok (showOptNat (LSt.firstIndexLess l k)) l
    | none => "BAD"
  | ["filby", q] => match tokInt q with
    | some q => ok (showOptNat (LSt.firstIndexLessBy l (cmpQ q))) l
    | none => "BAD"
  | ["clear"] => ok "ok" (LSt.clear l)
  | ["isempty"] => ok (toString l.isEmpty) l
  | ["after", h] => match tokNat h with
    | some h => match LSt.indexAfter l h with
      | some r => ok (showOptNat r) l
      | none => fault
    | none => "BAD"
  | ["before", h] => match tokNat h with
    | some h => match LSt.indexBefore l h with
      | some r => ok (showOptNat r) l
      | none => fault
    | none => "BAD"
  | _ => "BAD"

def klInj (wf : String) (states : List (KL Int) × KL Int) (k : Nat) : String :=
  match states.1[k]? with
  | some st => answer wf "panic" (showK st) s!"n>={states.1.length}"
  | none => answer wf "panic" (showK states.2) s!"n>={states.1.length}"

def runKList (op : Toks) (s : KL Int) (inj : Option Nat := none) : String :=
  let wf := if sortedCheck s.buf && s.invCheck then "1" else s!"0:sorted={sortedCheck s.buf},minexp={s.invCheck}"
  if let some k := inj then
    match op with
    | ["insert", kk, x, v, t] => match tokInt kk, tokInt x, tokInt v, tokInt t with
      | some kk, some x, some v, some t => klInj wf (s.insertStates ⟨kk, x, v⟩ t) k
      | _, _, _, _ => "BAD"
    | ["export", t] => match tokInt t with
      | some t => klInj wf (s.queryStates t) k
      | none => "BAD"
    | [_, t, _] => match tokInt t with
      | some t => klInj wf (s.queryStates t) k
      | none => "BAD"
    | _ => "BAD"
  else
  let ok (out : String) (s' : KL Int) := answer wf out (showK s') ""
  match op with
  | ["new", mx] => match tokInt mx with
    | some mx => ok "ok" (KL.new mx)
    | none => "BAD"
  | ["insert", k, x, v, t] => match tokInt k, tokInt x, tokInt v, tokInt t with
    | some k, some x, some v, some t => ok "ok" (s.insert ⟨k, x, v⟩ t)
    | _, _, _, _ => "BAD"
  | ["clear"] => ok "ok" s.clear
  | ["isempty"] => ok (toString s.buf.isEmpty) s
  | ["export", t] => match tokInt t with
    | some t => let (s', vals) := s.export t; ok s!"{showInts vals} cap={vals.length}" s'
    | none => "BAD"
  | [m, t, k] =>
    let mode : Option (Mode × Bool) := match m with
      | "fl" => some (.fl, false) | "fle" => some (.fle, false) | "fleby" => some (.fle, true)
      | "get" => some (.get, false) | _ => none
    match mode, tokInt t, tokInt k with
    | some (mode, by_), some t, some k =>
      let f : Int → Ordering := if by_ then cmpQ k else fun x => compare x k
      let (s', r) := s.query mode t f
      ok (showOptInt r) s'
    | _, _, _ => "BAD"
  | _ => "BAD"

def parseIns : Nat → Toks → Option (List (SegIns Int))
  | 0, [] => some []
  | 0, _ => none
  | n+1, a :: b :: v :: x :: ts => do
    let a ← tokInt a
    let b ← tokInt b
    let v ← tokInt v
    let x ← tokInt x
    let rest ← parseIns n ts
    some (⟨a, b, v, x⟩ :: rest)
  | _, _ => none

/-- `LV <T|none> <lo> <hi> <n> (<a> <b> <val> <exp>)*`: the values inserted since the last clear -/
def segWf (s : Seg Int) : Toks → String
  | "LV" :: t :: lo :: hi :: n :: rest =>
    match (if t == "none" then some none else (tokInt t).map some), tokInt lo, tokInt hi, tokNat n with
    | some T, some lo, some hi, some n =>
      match parseIns n rest with
      | some lv => if segOKCheck s lv T lo hi then "1" else "0:segrel"
      | none => "0:badLV"
    | _, _, _, _ => "0:badLV"
  | _ => "1"

/-- the machine-integer transcription (`Model/SegMach.lean`) must complete and agree with the unbounded
model on every request (`Props/SegMach.lean` proves it does inside the contract) -/
def machInsertOK (s : Seg Int) (a b : Int) : Bool :=
  Mach.insertMask s.layout a b == some (s.layout.insertMask a b) &&
  Mach.bits (s.layout.insertMask a b) == some (bits (s.layout.insertMask a b))
def machQueryOK (s : Seg Int) (a b : Int) : Bool :=
  Mach.queryMask s.layout a b == some (s.layout.queryMask a b) &&
  Mach.bits (s.layout.queryMask a b) == some (bits (s.layout.queryMask a b))

def runSeg (op : Toks) (s? : Option (Seg Int)) (extra : Toks := []) : String :=
  let answerM := fun (mach : Bool) (out st tr : String) =>
    answer (if !mach then "0:mach" else match s? with | some s => segWf s extra | none => "1") out st tr
  let answer := fun (_ : String) (out st tr : String) => answerM true out st tr
  match op, s? with
  | ["masks", a, b], _ => match tokNat a, tokNat b with
    | some a, some b =>
      -- answered by the machine-integer transcription of the two loops
      match Mach.placeMask a b, Mach.visitMask a b with
      | some p, some v => answerM (p == placeMask a b && v == visitMask a b) s!"{p} {v}" "-" ""
      | _, _ => answer "1" "FAULT" "-" ""
    | _, _ => "BAD"
  | ["new", lo, hi], _ => match tokInt lo, tokInt hi with
    | some lo, some hi =>
      match Mach.layoutNew lo hi with
      | none => answer "1" "FAULT" "-" ""
      | some none => answerM ((Seg.new lo hi : Option (Seg Int)).isNone) "none" "-" ""
      | some (some l) =>
        match Mach.count l with
        | none => answer "1" "FAULT" "-" ""
        | some c =>
          let s : Seg Int := { layout := l, chunks := List.replicate c [] }
          answerM ((Seg.new lo hi : Option (Seg Int)).map showSeg == some (showSeg s)) "some" (showSeg s) ""
    | _, _ => "BAD"
  | ["index", x], some s => match tokInt x with
    | some x => match Mach.index s.layout x with
      | some i => answerM (i == s.layout.index x) (toString i) (showSeg s) ""
      | none => answer "1" "FAULT" (showSeg s) ""
    | none => "BAD"
  | ["insert", a, b, v, x], some s => match tokInt a, tokInt b, tokInt v, tokInt x with
    | some a, some b, some v, some x => match s.insert a b v x with
      | some s' => answerM (machInsertOK s a b) "ok" (showSeg s') ""
      | none => answer "1" "FAULT" "-" ""
    | _, _, _, _ => "BAD"
  | ["query", a, b, t, n], some s => match tokInt a, tokInt b, tokInt t, tokInt n with
    | some a, some b, some t, some n =>
      match s.iter a b t with
      | none => answer "1" "FAULT" "-" ""
      | some it =>
        let total := (s.chunks.map List.length).sum + 1
        match segTake (if n < 0 then total else n.toNat) s it [] with
        | some (s', _, vals) => answerM (machQueryOK s a b) (showInts vals) (showSeg s') ""
        | none => answer "1" "FAULT" "-" ""
    | _, _, _, _ => "BAD"
  | ["clear"], some s => answer "1" "ok" (showSeg s.clear) ""
  | _, _ => "BAD"

/-- a panic injected into the `k`-th `expiration()` call of a query (C18): the tree `Model/SegTrace.lean`
records for that call -/
def runSegInj (op : Toks) (s : Seg Int) (extra : Toks) (k : Nat) : String :=
  match op with
  | ["query", a, b, t, n] => match tokInt a, tokInt b, tokInt t, tokInt n with
    | some a, some b, some t, some n =>
      let total := (s.chunks.map List.length).sum + 1
      match s.queryT a b t (if n < 0 then total else n.toNat) with
      | none => answer (segWf s extra) "FAULT" "-" ""
      | some (_, _, tr) => match tr.reverse[k]? with
        | some ev => answer (segWf s extra) "panic" (showSeg ev) ""
        | none => answer (segWf s extra) "no-such-callback" "-" ""
    | _, _, _, _ => "BAD"
  | _ => answer (segWf s extra) "no-such-callback" "-" ""

/-! arena-level model: `R <root> <cap> <nUnused> u… N <n> (<parent> <left> <right> <red> <key> <exp> <val>)*` -/

def parseANodes : Nat → Toks → Option (List (ANode Int) × Toks)
  | 0, ts => some ([], ts)
  | n+1, p :: l :: r :: c :: k :: x :: v :: ts => do
    let p ← tokNat p
    let l ← tokNat l
    let r ← tokNat r
    let k ← tokInt k
    let x ← tokInt x
    let v ← tokInt v
    let (ns, rest) ← parseANodes n ts
    some (⟨p, l, r, c == "1", ⟨k, x, v⟩⟩ :: ns, rest)
  | _, _ => none

def parseArena (dflt : E) : Toks → Option (Arena Int)
  | "R" :: root :: cap :: nu :: rest => do
    let root ← tokNat root
    let cap ← tokNat cap
    let nu ← tokNat nu
    let (us, rest) ← takeN tokNat nu rest
    match rest with
    | "N" :: n :: rest =>
      let n ← tokNat n
      let (ns, rest) ← parseANodes n rest
      if rest.isEmpty then some { nodes := ns.toArray, root := root, unused := us.toArray, cap := cap, dflt := dflt } else none
    | _ => none
  | _ => none

def showArena (a : Arena Int) : String :=
  joinSp (["R", toString a.root, toString a.cap, toString a.unused.size] ++ a.unused.toList.map toString ++
    ["N", toString a.nodes.size] ++ a.nodes.toList.flatMap fun n =>
      [toString n.parent, toString n.left, toString n.right, if n.red then "1" else "0",
       toString n.ent.key, toString n.ent.exp, toString n.ent.val])

def showH (h : Nat) : String := if h == EMPTY then "none" else toString h

def fieldOf (name : String) (ans : String) : String :=
  match (ans.splitOn " | ").find? (fun p => p.startsWith (name ++ "=")) with
  | some p => (p.drop (name.length + 1)).toString
  | none => ""

/-- run one operation on the arena model; `none` = fault -/
def arenaOp (isKey : Bool) (op : Toks) (a : Arena Int) : Option (Arena Int × String) :=
  let fuel := a.nodes.size + 1
  match isKey, op with
  | false, ["insert", k, v] => do
    let k ← tokInt k; let v ← tokInt v
    let a' ← a.insert ⟨k, 0, v⟩
    pure (a', "ok")
  | false, ["delete", k] => do
    let k ← tokInt k
    let a' ← a.delete k
    pure (a', "ok")
  | false, ["delidx", h] => do
    let h ← tokNat h
    let a' ← a.deleteIndex h
    pure (a', "ok")
  | false, ["get", k] => do
    let k ← tokInt k
    let i ← Arena.findIndex fuel a k a.root
    if i == EMPTY then pure (a, "none") else do
      let n ← a.node i
      pure (a, toString n.ent.val)
  | false, ["validx", h] => do
    let h ← tokNat h
    let n ← a.node h
    pure (a, toString n.ent.val)
  | false, ["setidx", h, v] => do
    let h ← tokNat h; let v ← tokInt v
    let n ← a.node h
    let a' ← a.setEnt h (n.ent.setVal v)
    pure (a', "ok")
  | false, ["fil", k] => do
    let k ← tokInt k
    let r ← Arena.firstLessBy fuel a (fun x => compare x k) a.root EMPTY
    pure (a, showH r)
  | false, ["filby", q] => do
    let q ← tokInt q
    let r ← Arena.firstLessBy fuel a (cmpQ q) a.root EMPTY
    pure (a, showH r)
  | false, ["after", h] => do
    let h ← tokNat h
    let r ← a.indexAfter h
    pure (a, showH r)
  | false, ["before", h] => do
    let h ← tokNat h
    let r ← a.indexBefore h
    pure (a, showH r)
  | _, ["clear"] => do
    let a' ← a.clear
    pure (a', "ok")
  | _, ["isempty"] => pure (a, toString (a.root == EMPTY))
  | true, ["insert", k, x, v, t] => do
    let k ← tokInt k; let x ← tokInt x; let v ← tokInt v; let t ← tokInt t
    let a' ← a.kInsert ⟨k, x, v⟩ t
    pure (a', "ok")
  -- `height()`: the capacity reserved for the export's stack (`Props/ArenaStack.lean`)
  | true, ["stackcap"] => do
    let c ← a.heightCap
    pure (a, toString c)
  | true, ["export", t] => do
    let t ← tokInt t
    let (a', vals, capReq) ← a.kExport t
    -- the exported vector as the explicit-stack loop of the Rust code produces it (`Model/ArenaTrace.lean`;
    -- `arena_export_stack`: it is the recursive walk's)
    let sv ← a'.exportStack
    if sv != vals then none else
    pure (a', s!"{showInts sv} cap={capReq}")
  | true, [m, t, k] => do
    let (mode, by_) ← (match m with
      | "fl" => some (Mode.fl, false) | "fle" => some (Mode.fle, false) | "fleby" => some (Mode.fle, true)
      | "get" => some (Mode.get, false) | _ => none)
    let t ← tokInt t; let k ← tokInt k
    let f : Int → Ordering := if by_ then cmpQ k else fun x => compare x k
    let (a', r) ← a.kQuery mode t f
    pure (a', showOptInt r)
  | _, _ => none

/-- callbacks of one operation of the expiring tree, run by the instrumented arena model -/
def arenaTrace (op : Toks) (a : Arena Int) : Option (List (AEv Int)) :=
  match op with
  | ["insert", k, x, v, t] => do
    let k ← tokInt k; let x ← tokInt x; let v ← tokInt v; let t ← tokInt t
    let (_, tr) ← a.kInsertT ⟨k, x, v⟩ t
    pure tr
  | ["export", t] => do
    let t ← tokInt t
    let (_, _, _, tr) ← a.kExportT t
    pure tr
  | [m, t, k] => do
    let (mode, by_) ← (match m with
      | "fl" => some (Mode.fl, false) | "fle" => some (Mode.fle, false) | "fleby" => some (Mode.fle, true)
      | "get" => some (Mode.get, false) | _ => none)
    let t ← tokInt t; let k ← tokInt k
    let f : Int → Ordering := if by_ then cmpQ k else fun x => compare x k
    let (_, _, tr) ← a.kQueryT mode t f
    pure tr
  | _ => none

/-- a panic injected into callback `k` (C18 at the pointer level): the arena the instrumented pointer-code
model records for that callback; `wf` also requires that its abstraction is the state the zipper model records
for the same callback (`TrRep`, proved in `Lemmas/ArenaTrace.lean`, observed here per injection) -/
def runArenaInj (coll : String) (op : Toks) (a : Arena Int) (k : Nat) : String :=
  let base := (coll.drop 1).toString
  match a.absP with
  | none => "wf=0:abs | out=FAULT | st=- | tr="
  | some st =>
    if base != "key" then
      -- map / set: the instrumented transcription of the two mutating operations that call user code; the
      -- read-only operations take `&self`
      let tr? : Option (List (AEv Int)) := match op with
        | ["insert", kk, v] => match tokInt kk, tokInt v with
          | some kk, some v => (a.insertT ⟨kk, 0, v⟩).map (·.2)
          | _, _ => none
        | ["delete", kk] => match tokInt kk with
          | some kk => (a.deleteT kk).map (·.2)
          | none => none
        | _ => some (List.replicate (k + 1) ⟨.cmp, a.dflt, a⟩)
      -- (the real code makes further callbacks per visited node — key accessors — so the injection index is not
      -- an index into this trace; every recorded arena is the pre-arena: `arena_map_insert/delete_callbacks`)
      match tr? with
      | none => "wf=1 | out=FAULT | st=- | tr="
      | some tr =>
        let pre := showArena a
        let same := tr.all fun ae => showArena ae.arena == pre
        s!"wf={if same then "1" else "0:trace"} | out=panic | st={pre} | tr="
    else if !(a.garbageOK st.tree.slots && a.zeroOK) then "wf=0:garbage | out=FAULT | st=- | tr=" else
    match arenaTrace op a with
    | none => "wf=1 | out=FAULT | st=- | tr="
    | some tr =>
      match tr.reverse[k]? with
      | none => "wf=1 | out=no-such-callback | st=- | tr="
      | some ae =>
        let z := runTree base op st (some k)
        let absStr := match ae.arena.abs with
          | some st' => showSt st'
          | none => "ABSFAIL"
        let ok := fieldOf "st" z == absStr && fieldOf "wf" z == "1" && fieldOf "out" z == "panic"
        s!"wf={if ok then "1" else "0:refine-trace"} | out=panic | st={showArena ae.arena} | tr="

/-- arena request: the answer carries the raw arena; `wf` reports whether the arena model agrees
with the zipper model on the abstraction of the same pre-state (refinement, checked per transition) -/
def runArena (coll : String) (op : Toks) (a : Arena Int) : String :=
  let base := (coll.drop 1).toString     -- amap -> map
  let isKey := base == "key"
  -- `absP` / `garbageOK` / `zeroOK`: the hypotheses `RepSt` / `RepStG` of the arena-level theorems, decided on the
  -- real pre-arena (sound by `absP_sound`, `repCheck_sound`)
  match a.absP with
  | none => "wf=0:abs | out=FAULT | st=- | tr="
  | some st =>
    if isKey && !(a.garbageOK st.tree.slots && a.zeroOK) then "wf=0:garbage | out=FAULT | st=- | tr=" else
    -- `height()`: the zipper model has no such operation; what is cross-checked is the statement of
    -- `arena_export_stack_capacity` on this arena: the capacity covers the height of the represented tree
    if op == ["stackcap"] then
      match a.heightCap with
      | none => "wf=1 | out=FAULT | st=- | tr="
      | some c => s!"wf={if st.tree.height ≤ c then "1" else "0:stack"} | out={c} | st={showArena a} | tr="
    else
    let z := runTree base op st none
    match arenaOp isKey op a with
    | none => s!"wf={if fieldOf "out" z == "FAULT" then "1" else "0:refine-fault"} | out=FAULT | st=- | tr="
    | some (a', out) =>
      let absStr := match a'.abs with
        | some st' => showSt st'
        | none => "ABSFAIL"
      let ok := fieldOf "out" z == out && fieldOf "st" z == absStr && fieldOf "wf" z == "1"
      s!"wf={if ok then "1" else "0:refine(zipper: out=" ++ fieldOf "out" z ++ " wf=" ++ fieldOf "wf" z ++ ")"} | out={out} | st={showArena a'} | tr="

inductive AnySt where
  | none
  | tree (s : St Int)
  | list (l : List E)
  | klist (k : KL Int)
  | seg (s : Seg Int)

def splitBar (line : String) : List Toks :=
  (line.splitOn "|").map fun part => (part.trimAscii.toString.splitOn " ").filter (· != "")

def process (line : String) : String :=
  match splitBar line with
  | (coll :: op) :: rest =>
    let stToks : Toks := rest.headD []
    let inj : Option Nat := match rest.drop 1 with
      | ["inj", k] :: _ => tokNat k
      | _ => none
    if coll == "map" || coll == "set" || coll == "key" then
      match op with
      | ["new", _] => runTree coll op (St.new 0) inj
      | _ => match parseSt stToks with
        | some st => runTree coll op st inj
        | none => "BADSTATE"
    else if coll == "mlist" || coll == "slist" then
      match op with
      | ["new", _] => runList op []
      | _ => match parseL stToks with
        | some l => runList op l inj
        | none => "BADSTATE"
    else if coll == "klist" then
      match op with
      | ["new", _] => runKList op (KL.new 0)
      | _ => match parseK stToks with
        | some s => runKList op s inj
        | none => "BADSTATE"
    else if coll == "amap" || coll == "aset" || coll == "akey" then
      let dflt : E := match rest.drop 1 with
        | ["D", k, x, v] :: _ => ⟨(tokInt k).getD 0, (tokInt x).getD 0, (tokInt v).getD 0⟩
        | _ => ⟨0, 0, 0⟩
      match op with
      | ["new", c] => match tokNat c with
        | some c => s!"wf=1 | out=ok | st={showArena (Arena.new c dflt)} | tr="
        | none => "BAD"
      | _ => match parseArena dflt stToks with
        | some a => match rest.findSome? (fun seg => match seg with | ["inj", k] => tokNat k | _ => none) with
          | some k => runArenaInj coll op a k
          | none => runArena coll op a
        | none => "BADSTATE"
    else if coll == "seg" then
      match op with
      | "new" :: _ => runSeg op none
      | "masks" :: _ => runSeg op none
      | _ => match parseSeg stToks with
        | some s => match rest.findSome? (fun seg => match seg with | ["inj", k] => tokNat k | _ => none) with
          | some k => runSegInj op s ((rest.drop 1).headD []) k
          | none => runSeg op (some s) ((rest.drop 1).headD [])
        | none => "BADSTATE"
    else "BADCOLL"
  | _ => "BADLINE"

partial def loop (h : IO.FS.Stream) (out : IO.FS.Stream) : IO Unit := do
  let line ← h.getLine
  if line.isEmpty then return ()
  let l := line.trimAscii.toString
  if l.isEmpty || l.startsWith "#" then
    out.putStrLn l
  else
    out.putStrLn (process l)
  loop h out

def main : IO Unit := do
  let stdin ← IO.getStdin
  let stdout ← IO.getStdout
  loop stdin stdout
