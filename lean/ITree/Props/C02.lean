import ITree.Lemmas.MapWF
import ITree.Lemmas.KHistory
import ITree.Lemmas.CheckEquiv
/-!
# C02 — the trees stay valid red-black search trees (logarithmic height)

Statements only; proofs of the ingredients are in `ITree/Lemmas`. The invariant is the one the Rust
code really maintains: strictly increasing keys in order, no red node with a red child (a red *root*
is possible after a removal, because the root is never forced black), equal number of black nodes on
every root-to-leaf path. Parent links and the NIL stand-in are not part of the model (they are checked
on every explored real state by the abstraction function of the correspondence check).
-/
namespace ITree
variable {V : Type}

/-- a freshly constructed tree is well-formed, for every capacity hint -/
theorem C02_new_wf (c : Nat) : WF (St.new c : St V) := WF.new c

/-- every in-contract operation of the map / set, applied to a well-formed state, completes
(no fault) and yields a well-formed state -/
theorem C02_step_wf (st : St V) (op : MapOp V) (h : WF st) (hc : InContract st op) :
    ∃ st', st.step op = some st' ∧ WF st' := St.step_wf st op h hc

/-- every state reachable from `new` by in-contract operations is a red-black search tree -/
theorem C02_reachable_rb {c : Nat} {st : St V} (h : Reach c st) :
    Ordered st.tree ∧ ∃ n, Bal st.tree n := ⟨h.wf.ordered, h.wf.bal⟩

/-- the red-black invariant bounds the height: `height ≤ 2·log2(n+1) + 1`, `n` = entries stored -/
theorem C02_height_bound {ε : Type} {t : T ε} {n : Nat} (h : Bal t n) :
    t.height ≤ 2 * Nat.log2 (t.size + 1) + 1 := by
  have h1 := h.height_le
  have h2 := h.size_ge
  have h3 : n ≤ Nat.log2 (t.size + 1) := (Nat.le_log2 (by omega)).mpr h2
  split at h1 <;> omega

theorem C02_reachable_height {c : Nat} {st : St V} (h : Reach c st) :
    st.tree.height ≤ 2 * Nat.log2 (st.tree.size + 1) + 1 := by
  obtain ⟨n, hn⟩ := h.wf.bal
  exact C02_height_bound hn

/-- `delete_index` (shared by removal by key, by handle and by lazy expiry in all three trees)
keeps the colour / black-height invariant wherever the removed node sits, and never faults -/
theorem C02_delete_index_bal {ε : Type} (k : Ctx ε) {c} {l r : T ε} {s e m}
    (h : Bal (plug k (.node c l s e r)) m) :
    ∃ k' t' freed, deleteFocus k (.node c l s e r) = some (k', t', freed) ∧ ∃ m', Bal (plug k' t') m' :=
  deleteFocus_bal k h

/-- the insert repair keeps the invariant -/
theorem C02_link_new_bal (k : Ctx (Ent V)) (slot : Nat) (e : Ent V) {m : Nat}
    (h : Bal (plug k .leaf) m) : ∃ m', Bal (linkNew k slot e) m' := linkNew_bal k slot e h

/-- the expiring-key tree: every state reachable by an in-contract history of inserts, the four
queries (each of which may physically remove expired entries it meets), exports and clears is a
red-black search tree, and every operation of such a history completes without a fault -/
theorem C02_key_reachable {c : Nat} {st : St V} {S : List (Ent V)} {last : Option Int}
    (h : KReach c st S last) :
    Ordered st.tree ∧ (∃ n, Bal st.tree n) ∧ st.tree.height ≤ 2 * Nat.log2 (st.tree.size + 1) + 1 := by
  have hw := h.inv.1
  obtain ⟨n, hn⟩ := hw.bal
  exact ⟨hw.ordered, ⟨n, hn⟩, C02_height_bound hn⟩

theorem C02_key_step_total {c : Nat} {st : St V} {S : List (Ent V)} {last : Option Int}
    (h : KReach c st S last) (op : KOp V) (hc : KContract S last op) :
    ∃ st' r vals tr, st.kstep op = some (st', r, vals, tr) ∧ WF st' := by
  obtain ⟨hw, hr⟩ := h.inv
  obtain ⟨st', r, vals, tr, h1, h2, _⟩ := St.kstep_refines st S last op hw hr hc
  exact ⟨st', r, vals, tr, h1, h2⟩

/-- the executable check the driver evaluates on every explored real pre-state (`wf=1`) is exactly the
well-formedness hypothesis of the theorems -/
theorem C02_wfCheck_iff (st : St V) : st.wfCheck = true ↔ WF st := wfCheck_iff st

/-! non-vacuity: a concrete three-entry state is reachable and satisfies the hypotheses -/
example : ∃ st : St Nat, Reach 8 st ∧ st.tree.size = 3 := by
  refine ⟨((((St.new 8 : St Nat).insert ⟨2, 0, 20⟩).insert ⟨1, 0, 10⟩).insert ⟨3, 0, 30⟩), ?_, by decide⟩
  refine Reach.step (.insert ⟨3, 0, 30⟩) (Reach.step (.insert ⟨1, 0, 10⟩) (Reach.step (.insert ⟨2, 0, 20⟩) Reach.new ?_ rfl) ?_ rfl) ?_ rfl
  all_goals (simp only [InContract]; decide)

end ITree
