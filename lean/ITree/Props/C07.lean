import ITree.Lemmas.KHistory
import ITree.Model.Lists
/-!
# C07 — ordered export is exactly the live entries in key order
-/
namespace ITree
variable {V : Type}

/-- export at time `t` of any well-formed tree: the values of exactly the entries with
`expiration > t`, in key order, each once — whatever slots were freed and reused and whichever
expired successors get moved while the purge runs; the purged tree holds exactly those entries -/
theorem C07_export (st : St V) (t : Int) (h : WF st) :
    ∃ st' vals cap tr, st.kExport t = some (st', vals, cap, tr) ∧ WF st' ∧
      st'.tree.ents = live t st.tree.ents ∧ vals = (live t st.tree.ents).map (·.val) := by
  obtain ⟨st', vals, cap, tr, h1, h2, h3, h4, _⟩ := St.kExport_spec st t h
  exact ⟨st', vals, cap, tr, h1, h2, h3, h4⟩

/-- the exported keys are strictly increasing -/
theorem C07_sorted (st : St V) (t : Int) (h : WF st) :
    ((live t st.tree.ents).map (·.key)).Pairwise (· < ·) := by
  have := h.ordered
  rw [Ordered, T.keys_ents] at this
  exact List.Pairwise.sublist (List.Sublist.map _ List.filter_sublist) this

/-- in every reachable state of an in-contract history the export is the reference content -/
theorem C07_history {c : Nat} {st : St V} {S : List (Ent V)} {last : Option Int}
    (hreach : KReach c st S last) (t : Int) (ht : ∀ l, last = some l → l ≤ t) :
    ∃ st' vals cap tr, st.kExport t = some (st', vals, cap, tr) ∧ vals = (live t S).map (·.val) := by
  obtain ⟨hw, hr⟩ := hreach.inv
  obtain ⟨st', vals, cap, tr, h1, _, _, h4⟩ := C07_export st t hw
  exact ⟨st', vals, cap, tr, h1, by rw [h4, hr.at_time ht]⟩

/-- the sorted-list variant exports the same vector whenever its buffer holds, in key order, a
superset of the live entries that agrees with the tree on the live part -/
theorem C07_list_same (st : St V) (kl : KL V) (t : Int) (h : WF st)
    (hagree : live t kl.buf = live t st.tree.ents) (hmin : ∀ e ∈ kl.buf, kl.minExp ≤ e.exp) :
    ∃ st' vals cap tr, st.kExport t = some (st', vals, cap, tr) ∧ vals = (kl.export t).2 := by
  obtain ⟨st', vals, cap, tr, h1, _, _, h4⟩ := C07_export st t h
  refine ⟨st', vals, cap, tr, h1, ?_⟩
  rw [h4, ← hagree]
  simp only [KL.export, KL.clearExpired]
  split
  · rename_i hlt
    -- purge skipped: every stored entry is live
    have : live t kl.buf = kl.buf := live_eq_self (by intro x hx; have := hmin x hx; omega)
    rw [this]
  · rfl

/-! the three witnesses of the defects repaired by `fix:` commits -/
-- expiration == export time is not exported
example : ((((St.new 0 : St Nat).kInsert ⟨2, 10, 20⟩ 0).bind fun (s, _) => (s.kInsert ⟨1, 5, 10⟩ 0)).bind
    fun (s, _) => (s.kExport 5).map (·.2.1)) = some [20] := by decide
-- an expired successor moved into an already visited slot is purged as well
example : (((((St.new 0 : St Nat).kInsert ⟨2, 1, 20⟩ 0).bind fun (s, _) => (s.kInsert ⟨1, 10, 10⟩ 0)).bind
    fun (s, _) => (s.kInsert ⟨3, 1, 30⟩ 0)).bind fun (s, _) => (s.kExport 5).map (·.2.1)) = some [10] := by decide

end ITree
