import ITree.Lemmas.Refine
/-!
# C08 — map and set: predecessor handles designate the right entry for read / write / delete
-/
namespace ITree
variable {V : Type}

/-- The comparator-driven predecessor query returns the handle of the last entry the comparator does
not place above the probe, for every comparator that is monotone along the stored keys
(answers `Less … Less, (Equal)?, Greater … Greater`). -/
theorem C08_firstIndexLessBy (st : St V) (f : Int → Ordering) (hm : MonoOn f st.tree.keys) :
    st.firstIndexLessBy f = lastLE f st.tree.toList := by
  simp [St.firstIndexLessBy, T.firstLEBy_spec f st.tree none hm]

/-- the key-based query is the comparator-based one for `k ↦ k.cmp(probe)`; they always agree -/
theorem C08_agree (st : St V) (key : Int) :
    st.firstIndexLess key = st.firstIndexLessBy (fun k => compare k key) := rfl

/-- `lastLE` for the key comparator is: the entry with the greatest key `≤ probe` -/
theorem C08_firstIndexLess_char (st : St V) (key : Int) (h : WF st) :
    (st.firstIndexLess key = none ↔ ∀ k ∈ st.tree.keys, key < k) ∧
    (∀ s, st.firstIndexLess key = some s →
      ∃ e, (s, e) ∈ st.tree.toList ∧ e.key ≤ key ∧ ∀ k ∈ st.tree.keys, k ≤ key → k ≤ e.key) := by
  rw [C08_agree, C08_firstIndexLessBy st _ (monoOn_compare key _ h.ordered)]
  have hord := h.ordered
  simp only [Ordered, T.keys] at hord
  constructor
  · simp only [lastLE, Option.map_eq_none_iff, List.getLast?_eq_none_iff, List.filter_eq_nil_iff,
      T.keys, List.mem_map]
    constructor
    · rintro hx k ⟨x, hx', rfl⟩
      have := hx x hx'
      simp only [bne_iff_ne, ne_eq, Int.compare_eq_gt, Decidable.not_not] at this
      omega
    · intro hk x hx
      have := hk x.2.key ⟨x, hx, rfl⟩
      simp only [bne_iff_ne, ne_eq, Int.compare_eq_gt, Decidable.not_not]
      omega
  · intro s hs
    simp only [lastLE, Option.map_eq_some_iff] at hs
    obtain ⟨⟨s', e⟩, hlast, rfl⟩ := hs
    have hmemf := List.mem_of_getLast? hlast
    simp only [List.mem_filter, bne_iff_ne, ne_eq, Int.compare_eq_gt, Int.not_lt] at hmemf
    refine ⟨e, hmemf.1, hmemf.2, ?_⟩
    intro k hk hle
    simp only [T.keys, List.mem_map] at hk
    obtain ⟨x, hx, rfl⟩ := hk
    -- x passes the filter, and the filtered list is sorted with `e` last
    have hxf : x ∈ st.tree.toList.filter (fun x => compare x.2.key key != .gt) := by
      simp only [List.mem_filter, bne_iff_ne, ne_eq, Int.compare_eq_gt, Int.not_lt]
      exact ⟨hx, hle⟩
    have hsorted : ((st.tree.toList.filter (fun x => compare x.2.key key != .gt)).map (·.2.key)).Pairwise (· < ·) :=
      List.Pairwise.sublist (List.Sublist.map _ List.filter_sublist) hord
    generalize st.tree.toList.filter (fun x => compare x.2.key key != .gt) = fl at hlast hxf hsorted
    obtain ⟨pre, rfl⟩ : ∃ pre, fl = pre ++ [(s', e)] := by
      rw [List.getLast?_eq_some_iff] at hlast
      exact hlast
    simp only [List.mem_append, List.mem_singleton] at hxf
    rcases hxf with hxf | rfl
    · simp only [List.map_append, List.map_cons, List.map_nil, List.pairwise_append, List.mem_map,
        List.mem_singleton] at hsorted
      have := hsorted.2.2 _ ⟨x, hxf, rfl⟩ e.key rfl
      omega
    · exact Int.le_refl _

/-- reading through a handle yields the entry stored with that handle -/
theorem C08_read (st : St V) (slot : Nat) (e : Ent V) (h : WF st) (hm : (slot, e) ∈ st.tree.toList) :
    st.valueByIndex slot = some e.val := by
  simp [St.valueByIndex, T.atSlot_of_mem h.slots.nodup hm]

/-- writing through a handle changes the value of exactly that entry -/
theorem C08_write (st : St V) (slot : Nat) (v : V) (h : WF st) (hs : slot ∈ st.tree.slots) :
    ∃ st', st.setValueByIndex slot v = some st' ∧ WF st' ∧
      st'.tree.toList = st.tree.toList.map fun x => if x.1 = slot then (x.1, x.2.setVal v) else x := by
  obtain ⟨st', h1, h2⟩ := St.step_wf st (.setValue slot v) h hs
  refine ⟨st', h1, h2, ?_⟩
  obtain ⟨e, he⟩ := T.atSlot_some_of_mem st.tree slot hs
  simp only [St.step, St.setValueByIndex, he, Option.some.injEq] at h1
  subst h1
  exact T.setAtSlot_toList st.tree slot v h.slots.nodup

/-- deleting through a handle removes exactly that entry and no other -/
theorem C08_delete (st : St V) (slot : Nat) (e : Ent V) (h : WF st) (hm : (slot, e) ∈ st.tree.toList) :
    ∃ st', st.deleteByIndex slot = some st' ∧ WF st' ∧ st'.tree.ents = Spec.erase st.tree.ents e.key :=
  St.deleteByIndex_refines st slot e h hm

/-! non-vacuity -/
example : let st := (((St.new 0 : St Nat).insert ⟨2, 0, 20⟩).insert ⟨1, 0, 10⟩).insert ⟨5, 0, 50⟩
    st.firstIndexLess 4 = some 1 ∧ st.valueByIndex 1 = some 20 ∧ st.firstIndexLess 0 = none := by decide

end ITree
