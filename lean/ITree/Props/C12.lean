import ITree.Lemmas.KListHistory
import ITree.Props.C08
import ITree.Props.C04
import ITree.Model.Seg
/-!
# C12 — `clear()` makes every collection indistinguishable from a new one

Lists and segment tree: the cleared state *is* the state of a new instance. Arena trees: the cleared
tree is empty and well-formed, but its free list is ordered differently from a fresh one, so handle
*numbers* handed out later may differ; "indistinguishable" is therefore proved through the reference
semantics: every observable answer of an in-contract history (values, emptiness, exported vectors, and
*what a returned handle designates*) is a function of the reference content alone, and the reference
content after `clear` is that of a new instance — also when the caller's clock restarts.
-/
namespace ITree
variable {V : Type}

/-! ### lists and segment tree: equal states -/

/-- map list / set list: the cleared buffer is the buffer of a new instance -/
theorem C12_list_clear (l : LSt V) : LSt.clear l = (LSt.new : LSt V) := rfl

theorem C12_klist_clear (s : KL V) : s.clear = KL.new s.maxE := rfl

/-- a cleared segment tree has the layout and the (all empty) chunk vector of a new one -/
theorem C12_seg_clear (s : Seg V) (h : s.chunks.length = s.layout.count) :
    s.clear = { layout := s.layout, chunks := List.replicate s.layout.count [] } := by
  simp only [Seg.clear]
  congr 1
  rw [← h]
  exact List.ext_getElem (by simp) (by intro i h1 h2; simp)

/-! ### arena trees -/

/-- after `clear` the tree is empty and the state well-formed (every slot back on the free list) -/
theorem C12_tree_clear (st : St V) (h : WF st) :
    WF st.clear ∧ st.clear.tree = .leaf ∧ st.clear.isEmpty = true ∧ st.clear.tree.ents = [] := by
  obtain ⟨st', h1, h2⟩ := St.step_wf st .clear h trivial
  simp only [St.step, Option.some.injEq] at h1; subst h1
  exact ⟨h2, rfl, rfl, rfl⟩

/-- every query on a cleared tree returns the empty answer -/
theorem C12_tree_clear_answers (st : St V) (key : Int) (f : Int → Ordering) :
    st.clear.getValue key = none ∧ st.clear.firstIndexLess key = none ∧ st.clear.firstIndexLessBy f = none :=
  ⟨rfl, rfl, rfl⟩

/-- expiring tree: two well-formed states with the same reference content (for instance a cleared
tree and a new one, whatever their free lists look like) answer every in-contract operation
identically and stay related — by induction, every subsequent history gives the same results,
also when the clock restarts after the clear -/
theorem C12_key_bisim (st1 st2 : St V) (S : List (Ent V)) (last : Option Int) (op : KOp V)
    (h1 : WF st1) (h2 : WF st2) (r1 : KRel st1 S last) (r2 : KRel st2 S last) (hc : KContract S last op) :
    ∃ st1' st2' r vals tr1 tr2, st1.kstep op = some (st1', r, vals, tr1) ∧ st2.kstep op = some (st2', r, vals, tr2) ∧
      WF st1' ∧ WF st2' ∧ KRel st1' (kspecStep S op).1 (op.nextLast last) ∧
      KRel st2' (kspecStep S op).1 (op.nextLast last) := by
  obtain ⟨a, ra, va, ta, a1, a2, a3, a4, a5⟩ := St.kstep_refines st1 S last op h1 r1 hc
  obtain ⟨b, rb, vb, tb, b1, b2, b3, b4, b5⟩ := St.kstep_refines st2 S last op h2 r2 hc
  subst a4 a5 b4 b5
  exact ⟨a, b, _, _, ta, tb, a1, b1, a2, b2, a3, b3⟩

/-- a cleared expiring tree and a new one start from the same reference content, with no clock constraint -/
theorem C12_key_clear_vs_new (st : St V) (c : Nat) :
    KRel st.clear [] none ∧ KRel (St.new c : St V) [] none := ⟨⟨rfl, rfl⟩, ⟨rfl, rfl⟩⟩

/-- what a handle designates -/
def St.designated (st : St V) (h : Option Nat) : Option (Ent V) := h.bind st.tree.atSlot

/-- the entry designated by the predecessor handle depends on the stored entries only, not on slot
numbers -/
theorem designated_firstIndexLessBy (st : St V) (f : Int → Ordering) (h : WF st) (hm : MonoOn f st.tree.keys) :
    st.designated (st.firstIndexLessBy f) = (st.tree.ents.filter fun e => f e.key != .gt).getLast? := by
  rw [C08_firstIndexLessBy st f hm]
  simp only [St.designated, lastLE, T.ents, List.filter_map]
  cases hl : (st.tree.toList.filter fun x => f x.2.key != .gt).getLast? with
  | none =>
    simp only [Option.map_none, Option.bind_none]
    have : st.tree.toList.filter (fun x => f x.2.key != .gt) = [] := List.getLast?_eq_none_iff.mp hl
    simp [Function.comp_def, this]
  | some x =>
    have hmem : x ∈ st.tree.toList := (List.mem_filter.mp (List.mem_of_getLast? hl)).1
    simp only [Option.map_some, Option.bind_some]
    rw [T.atSlot_of_mem h.slots.nodup (show (x.1, x.2) ∈ st.tree.toList from hmem)]
    simp only [Function.comp_def, List.getLast?_map, hl, Option.map_some]

/-- map / set: two well-formed states with the same stored entries (for instance a cleared tree and a
new one) give the same lookups, the same emptiness, handles designating the same entries, and have the
same stored entries again after any key-based operation -/
theorem C12_map_bisim (st1 st2 : St V) (h1 : WF st1) (h2 : WF st2) (he : st1.tree.ents = st2.tree.ents) :
    (∀ key, st1.getValue key = st2.getValue key) ∧
    (st1.isEmpty = st2.isEmpty) ∧
    (∀ f, MonoOn f st1.tree.keys →
      st1.designated (st1.firstIndexLessBy f) = st2.designated (st2.firstIndexLessBy f)) ∧
    (∀ e, e.key ∉ st1.tree.keys → (st1.insert e).tree.ents = (st2.insert e).tree.ents ∧
      WF (st1.insert e) ∧ WF (st2.insert e)) ∧
    (∀ key, ∃ a b, st1.delete key = some a ∧ st2.delete key = some b ∧ a.tree.ents = b.tree.ents ∧ WF a ∧ WF b) := by
  have hk : st1.tree.keys = st2.tree.keys := by rw [T.keys_ents, T.keys_ents, he]
  refine ⟨?_, ?_, ?_, ?_, ?_⟩
  · intro key; rw [C04_lookup st1 key h1, C04_lookup st2 key h2, he]
  · have e1 := C04_isEmpty st1
    have e2 := C04_isEmpty st2
    rw [he] at e1
    cases h : st1.isEmpty <;> cases h' : st2.isEmpty <;> simp_all
  · intro f hm
    rw [designated_firstIndexLessBy st1 f h1 hm, designated_firstIndexLessBy st2 f h2 (hk ▸ hm), he]
  · intro e hfresh
    obtain ⟨w1, r1⟩ := C04_insert st1 e h1 hfresh
    obtain ⟨w2, r2⟩ := C04_insert st2 e h2 (hk ▸ hfresh)
    exact ⟨by rw [r1, r2, he], w1, w2⟩
  · intro key
    obtain ⟨a, a1, a2, a3, _⟩ := C04_delete st1 key h1
    obtain ⟨b, b1, b2, b3, _⟩ := C04_delete st2 key h2
    exact ⟨a, b, a1, b1, by rw [a3, b3, he], a2, b2⟩

/-- the cleared map / set and a new one have the same (empty) stored entries, for every capacity hint -/
theorem C12_map_clear_vs_new (st : St V) (c : Nat) (h : WF st) :
    WF st.clear ∧ WF (St.new c : St V) ∧ st.clear.tree.ents = (St.new c : St V).tree.ents :=
  ⟨(C12_tree_clear st h).1, WF.new c, rfl⟩

/-! non-vacuity: clear after growth of the arena, then the same history as on a fresh instance -/
example : let st := ((List.range 9).foldl (fun s i => s.insert ⟨i, 0, i⟩) (St.new 0 : St Nat)).clear
    (st.insert ⟨5, 0, 50⟩).getValue 5 = ((St.new 0 : St Nat).insert ⟨5, 0, 50⟩).getValue 5 := by decide

end ITree
