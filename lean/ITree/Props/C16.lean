import ITree.Props.C03
/-!
# C16 — expired values are physically dropped from the scanned bucket lists
-/
namespace ITree
variable {V : Type} [DecidableEq V]

/-- every place a value can be stored at is visited by a whole-domain query -/
theorem place_sub_visit {a b d : Nat} (ha : a < 32) (hb : b < 32) (hab : a ≤ b) (hbd : b ≤ d) (hd : d < 32)
    {n : Nat} (hn : n < 63) (h : (placeMask a b).testBit n = true) : (visitMask 0 d).testBit n = true := by
  have h1 := ((C15_place_char ha hb hab hn).mp h).1
  have hw : ∀ n < 63, nodeLo n ≤ nodeHi n := by decide +kernel
  have := hw n hn
  exact (C15_visit_char (by omega) hd (by omega) hn).mpr ⟨by omega, by omega⟩

theorem sum_le_sum' {l : List Nat} {f g : Nat → Nat} (h : ∀ i ∈ l, f i ≤ g i) :
    (l.map f).sum ≤ (l.map g).sum := by
  induction l with
  | nil => simp
  | cons x xs ih =>
    simp only [List.map_cons, List.sum_cons]
    have := h x (List.mem_cons_self ..)
    have := ih (fun i hi => h i (List.mem_cons_of_mem _ hi))
    omega

theorem sum_filter_count (l : List Nat) (p : Nat → Bool) (c : Nat) :
    (l.map fun i => if p i then c else 0).sum = c * (l.filter p).length := by
  induction l with
  | nil => simp
  | cons x xs ih =>
    simp only [List.map_cons, List.sum_cons, ih, List.filter_cons]
    by_cases hp : p x = true
    · simp [hp, Nat.mul_add]; omega
    · simp [hp]

/-- **after a fully consumed whole-domain query at time `t` the tree stores only copies of values with
expiration at least `t`**; every value not expired at `t` still has all its copies, at most 8 -/
theorem C16_full_scan_purges (s : Seg V) (LV : List (SegVal V)) (T : Option Int) (t : Int) (n : Nat)
    (h : SegOK s LV T) (hT : ∀ t0, T = some t0 → t0 ≤ t) :
    ∃ it s' it' items, s.iter s.layout.min s.layout.max t = some it ∧
      segTake n s it [] = some (s', it', items) ∧
      (items.length < n →
        (∀ i e, e ∈ chunkAt s' i → t ≤ e.exp) ∧
        (∀ e, ((List.range 63).map fun i => (chunkAt s' i).count e).sum ≤ 8 * (LV.map (SegVal.toEnt s.layout)).count e)) := by
  obtain ⟨lo, hi, hnew⟩ := h.built
  obtain ⟨hmin, hmax, hlen16, _⟩ := C14_layout_facts hnew
  have hdom : InDomain s.layout s.layout.min s.layout.max := by
    refine ⟨Int.le_refl _, ?_, Int.le_refl _⟩
    rw [hmin, hmax]; simp only [domLen] at hlen16; omega
  obtain ⟨_, hbq, _, hmq, _, hlq⟩ := mask_facts h.built hdom
  have hlen : ∀ i ∈ placesOf (s.layout.queryMask s.layout.min s.layout.max), i < s.chunks.length := by
    rw [h.len]; exact hlq
  obtain ⟨it, hit, ht, hm, hinv, hmeas, hpend⟩ := iter_spec s s.layout.min s.layout.max t hbq hlen
  obtain ⟨s', it', items, htake, hres⟩ := segTake_spec n s it _ [] hinv hmeas
  obtain ⟨l1, l2, l3, l4⟩ := hres.layout
  refine ⟨it, s', it', items.map (·.val), hit, by simpa using htake, ?_⟩
  intro hlt
  rw [List.length_map] at hlt
  obtain ⟨_, hnone⟩ := hres.exhausted hlt
  have hrest := hres.inv.fin hnone
  have hrel' : SegRel s' (LV.map (SegVal.toEnt s.layout)) (some t) :=
    h.rel.after_query hT l2 (by rw [← ht]; exact hres.purge)
  -- index facts for the whole domain
  obtain ⟨i0z, ihilt, _, _⟩ := C14_index hnew
  have hq0 : s.layout.queryMask s.layout.min s.layout.max = visitMask 0 (s.layout.index hi) := by
    simp only [Layout.queryMask, hmin, hmax, i0z]
  have hkeep : ∀ i e, e ∈ chunkAt s' i → t ≤ e.exp := by
    intro i e he
    obtain ⟨hmemL, hbit⟩ := hrel'.mem he
    simp only [List.mem_map] at hmemL
    obtain ⟨v, hv, rfl⟩ := hmemL
    obtain ⟨v1, v2⟩ := layout_index_facts h.built (h.dom v hv)
    have hi63 : i < 63 := by
      have hsm := hrel'.small _ (List.mem_map_of_mem hv)
      rcases Nat.lt_or_ge i 63 with h' | h'
      · exact h'
      · have := Nat.ge_two_pow_of_testBit hbit
        have : 2 ^ 63 ≤ 2 ^ i := Nat.pow_le_pow_right (by omega) h'
        omega
    have hvhi : s.layout.index v.hi ≤ s.layout.index hi := by
      obtain ⟨d1, d2, d3⟩ := h.dom v hv
      simp only [hmin] at d1
      simp only [hmax] at d3
      exact (C14_index hnew).2.2.2 v.hi (by omega) d3
    have hvis : (visitMask 0 (s.layout.index hi)).testBit i = true :=
      place_sub_visit (by omega) v2 v1 hvhi ihilt hi63 hbit
    have hplace : i ∈ placesOf (s.layout.queryMask s.layout.min s.layout.max) := by
      simp only [placesOf, List.mem_filter, List.mem_range, hq0]
      exact ⟨hi63, hvis⟩
    have := hres.inv.done i hplace (by rw [hnone]; simp) (by rw [hrest]; simp) _ he
    rw [l3, ht] at this
    simpa [keepAt] using this
  refine ⟨hkeep, ?_⟩
  intro e
  -- every place below the chunk count holds exactly the copies the relation prescribes
  have hterm : ∀ i ∈ List.range 63, (chunkAt s' i).count e ≤
      (if e.mask.testBit i then (LV.map (SegVal.toEnt s.layout)).count e else 0) := fun i _ => hrel'.le i e
  calc ((List.range 63).map fun i => (chunkAt s' i).count e).sum
      ≤ ((List.range 63).map fun i => if e.mask.testBit i then (LV.map (SegVal.toEnt s.layout)).count e else 0).sum := by
        exact sum_le_sum' hterm
    _ = (LV.map (SegVal.toEnt s.layout)).count e * (placesOf e.mask).length := by
        rw [sum_filter_count]; rfl
    _ ≤ 8 * (LV.map (SegVal.toEnt s.layout)).count e := by
        by_cases hmem : e ∈ LV.map (SegVal.toEnt s.layout)
        · simp only [List.mem_map] at hmem
          obtain ⟨v, hv, rfl⟩ := hmem
          obtain ⟨v1, v2⟩ := layout_index_facts h.built (h.dom v hv)
          obtain ⟨b1, _⟩ := bits_char (s.layout.index v.lo) (by omega) (s.layout.index v.hi) v2 v1
          have h8 := (C15_place_le_8 (by omega) v2 v1).1
          have : (placesOf (SegVal.toEnt s.layout v).mask).length ≤ 8 := by
            simp only [SegVal.toEnt, Layout.insertMask]
            rw [← show bits (placeMask (s.layout.index v.lo) (s.layout.index v.hi)) = placesOf _ from b1]
            exact h8
          rw [Nat.mul_comm]
          exact Nat.mul_le_mul_right _ this
        · rw [List.count_eq_zero.mpr hmem]; simp

/-! non-vacuity: two values, one expired at the query time; after the whole-domain query only the
copies of the live one remain -/
example : ((Seg.new 0 31 : Option (Seg Nat)).bind fun s => (s.insert 3 3 1 1).bind fun s =>
    (s.insert 3 9 2 10).bind fun s => (s.iter 0 31 5).bind fun it => (segTake 10 s it []).map
      fun r => (r.1.chunks.map List.length).sum) = some 3 := by decide

/-- the same in every state reached by an in-contract history (`SegReach`): a fully consumed whole-domain query
leaves only copies of values with expiration at least `t`, at most 8 per unexpired value — storage is bounded by
the unexpired population, whatever was inserted before -/
theorem C16_history {lo hi : Int} {s : Seg V} {LV : List (SegVal V)} {T : Option Int} (h : SegReach lo hi s LV T)
    (t : Int) (n : Nat) (hT : ∀ t0, T = some t0 → t0 ≤ t) :
    ∃ it s' it' items, s.iter s.layout.min s.layout.max t = some it ∧
      segTake n s it [] = some (s', it', items) ∧
      (items.length < n →
        (∀ i e, e ∈ chunkAt s' i → t ≤ e.exp) ∧
        (∀ e, ((List.range 63).map fun i => (chunkAt s' i).count e).sum ≤ 8 * (LV.map (SegVal.toEnt s.layout)).count e)) :=
  C16_full_scan_purges s LV T t n h.ok hT

end ITree
