import ITree.Lemmas.KHistory
/-!
# C19 — ordered export allocates in proportion to the number of entries
-/
namespace ITree
variable {V : Type}

/-- the capacity requested for the result vector is exactly the number of exported entries, hence at
most the number of entries stored before the purge -/
theorem C19_capacity (st : St V) (t : Int) (h : WF st) :
    ∃ st' vals cap tr, st.kExport t = some (st', vals, cap, tr) ∧ cap = vals.length ∧
      cap ≤ st.tree.size := by
  obtain ⟨st', vals, cap, tr, h1, _, _, h4, h5⟩ := St.kExport_spec st t h
  refine ⟨st', vals, cap, tr, h1, h5, ?_⟩
  rw [h5, h4, List.length_map, ← T.length_toList]
  have : (live t st.tree.ents).length ≤ st.tree.ents.length := List.length_filter_le _ _
  simpa [T.ents] using this

/-- the formula of the unrepaired code, `8 << height` with `height = 2 * (black height)`, on the
all-black perfect tree of black height `b` (which has `2^b - 1` entries): `8 * 4^b`, i.e. about
`8 * (n+1)^2` — the replay family of the repaired defect -/
def legacyCapacity (bh : Nat) : Nat := 8 <<< (2 * bh)

theorem C19_legacy_quadratic (b : Nat) : legacyCapacity b = 8 * (2 ^ b) * (2 ^ b) := by
  simp only [legacyCapacity, Nat.shiftLeft_eq, Nat.mul_assoc]
  congr 1
  rw [← Nat.pow_add]; congr 1; omega

/-- the list variant: `collect()` of an exact-size iterator requests exactly the number of exported
entries (what the driver answers as `cap=` for the `klist` export), at most the entries stored before -/
theorem C19_list_capacity (s : KL V) (t : Int) :
    (s.export t).2.length = (s.export t).1.buf.length ∧ (s.export t).2.length ≤ s.buf.length := by
  simp only [KL.export, List.length_map, true_and]
  unfold KL.clearExpired
  split
  · exact Nat.le_refl _
  · exact List.length_filter_le _ _

example : ((St.new 0 : St Nat).kExport 0).map (·.2.2.1) = some 0 := by decide

end ITree
