import ITree.Props.Arena
import ITree.Props.C18
import ITree.Lemmas.ArenaTrace
/-!
# C18 / C20 at the pointer level: the user callbacks of the expiring tree's pointer code

`Model/ArenaTrace.lean` instruments the statement-level transcription of the pointer code with the calls of
user code it makes (`expiration()` on a stored key, `Ord::cmp` / the comparator closure on a stored key), each
with the whole arena at that moment. These theorems say, for every arena that represents a well-formed state
(`RepStG`: child links, parent fields, colours, entities, free list, garbage invariant):

* the instrumented code *is* the code of `Model/Arena.lean` (erasure) and completes;
* **C20**: every stored key handed to comparison code is live at the operation's time;
* **C18**: at every callback the arena is again a complete, consistent representation — parent links,
  NIL slot, free list and stale slots included — of a well-formed tree whose live content is that before
  the operation. So a panic in any callback leaves a valid, un-torn arena (the insert links its node only
  after its last callback; every lazy removal is complete before the next callback).
-/
namespace ITree
variable {V : Type}

/-- what the theorems below assert about one callback of the pointer code -/
def AEvOK (time : Int) (st : St V) (ae : AEv V) : Prop :=
  (∃ st_e : St V, RepStG ae.arena st_e ∧ WF st_e ∧ live time st_e.tree.ents = live time st.tree.ents) ∧
  (ae.kind = .cmp → time < ae.ent.exp)

theorem AEvOK.of_trRep {time : Int} {st : St V} {atr : List (AEv V)} {tr : List (Ev V)} (h : TrRep atr tr)
    (h18 : ∀ ev ∈ tr, WF (⟨ev.tree, ev.pool⟩ : St V) ∧ live time ev.tree.ents = live time st.tree.ents)
    (h20 : ∀ ev ∈ tr, ev.kind = .cmp → time < ev.ent.exp) : ∀ ae ∈ atr, AEvOK time st ae := by
  intro ae hae
  obtain ⟨ev, hev, hk, he, hr⟩ := h.mem hae
  exact ⟨⟨⟨ev.tree, ev.pool⟩, hr, (h18 ev hev).1, (h18 ev hev).2⟩, fun hc => by rw [he]; exact h20 ev hev (by rw [← hk]; exact hc)⟩

/-- **queries** (`first_less`, `first_less_or_equal(_by)`, `get_value`) run by the pointer code -/
theorem arena_query_callbacks {a : Arena V} {st st' : St V} (h : RepStG a st) (hw : WF st)
    (hsize : a.nodes.size ≤ EMPTY) (mode : Mode) (time : Int) (f : Int → Ordering) {r : Option V}
    {tr : List (Ev V)} (hm : st.kQuery mode time f = some (st', r, tr)) :
    ∃ a' atr, a.kQueryT mode time f = some (a', r, atr) ∧ a.kQuery mode time f = some (a', r) ∧
      TrRep atr tr ∧ ∀ ae ∈ atr, AEvOK time st ae := by
  obtain ⟨a', atr, h1, h2⟩ := kQueryT_rep h hw hsize mode time f hm
  refine ⟨a', atr, h1, ?_, h2, AEvOK.of_trRep h2 (C18_query st mode time f hw hm) (C20_query st mode time f hw hm)⟩
  rw [← kQueryT_erase, h1]; rfl

/-- **insert** run by the pointer code -/
theorem arena_insert_callbacks {a : Arena V} {st st' : St V} (h : RepStG a st) (hw : WF st)
    (hB : a.nodes.size + max a.cap (2 * a.nodes.size + 4) ≤ EMPTY) (e : Ent V) (time : Int) {tr : List (Ev V)}
    (hm : st.kInsert e time = some (st', tr)) :
    ∃ a' atr, a.kInsertT e time = some (a', atr) ∧ a.kInsert e time = some a' ∧ RepStG a' st' ∧
      TrRep atr tr ∧ ∀ ae ∈ atr, AEvOK time st ae := by
  obtain ⟨a', h1, h2⟩ := arena_kInsert_refines h hw hB e time hm
  have he := kInsertT_erase a e time
  rw [h1] at he
  obtain ⟨⟨a'', atr⟩, h3, h4⟩ := Option.map_eq_some_iff.mp he
  simp only at h4; subst h4
  have htr := kInsertT_rep h hw (by omega) e time hm h3
  exact ⟨a'', atr, h3, h1, h2, htr, AEvOK.of_trRep htr (C18_insert st e time hw hm) (C20_insert st e time hw hm)⟩

/-- **export** (`create_ordered_list`) run by the pointer code: all its callbacks are expiration reads in the
purge over the arena slots -/
theorem arena_export_callbacks {a : Arena V} {st st' : St V} (h : RepStG a st) (hw : WF st)
    (hsize : a.nodes.size ≤ EMPTY) (time : Int) {vals : List V} {capReq : Nat} {tr : List (Ev V)}
    (hm : st.kExport time = some (st', vals, capReq, tr)) :
    ∃ a' atr, a.kExportT time = some (a', vals, capReq, atr) ∧ a.kExport time = some (a', vals, capReq) ∧
      TrRep atr tr ∧ ∀ ae ∈ atr, AEvOK time st ae := by
  obtain ⟨a', h1, _, _⟩ := arena_kExport_refines h hw hsize time hm
  have he := kExportT_erase a time
  rw [h1] at he
  obtain ⟨⟨a'', v'', c'', atr⟩, h3, h4⟩ := Option.map_eq_some_iff.mp he
  simp only [Prod.mk.injEq] at h4
  obtain ⟨rfl, rfl, rfl⟩ := h4
  have htr := kExportT_rep h hw hsize time hm h3
  exact ⟨a'', atr, h3, h1, htr, AEvOK.of_trRep htr (C18_export st time hw hm) (C20_export st time hw hm)⟩

/-- along every in-contract history: in every reachable state of the pointer code, every callback of the next
in-contract query is made on a live key and finds the arena valid with the live content unchanged -/
theorem arena_history_query_callbacks {c : Nat} {a : Arena V} {st : St V} {S : List (Ent V)} {last : Option Int}
    (hr : KReach c st S last) (h : RepStG a st) (hsize : a.nodes.size ≤ EMPTY)
    (mode : Mode) (time : Int) (f : Int → Ordering) {st' : St V} {r : Option V} {tr : List (Ev V)}
    (hm : st.kQuery mode time f = some (st', r, tr)) :
    ∃ a' atr, a.kQueryT mode time f = some (a', r, atr) ∧ ∀ ae ∈ atr, AEvOK time st ae := by
  obtain ⟨a', atr, h1, _, _, h4⟩ := arena_query_callbacks h hr.inv.1 hsize mode time f hm
  exact ⟨a', atr, h1, h4⟩

/-! non-vacuity: a query at time 1 over the arena built by the pointer code from `{2 ↦ exp 1, 5 ↦ exp 9}`
makes callbacks (the expired root is removed first), all satisfying the statement -/
example : (((Arena.new 0 (⟨0, 0, 0⟩ : Ent Nat)).kInsert ⟨2, 1, 20⟩ 0).bind fun a =>
    (a.kInsert ⟨5, 9, 50⟩ 0).bind fun a => (a.kQueryT .fle 1 (fun k => compare k 7)).map fun x =>
      (x.2.1, x.2.2.length, x.2.2.map (·.ent.key))) = some (some 50, 3, [5, 5, 2]) := by decide


/-! ### map / set tree -/

/-- **map / set, insert** run by the pointer code: it completes, and at every call of the user's comparison
code the arena is still, field by field, the arena before the operation (all callbacks precede the allocation
of the new slot) — a panic in any of them leaves the collection exactly as it was -/
theorem arena_map_insert_callbacks {a : Arena V} {st : St V} (e : Ent V) (h : RepSt a st) (hw : WF st)
    (hroom : a.nodes.size + a.cap ≤ EMPTY) :
    ∃ a' atr, a.insertT e = some (a', atr) ∧ a.insert e = some a' ∧ RepSt a' (st.insert e) ∧
      ∀ ae ∈ atr, ae.arena = a ∧ ae.kind = .cmp := by
  obtain ⟨a', h1, h2, _⟩ := arena_insert_refines e h hw hroom
  have he := insertT_erase a e
  rw [h1] at he
  obtain ⟨⟨a'', atr⟩, h3, h4⟩ := Option.map_eq_some_iff.mp he
  simp only at h4; subst h4
  refine ⟨a'', atr, h3, h1, h2, ?_⟩
  simp only [Arena.insertT] at h3
  by_cases hr : (a.root == EMPTY) = true
  · simp only [hr, if_true, Option.map_eq_some_iff, Prod.mk.injEq] at h3
    obtain ⟨_, _, _, rfl⟩ := h3
    intro ae hae; cases hae
  · simp only [hr, Bool.false_eq_true, if_false] at h3
    exact insertLoopT_pre _ _ _ _ _ h3 (fun ae hae => by cases hae)

/-- **map / set, delete by key**: the same — `find_index` is the only part that calls user code and it writes
nothing; `delete_index` calls no user code at all -/
theorem arena_map_delete_callbacks {a : Arena V} {st st' : St V} (key : Int) (h : RepSt a st) (hw : WF st)
    (hsize : a.nodes.size ≤ EMPTY) (hm : st.step (.delete key) = some st') :
    ∃ a' atr, a.deleteT key = some (a', atr) ∧ a.delete key = some a' ∧ RepSt a' st' ∧
      ∀ ae ∈ atr, ae.arena = a ∧ ae.kind = .cmp := by
  obtain ⟨a', h1, h2, _⟩ := arena_delete_refines key h hw hsize hm
  have he := deleteT_erase a key
  rw [h1] at he
  obtain ⟨⟨a'', atr⟩, h3, h4⟩ := Option.map_eq_some_iff.mp he
  simp only at h4; subst h4
  refine ⟨a'', atr, h3, h1, h2, ?_⟩
  simp only [Arena.deleteT, Option.bind_eq_bind] at h3
  cases hf : Arena.findIndexT (a.nodes.size + 1) a key a.root [] with
  | none => simp [hf] at h3
  | some x =>
    obtain ⟨i, tr⟩ := x
    simp only [hf, Option.bind_some] at h3
    have hpre := findIndexT_pre _ _ _ _ _ hf (fun ae hae => by cases hae)
    by_cases hi : (i != EMPTY) = true
    · simp only [hi, if_true, Option.map_eq_some_iff, Prod.mk.injEq] at h3
      obtain ⟨_, _, _, rfl⟩ := h3; exact hpre
    · simp only [hi, Bool.false_eq_true, if_false, Option.some.injEq, Prod.mk.injEq] at h3
      obtain ⟨_, rfl⟩ := h3; exact hpre

end ITree
