import ITree.Lemmas.SegTables
/-!
# C14 — segment-tree layout: any domain with more than 16 points builds; coordinates map into 32 buckets
-/
namespace ITree

/-- number of points of the domain `[lo, hi]` -/
def domLen (lo hi : Int) : Nat := (hi - lo + 1).toNat

theorem Layout.new_eq (lo hi : Int) :
    Layout.new lo hi =
      if domLen lo hi < 5 then none
      else if Nat.log2 (domLen lo hi - 1) + 1 < 5 then none
      else some { min := lo, max := hi, scale := Nat.log2 (domLen lo hi - 1) + 1 - 5 } := rfl

/-- construction succeeds exactly for domains with more than 16 points -/
theorem C14_some_iff (lo hi : Int) : (Layout.new lo hi).isSome = true ↔ 16 < domLen lo hi := by
  rw [Layout.new_eq]
  by_cases h5 : domLen lo hi < 5
  · simp [h5]; omega
  · simp only [h5, if_false]
    have hne : domLen lo hi - 1 ≠ 0 := by omega
    by_cases hp : Nat.log2 (domLen lo hi - 1) + 1 < 5
    · simp only [hp, if_true]
      have : Nat.log2 (domLen lo hi - 1) < 4 := by omega
      have := (Nat.log2_lt hne).mp this
      simp; omega
    · simp only [hp, if_false, Option.isSome_some, true_iff]
      have : ¬ Nat.log2 (domLen lo hi - 1) < 4 := by omega
      have h16 : ¬ (domLen lo hi - 1 < 2 ^ 4) := fun h => this ((Nat.log2_lt hne).mpr h)
      omega

/-- the facts about a constructed layout -/
theorem C14_layout_facts {lo hi : Int} {l : Layout} (h : Layout.new lo hi = some l) :
    l.min = lo ∧ l.max = hi ∧ 16 < domLen lo hi ∧
    -- buckets of one common power-of-two width, the smallest for which 32 buckets cover the domain
    domLen lo hi ≤ 32 * 2 ^ l.scale ∧ (0 < l.scale → 32 * 2 ^ (l.scale - 1) < domLen lo hi) := by
  have hsome : 16 < domLen lo hi := (C14_some_iff lo hi).mp (by simp [h])
  rw [Layout.new_eq] at h
  have h5 : ¬ domLen lo hi < 5 := by omega
  simp only [h5, if_false] at h
  have hne : domLen lo hi - 1 ≠ 0 := by omega
  by_cases hp : Nat.log2 (domLen lo hi - 1) + 1 < 5
  · simp [hp] at h
  · simp only [hp, if_false, Option.some.injEq] at h
    subst h
    refine ⟨rfl, rfl, hsome, ?_, ?_⟩
    · simp only
      have h1 : domLen lo hi - 1 < 2 ^ (Nat.log2 (domLen lo hi - 1) + 1) := Nat.lt_log2_self
      have h2 : 32 * 2 ^ (Nat.log2 (domLen lo hi - 1) + 1 - 5) = 2 ^ (Nat.log2 (domLen lo hi - 1) + 1) := by
        have : Nat.log2 (domLen lo hi - 1) + 1 = 5 + (Nat.log2 (domLen lo hi - 1) + 1 - 5) := by omega
        conv => rhs; rw [this, Nat.pow_add]
      omega
    · simp only
      intro hs
      have h1 : 2 ^ Nat.log2 (domLen lo hi - 1) ≤ domLen lo hi - 1 := Nat.log2_self_le hne
      have h2 : 32 * 2 ^ (Nat.log2 (domLen lo hi - 1) + 1 - 5 - 1) = 2 ^ Nat.log2 (domLen lo hi - 1) := by
        have : Nat.log2 (domLen lo hi - 1) = 5 + (Nat.log2 (domLen lo hi - 1) + 1 - 5 - 1) := by omega
        conv => rhs; rw [this, Nat.pow_add]
      omega

/-- the coordinate-to-bucket mapping sends `lo` to bucket 0, `hi` below 32, and is monotone -/
theorem C14_index {lo hi : Int} {l : Layout} (h : Layout.new lo hi = some l) :
    l.index lo = 0 ∧ l.index hi < 32 ∧ (∀ x y : Int, lo ≤ x → x ≤ y → l.index x ≤ l.index y) ∧
    (∀ x : Int, lo ≤ x → x ≤ hi → l.index x ≤ l.index hi) := by
  obtain ⟨hmin, hmax, hlen, hcov, _⟩ := C14_layout_facts h
  have mono : ∀ x y : Int, lo ≤ x → x ≤ y → l.index x ≤ l.index y := by
    intro x y hx hxy
    simp only [Layout.index, hmin, Nat.shiftRight_eq_div_pow]
    apply Nat.div_le_div_right
    omega
  refine ⟨by simp [Layout.index, hmin], ?_, mono, fun x hx hxh => mono x hi hx hxh⟩
  simp only [Layout.index, hmin, Nat.shiftRight_eq_div_pow]
  have hd : (hi - lo).toNat < 32 * 2 ^ l.scale := by
    simp only [domLen] at hcov hlen
    omega
  rw [Nat.div_lt_iff_lt_mul (Nat.two_pow_pos _)]
  exact hd

set_option maxRecDepth 100000 in
/-- every place of a mask over buckets `≤ d` is `< 32 + d` -/
theorem masks_backed : ∀ c < 32, ∀ d < 32, c ≤ d →
    placeMask c d < 2 ^ (32 + d) ∧ visitMask c d < 2 ^ (32 + d) := by decide +kernel

/-- every place an in-domain range can be stored at or queried from is backed by storage:
all bits of both masks are below `count` (`= index(hi) + 32`, the length of the chunk vector) -/
theorem C14_places_backed {lo hi : Int} {l : Layout} (h : Layout.new lo hi = some l)
    {a b : Int} (ha : lo ≤ a) (hab : a ≤ b) (hb : b ≤ hi) {n : Nat} :
    ((l.insertMask a b).testBit n = true → n < l.count) ∧
    ((l.queryMask a b).testBit n = true → n < l.count) := by
  obtain ⟨_, hlt, mono, hle⟩ := C14_index h
  have hmax := (C14_layout_facts h).2.1
  have hib : l.index b ≤ l.index hi := hle b (by omega) hb
  have hiab : l.index a ≤ l.index b := mono a b ha hab
  obtain ⟨h1, h2⟩ := masks_backed (l.index a) (by omega) (l.index b) (by omega) hiab
  have key : ∀ m : Nat, m < 2 ^ (32 + l.index b) → m.testBit n = true → n < l.count := by
    intro m hm hbit
    have := Nat.ge_two_pow_of_testBit hbit
    have hn : n < 32 + l.index b := by
      rcases Nat.lt_or_ge n (32 + l.index b) with h' | h'
      · exact h'
      · have : 2 ^ (32 + l.index b) ≤ 2 ^ n := Nat.pow_le_pow_right (by omega) h'
        omega
    simp only [Layout.count, hmax]
    omega
  exact ⟨key _ h1, key _ h2⟩

/-! non-vacuity: the layouts of the Rust unit tests -/
example : Layout.new 0 31 = some ⟨0, 31, 0⟩ := by decide
example : Layout.new (-63) 0 = some ⟨-63, 0, 1⟩ := by decide
example : Layout.new 0 15 = none := by decide
example : (Layout.new (-10240) 15360).map (·.scale) = some 10 := by decide

end ITree
