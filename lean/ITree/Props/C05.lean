import ITree.Props.C04
/-!
# C05 — ordered set: keyed values are found, kept intact and removed exactly

`SetTree` is a textual copy of `MapTree`; its stored value carries its own key. In the model the set's
value is the entity `Ent V` (key + payload `V`), so the map theorems are the set theorems. They are
restated here in the set's vocabulary; the correspondence check runs them against `src/set/tree.rs`
separately (a change to one Rust copy does not show in the other).
-/
namespace ITree
variable {V : Type}

/-- inserting a value whose key is absent stores exactly that value, payload included, at its place
in key order; every other stored value is untouched -/
theorem C05_insert (st : St V) (val : Ent V) (h : WF st) (hfresh : val.key ∉ st.tree.keys) :
    WF (st.insert val) ∧ (st.insert val).tree.ents = Spec.insert st.tree.ents val :=
  C04_insert st val h hfresh

/-- lookup by key returns the stored value with that key — the whole value, payload included —
exactly when such a value is present -/
theorem C05_lookup (st : St V) (key : Int) (h : WF st) :
    st.tree.lookup key = st.tree.ents.find? (fun e => e.key == key) :=
  T.lookup_spec st.tree key h.ordered

theorem C05_lookup_payload (st : St V) (key : Int) (val : Ent V) (h : WF st)
    (hl : st.tree.lookup key = some val) : val ∈ st.tree.ents ∧ val.key = key := by
  rw [C05_lookup st key h] at hl
  exact ⟨List.mem_of_find?_eq_some hl, by simpa using List.find?_some hl⟩

/-- a stored value is found under its own key (payloads are never mixed up between keys) -/
theorem C05_lookup_stored (st : St V) (val : Ent V) (h : WF st) (hm : val ∈ st.tree.ents) :
    st.tree.lookup val.key = some val := by
  rw [C05_lookup st val.key h]
  have hnd : (st.tree.ents.map (·.key)).Nodup := by
    have := h.ordered
    rw [Ordered, T.keys_ents] at this
    exact List.Pairwise.imp (fun h => Int.ne_of_lt h) this
  cases hf : st.tree.ents.find? (fun e => e.key == val.key) with
  | none =>
    have := List.find?_eq_none.mp hf val hm
    simp at this
  | some x =>
    have hx := List.mem_of_find?_eq_some hf
    have hk : x.key = val.key := by simpa using List.find?_some hf
    rw [inj_of_nodup_map hnd hx hm hk]

/-- deleting removes exactly the value with that key; deleting an absent key changes nothing -/
theorem C05_delete (st : St V) (key : Int) (h : WF st) :
    ∃ st', st.delete key = some st' ∧ WF st' ∧ st'.tree.ents = Spec.erase st.tree.ents key ∧
      (key ∉ st.tree.keys → st' = st) := C04_delete st key h

theorem C05_isEmpty (st : St V) : st.isEmpty = true ↔ st.tree.ents = [] := C04_isEmpty st

/-- whole histories: the stored values evolve exactly as in the sorted-list specification -/
theorem C05_step_refines (st st' : St V) (op : MapOp V) (h : WF st) (hc : InContract st op)
    (hs : st.step op = some st') : st'.tree.ents = Spec.step st st.tree.ents op :=
  C04_step_refines st st' op h hc hs

/-! non-vacuity: key + payload struct -/
example : (((St.new 0 : St (String × Nat)).insert ⟨2, 0, ("two", 2)⟩).insert ⟨1, 0, ("one", 1)⟩).tree.lookup 2
    = some ⟨2, 0, ("two", 2)⟩ := by decide

end ITree
