import ITree.Props.C02
import ITree.Props.C09
import ITree.Props.C13
import ITree.Props.C16
/-!
# C10 — no operation within its contract reads or writes out of bounds, panics or hangs

The model makes every partial step explicit: an `Option`-valued operation returns `none` (a **fault**)
where the Rust code would index the arena with `EMPTY_REF` or with a slot that is not in the tree, where a
`debug_assert!` on a parent/child link would fail, where a mask bit designates a place without storage, or
where a loop would exceed its fuel (= would not terminate). The theorems below say that no in-contract
operation faults, that every slot / position / place used as an index is in range, and that the `u64`
mask arithmetic stays below `2^63`. What a theorem about the model cannot carry — real memory safety of
the `unsafe` indexing and completeness of the fault annotation — is the correspondence check's job: the
harness runs a build with debug assertions, overflow checks and `get_unchecked` precondition checks,
under a watchdog, and any panic / abort / signal / timeout is reported.
-/
namespace ITree
variable {V : Type}

/-- map / set: every in-contract mutating operation completes (no `EMPTY_REF` dereference in the
repairs, whatever the tree shape) -/
theorem C10_map_total (st : St V) (op : MapOp V) (h : WF st) (hc : InContract st op) :
    ∃ st', st.step op = some st' ∧ WF st' := St.step_wf st op h hc

/-- map / set: reading and stepping through a handle that designates a stored entry completes -/
theorem C10_map_handle_reads (st : St V) (slot : Nat) (h : WF st) (hs : slot ∈ st.tree.slots) :
    (st.valueByIndex slot).isSome ∧ (st.indexAfter slot).isSome ∧ (st.indexBefore slot).isSome := by
  obtain ⟨e, he⟩ := T.atSlot_some_of_mem st.tree slot hs
  have hmem := T.mem_of_atSlot h.slots.nodup he
  obtain ⟨A, B, hAB⟩ := List.append_of_mem hmem
  obtain ⟨h1, h2⟩ := C09_steps st slot e A B h hAB
  exact ⟨by simp [St.valueByIndex, he], by simp [h1], by simp [h2]⟩

/-- every slot of the tree and every slot handed out by the pool is a valid arena index other than the
sentinel: `0 < slot < buffer.len()` -/
theorem C10_slots_in_range (st : St V) (h : WF st) :
    (∀ s ∈ st.tree.slots, 0 < s ∧ s < st.pool.bufLen) ∧
    (0 < st.pool.alloc.1 ∧ st.pool.alloc.1 < st.pool.alloc.2.bufLen ∧ st.pool.alloc.1 ∉ st.tree.slots) := by
  refine ⟨h.slots.pos, ?_⟩
  obtain ⟨a1, a2, a3, _, _, _⟩ := Pool.alloc_spec h.slots
  refine ⟨Nat.pos_of_ne_zero a2, ?_, a1⟩
  have : st.pool.alloc.1 ∈ List.range st.pool.alloc.2.bufLen := a3.mem_iff.mp (by simp)
  simpa using this

/-- expiring tree: every operation of an in-contract history completes: the fuel of every loop
(lazy-expiry loops, descents, the export's slot scan) suffices and no repair dereferences `EMPTY_REF` -/
theorem C10_key_total {c : Nat} {st : St V} {S : List (Ent V)} {last : Option Int}
    (h : KReach c st S last) (op : KOp V) (hc : KContract S last op) :
    ∃ st' r vals tr, st.kstep op = some (st', r, vals, tr) ∧ WF st' := C02_key_step_total h op hc

/-- lists: the position the binary search yields is a valid index whenever it is dereferenced -/
theorem C10_list_positions (f : Ent V → Ordering) (l : List (Ent V)) :
    (∀ i, bsearch f l 0 = .ok i → i < l.length) ∧ (∀ i, bsearch f l 0 = .error i → i ≤ l.length) := by
  obtain ⟨A, B, h1, _, _, h4⟩ := bsearch_split f l 0
  subst h1
  rw [h4]
  cases B with
  | nil => simp
  | cons b bs =>
    simp only [Nat.zero_add]
    by_cases hbe : f b = .eq
    · simp only [hbe, if_true]
      constructor
      · intro i hi; cases hi; simp
      · intro i hi; cases hi
    · simp only [hbe, if_false]
      constructor
      · intro i hi; cases hi
      · intro i hi; cases hi; simp

variable [DecidableEq V]

/-- segment tree: insert and query (consumed to any extent) of in-domain ranges complete: every place
designated by a mask bit is backed by storage, the iterator's loops terminate -/
theorem C10_seg_total (s : Seg V) (LV : List (SegVal V)) (T : Option Int) (h : SegOK s LV T) :
    (∀ v : SegVal V, InDomain s.layout v.lo v.hi → (s.insert v.lo v.hi v.val v.exp).isSome) ∧
    (∀ a b t n, InDomain s.layout a b → (∀ t0, T = some t0 → t0 ≤ t) →
      ∃ it, s.iter a b t = some it ∧ (segTake n s it []).isSome) := by
  constructor
  · intro v hv
    obtain ⟨s', h1, _⟩ := C03_insert s LV T v h hv
    simp [h1]
  · intro a b t n hq hT
    obtain ⟨it, s', it', items, rest, h1, h2, _⟩ := C03_query s LV T a b t n h hq hT
    exact ⟨it, h1, by simp [h2]⟩

/-- the same along every in-contract history of the segment tree: no operation faults in a reachable state -/
theorem C10_seg_history_total {lo hi : Int} {s : Seg V} {LV : List (SegVal V)} {T : Option Int}
    (h : SegReach lo hi s LV T) :
    (∀ v : SegVal V, InDomain s.layout v.lo v.hi → (s.insert v.lo v.hi v.val v.exp).isSome) ∧
    (∀ a b t n, InDomain s.layout a b → (∀ t0, T = some t0 → t0 ≤ t) →
      ∃ it, s.iter a b t = some it ∧ (segTake n s it []).isSome) :=
  C10_seg_total s LV T h.ok

omit [DecidableEq V] in
/-- mask arithmetic: every mask value is below `2^63` (so no `u64` shift or or-combination overflows)
and every place bit is below the chunk count -/
theorem C10_seg_masks {l : Layout} (hb : ∃ lo hi, Layout.new lo hi = some l) {a b : Int} (h : InDomain l a b) :
    l.insertMask a b < 2 ^ 63 ∧ l.queryMask a b < 2 ^ 63 ∧ l.index b < 32 ∧
    (∀ i, (l.insertMask a b).testBit i = true → i < l.count) ∧
    (∀ i, (l.queryMask a b).testBit i = true → i < l.count) := by
  obtain ⟨_, _, m1, m2, _, _⟩ := mask_facts hb h
  obtain ⟨_, hidx⟩ := layout_index_facts hb h
  obtain ⟨lo, hi, hnew⟩ := hb
  obtain ⟨hmin, hmax, _⟩ := C14_layout_facts hnew
  refine ⟨m1, m2, hidx, ?_, ?_⟩
  · intro i hi
    exact (C14_places_backed hnew (a := a) (b := b) (by rw [← hmin]; exact h.1) h.2.1 (by rw [← hmax]; exact h.2.2)).1 hi
  · intro i hi
    exact (C14_places_backed hnew (a := a) (b := b) (by rw [← hmin]; exact h.1) h.2.1 (by rw [← hmax]; exact h.2.2)).2 hi

end ITree
