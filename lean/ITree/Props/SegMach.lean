import ITree.Props.C14
import ITree.Props.C03
import ITree.Lemmas.SegMachVisit
import ITree.Lemmas.SegMachPlace
import ITree.Lemmas.SegMachBits
/-!
# Machine integers of the segment tree (C10 "no arithmetic overflow", C14, C15)

`Model/SegMach.lean` transcribes `bit.rs`, `heap.rs` and `layout.rs` with the fixed-width integer types of
the Rust code and the overflow / shift-amount / `debug_assert!` checks of a debug build (`none` = a check
fires). The theorems here show that for every domain whose bounds are `i64` values and whose length fits
in `i64` (the contract of `SegExpTree::new`), and for every in-domain range, no check ever fires and the
result is the one of the unbounded model — so C03, C14, C15, C16 are statements about the machine code's
values, and C10's "no arithmetic overflow" holds for the whole mask and layout arithmetic.
`mach_layout_overflow` shows the contract boundary is sharp: a domain whose length does not fit panics.
-/
namespace ITree
open Mach

theorem mach_asUsize_of_nonneg {d : Int} (h0 : 0 ≤ d) (h1 : d < (two63 : Int)) : asUsize d = d.toNat := by
  unfold asUsize
  have : d % (two64 : Int) = d := Int.emod_eq_of_lt h0 (by simp only [two63, two64] at *; omega)
  rw [this]

/-- `Layout::new`: no overflow, same answer as the unbounded model -/
theorem mach_layoutNew {lo hi : Int} (hlo : inI64 lo) (hhi : inI64 hi) (hle : lo ≤ hi)
    (hlen : hi - lo + 1 < (two63 : Int)) : layoutNew lo hi = some (Layout.new lo hi) := by
  unfold inI64 at hlo hhi
  have e1 : subI64 hi lo = some (hi - lo) := by
    unfold subI64; rw [if_pos]; constructor <;> (simp only [two63] at *; omega)
  have e2 : addI64 (hi - lo) 1 = some (hi - lo + 1) := by
    unfold addI64; rw [if_pos]; constructor <;> (simp only [two63] at *; omega)
  have e3 : asUsize (hi - lo + 1) = domLen lo hi := mach_asUsize_of_nonneg (by omega) hlen
  rw [Layout.new_eq]
  unfold layoutNew
  simp only [e1, e2, e3, Option.bind_eq_bind, Option.bind_some, Option.pure_def, bind, pure]
  by_cases h5 : domLen lo hi < 5
  · simp [h5]
  · simp only [h5, if_false]
    have hne : domLen lo hi - 1 ≠ 0 := by omega
    have e4 : subUsize (domLen lo hi) 1 = some (domLen lo hi - 1) := by
      unfold subUsize; rw [if_pos (by omega)]
    have e5 : ilog2 (domLen lo hi - 1) = some (Nat.log2 (domLen lo hi - 1)) := by
      unfold ilog2; rw [if_neg hne]
    have hlt64 : Nat.log2 (domLen lo hi - 1) < 64 := by
      apply (Nat.log2_lt hne).mpr
      have : domLen lo hi < 2 ^ 63 := by
        simp only [domLen]; simp only [two63] at hlen; omega
      omega
    have e6 : addU32 (Nat.log2 (domLen lo hi - 1)) 1 = some (Nat.log2 (domLen lo hi - 1) + 1) := by
      unfold addU32; rw [if_pos (by simp only [two32]; omega)]
    simp only [e4, e5, e6, Option.bind_some]
    by_cases hp : Nat.log2 (domLen lo hi - 1) + 1 < 5
    · simp [hp]
    · have e7 : subU32 (Nat.log2 (domLen lo hi - 1) + 1) 5 = some (Nat.log2 (domLen lo hi - 1) + 1 - 5) := by
        unfold subU32; rw [if_pos (by omega)]
      simp [hp, e7]

/-- the contract boundary is sharp: a domain whose number of points does not fit in `i64` makes
`(max - min + 1)` overflow (panic in a debug build) -/
theorem mach_layout_overflow {lo hi : Int} (hlen : (two63 : Int) ≤ hi - lo + 1) : layoutNew lo hi = none := by
  unfold layoutNew subI64 addI64
  by_cases h : -(two63 : Int) ≤ hi - lo ∧ hi - lo < two63
  · simp only [h, and_self, if_true, Option.bind_eq_bind, Option.bind_some, bind]
    rw [if_neg (by omega)]; rfl
  · simp [h, bind]

theorem mach_scale_lt {lo hi : Int} {l : Layout} (h : Layout.new lo hi = some l)
    (hlen : hi - lo + 1 < (two63 : Int)) : l.scale < 59 := by
  rw [Layout.new_eq] at h
  by_cases h5 : domLen lo hi < 5
  · simp [h5] at h
  · simp only [h5, if_false] at h
    have hne : domLen lo hi - 1 ≠ 0 := by omega
    by_cases hp : Nat.log2 (domLen lo hi - 1) + 1 < 5
    · simp [hp] at h
    · simp only [hp, if_false, Option.some.injEq] at h
      subst h
      have hlt64 : Nat.log2 (domLen lo hi - 1) < 63 := by
        apply (Nat.log2_lt hne).mpr
        have : domLen lo hi < 2 ^ 63 := by
          simp only [domLen]; simp only [two63] at hlen; omega
        omega
      simp only
      omega

/-- `Layout::index`: `value - min` does not overflow, the shift amount is below 64, the `as u32` cast is
lossless (the bucket is below 32) -/
theorem mach_index {lo hi : Int} {l : Layout} (h : Layout.new lo hi = some l) (hlo : inI64 lo) (hhi : inI64 hi)
    (hlen : hi - lo + 1 < (two63 : Int)) {x : Int} (hx0 : lo ≤ x) (hx1 : x ≤ hi) :
    Mach.index l x = some (l.index x) ∧ l.index x < 32 := by
  obtain ⟨hmin, hmax, _, _, _⟩ := C14_layout_facts h
  obtain ⟨_, hlt, _, hle⟩ := C14_index h
  have hix : l.index x < 32 := Nat.lt_of_le_of_lt (hle x hx0 hx1) hlt
  refine ⟨?_, hix⟩
  unfold inI64 at hlo hhi
  have hs := mach_scale_lt h hlen
  have e1 : subI64 x l.min = some (x - lo) := by
    unfold subI64; rw [hmin, if_pos]; constructor <;> (simp only [two63] at *; omega)
  have e2 : shrI64 (x - lo) l.scale = some ((x - lo) >>> l.scale) := by
    unfold shrI64; rw [if_pos (by omega)]
  unfold Mach.index
  simp only [e1, e2, Option.bind_eq_bind, Option.bind_some, Option.pure_def, bind, pure, Option.some.injEq]
  have hnn : x - lo = ((x - lo).toNat : Int) := by omega
  have e3 : (x - lo) >>> l.scale = (((x - lo).toNat >>> l.scale : Nat) : Int) := by
    conv => lhs; rw [hnn]
    rfl
  have hidx : l.index x = (x - lo).toNat >>> l.scale := by simp [Layout.index, hmin]
  rw [e3, ← hidx]
  unfold asU32
  have : ((l.index x : Nat) : Int) % (two32 : Int) = (l.index x : Int) :=
    Int.emod_eq_of_lt (by omega) (by simp only [two32]; omega)
  rw [this]; simp

/-- `Layout::count` -/
theorem mach_count {lo hi : Int} {l : Layout} (h : Layout.new lo hi = some l) (hlo : inI64 lo) (hhi : inI64 hi)
    (hle : lo ≤ hi) (hlen : hi - lo + 1 < (two63 : Int)) : Mach.count l = some l.count := by
  obtain ⟨hmin, hmax, _, _, _⟩ := C14_layout_facts h
  obtain ⟨e, hlt⟩ := mach_index h hlo hhi hlen (x := hi) hle (Int.le_refl _)
  unfold Mach.count
  rw [hmax, e]
  simp only [Option.bind_eq_bind, Option.bind_some, bind, orderToHeapIndex]
  have e1 : addU32 (l.index hi) 31 = some (l.index hi + 31) := by
    unfold addU32; rw [if_pos (by simp only [two32]; omega)]
  have e2 : addUsize (l.index hi + 31) 1 = some (l.index hi + 31 + 1) := by
    unfold addUsize; rw [if_pos (by simp only [two64]; omega)]
  simp [e1, e2, Layout.count, hmax]

/-- `insert_mask` / `intersect_mask` of an in-domain range, and the `BitIter` over them -/
theorem mach_masks {lo hi : Int} {l : Layout} (h : Layout.new lo hi = some l) (hlo : inI64 lo) (hhi : inI64 hi)
    (hlen : hi - lo + 1 < (two63 : Int)) {a b : Int} (ha : lo ≤ a) (hab : a ≤ b) (hb : b ≤ hi) :
    Mach.insertMask l a b = some (l.insertMask a b) ∧ Mach.queryMask l a b = some (l.queryMask a b) ∧
    Mach.bits (l.insertMask a b) = some (ITree.bits (l.insertMask a b)) ∧
    Mach.bits (l.queryMask a b) = some (ITree.bits (l.queryMask a b)) := by
  obtain ⟨ea, hia⟩ := mach_index h hlo hhi hlen (x := a) ha (by omega)
  obtain ⟨eb, hib⟩ := mach_index h hlo hhi hlen (x := b) (by omega) hb
  obtain ⟨_, _, mono, _⟩ := C14_index h
  have hiab : l.index a ≤ l.index b := mono a b ha hab
  have t1 := placeMask_table _ hia _ hib hiab
  have t2 := visitMask_table _ hia _ hib hiab
  have t3 := bits_table _ hia _ hib hiab
  refine ⟨?_, ?_, t3.1, t3.2⟩
  · unfold Mach.insertMask; simp [ea, eb, t1, Layout.insertMask, bind]
  · unfold Mach.queryMask; simp [ea, eb, t2, Layout.queryMask, bind]

/-- everything together, in the vocabulary of the other segment-tree theorems: for a tree built over an
`i64` domain whose length fits in `i64`, and any in-domain range -/
theorem C10_seg_machine_arithmetic {lo hi : Int} {l : Layout} (hlo : inI64 lo) (hhi : inI64 hi) (hle : lo ≤ hi)
    (hlen : hi - lo + 1 < (two63 : Int)) (h : Layout.new lo hi = some l) {a b : Int} (hd : InDomain l a b) :
    layoutNew lo hi = some (some l) ∧ Mach.count l = some l.count ∧
    Mach.index l a = some (l.index a) ∧ Mach.index l b = some (l.index b) ∧
    Mach.insertMask l a b = some (l.insertMask a b) ∧ Mach.queryMask l a b = some (l.queryMask a b) ∧
    Mach.bits (l.insertMask a b) = some (ITree.bits (l.insertMask a b)) ∧
    Mach.bits (l.queryMask a b) = some (ITree.bits (l.queryMask a b)) := by
  obtain ⟨hmin, hmax, _, _, _⟩ := C14_layout_facts h
  obtain ⟨h1, h2, h3⟩ := hd
  rw [hmin] at h1; rw [hmax] at h3
  obtain ⟨m1, m2, m3, m4⟩ := mach_masks h hlo hhi hlen h1 h2 h3
  exact ⟨by rw [mach_layoutNew hlo hhi hle hlen, h], mach_count h hlo hhi hle hlen,
    (mach_index h hlo hhi hlen h1 (by omega)).1, (mach_index h hlo hhi hlen (by omega) h3).1, m1, m2, m3, m4⟩

/-- for the 32-bit coordinate types (`R = i32`, `u32`, and everything narrower: `i64: From<R>`) the contract
has no length condition at all: every domain `lo ≤ hi` is within it -/
theorem C14_32bit_domains {lo hi : Int} (hlo : -(2 ^ 31 : Int) ≤ lo) (hhi : hi < (2 ^ 32 : Int)) (hle : lo ≤ hi) :
    layoutNew lo hi = some (Layout.new lo hi) := by
  apply mach_layoutNew
  · unfold inI64; simp only [two63]; constructor <;> omega
  · unfold inI64; simp only [two63]; constructor <;> omega
  · exact hle
  · simp only [two63]; omega

/-! non-vacuity: the widest 32-bit domain, a 64-bit domain of maximal length, and the overflow just beyond it -/
example : layoutNew (-2147483648) 2147483647 = some (some ⟨-2147483648, 2147483647, 27⟩) := by decide
example : layoutNew (-4611686018427387904) 4611686018427387902 =
    some (some ⟨-4611686018427387904, 4611686018427387902, 58⟩) := by decide
example : layoutNew (-4611686018427387904) 4611686018427387903 = none := by decide
example : Mach.placeMask 0 30 = some 2305843009750573090 := by decide
example : Mach.visitMask 31 31 = some (ITree.visitMask 31 31) := by decide

end ITree
