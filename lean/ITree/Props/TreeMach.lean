import ITree.Props.Arena
import ITree.Model.SegMach
/-!
# Machine integers of the three trees (C10 "no arithmetic overflow", C11, C19)

The pointer code of the trees does arithmetic in three places only (everything else is slot numbers compared
with `EMPTY_REF = u32::MAX`):

* `Pool::reserve(length)`: `let n = self.buffer.len() as u32; let l = length as u32; … (n..n + l).rev()` — two
  *truncating* casts and a `u32` addition;
* `create_ordered_list`: `self.store.buffer.len() - self.store.unused.len() - 1` — two `usize` subtractions;
* `Pool::new`: `capacity.max(8)`.

`Model/Arena.lean` computes these in `Nat`. Here they are transcribed with the casts and checks of the machine
types and proved to agree under the side condition the arena-level theorems carry (`Arena.Room`, which the
history theorems derive from C11's storage bound), respectively under the slot-partition invariant.
-/
namespace ITree
variable {V : Type}
open Mach

/-- `(n..n + l).rev()` of `Pool::reserve` with `n = buffer.len() as u32`, `l = length as u32`:
`none` = the `u32` addition overflows (debug panic) -/
def Mach.reserveRange (bufLen length : Nat) : Option (List Nat) := do
  let n := bufLen % two32
  let l := length % two32
  let e ← addU32 n l
  pure ((List.range (e - n)).reverse.map (· + n))

/-- under `Room` the casts are lossless, the addition does not overflow, and the slots pushed onto the free
list are those of the `Nat` model (`Arena.reserve`) -/
theorem mach_reserveRange {bufLen length : Nat} (h : bufLen + length ≤ EMPTY) :
    Mach.reserveRange bufLen length = some ((List.range length).reverse.map (· + bufLen)) := by
  unfold EMPTY at h
  have h1 : bufLen % two32 = bufLen := Nat.mod_eq_of_lt (by simp only [two32]; omega)
  have h2 : length % two32 = length := Nat.mod_eq_of_lt (by simp only [two32]; omega)
  have h3 : addU32 bufLen length = some (bufLen + length) := by
    unfold addU32; rw [if_pos (by simp only [two32]; omega)]
  simp only [Mach.reserveRange, h1, h2, h3, Option.bind_some, bind, pure, Option.some.injEq]
  have : bufLen + length - bufLen = length := by omega
  rw [this]

/-- the growth step of a well-formed arena with `Room`: the machine computation is the model's -/
theorem mach_reserve_of_room {a : Arena V} (h : a.Room) :
    Mach.reserveRange a.nodes.size a.cap = some ((List.range a.cap).reverse.map (· + a.nodes.size)) := by
  apply mach_reserveRange
  unfold Arena.Room at h
  omega

/-- the contract boundary: with `2^32` or more slots the cast truncates and slot numbers are handed out twice -/
example : Mach.reserveRange 4294967296 8 = some [7, 6, 5, 4, 3, 2, 1, 0] := by decide

/-- `buffer.len() - unused.len() - 1` of the export with checked `usize` subtractions -/
def Mach.exportCount (bufLen unusedLen : Nat) : Option Nat := do
  let d ← subUsize bufLen unusedLen
  subUsize d 1

/-- in a well-formed state neither subtraction underflows, and the count is the number of stored entries -/
theorem mach_exportCount {st : St V} (hw : WF st) :
    Mach.exportCount st.pool.bufLen st.pool.unused.length = some st.tree.size := by
  obtain ⟨hperm, _, _⟩ := hw.slots
  have hlen := hperm.length_eq
  simp only [List.length_cons, List.length_append, List.length_range] at hlen
  have hsz : st.tree.slots.length = st.tree.size := by simp [T.slots, T.length_toList]
  unfold Mach.exportCount subUsize
  rw [if_pos (by omega)]
  simp only [Option.bind_eq_bind, Option.bind_some, bind]
  rw [if_pos (by omega)]
  congr 1; omega

end ITree
