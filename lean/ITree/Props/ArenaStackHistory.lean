import ITree.Props.ArenaStack
import ITree.Props.ArenaHistory
/-!
# The export's stack along whole histories (C02 / C07 / C19)

`arena_export_stack_capacity` is a statement about one arena that represents a red-black tree. Here it is carried
along every in-contract history of the expiring tree run by the pointer code: in the arena such a history ends in,
`height()` completes, and the explicit stack of the traversal stays within `Vec::with_capacity(height)` and within
`2·log2(n+1)+1` frames, `n` the number of entries physically stored then.
-/
namespace ITree
variable {V : Type}

/-- the pointer code's run of a history ends in an arena representing a reachable state -/
theorem arena_kRun_reach {c : Nat} : ∀ (ops : List (KOp V)) {a : Arena V} {st : St V} {S : List (Ent V)}
    {last : Option Int} {pk : Nat}, KReachP c st S last pk → RepStG a st → KContractAll S last ops →
    3 * max (max c 8) (3 * (pk + ops.length + 1)) + 4 ≤ EMPTY →
    ∃ a' st' S' last' pk', a.kRun ops = some (a', kspecRun S ops) ∧ KReachP c st' S' last' pk' ∧ RepStG a' st' ∧
      pk' ≤ pk + ops.length := by
  intro ops
  induction ops with
  | nil => intro a st S last pk hreach hrep _ _; exact ⟨a, st, S, last, pk, rfl, hreach, hrep, by simp⟩
  | cons op ops ih =>
    intro a st S last pk hreach hrep hc hsmall
    simp only [List.length_cons] at hsmall
    have hroom : a.Room := hreach.room hrep (by omega)
    obtain ⟨hw, hr⟩ := hreach.reach.inv
    obtain ⟨st', r, vals, tr, h1, _, _, rfl, rfl⟩ := St.kstep_refines st S last op hw hr hc.1
    obtain ⟨a1, h2, h3⟩ := arena_kStep_refines op hrep hw hroom h1
    have hsz := hreach.step_size op h1
    have hreach' := KReachP.step op hreach hc.1 h1
    obtain ⟨a', st'', S'', last'', pk'', h4, h5, h6, h7⟩ := ih hreach' h3 hc.2 (by
      have : max pk st'.tree.size + ops.length + 1 ≤ pk + (ops.length + 1) + 1 := by omega
      have h5 : max (max c 8) (3 * (max pk st'.tree.size + ops.length + 1)) ≤
          max (max c 8) (3 * (pk + (ops.length + 1) + 1)) := by omega
      omega)
    refine ⟨a', st'', S'', last'', pk'', by simp [Arena.kRun, h2, h4, kspecRun], h5, h6, ?_⟩
    simp only [List.length_cons]; omega

/-- **after every in-contract history** of the expiring tree run by the pointer code from a reachable state,
`height()` completes on the resulting arena and the traversal of an export started there never holds more stack
frames than `Vec::with_capacity(height)` reserved — and never more than `2·log2(n+1)+1` -/
theorem arena_history_export_stack {c : Nat} (ops : List (KOp V)) {a : Arena V} {st : St V} {S : List (Ent V)}
    {last : Option Int} {pk : Nat} (hreach : KReachP c st S last pk) (hrep : RepStG a st)
    (hc : KContractAll S last ops) (hsmall : 3 * max (max c 8) (3 * (pk + ops.length + 1)) + 4 ≤ EMPTY) :
    ∃ a' st' cap depth, a.kRun ops = some (a', kspecRun S ops) ∧ RepStG a' st' ∧
      a'.heightCap = some cap ∧ a'.exportStackD = some (valsOf st'.tree, depth) ∧ depth ≤ cap ∧
      depth ≤ 2 * Nat.log2 (st'.tree.size + 1) + 1 := by
  obtain ⟨a', st', S', last', pk', h1, h2, h3, h4⟩ := arena_kRun_reach ops hreach hrep hc hsmall
  have hw := h2.reach.inv.1
  have hroom : a'.Room := h2.room h3 (by
    have : max (max c 8) (3 * (pk' + 1)) ≤ max (max c 8) (3 * (pk + ops.length + 1)) := by omega
    omega)
  have hsize : a'.nodes.size ≤ EMPTY := by unfold Arena.Room at hroom; omega
  obtain ⟨cap, depth, h5, h6, h7⟩ := arena_export_stack_capacity h3.rep hw hsize
  obtain ⟨depth', h8, h9⟩ := arena_export_stack_depth h3.rep hw hsize
  rw [h6] at h8
  simp only [Option.some.injEq, Prod.mk.injEq, true_and] at h8
  subst h8
  exact ⟨a', st', cap, depth, h1, h3, h5, h6, h7, h9⟩

/-- from `new(c)` -/
theorem arena_history_export_stack_new (c : Nat) (d : Ent V) (ops : List (KOp V))
    (hc : KContractAll ([] : List (Ent V)) none ops) (hsmall : 3 * max (max c 8) (3 * (ops.length + 1)) + 4 ≤ EMPTY) :
    ∃ a' st' cap depth, (Arena.new c d).kRun ops = some (a', kspecRun [] ops) ∧ RepStG a' st' ∧
      a'.heightCap = some cap ∧ a'.exportStackD = some (valsOf st'.tree, depth) ∧ depth ≤ cap ∧
      depth ≤ 2 * Nat.log2 (st'.tree.size + 1) + 1 :=
  arena_history_export_stack ops (KReachP.new (c := c)) (arena_new_repG c d (by omega)) hc (by simpa using hsmall)

/-! non-vacuity: the hypotheses are met by the D4 history from `new(0)` -/
example : ∃ a' st' cap depth, (Arena.new 0 (⟨0, 0, 0⟩ : Ent Nat)).kRun
    [.insert ⟨2, 1, 20⟩ 0, .insert ⟨1, 10, 10⟩ 0, .insert ⟨3, 1, 30⟩ 0, .exportAt 5] = some (a', kspecRun [] [.insert ⟨2, 1, 20⟩ 0, .insert ⟨1, 10, 10⟩ 0, .insert ⟨3, 1, 30⟩ 0, .exportAt 5]) ∧ RepStG a' st' ∧
      a'.heightCap = some cap ∧ a'.exportStackD = some (valsOf st'.tree, depth) ∧ depth ≤ cap ∧
      depth ≤ 2 * Nat.log2 (st'.tree.size + 1) + 1 :=
  arena_history_export_stack_new 0 (⟨0, 0, 0⟩ : Ent Nat)
    [.insert ⟨2, 1, 20⟩ 0, .insert ⟨1, 10, 10⟩ 0, .insert ⟨3, 1, 30⟩ 0, .exportAt 5]
    (by simp [KContractAll, KContract, kspecStep, KOp.nextLast, KOp.time, live, Spec.insert]) (by decide)

end ITree
