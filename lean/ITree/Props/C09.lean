import ITree.Lemmas.Neighbour
/-!
# C09 — ordered set: neighbour steps walk the keys in order and stop at the ends
-/
namespace ITree
variable {V : Type}

/-- For a handle designating the entry at some position of the in-order sequence, the successor step
returns the handle of the next entry (the empty sentinel after the last), the predecessor step the
handle of the previous entry (the empty sentinel before the first); no fault. -/
theorem C09_steps (st : St V) (slot : Nat) (e : Ent V) (A B : List (Nat × Ent V)) (h : WF st)
    (hl : st.tree.toList = A ++ (slot, e) :: B) :
    st.indexAfter slot = some ((B.head?).map (·.1)) ∧ st.indexBefore slot = some ((A.getLast?).map (·.1)) :=
  St.neighbour_spec st slot e A B h.slots.nodup hl

/-- at the largest entry the successor step, at the smallest the predecessor step gives the sentinel -/
theorem C09_ends (st : St V) (slot : Nat) (e : Ent V) (h : WF st) :
    (∀ A, st.tree.toList = A ++ [(slot, e)] → st.indexAfter slot = some none) ∧
    (∀ B, st.tree.toList = (slot, e) :: B → st.indexBefore slot = some none) :=
  ⟨fun A hA => by simpa using (C09_steps st slot e A [] h hA).1,
   fun B hB => by simpa using (C09_steps st slot e [] B h (by simpa using hB)).2⟩

/-- walk by successor steps -/
def walkAfter (st : St V) : Nat → Option Nat → List Nat
  | 0, _ => []
  | fuel + 1, cur =>
    match cur with
    | none => []
    | some s => s :: (match st.indexAfter s with
      | some nxt => walkAfter st fuel nxt
      | none => [])

def walkBefore (st : St V) : Nat → Option Nat → List Nat
  | 0, _ => []
  | fuel + 1, cur =>
    match cur with
    | none => []
    | some s => s :: (match st.indexBefore s with
      | some nxt => walkBefore st fuel nxt
      | none => [])

theorem walkAfter_suffix (st : St V) (h : WF st) :
    ∀ (B : List (Nat × Ent V)) (A : List (Nat × Ent V)) (fuel : Nat), st.tree.toList = A ++ B →
      B.length < fuel → walkAfter st fuel ((B.head?).map (·.1)) = B.map (·.1) := by
  intro B
  induction B with
  | nil => intro A fuel _ hf; cases fuel <;> simp [walkAfter]
  | cons x xs ih =>
    intro A fuel hl hf
    cases fuel with
    | zero => simp at hf
    | succ fuel =>
      obtain ⟨s, e⟩ := x
      have hstep := (C09_steps st s e A xs h hl).1
      simp only [List.head?_cons, Option.map_some, walkAfter, hstep, List.map_cons]
      rw [ih (A ++ [(s, e)]) fuel (by simpa using hl) (by simp at hf; omega)]

/-- walking from the smallest entry by successor steps enumerates every stored entry once, in
increasing key order, and terminates with the sentinel -/
theorem C09_walk_forward (st : St V) (h : WF st) :
    walkAfter st (st.tree.size + 1) st.tree.minSlot = st.tree.slots := by
  rw [T.minSlot_spec]
  exact walkAfter_suffix st h st.tree.toList [] _ rfl (by rw [T.length_toList]; omega)

theorem walkBefore_prefix (st : St V) (h : WF st) :
    ∀ (n : Nat) (A B : List (Nat × Ent V)) (fuel : Nat), A.length = n → st.tree.toList = A ++ B →
      A.length < fuel → walkBefore st fuel ((A.getLast?).map (·.1)) = (A.map (·.1)).reverse := by
  intro n
  induction n with
  | zero =>
    intro A B fuel hn _ _
    have : A = [] := List.eq_nil_of_length_eq_zero hn
    subst this
    cases fuel <;> simp [walkBefore]
  | succ n ih =>
    intro A B fuel hn hl hf
    cases fuel with
    | zero => omega
    | succ fuel =>
      have hne : A ≠ [] := by intro h0; rw [h0] at hn; simp at hn
      obtain ⟨A', x, rfl⟩ : ∃ A' x, A = A' ++ [x] := ⟨A.dropLast, A.getLast hne, (List.dropLast_concat_getLast hne).symm⟩
      obtain ⟨s, e⟩ := x
      have hstep := (C09_steps st s e A' B h (by simpa using hl)).2
      simp only [List.getLast?_append, List.getLast?_singleton, Option.some_or, Option.map_some, walkBefore, hstep,
        List.map_append, List.map_cons, List.map_nil, List.reverse_append, List.reverse_cons, List.reverse_nil,
        List.nil_append, List.cons_append, List.cons.injEq, true_and]
      simp only [List.length_append, List.length_cons, List.length_nil] at hn hf
      exact ih A' ((s, e) :: B) fuel (by omega) (by simpa using hl) (by omega)

/-- and symmetrically backwards from the largest entry -/
theorem C09_walk_backward (st : St V) (h : WF st) :
    walkBefore st (st.tree.size + 1) st.tree.maxSlot = st.tree.slots.reverse := by
  rw [T.maxSlot_spec]
  exact walkBefore_prefix st h _ st.tree.toList [] _ rfl (by simp) (by rw [T.length_toList]; omega)

/-! non-vacuity: single entry, and a three-entry set -/
example : ((St.new 0 : St Nat).insert ⟨2, 0, 20⟩).indexAfter 1 = some none := by decide
example : let st := (((St.new 0 : St Nat).insert ⟨2, 0, 20⟩).insert ⟨1, 0, 10⟩).insert ⟨3, 0, 30⟩
    walkAfter st 4 st.tree.minSlot = [2, 1, 3] ∧ walkBefore st 4 st.tree.maxSlot = [3, 1, 2] := by decide

end ITree
