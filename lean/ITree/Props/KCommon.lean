import ITree.Lemmas.KExport
/-!
# Histories of the expiring-key tree and their reference semantics

`KOp` are the public operations of `KeyExpTree` (the non-consuming form of `into_ordered_vec` is
included so that histories can continue after an export, as the correspondence check does through
the `verif_export` hook). The reference state is simply the list of entries that are live at the last
supplied time, in key order.
-/
namespace ITree
variable {V : Type}

inductive KOp (V : Type) where
  | insert (e : Ent V) (t : Int)
  | query (mode : Mode) (t : Int) (f : Int → Ordering)
  | exportAt (t : Int)
  | clear

/-- reference semantics: content = entries live at the last supplied time, in key order -/
def kspecStep (S : List (Ent V)) : KOp V → List (Ent V) × Option V × List V
  | .insert e t => (Spec.insert (live t S) e |> live t, none, [])
  | .query mode t f => (live t S, specPred mode f (live t S), [])
  | .exportAt t => (live t S, none, (live t S).map (·.val))
  | .clear => ([], none, [])

/-- the model step: new state, answer of a query, exported vector, callback events -/
def St.kstep (st : St V) : KOp V → Option (St V × Option V × List V × List (Ev V))
  | .insert e t => (st.kInsert e t).map fun (s, tr) => (s, none, [], tr)
  | .query mode t f => (st.kQuery mode t f).map fun (s, r, tr) => (s, r, [], tr)
  | .exportAt t => (st.kExport t).map fun (s, vals, _, tr) => (s, none, vals, tr)
  | .clear => some (st.clear, none, [], [])

def KOp.time : KOp V → Option Int
  | .insert _ t => some t
  | .query _ t _ => some t
  | .exportAt t => some t
  | .clear => none

/-- the caller's contract at reference state `S` with last supplied time `last`
(`none` after construction and after `clear`: the clock may restart) -/
def KContract (S : List (Ent V)) (last : Option Int) : KOp V → Prop
  | .insert e t => (∀ l, last = some l → l ≤ t) ∧ t ≤ e.exp ∧ (∀ x ∈ live t S, x.key ≠ e.key)
  | .query _ t f => (∀ l, last = some l → l ≤ t) ∧ MonoE f (live t S)
  | .exportAt t => (∀ l, last = some l → l ≤ t)
  | .clear => True

def KOp.nextLast (op : KOp V) (last : Option Int) : Option Int :=
  match op with
  | .clear => none
  | _ => op.time

/-- `st` is reachable from `new(c)` by an in-contract history whose reference content is `S` -/
inductive KReach (c : Nat) : St V → List (Ent V) → Option Int → Prop where
  | new : KReach c (St.new c) [] none
  | step {st st' : St V} {S : List (Ent V)} {last : Option Int} (op : KOp V) {r : Option V} {vals : List V}
      {tr : List (Ev V)} : KReach c st S last → KContract S last op →
      st.kstep op = some (st', r, vals, tr) → KReach c st' (kspecStep S op).1 (op.nextLast last)

end ITree
