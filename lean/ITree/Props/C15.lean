import ITree.Lemmas.SegTables
/-!
# C15 — place mask × visit mask: they meet iff the ranges overlap; the places tile the range; ≤ 8 copies

The quantifier is a finite table (528 bucket ranges × 63 places). The characterisations of the two
masks are checked over the *whole* table by kernel evaluation of the model's transcription of the Rust
loops (`ITree/Lemmas/Seg*.lean`, `decide +kernel`); the overlap theorem is then derived from them by
ordinary reasoning (no 528×528 enumeration). The correspondence check compares `placeMask`/`visitMask`
with the Rust functions on all 528 ranges bit for bit, so the tie is complete as well.
-/
namespace ITree

/-- bit `n` of the visit mask ⇔ place `n` meets the queried range -/
theorem C15_visit_char {c d : Nat} (hc : c < 32) (hd : d < 32) (hcd : c ≤ d) {n : Nat} (hn : n < 63) :
    (visitMask c d).testBit n = true ↔ nodeLo n ≤ d ∧ c ≤ nodeHi n := by
  rw [visit_char c hc d hd hcd n hn]; simp [meets]

/-- bit `n` of the place mask ⇔ place `n` is a maximal place inside the stored range -/
theorem C15_place_char {a b : Nat} (ha : a < 32) (hb : b < 32) (hab : a ≤ b) {n : Nat} (hn : n < 63) :
    (placeMask a b).testBit n = true ↔
      (a ≤ nodeLo n ∧ nodeHi n ≤ b) ∧ (n = 0 ∨ ¬ (a ≤ nodeLo (nodeParent n) ∧ nodeHi (nodeParent n) ≤ b)) := by
  rw [place_char a ha b hb hab n hn]; simp only [inside, Bool.and_eq_true, Bool.or_eq_true, beq_iff_eq,
    Bool.not_eq_true', Bool.and_eq_false_iff, decide_eq_true_eq, decide_eq_false_iff_not]
  constructor
  · rintro ⟨h1, h2⟩
    refine ⟨h1, ?_⟩
    rcases h2 with h2 | h2 | h2
    · exact Or.inl h2
    · exact Or.inr (fun h => h2 h.1)
    · exact Or.inr (fun h => h2 h.2)
  · rintro ⟨h1, h2⟩; refine ⟨h1, ?_⟩; rcases h2 with h2 | h2
    · exact Or.inl h2
    · by_cases h3 : a ≤ nodeLo (nodeParent n)
      · exact Or.inr (Or.inr (fun h4 => h2 ⟨h3, h4⟩))
      · exact Or.inr (Or.inl h3)

/-- the stored-at places tile `[a,b]`: every bucket of the range lies under exactly one of them and no
bucket outside lies under any -/
theorem C15_place_tiles {a b : Nat} (ha : a < 32) (hb : b < 32) (hab : a ≤ b) {x : Nat} (hx : x < 32) :
    coverCount (placeMask a b) x = if a ≤ x ∧ x ≤ b then 1 else 0 := place_tiles a ha b hb hab x hx

/-- one insert writes at most 8 copies (and at least one) -/
theorem C15_place_le_8 {a b : Nat} (ha : a < 32) (hb : b < 32) (hab : a ≤ b) :
    (bits (placeMask a b)).length ≤ 8 ∧ 0 < (bits (placeMask a b)).length := place_le_8 a ha b hb hab

theorem exists_cover {a b x : Nat} (ha : a < 32) (hb : b < 32) (hab : a ≤ b) (hax : a ≤ x) (hxb : x ≤ b) :
    ∃ n < 63, (placeMask a b).testBit n = true ∧ nodeLo n ≤ x ∧ x ≤ nodeHi n := by
  have h := C15_place_tiles ha hb hab (x := x) (by omega)
  simp only [hax, hxb, and_self, if_true] at h
  have hne : ((List.range 63).filter fun n => (placeMask a b).testBit n && decide (nodeLo n ≤ x) && decide (x ≤ nodeHi n)) ≠ [] := by
    intro h0; simp only [coverCount, h0, List.length_nil] at h; omega
  obtain ⟨n, hn⟩ := List.exists_mem_of_ne_nil _ hne
  simp only [List.mem_filter, List.mem_range, Bool.and_eq_true, decide_eq_true_eq] at hn
  exact ⟨n, hn.1, hn.2.1.1, hn.2.1.2, hn.2.2⟩

/-- **the set of places a value with bucket range `[a,b]` is stored at and the set of places a query over
`[c,d]` visits have an element in common exactly when the two ranges overlap** — for all
528 × 528 pairs -/
theorem C15_overlap_iff {a b c d : Nat} (ha : a < 32) (hb : b < 32) (hab : a ≤ b)
    (hc : c < 32) (hd : d < 32) (hcd : c ≤ d) :
    placeMask a b &&& visitMask c d ≠ 0 ↔ a ≤ d ∧ c ≤ b := by
  constructor
  · intro hne
    obtain ⟨n, hn⟩ := Nat.exists_testBit_of_ne_zero hne
    simp only [Nat.testBit_and, Bool.and_eq_true] at hn
    have hn63 : n < 63 := by
      have hlt := (masks_lt a ha b hb hab).1
      rcases Nat.lt_or_ge n 63 with h | h
      · exact h
      · have := Nat.ge_two_pow_of_testBit hn.1
        have : 2 ^ 63 ≤ 2 ^ n := Nat.pow_le_pow_right (by omega) h
        omega
    have h1 := (C15_place_char ha hb hab hn63).mp hn.1
    have h2 := (C15_visit_char hc hd hcd hn63).mp hn.2
    have hw : nodeLo n ≤ nodeHi n := by
      -- width ≥ 1 for every place: checked on the table
      have : ∀ n < 63, nodeLo n ≤ nodeHi n := by decide +kernel
      exact this n hn63
    omega
  · intro ⟨h1, h2⟩
    -- the bucket max(a,c) lies in both ranges
    obtain ⟨n, hn, hbit, hlo, hhi⟩ := exists_cover (x := max a c) ha hb hab (by omega) (by omega)
    have hv : (visitMask c d).testBit n = true := (C15_visit_char hc hd hcd hn).mpr ⟨by omega, by omega⟩
    intro h0
    have := congrArg (fun m => m.testBit n) h0
    simp [hbit, hv] at this

/-! non-vacuity / spot checks against the Rust unit tests -/
example : bits (placeMask 0 30) = [1, 5, 13, 29, 61] := by decide
example : bits (placeMask 0 31) = [0] := by decide
example : bits (visitMask 1 1) = [0, 1, 3, 7, 15, 32] := by decide

end ITree
