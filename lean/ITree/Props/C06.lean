import ITree.Props.C01
/-!
# C06 — expiring-key tree: exact lookup finds every live key wherever it sits
-/
namespace ITree
variable {V : Type}

/-- exact lookup at time `t` = the live entry with that key, if any — for every well-formed tree,
i.e. whatever the position of the entry (root, left or right subtree, any depth) -/
theorem C06_lookup (st : St V) (t : Int) (key : Int) (h : WF st) :
    ∃ st' r tr, st.kQuery .get t (fun k => compare k key) = some (st', r, tr) ∧ WF st' ∧
      live t st'.tree.ents = live t st.tree.ents ∧
      r = ((live t st.tree.ents).find? fun e => e.key == key).map (·.val) := by
  have hm : MonoE (fun k => compare k key) (live t st.tree.ents) := by
    apply monoOn_compare
    have := h.ordered
    rw [Ordered, T.keys_ents] at this
    exact List.Pairwise.sublist (List.Sublist.map _ List.filter_sublist) this
  obtain ⟨st', r, tr, h1, h2, h3, h4⟩ := St.kQuery_spec st .get t _ h hm
  refine ⟨st', r, tr, h1, h2, h3, ?_⟩
  rw [h4]
  simp only [specPred]
  have hfun : (fun e : Ent V => compare e.key key == Ordering.eq) = fun e => e.key == key := by
    funext x
    by_cases hk : x.key = key
    · simp [hk]
    · have : compare x.key key ≠ .eq := by rw [ne_eq, Int.compare_eq_eq]; exact hk
      cases hc : compare x.key key <;> simp_all
  rw [hfun]

/-- a live entry is found, an expired or never-stored key is not -/
theorem C06_lookup_iff (st : St V) (t : Int) (key : Int) (h : WF st) :
    ∃ st' r tr, st.kQuery .get t (fun k => compare k key) = some (st', r, tr) ∧
      (r.isSome ↔ ∃ e ∈ st.tree.ents, e.key = key ∧ t < e.exp) := by
  obtain ⟨st', r, tr, h1, _, _, h4⟩ := C06_lookup st t key h
  refine ⟨st', r, tr, h1, ?_⟩
  rw [h4]
  simp only [Option.isSome_map, List.find?_isSome, live, List.mem_filter, decide_eq_true_eq, beq_iff_eq]
  constructor
  · rintro ⟨x, ⟨hx, hl⟩, hk⟩; exact ⟨x, hx, hk, hl⟩
  · rintro ⟨x, hx, hk, hl⟩; exact ⟨x, ⟨hx, hl⟩, hk⟩

/-- in every reachable state of an in-contract history -/
theorem C06_history {c : Nat} {st : St V} {S : List (Ent V)} {last : Option Int}
    (hreach : KReach c st S last) (t key : Int) (ht : ∀ l, last = some l → l ≤ t) :
    ∃ st' r tr, st.kQuery .get t (fun k => compare k key) = some (st', r, tr) ∧
      r = ((live t S).find? fun e => e.key == key).map (·.val) := by
  obtain ⟨hw, hr⟩ := hreach.inv
  obtain ⟨st', r, tr, h1, _, _, h4⟩ := C06_lookup st t key hw
  exact ⟨st', r, tr, h1, by rw [h4, hr.at_time ht]⟩

/-! the witness of the defect repaired by the first `fix:` commit: every non-root key was missed -/
example : ((((St.new 0 : St Nat).kInsert ⟨2, 10, 20⟩ 0).bind fun (s, _) => (s.kInsert ⟨1, 10, 10⟩ 0)).bind
    fun (s, _) => (s.kQuery .get 0 (fun k => compare k 1)).map (·.2.1)) = some (some 10) := by decide

end ITree
