import ITree.Props.C08
/-!
# C17 — map and set handles stay valid across insertions

Lookups (`get_value`, `first_index_less…`, `value_by_index`) are pure functions of the state in the
model (and take `&self` in Rust), so only insertions need an argument.
-/
namespace ITree
variable {V : Type}

/-- an insertion keeps every `(handle, entry)` pair: same slot, same key, same value -/
theorem C17_insert_keeps_pairs (st : St V) (e : Ent V) (h : WF st) (hfresh : e.key ∉ st.tree.keys) :
    ∀ p ∈ st.tree.toList, p ∈ (st.insert e).tree.toList := by
  obtain ⟨_, L, R, slot, h1, h2, _⟩ := St.insert_spec st e h hfresh
  intro p hp
  rw [h1] at hp
  rw [h2]
  simp only [List.mem_append, List.mem_cons] at hp ⊢
  rcases hp with hp | hp
  · exact Or.inl hp
  · exact Or.inr (Or.inr hp)

/-- a sequence of insertions of fresh keys -/
def insertMany (st : St V) : List (Ent V) → St V
  | [] => st
  | e :: es => insertMany (st.insert e) es

def FreshSeq (st : St V) : List (Ent V) → Prop
  | [] => True
  | e :: es => e.key ∉ st.tree.keys ∧ FreshSeq (st.insert e) es

/-- any number of insertions: the handle still designates the same entry, reading through it gives
the same value, and asking for the predecessor of its key gives the same handle back -/
theorem C17_handles_survive (st : St V) (es : List (Ent V)) (h : WF st) (hf : FreshSeq st es) :
    WF (insertMany st es) ∧
    ∀ slot x, (slot, x) ∈ st.tree.toList →
      (slot, x) ∈ (insertMany st es).tree.toList ∧
      (insertMany st es).valueByIndex slot = some x.val ∧
      (insertMany st es).firstIndexLess x.key = some slot := by
  induction es generalizing st with
  | nil =>
    refine ⟨h, fun slot x hm => ⟨hm, C08_read st slot x h hm, ?_⟩⟩
    simp only [insertMany]
    obtain ⟨hnone, hsome⟩ := C08_firstIndexLess_char st x.key h
    cases hr : st.firstIndexLess x.key with
    | none =>
      have := hnone.mp hr x.key (by simp only [T.keys, List.mem_map]; exact ⟨_, hm, rfl⟩)
      omega
    | some s =>
      obtain ⟨e, he, hle, hmax⟩ := hsome s hr
      have hge := hmax x.key (by simp only [T.keys, List.mem_map]; exact ⟨_, hm, rfl⟩) (Int.le_refl _)
      have hk : e.key = x.key := by omega
      have hnd : (st.tree.toList.map (fun y => y.2.key)).Nodup :=
        List.Pairwise.imp (fun h => Int.ne_of_lt h) h.ordered
      have := inj_of_nodup_map hnd he hm hk
      simp only [Prod.mk.injEq] at this
      rw [this.1]
  | cons e es ih =>
    obtain ⟨hfr, hrest⟩ := hf
    have hw := (St.insert_spec st e h hfr).1
    obtain ⟨hw', hall⟩ := ih (st.insert e) hw hrest
    exact ⟨hw', fun slot x hm => hall slot x (C17_insert_keeps_pairs st e h hfr _ hm)⟩

/-! non-vacuity: the handle of key 2 (slot 1) survives insertions that rotate around it -/
example : let st := ((St.new 0 : St Nat).insert ⟨2, 0, 20⟩)
    (insertMany st [⟨1, 0, 10⟩, ⟨3, 0, 30⟩, ⟨4, 0, 40⟩, ⟨5, 0, 50⟩]).valueByIndex 1 = some 20 := by decide

end ITree
