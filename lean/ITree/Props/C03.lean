import ITree.Lemmas.SegQuery
import ITree.Props.C14
import ITree.Props.C15
/-!
# C03 — segment tree: a range query yields each live overlapping value exactly once

The logical content of a tree is the list of inserted values `LV` (range, value, expiration). The
theorem is stated as an equality of *multisets* (`List.Perm`): a value inserted twice is reported
twice. `segTake n` is the model of consuming at most `n` items of the iterator and then dropping it.
-/
namespace ITree
variable {V : Type} [DecidableEq V]

/-- an inserted value -/
structure SegVal (V : Type) where
  lo : Int
  hi : Int
  val : V
  exp : Int

def SegVal.toEnt (l : Layout) (v : SegVal V) : SegEnt V := ⟨v.val, v.exp, l.insertMask v.lo v.hi⟩

def InDomain (l : Layout) (a b : Int) : Prop := l.min ≤ a ∧ a ≤ b ∧ b ≤ l.max

/-- the value's range and the query range share at least one of the 32 buckets -/
def bucketsOverlap (l : Layout) (v : SegVal V) (a b : Int) : Prop :=
  l.index v.lo ≤ l.index b ∧ l.index a ≤ l.index v.hi

instance (l : Layout) (v : SegVal V) (a b : Int) : Decidable (bucketsOverlap l v a b) := by
  unfold bucketsOverlap; infer_instance

/-- well-formed tree with logical content `LV`; `T` = time of the last query since the last clear -/
structure SegOK (s : Seg V) (LV : List (SegVal V)) (T : Option Int) : Prop where
  built : ∃ lo hi, Layout.new lo hi = some s.layout
  len : s.chunks.length = s.layout.count
  rel : SegRel s (LV.map (SegVal.toEnt s.layout)) T
  dom : ∀ v ∈ LV, InDomain s.layout v.lo v.hi

theorem layout_index_facts {l : Layout} (hb : ∃ lo hi, Layout.new lo hi = some l) {a b : Int} (h : InDomain l a b) :
    l.index a ≤ l.index b ∧ l.index b < 32 := by
  obtain ⟨lo, hi, hnew⟩ := hb
  obtain ⟨hmin, hmax, _⟩ := C14_layout_facts hnew
  obtain ⟨_, hlt, mono, hle⟩ := C14_index hnew
  obtain ⟨h1, h2, h3⟩ := h
  rw [hmin] at h1; rw [hmax] at h3
  have := hle b (by omega) h3
  exact ⟨mono a b h1 h2, by omega⟩

theorem mask_facts {l : Layout} (hb : ∃ lo hi, Layout.new lo hi = some l) {a b : Int} (h : InDomain l a b) :
    bits (l.insertMask a b) = placesOf (l.insertMask a b) ∧ bits (l.queryMask a b) = placesOf (l.queryMask a b) ∧
    l.insertMask a b < 2 ^ 63 ∧ l.queryMask a b < 2 ^ 63 ∧
    (∀ i ∈ placesOf (l.insertMask a b), i < l.count) ∧ (∀ i ∈ placesOf (l.queryMask a b), i < l.count) := by
  obtain ⟨h1, h2⟩ := layout_index_facts hb h
  obtain ⟨b1, b2⟩ := bits_char (l.index a) (by omega) (l.index b) h2 h1
  obtain ⟨m1, m2⟩ := masks_lt (l.index a) (by omega) (l.index b) h2 h1
  obtain ⟨lo, hi, hnew⟩ := hb
  obtain ⟨hmin, hmax, _⟩ := C14_layout_facts hnew
  refine ⟨b1, b2, m1, m2, ?_, ?_⟩
  · intro i hi
    have := (C14_places_backed hnew (a := a) (b := b) (by rw [← hmin]; exact h.1) h.2.1 (by rw [← hmax]; exact h.2.2) (n := i)).1
    exact this (by simpa [placesOf] using (List.mem_filter.mp hi).2)
  · intro i hi
    have := (C14_places_backed hnew (a := a) (b := b) (by rw [← hmin]; exact h.1) h.2.1 (by rw [← hmax]; exact h.2.2) (n := i)).2
    exact this (by simpa [placesOf] using (List.mem_filter.mp hi).2)

/-- the mask test of the iterator is the bucket-overlap test (C15) -/
theorem mask_meets_iff {l : Layout} (hb : ∃ lo hi, Layout.new lo hi = some l) (v : SegVal V) {a b : Int}
    (hv : InDomain l v.lo v.hi) (hq : InDomain l a b) :
    (SegVal.toEnt l v).mask &&& l.queryMask a b ≠ 0 ↔ bucketsOverlap l v a b := by
  obtain ⟨v1, v2⟩ := layout_index_facts hb hv
  obtain ⟨q1, q2⟩ := layout_index_facts hb hq
  exact C15_overlap_iff (by omega) v2 v1 (by omega) q2 q1

/-- **one query**, consumed up to `n` items and then dropped: no fault; the items yielded are a
sub-multiset of exactly the unexpired values sharing a bucket with the query (nothing else, nothing
twice, nothing with expiration below `t`); when the iterator ran to exhaustion it is *all* of them; the
tree afterwards still holds every copy of every value not expired at `t`. -/
theorem C03_query (s : Seg V) (LV : List (SegVal V)) (T : Option Int) (a b t : Int) (n : Nat)
    (h : SegOK s LV T) (hq : InDomain s.layout a b) (hT : ∀ t0, T = some t0 → t0 ≤ t) :
    ∃ (it : SegIt) (s' : Seg V) (it' : SegIt) (items rest : List (SegEnt V)), s.iter a b t = some it ∧
      segTake n s it [] = some (s', it', items.map (·.val)) ∧
      List.Perm ((LV.filter fun v => decide (t ≤ v.exp) && decide (bucketsOverlap s.layout v a b)).map (SegVal.toEnt s.layout))
        (items ++ rest) ∧
      items.length ≤ n ∧ (items.length < n → rest = []) ∧ SegOK s' LV (some t) := by
  obtain ⟨_, hbq, _, hmq, _, hlq⟩ := mask_facts h.built hq
  have hlen : ∀ i ∈ placesOf (s.layout.queryMask a b), i < s.chunks.length := by rw [h.len]; exact hlq
  obtain ⟨it, hit, ht, hm, hinv, hmeas, hpend⟩ := iter_spec s a b t hbq hlen
  obtain ⟨s', it', items, htake, hres⟩ := segTake_spec n s it _ [] hinv hmeas
  have hexp := expected_perm s _ T t _ h.rel hT hmq hlen
  obtain ⟨l1, l2, _, _⟩ := hres.layout
  refine ⟨it, s', it', items, pending s' it', hit, by simpa using htake, ?_, hres.len, ?_, ?_⟩
  · -- expected (as entities) ~ pending s it ~ items ++ pending'
    have hmap : (LV.filter fun v => decide (t ≤ v.exp) && decide (bucketsOverlap s.layout v a b)).map (SegVal.toEnt s.layout) =
        (LV.map (SegVal.toEnt s.layout)).filter fun e => keepAt t e && decide (e.mask &&& s.layout.queryMask a b ≠ 0) := by
      rw [List.filter_map]
      congr 1
      apply List.filter_congr
      intro v hv
      have hiff := mask_meets_iff h.built v (h.dom v hv) hq
      show (decide (t ≤ v.exp) && decide (bucketsOverlap s.layout v a b)) =
        (keepAt t (SegVal.toEnt s.layout v) && decide ((SegVal.toEnt s.layout v).mask &&& s.layout.queryMask a b ≠ 0))
      have h1 : keepAt t (SegVal.toEnt s.layout v) = decide (t ≤ v.exp) := rfl
      rw [h1, decide_eq_decide.mpr hiff]
    rw [hmap]
    rw [← hpend] at hexp
    exact hexp.symm.trans hres.perm
  · intro hlt; exact (hres.exhausted hlt).1
  · refine ⟨l1 ▸ h.built, by rw [l2, l1]; exact h.len, ?_, by rw [l1]; exact h.dom⟩
    rw [l1]
    exact h.rel.after_query hT l2 (by rw [← ht]; exact hres.purge)

omit [DecidableEq V] in
/-- domains with at most 32 points: every bucket is a single point, so the answer is exactly the set of
unexpired values whose range truly intersects the query range -/
theorem C03_small_domain_exact {l : Layout} (hscale : l.scale = 0) (v : SegVal V) (a b : Int)
    (hv : InDomain l v.lo v.hi) (hq : InDomain l a b) :
    bucketsOverlap l v a b ↔ (v.lo ≤ b ∧ a ≤ v.hi) := by
  simp only [bucketsOverlap, Layout.index, hscale, Nat.shiftRight_zero]
  obtain ⟨h1, h2, h3⟩ := hv
  obtain ⟨q1, q2, q3⟩ := hq
  omega

/-- insert of an in-domain range: no fault, the logical content gains the value -/
theorem C03_insert (s : Seg V) (LV : List (SegVal V)) (T : Option Int) (v : SegVal V)
    (h : SegOK s LV T) (hv : InDomain s.layout v.lo v.hi) :
    ∃ s', s.insert v.lo v.hi v.val v.exp = some s' ∧ SegOK s' (v :: LV) T := by
  obtain ⟨hbi, _, hmi, _, hli, _⟩ := mask_facts h.built hv
  obtain ⟨s', h1, h2, h3, h4⟩ := h.rel.after_insert v.lo v.hi v.val v.exp hbi (by rw [h.len]; exact hli) hmi
  refine ⟨s', h1, ⟨h2 ▸ h.built, by rw [h3, h2]; exact h.len, ?_, ?_⟩⟩
  · rw [h2]; simpa [SegVal.toEnt] using h4
  · intro x hx
    rw [h2]
    rcases List.mem_cons.mp hx with rfl | hx
    · exact hv
    · exact h.dom x hx

/-- a new tree and a cleared tree have empty logical content and no time constraint -/
theorem C03_new (lo hi : Int) (s : Seg V) (h : Seg.new lo hi = some s) : SegOK s [] none := by
  simp only [Seg.new, Option.map_eq_some_iff] at h
  obtain ⟨l, hl, rfl⟩ := h
  refine ⟨⟨lo, hi, hl⟩, by simp, ?_, by simp⟩
  have hc : ∀ i, chunkAt ({ layout := l, chunks := List.replicate l.count [] } : Seg V) i = [] := by
    intro i
    simp only [chunkAt]
    cases hh : (List.replicate l.count ([] : List (SegEnt V)))[i]? with
    | none => rfl
    | some c => have := List.mem_of_getElem? hh; simp at this; simp [this.2]
  exact ⟨by intro i _ e _; simp [hc], by intro i e; simp [hc], by simp⟩

theorem C03_clear (s : Seg V) (LV : List (SegVal V)) (T : Option Int) (h : SegOK s LV T) : SegOK s.clear [] none :=
  ⟨h.built, by simpa [Seg.clear] using h.len, by simpa using SegRel.clear s, by simp⟩

/-! ### histories -/

/-- states of a segment tree over `[lo,hi]` reachable by in-contract histories (in-domain ranges, query times
non-decreasing between clears, queries consumed to any extent `n`), with the logical content `LV` (every value
inserted since the last clear) and the time `T` of the last query since the last clear -/
inductive SegReach (lo hi : Int) : Seg V → List (SegVal V) → Option Int → Prop where
  | new {s : Seg V} : Seg.new lo hi = some s → SegReach lo hi s [] none
  | insert {s s' : Seg V} {LV : List (SegVal V)} {T : Option Int} (v : SegVal V) : SegReach lo hi s LV T →
      InDomain s.layout v.lo v.hi → s.insert v.lo v.hi v.val v.exp = some s' → SegReach lo hi s' (v :: LV) T
  | query {s s' : Seg V} {LV : List (SegVal V)} {T : Option Int} (a b t : Int) (n : Nat) {it it' : SegIt}
      {out : List V} : SegReach lo hi s LV T → InDomain s.layout a b → (∀ t0, T = some t0 → t0 ≤ t) →
      s.iter a b t = some it → segTake n s it [] = some (s', it', out) → SegReach lo hi s' LV (some t)
  | clear {s : Seg V} {LV : List (SegVal V)} {T : Option Int} : SegReach lo hi s LV T → SegReach lo hi s.clear [] none

/-- the invariant `SegOK` holds in every reachable state (induction over the history) -/
theorem SegReach.ok {lo hi : Int} {s : Seg V} {LV : List (SegVal V)} {T : Option Int} (h : SegReach lo hi s LV T) :
    SegOK s LV T := by
  induction h with
  | new hn => exact C03_new lo hi _ hn
  | insert v _ hv hi ih =>
    obtain ⟨s2, h1, h2⟩ := C03_insert _ _ _ v ih hv
    rw [hi] at h1; cases h1; exact h2
  | query a b t n _ hq hT hit htake ih =>
    obtain ⟨it2, s2, it2', items, rest, h1, h2, _, _, _, h6⟩ := C03_query _ _ _ a b t n ih hq hT
    rw [hit] at h1; cases h1
    rw [htake] at h2
    simp only [Option.some.injEq, Prod.mk.injEq] at h2
    obtain ⟨rfl, _, _⟩ := h2
    exact h6
  | clear _ ih => exact C03_clear _ _ _ ih

/-- **every history.** In any state reached by an in-contract history of inserts, (partially consumed) queries
and clears, a query over `[a,b]` at a time `t` not below the last query time completes and yields — as a
multiset — a part of exactly the values inserted since the last clear whose expiration is at least `t` and whose
range shares a bucket with `[a,b]`; all of them when it is consumed to exhaustion. Values expired at an earlier
query never reappear, because query times do not decrease. -/
theorem C03_history {lo hi : Int} {s : Seg V} {LV : List (SegVal V)} {T : Option Int} (h : SegReach lo hi s LV T)
    (a b t : Int) (n : Nat) (hq : InDomain s.layout a b) (hT : ∀ t0, T = some t0 → t0 ≤ t) :
    ∃ (it : SegIt) (s' : Seg V) (it' : SegIt) (items rest : List (SegEnt V)), s.iter a b t = some it ∧
      segTake n s it [] = some (s', it', items.map (·.val)) ∧
      List.Perm ((LV.filter fun v => decide (t ≤ v.exp) && decide (bucketsOverlap s.layout v a b)).map (SegVal.toEnt s.layout))
        (items ++ rest) ∧
      items.length ≤ n ∧ (items.length < n → rest = []) ∧ SegReach lo hi s' LV (some t) := by
  obtain ⟨it, s', it', items, rest, h1, h2, h3, h4, h5, _⟩ := C03_query s LV T a b t n h.ok hq hT
  exact ⟨it, s', it', items, rest, h1, h2, h3, h4, h5, SegReach.query a b t n h hq hT h1 h2⟩

/-- no in-contract insertion faults in a reachable state (every place it writes to is backed by storage) -/
theorem C03_history_insert {lo hi : Int} {s : Seg V} {LV : List (SegVal V)} {T : Option Int} (h : SegReach lo hi s LV T)
    (v : SegVal V) (hv : InDomain s.layout v.lo v.hi) :
    ∃ s', s.insert v.lo v.hi v.val v.exp = some s' ∧ SegReach lo hi s' (v :: LV) T := by
  obtain ⟨s', h1, _⟩ := C03_insert s LV T v h.ok hv
  exact ⟨s', h1, SegReach.insert v h hv h1⟩

/-! non-vacuity: the Rust unit test `test_02` (two overlapping segments, both reported once) -/
example : ((Seg.new 0 128 : Option (Seg Nat)).bind fun s => (s.insert 10 100 1 2).bind fun s =>
    (s.insert 20 80 2 2).bind fun s => (s.iter 15 90 0).bind fun it => (segTake 10 s it []).map (·.2.2))
    = some [1, 2] := by decide

end ITree
