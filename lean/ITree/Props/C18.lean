import ITree.Props.C20
import ITree.Lemmas.KListHistory
import ITree.Lemmas.SegQuery
/-!
# C18 — a panicking user callback leaves every collection valid and un-torn

In the model an operation is a function that also returns the list of callbacks it makes, each with
the state of the whole collection at that moment (`Ev`). A panic in the `k`-th callback leaves exactly
that recorded state behind. The theorems say that every such state is well-formed and has the
observable (live) content of the state before the operation. The correspondence check injects a panic
at every callback index of every operation of its histories and compares the surviving real state with
the recorded one; unwinding itself (drop order, `Vec` internals) is runtime behaviour that is observed,
not modelled.
-/
namespace ITree
variable {V : Type}

/-- expiring tree, queries: a panic in any callback (key comparison, comparator closure, expiration
accessor) leaves a well-formed tree whose live content is that before the query — lazy removals that
already happened were complete, and removed expired entries only -/
theorem C18_query (st : St V) (mode : Mode) (t : Int) (f : Int → Ordering) (h : WF st)
    {st' : St V} {r : Option V} {tr : List (Ev V)} (hq : st.kQuery mode t f = some (st', r, tr)) :
    ∀ ev ∈ tr, WF (⟨ev.tree, ev.pool⟩ : St V) ∧ live t ev.tree.ents = live t st.tree.ents :=
  fun ev hev => ⟨(St.kQuery_trace st mode t f h hq ev hev).1, (St.kQuery_trace st mode t f h hq ev hev).2.1⟩

/-- expiring tree, insert: every callback precedes the linking of the new node -/
theorem C18_insert (st : St V) (e : Ent V) (t : Int) (h : WF st)
    {st' : St V} {tr : List (Ev V)} (hq : st.kInsert e t = some (st', tr)) :
    ∀ ev ∈ tr, WF (⟨ev.tree, ev.pool⟩ : St V) ∧ live t ev.tree.ents = live t st.tree.ents :=
  fun ev hev => ⟨(St.kInsert_trace st e t h hq ev hev).1, (St.kInsert_trace st e t h hq ev hev).2.1⟩

/-- expiring tree, export purge -/
theorem C18_export (st : St V) (t : Int) (h : WF st)
    {st' : St V} {vals : List V} {cap : Nat} {tr : List (Ev V)}
    (hq : st.kExport t = some (st', vals, cap, tr)) :
    ∀ ev ∈ tr, WF (⟨ev.tree, ev.pool⟩ : St V) ∧ live t ev.tree.ents = live t st.tree.ents :=
  fun ev hev => ⟨(St.kExport_trace st t h hq ev hev).1, (St.kExport_trace st t h hq ev hev).2.1⟩

/-- map / set: every callback of `insert` is made by the read-only descent, whose result is a context
around the unchanged tree — a panic there leaves the state before the operation -/
theorem C18_map_insert_descent (key : Int) (t : T (Ent V)) : plug (descendIns key [] t) .leaf = t := by
  simpa using descendIns_plug key [] t

/-- map / set: likewise for `delete` (the descent `find_index`); `delete_index` itself makes no callback -/
theorem C18_map_find_descent (key : Int) (t : T (Ent V)) {k : Ctx (Ent V)} {f : T (Ent V)}
    (h : findKey key [] t = some (k, f)) : plug k f = t := by
  simpa using (findKey_some key [] t h).1

/-- sorted expiring list: `retain` interrupted after a prefix has been processed (std's drop guard
keeps the unprocessed tail): the buffer holds every live entry, still in order, and the cached
earliest expiration — not yet updated — is still a lower bound -/
theorem C18_list_partial_purge (s : KL V) (t : Int) (a b : List (Ent V)) (hs : s.buf = a ++ b) (h : s.Inv) :
    let s' : KL V := { s with buf := live t a ++ b }
    s'.Inv ∧ live t s'.buf = live t s.buf ∧ s'.buf.Sublist s.buf := by
  refine ⟨?_, ?_, ?_⟩
  · intro e he
    simp only [List.mem_append] at he
    apply h e
    rw [hs]
    rcases he with he | he
    · exact List.mem_append_left _ (List.mem_filter.mp he).1
    · exact List.mem_append_right _ he
  · simp only [hs, live_append, live_idem]
  · rw [hs]
    exact List.Sublist.append List.filter_sublist (List.Sublist.refl _)

/-- expiring list: the state at every `expiration()` callback of the purge and during the binary
search of an insert or a query — which is what a panicking callback leaves behind — keeps the
invariant (cached minimum is a lower bound), stays sorted and has the live content of the state before
the operation -/
theorem C18_klist_states (s : KL V) (e : Ent V) (t : Int) (h : s.Inv) (hs : SortedE s.buf) :
    ∀ st, (st ∈ (s.insertStates e t).1 ∨ st = (s.insertStates e t).2 ∨
           st ∈ (s.queryStates t).1 ∨ st = (s.queryStates t).2) →
      st.Inv ∧ SortedE st.buf ∧ live t st.buf = live t s.buf := by
  have hpurge : ∀ st ∈ s.purgeStates t, st.Inv ∧ SortedE st.buf ∧ live t st.buf = live t s.buf := by
    intro st hst
    simp only [KL.purgeStates] at hst
    split at hst
    · simp at hst
    · simp only [List.mem_map, List.mem_range] at hst
      obtain ⟨i, _, rfl⟩ := hst
      have hsplit : s.buf = s.buf.take i ++ s.buf.drop i := (List.take_append_drop i s.buf).symm
      obtain ⟨a1, a2, a3⟩ := C18_list_partial_purge s t (s.buf.take i) (s.buf.drop i) hsplit h
      exact ⟨a1, List.Pairwise.sublist (List.Sublist.map _ a3) hs, a2⟩
  obtain ⟨c1, c2, _⟩ := h.clearExpired t
  have hclear : (s.clearExpired t).Inv ∧ SortedE (s.clearExpired t).buf ∧
      live t (s.clearExpired t).buf = live t s.buf :=
    ⟨c2, by rw [c1]; exact hs.live t, by rw [c1, live_idem]⟩
  intro st hst
  rcases hst with hst | rfl | hst | rfl
  · simp only [KL.insertStates, List.mem_append, List.mem_singleton] at hst
    rcases hst with hst | rfl
    · exact hpurge st hst
    · exact hclear
  · simp only [KL.insertStates]
    refine ⟨?_, hclear.2.1, hclear.2.2⟩
    intro x hx
    have := hclear.1 x hx
    simp only; omega
  · exact hpurge st hst
  · exact hclear

/-- segment tree: the only callback of a query is `expiration()` of a stored copy, and every removal
before it is a complete `swap_remove` of a copy expired at the query time. Whatever subset of such copies
has been removed in whatever places when the callback panics, the tree is still related to the same
logical content (with the query time as the new lower bound), so every theorem of C03 / C16 applies to the
survivor: later queries are exact, nothing is lost, nothing is reported twice. The correspondence check
evaluates this relation (`segOKCheck`) on the real tree after every injected panic. -/
theorem C18_seg_partial_purge [DecidableEq V] {s s' : Seg V} {L : List (SegEnt V)} {T : Option Int} {t : Int}
    (h : SegRel s L T) (hT : ∀ t0, T = some t0 → t0 ≤ t) (hlen : s'.chunks.length = s.chunks.length)
    (hpurge : ∀ i, ∃ rm, (chunkAt s i).Perm (chunkAt s' i ++ rm) ∧ ∀ e ∈ rm, keepAt t e = false) :
    SegRel s' L (some t) := h.after_query hT hlen hpurge

/-! non-vacuity: the states recorded for a query that removes an expired root on its way -/
example : (((St.new 0 : St Nat).kInsert ⟨2, 1, 20⟩ 0).bind fun (s, _) =>
    (s.kInsert ⟨1, 9, 10⟩ 0).bind fun (s, _) =>
    (s.kQuery .fle 5 (fun k => compare k 3)).map fun (_, _, tr) => tr.map fun ev => ev.tree.size)
    = some [1, 1, 2] := by decide

end ITree
