import ITree.Lemmas.MapOps
import ITree.Lemmas.Clear
import ITree.Lemmas.Height
/-!
# Operation language and reachability for `MapTree` / `SetTree` histories

`St.step` is the model of one public mutating operation; `InContract` is the caller's side of the
contract (a key is inserted only while absent; a handle designates a stored entry).
`Reach c st`: `st` is reachable from `new(c)` by in-contract operations.
-/
namespace ITree
variable {V : Type}

inductive MapOp (V : Type) where
  | insert (e : Ent V)
  | delete (key : Int)
  | deleteByIndex (slot : Nat)
  | setValue (slot : Nat) (v : V)
  | clear

def St.step (st : St V) : MapOp V → Option (St V)
  | .insert e => some (st.insert e)
  | .delete key => st.delete key
  | .deleteByIndex slot => st.deleteByIndex slot
  | .setValue slot v => st.setValueByIndex slot v
  | .clear => some st.clear

def InContract (st : St V) : MapOp V → Prop
  | .insert e => e.key ∉ st.tree.keys
  | .deleteByIndex slot => slot ∈ st.tree.slots
  | .setValue slot _ => slot ∈ st.tree.slots
  | _ => True

inductive Reach (c : Nat) : St V → Prop where
  | new : Reach c (St.new c)
  | step {st st' : St V} (op : MapOp V) : Reach c st → InContract st op → st.step op = some st' → Reach c st'

end ITree
