import ITree.Props.C18
import ITree.Lemmas.SegTrace
/-!
# C18 for the segment tree, per callback

`Model/SegTrace.lean` records the whole tree at every `expiration()` call of a query (the only user code the
segment tree runs). `C18_seg_query_callbacks`: the instrumented query *is* the query of `Model/Seg.lean`, and
every recorded tree is the tree before the query with some copies expired at the query time removed — hence
(`C18_seg_partial_purge`) still related to the same logical content: whatever callback panics, the survivor
answers later queries exactly, loses nothing and reports nothing twice. The correspondence check injects a
panic at every such call and compares the surviving real store with the recorded one, copy by copy.
-/
namespace ITree
variable {V : Type}

theorem Seg.iter_time {s : Seg V} {a b t : Int} {it : SegIt} (h : s.iter a b t = some it) : it.time = t := by
  simp only [Seg.iter, Option.map_eq_some_iff] at h
  obtain ⟨x, _, rfl⟩ := h
  rfl

theorem C18_seg_query_callbacks [DecidableEq V] {s : Seg V} {L : List (SegEnt V)} {T : Option Int} {a b t : Int} {n : Nat}
    (h : SegRel s L T) (hT : ∀ t0, T = some t0 → t0 ≤ t)
    {s' : Seg V} {items : List V} {tr : List (Seg V)} (hq : s.queryT a b t n = some (s', items, tr)) :
    (∃ it it', s.iter a b t = some it ∧ segTake n s it [] = some (s', it', items)) ∧
    (∀ ev ∈ tr, SegRel ev L (some t) ∧ ev.layout = s.layout) ∧ SegRel s' L (some t) := by
  simp only [Seg.queryT] at hq
  cases hi : s.iter a b t with
  | none => simp [hi] at hq
  | some it =>
    simp only [hi, Option.map_eq_some_iff] at hq
    obtain ⟨⟨s1, it1, items1, tr1⟩, h1, h2⟩ := hq
    simp only [Prod.mk.injEq] at h2
    obtain ⟨rfl, rfl, rfl⟩ := h2
    have htime := Seg.iter_time hi
    have he := segTakeT_erase n s it [] []
    rw [h1] at he
    obtain ⟨p1, p2⟩ := segTakeT_purged s n s it [] [] (Purged.refl _ _) (by intro ev hev; cases hev) h1
    rw [htime] at p1 p2
    refine ⟨⟨it, it1, rfl, he.symm⟩, ?_, C18_seg_partial_purge h hT p1.1 p1.2.2⟩
    intro ev hev
    obtain ⟨q1, q2, q3⟩ := p2 ev hev
    exact ⟨C18_seg_partial_purge h hT q1 q3, q2⟩

/-! non-vacuity: a query at time 5 over a place holding an expired and a live copy makes two callbacks; at the
second one the expired copy is already gone -/
example : ((Seg.new 0 31 : Option (Seg Nat)).bind fun s => (s.insert 3 3 7 2).bind fun s => (s.insert 3 3 8 9).bind fun s =>
    (s.queryT 3 3 5 10).map fun x => (x.2.1, x.2.2.map fun ev => (ev.chunks.map List.length).sum)) = some ([8], [1, 2]) := by
  decide

end ITree
