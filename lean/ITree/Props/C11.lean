import ITree.Lemmas.Storage
import ITree.Lemmas.Refine
import ITree.Lemmas.KHistory
import ITree.Lemmas.KGrowth
/-!
# C11 — arena slots are never double-used or lost; storage bounded by the peak population
-/
namespace ITree
variable {V : Type}

/-- In every reachable state each arena slot is exactly one of: the sentinel (slot 0), a slot of the
tree, a slot on the free list — the three together are `0 .. bufLen-1`, each once. -/
theorem C11_partition {c : Nat} {st : St V} (h : Reach c st) :
    (0 :: (st.tree.slots ++ st.pool.unused)).Perm (List.range st.pool.bufLen) := h.wf.slots.1

/-- consequences spelled out: never free and in use at once, never free twice, sentinel never handed out -/
theorem C11_disjoint {c : Nat} {st : St V} (h : Reach c st) :
    st.tree.slots.Nodup ∧ st.pool.unused.Nodup ∧ (∀ s ∈ st.tree.slots, s ∉ st.pool.unused) ∧
    0 ∉ st.tree.slots ∧ 0 ∉ st.pool.unused ∧ 1 + st.tree.size + st.pool.unused.length = st.pool.bufLen := by
  have hp := C11_partition h
  have hnd : (0 :: (st.tree.slots ++ st.pool.unused)).Nodup := hp.nodup_iff.mpr List.nodup_range
  simp only [List.nodup_cons, List.nodup_append, List.mem_append, not_or] at hnd
  obtain ⟨⟨h0t, h0u⟩, ht, hu, hdis⟩ := hnd
  exact ⟨ht, hu, fun s hs hsu => hdis s hs s hsu rfl, h0t, h0u, h.wf.slots.count⟩

/-- every removal frees exactly one slot, the one the removed node occupied or (two children) the one
its in-order successor occupied -/
theorem C11_delete_frees_one (st : St V) (k : Ctx (Ent V)) {c} {l r : T (Ent V)} {s} {e : Ent V}
    (h : WF st) (hp : plug k (.node c l s e r) = st.tree) :
    ∃ st' f, st.deleteAt k (.node c l s e r) = some st' ∧ st.tree.slots.Perm (f :: st'.tree.slots) ∧
      st'.pool = st.pool.free f := by
  obtain ⟨st', h1, _, _, _, f, h5, h6⟩ := St.deleteAt_spec st k h hp
  exact ⟨st', f, h1, h5, h6⟩

/-- `clear` returns every slot: afterwards the free list is all of `1 .. bufLen-1` -/
theorem C11_clear_frees_all (st : St V) (h : WF st) :
    (0 :: st.clear.pool.unused).Perm (List.range st.clear.pool.bufLen) ∧
      st.clear.pool.bufLen = st.pool.bufLen := by
  obtain ⟨st', h1, h2⟩ := St.step_wf st .clear h trivial
  simp only [St.step, Option.some.injEq] at h1; subst h1
  refine ⟨by simpa [St.clear] using h2.slots.1, ?_⟩
  have := Pool.freeAll_cap st.tree.bfs st.tree.slots st.pool (max st.pool.cap (max 4 (2 * st.pool.bufLen)))
    h.slots.1 [] (by simpa using (T.bfs_perm st.tree).symm) (by omega) (by omega) (by omega)
  exact this.2

/-- reachability with the peak number of simultaneously stored entries so far -/
inductive ReachP (c : Nat) : St V → Nat → Prop where
  | new : ReachP c (St.new c) 0
  | step {st st' : St V} {pk : Nat} (op : MapOp V) :
      ReachP c st pk → InContract st op → st.step op = some st' → ReachP c st' (max pk st'.tree.size)

theorem ReachP.reach {c : Nat} {st : St V} {pk : Nat} (h : ReachP c st pk) : Reach c st := by
  induction h with
  | new => exact Reach.new
  | step op _ hc hs ih => exact Reach.step op ih hc hs

theorem ReachP.growth {c : Nat} {st : St V} {pk : Nat} (h : ReachP c st pk) : Growth (max c 8) pk st := by
  induction h with
  | new => exact ⟨by simp [St.new], by simp [St.new, Pool.new], by simp only [St.new, Pool.new]; omega, by simp only [St.new, Pool.new]; omega⟩
  | @step st st' pk op hr hc hs ih =>
    have hw := hr.reach.wf
    cases op with
    | insert e =>
      simp only [St.step, Option.some.injEq] at hs; subst hs
      exact ih.insert e (by omega) hw hc
    | delete key =>
      simp only [St.step, St.delete] at hs
      cases hf : findKey key [] st.tree with
      | none => rw [hf] at hs; simp only [Option.some.injEq] at hs; subst hs; exact ih.mono (by omega)
      | some p =>
        obtain ⟨k, t⟩ := p
        rw [hf] at hs
        obtain ⟨hp, c', l, s, e, r, rfl, _⟩ := findKey_some key [] st.tree hf
        obtain ⟨st2, h1, _, _, _, f, h5, h6⟩ := St.deleteAt_spec st k hw (by simpa using hp)
        simp only at hs; rw [hs] at h1; cases h1
        exact ih.free (by omega) hw h6 h5
    | deleteByIndex slot =>
      simp only [St.step, St.deleteByIndex] at hs
      cases hf : findSlot slot [] st.tree with
      | none => rw [hf] at hs; simp at hs
      | some p =>
        obtain ⟨k, t⟩ := p
        rw [hf] at hs
        obtain ⟨hp, c', l, e, r, rfl⟩ := findSlot_some slot [] st.tree hf
        obtain ⟨st2, h1, _, _, _, f, h5, h6⟩ := St.deleteAt_spec st k hw (by simpa using hp)
        simp only at hs; rw [hs] at h1; cases h1
        exact ih.free (by omega) hw h6 h5
    | setValue slot v =>
      obtain ⟨e, he⟩ := T.atSlot_some_of_mem st.tree slot hc
      simp only [St.step, St.setValueByIndex, he, Option.some.injEq] at hs
      subst hs
      obtain ⟨s1, _, _, _⟩ := T.setAtSlot_shape st.tree slot v
      have hsz : (st.tree.setAtSlot slot v).size = st.tree.size := by
        rw [← T.length_toList, ← T.length_toList]
        have := congrArg List.length s1
        simpa [T.slots] using this
      obtain ⟨gs, gb, gc, gbuf⟩ := ih
      exact ⟨by simp only; omega, gb, gc, by simp only; omega⟩
    | clear =>
      simp only [St.step, Option.some.injEq] at hs; subst hs
      obtain ⟨gs, gb, gc, gbuf⟩ := ih
      have hcap := Pool.freeAll_cap st.tree.bfs st.tree.slots st.pool (max (max c 8) (2 * st.pool.bufLen))
        hw.slots.1 [] (by simpa using (T.bfs_perm st.tree).symm) gc (by omega) (by omega)
      refine ⟨by simp [St.clear], by simp only [St.clear, Pool.freeAll]; omega, ?_, ?_⟩
      · simp only [St.clear, Pool.freeAll]; rw [hcap.2]; exact hcap.1
      · simp only [St.clear, Pool.freeAll]; omega

/-- **storage bound**: along any history from `new(c)`, however long, the arena never holds more than
`max(max(c,8), 3·(peak+1))` slots, `peak` being the largest number of entries ever stored at once -/
theorem C11_storage_bound {c : Nat} {st : St V} {pk : Nat} (h : ReachP c st pk) :
    st.pool.bufLen ≤ max (max c 8) (3 * (pk + 1)) := h.growth.buf_le

/-- the expiring-key tree: the same partition in every state reachable by an in-contract history
(lazy removals during queries, the export purge and clear included) -/
theorem C11_key_partition {c : Nat} {st : St V} {S : List (Ent V)} {last : Option Int}
    (h : KReach c st S last) :
    (0 :: (st.tree.slots ++ st.pool.unused)).Perm (List.range st.pool.bufLen) ∧
      1 + st.tree.size + st.pool.unused.length = st.pool.bufLen :=
  ⟨h.inv.1.slots.1, h.inv.1.slots.count⟩

/-- expiring-tree histories with the peak number of physically stored entries after any operation -/
inductive KReachP (c : Nat) : St V → List (Ent V) → Option Int → Nat → Prop where
  | new : KReachP c (St.new c) [] none 0
  | step {st st' : St V} {S : List (Ent V)} {last : Option Int} {pk : Nat} (op : KOp V) {r : Option V}
      {vals : List V} {tr : List (Ev V)} : KReachP c st S last pk → KContract S last op →
      st.kstep op = some (st', r, vals, tr) →
      KReachP c st' (kspecStep S op).1 (op.nextLast last) (max pk st'.tree.size)

theorem KReachP.reach {c : Nat} {st : St V} {S : List (Ent V)} {last : Option Int} {pk : Nat}
    (h : KReachP c st S last pk) : KReach c st S last := by
  induction h with
  | new => exact KReach.new
  | step op _ hc hs ih => exact KReach.step op ih hc hs

/-- the growth invariant (arena length, growth increment) along expiring-tree histories -/
theorem KReachP.growth {c : Nat} {st : St V} {S : List (Ent V)} {last : Option Int} {pk : Nat}
    (h : KReachP c st S last pk) : Growth (max c 8) pk st := by
  induction h with
  | new => exact ⟨by simp [St.new], by simp [St.new, Pool.new], by simp only [St.new, Pool.new]; omega, by simp only [St.new, Pool.new]; omega⟩
  | @step st st' S last pk op r vals tr hr hc hs ih =>
    exact (St.kstep_growth st op (max c 8) pk (by omega) hr.reach.inv.1 ih hs).1

/-- one operation stores at most one entry more than the peak so far -/
theorem KReachP.step_size {c : Nat} {st st' : St V} {S : List (Ent V)} {last : Option Int} {pk : Nat}
    (h : KReachP c st S last pk) (op : KOp V) {r : Option V} {vals : List V} {tr : List (Ev V)}
    (hs : st.kstep op = some (st', r, vals, tr)) : st'.tree.size ≤ pk + 1 :=
  (St.kstep_growth st op (max c 8) pk (by omega) h.reach.inv.1 h.growth hs).2

/-- **storage bound for the expiring tree**: along any in-contract history — lazy removals during
queries, re-insertions, export purges, clears — the arena never holds more than
`max(max(c,8), 3·(peak+1))` slots, `peak` = the largest number of entries physically stored after any
operation -/
theorem C11_key_storage_bound {c : Nat} {st : St V} {S : List (Ent V)} {last : Option Int} {pk : Nat}
    (h : KReachP c st S last pk) : st.pool.bufLen ≤ max (max c 8) (3 * (pk + 1)) := by
  exact h.growth.buf_le

/-! non-vacuity -/
example : ∃ st : St Nat, ReachP 0 st 1 ∧ st.pool.bufLen = 8 :=
  ⟨(St.new 0).insert ⟨1, 0, 1⟩, ReachP.step (.insert ⟨1, 0, 1⟩) ReachP.new (by simp [InContract, St.new, T.keys]) rfl, by decide⟩

end ITree
