import ITree.Lemmas.ArenaOps
import ITree.Lemmas.ArenaDeleteTop
import ITree.Lemmas.ArenaExpire
import ITree.Lemmas.ArenaClear
import ITree.Lemmas.ArenaExport
import ITree.Lemmas.KHistory
import ITree.Props.Common
import ITree.Lemmas.MapWF
/-!
# Arena level (pointer code with parent links) — theorems shared by C02, C08, C09, C10, C11, C17

`Model/Arena.lean` transcribes the Rust pointer code statement by statement (arena `Vec`, `u32` links,
`parent` fields, the free list); the correspondence check compares it with the real arena field by field.
The theorems below connect it to the labelled-tree (zipper) model the property theorems are about:
`RepSt a st` says that arena `a` *is* state `st` — every child link, every parent field, colour, entity and
the free list. An `Option` result `some` of an arena operation means that every `buffer[i]` it performed
was inside the arena (`none` is the model's rendering of an out-of-bounds index or failed `debug_assert!`).
-/
namespace ITree
variable {V : Type}

/-- a new arena is the new state -/
theorem arena_new_rep (c : Nat) (d : Ent V) : RepSt (Arena.new c d) ⟨.leaf, Pool.new c⟩ := by
  obtain ⟨m, hm⟩ : ∃ m, max c 8 = m + 1 := ⟨max c 8 - 1, by omega⟩
  refine ⟨rfl, ?_⟩
  simp only [Pool.new, poolOf, Arena.new, Arena.reserve, hm, Pool.mk.injEq]
  refine ⟨by simp, ?_, trivial⟩
  have := (arr_grow 0 m).2
  simpa using this.symm

/-- **insert**: the pointer-level insertion (descent, allocation with growth, linking, rotations and
recolouring with all parent-field updates) stays inside the arena and produces exactly the state the
zipper model's `St.insert` produces — for every well-formed state, tree shape and key. -/
theorem arena_insert_refines {a : Arena V} {st : St V} (e : Ent V) (h : RepSt a st) (hw : WF st)
    (hsize : a.nodes.size + a.cap ≤ EMPTY) :
    ∃ a', a.insert e = some a' ∧ RepSt a' (st.insert e) ∧ a'.nodes.size ≤ EMPTY :=
  let ⟨a', h1, h2, h3, _⟩ := insert_rep e h hw.slots hsize
  ⟨a', h1, h2, h3⟩

/-- **lookups and neighbour steps** of the pointer code return the model's answer and stay inside the arena -/
theorem arena_reads_refine {a : Arena V} {st : St V} (h : RepSt a st) (hw : WF st) (hsize : a.nodes.size ≤ EMPTY) :
    (∀ f, Arena.firstLessBy (a.nodes.size + 1) a f a.root EMPTY = some (optIdx (st.firstIndexLessBy f))) ∧
    (∀ key, Arena.findIndex (a.nodes.size + 1) a key a.root = some (match findKey key [] st.tree with
      | some (_, t') => t'.rootIdx
      | none => EMPTY)) ∧
    (∀ slot r, st.indexAfter slot = some r → a.indexAfter slot = some (optIdx r)) ∧
    (∀ slot r, st.indexBefore slot = some r → a.indexBefore slot = some (optIdx r)) ∧
    (∀ slot e, st.tree.atSlot slot = some e → ∃ n, a.node slot = some n ∧ n.ent = e) :=
  ⟨fun f => firstIndexLessBy_rep h hw.slots hsize f, fun key => findIndex_rep_st h hw.slots hsize key,
   fun slot _ hm => indexAfter_rep h hw.slots hsize slot hm, fun slot _ hm => indexBefore_rep h hw.slots hsize slot hm,
   fun _ _ hx => h.tree.atSlot hx⟩

/-- **write through a handle** touches exactly that entity -/
theorem arena_write_refines {a : Arena V} {st st' : St V} (h : RepSt a st) (hw : WF st)
    (slot : Nat) (v : V) (hm : st.setValueByIndex slot v = some st') :
    ∃ n a', a.node slot = some n ∧ a.setEnt slot (n.ent.setVal v) = some a' ∧ RepSt a' st' :=
  setValueByIndex_rep h hw.slots slot v hm

/-- **delete(key)**: the pointer-level removal — lookup, successor search and entity move for a node with
two children, unlinking (with the NIL scratch node in slot 0 for a black leaf), the whole delete repair
(red sibling, black sibling with black / red nephews, recursion towards the root) with every parent-field
update, and `put_back` — never indexes outside the arena and yields exactly the state of the zipper model's
`St.delete`, for every well-formed state and key (present or absent). -/
theorem arena_delete_refines {a : Arena V} {st st' : St V} (key : Int) (h : RepSt a st) (hw : WF st)
    (hsize : a.nodes.size ≤ EMPTY) (hm : st.delete key = some st') :
    ∃ a', a.delete key = some a' ∧ RepSt a' st' ∧ a'.nodes.size = a.nodes.size :=
  let ⟨a', h1, h2, h3, _⟩ := delete_rep h hw.slots hsize key hm
  ⟨a', h1, h2, h3⟩

/-- **delete_by_index(handle)**, also the removal step of lazy expiry -/
theorem arena_deleteByIndex_refines {a : Arena V} {st st' : St V} (slot : Nat) (h : RepSt a st) (hw : WF st)
    (hsize : a.nodes.size ≤ EMPTY) (hm : st.deleteByIndex slot = some st') :
    ∃ a', a.deleteIndex slot = some a' ∧ RepSt a' st' ∧ a'.nodes.size = a.nodes.size :=
  let ⟨a', h1, h2, h3, _⟩ := deleteByIndex_rep h hw.slots hsize slot hm
  ⟨a', h1, h2, h3⟩

/-- the delete repair alone, in any context: `fix_red_black_properties_after_delete` realises `fixUpD` -/
theorem arena_fixDelete_refines (fuel : Nat) : FixDeleteSpec (V := V) fuel := fixDelete_rep fuel

/-- `RepStG a st` = `RepSt a st` **and** the invariant about the garbage in freed slots: every slot that is not in
the tree (and is not the scratch slot 0) is rejected by the walk of `is_part_of_the_tree` over its *stale* parent
links. A new arena satisfies it. -/
theorem arena_new_repG (c : Nat) (d : Ent V) (hc : max c 8 ≤ EMPTY) : RepStG (Arena.new c d) (St.new c) :=
  new_repG c d hc

/-- **expiring tree, queries**: `first_less`, `first_less_or_equal(_by)` and `get_value` of the pointer code —
`expire_root` / `expire_left` / `expire_right` with their `delete_index` calls re-reading the link after
every lazy removal — return the answer of the zipper model and leave the state it leaves (garbage invariant
included: every lazy removal unlinks the slot from its parent before freeing it). -/
theorem arena_kQuery_refines {a : Arena V} {st st' : St V} (h : RepStG a st) (hw : WF st)
    (hsize : a.nodes.size ≤ EMPTY) (mode : Mode) (time : Int) (f : Int → Ordering) {r : Option V}
    {tr : List (Ev V)} (hm : st.kQuery mode time f = some (st', r, tr)) :
    ∃ a', a.kQuery mode time f = some (a', r) ∧ RepStG a' st' ∧ WF st' ∧ a'.nodes.size = a.nodes.size :=
  kQuery_rep h hw hsize mode time f hm

/-- **expiring tree, insert** (lazy removals on the descent, allocation with growth, linking, repair) -/
theorem arena_kInsert_refines {a : Arena V} {st st' : St V} (h : RepStG a st) (hw : WF st)
    (hB : a.nodes.size + max a.cap (2 * a.nodes.size + 4) ≤ EMPTY) (e : Ent V) (time : Int) {tr : List (Ev V)}
    (hm : st.kInsert e time = some (st', tr)) :
    ∃ a', a.kInsert e time = some a' ∧ RepStG a' st' :=
  kInsert_rep h hw hB e time hm

/-- **expiring tree, export** (`create_ordered_list`, the body of `into_ordered_vec`): the sweep over *all* arena
slots — `is_part_of_the_tree` walking the stale parent links of freed slots, `delete_index` repeated while the
slot's new occupant is expired — then the in-order traversal; it never indexes outside the arena, exports the
vector and requests the capacity the zipper model says, and leaves the state it leaves. -/
theorem arena_kExport_refines {a : Arena V} {st st' : St V} (h : RepStG a st) (hw : WF st)
    (hsize : a.nodes.size ≤ EMPTY) (time : Int) {vals : List V} {capReq : Nat} {tr : List (Ev V)}
    (hm : st.kExport time = some (st', vals, capReq, tr)) :
    ∃ a', a.kExport time = some (a', vals, capReq) ∧ RepStG a' st' ∧ WF st' :=
  kExport_rep h hw hsize time hm

/-- **expiring tree, clear** -/
theorem arena_kClear_refines {a : Arena V} {st : St V} (h : RepStG a st) (hw : WF st) (hsize : a.nodes.size ≤ EMPTY) :
    ∃ a', a.clear = some a' ∧ RepStG a' st.clear ∧ a'.nodes = a.nodes :=
  let ⟨a', h1, h2, h3, _⟩ := clear_repG h hw hsize
  ⟨a', h1, h2, h3⟩

/-- one public operation of the expiring tree, run by the pointer code: new arena, answer, exported vector -/
def Arena.kStep (a : Arena V) : KOp V → Option (Arena V × Option V × List V)
  | .insert e t => (a.kInsert e t).map fun a' => (a', none, [])
  | .query mode t f => (a.kQuery mode t f).map fun (a', r) => (a', r, [])
  | .exportAt t => (a.kExport t).map fun (a', vals, _) => (a', none, vals)
  | .clear => a.clear.map fun a' => (a', none, [])

/-- the arena (with one growth step) still fits `u32` indices -/
def Arena.Room (a : Arena V) : Prop := a.nodes.size + max a.cap (2 * a.nodes.size + 4) ≤ EMPTY

/-- **every operation of the expiring tree**: whatever the zipper model does on a well-formed state, the
pointer code does — same answer, same exported vector, and an arena representing the model's next state with
its garbage recognisable -/
theorem arena_kStep_refines {a : Arena V} {st st' : St V} (op : KOp V) (h : RepStG a st) (hw : WF st)
    (hroom : a.Room) {r : Option V} {vals : List V} {tr : List (Ev V)}
    (hm : st.kstep op = some (st', r, vals, tr)) :
    ∃ a', Arena.kStep a op = some (a', r, vals) ∧ RepStG a' st' := by
  have hsize : a.nodes.size ≤ EMPTY := by unfold Arena.Room at hroom; omega
  cases op with
  | insert e t =>
    simp only [St.kstep, Option.map_eq_some_iff, Prod.mk.injEq, Prod.exists] at hm
    obtain ⟨s1, tr1, hk, rfl, rfl, rfl, rfl⟩ := hm
    obtain ⟨a', h1, h2⟩ := arena_kInsert_refines h hw hroom e t hk
    exact ⟨a', by simp [Arena.kStep, h1], h2⟩
  | query mode t f =>
    simp only [St.kstep, Option.map_eq_some_iff, Prod.mk.injEq, Prod.exists] at hm
    obtain ⟨s1, r1, tr1, hk, rfl, rfl, rfl, rfl⟩ := hm
    obtain ⟨a', h1, h2, _⟩ := arena_kQuery_refines h hw hsize mode t f hk
    exact ⟨a', by simp [Arena.kStep, h1], h2⟩
  | exportAt t =>
    simp only [St.kstep, Option.map_eq_some_iff, Prod.mk.injEq, Prod.exists] at hm
    obtain ⟨s1, v1, c1, tr1, hk, rfl, rfl, rfl, rfl⟩ := hm
    obtain ⟨a', h1, h2, _⟩ := arena_kExport_refines h hw hsize t hk
    exact ⟨a', by simp [Arena.kStep, h1], h2⟩
  | clear =>
    simp only [St.kstep, Option.some.injEq, Prod.mk.injEq] at hm
    obtain ⟨rfl, rfl, rfl, rfl⟩ := hm
    obtain ⟨a', h1, h2, _⟩ := arena_kClear_refines h hw hsize
    exact ⟨a', by simp [Arena.kStep, h1], h2⟩

/-- **histories of the expiring tree at the pointer level.** In a state reached by an in-contract history
(`KReach`, reference content `S`), every further in-contract operation run by the *pointer code* completes
inside the arena and returns exactly what the reference machine `kspecStep` returns (answer and exported vector);
the arena it leaves again represents a reachable state. Together with `arena_new_repG` this is an invariant of
every in-contract history of the statement-level transcription of `KeyExpTree`, lazy removals, the
stale-link walk of the export and clock restarts after `clear` included. -/
theorem arena_kHistory_step {c : Nat} {a : Arena V} {st : St V} {S : List (Ent V)} {last : Option Int}
    (hreach : KReach c st S last) (h : RepStG a st) (op : KOp V) (hc : KContract S last op) (hroom : a.Room) :
    ∃ a' st', Arena.kStep a op = some (a', (kspecStep S op).2.1, (kspecStep S op).2.2) ∧
      RepStG a' st' ∧ KReach c st' (kspecStep S op).1 (op.nextLast last) := by
  obtain ⟨hw, hr⟩ := hreach.inv
  obtain ⟨st', r, vals, tr, h1, _, _, rfl, rfl⟩ := St.kstep_refines st S last op hw hr hc
  obtain ⟨a', h2, h3⟩ := arena_kStep_refines op h hw hroom h1
  exact ⟨a', st', h2, h3, KReach.step op hreach hc h1⟩

/-- **clear** -/
theorem arena_clear_refines {a : Arena V} {st : St V} (h : RepSt a st) (hw : WF st) (hsize : a.nodes.size ≤ EMPTY) :
    ∃ a', a.clear = some a' ∧ RepSt a' st.clear ∧ a'.nodes = a.nodes :=
  let ⟨a', h1, h2, h3, _⟩ := clear_rep h hw.slots hsize
  ⟨a', h1, h2, h3⟩

/-- one public mutating operation of the map / set tree, run by the pointer code -/
def Arena.step (a : Arena V) : MapOp V → Option (Arena V)
  | .insert e => a.insert e
  | .delete key => a.delete key
  | .deleteByIndex slot => a.deleteIndex slot
  | .setValue slot v => (a.node slot).bind fun n => a.setEnt slot (n.ent.setVal v)
  | .clear => a.clear

/-- **every operation of the map / set tree**: on a well-formed state the pointer code completes without
indexing outside its arena, and the arena it leaves is exactly the zipper model's next state (links, parent
fields, colours, entities, free list). `hroom`: the arena with one more growth step still fits `u32` indices. -/
theorem arena_step_refines {a : Arena V} {st st' : St V} (op : MapOp V) (h : RepSt a st) (hw : WF st)
    (hroom : a.nodes.size + a.cap ≤ EMPTY) (hm : st.step op = some st') :
    ∃ a', Arena.step a op = some a' ∧ RepSt a' st' := by
  have hsize : a.nodes.size ≤ EMPTY := by omega
  cases op with
  | insert e =>
    simp only [St.step, Option.some.injEq] at hm; subst hm
    obtain ⟨a', h1, h2, _⟩ := arena_insert_refines e h hw hroom
    exact ⟨a', h1, h2⟩
  | delete key =>
    obtain ⟨a', h1, h2, _⟩ := arena_delete_refines key h hw hsize hm
    exact ⟨a', h1, h2⟩
  | deleteByIndex slot =>
    obtain ⟨a', h1, h2, _⟩ := arena_deleteByIndex_refines slot h hw hsize hm
    exact ⟨a', h1, h2⟩
  | setValue slot v =>
    obtain ⟨n, a', h1, h2, h3⟩ := arena_write_refines h hw slot v hm
    exact ⟨a', by simp [Arena.step, h1, h2], h3⟩
  | clear =>
    simp only [St.step, Option.some.injEq] at hm; subst hm
    obtain ⟨a', h1, h2, _⟩ := arena_clear_refines h hw hsize
    exact ⟨a', h1, h2⟩

/-- non-vacuity: three insertions into a new arena, computed by the pointer code, are represented -/
example : ∃ a', ((Arena.new 8 (⟨0, 0, 0⟩ : Ent Nat)).insert ⟨5, 0, 50⟩) = some a' ∧
    RepSt a' ((⟨.leaf, Pool.new 8⟩ : St Nat).insert ⟨5, 0, 50⟩) := by
  have h0 := arena_new_rep 8 (⟨0, 0, 0⟩ : Ent Nat)
  have hw : WF (⟨.leaf, Pool.new 8⟩ : St Nat) := WF.new 8
  obtain ⟨a', h1, h2, _⟩ := arena_insert_refines ⟨5, 0, 50⟩ h0 hw (by decide)
  exact ⟨a', h1, h2⟩

/-- `Room` in terms of the represented state -/
theorem RepSt.room {a : Arena V} {st : St V} (h : RepSt a st)
    (hb : st.pool.bufLen + max st.pool.cap (2 * st.pool.bufLen + 4) ≤ EMPTY) : a.Room := by
  have h1 : st.pool.bufLen = a.nodes.size := by rw [h.pool]; rfl
  have h2 : st.pool.cap = a.cap := by rw [h.pool]; rfl
  unfold Arena.Room; omega

/-- non-vacuity of `arena_kHistory_step`: after `new(0)` and one insertion (executed by the pointer code) the
hypotheses hold with a non-empty reference content, so the export at a later time is covered -/
example : ∃ (a : Arena Nat) (st : St Nat) (last : Option Int),
    KReach 0 st [⟨2, 10, 20⟩] last ∧ RepStG a st ∧ a.Room ∧ KContract [(⟨2, 10, 20⟩ : Ent Nat)] last (.exportAt 5) := by
  have h0 := arena_new_repG 0 (⟨0, 0, 0⟩ : Ent Nat) (by decide)
  have hroom0 : (Arena.new 0 (⟨0, 0, 0⟩ : Ent Nat)).Room := h0.rep.room (by decide)
  have hc : KContract ([] : List (Ent Nat)) none (.insert ⟨2, 10, 20⟩ 0) :=
    ⟨by simp, by decide, by simp [live]⟩
  obtain ⟨st1, r, vals, tr, hk, hw1, _, _, _⟩ := St.kstep_refines (St.new 0 : St Nat) [] none _ (WF.new 0) ⟨rfl, rfl⟩ hc
  obtain ⟨a1, _, hrep1⟩ := arena_kStep_refines _ h0 (WF.new 0) hroom0 hk
  have hpool : ((St.new 0 : St Nat).kstep (.insert ⟨2, 10, 20⟩ 0)).map (fun x => (x.1.pool.bufLen, x.1.pool.cap)) =
      some (8, 8) := by decide
  rw [hk] at hpool
  simp only [Option.map_some, Option.some.injEq, Prod.mk.injEq] at hpool
  refine ⟨a1, st1, _, KReach.step _ KReach.new hc hk, hrep1, hrep1.rep.room (by rw [hpool.1, hpool.2]; decide), ?_⟩
  simp [KContract, KOp.nextLast, KOp.time]

end ITree
