import ITree.Lemmas.ArenaOps
import ITree.Lemmas.ArenaDeleteTop
import ITree.Lemmas.ArenaExpire
import ITree.Lemmas.ArenaClear
import ITree.Props.Common
import ITree.Lemmas.MapWF
/-!
# Arena level (pointer code with parent links) — theorems shared by C02, C08, C09, C10, C11, C17

`Model/Arena.lean` transcribes the Rust pointer code statement by statement (arena `Vec`, `u32` links,
`parent` fields, the free list); the correspondence check compares it with the real arena field by field.
The theorems below connect it to the labelled-tree (zipper) model the property theorems are about:
`RepSt a st` says that arena `a` *is* state `st` — every child link, every parent field, colour, entity and
the free list. An `Option` result `some` of an arena operation means that every `buffer[i]` it performed
was inside the arena (`none` is the model's rendering of an out-of-bounds index or failed `debug_assert!`).
-/
namespace ITree
variable {V : Type}

/-- a new arena is the new state -/
theorem arena_new_rep (c : Nat) (d : Ent V) : RepSt (Arena.new c d) ⟨.leaf, Pool.new c⟩ := by
  obtain ⟨m, hm⟩ : ∃ m, max c 8 = m + 1 := ⟨max c 8 - 1, by omega⟩
  refine ⟨rfl, ?_⟩
  simp only [Pool.new, poolOf, Arena.new, Arena.reserve, hm, Pool.mk.injEq]
  refine ⟨by simp, ?_, trivial⟩
  have := (arr_grow 0 m).2
  simpa using this.symm

/-- **insert**: the pointer-level insertion (descent, allocation with growth, linking, rotations and
recolouring with all parent-field updates) stays inside the arena and produces exactly the state the
zipper model's `St.insert` produces — for every well-formed state, tree shape and key. -/
theorem arena_insert_refines {a : Arena V} {st : St V} (e : Ent V) (h : RepSt a st) (hw : WF st)
    (hsize : a.nodes.size + a.cap ≤ EMPTY) :
    ∃ a', a.insert e = some a' ∧ RepSt a' (st.insert e) ∧ a'.nodes.size ≤ EMPTY :=
  let ⟨a', h1, h2, h3, _⟩ := insert_rep e h hw.slots hsize
  ⟨a', h1, h2, h3⟩

/-- **lookups and neighbour steps** of the pointer code return the model's answer and stay inside the arena -/
theorem arena_reads_refine {a : Arena V} {st : St V} (h : RepSt a st) (hw : WF st) (hsize : a.nodes.size ≤ EMPTY) :
    (∀ f, Arena.firstLessBy (a.nodes.size + 1) a f a.root EMPTY = some (optIdx (st.firstIndexLessBy f))) ∧
    (∀ key, Arena.findIndex (a.nodes.size + 1) a key a.root = some (match findKey key [] st.tree with
      | some (_, t') => t'.rootIdx
      | none => EMPTY)) ∧
    (∀ slot r, st.indexAfter slot = some r → a.indexAfter slot = some (optIdx r)) ∧
    (∀ slot r, st.indexBefore slot = some r → a.indexBefore slot = some (optIdx r)) ∧
    (∀ slot e, st.tree.atSlot slot = some e → ∃ n, a.node slot = some n ∧ n.ent = e) :=
  ⟨fun f => firstIndexLessBy_rep h hw.slots hsize f, fun key => findIndex_rep_st h hw.slots hsize key,
   fun slot _ hm => indexAfter_rep h hw.slots hsize slot hm, fun slot _ hm => indexBefore_rep h hw.slots hsize slot hm,
   fun _ _ hx => h.tree.atSlot hx⟩

/-- **write through a handle** touches exactly that entity -/
theorem arena_write_refines {a : Arena V} {st st' : St V} (h : RepSt a st) (hw : WF st)
    (slot : Nat) (v : V) (hm : st.setValueByIndex slot v = some st') :
    ∃ n a', a.node slot = some n ∧ a.setEnt slot (n.ent.setVal v) = some a' ∧ RepSt a' st' :=
  setValueByIndex_rep h hw.slots slot v hm

/-- **delete(key)**: the pointer-level removal — lookup, successor search and entity move for a node with
two children, unlinking (with the NIL scratch node in slot 0 for a black leaf), the whole delete repair
(red sibling, black sibling with black / red nephews, recursion towards the root) with every parent-field
update, and `put_back` — never indexes outside the arena and yields exactly the state of the zipper model's
`St.delete`, for every well-formed state and key (present or absent). -/
theorem arena_delete_refines {a : Arena V} {st st' : St V} (key : Int) (h : RepSt a st) (hw : WF st)
    (hsize : a.nodes.size ≤ EMPTY) (hm : st.delete key = some st') :
    ∃ a', a.delete key = some a' ∧ RepSt a' st' ∧ a'.nodes.size = a.nodes.size :=
  let ⟨a', h1, h2, h3, _⟩ := delete_rep h hw.slots hsize key hm
  ⟨a', h1, h2, h3⟩

/-- **delete_by_index(handle)**, also the removal step of lazy expiry -/
theorem arena_deleteByIndex_refines {a : Arena V} {st st' : St V} (slot : Nat) (h : RepSt a st) (hw : WF st)
    (hsize : a.nodes.size ≤ EMPTY) (hm : st.deleteByIndex slot = some st') :
    ∃ a', a.deleteIndex slot = some a' ∧ RepSt a' st' ∧ a'.nodes.size = a.nodes.size :=
  let ⟨a', h1, h2, h3, _⟩ := deleteByIndex_rep h hw.slots hsize slot hm
  ⟨a', h1, h2, h3⟩

/-- the delete repair alone, in any context: `fix_red_black_properties_after_delete` realises `fixUpD` -/
theorem arena_fixDelete_refines (fuel : Nat) : FixDeleteSpec (V := V) fuel := fixDelete_rep fuel

/-- **expiring tree, queries**: `first_less`, `first_less_or_equal(_by)` and `get_value` of the pointer code —
`expire_root` / `expire_left` / `expire_right` with their `delete_index` calls re-reading the link after
every lazy removal — return the answer of the zipper model and leave the state it leaves. -/
theorem arena_kQuery_refines {a : Arena V} {st st' : St V} (h : RepSt a st) (hw : WF st)
    (hsize : a.nodes.size ≤ EMPTY) (mode : Mode) (time : Int) (f : Int → Ordering) {r : Option V}
    {tr : List (Ev V)} (hm : st.kQuery mode time f = some (st', r, tr)) :
    ∃ a', a.kQuery mode time f = some (a', r) ∧ RepSt a' st' ∧ WF st' :=
  let ⟨a', h1, h2, h3, _⟩ := kQuery_rep h hw hsize mode time f hm
  ⟨a', h1, h2, h3⟩

/-- **expiring tree, insert** (lazy removals on the descent, allocation with growth, linking, repair) -/
theorem arena_kInsert_refines {a : Arena V} {st st' : St V} (h : RepSt a st) (hw : WF st)
    (hB : a.nodes.size + max a.cap (2 * a.nodes.size + 4) ≤ EMPTY) (e : Ent V) (time : Int) {tr : List (Ev V)}
    (hm : st.kInsert e time = some (st', tr)) :
    ∃ a', a.kInsert e time = some a' ∧ RepSt a' st' :=
  kInsert_rep h hw hB e time hm

/-- **clear** -/
theorem arena_clear_refines {a : Arena V} {st : St V} (h : RepSt a st) (hw : WF st) (hsize : a.nodes.size ≤ EMPTY) :
    ∃ a', a.clear = some a' ∧ RepSt a' st.clear ∧ a'.nodes = a.nodes :=
  let ⟨a', h1, h2, h3, _⟩ := clear_rep h hw.slots hsize
  ⟨a', h1, h2, h3⟩

/-- one public mutating operation of the map / set tree, run by the pointer code -/
def Arena.step (a : Arena V) : MapOp V → Option (Arena V)
  | .insert e => a.insert e
  | .delete key => a.delete key
  | .deleteByIndex slot => a.deleteIndex slot
  | .setValue slot v => (a.node slot).bind fun n => a.setEnt slot (n.ent.setVal v)
  | .clear => a.clear

/-- **every operation of the map / set tree**: on a well-formed state the pointer code completes without
indexing outside its arena, and the arena it leaves is exactly the zipper model's next state (links, parent
fields, colours, entities, free list). `hroom`: the arena with one more growth step still fits `u32` indices. -/
theorem arena_step_refines {a : Arena V} {st st' : St V} (op : MapOp V) (h : RepSt a st) (hw : WF st)
    (hroom : a.nodes.size + a.cap ≤ EMPTY) (hm : st.step op = some st') :
    ∃ a', Arena.step a op = some a' ∧ RepSt a' st' := by
  have hsize : a.nodes.size ≤ EMPTY := by omega
  cases op with
  | insert e =>
    simp only [St.step, Option.some.injEq] at hm; subst hm
    obtain ⟨a', h1, h2, _⟩ := arena_insert_refines e h hw hroom
    exact ⟨a', h1, h2⟩
  | delete key =>
    obtain ⟨a', h1, h2, _⟩ := arena_delete_refines key h hw hsize hm
    exact ⟨a', h1, h2⟩
  | deleteByIndex slot =>
    obtain ⟨a', h1, h2, _⟩ := arena_deleteByIndex_refines slot h hw hsize hm
    exact ⟨a', h1, h2⟩
  | setValue slot v =>
    obtain ⟨n, a', h1, h2, h3⟩ := arena_write_refines h hw slot v hm
    exact ⟨a', by simp [Arena.step, h1, h2], h3⟩
  | clear =>
    simp only [St.step, Option.some.injEq] at hm; subst hm
    obtain ⟨a', h1, h2, _⟩ := arena_clear_refines h hw hsize
    exact ⟨a', h1, h2⟩

/-- non-vacuity: three insertions into a new arena, computed by the pointer code, are represented -/
example : ∃ a', ((Arena.new 8 (⟨0, 0, 0⟩ : Ent Nat)).insert ⟨5, 0, 50⟩) = some a' ∧
    RepSt a' ((⟨.leaf, Pool.new 8⟩ : St Nat).insert ⟨5, 0, 50⟩) := by
  have h0 := arena_new_rep 8 (⟨0, 0, 0⟩ : Ent Nat)
  have hw : WF (⟨.leaf, Pool.new 8⟩ : St Nat) := WF.new 8
  obtain ⟨a', h1, h2, _⟩ := arena_insert_refines ⟨5, 0, 50⟩ h0 hw (by decide)
  exact ⟨a', h1, h2⟩

end ITree
