import ITree.Lemmas.Refine
/-!
# C04 — ordered map: insert / delete / lookup behave as a map over distinct keys

The map state is related to the simplest possible specification, an association list sorted by key
(`Spec`), by `abs st = st.tree.ents` (the stored entities in key order). The value type `V` is an
arbitrary type: the model never inspects, copies or fabricates a value, so "values are never altered,
duplicated or lost" is the statement that `abs` evolves exactly as the specification.
-/
namespace ITree
variable {V : Type}

/-- insert of an absent key = sorted insertion into the specification -/
theorem C04_insert (st : St V) (e : Ent V) (h : WF st) (hfresh : e.key ∉ st.tree.keys) :
    WF (st.insert e) ∧ (st.insert e).tree.ents = Spec.insert st.tree.ents e :=
  ⟨(St.insert_spec st e h hfresh).1, St.insert_refines st e h hfresh⟩

/-- delete = erase that key from the specification; deleting an absent key changes nothing at all -/
theorem C04_delete (st : St V) (key : Int) (h : WF st) :
    ∃ st', st.delete key = some st' ∧ WF st' ∧ st'.tree.ents = Spec.erase st.tree.ents key ∧
      (key ∉ st.tree.keys → st' = st) := St.delete_refines st key h

/-- lookup = lookup in the specification -/
theorem C04_lookup (st : St V) (key : Int) (h : WF st) :
    st.getValue key = Spec.lookup st.tree.ents key := St.getValue_refines st key h

/-- lookup finds the value exactly when the key is present -/
theorem C04_lookup_iff (st : St V) (key : Int) (h : WF st) :
    (st.getValue key).isSome ↔ key ∈ st.tree.keys := by
  rw [C04_lookup st key h, Spec.lookup, T.keys_ents]
  simp only [Option.isSome_map, List.find?_isSome, List.mem_map]
  constructor
  · rintro ⟨x, hx, hk⟩; exact ⟨x, hx, by simpa using hk⟩
  · rintro ⟨x, hx, hk⟩; exact ⟨x, hx, by simpa using hk⟩

/-- emptiness is reported exactly when nothing is stored -/
theorem C04_isEmpty (st : St V) : st.isEmpty = true ↔ st.tree.ents = [] := by
  cases h : st.tree with
  | leaf => simp [St.isEmpty, h, T.isLeaf]
  | node c l s e r => simp [St.isEmpty, h, T.isLeaf]

/-- a write through a handle changes the value of the designated entry and nothing else -/
theorem C04_setValue (st : St V) (slot : Nat) (v : V) (h : WF st) :
    (st.tree.setAtSlot slot v).toList =
      st.tree.toList.map fun x => if x.1 = slot then (x.1, x.2.setVal v) else x :=
  T.setAtSlot_toList st.tree slot v h.slots.nodup

/-- `clear` empties the map -/
theorem C04_clear (st : St V) : st.clear.tree.ents = [] := rfl

/-- The specification machine and the simulation, for whole histories: along any in-contract
history the stored content equals the content of the specification run on the same operations
(a handle designates the key of the entry stored in that slot). -/
def Spec.step (st : St V) (l : Spec V) : MapOp V → Spec V
  | .insert e => l.insert e
  | .delete key => l.erase key
  | .deleteByIndex slot => match st.tree.atSlot slot with
    | some e => l.erase e.key
    | none => l
  | .setValue slot v => match st.tree.atSlot slot with
    | some e => l.setVal e.key v
    | none => l
  | .clear => []

theorem C04_step_refines (st st' : St V) (op : MapOp V) (h : WF st) (hc : InContract st op)
    (hs : st.step op = some st') : st'.tree.ents = Spec.step st st.tree.ents op := by
  cases op with
  | insert e =>
    simp only [St.step, Option.some.injEq] at hs; subst hs
    exact St.insert_refines st e h hc
  | delete key =>
    obtain ⟨st2, h1, _, h3, _⟩ := St.delete_refines st key h
    simp only [St.step] at hs; rw [hs] at h1; cases h1
    exact h3
  | deleteByIndex slot =>
    obtain ⟨e, he⟩ := T.atSlot_some_of_mem st.tree slot hc
    have hmem : (slot, e) ∈ st.tree.toList := by
      rw [T.atSlot_spec st.tree slot h.slots.nodup] at he
      simp only [Option.map_eq_some_iff] at he
      obtain ⟨⟨s, x⟩, hf, rfl⟩ := he
      have := List.find?_some hf
      have hs' : s = slot := by simpa using this
      subst hs'
      exact List.mem_of_find?_eq_some hf
    obtain ⟨st2, h1, _, h3⟩ := St.deleteByIndex_refines st slot e h hmem
    simp only [St.step] at hs; rw [hs] at h1; cases h1
    simp only [Spec.step, he]; exact h3
  | setValue slot v =>
    obtain ⟨e, he⟩ := T.atSlot_some_of_mem st.tree slot hc
    simp only [St.step, St.setValueByIndex, he, Option.some.injEq] at hs
    subst hs
    simp only [Spec.step, he, T.ents, Spec.setVal]
    rw [T.setAtSlot_toList st.tree slot v h.slots.nodup]
    simp only [List.map_map]
    apply List.map_congr_left
    intro x hx
    -- an entry has the designated key iff it sits in the designated slot (keys and slots are distinct)
    have hmem : (slot, e) ∈ st.tree.toList := by
      rw [T.atSlot_spec st.tree slot h.slots.nodup] at he
      simp only [Option.map_eq_some_iff] at he
      obtain ⟨⟨s, y⟩, hf, rfl⟩ := he
      have := List.find?_some hf
      have hs' : s = slot := by simpa using this
      subst hs'
      exact List.mem_of_find?_eq_some hf
    simp only [Function.comp]
    by_cases hxs : x.1 = slot
    · have hx' : (slot, x.2) ∈ st.tree.toList := by rw [← hxs]; exact hx
      have e1 := find_slot_pair h.slots.nodup _ hx'
      have e2 := find_slot_pair h.slots.nodup _ hmem
      have : x.2 = e := by rw [e1] at e2; simpa using e2
      simp [hxs, this]
    · have hk : x.2.key ≠ e.key := by
        intro hk
        -- two entries with the same key in a strictly ordered list are the same entry
        have hord := h.ordered
        simp only [Ordered, T.keys] at hord
        have hnd : (st.tree.toList.map (fun y => y.2.key)).Nodup :=
          (List.Pairwise.imp (fun h => Int.ne_of_lt h) hord)
        have := inj_of_nodup_map hnd hx hmem hk
        exact hxs (by rw [this])
      simp [hxs, hk]
  | clear =>
    simp only [St.step, Option.some.injEq] at hs; subst hs
    rfl

/-! non-vacuity -/
example : ((((St.new 0 : St String).insert ⟨2, 0, "b"⟩).insert ⟨1, 0, "a"⟩).getValue 1) = some "a" := by decide

end ITree
