import ITree.Props.ArenaTrace
import ITree.Props.ArenaHistory
/-!
# C18 / C20 for every in-contract history, at the pointer level

`Arena.kRunT` runs a whole history with the *instrumented* pointer code and collects, per operation, the user
callbacks it made together with the arena at each of them. `arena_kRun_callbacks`: for every in-contract history
from any reachable state the instrumented run completes, returns the reference machine's answers and exported
vectors, is the un-instrumented run (`Arena.kRun`) with the events forgotten, and **every callback of every
operation of the history** (a) is made on a key live at that operation's time when it is a comparison (C20) and
(b) finds the arena a complete, consistent representation of a well-formed tree (C18: a panic there leaves a
valid, un-torn collection).
-/
namespace ITree
variable {V : Type}

/-- one public operation of the expiring tree run by the instrumented pointer code -/
def Arena.kStepT (a : Arena V) : KOp V → Option (Arena V × Option V × List V × List (AEv V))
  | .insert e t => (a.kInsertT e t).map fun (a', tr) => (a', none, [], tr)
  | .query mode t f => (a.kQueryT mode t f).map fun (a', r, tr) => (a', r, [], tr)
  | .exportAt t => (a.kExportT t).map fun (a', vals, _, tr) => (a', none, vals, tr)
  | .clear => a.clear.map fun a' => (a', none, [], [])

/-- a whole history: final arena, answers / exported vectors, and the callbacks of every operation -/
def Arena.kRunT (a : Arena V) : List (KOp V) → Option (Arena V × List (Option V × List V) × List (List (AEv V)))
  | [] => some (a, [], [])
  | op :: ops => (a.kStepT op).bind fun (a', r, v, tr) =>
      (Arena.kRunT a' ops).map fun (a'', outs, trs) => (a'', (r, v) :: outs, tr :: trs)

/-- what is asserted about the callbacks of one operation -/
def CallbacksOK (op : KOp V) (atr : List (AEv V)) : Prop :=
  ∀ ae ∈ atr, (∃ st_e : St V, RepStG ae.arena st_e ∧ WF st_e) ∧
    (ae.kind = .cmp → ∀ t, op.time = some t → t < ae.ent.exp)

/-- operation by operation along a history -/
inductive AllCallbacksOK : List (KOp V) → List (List (AEv V)) → Prop
  | nil : AllCallbacksOK [] []
  | cons {op : KOp V} {ops : List (KOp V)} {tr : List (AEv V)} {trs : List (List (AEv V))} :
      CallbacksOK op tr → AllCallbacksOK ops trs → AllCallbacksOK (op :: ops) (tr :: trs)

theorem arena_kStepT_callbacks {a : Arena V} {st st' : St V} (op : KOp V) (h : RepStG a st) (hw : WF st)
    (hroom : a.Room) {r : Option V} {vals : List V} {tr : List (Ev V)}
    (hm : st.kstep op = some (st', r, vals, tr)) :
    ∃ a' atr, Arena.kStepT a op = some (a', r, vals, atr) ∧ Arena.kStep a op = some (a', r, vals) ∧
      CallbacksOK op atr := by
  have hsize : a.nodes.size ≤ EMPTY := by unfold Arena.Room at hroom; omega
  cases op with
  | insert e t =>
    simp only [St.kstep, Option.map_eq_some_iff, Prod.mk.injEq, Prod.exists] at hm
    obtain ⟨s1, tr1, hk, rfl, rfl, rfl, rfl⟩ := hm
    obtain ⟨a', atr, h1, h2, _, _, h5⟩ := arena_insert_callbacks h hw hroom e t hk
    refine ⟨a', atr, by simp [Arena.kStepT, h1], by simp [Arena.kStep, h2], ?_⟩
    intro ae hae
    obtain ⟨⟨se, q1, q2, _⟩, q4⟩ := h5 ae hae
    exact ⟨⟨se, q1, q2⟩, fun hc t' ht => by simp only [KOp.time, Option.some.injEq] at ht; subst ht; exact q4 hc⟩
  | query mode t f =>
    simp only [St.kstep, Option.map_eq_some_iff, Prod.mk.injEq, Prod.exists] at hm
    obtain ⟨s1, r1, tr1, hk, rfl, rfl, rfl, rfl⟩ := hm
    obtain ⟨a', atr, h1, h2, _, h5⟩ := arena_query_callbacks h hw hsize mode t f hk
    refine ⟨a', atr, by simp [Arena.kStepT, h1], by simp [Arena.kStep, h2], ?_⟩
    intro ae hae
    obtain ⟨⟨se, q1, q2, _⟩, q4⟩ := h5 ae hae
    exact ⟨⟨se, q1, q2⟩, fun hc t' ht => by simp only [KOp.time, Option.some.injEq] at ht; subst ht; exact q4 hc⟩
  | exportAt t =>
    simp only [St.kstep, Option.map_eq_some_iff, Prod.mk.injEq, Prod.exists] at hm
    obtain ⟨s1, v1, c1, tr1, hk, rfl, rfl, rfl, rfl⟩ := hm
    obtain ⟨a', atr, h1, h2, _, h5⟩ := arena_export_callbacks h hw hsize t hk
    refine ⟨a', atr, by simp [Arena.kStepT, h1], by simp [Arena.kStep, h2], ?_⟩
    intro ae hae
    obtain ⟨⟨se, q1, q2, _⟩, q4⟩ := h5 ae hae
    exact ⟨⟨se, q1, q2⟩, fun hc t' ht => by simp only [KOp.time, Option.some.injEq] at ht; subst ht; exact q4 hc⟩
  | clear =>
    simp only [St.kstep, Option.some.injEq, Prod.mk.injEq] at hm
    obtain ⟨rfl, rfl, rfl, rfl⟩ := hm
    obtain ⟨a', h1, _, _⟩ := arena_kClear_refines h hw hsize
    exact ⟨a', [], by simp [Arena.kStepT, h1], by simp [Arena.kStep, h1], fun ae hae => by cases hae⟩

/-- **every in-contract history of the expiring tree, run by the instrumented pointer code** -/
theorem arena_kRun_callbacks {c : Nat} : ∀ (ops : List (KOp V)) {a : Arena V} {st : St V} {S : List (Ent V)}
    {last : Option Int} {pk : Nat}, KReachP c st S last pk → RepStG a st → KContractAll S last ops →
    3 * max (max c 8) (3 * (pk + ops.length + 1)) + 4 ≤ EMPTY →
    ∃ a' trs, a.kRunT ops = some (a', kspecRun S ops, trs) ∧ a.kRun ops = some (a', kspecRun S ops) ∧
      AllCallbacksOK ops trs := by
  intro ops
  induction ops with
  | nil => intro a st S last pk _ _ _ _; exact ⟨a, [], rfl, rfl, .nil⟩
  | cons op ops ih =>
    intro a st S last pk hreach hrep hc hsmall
    simp only [List.length_cons] at hsmall
    have hroom : a.Room := hreach.room hrep (by omega)
    obtain ⟨hw, hr⟩ := hreach.reach.inv
    obtain ⟨st', r, vals, tr, h1, _, _, rfl, rfl⟩ := St.kstep_refines st S last op hw hr hc.1
    obtain ⟨a1, h2, h3⟩ := arena_kStep_refines op hrep hw hroom h1
    obtain ⟨a1', atr, t1, t2, t3⟩ := arena_kStepT_callbacks op hrep hw hroom h1
    rw [h2] at t2
    simp only [Option.some.injEq, Prod.mk.injEq, and_true] at t2
    subst t2
    have hsz := hreach.step_size op h1
    have hreach' := KReachP.step op hreach hc.1 h1
    obtain ⟨a', trs, h4, h5, h6⟩ := ih hreach' h3 hc.2 (by
      have : max pk st'.tree.size + ops.length + 1 ≤ pk + (ops.length + 1) + 1 := by omega
      have h5 : max (max c 8) (3 * (max pk st'.tree.size + ops.length + 1)) ≤
          max (max c 8) (3 * (pk + (ops.length + 1) + 1)) := by omega
      omega)
    exact ⟨a', atr :: trs, by simp [Arena.kRunT, t1, h4, kspecRun], by simp [Arena.kRun, h2, h5, kspecRun], .cons t3 h6⟩

/-- from `new(c)` -/
theorem arena_kRun_callbacks_new (c : Nat) (d : Ent V) (ops : List (KOp V))
    (hc : KContractAll ([] : List (Ent V)) none ops)
    (hsmall : 3 * max (max c 8) (3 * (ops.length + 1)) + 4 ≤ EMPTY) :
    ∃ a' trs, (Arena.new c d).kRunT ops = some (a', kspecRun [] ops, trs) ∧ AllCallbacksOK ops trs := by
  obtain ⟨a', trs, h1, _, h3⟩ := arena_kRun_callbacks ops (KReachP.new (c := c)) (arena_new_repG c d (by omega)) hc
    (by simpa using hsmall)
  exact ⟨a', trs, h1, h3⟩

/-! non-vacuity: the history of defect D4 run by the instrumented pointer code through the theorem: it makes
callbacks (1 + 3 + 3 during the insertions, 3 expiration reads in the export purge), all covered by the statement -/
example : ∃ a' trs, (Arena.new 0 (⟨0, 0, 0⟩ : Ent Nat)).kRunT
    [.insert ⟨2, 1, 20⟩ 0, .insert ⟨1, 10, 10⟩ 0, .insert ⟨3, 1, 30⟩ 0, .exportAt 5] =
    some (a', [(none, []), (none, []), (none, []), (none, [10])], trs) ∧
    AllCallbacksOK [.insert ⟨2, 1, 20⟩ 0, .insert ⟨1, 10, 10⟩ 0, .insert ⟨3, 1, 30⟩ 0, .exportAt 5] trs := by
  have := arena_kRun_callbacks_new 0 (⟨0, 0, 0⟩ : Ent Nat)
    [.insert ⟨2, 1, 20⟩ 0, .insert ⟨1, 10, 10⟩ 0, .insert ⟨3, 1, 30⟩ 0, .exportAt 5]
    (by simp [KContractAll, KContract, kspecStep, KOp.nextLast, KOp.time, live, Spec.insert]) (by decide)
  simpa [kspecRun, kspecStep, live, Spec.insert] using this

example : ((Arena.new 0 (⟨0, 0, 0⟩ : Ent Nat)).kRunT
    [.insert ⟨2, 1, 20⟩ 0, .insert ⟨1, 10, 10⟩ 0, .insert ⟨3, 1, 30⟩ 0, .exportAt 5]).map
    (fun x => x.2.2.map List.length) = some [1, 3, 3, 3] := by decide

end ITree
