import ITree.Lemmas.KTrace
import ITree.Lemmas.KHistory
import ITree.Lemmas.ListOps
/-!
# C20 — the expiring collections hand only live keys to the caller's comparison code

Every operation of the model returns the list of user callbacks it makes (`Ev`): `cmp` = the caller's
`Ord::cmp` / comparator closure applied to a *stored* key (the other argument is the probe / new key),
`exp` = the expiration accessor. The correspondence check compares this list, event by event, with
the calls recorded by an instrumented key type in the real code.
-/
namespace ITree
variable {V : Type}

/-- queries (`first_less`, `first_less_or_equal`, `first_less_or_equal_by`, `get_value`) at time `t`:
every stored key handed to the comparison code has `expiration > t` -/
theorem C20_query (st : St V) (mode : Mode) (t : Int) (f : Int → Ordering) (h : WF st)
    {st' : St V} {r : Option V} {tr : List (Ev V)} (hq : st.kQuery mode t f = some (st', r, tr)) :
    ∀ ev ∈ tr, ev.kind = .cmp → t < ev.ent.exp :=
  fun ev hev => (St.kQuery_trace st mode t f h hq ev hev).2.2

/-- insert at time `t`: every stored key compared with the new key is live -/
theorem C20_insert (st : St V) (e : Ent V) (t : Int) (h : WF st)
    {st' : St V} {tr : List (Ev V)} (hq : st.kInsert e t = some (st', tr)) :
    ∀ ev ∈ tr, ev.kind = .cmp → t < ev.ent.exp :=
  fun ev hev => (St.kInsert_trace st e t h hq ev hev).2.2

/-- the export purge makes no comparison at all -/
theorem C20_export (st : St V) (t : Int) (h : WF st)
    {st' : St V} {vals : List V} {cap : Nat} {tr : List (Ev V)}
    (hq : st.kExport t = some (st', vals, cap, tr)) : ∀ ev ∈ tr, ev.kind = .cmp → t < ev.ent.exp :=
  fun ev hev => (St.kExport_trace st t h hq ev hev).2.2

/-- in every state of every in-contract history, for every operation kind -/
theorem C20_history {c : Nat} {st : St V} {S : List (Ent V)} {last : Option Int}
    (hreach : KReach c st S last) (op : KOp V) {st' : St V} {r : Option V} {vals : List V} {tr : List (Ev V)}
    (hs : st.kstep op = some (st', r, vals, tr)) :
    ∀ t, op.time = some t → ∀ ev ∈ tr, ev.kind = .cmp → t < ev.ent.exp := by
  have hw := hreach.inv.1
  intro t ht ev hev hk
  cases op with
  | insert e t' =>
    simp only [KOp.time, Option.some.injEq] at ht; subst ht
    simp only [St.kstep, Option.map_eq_some_iff] at hs
    obtain ⟨⟨s, tr0⟩, h1, h2⟩ := hs
    simp only [Prod.mk.injEq] at h2
    obtain ⟨_, _, _, rfl⟩ := h2
    exact C20_insert st e t' hw h1 ev hev hk
  | query mode t' f =>
    simp only [KOp.time, Option.some.injEq] at ht; subst ht
    simp only [St.kstep, Option.map_eq_some_iff] at hs
    obtain ⟨⟨s, r0, tr0⟩, h1, h2⟩ := hs
    simp only [Prod.mk.injEq] at h2
    obtain ⟨_, _, _, rfl⟩ := h2
    exact C20_query st mode t' f hw h1 ev hev hk
  | exportAt t' =>
    simp only [KOp.time, Option.some.injEq] at ht; subst ht
    simp only [St.kstep, Option.map_eq_some_iff] at hs
    obtain ⟨⟨s, v0, c0, tr0⟩, h1, h2⟩ := hs
    simp only [Prod.mk.injEq] at h2
    obtain ⟨_, _, _, rfl⟩ := h2
    exact C20_export st t' hw h1 ev hev hk
  | clear => simp [KOp.time] at ht

/-! ### the sorted-list variant: the purge precedes every search -/

/-- after `clear_expired(t)` the buffer — the only thing the binary search can touch — holds live
entries only, and no live entry was dropped -/
theorem C20_list_purge (s : KL V) (t : Int) (h : s.Inv) :
    (∀ e ∈ (s.clearExpired t).buf, t < e.exp) ∧ (s.clearExpired t).buf = live t s.buf ∧
      (s.clearExpired t).Inv := by
  obtain ⟨h1, h2, _⟩ := h.clearExpired t
  refine ⟨?_, h1, h2⟩
  intro e he
  rw [h1] at he
  simpa using (List.mem_filter.mp he).2

/-! non-vacuity: an expired entry on the search path is removed before any comparison with it -/
example : (((St.new 0 : St Nat).kInsert ⟨2, 1, 20⟩ 0).bind fun (s, _) =>
    (s.kQuery .fle 5 (fun k => compare k 3)).map fun (_, _, tr) => tr.all fun ev => ev.kind != .cmp)
    = some true := by decide

end ITree
