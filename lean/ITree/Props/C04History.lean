import ITree.Props.C04
import ITree.Props.C08
import ITree.Lemmas.MapWF
/-!
# C04 / C05 / C08 — whole histories at the user's level

`UOp` are the operations as a user of `MapTree` / `SetTree` issues them: handles are not part of the history,
they are obtained by the predecessor query for a stored key immediately before they are used (which is how the
sweep-line code uses them). The specification is the sorted association list `Spec` alone — it does not look
at the tree.
-/
namespace ITree
variable {V : Type}

inductive UOp (V : Type) where
  | insert (e : Ent V)
  | delete (key : Int)
  /-- `value_by_index_mut(first_index_less(key)) = v` -/
  | write (key : Int) (v : V)
  /-- `delete_by_index(first_index_less(key))` -/
  | deleteVia (key : Int)
  | clear

/-- the specification: a map over distinct keys -/
def Spec.ustep (l : Spec V) : UOp V → Spec V
  | .insert e => l.insert e
  | .delete k => l.erase k
  | .write k v => l.setVal k v
  | .deleteVia k => l.erase k
  | .clear => []

/-- the caller's contract, stated on the specification: insert only absent keys, go through a handle only for
stored keys -/
def UContract (l : Spec V) : UOp V → Prop
  | .insert e => e.key ∉ l.map (·.key)
  | .write k _ => k ∈ l.map (·.key)
  | .deleteVia k => k ∈ l.map (·.key)
  | _ => True

def UContractAll (l : Spec V) : List (UOp V) → Prop
  | [] => True
  | op :: ops => UContract l op ∧ UContractAll (l.ustep op) ops

/-- the model of the tree, same operations -/
def St.ustep (st : St V) : UOp V → Option (St V)
  | .insert e => some (st.insert e)
  | .delete k => st.delete k
  | .write k v => (st.firstIndexLess k).bind fun h => st.setValueByIndex h v
  | .deleteVia k => (st.firstIndexLess k).bind fun h => st.deleteByIndex h
  | .clear => some st.clear

/-- the predecessor query for a stored key returns the handle of the entry with that key -/
theorem firstIndexLess_stored (st : St V) (h : WF st) {k : Int} (hk : k ∈ st.tree.keys) :
    ∃ s e, st.firstIndexLess k = some s ∧ (s, e) ∈ st.tree.toList ∧ e.key = k := by
  obtain ⟨hnone, hsome⟩ := C08_firstIndexLess_char st k h
  cases hf : st.firstIndexLess k with
  | none => exact absurd (hnone.mp hf k hk) (Int.lt_irrefl k)
  | some s =>
    obtain ⟨e, hm, h1, h2⟩ := hsome s hf
    have := h2 k hk (Int.le_refl k)
    exact ⟨s, e, rfl, hm, by omega⟩

theorem mem_slots_of_mem_toList {t : T (Ent V)} {s : Nat} {e : Ent V} (h : (s, e) ∈ t.toList) : s ∈ t.slots := by
  rw [T.slots_eq]; exact List.mem_map.mpr ⟨(s, e), h, rfl⟩

/-- one user-level step: completes, keeps well-formedness, and changes the content as the specification says -/
theorem C04_ustep (st : St V) (op : UOp V) (h : WF st) (hc : UContract st.tree.ents op) :
    ∃ st', st.ustep op = some st' ∧ WF st' ∧ st'.tree.ents = Spec.ustep st.tree.ents op := by
  cases op with
  | insert e =>
    have hfresh : e.key ∉ st.tree.keys := by rw [T.keys_ents]; exact hc
    obtain ⟨h1, h2⟩ := C04_insert st e h hfresh
    exact ⟨_, rfl, h1, h2⟩
  | delete k =>
    obtain ⟨st', h1, h2, h3, _⟩ := C04_delete st k h
    exact ⟨st', h1, h2, h3⟩
  | write k v =>
    have hk : k ∈ st.tree.keys := by rw [T.keys_ents]; exact hc
    obtain ⟨s, e, hf, hm, hek⟩ := firstIndexLess_stored st h hk
    have hs := mem_slots_of_mem_toList hm
    obtain ⟨st', h1, h2⟩ := St.step_wf st (.setValue s v) h hs
    have h3 := C04_step_refines st st' (.setValue s v) h hs h1
    refine ⟨st', by simpa [St.ustep, hf, St.step] using h1, h2, ?_⟩
    rw [h3]
    simp only [Spec.step, T.atSlot_of_mem h.slots.nodup hm, Spec.ustep, hek]
  | deleteVia k =>
    have hk : k ∈ st.tree.keys := by rw [T.keys_ents]; exact hc
    obtain ⟨s, e, hf, hm, hek⟩ := firstIndexLess_stored st h hk
    obtain ⟨st', h1, h2, h3⟩ := C08_delete st s e h hm
    exact ⟨st', by simpa [St.ustep, hf] using h1, h2, by rw [h3, hek]; rfl⟩
  | clear =>
    obtain ⟨st', h1, h2⟩ := St.step_wf st .clear h trivial
    simp only [St.step, Option.some.injEq] at h1
    subst h1
    exact ⟨st.clear, rfl, h2, rfl⟩

/-- **every history.** For every capacity hint and every in-contract list of user-level operations, the tree
executes all of them without fault, stays a well-formed red-black tree, and its content — keys, values,
payloads, in key order — is exactly what the association-list specification computes from the same operations;
hence every lookup, the emptiness test and every predecessor query after the history answer as the
specification does. Values are an arbitrary type `V`: nothing is altered, duplicated or lost. -/
theorem C04_history (ops : List (UOp V)) : ∀ (st : St V), WF st → UContractAll st.tree.ents ops →
    ∃ st', ops.foldlM St.ustep st = some st' ∧ WF st' ∧ st'.tree.ents = ops.foldl Spec.ustep st.tree.ents ∧
      (∀ key, st'.getValue key = Spec.lookup (ops.foldl Spec.ustep st.tree.ents) key) ∧
      (st'.isEmpty = true ↔ ops.foldl Spec.ustep st.tree.ents = []) := by
  induction ops with
  | nil =>
    intro st h _
    exact ⟨st, rfl, h, rfl, fun key => C04_lookup st key h, C04_isEmpty st⟩
  | cons op ops ih =>
    intro st h hc
    obtain ⟨st1, h1, h2, h3⟩ := C04_ustep st op h hc.1
    obtain ⟨st', g1, g2, g3, g4, g5⟩ := ih st1 h2 (h3 ▸ hc.2)
    refine ⟨st', ?_, g2, ?_, ?_, ?_⟩
    · simp only [List.foldlM_cons, h1]; exact g1
    · simpa [List.foldl_cons, h3] using g3
    · intro key; simpa [List.foldl_cons, h3] using g4 key
    · simpa [List.foldl_cons, h3] using g5

/-- from a new tree -/
theorem C04_history_new (c : Nat) (ops : List (UOp V)) (hc : UContractAll ([] : Spec V) ops) :
    ∃ st', ops.foldlM St.ustep (St.new c : St V) = some st' ∧ WF st' ∧ st'.tree.ents = ops.foldl Spec.ustep [] ∧
      (∀ key, st'.getValue key = Spec.lookup (ops.foldl Spec.ustep []) key) :=
  let ⟨st', h1, h2, h3, h4, _⟩ := C04_history ops (St.new c) (WF.new c) hc
  ⟨st', h1, h2, h3, h4⟩

/-! non-vacuity: a history with a write and a removal through handles -/
example : UContractAll ([] : Spec String)
    [.insert ⟨2, 0, "b"⟩, .insert ⟨1, 0, "a"⟩, .write 2 "B", .deleteVia 1, .delete 7] := by
  simp [UContractAll, UContract, Spec.ustep, Spec.insert, Spec.setVal, Spec.erase]

end ITree
