import ITree.Lemmas.KHistory
/-!
# C01 — expiring-key tree: predecessor queries match the reference semantics

`live t l` = the entries of `l` whose expiration is greater than `t`. The reference answer
`specPred` is literally the statement of the property: the value of the last (= greatest-keyed) live
entry satisfying the bound, or nothing (the caller's default).
-/
namespace ITree
variable {V : Type}

/-- what the three predecessor queries answer, spelled out for the key comparator -/
theorem C01_specPred_key (key : Int) (l : List (Ent V)) :
    specPred .fl (fun k => compare k key) l = ((l.filter fun e => e.key < key).getLast?).map (·.val) ∧
    specPred .fle (fun k => compare k key) l = ((l.filter fun e => e.key ≤ key).getLast?).map (·.val) := by
  constructor
  · simp only [specPred]
    congr 2
    apply List.filter_congr
    intro x _
    by_cases h : x.key < key <;> simp [h, Int.compare_eq_lt]
  · simp only [specPred]
    congr 2
    apply List.filter_congr
    intro x _
    by_cases h : x.key ≤ key
    · have : ¬ compare x.key key = .gt := by rw [Int.compare_eq_gt]; omega
      simp [h, this]
    · have : compare x.key key = .gt := by rw [Int.compare_eq_gt]; omega
      simp [h, this]

/-- **one query** (strictly-less, less-or-equal, comparator-driven) on any well-formed tree at any
time `t`: never faults, answers from exactly the entries with `expiration > t`, and removes only
expired entries (the live content is unchanged, the tree stays well-formed). The comparator has to be
monotone only along the *live* keys. -/
theorem C01_query (st : St V) (mode : Mode) (t : Int) (f : Int → Ordering) (h : WF st)
    (hm : MonoE f (live t st.tree.ents)) :
    ∃ st' r tr, st.kQuery mode t f = some (st', r, tr) ∧ WF st' ∧
      live t st'.tree.ents = live t st.tree.ents ∧ r = specPred mode f (live t st.tree.ents) :=
  St.kQuery_spec st mode t f h hm

/-- **insert** of a key that is not live: the live content gains exactly the new entry, at its place in
key order — whatever expired entries (including an expired one with the same key) were stored,
removed or moved meanwhile -/
theorem C01_insert (st : St V) (e : Ent V) (t : Int) (h : WF st)
    (hfresh : ∀ x ∈ live t st.tree.ents, x.key ≠ e.key) :
    ∃ st' tr, st.kInsert e t = some (st', tr) ∧ WF st' ∧
      ∃ A B, live t st.tree.ents = A ++ B ∧ live t st'.tree.ents = A ++ live t [e] ++ B ∧
        (∀ x ∈ A, x.key < e.key) ∧ (∀ x ∈ B, e.key < x.key) := St.kInsert_spec st e t h hfresh

/-- **whole histories**: along every in-contract history (time non-decreasing between clears, a key
inserted only when no equal key is live, expiration not below the insertion time, comparators monotone
on the live keys) every operation completes, every query returns the reference answer, and the live
content is the reference content. -/
theorem C01_history {c : Nat} {st : St V} {S : List (Ent V)} {last : Option Int}
    (hreach : KReach c st S last) (op : KOp V) (hc : KContract S last op) :
    ∃ st' r vals tr, st.kstep op = some (st', r, vals, tr) ∧
      r = (kspecStep S op).2.1 ∧ KReach c st' (kspecStep S op).1 (op.nextLast last) := by
  obtain ⟨hw, hr⟩ := hreach.inv
  obtain ⟨st', r, vals, tr, h1, _, _, h4, _⟩ := St.kstep_refines st S last op hw hr hc
  exact ⟨st', r, vals, tr, h1, h4, KReach.step op hreach hc h1⟩

/-- an entry of the reference content is visible at every time below its expiration and at no time
from its expiration on -/
theorem C01_visible_iff (S : List (Ent V)) (e : Ent V) (t : Int) : e ∈ live t S ↔ e ∈ S ∧ t < e.exp := by
  simp [live]

/-! non-vacuity: insert 2,1,3 (exp 10) at 0, query at 5; an expired root in between -/
example : ((((St.new 0 : St Nat).kInsert ⟨2, 3, 20⟩ 0).bind fun (s, _) => (s.kInsert ⟨1, 10, 10⟩ 0)).bind
    fun (s, _) => (s.kQuery .fle 5 (fun k => compare k 2)).map (·.2.1)) = some (some 10) := by decide

end ITree
