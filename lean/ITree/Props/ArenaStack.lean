import ITree.Props.Arena
import ITree.Props.C02
import ITree.Lemmas.ArenaStack
/-!
# The traversal of `create_ordered_list` as written (explicit stack) — C07, C10

`Arena.kExport` (the function of the arena-level theorems) reads the in-order walk recursively. The Rust code
walks with an explicit `Vec<StackNode>` whose fields are overwritten once used. `arena_export_stack`: on the arena
the purge leaves behind, that loop terminates within `3·size + 2` iterations, never reads outside the arena, and
pushes exactly the exported vector of `arena_kExport_refines`.
-/
namespace ITree
variable {V : Type}

theorem arena_export_stack {a : Arena V} {st st' : St V} (h : RepStG a st) (hw : WF st) (hsize : a.nodes.size ≤ EMPTY)
    (time : Int) {vals : List V} {capReq : Nat} {tr : List (Ev V)}
    (hm : st.kExport time = some (st', vals, capReq, tr)) :
    ∃ a', a.kExport time = some (a', vals, capReq) ∧ RepStG a' st' ∧ a'.exportStack = some vals := by
  obtain ⟨a', h1, h2, hw'⟩ := arena_kExport_refines h hw hsize time hm
  refine ⟨a', h1, h2, ?_⟩
  -- the exported vector is the in-order sequence of the purged tree
  have hvals : vals = valsOf st'.tree := by
    simp only [St.kExport] at hm
    cases he : expireAll time ((List.range st.pool.bufLen).drop 1) st.tree st.pool [] with
    | none => rw [he] at hm; simp at hm
    | some x =>
      obtain ⟨t, p, tr1⟩ := x
      simp only [he, Option.some.injEq, Prod.mk.injEq] at hm
      obtain ⟨rfl, rfl, _, _⟩ := hm
      rfl
  -- the purge does not change the size of the arena
  have hsz' : a'.nodes.size = a.nodes.size := by
    simp only [St.kExport] at hm
    cases he : expireAll time ((List.range st.pool.bufLen).drop 1) st.tree st.pool [] with
    | none => rw [he] at hm; simp at hm
    | some x =>
      obtain ⟨t, p, tr1⟩ := x
      have hbl : st.pool.bufLen = a.nodes.size := by rw [h.rep.pool]; rfl
      obtain ⟨a1, e1, _, _, hs1, _⟩ := expireAllA_rep time _ a st.tree st.pool [] hsize (by simpa using h)
        (by simpa using hw) (by
          intro i hi
          rw [hbl] at hi
          have := List.mem_of_mem_drop hi
          have hlt := List.mem_range.mp this
          refine ⟨hlt, ?_⟩
          intro h0; subst h0
          have : (List.range a.nodes.size).drop 1 = List.range' 1 (a.nodes.size - 1) := by
            rw [List.range_eq_range', List.drop_range']
          rw [this] at hi
          simp at hi) he
      rw [hbl] at e1
      simp only [Arena.kExport, e1, Option.bind_eq_bind, Option.bind_some, Option.pure_def] at h1
      cases hv : Arena.inorderVals (a1.nodes.size + 1) a1 a1.root with
      | none => simp [hv] at h1
      | some v =>
        simp only [hv, Option.bind_some, Option.some.injEq, Prod.mk.injEq] at h1
        rw [← h1.1]; exact hs1
  rw [hvals]
  exact exportStack_spec h2.rep.tree (by rw [hsz']; exact hsize) (h2.rep.size_le hw'.slots)

/-! non-vacuity: the D4 history, exported by the explicit-stack loop -/
example : (((Arena.new 0 (⟨0, 0, 0⟩ : Ent Nat)).kInsert ⟨2, 1, 20⟩ 0).bind fun a => (a.kInsert ⟨1, 10, 10⟩ 0).bind fun a =>
    (a.kInsert ⟨3, 1, 30⟩ 0).bind fun a => (a.kExport 5).bind fun x => x.1.exportStack) = some [10] := by decide
example : (((Arena.new 0 (⟨0, 0, 0⟩ : Ent Nat)).kInsert ⟨2, 9, 20⟩ 0).bind fun a => (a.kInsert ⟨1, 10, 10⟩ 0).bind fun a =>
    (a.kInsert ⟨3, 9, 30⟩ 0).bind fun a => a.exportStack) = some [10, 20, 30] := by decide

/-- the same traversal recording the greatest stack length it reaches -/
def Arena.exportStackD (a : Arena V) : Option (List V × Nat) :=
  if a.root == EMPTY then some ([], 0)
  else (a.stackNode a.root).bind fun s => Arena.exportLoopD (3 * a.nodes.size + 2) a [s] [] 0

/-- **the auxiliary stack of the export stays as shallow as the tree**: on an arena representing a red-black tree
with `n` entries the explicit stack never holds more than `height ≤ 2·log2(n+1) + 1` frames (C19: the export's working
memory, not only its result, is proportional — in fact logarithmic; C02 gives the height bound). A fixed-size stack
of that many frames would suffice; the code's `Vec` never needs to grow beyond it. -/
theorem arena_export_stack_depth {a : Arena V} {st : St V} (h : RepSt a st) (hw : WF st) (hsize : a.nodes.size ≤ EMPTY) :
    ∃ depth, a.exportStackD = some (valsOf st.tree, depth) ∧ depth ≤ 2 * Nat.log2 (st.tree.size + 1) + 1 := by
  obtain ⟨n, hbal⟩ := hw.bal
  have hh := C02_height_bound hbal
  have hsz := h.size_le hw.slots
  have hr := h.tree
  cases ht : st.tree with
  | leaf =>
    rw [ht] at hr
    have : a.root = EMPTY := hr
    exact ⟨0, by simp [Arena.exportStackD, this, valsOf_leaf], by omega⟩
  | node c l s e r =>
    rw [ht] at hr hh hsz
    obtain ⟨k, hk, hloop⟩ := exportLoopD_subtree hsize (.node c l s e r) a.root EMPTY hr (by simp)
    obtain ⟨hs, nn, hn, _⟩ := hr
    have hn' : a.node a.root = some nn := by rw [hs]; exact hn
    have hne : (a.root == EMPTY) = false := by
      have := node_lt hn'; simp; unfold EMPTY at hsize ⊢; omega
    refine ⟨(T.node c l s e r).height, ?_, hh⟩
    have hfuel : 3 * a.nodes.size + 2 = (3 * a.nodes.size + 2 - k) + k := by omega
    simp only [Arena.exportStackD, hne, Bool.false_eq_true, if_false, Arena.stackNode, hn', Option.map_some, Option.bind_some]
    rw [hfuel, hloop nn hn' _ [] [] 0]
    have : 3 * a.nodes.size + 2 - k = (3 * a.nodes.size + 1 - k) + 1 := by omega
    rw [this]
    simp [Arena.exportLoopD]

/-! ### the capacity reserved for the stack

`height()` walks the left spine counting black nodes and returns twice that count; `create_ordered_list` reserves a
stack of that capacity (`Vec::with_capacity(height)`). -/

/-- black nodes on the left spine -/
def T.leftBlacks {ε : Type} : T ε → Nat
  | .leaf => 0
  | .node c l _ _ _ => bh c + T.leftBlacks l

theorem Bal.leftBlacks {ε : Type} {t : T ε} {n : Nat} (h : Bal t n) : t.leftBlacks = n := by
  induction h with
  | leaf => rfl
  | red _ _ _ _ ihl _ => simp [T.leftBlacks, ihl]
  | black _ _ ihl _ => simp [T.leftBlacks, ihl]; omega

theorem heightLoop_rep {a : Arena V} (hsize : a.nodes.size ≤ EMPTY) : ∀ (l : T (Ent V)) (i p : Nat) (c : Color) (s : Nat)
    (e : Ent V) (r : T (Ent V)) (n : ANode V) (h fuel : Nat), Rep a i p (.node c l s e r) → a.node i = some n →
    l.height < fuel → Arena.heightLoop fuel a n h = some (h + l.leftBlacks) := by
  intro l
  induction l with
  | leaf =>
    intro i p c s e r n h fuel hr hn hf
    obtain ⟨rfl, n0, hn0, _, _, _, hl, _⟩ := hr
    rw [hn0] at hn; cases hn
    have hle : n.left = EMPTY := hl
    cases fuel with
    | zero => omega
    | succ fuel => simp [Arena.heightLoop, hle, T.leftBlacks]
  | node cl ll sl el rl ihl _ =>
    intro i p c s e r n h fuel hr hn hf
    obtain ⟨rfl, n0, hn0, _, _, _, hl, _⟩ := hr
    rw [hn0] at hn; cases hn
    have hl' := hl
    obtain ⟨hsl, nl, hnl, _, hred, _⟩ := hl
    have hnl' : a.node n.left = some nl := by rw [hsl]; exact hnl
    have hlE : (n.left == EMPTY) = false := by
      have := node_lt hnl'; simp; unfold EMPTY at hsize ⊢; omega
    cases fuel with
    | zero => omega
    | succ fuel =>
      simp only [T.height] at hf
      simp only [Arena.heightLoop, hlE, Bool.false_eq_true, if_false, hnl', Option.bind_some]
      rw [ihl n.left i cl sl el rl nl _ fuel hl' hnl' (by omega)]
      cases cl <;> simp [hred, isRedC, T.leftBlacks] <;> omega

/-- **the stack never outgrows the capacity reserved for it**: on every arena representing a red-black tree
`height()` completes, and the explicit stack of `create_ordered_list` — `Vec::with_capacity(height)` — never holds
more frames than that capacity: the export performs no reallocation of its stack, whatever the tree -/
theorem arena_export_stack_capacity {a : Arena V} {st : St V} (h : RepSt a st) (hw : WF st) (hsize : a.nodes.size ≤ EMPTY) :
    ∃ cap depth, a.heightCap = some cap ∧ a.exportStackD = some (valsOf st.tree, depth) ∧ depth ≤ cap := by
  obtain ⟨n, hbal⟩ := hw.bal
  have hle := hbal.height_le
  have hlt := h.height_lt hw.slots
  have hr := h.tree
  cases ht : st.tree with
  | leaf =>
    rw [ht] at hr
    have : a.root = EMPTY := hr
    exact ⟨0, 0, by simp [Arena.heightCap, this], by simp [Arena.exportStackD, this, valsOf_leaf], by omega⟩
  | node c l s e r =>
    rw [ht] at hr hle hlt hbal
    obtain ⟨k, hk, hloop⟩ := exportLoopD_subtree hsize (.node c l s e r) a.root EMPTY hr (by simp)
    have hr' := hr
    obtain ⟨hs, nn, hn, _⟩ := hr
    have hn' : a.node a.root = some nn := by rw [hs]; exact hn
    have hne : (a.root == EMPTY) = false := by
      have := node_lt hn'; simp; unfold EMPTY at hsize ⊢; omega
    have hsz : (T.node c l s e r).size ≤ a.nodes.size := by have := h.size_le hw.slots; rw [ht] at this; exact this
    refine ⟨(1 + l.leftBlacks) * 2, (T.node c l s e r).height, ?_, ?_, ?_⟩
    · simp only [Arena.heightCap, hne, Bool.false_eq_true, if_false, hn', Option.bind_some]
      rw [heightLoop_rep hsize l a.root EMPTY c s e r nn 1 _ hr' hn' (by simp only [T.height] at hlt; omega)]
      rfl
    · have hfuel : 3 * a.nodes.size + 2 = (3 * a.nodes.size + 2 - k) + k := by omega
      simp only [Arena.exportStackD, hne, Bool.false_eq_true, if_false, Arena.stackNode, hn', Option.map_some, Option.bind_some]
      rw [hfuel, hloop nn hn' _ [] [] 0]
      have : 3 * a.nodes.size + 2 - k = (3 * a.nodes.size + 1 - k) + 1 := by omega
      rw [this]
      simp [Arena.exportLoopD]
    · have hlb := hbal.leftBlacks
      simp only [T.leftBlacks] at hlb
      cases c <;> simp [bh, T.isBlack_node] at hlb hle <;> omega

/-! non-vacuity: seven keys inserted in ascending order by the pointer code: the walk needs a stack of 4 frames -/
example : ((([0, 1, 2, 3, 4, 5, 6] : List Nat).foldlM (fun (a : Arena Nat) (k : Nat) => a.kInsert ⟨(k : Int), 9, 10 * k⟩ 0) (Arena.new 0 ⟨0, 0, 0⟩)).bind
    fun a => a.exportStackD) = some ([0, 10, 20, 30, 40, 50, 60], 4) := by decide
example : ((([0, 1, 2, 3, 4, 5, 6] : List Nat).foldlM (fun (a : Arena Nat) (k : Nat) => a.kInsert ⟨(k : Int), 9, 10 * k⟩ 0) (Arena.new 0 ⟨0, 0, 0⟩)).bind
    fun a => a.heightCap) = some 4 := by decide

end ITree
