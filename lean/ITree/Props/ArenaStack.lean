import ITree.Props.Arena
import ITree.Lemmas.ArenaStack
/-!
# The traversal of `create_ordered_list` as written (explicit stack) — C07, C10

`Arena.kExport` (the function of the arena-level theorems) reads the in-order walk recursively. The Rust code
walks with an explicit `Vec<StackNode>` whose fields are overwritten once used. `arena_export_stack`: on the arena
the purge leaves behind, that loop terminates within `3·size + 2` iterations, never reads outside the arena, and
pushes exactly the exported vector of `arena_kExport_refines`.
-/
namespace ITree
variable {V : Type}

theorem arena_export_stack {a : Arena V} {st st' : St V} (h : RepStG a st) (hw : WF st) (hsize : a.nodes.size ≤ EMPTY)
    (time : Int) {vals : List V} {capReq : Nat} {tr : List (Ev V)}
    (hm : st.kExport time = some (st', vals, capReq, tr)) :
    ∃ a', a.kExport time = some (a', vals, capReq) ∧ RepStG a' st' ∧ a'.exportStack = some vals := by
  obtain ⟨a', h1, h2, hw'⟩ := arena_kExport_refines h hw hsize time hm
  refine ⟨a', h1, h2, ?_⟩
  -- the exported vector is the in-order sequence of the purged tree
  have hvals : vals = valsOf st'.tree := by
    simp only [St.kExport] at hm
    cases he : expireAll time ((List.range st.pool.bufLen).drop 1) st.tree st.pool [] with
    | none => rw [he] at hm; simp at hm
    | some x =>
      obtain ⟨t, p, tr1⟩ := x
      simp only [he, Option.some.injEq, Prod.mk.injEq] at hm
      obtain ⟨rfl, rfl, _, _⟩ := hm
      rfl
  -- the purge does not change the size of the arena
  have hsz' : a'.nodes.size = a.nodes.size := by
    simp only [St.kExport] at hm
    cases he : expireAll time ((List.range st.pool.bufLen).drop 1) st.tree st.pool [] with
    | none => rw [he] at hm; simp at hm
    | some x =>
      obtain ⟨t, p, tr1⟩ := x
      have hbl : st.pool.bufLen = a.nodes.size := by rw [h.rep.pool]; rfl
      obtain ⟨a1, e1, _, _, hs1, _⟩ := expireAllA_rep time _ a st.tree st.pool [] hsize (by simpa using h)
        (by simpa using hw) (by
          intro i hi
          rw [hbl] at hi
          have := List.mem_of_mem_drop hi
          have hlt := List.mem_range.mp this
          refine ⟨hlt, ?_⟩
          intro h0; subst h0
          have : (List.range a.nodes.size).drop 1 = List.range' 1 (a.nodes.size - 1) := by
            rw [List.range_eq_range', List.drop_range']
          rw [this] at hi
          simp at hi) he
      rw [hbl] at e1
      simp only [Arena.kExport, e1, Option.bind_eq_bind, Option.bind_some, Option.pure_def] at h1
      cases hv : Arena.inorderVals (a1.nodes.size + 1) a1 a1.root with
      | none => simp [hv] at h1
      | some v =>
        simp only [hv, Option.bind_some, Option.some.injEq, Prod.mk.injEq] at h1
        rw [← h1.1]; exact hs1
  rw [hvals]
  exact exportStack_spec h2.rep.tree (by rw [hsz']; exact hsize) (h2.rep.size_le hw'.slots)

/-! non-vacuity: the D4 history, exported by the explicit-stack loop -/
example : (((Arena.new 0 (⟨0, 0, 0⟩ : Ent Nat)).kInsert ⟨2, 1, 20⟩ 0).bind fun a => (a.kInsert ⟨1, 10, 10⟩ 0).bind fun a =>
    (a.kInsert ⟨3, 1, 30⟩ 0).bind fun a => (a.kExport 5).bind fun x => x.1.exportStack) = some [10] := by decide
example : (((Arena.new 0 (⟨0, 0, 0⟩ : Ent Nat)).kInsert ⟨2, 9, 20⟩ 0).bind fun a => (a.kInsert ⟨1, 10, 10⟩ 0).bind fun a =>
    (a.kInsert ⟨3, 9, 30⟩ 0).bind fun a => a.exportStack) = some [10, 20, 30] := by decide

end ITree
