import ITree.Lemmas.KListHistory
import ITree.Props.C01
import ITree.Lemmas.CheckEquiv
/-!
# C13 — the sorted-vector variants give the same answers as the tree variants

Handles of the lists are positions. `std`'s `binary_search_by` is modelled by its contract on a slice
that is sorted w.r.t. the comparator (`bsearch`); `Vec::insert/remove/retain` are the list functions.
The lists are related to the *same* specifications as the trees (`Spec` for map/set, `kspecStep` for the
expiring collections), so tree and list agree on every in-contract history.
-/
namespace ITree
variable {V : Type}

/-! ### expiring-key list -/

/-- one in-contract step of `KeyExpList`: reference outputs, reference content; in particular the
cached earliest-expiration shortcut never shows an expired entry and never drops a live one -/
theorem C13_klist_step (s : KL V) (S : List (Ent V)) (last : Option Int) (op : KOp V)
    (hr : KLRel s S last) (hc : KContract S last op) :
    KLRel (s.step op).1 (kspecStep S op).1 (op.nextLast last) ∧
      (s.step op).2.1 = (kspecStep S op).2.1 ∧ (s.step op).2.2 = (kspecStep S op).2.2 :=
  KL.step_refines s S last op hr hc

theorem C13_klist_new (maxE : Int) : KLRel (KL.new maxE : KL V) [] none :=
  ⟨by intro e he; simp [KL.new] at he, by simp [KL.new, SortedE], ⟨rfl, rfl⟩⟩

/-- tree and list, run on the same in-contract history, give the same query answers and the same
exported vector at every step -/
theorem C13_tree_list_agree {c : Nat} {st : St V} {kl : KL V} {S : List (Ent V)} {last : Option Int}
    (hreach : KReach c st S last) (hkl : KLRel kl S last) (op : KOp V) (hc : KContract S last op) :
    ∃ st' r vals tr, st.kstep op = some (st', r, vals, tr) ∧ (kl.step op).2.1 = r ∧ (kl.step op).2.2 = vals ∧
      KReach c st' (kspecStep S op).1 (op.nextLast last) ∧ KLRel (kl.step op).1 (kspecStep S op).1 (op.nextLast last) := by
  obtain ⟨hw, hr⟩ := hreach.inv
  obtain ⟨st', r, vals, tr, h1, _, _, h4, h5⟩ := St.kstep_refines st S last op hw hr hc
  obtain ⟨k1, k2, k3⟩ := KL.step_refines kl S last op hkl hc
  exact ⟨st', r, vals, tr, h1, by rw [k2, h4], by rw [k3, h5], KReach.step op hreach hc h1, k1⟩

/-! ### map list / set list -/

/-- insert of an absent key = the specification's sorted insertion (the same `Spec.insert` the trees refine) -/
theorem C13_list_insert (l : List (Ent V)) (e : Ent V) (hs : SortedE l) (hfresh : ∀ x ∈ l, x.key ≠ e.key) :
    LSt.insert l e = Spec.insert l e ∧ SortedE (LSt.insert l e) := LSt.insert_eq l e hs hfresh

/-- delete = erase that key; deleting an absent key changes nothing -/
theorem C13_list_delete (l : List (Ent V)) (key : Int) (hs : SortedE l) :
    LSt.delete l key = Spec.erase l key := by
  obtain ⟨A, B, h1, h2, h3, h4⟩ := bsearch_split (fun x => compare x.key key) l 0
  subst h1
  have hA : ∀ x ∈ A, x.key < key := by intro x hx; simpa [Int.compare_eq_lt] using h2 x hx
  simp only [LSt.delete, h4, Nat.zero_add]
  cases B with
  | nil =>
    simp only [List.append_nil]
    exact (erase_absent (by
      simp only [List.mem_map, not_exists, not_and]
      intro x hx; have := hA x hx; omega)).symm
  | cons b bs =>
    by_cases hbe : compare b.key key = .eq
    · simp only [hbe, if_true]
      have hk : b.key = key := by simpa [Int.compare_eq_eq] using hbe
      rw [List.eraseIdx_append_of_length_le (Nat.le_refl _)]
      simp only [Nat.sub_self, List.eraseIdx_cons_zero]
      rw [← hk]
      exact (erase_mid hs).symm
    · simp only [hbe, if_false]
      have hbne := h3 b bs rfl
      have hgt : key < b.key := by
        simp only [ne_eq, Int.compare_eq_lt, Int.compare_eq_eq] at hbne hbe
        omega
      have hB := sorted_split_bounds hs hA (fun b' bs' h => by cases h; exact hgt)
      refine (erase_absent ?_).symm
      simp only [List.mem_map, List.mem_append, not_exists, not_and]
      intro x hx
      rcases hx with hx | hx
      · have := hA x hx; omega
      · have := hB x hx; omega

/-- lookup = lookup in the specification -/
theorem C13_list_lookup (l : List (Ent V)) (key : Int) (hs : SortedE l) :
    LSt.getValue l key = Spec.lookup l key := by
  have := klist_answer .get (fun k => compare k key) l (hs.mono_compare key)
  simp only [LSt.getValue, Spec.lookup]
  have hfun : (fun e : Ent V => compare e.key key == Ordering.eq) = fun e => e.key == key := by
    funext x
    by_cases hk : x.key = key
    · simp [hk]
    · have : compare x.key key ≠ .eq := by rw [ne_eq, Int.compare_eq_eq]; exact hk
      cases hc : compare x.key key <;> simp_all
  simp only [specPred, hfun] at this
  rw [← this]
  cases bsearch (fun x => compare x.key key) l 0 <;> rfl

/-- the predecessor handle of the lists is the position of the last entry the (monotone) comparator
does not place above the probe; none when there is no such entry -/
theorem C13_list_firstIndexLessBy (l : List (Ent V)) (f : Int → Ordering) (hm : MonoE f l) :
    LSt.firstIndexLessBy l f =
      (if 0 < (l.filter fun e => f e.key != .gt).length then some ((l.filter fun e => f e.key != .gt).length - 1) else none) ∧
    (l.filter fun e => f e.key != .gt) = l.take (l.filter fun e => f e.key != .gt).length := by
  obtain ⟨A, B, h1, h2, h3, h4⟩ := bsearch_split (fun x => f x.key) l 0
  subst h1
  have hAng : ∀ x ∈ A, (f x.key != .gt) = true := by intro x hx; simp [h2 x hx]
  simp only [LSt.firstIndexLessBy, h4, Nat.zero_add]
  cases B with
  | nil =>
    simp only [List.append_nil, filter_all hAng, List.take_length, and_true]
  | cons b bs =>
    have hbne := h3 b bs rfl
    have hbs := mono_tail_gt hm hbne
    have hbsg : ∀ x ∈ bs, (f x.key != .gt) = false := by intro x hx; simp [hbs x hx]
    by_cases hbe : f b.key = .eq
    · simp only [hbe, if_true, List.filter_append, List.filter_cons, filter_all hAng, filter_none hbsg]
      have htake : List.take (A.length + 1) (A ++ b :: bs) = A ++ [b] := by
        have := List.take_left' (l₁ := A ++ [b]) (l₂ := bs) (i := A.length + 1) (by simp)
        simpa using this
      simp [htake]
    · have hbg : f b.key = .gt := by cases h : f b.key <;> simp_all
      simp only [hbg, List.filter_append, List.filter_cons, filter_all hAng, filter_none hbsg]
      have htake : List.take A.length (A ++ b :: bs) = A := List.take_left
      cases A <;> simp_all

/-- neighbour steps of the set list: next / previous position, the empty sentinel past either end -/
theorem C13_list_neighbours (l : List (Ent V)) (i : Nat) (hi : i < l.length) :
    LSt.indexAfter l i = some (if i + 1 < l.length then some (i + 1) else none) ∧
    LSt.indexBefore l i = some (if i > 0 then some (i - 1) else none) := by
  simp [LSt.indexAfter, LSt.indexBefore, hi]

/-- reading / writing / deleting through a position act on exactly that entry -/
theorem C13_list_handles (l : List (Ent V)) (i : Nat) (v : V) (hi : i < l.length) :
    LSt.valueByIndex l i = some (l[i]).val ∧
    LSt.setValueByIndex l i v = some (l.set i ((l[i]).setVal v)) ∧
    LSt.deleteByIndex l i = some (l.eraseIdx i) := by
  simp [LSt.valueByIndex, LSt.setValueByIndex, LSt.deleteByIndex, hi, Ent.setVal]

/-- the executable checks the driver evaluates on every explored real list state are exactly the
hypotheses of the theorems above -/
theorem C13_checks_iff (l : List (Ent V)) (s : KL V) :
    (sortedCheck l = true ↔ SortedE l) ∧ (s.invCheck = true ↔ s.Inv) := by
  constructor
  · simp only [sortedCheck, SortedE]; exact strictlyIncreasing_iff _
  · simp only [KL.invCheck, KL.Inv, List.all_eq_true, decide_eq_true_eq]

/-- a sorted buffer with a valid cached minimum is related to the reference content it denotes -/
theorem C13_klist_rel_of_checks (s : KL V) (T : Int) (h1 : sortedCheck s.buf = true) (h2 : s.invCheck = true) :
    KLRel s (live T s.buf) (some T) :=
  ⟨(C13_checks_iff s.buf s).2.mp h2, (C13_checks_iff s.buf s).1.mp h1, rfl⟩

/-! non-vacuity -/
example : (((KL.new 100 : KL Nat).insert ⟨2, 5, 20⟩ 0).query .fle 3 (fun k => compare k 2)).2 = some 20 := by decide
example : LSt.firstIndexLess ([⟨1, 0, 10⟩, ⟨3, 0, 30⟩] : List (Ent Nat)) 2 = some 0 := by decide

end ITree
