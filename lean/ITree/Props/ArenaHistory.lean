import ITree.Props.Arena
import ITree.Props.C11
import ITree.Props.C04History
import ITree.Props.C05
/-!
# Whole histories of `KeyExpTree`, executed by the pointer code

`Arena.kRun` folds the pointer-level operations over a list of `KOp`; `kspecRun` is the reference machine
(content = entries live at the last supplied time). The only size assumption left is explicit and about the
*history*: with `n` operations after a state whose peak population was `pk`, the arena stays below `2^32 - 1`
slots if `3·max(max(c,8), 3·(pk + n + 1)) + 4 ≤ 2^32 - 1` (≈ 1.5·10^8 stored entries) — derived from the storage
bound of C11, not assumed per step.
-/
namespace ITree
variable {V : Type}

/-- answers and exported vectors of the reference machine along a history -/
def kspecRun (S : List (Ent V)) : List (KOp V) → List (Option V × List V)
  | [] => []
  | op :: ops => (kspecStep S op).2 :: kspecRun (kspecStep S op).1 ops

/-- the caller's contract along a history (stated on the reference machine only) -/
def KContractAll (S : List (Ent V)) (last : Option Int) : List (KOp V) → Prop
  | [] => True
  | op :: ops => KContract S last op ∧ KContractAll (kspecStep S op).1 (op.nextLast last) ops

/-- the pointer code run over a history: final arena and every answer / exported vector -/
def Arena.kRun (a : Arena V) : List (KOp V) → Option (Arena V × List (Option V × List V))
  | [] => some (a, [])
  | op :: ops => (a.kStep op).bind fun (a', r, v) => (Arena.kRun a' ops).map fun (a'', outs) => (a'', (r, v) :: outs)

/-- the storage bound of C11 gives the room the pointer code needs -/
theorem KReachP.room {c : Nat} {a : Arena V} {st : St V} {S : List (Ent V)} {last : Option Int} {pk : Nat}
    (h : KReachP c st S last pk) (hrep : RepStG a st) (hsmall : 3 * max (max c 8) (3 * (pk + 1)) + 4 ≤ EMPTY) :
    a.Room := by
  have g := h.growth
  apply hrep.rep.room
  have h1 := g.buf_le
  have h2 := g.cap_le
  omega

/-- **every in-contract history of the expiring tree, run by the pointer code.** From any reachable state: the
whole run completes (no index outside the arena, no failed link assertion, every loop within its fuel) and the
answers of all queries and all exported vectors are exactly those of the reference machine. -/
theorem arena_kRun_spec {c : Nat} : ∀ (ops : List (KOp V)) {a : Arena V} {st : St V} {S : List (Ent V)}
    {last : Option Int} {pk : Nat}, KReachP c st S last pk → RepStG a st → KContractAll S last ops →
    3 * max (max c 8) (3 * (pk + ops.length + 1)) + 4 ≤ EMPTY →
    ∃ a', a.kRun ops = some (a', kspecRun S ops) := by
  intro ops
  induction ops with
  | nil => intro a st S last pk _ _ _ _; exact ⟨a, rfl⟩
  | cons op ops ih =>
    intro a st S last pk hreach hrep hc hsmall
    simp only [List.length_cons] at hsmall
    have hroom : a.Room := hreach.room hrep (by omega)
    obtain ⟨hw, hr⟩ := hreach.reach.inv
    obtain ⟨st', r, vals, tr, h1, _, _, rfl, rfl⟩ := St.kstep_refines st S last op hw hr hc.1
    obtain ⟨a1, h2, h3⟩ := arena_kStep_refines op hrep hw hroom h1
    have hsz := hreach.step_size op h1
    have hreach' := KReachP.step op hreach hc.1 h1
    obtain ⟨a', h4⟩ := ih hreach' h3 hc.2 (by
      have : max pk st'.tree.size + ops.length + 1 ≤ pk + (ops.length + 1) + 1 := by omega
      have h5 : max (max c 8) (3 * (max pk st'.tree.size + ops.length + 1)) ≤
          max (max c 8) (3 * (pk + (ops.length + 1) + 1)) := by omega
      omega)
    exact ⟨a', by simp [Arena.kRun, h2, h4, kspecRun]⟩

/-- from `new(c)`: every in-contract history of at most `n` operations -/
theorem arena_kRun_new (c : Nat) (d : Ent V) (ops : List (KOp V)) (hc : KContractAll ([] : List (Ent V)) none ops)
    (hsmall : 3 * max (max c 8) (3 * (ops.length + 1)) + 4 ≤ EMPTY) :
    ∃ a', (Arena.new c d).kRun ops = some (a', kspecRun [] ops) :=
  arena_kRun_spec ops (KReachP.new (c := c)) (arena_new_repG c d (by omega)) hc (by simpa using hsmall)

/-! non-vacuity: the history of defect D4 (an expired successor moved into an already visited slot), run by
the pointer code through the theorem -/
example : ∃ a', (Arena.new 0 (⟨0, 0, 0⟩ : Ent Nat)).kRun
    [.insert ⟨2, 1, 20⟩ 0, .insert ⟨1, 10, 10⟩ 0, .insert ⟨3, 1, 30⟩ 0, .exportAt 5] =
    some (a', [(none, []), (none, []), (none, []), (none, [10])]) := by
  have := arena_kRun_new 0 (⟨0, 0, 0⟩ : Ent Nat)
    [.insert ⟨2, 1, 20⟩ 0, .insert ⟨1, 10, 10⟩ 0, .insert ⟨3, 1, 30⟩ 0, .exportAt 5]
    (by simp [KContractAll, KContract, kspecStep, KOp.nextLast, KOp.time, live, Spec.insert]) (by decide)
  simpa [kspecRun, kspecStep, live, Spec.insert] using this

/-! ## map / set: whole user-level histories run by the pointer code -/

/-- a user-level request: an operation of `UOp`, or a lookup -/
inductive URequest (V : Type) where
  | op (o : UOp V)
  | get (key : Int)

/-- `get_value(key)` of the pointer code: `find_index`, then the node's value -/
def Arena.getValue (a : Arena V) (key : Int) : Option (Option V) :=
  (Arena.findIndex (a.nodes.size + 1) a key a.root).bind fun i =>
    if i == EMPTY then some none else (a.node i).map fun n => some n.ent.val

/-- one user-level operation of the pointer code (handles come from `first_index_less`) -/
def Arena.ustep (a : Arena V) : UOp V → Option (Arena V)
  | .insert e => a.insert e
  | .delete k => a.delete k
  | .write k v => (Arena.firstLessBy (a.nodes.size + 1) a (fun x => compare x k) a.root EMPTY).bind fun h =>
      (a.node h).bind fun n => a.setEnt h (n.ent.setVal v)
  | .deleteVia k => (Arena.firstLessBy (a.nodes.size + 1) a (fun x => compare x k) a.root EMPTY).bind fun h =>
      a.deleteIndex h
  | .clear => a.clear

def Arena.urun (a : Arena V) : List (URequest V) → Option (Arena V × List (Option V))
  | [] => some (a, [])
  | .op o :: rs => (a.ustep o).bind fun a' => Arena.urun a' rs
  | .get k :: rs => (a.getValue k).bind fun r => (Arena.urun a rs).map fun (a', outs) => (a', r :: outs)

/-- the specification: answers of the lookups along a history -/
def Spec.urun (l : Spec V) : List (URequest V) → List (Option V)
  | [] => []
  | .op o :: rs => Spec.urun (l.ustep o) rs
  | .get k :: rs => l.lookup k :: Spec.urun l rs

def URequestsOK (l : Spec V) : List (URequest V) → Prop
  | [] => True
  | .op o :: rs => UContract l o ∧ URequestsOK (l.ustep o) rs
  | .get _ :: rs => URequestsOK l rs

def nOps : List (URequest V) → Nat
  | [] => 0
  | .op _ :: rs => nOps rs + 1
  | .get _ :: rs => nOps rs

/-- lookups of the pointer code answer as the model -/
theorem arena_getValue_refines {a : Arena V} {st : St V} (h : RepSt a st) (hw : WF st) (hsize : a.nodes.size ≤ EMPTY)
    (key : Int) : a.getValue key = some (st.getValue key) := by
  obtain ⟨_, hfind, _, _, hread⟩ := arena_reads_refine h hw hsize
  simp only [Arena.getValue, hfind key, Option.bind_some]
  cases hf : findKey key [] st.tree with
  | none =>
    have hk := findKey_none key [] st.tree hw.ordered hf
    have : st.getValue key = none := by
      have h1 := C04_lookup_iff st key hw
      cases hg : st.getValue key with
      | none => rfl
      | some v => exact absurd (h1.mp (by simp [hg])) hk
    simp [this]
  | some x =>
    obtain ⟨k', t'⟩ := x
    obtain ⟨hplug, c, l, s, e, r, rfl, hek⟩ := findKey_some key [] st.tree hf
    simp only [plug_nil] at hplug
    have hmem : (s, e) ∈ st.tree.toList := by
      rw [← hplug, toList_plug]; simp [T.toList]
    have hat := T.atSlot_of_mem hw.slots.nodup hmem
    obtain ⟨n, hn, hne⟩ := hread s e hat
    have hslt := node_lt hn
    have hse : (s == EMPTY) = false := by simp; omega
    have hg : st.getValue key = some e.val := by
      have := C05_lookup_stored st e hw (by simp only [T.ents]; exact List.mem_map.mpr ⟨(s, e), hmem, rfl⟩)
      simp [St.getValue, ← hek, this]
    simp [T.rootIdx, hse, hn, hne, hg]

/-- one user-level operation: the pointer code does what the model does -/
theorem arena_ustep_refines {a : Arena V} {st : St V} (op : UOp V) (h : RepSt a st) (hw : WF st)
    (hroom : a.nodes.size + a.cap ≤ EMPTY) (hc : UContract st.tree.ents op) :
    ∃ a' st', a.ustep op = some a' ∧ st.ustep op = some st' ∧ RepSt a' st' ∧ WF st' ∧
      st'.tree.ents = Spec.ustep st.tree.ents op := by
  have hsize : a.nodes.size ≤ EMPTY := by omega
  obtain ⟨st', hs, hw', hents⟩ := C04_ustep st op hw hc
  cases op with
  | insert e =>
    simp only [St.ustep, Option.some.injEq] at hs; subst hs
    obtain ⟨a', h1, h2, _⟩ := arena_insert_refines e h hw hroom
    exact ⟨a', _, h1, rfl, h2, hw', hents⟩
  | delete k =>
    obtain ⟨a', h1, h2, _⟩ := arena_delete_refines k h hw hsize hs
    exact ⟨a', st', h1, hs, h2, hw', hents⟩
  | write k v =>
    have hk : k ∈ st.tree.keys := by rw [T.keys_ents]; exact hc
    obtain ⟨s, e, hf, hm, _⟩ := firstIndexLess_stored st hw hk
    have hfl := (arena_reads_refine h hw hsize).1 (fun x => compare x k)
    have hf' : st.firstIndexLessBy (fun x => compare x k) = some s := hf
    rw [hf'] at hfl
    simp only [St.ustep, hf, Option.bind_some] at hs
    obtain ⟨n, a', h1, h2, h3⟩ := arena_write_refines h hw s v hs
    exact ⟨a', st', by simp [Arena.ustep, hfl, optIdx, h1, h2], by simp [St.ustep, hf, hs], h3, hw', hents⟩
  | deleteVia k =>
    have hk : k ∈ st.tree.keys := by rw [T.keys_ents]; exact hc
    obtain ⟨s, e, hf, hm, _⟩ := firstIndexLess_stored st hw hk
    have hfl := (arena_reads_refine h hw hsize).1 (fun x => compare x k)
    have hf' : st.firstIndexLessBy (fun x => compare x k) = some s := hf
    rw [hf'] at hfl
    simp only [St.ustep, hf, Option.bind_some] at hs
    obtain ⟨a', h1, h2, _⟩ := arena_deleteByIndex_refines s h hw hsize hs
    exact ⟨a', st', by simp [Arena.ustep, hfl, optIdx, h1], by simp [St.ustep, hf, hs], h2, hw', hents⟩
  | clear =>
    simp only [St.ustep, Option.some.injEq] at hs; subst hs
    obtain ⟨a', h1, h2, _⟩ := arena_clear_refines h hw hsize
    exact ⟨a', _, h1, rfl, h2, hw', hents⟩

theorem Spec.ustep_length (l : Spec V) (op : UOp V) : (l.ustep op).length ≤ l.length + 1 := by
  cases op with
  | insert e =>
    simp only [Spec.ustep, Spec.insert, List.length_append, List.length_cons]
    have h1 : (l.filter fun x => decide (x.key < e.key)).length + (l.filter fun x => decide (e.key < x.key)).length ≤ l.length := by
      induction l with
      | nil => simp
      | cons x xs ih =>
        simp only [List.filter_cons]
        by_cases h1 : x.key < e.key
        · have h2 : ¬ e.key < x.key := by omega
          simp [h1, h2]; omega
        · by_cases h2 : e.key < x.key
          · simp [h1, h2]; omega
          · simp [h1, h2]; omega
    omega
  | delete k => simp only [Spec.ustep, Spec.erase]; have := List.length_filter_le (fun x : Ent V => x.key != k) l; omega
  | write k v => simp [Spec.ustep, Spec.setVal]
  | deleteVia k => simp only [Spec.ustep, Spec.erase]; have := List.length_filter_le (fun x : Ent V => x.key != k) l; omega
  | clear => simp [Spec.ustep]

theorem T.size_ents (t : T (Ent V)) : t.size = t.ents.length := by
  rw [T.ents, List.length_map, T.length_toList]

/-- a user-level step is a slot-level step within its contract: the storage bound of C11 carries over -/
theorem ReachP.ustep {c : Nat} {st st' : St V} {pk : Nat} (hr : ReachP c st pk) (op : UOp V)
    (hc : UContract st.tree.ents op) (hs : st.ustep op = some st') : ReachP c st' (max pk st'.tree.size) := by
  have hw := hr.reach.wf
  cases op with
  | insert e => exact ReachP.step (.insert e) hr (by rw [InContract, T.keys_ents]; exact hc) hs
  | delete k => exact ReachP.step (.delete k) hr trivial hs
  | write k v =>
    have hk : k ∈ st.tree.keys := by rw [T.keys_ents]; exact hc
    obtain ⟨s, e, hf, hm, _⟩ := firstIndexLess_stored st hw hk
    simp only [St.ustep, hf, Option.bind_some] at hs
    exact ReachP.step (.setValue s v) hr (mem_slots_of_mem_toList hm) hs
  | deleteVia k =>
    have hk : k ∈ st.tree.keys := by rw [T.keys_ents]; exact hc
    obtain ⟨s, e, hf, hm, _⟩ := firstIndexLess_stored st hw hk
    simp only [St.ustep, hf, Option.bind_some] at hs
    exact ReachP.step (.deleteByIndex s) hr (mem_slots_of_mem_toList hm) hs
  | clear => exact ReachP.step .clear hr trivial hs

/-- **every in-contract user-level history of the map / set, run by the pointer code**: inserts, deletes, writes
and deletes through predecessor handles, clears, with lookups anywhere in between. The run completes inside the
arena and every lookup answers exactly as the association-list specification. The only size assumption is on
the length of the history (≈ 1.5·10^8 operations), from which the arena bound is *derived* (C11). -/
theorem arena_urun_spec {c : Nat} : ∀ (rs : List (URequest V)) {a : Arena V} {st : St V} {pk : Nat},
    ReachP c st pk → RepSt a st → URequestsOK st.tree.ents rs →
    3 * max (max c 8) (3 * (pk + nOps rs + 1)) ≤ EMPTY →
    ∃ a', a.urun rs = some (a', Spec.urun st.tree.ents rs) := by
  intro rs
  induction rs with
  | nil => intro a st pk _ _ _ _; exact ⟨a, rfl⟩
  | cons rq rs ih =>
    intro a st pk hr hrep hc hsmall
    have hw := hr.reach.wf
    have g := hr.growth
    have hbuf : st.pool.bufLen = a.nodes.size := by rw [hrep.pool]; rfl
    have hcap : st.pool.cap = a.cap := by rw [hrep.pool]; rfl
    have hb := g.buf_le
    have hcl := g.cap_le
    cases rq with
    | op o =>
      simp only [nOps] at hsmall
      obtain ⟨hc1, hc2⟩ := hc
      have hroom : a.nodes.size + a.cap ≤ EMPTY := by omega
      obtain ⟨a1, st1, h1, h2, h3, h4, h5⟩ := arena_ustep_refines o hrep hw hroom hc1
      have hr1 := hr.ustep o hc1 h2
      have hsz : st1.tree.size ≤ pk + 1 := by
        rw [T.size_ents, h5]
        have := Spec.ustep_length st.tree.ents o
        have := g.size_le
        rw [T.size_ents] at this
        omega
      obtain ⟨a', h6⟩ := ih hr1 h3 (h5 ▸ hc2) (by
        have h7 : max (max c 8) (3 * (max pk st1.tree.size + nOps rs + 1)) ≤
            max (max c 8) (3 * (pk + (nOps rs + 1) + 1)) := by omega
        omega)
      exact ⟨a', by simp [Arena.urun, h1, h6, Spec.urun, h5]⟩
    | get k =>
      simp only [nOps] at hsmall
      have hsize : a.nodes.size ≤ EMPTY := by omega
      have hg := arena_getValue_refines hrep hw hsize k
      obtain ⟨a', h6⟩ := ih hr hrep hc hsmall
      exact ⟨a', by simp [Arena.urun, hg, h6, Spec.urun, C04_lookup st k hw]⟩

/-- from `new(c)` -/
theorem arena_urun_new (c : Nat) (d : Ent V) (rs : List (URequest V)) (hc : URequestsOK ([] : Spec V) rs)
    (hsmall : 3 * max (max c 8) (3 * (nOps rs + 1)) ≤ EMPTY) :
    ∃ a', (Arena.new c d).urun rs = some (a', Spec.urun [] rs) :=
  arena_urun_spec rs (ReachP.new (c := c)) (arena_new_rep c d) hc (by simpa using hsmall)

/-! non-vacuity: a history with a write and a removal through predecessor handles, answered by the pointer code -/
example : ∃ a', (Arena.new 0 (⟨0, 0, ""⟩ : Ent String)).urun
    [.op (.insert ⟨2, 0, "b"⟩), .op (.insert ⟨1, 0, "a"⟩), .op (.write 2 "B"), .get 2, .op (.deleteVia 1), .get 1] =
    some (a', [some "B", none]) := by
  have := arena_urun_new 0 (⟨0, 0, ""⟩ : Ent String)
    [.op (.insert ⟨2, 0, "b"⟩), .op (.insert ⟨1, 0, "a"⟩), .op (.write 2 "B"), .get 2, .op (.deleteVia 1), .get 1]
    (by simp [URequestsOK, UContract, Spec.ustep, Spec.insert, Spec.setVal, Spec.erase]) (by decide)
  simpa [Spec.urun, Spec.ustep, Spec.insert, Spec.setVal, Spec.erase, Spec.lookup, Ent.setVal] using this

end ITree
