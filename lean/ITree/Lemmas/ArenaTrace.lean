import ITree.Lemmas.ArenaExport
import ITree.Model.ArenaTrace
/-!
# Callbacks of the pointer code (`Model/ArenaTrace.lean`) against the callbacks of the zipper model

* erasure: forgetting the events of the instrumented functions gives the functions of `Model/Arena.lean`;
* `TrRep`: the pointer code makes the same callbacks, in the same order, on the same stored entities as the
  zipper model, and the arena at the moment of each callback *represents* (`RepStG`: child links, parent
  fields, colours, entities, free list, garbage invariant) the state the zipper model records for it.
-/
namespace ITree
variable {V : Type}

/-- event-by-event correspondence of an arena trace and a zipper trace -/
inductive TrRep : List (AEv V) → List (Ev V) → Prop
  | nil : TrRep [] []
  | cons {ae : AEv V} {ev : Ev V} {as : List (AEv V)} {es : List (Ev V)} :
      ae.kind = ev.kind → ae.ent = ev.ent → RepStG ae.arena ⟨ev.tree, ev.pool⟩ → TrRep as es →
      TrRep (ae :: as) (ev :: es)

theorem TrRep.length {as : List (AEv V)} {es : List (Ev V)} (h : TrRep as es) : as.length = es.length := by
  induction h with
  | nil => rfl
  | cons _ _ _ _ ih => simp [ih]

/-- every arena event has its zipper event -/
theorem TrRep.mem {as : List (AEv V)} {es : List (Ev V)} (h : TrRep as es) {ae : AEv V} (hm : ae ∈ as) :
    ∃ ev ∈ es, ae.kind = ev.kind ∧ ae.ent = ev.ent ∧ RepStG ae.arena ⟨ev.tree, ev.pool⟩ := by
  induction h with
  | nil => cases hm
  | cons h1 h2 h3 _ ih =>
    rcases List.mem_cons.mp hm with rfl | hm
    · exact ⟨_, List.mem_cons_self, h1, h2, h3⟩
    · obtain ⟨ev, he, r⟩ := ih hm
      exact ⟨ev, List.mem_cons_of_mem _ he, r⟩

/-- the `k`-th callback (in execution order) of both traces correspond -/
theorem TrRep.reverse_get {as : List (AEv V)} {es : List (Ev V)} (h : TrRep as es) :
    TrRep as.reverse.reverse es.reverse.reverse := by simpa using h

/-! ### erasure -/

theorem expireViaT_erase (time : Int) : ∀ (fuel : Nat) (a : Arena V) (via : Arena.Via) (tr : List (AEv V)),
    (Arena.expireViaT time fuel a via tr).map (fun x => (x.1, x.2.1)) = Arena.expireVia time fuel a via := by
  intro fuel
  induction fuel with
  | zero => intro a via tr; rfl
  | succ fuel ih =>
    intro a via tr
    simp only [Arena.expireViaT, Arena.expireVia, Option.bind_eq_bind, Option.pure_def]
    cases a.readVia via with
    | none => rfl
    | some i =>
      simp only [Option.bind_some]
      by_cases hi : (i == EMPTY) = true
      · simp [hi]
      · simp only [hi, Bool.false_eq_true, if_false]
        cases a.node i with
        | none => rfl
        | some n =>
          simp only [Option.bind_some]
          by_cases hl : time < n.ent.exp
          · simp [hl]
          · simp only [hl, if_false]
            cases a.deleteIndex i with
            | none => rfl
            | some a1 => simp only [Option.bind_some]; exact ih a1 via _

theorem kSearchT_erase (mode : Mode) (time : Int) (f : Int → Ordering) :
    ∀ (fuel : Nat) (a : Arena V) (i : Nat) (res : Option V) (tr : List (AEv V)),
    (Arena.kSearchT mode time f fuel a i res tr).map (fun x => (x.1, x.2.1)) = Arena.kSearch mode time f fuel a i res := by
  intro fuel
  induction fuel with
  | zero => intro a i res tr; rfl
  | succ fuel ih =>
    intro a i res tr
    simp only [Arena.kSearchT, Arena.kSearch]
    by_cases hi : (i == EMPTY) = true
    · simp [hi]
    · simp only [hi, Bool.false_eq_true, if_false, Option.bind_eq_bind]
      cases hn : a.node i with
      | none => rfl
      | some n =>
        simp only [Option.bind_some]
        have go : ∀ (via : Arena.Via) (res' : Option V) (tr' : List (AEv V)),
            ((Arena.expireViaT time (a.nodes.size + 1) a via tr').bind fun x =>
              Arena.kSearchT mode time f fuel x.2.1 x.1 res' x.2.2).map (fun x => (x.1, x.2.1)) =
            (Arena.expireVia time (a.nodes.size + 1) a via).bind fun x => Arena.kSearch mode time f fuel x.2 x.1 res' := by
          intro via res' tr'
          rw [← expireViaT_erase time _ a via tr']
          cases Arena.expireViaT time (a.nodes.size + 1) a via tr' with
          | none => rfl
          | some x => simp only [Option.bind_some, Option.map_some]; exact ih _ _ _ _
        cases f n.ent.key with
        | eq =>
          cases mode with
          | fl => exact go _ _ _
          | fle => rfl
          | get => rfl
        | lt => exact go _ _ _
        | gt => exact go _ _ _

theorem kQueryT_erase (a : Arena V) (mode : Mode) (time : Int) (f : Int → Ordering) :
    (a.kQueryT mode time f).map (fun x => (x.1, x.2.1)) = a.kQuery mode time f := by
  simp only [Arena.kQueryT, Arena.kQuery, Option.bind_eq_bind]
  rw [← expireViaT_erase time _ a .root []]
  cases Arena.expireViaT time (a.nodes.size + 1) a .root [] with
  | none => rfl
  | some x => simp only [Option.bind_some, Option.map_some]; exact kSearchT_erase mode time f _ _ _ _ _

theorem kInsertLoopT_erase (time : Int) (e : Ent V) :
    ∀ (fuel : Nat) (a : Arena V) (i : Nat) (tr : List (AEv V)),
    (Arena.kInsertLoopT time e fuel a i tr).map (·.1) = Arena.kInsertLoop time e fuel a i := by
  intro fuel
  induction fuel with
  | zero => intro a i tr; rfl
  | succ fuel ih =>
    intro a i tr
    simp only [Arena.kInsertLoopT, Arena.kInsertLoop, Option.bind_eq_bind]
    cases hn : a.node i with
    | none => rfl
    | some n =>
      simp only [Option.bind_some]
      have go : ∀ (via : Arena.Via) (left : Bool) (tr' : List (AEv V)),
          ((Arena.expireViaT time (a.nodes.size + 1) a via tr').bind fun x =>
            if x.1 == EMPTY then (x.2.1.insertAs e i left).map (·, x.2.2)
            else Arena.kInsertLoopT time e fuel x.2.1 x.1 x.2.2).map (·.1) =
          (Arena.expireVia time (a.nodes.size + 1) a via).bind fun x =>
            if x.1 == EMPTY then x.2.insertAs e i left else Arena.kInsertLoop time e fuel x.2 x.1 := by
        intro via left tr'
        rw [← expireViaT_erase time _ a via tr']
        cases Arena.expireViaT time (a.nodes.size + 1) a via tr' with
        | none => rfl
        | some x =>
          simp only [Option.bind_some, Option.map_some]
          by_cases hx : (x.1 == EMPTY) = true
          · simp only [hx, if_true, Option.map_map]
            cases x.2.1.insertAs e i left <;> rfl
          · simp only [hx, Bool.false_eq_true, if_false]; exact ih _ _ _
      by_cases hlt : e.key < n.ent.key
      · simp only [hlt, if_true]; exact go _ _ _
      · simp only [hlt, if_false]; exact go _ _ _

theorem kInsertT_erase (a : Arena V) (e : Ent V) (time : Int) :
    (a.kInsertT e time).map (·.1) = a.kInsert e time := by
  simp only [Arena.kInsertT, Arena.kInsert, Option.bind_eq_bind]
  rw [← expireViaT_erase time _ a .root [⟨.exp, e, a⟩]]
  cases Arena.expireViaT time (a.nodes.size + 1) a .root [⟨.exp, e, a⟩] with
  | none => rfl
  | some x =>
    simp only [Option.bind_some, Option.map_some]
    by_cases hx : (x.1 == EMPTY) = true
    · simp only [hx, if_true, Option.map_map]
      cases x.2.1.insertRoot e <;> rfl
    · simp only [hx, Bool.false_eq_true, if_false]; exact kInsertLoopT_erase time e _ _ _ _

theorem expireSlotAT_erase (time : Int) (i : Nat) : ∀ (fuel : Nat) (a : Arena V) (tr : List (AEv V)),
    (Arena.expireSlotAT time i fuel a tr).map (·.1) = Arena.expireSlotA time i fuel a := by
  intro fuel
  induction fuel with
  | zero => intro a tr; rfl
  | succ fuel ih =>
    intro a tr
    simp only [Arena.expireSlotAT, Arena.expireSlotA, Option.bind_eq_bind, Option.pure_def]
    cases Arena.isPartOfTree (a.nodes.size + 1) a i with
    | none => rfl
    | some part =>
      simp only [Option.bind_some]
      by_cases hp : part = true
      · simp only [hp, Bool.not_true, Bool.false_eq_true, if_false]
        cases a.node i with
        | none => rfl
        | some n =>
          simp only [Option.bind_some]
          by_cases hl : time < n.ent.exp
          · simp [hl]
          · simp only [hl, if_false]
            cases a.deleteIndex i with
            | none => rfl
            | some a1 => simp only [Option.bind_some]; exact ih a1 _
      · simp [hp]

theorem expireAllAT_erase (time : Int) : ∀ (L : List Nat) (a : Arena V) (tr : List (AEv V)),
    (Arena.expireAllAT time L a tr).map (·.1) =
      L.foldlM (fun (b : Arena V) i => Arena.expireSlotA time i (b.nodes.size + 1) b) a := by
  intro L
  induction L with
  | nil => intro a tr; rfl
  | cons i is ih =>
    intro a tr
    simp only [Arena.expireAllAT, List.foldlM_cons, Option.bind_eq_bind]
    rw [← expireSlotAT_erase time i _ a tr]
    cases Arena.expireSlotAT time i (a.nodes.size + 1) a tr with
    | none => rfl
    | some x => simp only [Option.bind_some, Option.map_some]; exact ih _ _

theorem kExportT_erase (a : Arena V) (time : Int) :
    (a.kExportT time).map (fun x => (x.1, x.2.1, x.2.2.1)) = a.kExport time := by
  simp only [Arena.kExportT, Arena.kExport, Option.bind_eq_bind, Option.pure_def]
  rw [← expireAllAT_erase time _ a []]
  cases Arena.expireAllAT time ((List.range a.nodes.size).drop 1) a [] with
  | none => rfl
  | some x =>
    simp only [Option.bind_some, Option.map_some]
    cases Arena.inorderVals (x.1.nodes.size + 1) x.1 x.1.root <;> rfl

/-! ### the traces correspond -/

/-- `expire_root` / `expire_left` / `expire_right`, with their callbacks -/
theorem expireViaT_rep (time : Int) : ∀ (m : Nat) (a : Arena V) (k : Ctx (Ent V)) (t : T (Ent V)) (pool : Pool)
    (tr : List (Ev V)) (via : Arena.Via) {k' : Ctx (Ent V)} {t' : T (Ent V)} {pool' : Pool} {tr' : List (Ev V)},
    a.nodes.size ≤ EMPTY → RepStG a ⟨plug k t, pool⟩ → WF (⟨plug k t, pool⟩ : St V) → ViaOK via k →
    expireFocus time m k t pool tr = some (k', t', pool', tr') →
    ∀ fuel, m ≤ fuel → ∀ atr, TrRep atr tr →
    ∃ a' atr', Arena.expireViaT time fuel a via atr = some (t'.rootIdx, a', atr') ∧ RepStG a' ⟨plug k' t', pool'⟩ ∧
      WF (⟨plug k' t', pool'⟩ : St V) ∧ ViaOK via k' ∧ a'.nodes.size = a.nodes.size ∧ TrRep atr' tr' := by
  intro m
  induction m with
  | zero => intro a k t pool tr via k' t' pool' tr' _ _ _ _ h; simp [expireFocus] at h
  | succ m ih =>
    intro a k t pool tr via k' t' pool' tr' hsize hrep hw hv h fuel hfuel atr hatr
    obtain ⟨fuel, rfl⟩ : ∃ f0, fuel = f0 + 1 := ⟨fuel - 1, by omega⟩
    obtain ⟨i, p, hc, hr⟩ := Rep.unplug k t hrep.rep.tree
    have hread := readVia_rep hc hv
    cases t with
    | leaf =>
      simp only [expireFocus, Option.some.injEq, Prod.mk.injEq] at h
      obtain ⟨rfl, rfl, rfl, rfl⟩ := h
      have hi : i = EMPTY := hr
      refine ⟨a, atr, ?_, hrep, hw, hv, rfl, hatr⟩
      simp [Arena.expireViaT, hread, hi, T.rootIdx]
    | node c l s e r =>
      have hr0 := hr
      obtain ⟨rfl, n, hn, _, _, hne, _, _⟩ := hr0
      have hlt := node_lt hn
      have hie : (i == EMPTY) = false := by simp; omega
      have hev : TrRep (⟨.exp, e, a⟩ :: atr) (⟨.exp, e, k, T.node c l i e r, pool⟩ :: tr) :=
        TrRep.cons rfl rfl hrep hatr
      simp only [expireFocus] at h
      by_cases hl : time < e.exp
      · simp only [hl, if_true, Option.some.injEq, Prod.mk.injEq] at h
        obtain ⟨rfl, rfl, rfl, rfl⟩ := h
        refine ⟨a, _, ?_, hrep, hw, hv, rfl, hev⟩
        have hine : i ≠ EMPTY := by omega
        simp [Arena.expireViaT, hread, hine, hn, hne, hl, T.rootIdx]
      · simp only [hl, if_false] at h
        cases hd : deleteFocus k (T.node c l i e r) with
        | none => simp [hd] at h
        | some x =>
        obtain ⟨k1, t1, freed⟩ := x
        simp only [hd] at h
        obtain ⟨k1', t1', f', hd', hw1, _⟩ := deleteFocus_full k hw
        rw [hd] at hd'
        simp only [Option.some.injEq, Prod.mk.injEq] at hd'
        obtain ⟨rfl, rfl, rfl⟩ := hd'
        have hdel : (⟨plug k (T.node c l i e r), pool⟩ : St V).deleteAt k (T.node c l i e r) =
            some ⟨plug k1 t1, pool.free freed⟩ := by simp [St.deleteAt, hd]
        obtain ⟨a1, h1, hrep1, hs1, _⟩ := deleteAt_repG hrep hw hsize rfl hc hr hdel
        obtain ⟨a', atr', h2, hrep2, hw2, hv2, hs2, htr2⟩ := ih a1 k1 t1 _ _ via (by rw [hs1]; exact hsize) hrep1 hw1
          (hv.of_head (deleteFocus_head hd)) h fuel (by omega) _ hev
        refine ⟨a', atr', ?_, hrep2, hw2, hv2, by rw [hs2, hs1], htr2⟩
        simp only [Arena.expireViaT, hread, Option.bind_eq_bind, Option.bind_some, hie, Bool.false_eq_true, if_false, hn, hne,
          hl, h1]
        exact h2

/-- the three searches, with their callbacks -/
theorem kSearchT_rep (mode : Mode) (time : Int) (f : Int → Ordering) : ∀ (m : Nat) (a : Arena V) (k : Ctx (Ent V))
    (t : T (Ent V)) (pool : Pool) (res : Option V) (tr : List (Ev V)) {T' : T (Ent V)} {pool' : Pool}
    {r : Option V} {tr' : List (Ev V)},
    a.nodes.size ≤ EMPTY → RepStG a ⟨plug k t, pool⟩ → WF (⟨plug k t, pool⟩ : St V) →
    search mode time f m k t pool res tr = some (T', pool', r, tr') →
    ∀ fuel, m ≤ fuel → ∀ atr, TrRep atr tr →
    ∃ a' atr', Arena.kSearchT mode time f fuel a t.rootIdx res atr = some (a', r, atr') ∧ TrRep atr' tr' := by
  intro m
  induction m with
  | zero => intro a k t pool res tr T' pool' r tr' _ _ _ h; simp [search] at h
  | succ m ih =>
    intro a k t pool res tr T' pool' r tr' hsize hrep hw h fuel hfuel atr hatr
    obtain ⟨fuel, rfl⟩ : ∃ f0, fuel = f0 + 1 := ⟨fuel - 1, by omega⟩
    cases t with
    | leaf =>
      simp only [search, Option.some.injEq, Prod.mk.injEq] at h
      obtain ⟨_, _, rfl, rfl⟩ := h
      exact ⟨a, atr, by simp [Arena.kSearchT, T.rootIdx], hatr⟩
    | node c l s e r0 =>
      obtain ⟨i, p, hc, hr⟩ := Rep.unplug k _ hrep.rep.tree
      have hr' := hr
      obtain ⟨rfl, n, hn, _, _, hne, _, _⟩ := hr'
      have hlt := node_lt hn
      have hie : (i == EMPTY) = false := by simp; omega
      have hsz : (plug k (T.node c l i e r0)).size ≤ a.nodes.size := hrep.rep.size_le hw.slots
      have hsz2 := size_plug' k (T.node c l i e r0)
      simp only [T.size_node] at hsz2
      have hev : TrRep (⟨.cmp, e, a⟩ :: atr) (⟨.cmp, e, k, T.node c l i e r0, pool⟩ :: tr) :=
        TrRep.cons rfl rfl hrep hatr
      have go : ∀ (side : Side) (sub : T (Ent V)) (f0 : Frame (Ent V)) (via : Arena.Via) res',
          plug (f0 :: k) sub = plug k (T.node c l i e r0) → ViaOK via (f0 :: k) → sub.size < a.nodes.size + 1 →
          (match expireFocus time (sub.size + 1) (f0 :: k) sub pool (⟨.cmp, e, k, T.node c l i e r0, pool⟩ :: tr) with
            | none => none
            | some (k', t', p', tr') => search mode time f m k' t' p' res' tr') = some (T', pool', r, tr') →
          ∃ a' atr', ((Arena.expireViaT time (a.nodes.size + 1) a via (⟨.cmp, e, a⟩ :: atr)).bind fun x =>
              Arena.kSearchT mode time f fuel x.2.1 x.1 res' x.2.2) = some (a', r, atr') ∧ TrRep atr' tr' := by
        intro side sub f0 via res' hplug hv hsub hx
        cases he : expireFocus time (sub.size + 1) (f0 :: k) sub pool (⟨.cmp, e, k, T.node c l i e r0, pool⟩ :: tr) with
        | none => simp [he] at hx
        | some y =>
          obtain ⟨k1, t1, p1, tr1⟩ := y
          simp only [he] at hx
          obtain ⟨a1, atr1, h1, hrep1, hw1, _, hs1, htr1⟩ := expireViaT_rep time _ a _ sub pool _ via hsize
            (by rw [hplug]; exact hrep) (by rw [hplug]; exact hw) hv he (a.nodes.size + 1) (by omega) _ hev
          obtain ⟨a2, atr2, h2, htr2⟩ := ih a1 k1 t1 p1 res' tr1 (by rw [hs1]; exact hsize) hrep1 hw1 hx
            fuel (by omega) _ htr1
          exact ⟨a2, atr2, by simp only [h1, Option.bind_some]; exact h2, htr2⟩
      have goL := fun res' => go .L l ⟨c, i, e, r0, .L⟩ (.left i) res' (by simp [Frame.fill]) (by simp [ViaOK]) (by omega)
      have goR := fun res' => go .R r0 ⟨c, i, e, l, .R⟩ (.right i) res' (by simp [Frame.fill]) (by simp [ViaOK]) (by omega)
      simp only [search] at h
      simp only [Arena.kSearchT, T.rootIdx, hie, Bool.false_eq_true, if_false, hn, Option.bind_eq_bind, Option.bind_some, hne]
      cases hfe : f e.key with
      | eq =>
        simp only [hfe] at h ⊢
        cases mode with
        | fl => exact goL res h
        | fle =>
          simp only [Option.some.injEq, Prod.mk.injEq] at h
          obtain ⟨_, _, rfl, rfl⟩ := h
          exact ⟨a, _, rfl, hev⟩
        | get =>
          simp only [Option.some.injEq, Prod.mk.injEq] at h
          obtain ⟨_, _, rfl, rfl⟩ := h
          exact ⟨a, _, rfl, hev⟩
      | lt => simp only [hfe] at h ⊢; exact goR _ h
      | gt => simp only [hfe] at h ⊢; exact goL res h

/-- **queries of the expiring tree**: the pointer code's callbacks are the zipper model's -/
theorem kQueryT_rep {a : Arena V} {st st' : St V} (h : RepStG a st) (hw : WF st) (hsize : a.nodes.size ≤ EMPTY)
    (mode : Mode) (time : Int) (f : Int → Ordering) {r : Option V} {tr : List (Ev V)}
    (hm : st.kQuery mode time f = some (st', r, tr)) :
    ∃ a' atr, a.kQueryT mode time f = some (a', r, atr) ∧ TrRep atr tr := by
  simp only [St.kQuery] at hm
  cases he : expireFocus time (st.tree.size + 1) [] st.tree st.pool [] with
  | none => simp [he] at hm
  | some x =>
    obtain ⟨k, t, p, tr1⟩ := x
    simp only [he] at hm
    cases hs : search mode time f (t.size + 1) k t p none tr1 with
    | none => simp [hs] at hm
    | some y =>
      obtain ⟨t', p', r', tr'⟩ := y
      simp only [hs, Option.some.injEq, Prod.mk.injEq] at hm
      obtain ⟨_, rfl, rfl⟩ := hm
      have hsz := h.rep.size_le hw.slots
      obtain ⟨a1, atr1, h1, hrep1, hw1, _, hs1, htr1⟩ := expireViaT_rep time _ a [] st.tree st.pool [] .root hsize
        (by simpa using h) (by simpa using hw) rfl he (a.nodes.size + 1) (by omega) [] .nil
      have hsz1 : (plug k t).size ≤ a1.nodes.size := hrep1.rep.size_le hw1.slots
      have := size_plug' k t
      obtain ⟨a2, atr2, h2, htr2⟩ := kSearchT_rep mode time f _ a1 k t p none tr1 (by rw [hs1]; exact hsize)
        hrep1 hw1 hs (a1.nodes.size + 1) (by omega) _ htr1
      refine ⟨a2, atr2, ?_, htr2⟩
      simp only [Arena.kQueryT, h1, Option.bind_eq_bind, Option.bind_some]
      exact h2

/-- the descent of `insert_entity`: whatever the instrumented pointer code returns, its callbacks are the model's -/
theorem kInsertLoopT_rep (time : Int) (e : Ent V) : ∀ (m : Nat) (a : Arena V) (k : Ctx (Ent V)) (t : T (Ent V))
    (pool : Pool) (tr : List (Ev V)) {T' : T (Ent V)} {pool' : Pool} {tr' : List (Ev V)},
    a.nodes.size ≤ EMPTY → t ≠ .leaf → RepStG a ⟨plug k t, pool⟩ → WF (⟨plug k t, pool⟩ : St V) →
    insDescend time e m k t pool tr = some (T', pool', tr') →
    ∀ fuel, m ≤ fuel → ∀ atr, TrRep atr tr → ∀ a' atr',
    Arena.kInsertLoopT time e fuel a t.rootIdx atr = some (a', atr') → TrRep atr' tr' := by
  intro m
  induction m with
  | zero => intro a k t pool tr T' pool' tr' _ _ _ _ h; simp [insDescend] at h
  | succ m ih =>
    intro a k t pool tr T' pool' tr' hsize hnl hrep hw h fuel hfuel atr hatr a' atr' hT
    obtain ⟨fuel, rfl⟩ : ∃ f0, fuel = f0 + 1 := ⟨fuel - 1, by omega⟩
    cases t with
    | leaf => exact absurd rfl hnl
    | node c l s x r0 =>
      obtain ⟨i, p, hc, hr⟩ := Rep.unplug k _ hrep.rep.tree
      have hr' := hr
      obtain ⟨rfl, n, hn, _, _, hne, _, _⟩ := hr'
      have hsz : (plug k (T.node c l i x r0)).size ≤ a.nodes.size := hrep.rep.size_le hw.slots
      have hsz2 := size_plug' k (T.node c l i x r0)
      simp only [T.size_node] at hsz2
      have hev : TrRep (⟨.cmp, x, a⟩ :: atr) (⟨.cmp, x, k, T.node c l i x r0, pool⟩ :: tr) :=
        TrRep.cons rfl rfl hrep hatr
      have step : ∀ (sub : T (Ent V)) (f0 : Frame (Ent V)) (via : Arena.Via) (left : Bool),
          plug (f0 :: k) sub = plug k (T.node c l i x r0) → ViaOK via (f0 :: k) → sub.size < a.nodes.size + 1 →
          (match expireFocus time (sub.size + 1) (f0 :: k) sub pool (⟨.cmp, x, k, T.node c l i x r0, pool⟩ :: tr) with
            | none => none
            | some (k', t', p', tr') => insDescend time e m k' t' p' tr') = some (T', pool', tr') →
          ((Arena.expireViaT time (a.nodes.size + 1) a via (⟨.cmp, x, a⟩ :: atr)).bind fun y =>
              if y.1 == EMPTY then (y.2.1.insertAs e i left).map (·, y.2.2)
              else Arena.kInsertLoopT time e fuel y.2.1 y.1 y.2.2) = some (a', atr') → TrRep atr' tr' := by
        intro sub f0 via left hplug hv hsub hx hy
        cases he : expireFocus time (sub.size + 1) (f0 :: k) sub pool (⟨.cmp, x, k, T.node c l i x r0, pool⟩ :: tr) with
        | none => simp [he] at hx
        | some y =>
          obtain ⟨k1, t1, p1, tr1⟩ := y
          simp only [he] at hx
          obtain ⟨a1, atr1, h1, hrep1, hw1, _, hs1, htr1⟩ := expireViaT_rep time _ a _ sub pool _ via hsize
            (by rw [hplug]; exact hrep) (by rw [hplug]; exact hw) hv he (a.nodes.size + 1) (by omega) _ hev
          simp only [h1, Option.bind_some] at hy
          cases t1 with
          | leaf =>
            simp only [T.rootIdx, beq_self_eq_true, if_true, Option.map_eq_some_iff, Prod.mk.injEq] at hy
            obtain ⟨_, _, _, rfl⟩ := hy
            obtain ⟨m', rfl⟩ : ∃ m', m = m' + 1 := by
              cases m with
              | zero => simp [insDescend] at hx
              | succ m' => exact ⟨m', rfl⟩
            simp only [insDescend, Option.some.injEq, Prod.mk.injEq] at hx
            obtain ⟨_, _, rfl⟩ := hx
            exact htr1
          | node c1 l1 s1 x1 r1 =>
            have hs1lt : s1 < a1.nodes.size := by
              obtain ⟨j, q, _, hrj⟩ := Rep.unplug k1 _ hrep1.rep.tree
              exact node_lt hrj.2.choose_spec.1
            have hne1 : (s1 == EMPTY) = false := by simp; omega
            simp only [T.rootIdx, hne1, Bool.false_eq_true, if_false] at hy
            exact ih a1 k1 _ p1 tr1 (by rw [hs1]; exact hsize) (by simp) hrep1 hw1 hx fuel (by omega) _ htr1 _ _ hy
      simp only [insDescend] at h
      simp only [Arena.kInsertLoopT, T.rootIdx, hn, Option.bind_eq_bind, Option.bind_some, hne] at hT
      by_cases hlt : e.key < x.key
      · simp only [hlt, if_true] at h hT
        exact step l ⟨c, i, x, r0, .L⟩ (.left i) true (by simp [Frame.fill]) (by simp [ViaOK]) (by omega) h hT
      · simp only [hlt, if_false] at h hT
        exact step r0 ⟨c, i, x, l, .R⟩ (.right i) false (by simp [Frame.fill]) (by simp [ViaOK]) (by omega) h hT

/-- **`insert` of the expiring tree** -/
theorem kInsertT_rep {a : Arena V} {st st' : St V} (h : RepStG a st) (hw : WF st) (hsize : a.nodes.size ≤ EMPTY)
    (e : Ent V) (time : Int) {tr : List (Ev V)} (hm : st.kInsert e time = some (st', tr))
    {a' : Arena V} {atr : List (AEv V)} (hT : a.kInsertT e time = some (a', atr)) : TrRep atr tr := by
  simp only [St.kInsert] at hm
  cases he : expireFocus time (st.tree.size + 1) [] st.tree st.pool [⟨.exp, e, [], st.tree, st.pool⟩] with
  | none => simp [he] at hm
  | some x =>
    obtain ⟨k, t, p, tr1⟩ := x
    simp only [he] at hm
    cases hi : insDescend time e (t.size + 1) k t p tr1 with
    | none => simp [hi] at hm
    | some y =>
      obtain ⟨t', p', tr'⟩ := y
      simp only [hi, Option.some.injEq, Prod.mk.injEq] at hm
      obtain ⟨_, rfl⟩ := hm
      have hsz := h.rep.size_le hw.slots
      have hw0 : WF (⟨plug [] st.tree, st.pool⟩ : St V) := by simpa using hw
      have hev0 : TrRep [(⟨.exp, e, a⟩ : AEv V)] [⟨.exp, e, [], st.tree, st.pool⟩] :=
        TrRep.cons rfl rfl (by simpa [Ev.tree] using h) .nil
      obtain ⟨a1, atr1, h1, hrep1, hw1, hv1, hs1, htr1⟩ := expireViaT_rep time _ a [] st.tree st.pool _ .root hsize
        (by simpa using h) hw0 rfl he (a.nodes.size + 1) (by omega) _ hev0
      simp only [Arena.kInsertT, h1, Option.bind_eq_bind, Option.bind_some] at hT
      have hk : k = [] := by
        cases k with
        | nil => rfl
        | cons f K => simp only [ViaOK] at hv1; cases hs' : f.side <;> simp [hs'] at hv1
      subst hk
      cases t with
      | leaf =>
        simp only [T.rootIdx, beq_self_eq_true, if_true, Option.map_eq_some_iff, Prod.mk.injEq] at hT
        obtain ⟨_, _, _, rfl⟩ := hT
        simp only [insDescend, T.size, Option.some.injEq, Prod.mk.injEq] at hi
        obtain ⟨_, _, rfl⟩ := hi
        exact htr1
      | node c l s x r =>
        have hslt : s < a1.nodes.size := by
          have := hrep1.rep.tree
          simp only [plug_nil] at this
          exact node_lt this.2.choose_spec.1
        have hne : (s == EMPTY) = false := by simp; omega
        simp only [T.rootIdx, hne, Bool.false_eq_true, if_false] at hT
        have hsz1 : (plug [] (T.node c l s x r)).size ≤ a1.nodes.size := hrep1.rep.size_le hw1.slots
        simp only [plug_nil] at hsz1
        exact kInsertLoopT_rep time e _ a1 [] _ p tr1 (by rw [hs1]; exact hsize) (by simp) hrep1 hw1 hi
          (a1.nodes.size + 1) (by omega) _ htr1 _ _ hT

/-- `expire_all`, one slot, with its callbacks -/
theorem expireSlotAT_rep (time : Int) (i : Nat) : ∀ (m : Nat) (a : Arena V) (t : T (Ent V)) (pool : Pool)
    (tr : List (Ev V)) {t' : T (Ent V)} {pool' : Pool} {tr' : List (Ev V)},
    a.nodes.size ≤ EMPTY → RepStG a ⟨t, pool⟩ → WF (⟨t, pool⟩ : St V) → i < a.nodes.size → i ≠ 0 →
    expireSlot time i m t pool tr = some (t', pool', tr') →
    ∀ fuel, m ≤ fuel → ∀ atr, TrRep atr tr →
    ∃ a' atr', Arena.expireSlotAT time i fuel a atr = some (a', atr') ∧ RepStG a' ⟨t', pool'⟩ ∧ WF (⟨t', pool'⟩ : St V) ∧
      a'.nodes.size = a.nodes.size ∧ TrRep atr' tr' := by
  intro m
  induction m with
  | zero => intro a t pool tr t' pool' tr' _ _ _ _ _ h; simp [expireSlot] at h
  | succ m ih =>
    intro a t pool tr t' pool' tr' hsize hrep hw hi hi0 h fuel hfuel atr hatr
    obtain ⟨fuel, rfl⟩ : ∃ f0, fuel = f0 + 1 := ⟨fuel - 1, by omega⟩
    simp only [expireSlot] at h
    cases hf : findSlot i [] t with
    | none =>
      simp only [hf, Option.some.injEq, Prod.mk.injEq] at h
      obtain ⟨rfl, rfl, rfl⟩ := h
      have hni : i ∉ t.slots := findSlot_none i [] t hf
      have hg := hrep.garbage i hi hni hi0
      exact ⟨a, atr, by simp [Arena.expireSlotAT, hg], hrep, hw, rfl, hatr⟩
    | some x =>
      obtain ⟨k, f⟩ := x
      simp only [hf] at h
      obtain ⟨hplug, c, l, e, r, rfl⟩ := findSlot_some i [] t hf
      obtain ⟨p', hc, hr⟩ := findSlot_rep i t [] a.root EMPTY ⟨rfl, rfl⟩ hrep.rep.tree hf
      have hr0 := hr
      obtain ⟨_, n, hn, _, _, hne, _, _⟩ := hr0
      have hmem : i ∈ t.slots := by
        have := slots_plug k (T.node c l i e r)
        rw [hplug, plug_nil] at this
        exact this.mem_iff.mpr (by simp)
      have hpart := isPartOfTree_mem hrep.rep hw.slots hsize hmem
      have hev : TrRep (⟨.exp, e, a⟩ :: atr) (⟨.exp, e, k, T.node c l i e r, pool⟩ :: tr) :=
        TrRep.cons rfl rfl (by simpa [Ev.tree, hplug] using hrep) hatr
      simp only at h
      by_cases hl : time < e.exp
      · simp only [hl, if_true, Option.some.injEq, Prod.mk.injEq] at h
        obtain ⟨rfl, rfl, rfl⟩ := h
        exact ⟨a, _, by simp [Arena.expireSlotAT, hpart, hn, hne, hl], hrep, hw, rfl, hev⟩
      · simp only [hl, if_false] at h
        cases hd : deleteFocus k (T.node c l i e r) with
        | none => simp [hd] at h
        | some y =>
          obtain ⟨k1, t1, freed⟩ := y
          simp only [hd] at h
          have hplug' : plug k (T.node c l i e r) = (⟨t, pool⟩ : St V).tree := by simpa using hplug
          have hdel : (⟨t, pool⟩ : St V).deleteAt k (T.node c l i e r) = some ⟨plug k1 t1, pool.free freed⟩ := by
            simp [St.deleteAt, hd]
          obtain ⟨st2, hdel2, hw2, _⟩ := St.deleteAt_spec (⟨t, pool⟩ : St V) k hw hplug'
          rw [hdel] at hdel2; cases hdel2
          obtain ⟨a1, h1, hrep1, hs1, _⟩ := deleteAt_repG hrep hw hsize hplug' hc hr hdel
          obtain ⟨a', atr', h2, hrep2, hw2', hs2, htr2⟩ := ih a1 _ _ _ (by rw [hs1]; exact hsize) hrep1 hw2
            (by rw [hs1]; exact hi) hi0 h fuel (by omega) _ hev
          refine ⟨a', atr', ?_, hrep2, hw2', by rw [hs2, hs1], htr2⟩
          simp only [Arena.expireSlotAT, hpart, Option.bind_eq_bind, Option.bind_some, Bool.not_true, Bool.false_eq_true,
            if_false, hn, hne, hl, h1]
          exact h2

theorem expireAllAT_rep (time : Int) : ∀ (L : List Nat) (a : Arena V) (t : T (Ent V)) (pool : Pool) (tr : List (Ev V))
    {t' : T (Ent V)} {pool' : Pool} {tr' : List (Ev V)},
    a.nodes.size ≤ EMPTY → RepStG a ⟨t, pool⟩ → WF (⟨t, pool⟩ : St V) → (∀ i ∈ L, i < a.nodes.size ∧ i ≠ 0) →
    expireAll time L t pool tr = some (t', pool', tr') → ∀ atr, TrRep atr tr →
    ∃ a' atr', Arena.expireAllAT time L a atr = some (a', atr') ∧ TrRep atr' tr' := by
  intro L
  induction L with
  | nil =>
    intro a t pool tr t' pool' tr' _ hrep hw _ h atr hatr
    simp only [expireAll, Option.some.injEq, Prod.mk.injEq] at h
    obtain ⟨_, _, rfl⟩ := h
    exact ⟨a, atr, rfl, hatr⟩
  | cons i is ih =>
    intro a t pool tr t' pool' tr' hsize hrep hw hL h atr hatr
    simp only [expireAll] at h
    cases he : expireSlot time i (t.size + 1) t pool tr with
    | none => simp [he] at h
    | some x =>
      obtain ⟨t1, p1, tr1⟩ := x
      simp only [he] at h
      have hsz : t.size ≤ a.nodes.size := hrep.rep.size_le hw.slots
      obtain ⟨hi, hi0⟩ := hL i (by simp)
      obtain ⟨a1, atr1, h1, hrep1, hw1, hs1, htr1⟩ := expireSlotAT_rep time i _ a t pool tr hsize hrep hw hi hi0 he
        (a.nodes.size + 1) (by omega) _ hatr
      obtain ⟨a', atr', h2, htr2⟩ := ih a1 t1 p1 tr1 (by rw [hs1]; exact hsize) hrep1 hw1
        (fun j hj => by rw [hs1]; exact hL j (by simp [hj])) h _ htr1
      refine ⟨a', atr', ?_, htr2⟩
      simp only [Arena.expireAllAT, h1, Option.bind_eq_bind, Option.bind_some]
      exact h2

/-- **the export**: whatever the instrumented pointer code returns, its callbacks are the model's -/
theorem kExportT_rep {a : Arena V} {st st' : St V} (h : RepStG a st) (hw : WF st) (hsize : a.nodes.size ≤ EMPTY)
    (time : Int) {vals : List V} {capReq : Nat} {tr : List (Ev V)}
    (hm : st.kExport time = some (st', vals, capReq, tr))
    {a' : Arena V} {vals' : List V} {cap' : Nat} {atr : List (AEv V)}
    (hT : a.kExportT time = some (a', vals', cap', atr)) : TrRep atr tr := by
  simp only [St.kExport] at hm
  cases he : expireAll time ((List.range st.pool.bufLen).drop 1) st.tree st.pool [] with
  | none => rw [he] at hm; simp at hm
  | some x =>
    obtain ⟨t, p, tr1⟩ := x
    simp only [he, Option.some.injEq, Prod.mk.injEq] at hm
    obtain ⟨_, _, _, rfl⟩ := hm
    have hbl : st.pool.bufLen = a.nodes.size := by rw [h.rep.pool]; rfl
    obtain ⟨a1, atr1, h1, htr1⟩ := expireAllAT_rep time _ a st.tree st.pool [] hsize (by simpa using h)
      (by simpa using hw) (by
        intro i hi
        rw [hbl] at hi
        have := List.mem_of_mem_drop hi
        have hlt := List.mem_range.mp this
        refine ⟨hlt, ?_⟩
        intro h0; subst h0
        have : (List.range a.nodes.size).drop 1 = List.range' 1 (a.nodes.size - 1) := by
          rw [List.range_eq_range', List.drop_range']
        rw [this] at hi
        simp at hi) he [] .nil
    rw [hbl] at h1
    simp only [Arena.kExportT, h1, Option.bind_eq_bind, Option.bind_some, Option.pure_def] at hT
    cases hv : Arena.inorderVals (a1.nodes.size + 1) a1 a1.root with
    | none => simp [hv] at hT
    | some v =>
      simp only [hv, Option.bind_some, Option.some.injEq, Prod.mk.injEq] at hT
      obtain ⟨_, _, _, rfl⟩ := hT
      exact htr1


/-! ### map / set: every callback of `insert` and `delete` sees the untouched arena -/

theorem insertLoopT_erase : ∀ (fuel : Nat) (a : Arena V) (e : Ent V) (i : Nat) (tr : List (AEv V)),
    (Arena.insertLoopT fuel a e i tr).map (·.1) = Arena.insertLoop fuel a e i := by
  intro fuel
  induction fuel with
  | zero => intro a e i tr; rfl
  | succ fuel ih =>
    intro a e i tr
    simp only [Arena.insertLoopT, Arena.insertLoop, Option.bind_eq_bind]
    cases a.node i with
    | none => rfl
    | some n =>
      simp only [Option.bind_some]
      by_cases hlt : e.key < n.ent.key
      · simp only [hlt, if_true]
        by_cases hl : (n.left == EMPTY) = true
        · simp only [hl, if_true, Option.map_map]; cases a.insertAs e i true <;> rfl
        · simp only [hl, Bool.false_eq_true, if_false]; exact ih _ _ _ _
      · simp only [hlt, if_false]
        by_cases hr : (n.right == EMPTY) = true
        · simp only [hr, if_true, Option.map_map]; cases a.insertAs e i false <;> rfl
        · simp only [hr, Bool.false_eq_true, if_false]; exact ih _ _ _ _

theorem insertT_erase (a : Arena V) (e : Ent V) : (a.insertT e).map (·.1) = a.insert e := by
  simp only [Arena.insertT, Arena.insert]
  by_cases h : (a.root == EMPTY) = true
  · simp only [h, if_true, Option.map_map]; cases a.insertRoot e <;> rfl
  · simp only [h, Bool.false_eq_true, if_false]; exact insertLoopT_erase _ _ _ _ _

theorem findIndexT_erase : ∀ (fuel : Nat) (a : Arena V) (key : Int) (i : Nat) (tr : List (AEv V)),
    (Arena.findIndexT fuel a key i tr).map (·.1) = Arena.findIndex fuel a key i := by
  intro fuel
  induction fuel with
  | zero => intro a key i tr; rfl
  | succ fuel ih =>
    intro a key i tr
    simp only [Arena.findIndexT, Arena.findIndex]
    by_cases hi : (i == EMPTY) = true
    · simp [hi]
    · simp only [hi, Bool.false_eq_true, if_false, Option.bind_eq_bind]
      cases a.node i with
      | none => rfl
      | some n =>
        simp only [Option.bind_some]
        by_cases h1 : key < n.ent.key
        · simp only [h1, if_true]; exact ih _ _ _ _
        · simp only [h1, if_false]
          by_cases h2 : n.ent.key < key
          · simp only [h2, if_true]; exact ih _ _ _ _
          · simp [h2]

theorem deleteT_erase (a : Arena V) (key : Int) : (a.deleteT key).map (·.1) = a.delete key := by
  simp only [Arena.deleteT, Arena.delete, Option.bind_eq_bind]
  rw [← findIndexT_erase _ a key a.root []]
  cases Arena.findIndexT (a.nodes.size + 1) a key a.root [] with
  | none => rfl
  | some x =>
    simp only [Option.bind_some, Option.map_some]
    by_cases h : (x.1 != EMPTY) = true
    · simp only [h, if_true, Option.map_map]; cases a.deleteIndex x.1 <;> rfl
    · simp [h]

theorem insertLoopT_pre : ∀ (fuel : Nat) (a : Arena V) (e : Ent V) (i : Nat) (tr : List (AEv V))
    {a' : Arena V} {tr' : List (AEv V)}, Arena.insertLoopT fuel a e i tr = some (a', tr') →
    (∀ ae ∈ tr, ae.arena = a ∧ ae.kind = .cmp) → ∀ ae ∈ tr', ae.arena = a ∧ ae.kind = .cmp := by
  intro fuel
  induction fuel with
  | zero => intro a e i tr a' tr' h; simp [Arena.insertLoopT] at h
  | succ fuel ih =>
    intro a e i tr a' tr' h htr
    simp only [Arena.insertLoopT, Option.bind_eq_bind] at h
    cases hn : a.node i with
    | none => simp [hn] at h
    | some n =>
      simp only [hn, Option.bind_some] at h
      have htr1 : ∀ ae ∈ (⟨.cmp, n.ent, a⟩ :: tr : List (AEv V)), ae.arena = a ∧ ae.kind = .cmp := by
        intro ae hae
        rcases List.mem_cons.mp hae with rfl | hae
        · exact ⟨rfl, rfl⟩
        · exact htr ae hae
      by_cases hlt : e.key < n.ent.key
      · simp only [hlt, if_true] at h
        by_cases hl : (n.left == EMPTY) = true
        · simp only [hl, if_true, Option.map_eq_some_iff, Prod.mk.injEq] at h
          obtain ⟨_, _, _, rfl⟩ := h; exact htr1
        · simp only [hl, Bool.false_eq_true, if_false] at h; exact ih _ _ _ _ h htr1
      · simp only [hlt, if_false] at h
        by_cases hr : (n.right == EMPTY) = true
        · simp only [hr, if_true, Option.map_eq_some_iff, Prod.mk.injEq] at h
          obtain ⟨_, _, _, rfl⟩ := h; exact htr1
        · simp only [hr, Bool.false_eq_true, if_false] at h; exact ih _ _ _ _ h htr1

theorem findIndexT_pre : ∀ (fuel : Nat) (a : Arena V) (key : Int) (i : Nat) (tr : List (AEv V))
    {j : Nat} {tr' : List (AEv V)}, Arena.findIndexT fuel a key i tr = some (j, tr') →
    (∀ ae ∈ tr, ae.arena = a ∧ ae.kind = .cmp) → ∀ ae ∈ tr', ae.arena = a ∧ ae.kind = .cmp := by
  intro fuel
  induction fuel with
  | zero => intro a key i tr j tr' h; simp [Arena.findIndexT] at h
  | succ fuel ih =>
    intro a key i tr j tr' h htr
    simp only [Arena.findIndexT] at h
    by_cases hi : (i == EMPTY) = true
    · simp only [hi, if_true, Option.some.injEq, Prod.mk.injEq] at h
      obtain ⟨_, rfl⟩ := h; exact htr
    · simp only [hi, Bool.false_eq_true, if_false, Option.bind_eq_bind] at h
      cases hn : a.node i with
      | none => simp [hn] at h
      | some n =>
        simp only [hn, Option.bind_some] at h
        have htr1 : ∀ ae ∈ (⟨.cmp, n.ent, a⟩ :: tr : List (AEv V)), ae.arena = a ∧ ae.kind = .cmp := by
          intro ae hae
          rcases List.mem_cons.mp hae with rfl | hae
          · exact ⟨rfl, rfl⟩
          · exact htr ae hae
        by_cases h1 : key < n.ent.key
        · simp only [h1, if_true] at h; exact ih _ _ _ _ h htr1
        · simp only [h1, if_false] at h
          by_cases h2 : n.ent.key < key
          · simp only [h2, if_true] at h; exact ih _ _ _ _ h htr1
          · simp only [h2, if_false, Option.some.injEq, Prod.mk.injEq] at h
            obtain ⟨_, rfl⟩ := h; exact htr1

end ITree
