import ITree.Lemmas.ArenaClear
/-!
# `expire_all`, the in-order walk and `create_ordered_list` of the expiring tree (arena level)
-/
namespace ITree
variable {V : Type}

/-- `expire_all`, one slot -/
theorem expireSlotA_rep (time : Int) (i : Nat) : ∀ (m : Nat) (a : Arena V) (t : T (Ent V)) (pool : Pool)
    (tr : List (Ev V)) {t' : T (Ent V)} {pool' : Pool} {tr' : List (Ev V)},
    a.nodes.size ≤ EMPTY → RepStG a ⟨t, pool⟩ → WF (⟨t, pool⟩ : St V) → i < a.nodes.size → i ≠ 0 →
    expireSlot time i m t pool tr = some (t', pool', tr') →
    ∀ fuel, m ≤ fuel →
    ∃ a', Arena.expireSlotA time i fuel a = some a' ∧ RepStG a' ⟨t', pool'⟩ ∧ WF (⟨t', pool'⟩ : St V) ∧
      a'.nodes.size = a.nodes.size ∧ a'.dflt = a.dflt := by
  intro m
  induction m with
  | zero => intro a t pool tr t' pool' tr' _ _ _ _ _ h; simp [expireSlot] at h
  | succ m ih =>
    intro a t pool tr t' pool' tr' hsize hrep hw hi hi0 h fuel hfuel
    obtain ⟨fuel, rfl⟩ : ∃ f0, fuel = f0 + 1 := ⟨fuel - 1, by omega⟩
    simp only [expireSlot] at h
    cases hf : findSlot i [] t with
    | none =>
      simp only [hf, Option.some.injEq, Prod.mk.injEq] at h
      obtain ⟨rfl, rfl, _⟩ := h
      have hni : i ∉ t.slots := findSlot_none i [] t hf
      have hg := hrep.garbage i hi hni hi0
      exact ⟨a, by simp [Arena.expireSlotA, hg], hrep, hw, rfl, rfl⟩
    | some x =>
      obtain ⟨k, f⟩ := x
      simp only [hf] at h
      obtain ⟨hplug, c, l, e, r, rfl⟩ := findSlot_some i [] t hf
      obtain ⟨p', hc, hr⟩ := findSlot_rep i t [] a.root EMPTY ⟨rfl, rfl⟩ hrep.rep.tree hf
      have hr0 := hr
      obtain ⟨_, n, hn, _, _, hne, _, _⟩ := hr0
      have hmem : i ∈ t.slots := by
        have := slots_plug k (T.node c l i e r)
        rw [hplug, plug_nil] at this
        exact this.mem_iff.mpr (by simp)
      have hpart := isPartOfTree_mem hrep.rep hw.slots hsize hmem
      simp only at h
      by_cases hl : time < e.exp
      · simp only [hl, if_true, Option.some.injEq, Prod.mk.injEq] at h
        obtain ⟨rfl, rfl, _⟩ := h
        exact ⟨a, by simp [Arena.expireSlotA, hpart, hn, hne, hl], hrep, hw, rfl, rfl⟩
      · simp only [hl, if_false] at h
        cases hd : deleteFocus k (T.node c l i e r) with
        | none => simp [hd] at h
        | some y =>
          obtain ⟨k1, t1, freed⟩ := y
          simp only [hd] at h
          have hplug' : plug k (T.node c l i e r) = (⟨t, pool⟩ : St V).tree := by simpa using hplug
          have hdel : (⟨t, pool⟩ : St V).deleteAt k (T.node c l i e r) = some ⟨plug k1 t1, pool.free freed⟩ := by
            simp [St.deleteAt, hd]
          obtain ⟨st2, hdel2, hw2, _⟩ := St.deleteAt_spec (⟨t, pool⟩ : St V) k hw hplug'
          rw [hdel] at hdel2; cases hdel2
          obtain ⟨a1, h1, hrep1, hs1, hd1⟩ := deleteAt_repG hrep hw hsize hplug' hc hr hdel
          obtain ⟨a', h2, hrep2, hw2', hs2, hd2⟩ := ih a1 _ _ _ (by rw [hs1]; exact hsize) hrep1 hw2 (by rw [hs1]; exact hi)
            hi0 h fuel (by omega)
          refine ⟨a', ?_, hrep2, hw2', by rw [hs2, hs1], by rw [hd2, hd1]⟩
          simp only [Arena.expireSlotA, hpart, Option.bind_eq_bind, Option.bind_some, Bool.not_true, Bool.false_eq_true,
            if_false, hn, hne, hl, h1]
          exact h2

end ITree

namespace ITree
variable {V : Type}

theorem expireAllA_rep (time : Int) : ∀ (L : List Nat) (a : Arena V) (t : T (Ent V)) (pool : Pool) (tr : List (Ev V))
    {t' : T (Ent V)} {pool' : Pool} {tr' : List (Ev V)},
    a.nodes.size ≤ EMPTY → RepStG a ⟨t, pool⟩ → WF (⟨t, pool⟩ : St V) → (∀ i ∈ L, i < a.nodes.size ∧ i ≠ 0) →
    expireAll time L t pool tr = some (t', pool', tr') →
    ∃ a', L.foldlM (fun (b : Arena V) i => Arena.expireSlotA time i (b.nodes.size + 1) b) a = some a' ∧
      RepStG a' ⟨t', pool'⟩ ∧ WF (⟨t', pool'⟩ : St V) ∧ a'.nodes.size = a.nodes.size ∧ a'.dflt = a.dflt := by
  intro L
  induction L with
  | nil =>
    intro a t pool tr t' pool' tr' _ hrep hw _ h
    simp only [expireAll, Option.some.injEq, Prod.mk.injEq] at h
    obtain ⟨rfl, rfl, _⟩ := h
    exact ⟨a, rfl, hrep, hw, rfl, rfl⟩
  | cons i is ih =>
    intro a t pool tr t' pool' tr' hsize hrep hw hL h
    simp only [expireAll] at h
    cases he : expireSlot time i (t.size + 1) t pool tr with
    | none => simp [he] at h
    | some x =>
      obtain ⟨t1, p1, tr1⟩ := x
      simp only [he] at h
      have hsz : t.size ≤ a.nodes.size := hrep.rep.size_le hw.slots
      obtain ⟨hi, hi0⟩ := hL i (by simp)
      obtain ⟨a1, h1, hrep1, hw1, hs1, hd1⟩ := expireSlotA_rep time i _ a t pool tr hsize hrep hw hi hi0 he
        (a.nodes.size + 1) (by omega)
      obtain ⟨a', h2, hrep2, hw2, hs2, hd2⟩ := ih a1 t1 p1 tr1 (by rw [hs1]; exact hsize) hrep1 hw1
        (fun j hj => by rw [hs1]; exact hL j (by simp [hj])) h
      refine ⟨a', ?_, hrep2, hw2, by rw [hs2, hs1], by rw [hd2, hd1]⟩
      simp only [List.foldlM_cons, h1, Option.bind_eq_bind, Option.bind_some]
      exact h2

/-- the in-order walk of the export -/
theorem inorderVals_rep {a : Arena V} (hsize : a.nodes.size ≤ EMPTY) : ∀ (fuel : Nat) (t : T (Ent V)) (i p : Nat),
    Rep a i p t → t.height < fuel → Arena.inorderVals fuel a i = some (t.toList.map (·.2.val)) := by
  intro fuel
  induction fuel with
  | zero => intro t i p _ h; omega
  | succ fuel ih =>
    intro t i p hr hf
    cases t with
    | leaf =>
      have : i = EMPTY := hr
      simp [Arena.inorderVals, this, T.toList]
    | node c l s e r =>
      obtain ⟨rfl, n, hn, _, _, hne, hl, hrr⟩ := hr
      have := node_lt hn
      have hie : (i == EMPTY) = false := by simp; omega
      simp only [T.height] at hf
      simp only [Arena.inorderVals, hie, Bool.false_eq_true, if_false, hn, Option.bind_eq_bind, Option.bind_some,
        ih l _ _ hl (by omega), ih r _ _ hrr (by omega), Option.pure_def, hne, T.toList, List.map_append, List.map_cons]

/-- **`create_ordered_list(time)`** (the body of `into_ordered_vec`): the sweep over all arena slots with the
walk over stale parent links, the in-order traversal and the requested capacity -/
theorem kExport_rep {a : Arena V} {st st' : St V} (h : RepStG a st) (hw : WF st) (hsize : a.nodes.size ≤ EMPTY)
    (time : Int) {vals : List V} {capReq : Nat} {tr : List (Ev V)}
    (hm : st.kExport time = some (st', vals, capReq, tr)) :
    ∃ a', a.kExport time = some (a', vals, capReq) ∧ RepStG a' st' ∧ WF st' := by
  simp only [St.kExport] at hm
  cases he : expireAll time ((List.range st.pool.bufLen).drop 1) st.tree st.pool [] with
  | none => rw [he] at hm; simp at hm
  | some x =>
    obtain ⟨t, p, tr1⟩ := x
    simp only [he, Option.some.injEq, Prod.mk.injEq] at hm
    obtain ⟨rfl, rfl, rfl, _⟩ := hm
    have hbl : st.pool.bufLen = a.nodes.size := by rw [h.rep.pool]; rfl
    obtain ⟨a1, h1, hrep1, hw1, hs1, _⟩ := expireAllA_rep time _ a st.tree st.pool [] hsize (by simpa using h)
      (by simpa using hw) (by
        intro i hi
        rw [hbl] at hi
        have := List.mem_of_mem_drop hi
        have hlt := List.mem_range.mp this
        refine ⟨hlt, ?_⟩
        intro h0; subst h0
        have : (List.range a.nodes.size).drop 1 = List.range' 1 (a.nodes.size - 1) := by
          rw [List.range_eq_range', List.drop_range']
        rw [this] at hi
        simp at hi) he
    have hvals := inorderVals_rep (a := a1) (by rw [hs1]; exact hsize) (a1.nodes.size + 1) t a1.root EMPTY hrep1.rep.tree
      (by
        have h1' := T.height_le_slots t
        obtain ⟨_, _, hnd, hlt, _⟩ := SlotsOK.arena hrep1.rep hw1.slots
        have h2' : t.slots.length ≤ a1.nodes.size := nodup_lt_length _ _ hnd hlt
        omega)
    refine ⟨a1, ?_, hrep1, hw1⟩
    have hp : p = poolOf a1 := hrep1.rep.pool
    simp only [Arena.kExport, hbl.symm ▸ h1, Option.bind_eq_bind, Option.bind_some, hvals, Option.pure_def]
    simp [hp, poolOf]

end ITree

namespace ITree
variable {V : Type}

/-- **`clear`** keeps the garbage invariant: no node is written, the root is reset, so every walk that used to
reach the old root now answers `false` -/
theorem clear_repG {a : Arena V} {st : St V} (h : RepStG a st) (hw : WF st) (hsize : a.nodes.size ≤ EMPTY) :
    ∃ a', a.clear = some a' ∧ RepStG a' st.clear ∧ a'.nodes = a.nodes ∧ a'.dflt = a.dflt := by
  obtain ⟨a', h1, h2, h3, h4⟩ := clear_rep h.rep hw.slots hsize
  have hroot : a'.root = EMPTY := by
    have : Rep a' a'.root EMPTY (.leaf : T (Ent V)) := by simpa [St.clear] using h2.tree
    exact this
  have hnode : ∀ x, a'.node x = a.node x := fun x => by simp [Arena.node, h3]
  refine ⟨a', h1, ⟨h2, ?_, ?_⟩, h3, h4⟩
  · intro j hjlt _ hj0
    have hsz : a'.nodes.size = a.nodes.size := by rw [h3]
    rw [hsz] at hjlt ⊢
    by_cases hm : j ∈ st.tree.slots
    · exact isPartOfTree_no_root h3 hroot hsize _ _ _ (isPartOfTree_mem h.rep hw.slots hsize hm)
    · exact isPartOfTree_no_root h3 hroot hsize _ _ _ (h.garbage j hjlt hm hj0)
  · intro n hn
    rw [hnode] at hn
    exact h.zero n hn

/-- a new arena: every slot but the scratch slot is fresh, hence recognisably outside the tree -/
theorem new_repG (c : Nat) (d : Ent V) (hc : max c 8 ≤ EMPTY) : RepStG (Arena.new c d) ⟨.leaf, Pool.new c⟩ := by
  obtain ⟨m, hm⟩ : ∃ m, max c 8 = m + 1 := ⟨max c 8 - 1, by omega⟩
  have hrep : RepSt (Arena.new c d) ⟨.leaf, Pool.new c⟩ := by
    refine ⟨rfl, ?_⟩
    simp only [Pool.new, poolOf, Arena.new, Arena.reserve, hm, Pool.mk.injEq]
    refine ⟨by simp, ?_, trivial⟩
    have := (arr_grow 0 m).2
    simpa using this.symm
  have hsz : (Arena.new c d).nodes.size = max c 8 := by simp [Arena.new, Arena.reserve]
  have hnode : ∀ j, j < max c 8 → (Arena.new c d).node j = some ⟨0, 0, 0, true, d⟩ := by
    intro j hj
    simp [Arena.node, Arena.new, Arena.reserve, hj]
  have hz : ZeroOK (Arena.new c d) := by
    intro n hn
    rw [hnode 0 (by omega)] at hn
    cases hn
    exact ⟨Or.inl rfl, Or.inl rfl⟩
  have hl := hrep.linksOK hz
  refine ⟨hrep, ?_, hz⟩
  intro j hjlt hj hj0
  rw [hsz] at hjlt
  exact walk_reject hl (by rw [hsz]; exact hc) hj hj0 (by rw [hsz]; exact hjlt) (hnode j hjlt)
    (Or.inr ⟨Or.inr rfl, by rw [hsz]; show 0 < max c 8; omega⟩) _

end ITree
