import ITree.Lemmas.ArenaPool
import ITree.Lemmas.ArenaRead
import ITree.Lemmas.MapOps
/-!
# Arena-level operations against the operations of the zipper model (state level)
-/
namespace ITree
variable {V : Type}

theorem RepSt.height_lt {a : Arena V} {st : St V} (h : RepSt a st) (hs : SlotsOK st.tree st.pool) :
    st.tree.height < a.nodes.size + 1 := by
  obtain ⟨_, _, hnd, hlt, _⟩ := SlotsOK.arena h hs
  have h1 := T.height_le_slots st.tree
  have h2 := nodup_lt_length _ _ hnd hlt
  omega

/-- `first_index_less_by` of the arena is the model's -/
theorem firstIndexLessBy_rep {a : Arena V} {st : St V} (h : RepSt a st) (hs : SlotsOK st.tree st.pool)
    (hsize : a.nodes.size ≤ EMPTY) (f : Int → Ordering) :
    Arena.firstLessBy (a.nodes.size + 1) a f a.root EMPTY = some (optIdx (st.firstIndexLessBy f)) :=
  firstLessBy_rep hsize f _ _ _ _ none h.tree (h.height_lt hs)

/-- `find_index` (the lookup of `delete` / `get_value`) -/
theorem findIndex_rep_st {a : Arena V} {st : St V} (h : RepSt a st) (hs : SlotsOK st.tree st.pool)
    (hsize : a.nodes.size ≤ EMPTY) (key : Int) :
    Arena.findIndex (a.nodes.size + 1) a key a.root = some (match findKey key [] st.tree with
      | some (_, t') => t'.rootIdx
      | none => EMPTY) :=
  findIndex_rep hsize key _ _ [] _ _ h.tree (h.height_lt hs)

/-- `index_after` -/
theorem indexAfter_rep {a : Arena V} {st : St V} (h : RepSt a st) (hs : SlotsOK st.tree st.pool)
    (hsize : a.nodes.size ≤ EMPTY) (slot : Nat) {r : Option Nat} (hm : st.indexAfter slot = some r) :
    a.indexAfter slot = some (optIdx r) := by
  obtain ⟨_, _, hnd, hlt, _⟩ := SlotsOK.arena h hs
  simp only [St.indexAfter] at hm
  cases hf : findSlot slot [] st.tree with
  | none => simp [hf] at hm
  | some x =>
    obtain ⟨k, t⟩ := x
    simp only [hf] at hm
    obtain ⟨hplug, c, l, e, rr, rfl⟩ := findSlot_some slot [] st.tree hf
    obtain ⟨p', hc, hr⟩ := findSlot_rep slot st.tree [] a.root EMPTY ⟨rfl, rfl⟩ h.tree hf
    have hperm := slots_plug k (T.node c l slot e rr)
    rw [hplug, plug_nil] at hperm
    have hnd' : ((T.node c l slot e rr).slots ++ ctxSlots k).Nodup := hperm.nodup_iff.mp hnd
    have hr0 := hr
    obtain ⟨_, n, hn, hnp, _, _, _, hrr⟩ := hr0
    have hslt := node_lt hn
    simp only [Arena.indexAfter, hn, Option.bind_eq_bind, Option.bind_some]
    cases rr with
    | leaf =>
      simp only at hm
      cases hm
      have : n.right = EMPTY := hrr
      simp only [this, bne_self_eq_false, Bool.false_eq_true, if_false]
      refine climbAfter_rep hsize _ k slot n.parent (hnp ▸ hc) hslt (by slots_tac hnd') ?_
      have := ctxSlots_length k
      have h2 := nodup_lt_length _ _ (List.nodup_append.mp hnd').2.1 hc.slots_lt
      omega
    | node cr lr sr er rrr =>
      simp only at hm
      cases hm
      have hrr0 := hrr
      obtain ⟨hri, nr, hnr, _⟩ := hrr0
      have := node_lt hnr
      have hne : (n.right != EMPTY) = true := by rw [hri]; simp; omega
      simp only [hne, if_true]
      refine findLeftMinimum_rep hsize _ _ _ _ hrr (by simp) ?_
      have h1 := T.height_le_slots (T.node cr lr sr er rrr)
      have h2 := nodup_lt_length _ _ (show (T.node cr lr sr er rrr).slots.Nodup by slots_tac hnd') hrr.slots_lt
      omega

/-- `index_before` -/
theorem indexBefore_rep {a : Arena V} {st : St V} (h : RepSt a st) (hs : SlotsOK st.tree st.pool)
    (hsize : a.nodes.size ≤ EMPTY) (slot : Nat) {r : Option Nat} (hm : st.indexBefore slot = some r) :
    a.indexBefore slot = some (optIdx r) := by
  obtain ⟨_, _, hnd, hlt, _⟩ := SlotsOK.arena h hs
  simp only [St.indexBefore] at hm
  cases hf : findSlot slot [] st.tree with
  | none => simp [hf] at hm
  | some x =>
    obtain ⟨k, t⟩ := x
    simp only [hf] at hm
    obtain ⟨hplug, c, l, e, rr, rfl⟩ := findSlot_some slot [] st.tree hf
    obtain ⟨p', hc, hr⟩ := findSlot_rep slot st.tree [] a.root EMPTY ⟨rfl, rfl⟩ h.tree hf
    have hperm := slots_plug k (T.node c l slot e rr)
    rw [hplug, plug_nil] at hperm
    have hnd' : ((T.node c l slot e rr).slots ++ ctxSlots k).Nodup := hperm.nodup_iff.mp hnd
    have hr0 := hr
    obtain ⟨_, n, hn, hnp, _, _, hll, _⟩ := hr0
    have hslt := node_lt hn
    simp only [Arena.indexBefore, hn, Option.bind_eq_bind, Option.bind_some]
    cases l with
    | leaf =>
      simp only at hm
      cases hm
      have : n.left = EMPTY := hll
      simp only [this, bne_self_eq_false, Bool.false_eq_true, if_false]
      refine climbBefore_rep hsize _ k slot n.parent (hnp ▸ hc) hslt (by slots_tac hnd') ?_
      have := ctxSlots_length k
      have h2 := nodup_lt_length _ _ (List.nodup_append.mp hnd').2.1 hc.slots_lt
      omega
    | node cl ll sl el rl =>
      simp only at hm
      cases hm
      have hll0 := hll
      obtain ⟨hli, nl, hnl, _⟩ := hll0
      have := node_lt hnl
      have hne : (n.left != EMPTY) = true := by rw [hli]; simp; omega
      simp only [hne, if_true]
      refine findRightMaximum_rep hsize _ _ _ _ hll (by simp) ?_
      have h1 := T.height_le_slots (T.node cl ll sl el rl)
      have h2 := nodup_lt_length _ _ (show (T.node cl ll sl el rl).slots.Nodup by slots_tac hnd') hll.slots_lt
      omega

/-! ### reading and writing through a handle -/

theorem T.atSlot_mem {t : T (Ent V)} {slot : Nat} {e : Ent V} (h : t.atSlot slot = some e) : slot ∈ t.slots := by
  induction t with
  | leaf => simp [T.atSlot] at h
  | node c l s e' r ihl ihr =>
    simp only [T.atSlot] at h
    simp only [T.slots_node, List.mem_append, List.mem_cons]
    split at h
    · rename_i heq; right; left; simpa using Eq.symm (by simpa using heq)
    · split at h
      · rename_i x hx; left; exact ihl (by rw [hx]; exact congrArg some (Option.some.inj h))
      · right; right; exact ihr h

theorem T.atSlot_none_of_not_mem {t : T (Ent V)} {slot : Nat} (h : slot ∉ t.slots) : t.atSlot slot = none := by
  cases hx : t.atSlot slot with
  | none => rfl
  | some e => exact absurd (T.atSlot_mem hx) h

theorem T.setAtSlot_not_mem {t : T (Ent V)} {slot : Nat} (v : V) (h : slot ∉ t.slots) : t.setAtSlot slot v = t := by
  induction t with
  | leaf => rfl
  | node c l s e r ihl ihr =>
    simp only [T.slots_node, List.mem_append, List.mem_cons, not_or] at h
    have : (s == slot) = false := by simpa using Ne.symm h.2.1
    simp only [T.setAtSlot, this, Bool.false_eq_true, if_false, ihl h.1, ihr h.2.2]

/-- `value_by_index`: the arena node of a slot holds the entity the model stores there -/
theorem Rep.atSlot {a : Arena V} {t : T (Ent V)} {i p : Nat} (hr : Rep a i p t) {slot : Nat} {e : Ent V}
    (h : t.atSlot slot = some e) : ∃ n, a.node slot = some n ∧ n.ent = e := by
  induction t generalizing i p with
  | leaf => simp [T.atSlot] at h
  | node c l s e' r ihl ihr =>
    obtain ⟨rfl, n, hn, _, _, hne, hl, hrr⟩ := hr
    simp only [T.atSlot] at h
    split at h
    · rename_i heq
      have : i = slot := by simpa using heq
      subst this
      cases h
      exact ⟨n, hn, hne⟩
    · split at h
      · rename_i x hx
        cases h
        exact ihl hl hx
      · exact ihr hrr h

/-- `*value_by_index_mut(slot) = v` -/
theorem Rep.setAtSlot {a : Arena V} {t : T (Ent V)} {i p : Nat} (hr : Rep a i p t) (hnd : t.slots.Nodup)
    (slot : Nat) (v : V) (g : ANode V → ANode V)
    (hg : ∀ n, g n = { n with ent := n.ent.setVal v }) :
    Rep (a.upd slot g) i p (t.setAtSlot slot v) := by
  induction t generalizing i p with
  | leaf => exact hr
  | node c l s e r ihl ihr =>
    obtain ⟨rfl, n, hn, hnp, hnr, hne, hl, hrr⟩ := hr
    simp only [T.slots_node, List.nodup_append, List.nodup_cons, List.mem_cons] at hnd
    obtain ⟨hlnd, ⟨hir, hrnd⟩, hdis⟩ := hnd
    have hil : i ∉ l.slots := fun hx => hdis i hx i (Or.inl rfl) rfl
    simp only [T.setAtSlot]
    by_cases heq : i = slot
    · subst heq
      simp only [beq_self_eq_true, if_true]
      refine ⟨rfl, g n, by simp [hn], by rw [hg]; exact hnp, by rw [hg]; exact hnr, by rw [hg, hne], ?_, ?_⟩
      · rw [hg]; exact hl.upd_other _ hil
      · rw [hg]; exact hrr.upd_other _ hir
    · have hb : (i == slot) = false := by simpa using heq
      simp only [hb, Bool.false_eq_true, if_false]
      refine ⟨rfl, n, by simp [Ne.symm heq, hn], hnp, hnr, hne, ihl hl hlnd, ihr hrr hrnd⟩

/-- writing through a handle at the state level -/
theorem setValueByIndex_rep {a : Arena V} {st st' : St V} (h : RepSt a st) (hs : SlotsOK st.tree st.pool)
    (slot : Nat) (v : V) (hm : st.setValueByIndex slot v = some st') :
    ∃ n a', a.node slot = some n ∧ a.setEnt slot (n.ent.setVal v) = some a' ∧ RepSt a' st' := by
  obtain ⟨_, _, hnd, hlt, _⟩ := SlotsOK.arena h hs
  simp only [St.setValueByIndex] at hm
  cases hx : st.tree.atSlot slot with
  | none => simp [hx] at hm
  | some e =>
    simp only [hx, Option.some.injEq] at hm
    subst hm
    obtain ⟨n, hn, hne⟩ := h.tree.atSlot hx
    refine ⟨n, a.upd slot fun m => { m with ent := n.ent.setVal v }, hn, Arena.setEnt_eq _ (node_lt hn), ?_, ?_⟩
    · -- the update function ignores the old entity: express it through the generic form on this slot
      have : Rep (a.upd slot fun m => { m with ent := m.ent.setVal v }) a.root EMPTY (st.tree.setAtSlot slot v) :=
        h.tree.setAtSlot hnd slot v _ (fun _ => rfl)
      refine Rep.congr (a := a.upd slot fun m => { m with ent := m.ent.setVal v }) ?_ this
      intro s _
      by_cases hs' : slot = s
      · subst hs'; simp [hn]
      · simp [hs']
    · simp [h.pool, poolOf]

end ITree
