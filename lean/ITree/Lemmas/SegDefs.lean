import ITree.Model.Seg
/-!
# The finite mask tables of the 32-leaf heap, checked completely by kernel evaluation

All 528 bucket ranges × 63 places. `decide +kernel` evaluates the model's own `placeMask` /
`visitMask` (literal transcriptions of the Rust loops) in the kernel (GMP-backed `Nat` bit operations);
no `native_decide`, no extra axiom.
-/
namespace ITree

/-- first / last bucket under heap place `n` -/
def nodeLevel (n : Nat) : Nat := Nat.log2 (n + 1)
def nodeWidth (n : Nat) : Nat := 32 >>> nodeLevel n
def nodeLo (n : Nat) : Nat := (n + 1 - 2 ^ nodeLevel n) * nodeWidth n
def nodeHi (n : Nat) : Nat := nodeLo n + nodeWidth n - 1
def nodeParent (n : Nat) : Nat := (n - 1) / 2

/-- place `n` lies inside the bucket range -/
def inside (a b n : Nat) : Bool := decide (a ≤ nodeLo n) && decide (nodeHi n ≤ b)
/-- place `n` meets the bucket range -/
def meets (c d n : Nat) : Bool := decide (nodeLo n ≤ d) && decide (c ≤ nodeHi n)

/-- number of stored-at places above bucket `x` -/
def coverCount (m x : Nat) : Nat :=
  ((List.range 63).filter fun n => m.testBit n && decide (nodeLo n ≤ x) && decide (x ≤ nodeHi n)).length

end ITree
