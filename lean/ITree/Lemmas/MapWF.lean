import ITree.Props.Common
/-!
# Every map / set operation preserves well-formedness and never faults within the contract
-/
namespace ITree
variable {V ε : Type}

theorem Pool.new_slots (c : Nat) : SlotsOK (T.leaf : T ε) (Pool.new c) := by
  refine ⟨?_, ?_, ?_⟩
  · simp only [Pool.new, T.slots_leaf, List.nil_append]
    have : 0 < max c 8 := by omega
    generalize max c 8 = n at this
    cases n with
    | zero => omega
    | succ n => simp [List.range_succ_eq_map]
  · simp [Pool.new]
  · simp only [Pool.new]; omega

theorem WF.new (c : Nat) : WF (St.new c : St V) :=
  ⟨by simp [St.new, Ordered, T.keys], ⟨0, Bal.leaf⟩, Pool.new_slots c⟩

theorem T.atSlot_some_of_mem (t : T (Ent V)) (slot : Nat) (h : slot ∈ t.slots) : ∃ e, t.atSlot slot = some e := by
  induction t with
  | leaf => simp at h
  | node c l s e r ihl ihr =>
    simp only [T.atSlot]
    split
    · exact ⟨e, rfl⟩
    · rename_i hne
      simp only [T.slots_node, List.mem_append, List.mem_cons] at h
      rcases h with h | h | h
      · obtain ⟨x, hx⟩ := ihl h; exact ⟨x, by simp [hx]⟩
      · simp [h] at hne
      · obtain ⟨x, hx⟩ := ihr h
        cases hl : l.atSlot slot with
        | some y => exact ⟨y, rfl⟩
        | none => exact ⟨x, by simp [hx]⟩

theorem T.setAtSlot_shape (t : T (Ent V)) (slot : Nat) (v : V) :
    (t.setAtSlot slot v).slots = t.slots ∧ (t.setAtSlot slot v).keys = t.keys ∧
    (∀ n, Bal t n → Bal (t.setAtSlot slot v) n) ∧ (t.setAtSlot slot v).isBlack = t.isBlack := by
  induction t with
  | leaf => simp [T.setAtSlot]
  | node c l s e r ihl ihr =>
    obtain ⟨l1, l2, l3, l4⟩ := ihl
    obtain ⟨r1, r2, r3, r4⟩ := ihr
    simp only [T.setAtSlot]
    split
    · refine ⟨by simp, by simp [T.keys, Ent.setVal], fun n h => h.entity _ _, rfl⟩
    · refine ⟨by simp [l1, r1], ?_, ?_, rfl⟩
      · simp only [T.keys, T.toList_node, List.map_append, List.map_cons] at l2 r2 ⊢
        rw [l2, r2]
      · intro n h
        cases h with
        | red hl hr bl br => exact Bal.red (l3 _ hl) (r3 _ hr) (by rw [l4]; exact bl) (by rw [r4]; exact br)
        | black hl hr => exact Bal.black (l3 _ hl) (r3 _ hr)

/-- one step: no fault within the contract, and the result is well-formed -/
theorem St.step_wf (st : St V) (op : MapOp V) (h : WF st) (hc : InContract st op) :
    ∃ st', st.step op = some st' ∧ WF st' := by
  cases op with
  | insert e => exact ⟨_, rfl, (St.insert_spec st e h hc).1⟩
  | delete key =>
    simp only [St.step, St.delete]
    cases hf : findKey key [] st.tree with
    | none => exact ⟨st, rfl, h⟩
    | some p =>
      obtain ⟨k, t⟩ := p
      obtain ⟨hp, c, l, s, e, r, rfl, _⟩ := findKey_some key [] st.tree hf
      obtain ⟨st', h1, h2, _⟩ := St.deleteAt_spec st k h (by simpa using hp)
      exact ⟨st', h1, h2⟩
  | deleteByIndex slot =>
    simp only [St.step, St.deleteByIndex]
    cases hf : findSlot slot [] st.tree with
    | none => exact absurd hc (findSlot_none slot [] st.tree hf)
    | some p =>
      obtain ⟨k, t⟩ := p
      obtain ⟨hp, c, l, e, r, rfl⟩ := findSlot_some slot [] st.tree hf
      obtain ⟨st', h1, h2, _⟩ := St.deleteAt_spec st k h (by simpa using hp)
      exact ⟨st', h1, h2⟩
  | setValue slot v =>
    obtain ⟨e, he⟩ := T.atSlot_some_of_mem st.tree slot hc
    obtain ⟨s1, s2, s3, _⟩ := T.setAtSlot_shape st.tree slot v
    refine ⟨{ st with tree := st.tree.setAtSlot slot v }, by simp [St.step, St.setValueByIndex, he], ⟨?_, ?_, ?_⟩⟩
    · simpa [Ordered, s2] using h.ordered
    · obtain ⟨n, hn⟩ := h.bal; exact ⟨n, s3 n hn⟩
    · simpa [SlotsOK, s1] using h.slots
  | clear =>
    refine ⟨_, rfl, ⟨by simp [St.clear, Ordered, T.keys], ⟨0, Bal.leaf⟩, ?_⟩⟩
    simp only [St.clear]
    exact Pool.freeAll_spec (t' := .leaf) _ h.slots (by simpa using (T.bfs_perm st.tree).symm)

theorem Reach.wf {c : Nat} {st : St V} (h : Reach c st) : WF st := by
  induction h with
  | new => exact WF.new c
  | step op _ hc hs ih =>
    obtain ⟨st', h1, h2⟩ := St.step_wf _ op ih hc
    rw [hs] at h1
    cases h1
    exact h2

end ITree
