import ITree.Lemmas.SegDefs
namespace ITree

set_option maxRecDepth 100000 in
theorem masks_lt : ∀ a < 32, ∀ b < 32, a ≤ b → placeMask a b < 2 ^ 63 ∧ visitMask a b < 2 ^ 63 := by
  decide +kernel


end ITree
