import ITree.Model.SegCheck
import ITree.Props.C03
/-!
# The driver's segment-tree check implies the hypothesis of the C03 / C16 theorems
-/
namespace ITree
variable {V : Type} [DecidableEq V]

def SegIns.toVal (v : SegIns V) : SegVal V := ⟨v.lo, v.hi, v.val, v.exp⟩

theorem SegIns.ent_eq (l : Layout) (v : SegIns V) : v.ent l = SegVal.toEnt l v.toVal := rfl

theorem segOKCheck_sound (s : Seg V) (LV : List (SegIns V)) (T : Option Int) (lo hi : Int)
    (h : segOKCheck s LV T lo hi = true) : SegOK s (LV.map SegIns.toVal) T := by
  simp only [segOKCheck, Bool.and_eq_true, beq_iff_eq, List.all_eq_true, decide_eq_true_eq,
    List.mem_range, List.mem_append, Bool.or_eq_true, Bool.not_eq_true'] at h
  obtain ⟨⟨⟨⟨hnew, hlen⟩, hdom⟩, hsmall⟩, hcnt⟩ := h
  have hL : (LV.map SegIns.toVal).map (SegVal.toEnt s.layout) = LV.map (SegIns.ent s.layout) := by
    simp [List.map_map, Function.comp_def, SegIns.ent_eq]
  refine ⟨⟨lo, hi, hnew⟩, hlen, ?_, ?_⟩
  · rw [hL]
    refine ⟨?_, ?_, ?_⟩
    · intro i hi e he
      have hkept : keptSince T e = true := by
        cases T with
        | none => rfl
        | some t0 => simpa [keptSince] using he t0 rfl
      by_cases hmem : e ∈ LV.map (SegIns.ent s.layout) ∨ e ∈ (s.chunks[i]?).getD []
      · have := (hcnt i hi e hmem).2
        rcases this with h1 | h1
        · rw [hkept] at h1; simp at h1
        · simpa [chunkAt] using h1
      · have h1 : e ∉ LV.map (SegIns.ent s.layout) := fun h => hmem (Or.inl h)
        have h2 : e ∉ (s.chunks[i]?).getD [] := fun h => hmem (Or.inr h)
        simp [chunkAt, List.count_eq_zero.mpr h1, List.count_eq_zero.mpr h2]
    · intro i e
      by_cases hi : i < s.chunks.length
      · by_cases hmem : e ∈ LV.map (SegIns.ent s.layout) ∨ e ∈ (s.chunks[i]?).getD []
        · simpa [chunkAt] using (hcnt i hi e hmem).1
        · have h2 : e ∉ (s.chunks[i]?).getD [] := fun h => hmem (Or.inr h)
          simp [chunkAt, List.count_eq_zero.mpr h2]
      · have : s.chunks[i]? = none := List.getElem?_eq_none (by omega)
        simp [chunkAt, this]
    · intro e he; exact hsmall e he
  · intro v hv
    simp only [List.mem_map] at hv
    obtain ⟨w, hw, rfl⟩ := hv
    have := hdom w hw
    exact ⟨this.1.1, this.1.2, this.2⟩

end ITree
