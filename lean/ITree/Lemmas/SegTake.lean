import ITree.Lemmas.SegNext
/-!
# Consuming an iterator (fully or partially), and the trailing-zeros / set-bit helpers
-/
namespace ITree
variable {V : Type}

/-- result of taking up to `n` items -/
structure TakeRes (s : Seg V) (it : SegIt) (places : List Nat) (n : Nat) (s' : Seg V) (it' : SegIt)
    (items : List (SegEnt V)) : Prop where
  inv : ItInv s' it' places
  layout : s'.layout = s.layout ∧ s'.chunks.length = s.chunks.length ∧ it'.time = it.time ∧ it'.mask = it.mask
  purge : ∀ i, ∃ rm, (chunkAt s i).Perm (chunkAt s' i ++ rm) ∧ ∀ e ∈ rm, keepAt it.time e = false
  perm : (pending s it).Perm (items ++ pending s' it')
  live : ∀ e ∈ items, keepAt it.time e = true
  len : items.length ≤ n
  exhausted : items.length < n → pending s' it' = [] ∧ it'.i0 = none

theorem segTake_spec (n : Nat) : ∀ (s : Seg V) (it : SegIt) (places : List Nat) (acc : List V),
    ItInv s it places → it.measure < 64 →
    ∃ s' it' items, segTake n s it acc = some (s', it', acc.reverse ++ items.map (·.val)) ∧
      TakeRes s it places n s' it' items := by
  induction n with
  | zero =>
    intro s it places acc inv _
    exact ⟨s, it, [], by simp [segTake], ⟨inv, ⟨rfl, rfl, rfl, rfl⟩, fun i => ⟨[], by simp, by simp⟩,
      by simp, by simp, by simp, by simp⟩⟩
  | succ n ih =>
    intro s it places acc inv hm
    obtain ⟨s1, it1, out, hn, hres⟩ := segNext_spec 64 s it places inv hm
    simp only [segTake, hn]
    cases out with
    | none =>
      obtain ⟨h1, h2⟩ := hres.out
      have hp' : pending s1 it1 = [] := by
        have hf := hres.inv.fin h2
        simp [pending, h2, hf]
      exact ⟨s1, it1, [], by simp, ⟨hres.inv, hres.layout, hres.purge, by simp [h1, hp'], by simp, by simp,
        fun _ => ⟨hp', h2⟩⟩⟩
    | some v =>
      obtain ⟨item, hv, hperm, hlive, _⟩ := hres.out
      obtain ⟨l1, l2, l3, l4⟩ := hres.layout
      have hm1 : it1.measure < 64 := by have := hres.meas; omega
      obtain ⟨s2, it2, items, h2, hres2⟩ := ih s1 it1 places (v :: acc) hres.inv hm1
      refine ⟨s2, it2, item :: items, by simp only; rw [h2]; simp [hv], ⟨hres2.inv, ?_, ?_, ?_, ?_, ?_, ?_⟩⟩
      · obtain ⟨m1, m2, m3, m4⟩ := hres2.layout
        exact ⟨m1.trans l1, m2.trans l2, m3.trans l3, m4.trans l4⟩
      · intro i
        obtain ⟨rm1, a1, a2⟩ := hres.purge i
        obtain ⟨rm2, b1, b2⟩ := hres2.purge i
        refine ⟨rm2 ++ rm1, ?_, ?_⟩
        · calc chunkAt s i |>.Perm (chunkAt s1 i ++ rm1) := a1
            _ |>.Perm ((chunkAt s2 i ++ rm2) ++ rm1) := List.Perm.append_right _ b1
            _ = _ := by simp
        · intro e he
          simp only [List.mem_append] at he
          rcases he with he | he
          · rw [← l3]; exact b2 e he
          · exact a2 e he
      · calc pending s it |>.Perm (item :: pending s1 it1) := hperm
          _ |>.Perm (item :: (items ++ pending s2 it2)) := List.Perm.cons _ hres2.perm
      · intro e he
        rcases List.mem_cons.mp he with rfl | he
        · exact hlive
        · rw [← l3]; exact hres2.live e he
      · simp only [List.length_cons]; have := hres2.len; omega
      · intro hlt
        simp only [List.length_cons] at hlt
        exact hres2.exhausted (by omega)

end ITree
