import ITree.Lemmas.ArenaOps
/-!
# Arena-level deletion repair (`fix_red_black_properties_after_delete`) against `fixUpD`
-/
namespace ITree
variable {V : Type}

/-- the hole of a represented `plug k t` -/
theorem Rep.unplug {a : Arena V} : ∀ (k : Ctx (Ent V)) (t : T (Ent V)), Rep a a.root EMPTY (ITree.plug k t) →
    ∃ i p, RepCtx a k i p ∧ Rep a i p t := by
  intro k
  induction k with
  | nil => intro t h; exact ⟨a.root, EMPTY, ⟨rfl, rfl⟩, h⟩
  | cons f k ih =>
    intro t h
    rw [plug_cons] at h
    obtain ⟨i, p, hc, hr⟩ := ih _ h
    cases hs : f.side with
    | L =>
      simp only [Frame.fill, hs] at hr
      obtain ⟨rfl, n, hn, hnp, hnr, hne, hl, hrr⟩ := hr
      exact ⟨n.left, f.s, ⟨rfl, n, hn, hnr, hne, by simp only [hs]; exact ⟨trivial, hrr⟩, hnp ▸ hc⟩, hl⟩
    | R =>
      simp only [Frame.fill, hs] at hr
      obtain ⟨rfl, n, hn, hnp, hnr, hne, hl, hrr⟩ := hr
      exact ⟨n.right, f.s, ⟨rfl, n, hn, hnr, hne, by simp only [hs]; exact ⟨trivial, hl⟩, hnp ▸ hc⟩, hrr⟩

/-- move the focus to the right child -/
theorem Rep.down_right {a : Arena V} {K : Ctx (Ent V)} {c : Color} {L R : T (Ent V)} {x pp : Nat} {e : Ent V}
    (hc : RepCtx a K x pp) (hr : Rep a x pp (.node c L x e R)) :
    ∃ i, RepCtx a (⟨c, x, e, L, .R⟩ :: K) i x ∧ Rep a i x R := by
  obtain ⟨_, n, hn, hnp, hnr, hne, hl, hrr⟩ := hr
  exact ⟨n.right, ⟨rfl, n, hn, hnr, hne, ⟨rfl, hl⟩, hnp ▸ hc⟩, hrr⟩

/-- move the focus to the left child -/
theorem Rep.down_left {a : Arena V} {K : Ctx (Ent V)} {c : Color} {L R : T (Ent V)} {x pp : Nat} {e : Ent V}
    (hc : RepCtx a K x pp) (hr : Rep a x pp (.node c L x e R)) :
    ∃ i, RepCtx a (⟨c, x, e, R, .L⟩ :: K) i x ∧ Rep a i x L := by
  obtain ⟨_, n, hn, hnp, hnr, hne, hl, hrr⟩ := hr
  exact ⟨n.left, ⟨rfl, n, hn, hnr, hne, ⟨rfl, hrr⟩, hnp ▸ hc⟩, hl⟩

/-- the root of a non-empty context is one of its slots -/
theorem RepCtx.root_mem {a : Arena V} : ∀ {k : Ctx (Ent V)} {i p : Nat}, RepCtx a k i p → k ≠ [] → a.root ∈ ctxSlots k := by
  intro k
  induction k with
  | nil => intro i p _ h; exact absurd rfl h
  | cons f k ih =>
    intro i p hc _
    obtain ⟨_, n, _, _, _, _, hrest⟩ := hc
    cases k with
    | nil => obtain ⟨_, hroot⟩ := hrest; simp [ctxSlots, hroot]
    | cons g k' =>
      have := ih hrest (by simp)
      simp only [ctxSlots, List.mem_cons, List.mem_append] at this ⊢
      right; right; exact this

/-- `is_black` -/
theorem Rep.isBlack {a : Arena V} (hsize : a.nodes.size ≤ EMPTY) {t : T (Ent V)} {i q : Nat} (h : Rep a i q t) :
    a.isBlack i = some t.isBlack := by
  cases t with
  | leaf => simp [Arena.isBlack, show i = EMPTY from h, T.isBlack]
  | node c l s e r =>
    obtain ⟨rfl, n, h1, _, h3, _⟩ := h
    have := node_lt h1
    have hne : (i == EMPTY) = false := by simp; omega
    simp only [Arena.isBlack, hne, Bool.false_eq_true, if_false, h1, Option.map_some, h3, T.isBlack]
    cases c <;> rfl

/-- `get_sibling` -/
theorem getSibling_rep {a : Arena V} (hsize : a.nodes.size ≤ EMPTY) {f : Frame (Ent V)} {K : Ctx (Ent V)}
    {tN : T (Ent V)} {n : Nat} (hc : RepCtx a (f :: K) n f.s) (hn : Rep a n f.s tN) (hnl : tN ≠ .leaf)
    (hnd : (tN.slots ++ ctxSlots (f :: K)).Nodup) :
    ∃ s nn pn, a.node n = some nn ∧ nn.parent = f.s ∧ a.node f.s = some pn ∧ a.getSibling n = some s ∧
      Rep a s f.s f.sib ∧ ((n == pn.left) = (f.side == Side.L)) ∧ pn.red = isRedC f.c := by
  cases tN with
  | leaf => exact absurd rfl hnl
  | node cN lN sN eN rN =>
  obtain ⟨rfl, nn, hnn, hnp, _⟩ := hn
  obtain ⟨_, pn, hpn, hpr, _, hside, _⟩ := hc
  have hnlt := node_lt hnn
  cases hs : f.side with
  | L =>
    simp only [hs] at hside
    refine ⟨pn.right, nn, pn, hnn, hnp, hpn, ?_, hside.2, by simp [hside.1], hpr⟩
    simp [Arena.getSibling, hnn, hnp, hpn, hside.1]
  | R =>
    simp only [hs] at hside
    have hne : pn.left ≠ n := by
      intro h
      by_cases he : pn.left = EMPTY
      · omega
      · have := hside.2.rootIdx_mem he
        rw [h] at this
        revert this
        slots_tac hnd
    have hb : (n == pn.left) = (Side.R == Side.L) := by
      have : (n == pn.left) = false := by simpa using Ne.symm hne
      rw [this]; rfl
    refine ⟨pn.left, nn, pn, hnn, hnp, hpn, ?_, hside.2, hb, hpr⟩
    simp [Arena.getSibling, hnn, hnp, hpn, hside.1, Ne.symm hne]

end ITree

namespace ITree
variable {V : Type}

/-- the part of `fix_red_black_properties_after_delete` after the sibling is known to be black -/
def Arena.fixTail (fuel : Nat) (a : Arena V) (n s : Nat) : Option (Arena V) := do
  let sn ← a.node s
  let lb ← a.isBlack sn.left
  let rb ← a.isBlack sn.right
  if lb && rb then
    let a ← a.setRed s true
    let nd ← a.node n
    let p := nd.parent
    let pn ← a.node p
    if pn.red then a.setRed p false else Arena.fixDelete fuel a p
  else a.handleBlackSibling n s

theorem fixDelete_eq (fuel : Nat) (a : Arena V) (n : Nat) :
    Arena.fixDelete (fuel + 1) a n =
      if n == a.root then some a else
        (a.getSibling n).bind fun s => (a.node s).bind fun sn =>
          if sn.red then (a.handleRedSibling n s).bind fun a' => (a'.getSibling n).bind fun s' => Arena.fixTail fuel a' n s'
          else Arena.fixTail fuel a n s := by
  simp only [Arena.fixDelete, Arena.fixTail, Option.bind_eq_bind, Option.pure_def, Option.bind_some]

/-- recolouring a right-right grandchild -/
theorem Rep.setRed_rr {a : Arena V} {c c2 c3 c3' : Color} {L L2 L3 R3 : T (Ent V)} {x y z : Nat} {e e2 e3 : Ent V}
    {pp : Nat} {b : Bool}
    (h : Rep a x pp (.node c L x e (.node c2 L2 y e2 (.node c3 L3 z e3 R3))))
    (hnd : (T.node c L x e (.node c2 L2 y e2 (.node c3 L3 z e3 R3))).slots.Nodup) (hb : b = isRedC c3') :
    Rep (a.upd z fun n => { n with red := b }) x pp (.node c L x e (.node c2 L2 y e2 (.node c3' L3 z e3 R3))) := by
  obtain ⟨_, n, h1, h2, h3, h4, h5, h6⟩ := h
  have hzx : z ≠ x := by slots_tac hnd
  have hzL : z ∉ L.slots := by slots_tac hnd
  have hnd2 : (T.node c2 L2 y e2 (.node c3 L3 z e3 R3)).slots.Nodup := by slots_tac hnd
  have hy := h6.1
  refine ⟨rfl, n, by simp [hzx, h1], h2, h3, h4, Rep.upd_other _ h5 hzL, ?_⟩
  rw [hy] at h6 ⊢
  exact Rep.setRed_right h6 hnd2 hb

/-- recolouring a left-left grandchild -/
theorem Rep.setRed_ll {a : Arena V} {c c2 c3 c3' : Color} {R R2 L3 R3 : T (Ent V)} {x y z : Nat} {e e2 e3 : Ent V}
    {pp : Nat} {b : Bool}
    (h : Rep a x pp (.node c (.node c2 (.node c3 L3 z e3 R3) y e2 R2) x e R))
    (hnd : (T.node c (.node c2 (.node c3 L3 z e3 R3) y e2 R2) x e R).slots.Nodup) (hb : b = isRedC c3') :
    Rep (a.upd z fun n => { n with red := b }) x pp (.node c (.node c2 (.node c3' L3 z e3 R3) y e2 R2) x e R) := by
  obtain ⟨_, n, h1, h2, h3, h4, h5, h6⟩ := h
  have hzx : z ≠ x := by slots_tac hnd
  have hzR : z ∉ R.slots := by slots_tac hnd
  have hnd2 : (T.node c2 (.node c3 L3 z e3 R3) y e2 R2).slots.Nodup := by slots_tac hnd
  have hy := h5.1
  refine ⟨rfl, n, by simp [hzx, h1], h2, h3, h4, ?_, Rep.upd_other _ h6 hzR⟩
  rw [hy] at h5 ⊢
  exact Rep.setRed_left h5 hnd2 hb

end ITree

namespace ITree
variable {V : Type}

/-- `handle_red_sibling`, the deficient node is a left child -/
theorem handleRedSibling_L {a : Arena V} (hsize : a.nodes.size ≤ EMPTY) {f : Frame (Ent V)} {K : Ctx (Ent V)}
    {tN SL SR : T (Ent V)} {n s : Nat} {se : Ent V}
    (hside : f.side = .L) (hsib : f.sib = .node .red SL s se SR)
    (hc : RepCtx a (f :: K) n f.s) (hn : Rep a n f.s tN) (hnl : tN ≠ .leaf)
    (hnd : (tN.slots ++ ctxSlots (f :: K)).Nodup) :
    ∃ a', a.handleRedSibling n s = some a' ∧
      RepCtx a' (⟨.red, f.s, f.e, SL, .L⟩ :: ⟨.black, s, se, SR, .L⟩ :: K) n f.s ∧ Rep a' n f.s tN ∧
      a'.unused = a.unused ∧ a'.cap = a.cap ∧ a'.dflt = a.dflt ∧ a'.nodes.size = a.nodes.size := by
  have hnidx := hn.idx
  obtain ⟨pp, hT, hK⟩ := Rep.fill hc hn
  simp only [Frame.fill, hside, hsib] at hT
  rw [show ctxSlots (f :: K) = f.s :: ((T.node .red SL s se SR).slots ++ ctxSlots K) by simp [ctxSlots, hsib]] at hnd
  have hndT : ((T.node f.c tN f.s f.e (.node .red SL s se SR)).slots ++ ctxSlots K).Nodup := by slots_tac hnd
  have hndT1 := (List.nodup_append.mp hndT).1
  have hT0 := hT
  obtain ⟨_, pn, hpn, hpp, hpr, hpe, hl, hrS⟩ := hT0
  obtain ⟨hsi, sn, hsn, _⟩ := hrS
  have hpl : pn.left = n := by rw [hl.idx, hnidx]
  obtain ⟨nn, hnn, hnnp⟩ : ∃ nn, a.node n = some nn ∧ nn.parent = f.s := by
    cases tN with
    | leaf => exact absurd rfl hnl
    | node cN lN sN eN rN => obtain ⟨rfl, nn, h1, h2, _⟩ := hn; exact ⟨nn, h1, h2⟩
  have hslt := node_lt hsn
  have hplt := node_lt hpn
  have hns : n ≠ s := by
    have : n ∈ tN.slots := by
      cases tN with
      | leaf => exact absurd rfl hnl
      | node cN lN sN eN rN => simp [hn.1]
    intro h; rw [h] at this; revert this; slots_tac hnd
  have hps : f.s ≠ s := by slots_tac hnd
  -- recolour s black, p red
  let a1 := a.upd s fun m => { m with red := false }
  let a2 := a1.upd f.s fun m => { m with red := true }
  have hT1 : Rep a1 f.s pp (.node f.c tN f.s f.e (.node .black SL s se SR)) := Rep.setRed_right hT hndT1 rfl
  have hK1 : RepCtx a1 K f.s pp := hK.upd_other _ (by slots_tac hnd)
  have hT2 : Rep a2 f.s pp (.node .red tN f.s f.e (.node .black SL s se SR)) :=
    Rep.setRed_root hT1 (by slots_tac hnd) rfl
  have hK2 : RepCtx a2 K f.s pp := hK1.upd_other _ (by slots_tac hnd)
  have hcode : a.handleRedSibling n s = a2.rotateLeft f.s := by
    simp only [Arena.handleRedSibling, Option.bind_eq_bind]
    rw [Arena.setRed_eq _ hslt]
    simp only [Option.bind_some]
    have h1n : a1.node n = some nn := by simp [a1, Ne.symm hns, hnn]
    simp only [a1] at h1n
    rw [h1n]
    simp only [Option.bind_some, hnnp]
    rw [Arena.setRed_eq _ (by simpa using hplt)]
    simp only [Option.bind_some]
    have h2p : a2.node f.s = some { pn with red := true } := by simp [a2, a1, Ne.symm hps, hpn]
    simp only [a2, a1] at h2p
    rw [h2p]
    simp only [Option.bind_some, hpl, beq_self_eq_true, if_true, a2, a1]
  obtain ⟨a3, hr3, hK3, hT3, _, _, hu3, hc3, hd3, hs3⟩ :=
    rotateLeft_rep (a := a2) (by simpa [a2, a1] using hsize) hK2 hT2 (by slots_tac hnd)
  obtain ⟨i, hc1, hr1⟩ := Rep.down_left hK3 hT3
  have hi : i = f.s := hr1.1
  subst hi
  obtain ⟨j, hc2, hr2⟩ := Rep.down_left hc1 hr1
  have hj : j = n := by rw [hr2.idx, hnidx]
  subst hj
  exact ⟨a3, by rw [hcode]; exact hr3, hc2, hr2, by rw [hu3]; simp [a2, a1], by rw [hc3]; simp [a2, a1],
    by rw [hd3]; simp [a2, a1], by rw [hs3]; simp [a2, a1]⟩

end ITree

namespace ITree
variable {V : Type}

/-- `handle_red_sibling`, the deficient node is a right child -/
theorem handleRedSibling_R {a : Arena V} (hsize : a.nodes.size ≤ EMPTY) {f : Frame (Ent V)} {K : Ctx (Ent V)}
    {tN SL SR : T (Ent V)} {n s : Nat} {se : Ent V}
    (hside : f.side = .R) (hsib : f.sib = .node .red SL s se SR)
    (hc : RepCtx a (f :: K) n f.s) (hn : Rep a n f.s tN) (hnl : tN ≠ .leaf)
    (hnd : (tN.slots ++ ctxSlots (f :: K)).Nodup) :
    ∃ a', a.handleRedSibling n s = some a' ∧
      RepCtx a' (⟨.red, f.s, f.e, SR, .R⟩ :: ⟨.black, s, se, SL, .R⟩ :: K) n f.s ∧ Rep a' n f.s tN ∧
      a'.unused = a.unused ∧ a'.cap = a.cap ∧ a'.dflt = a.dflt ∧ a'.nodes.size = a.nodes.size := by
  have hnidx := hn.idx
  obtain ⟨pp, hT, hK⟩ := Rep.fill hc hn
  simp only [Frame.fill, hside, hsib] at hT
  rw [show ctxSlots (f :: K) = f.s :: ((T.node .red SL s se SR).slots ++ ctxSlots K) by simp [ctxSlots, hsib]] at hnd
  have hndT : ((T.node f.c (.node .red SL s se SR) f.s f.e tN).slots ++ ctxSlots K).Nodup := by slots_tac hnd
  have hndT1 := (List.nodup_append.mp hndT).1
  have hT0 := hT
  obtain ⟨_, pn, hpn, hpp, hpr, hpe, hlS, hr⟩ := hT0
  obtain ⟨hsi, sn, hsn, _⟩ := hlS
  have hprt : pn.right = n := by rw [hr.idx, hnidx]
  obtain ⟨nn, hnn, hnnp⟩ : ∃ nn, a.node n = some nn ∧ nn.parent = f.s := by
    cases tN with
    | leaf => exact absurd rfl hnl
    | node cN lN sN eN rN => obtain ⟨rfl, nn, h1, h2, _⟩ := hn; exact ⟨nn, h1, h2⟩
  have hslt := node_lt hsn
  have hplt := node_lt hpn
  have hns : n ≠ s := by
    have : n ∈ tN.slots := by
      cases tN with
      | leaf => exact absurd rfl hnl
      | node cN lN sN eN rN => simp [hn.1]
    intro h; rw [h] at this; revert this; slots_tac hnd
  have hps : f.s ≠ s := by slots_tac hnd
  let a1 := a.upd s fun m => { m with red := false }
  let a2 := a1.upd f.s fun m => { m with red := true }
  have hT1 : Rep a1 f.s pp (.node f.c (.node .black SL s se SR) f.s f.e tN) := Rep.setRed_left hT hndT1 rfl
  have hK1 : RepCtx a1 K f.s pp := hK.upd_other _ (by slots_tac hnd)
  have hT2 : Rep a2 f.s pp (.node .red (.node .black SL s se SR) f.s f.e tN) :=
    Rep.setRed_root hT1 (by slots_tac hnd) rfl
  have hK2 : RepCtx a2 K f.s pp := hK1.upd_other _ (by slots_tac hnd)
  have hcode : a.handleRedSibling n s = a2.rotateRight f.s := by
    simp only [Arena.handleRedSibling, Option.bind_eq_bind]
    rw [Arena.setRed_eq _ hslt]
    simp only [Option.bind_some]
    have h1n : a1.node n = some nn := by simp [a1, Ne.symm hns, hnn]
    simp only [a1] at h1n
    rw [h1n]
    simp only [Option.bind_some, hnnp]
    rw [Arena.setRed_eq _ (by simpa using hplt)]
    simp only [Option.bind_some]
    have h2p : a2.node f.s = some { pn with red := true } := by simp [a2, a1, Ne.symm hps, hpn]
    simp only [a2, a1] at h2p
    rw [h2p]
    have hnl' : (n == pn.left) = false := by rw [hsi]; simpa using hns
    simp only [Option.bind_some, hnl', Bool.false_eq_true, if_false, a2, a1]
  obtain ⟨a3, hr3, hK3, hT3, _, _, hu3, hc3, hd3, hs3⟩ :=
    rotateRight_rep (a := a2) (by simpa [a2, a1] using hsize) hK2 hT2 (by slots_tac hnd)
  obtain ⟨i, hc1, hr1⟩ := Rep.down_right hK3 hT3
  have hi : i = f.s := hr1.1
  subst hi
  obtain ⟨j, hc2, hr2⟩ := Rep.down_right hc1 hr1
  have hj : j = n := by rw [hr2.idx, hnidx]
  subst hj
  exact ⟨a3, by rw [hcode]; exact hr3, hc2, hr2, by rw [hu3]; simp [a2, a1], by rw [hc3]; simp [a2, a1],
    by rw [hd3]; simp [a2, a1], by rw [hs3]; simp [a2, a1]⟩

end ITree

namespace ITree
variable {V : Type}

/-- the slot of a non-leaf hole occupant and its node -/
theorem Rep.node_mem {a : Arena V} {t : T (Ent V)} {i p : Nat} (h : Rep a i p t) (hnl : t ≠ .leaf) :
    i ∈ t.slots ∧ ∃ nn, a.node i = some nn ∧ nn.parent = p := by
  cases t with
  | leaf => exact absurd rfl hnl
  | node c l s e r => obtain ⟨rfl, nn, h1, h2, _⟩ := h; exact ⟨by simp, nn, h1, h2⟩

/-- `handle_black_sibling…`, left, outer nephew black (cases 5 and 6) -/
theorem handleBlackSibling_L5 {a : Arena V} (hsize : a.nodes.size ≤ EMPTY) {f : Frame (Ent V)} {K : Ctx (Ent V)}
    {tN SLL SLR SR : T (Ent V)} {n s sl : Nat} {se el : Ent V} {cS cl : Color}
    (hside : f.side = .L) (hsib : f.sib = .node cS (.node cl SLL sl el SLR) s se SR) (hsr : SR.isBlack = true)
    (hc : RepCtx a (f :: K) n f.s) (hn : Rep a n f.s tN) (hnl : tN ≠ .leaf)
    (hnd : (tN.slots ++ ctxSlots (f :: K)).Nodup) :
    ∃ a', a.handleBlackSibling n s = some a' ∧
      RepCtx a' (⟨.black, f.s, f.e, SLL, .L⟩ :: ⟨f.c, sl, el, .node .black SLR s se SR, .L⟩ :: K) n f.s ∧
      Rep a' n f.s tN ∧
      a'.unused = a.unused ∧ a'.cap = a.cap ∧ a'.dflt = a.dflt ∧ a'.nodes.size = a.nodes.size := by
  have hnidx := hn.idx
  obtain ⟨hnmem, nn, hnn, hnnp⟩ := hn.node_mem hnl
  obtain ⟨pp, hT, hK⟩ := Rep.fill hc hn
  simp only [Frame.fill, hside, hsib] at hT
  rw [show ctxSlots (f :: K) = f.s :: ((T.node cS (.node cl SLL sl el SLR) s se SR).slots ++ ctxSlots K) by
    simp [ctxSlots, hsib]] at hnd
  -- nodes read by the code
  have hT0 := hT
  obtain ⟨_, pn, hpn, hpp, hpr, hpe, hl, hrS⟩ := hT0
  have hrS0 := hrS
  obtain ⟨hsi, sn, hsn, _, _, _, hSL, hSR⟩ := hrS0
  have hslb := hSL.isBlack hsize
  obtain ⟨hsli, sln, hsln, _⟩ := hSL
  have hpl : pn.left = n := by rw [hl.idx, hnidx]
  have hsllt := node_lt hsln
  have hslt := node_lt hsn
  have hplt := node_lt hpn
  have hslne : (sn.left != EMPTY) = true := by rw [hsli]; simp; omega
  have hsrb : a.isBlack sn.right = some true := by rw [hSR.isBlack hsize, hsr]
  -- focus on the sibling
  obtain ⟨i, hcS, hrS'⟩ := Rep.down_right hK hT
  have hi : i = s := hrS'.1
  subst hi
  have hndS : ((T.node cS (.node cl SLL sl el SLR) i se SR).slots ++ ctxSlots ((⟨f.c, f.s, f.e, tN, .R⟩ : Frame (Ent V)) :: K)).Nodup := by
    slots_tac hnd
  let a1 := a.upd sl fun m => { m with red := false }
  let a2 := a1.upd i fun m => { m with red := true }
  have hS1 : Rep a1 i f.s (.node cS (.node .black SLL sl el SLR) i se SR) :=
    Rep.setRed_left hrS' (List.nodup_append.mp hndS).1 rfl
  have hcS1 : RepCtx a1 ((⟨f.c, f.s, f.e, tN, .R⟩ : Frame (Ent V)) :: K) i f.s := hcS.upd_other _ (by slots_tac hnd)
  have hS2 : Rep a2 i f.s (.node .red (.node .black SLL sl el SLR) i se SR) :=
    Rep.setRed_root hS1 (by slots_tac hnd) rfl
  have hcS2 : RepCtx a2 ((⟨f.c, f.s, f.e, tN, .R⟩ : Frame (Ent V)) :: K) i f.s := hcS1.upd_other _ (by slots_tac hnd)
  obtain ⟨a3, hr3, hcS3, hS3, _, _, hu3, hc3, hd3, hs3⟩ :=
    rotateRight_rep (a := a2) (by simpa [a2, a1] using hsize) hcS2 hS2 (by slots_tac hnd)
  -- back to the parent
  obtain ⟨pp3, hT3', hK3⟩ := Rep.fill hcS3 hS3
  have hT3 : Rep a3 f.s pp3 (.node f.c tN f.s f.e (.node .black SLL sl el (.node .red SLR i se SR))) := hT3'
  have hT30 := hT3
  obtain ⟨_, pn3, hpn3, _, hpr3, _, _, hrS3⟩ := hT30
  obtain ⟨hsl3, sn3, hsn3, _, _, _, _, hS3r⟩ := hrS3
  have hs3r : sn3.right = i := hS3r.1
  have hsize3 : a3.nodes.size ≤ EMPTY := by rw [hs3]; simpa [a2, a1] using hsize
  have h3lt : ∀ x, x < a.nodes.size → x < a3.nodes.size := by intro x hx; rw [hs3]; simpa [a2, a1] using hx
  let a4 := a3.upd sl fun m => { m with red := pn3.red }
  let a5 := a4.upd f.s fun m => { m with red := false }
  let a6 := a5.upd i fun m => { m with red := false }
  have hndT3 : ((T.node f.c tN f.s f.e (.node .black SLL sl el (.node .red SLR i se SR))).slots ++ ctxSlots K).Nodup := by
    slots_tac hnd
  have hT4 : Rep a4 f.s pp3 (.node f.c tN f.s f.e (.node f.c SLL sl el (.node .red SLR i se SR))) :=
    Rep.setRed_right hT3 (List.nodup_append.mp hndT3).1 hpr3
  have hT5 : Rep a5 f.s pp3 (.node .black tN f.s f.e (.node f.c SLL sl el (.node .red SLR i se SR))) :=
    Rep.setRed_root hT4 (by slots_tac hnd) rfl
  have hT6 : Rep a6 f.s pp3 (.node .black tN f.s f.e (.node f.c SLL sl el (.node .black SLR i se SR))) :=
    Rep.setRed_rr hT5 (by slots_tac hnd) rfl
  have hK6 : RepCtx a6 K f.s pp3 :=
    ((hK3.upd_other _ (by slots_tac hnd)).upd_other _ (by slots_tac hnd)).upd_other _ (by slots_tac hnd)
  obtain ⟨a7, hr7, hK7, hT7, _, _, hu7, hc7, hd7, hs7⟩ :=
    rotateLeft_rep (a := a6) (by simpa [a6, a5, a4] using hsize3) hK6 hT6 (by slots_tac hnd)
  obtain ⟨j, hc8, hr8⟩ := Rep.down_left hK7 hT7
  have hj : j = f.s := hr8.1
  subst hj
  obtain ⟨j2, hc9, hr9⟩ := Rep.down_left hc8 hr8
  have hj2 : j2 = n := by rw [hr9.idx, hnidx]
  subst hj2
  have hcode : a.handleBlackSibling j2 i = a6.rotateLeft f.s := by
    simp only [Arena.handleBlackSibling, Option.bind_eq_bind, Option.pure_def, Option.bind_some, hnn, hsn, hnnp, hpn,
      hsrb, hslb, hpl, beq_self_eq_true, Bool.and_true, if_true, hslne]
    rw [hsli, Arena.setRed_eq _ hsllt]
    simp only [Option.bind_some]
    rw [Arena.setRed_eq _ (by simpa using hslt)]
    simp only [Option.bind_some]
    have : a2.rotateRight i = some a3 := hr3
    simp only [a2, a1] at this
    rw [this]
    simp only [Option.bind_some, hpn3, hsl3, hsn3, hs3r]
    rw [Arena.setRed_eq _ (h3lt _ hsllt)]
    simp only [Option.bind_some]
    rw [Arena.setRed_eq _ (by simpa using h3lt _ hplt)]
    simp only [Option.bind_some]
    have hine : (i != EMPTY) = true := by simp; omega
    simp only [hine, if_true]
    rw [Arena.setRed_eq _ (by simpa using h3lt _ hslt)]
    simp only [Option.bind_some, a6, a5, a4]
  refine ⟨a7, by rw [hcode]; exact hr7, hc9, hr9, ?_, ?_, ?_, ?_⟩
  · rw [hu7]; simp only [a6, a5, a4, Arena.unused_upd]; rw [hu3]; simp [a2, a1]
  · rw [hc7]; simp only [a6, a5, a4, Arena.cap_upd]; rw [hc3]; simp [a2, a1]
  · rw [hd7]; simp only [a6, a5, a4, Arena.dflt_upd]; rw [hd3]; simp [a2, a1]
  · rw [hs7]; simp only [a6, a5, a4, Arena.size_upd]; rw [hs3]; simp [a2, a1]

end ITree

namespace ITree
variable {V : Type}

/-- `handle_black_sibling…`, left, outer nephew red (case 6 only) -/
theorem handleBlackSibling_L6 {a : Arena V} (hsize : a.nodes.size ≤ EMPTY) {f : Frame (Ent V)} {K : Ctx (Ent V)}
    {tN SL SRL SRR : T (Ent V)} {n s sr : Nat} {se er : Ent V} {cS : Color}
    (hside : f.side = .L) (hsib : f.sib = .node cS SL s se (.node .red SRL sr er SRR))
    (hc : RepCtx a (f :: K) n f.s) (hn : Rep a n f.s tN) (hnl : tN ≠ .leaf)
    (hnd : (tN.slots ++ ctxSlots (f :: K)).Nodup) :
    ∃ a', a.handleBlackSibling n s = some a' ∧
      RepCtx a' (⟨.black, f.s, f.e, SL, .L⟩ :: ⟨f.c, s, se, .node .black SRL sr er SRR, .L⟩ :: K) n f.s ∧
      Rep a' n f.s tN ∧
      a'.unused = a.unused ∧ a'.cap = a.cap ∧ a'.dflt = a.dflt ∧ a'.nodes.size = a.nodes.size := by
  have hnidx := hn.idx
  obtain ⟨hnmem, nn, hnn, hnnp⟩ := hn.node_mem hnl
  obtain ⟨pp, hT, hK⟩ := Rep.fill hc hn
  simp only [Frame.fill, hside, hsib] at hT
  rw [show ctxSlots (f :: K) = f.s :: ((T.node cS SL s se (.node .red SRL sr er SRR)).slots ++ ctxSlots K) by
    simp [ctxSlots, hsib]] at hnd
  have hT0 := hT
  obtain ⟨_, pn, hpn, hpp, hpr, hpe, hl, hrS⟩ := hT0
  obtain ⟨hsi, sn, hsn, _, _, _, hSL, hSR⟩ := hrS
  have hslb := hSL.isBlack hsize
  have hsrb : a.isBlack sn.right = some false := by rw [hSR.isBlack hsize]; rfl
  obtain ⟨hsri, srn, hsrn, _⟩ := hSR
  have hpl : pn.left = n := by rw [hl.idx, hnidx]
  have hsrlt := node_lt hsrn
  have hslt := node_lt hsn
  have hplt := node_lt hpn
  have hsrne : (sn.right != EMPTY) = true := by rw [hsri]; simp; omega
  let a1 := a.upd s fun m => { m with red := pn.red }
  let a2 := a1.upd f.s fun m => { m with red := false }
  let a3 := a2.upd sr fun m => { m with red := false }
  have hndT : ((T.node f.c tN f.s f.e (.node cS SL s se (.node .red SRL sr er SRR))).slots ++ ctxSlots K).Nodup := by
    slots_tac hnd
  have hT1 : Rep a1 f.s pp (.node f.c tN f.s f.e (.node f.c SL s se (.node .red SRL sr er SRR))) :=
    Rep.setRed_right hT (List.nodup_append.mp hndT).1 hpr
  have hT2 : Rep a2 f.s pp (.node .black tN f.s f.e (.node f.c SL s se (.node .red SRL sr er SRR))) :=
    Rep.setRed_root hT1 (by slots_tac hnd) rfl
  have hT3 : Rep a3 f.s pp (.node .black tN f.s f.e (.node f.c SL s se (.node .black SRL sr er SRR))) :=
    Rep.setRed_rr hT2 (by slots_tac hnd) rfl
  have hK3 : RepCtx a3 K f.s pp :=
    ((hK.upd_other _ (by slots_tac hnd)).upd_other _ (by slots_tac hnd)).upd_other _ (by slots_tac hnd)
  obtain ⟨a4, hr4, hK4, hT4, _, _, hu4, hc4, hd4, hs4⟩ :=
    rotateLeft_rep (a := a3) (by simpa [a3, a2, a1] using hsize) hK3 hT3 (by slots_tac hnd)
  obtain ⟨j, hc5, hr5⟩ := Rep.down_left hK4 hT4
  have hj : j = f.s := hr5.1
  subst hj
  obtain ⟨j2, hc6, hr6⟩ := Rep.down_left hc5 hr5
  have hj2 : j2 = n := by rw [hr6.idx, hnidx]
  subst hj2
  have hcode : a.handleBlackSibling j2 s = a3.rotateLeft f.s := by
    simp only [Arena.handleBlackSibling, Option.bind_eq_bind, Option.pure_def, Option.bind_some, hnn, hsn, hnnp, hpn,
      hsrb, hslb, hpl, beq_self_eq_true, Bool.and_false, Bool.false_eq_true, if_false, Bool.not_true, Bool.false_and,
      if_true, hsrne]
    rw [Arena.setRed_eq _ hslt]
    simp only [Option.bind_some]
    rw [Arena.setRed_eq _ (by simpa using hplt)]
    simp only [Option.bind_some]
    rw [hsri, Arena.setRed_eq _ (by simpa using hsrlt)]
    simp only [Option.bind_some, a3, a2, a1]
  exact ⟨a4, by rw [hcode]; exact hr4, hc6, hr6, by rw [hu4]; simp [a3, a2, a1], by rw [hc4]; simp [a3, a2, a1],
    by rw [hd4]; simp [a3, a2, a1], by rw [hs4]; simp [a3, a2, a1]⟩

end ITree
