import ITree.Lemmas.ArenaOps
/-!
# Arena-level deletion repair (`fix_red_black_properties_after_delete`) against `fixUpD`
-/
namespace ITree
variable {V : Type}

/-- the hole of a represented `plug k t` -/
theorem Rep.unplug {a : Arena V} : ∀ (k : Ctx (Ent V)) (t : T (Ent V)), Rep a a.root EMPTY (ITree.plug k t) →
    ∃ i p, RepCtx a k i p ∧ Rep a i p t := by
  intro k
  induction k with
  | nil => intro t h; exact ⟨a.root, EMPTY, ⟨rfl, rfl⟩, h⟩
  | cons f k ih =>
    intro t h
    rw [plug_cons] at h
    obtain ⟨i, p, hc, hr⟩ := ih _ h
    cases hs : f.side with
    | L =>
      simp only [Frame.fill, hs] at hr
      obtain ⟨rfl, n, hn, hnp, hnr, hne, hl, hrr⟩ := hr
      exact ⟨n.left, f.s, ⟨rfl, n, hn, hnr, hne, by simp only [hs]; exact ⟨trivial, hrr⟩, hnp ▸ hc⟩, hl⟩
    | R =>
      simp only [Frame.fill, hs] at hr
      obtain ⟨rfl, n, hn, hnp, hnr, hne, hl, hrr⟩ := hr
      exact ⟨n.right, f.s, ⟨rfl, n, hn, hnr, hne, by simp only [hs]; exact ⟨trivial, hl⟩, hnp ▸ hc⟩, hrr⟩

/-- move the focus to the right child -/
theorem Rep.down_right {a : Arena V} {K : Ctx (Ent V)} {c : Color} {L R : T (Ent V)} {x pp : Nat} {e : Ent V}
    (hc : RepCtx a K x pp) (hr : Rep a x pp (.node c L x e R)) :
    ∃ i, RepCtx a (⟨c, x, e, L, .R⟩ :: K) i x ∧ Rep a i x R := by
  obtain ⟨_, n, hn, hnp, hnr, hne, hl, hrr⟩ := hr
  exact ⟨n.right, ⟨rfl, n, hn, hnr, hne, ⟨rfl, hl⟩, hnp ▸ hc⟩, hrr⟩

/-- move the focus to the left child -/
theorem Rep.down_left {a : Arena V} {K : Ctx (Ent V)} {c : Color} {L R : T (Ent V)} {x pp : Nat} {e : Ent V}
    (hc : RepCtx a K x pp) (hr : Rep a x pp (.node c L x e R)) :
    ∃ i, RepCtx a (⟨c, x, e, R, .L⟩ :: K) i x ∧ Rep a i x L := by
  obtain ⟨_, n, hn, hnp, hnr, hne, hl, hrr⟩ := hr
  exact ⟨n.left, ⟨rfl, n, hn, hnr, hne, ⟨rfl, hrr⟩, hnp ▸ hc⟩, hl⟩

/-- the root of a non-empty context is one of its slots -/
theorem RepCtx.root_mem {a : Arena V} : ∀ {k : Ctx (Ent V)} {i p : Nat}, RepCtx a k i p → k ≠ [] → a.root ∈ ctxSlots k := by
  intro k
  induction k with
  | nil => intro i p _ h; exact absurd rfl h
  | cons f k ih =>
    intro i p hc _
    obtain ⟨_, n, _, _, _, _, hrest⟩ := hc
    cases k with
    | nil => obtain ⟨_, hroot⟩ := hrest; simp [ctxSlots, hroot]
    | cons g k' =>
      have := ih hrest (by simp)
      simp only [ctxSlots, List.mem_cons, List.mem_append] at this ⊢
      right; right; exact this

/-- `is_black` -/
theorem Rep.isBlack {a : Arena V} (hsize : a.nodes.size ≤ EMPTY) {t : T (Ent V)} {i q : Nat} (h : Rep a i q t) :
    a.isBlack i = some t.isBlack := by
  cases t with
  | leaf => simp [Arena.isBlack, show i = EMPTY from h, T.isBlack]
  | node c l s e r =>
    obtain ⟨rfl, n, h1, _, h3, _⟩ := h
    have := node_lt h1
    have hne : (i == EMPTY) = false := by simp; omega
    simp only [Arena.isBlack, hne, Bool.false_eq_true, if_false, h1, Option.map_some, h3, T.isBlack]
    cases c <;> rfl

/-- `get_sibling` -/
theorem getSibling_rep {a : Arena V} (hsize : a.nodes.size ≤ EMPTY) {f : Frame (Ent V)} {K : Ctx (Ent V)}
    {tN : T (Ent V)} {n : Nat} (hc : RepCtx a (f :: K) n f.s) (hn : Rep a n f.s tN) (hnl : tN ≠ .leaf)
    (hnd : (tN.slots ++ ctxSlots (f :: K)).Nodup) :
    ∃ s nn pn, a.node n = some nn ∧ nn.parent = f.s ∧ a.node f.s = some pn ∧ a.getSibling n = some s ∧
      Rep a s f.s f.sib ∧ ((n == pn.left) = (f.side == Side.L)) ∧ pn.red = isRedC f.c := by
  cases tN with
  | leaf => exact absurd rfl hnl
  | node cN lN sN eN rN =>
  obtain ⟨rfl, nn, hnn, hnp, _⟩ := hn
  obtain ⟨_, pn, hpn, hpr, _, hside, _⟩ := hc
  have hnlt := node_lt hnn
  cases hs : f.side with
  | L =>
    simp only [hs] at hside
    refine ⟨pn.right, nn, pn, hnn, hnp, hpn, ?_, hside.2, by simp [hside.1], hpr⟩
    simp [Arena.getSibling, hnn, hnp, hpn, hside.1]
  | R =>
    simp only [hs] at hside
    have hne : pn.left ≠ n := by
      intro h
      by_cases he : pn.left = EMPTY
      · omega
      · have := hside.2.rootIdx_mem he
        rw [h] at this
        revert this
        slots_tac hnd
    have hb : (n == pn.left) = (Side.R == Side.L) := by
      have : (n == pn.left) = false := by simpa using Ne.symm hne
      rw [this]; rfl
    refine ⟨pn.left, nn, pn, hnn, hnp, hpn, ?_, hside.2, hb, hpr⟩
    simp [Arena.getSibling, hnn, hnp, hpn, hside.1, Ne.symm hne]

end ITree

namespace ITree
variable {V : Type}

/-- the part of `fix_red_black_properties_after_delete` after the sibling is known to be black -/
def Arena.fixTail (fuel : Nat) (a : Arena V) (n s : Nat) : Option (Arena V) := do
  let sn ← a.node s
  let lb ← a.isBlack sn.left
  let rb ← a.isBlack sn.right
  if lb && rb then
    let a ← a.setRed s true
    let nd ← a.node n
    let p := nd.parent
    let pn ← a.node p
    if pn.red then a.setRed p false else Arena.fixDelete fuel a p
  else a.handleBlackSibling n s

theorem fixDelete_eq (fuel : Nat) (a : Arena V) (n : Nat) :
    Arena.fixDelete (fuel + 1) a n =
      if n == a.root then some a else
        (a.getSibling n).bind fun s => (a.node s).bind fun sn =>
          if sn.red then (a.handleRedSibling n s).bind fun a' => (a'.getSibling n).bind fun s' => Arena.fixTail fuel a' n s'
          else Arena.fixTail fuel a n s := by
  simp only [Arena.fixDelete, Arena.fixTail, Option.bind_eq_bind, Option.pure_def, Option.bind_some]

/-- recolouring a right-right grandchild -/
theorem Rep.setRed_rr {a : Arena V} {c c2 c3 c3' : Color} {L L2 L3 R3 : T (Ent V)} {x y z : Nat} {e e2 e3 : Ent V}
    {pp : Nat} {b : Bool}
    (h : Rep a x pp (.node c L x e (.node c2 L2 y e2 (.node c3 L3 z e3 R3))))
    (hnd : (T.node c L x e (.node c2 L2 y e2 (.node c3 L3 z e3 R3))).slots.Nodup) (hb : b = isRedC c3') :
    Rep (a.upd z fun n => { n with red := b }) x pp (.node c L x e (.node c2 L2 y e2 (.node c3' L3 z e3 R3))) := by
  obtain ⟨_, n, h1, h2, h3, h4, h5, h6⟩ := h
  have hzx : z ≠ x := by slots_tac hnd
  have hzL : z ∉ L.slots := by slots_tac hnd
  have hnd2 : (T.node c2 L2 y e2 (.node c3 L3 z e3 R3)).slots.Nodup := by slots_tac hnd
  have hy := h6.1
  refine ⟨rfl, n, by simp [hzx, h1], h2, h3, h4, Rep.upd_other _ h5 hzL, ?_⟩
  rw [hy] at h6 ⊢
  exact Rep.setRed_right h6 hnd2 hb

/-- recolouring a left-left grandchild -/
theorem Rep.setRed_ll {a : Arena V} {c c2 c3 c3' : Color} {R R2 L3 R3 : T (Ent V)} {x y z : Nat} {e e2 e3 : Ent V}
    {pp : Nat} {b : Bool}
    (h : Rep a x pp (.node c (.node c2 (.node c3 L3 z e3 R3) y e2 R2) x e R))
    (hnd : (T.node c (.node c2 (.node c3 L3 z e3 R3) y e2 R2) x e R).slots.Nodup) (hb : b = isRedC c3') :
    Rep (a.upd z fun n => { n with red := b }) x pp (.node c (.node c2 (.node c3' L3 z e3 R3) y e2 R2) x e R) := by
  obtain ⟨_, n, h1, h2, h3, h4, h5, h6⟩ := h
  have hzx : z ≠ x := by slots_tac hnd
  have hzR : z ∉ R.slots := by slots_tac hnd
  have hnd2 : (T.node c2 (.node c3 L3 z e3 R3) y e2 R2).slots.Nodup := by slots_tac hnd
  have hy := h5.1
  refine ⟨rfl, n, by simp [hzx, h1], h2, h3, h4, ?_, Rep.upd_other _ h6 hzR⟩
  rw [hy] at h5 ⊢
  exact Rep.setRed_left h5 hnd2 hb

end ITree

namespace ITree
variable {V : Type}

/-- `handle_red_sibling`, the deficient node is a left child -/
theorem handleRedSibling_L {a : Arena V} (hsize : a.nodes.size ≤ EMPTY) {f : Frame (Ent V)} {K : Ctx (Ent V)}
    {tN SL SR : T (Ent V)} {n s : Nat} {se : Ent V}
    (hside : f.side = .L) (hsib : f.sib = .node .red SL s se SR)
    (hc : RepCtx a (f :: K) n f.s) (hn : Rep a n f.s tN) (hnl : tN ≠ .leaf)
    (hnd : (tN.slots ++ ctxSlots (f :: K)).Nodup) :
    ∃ a', a.handleRedSibling n s = some a' ∧
      RepCtx a' (⟨.red, f.s, f.e, SL, .L⟩ :: ⟨.black, s, se, SR, .L⟩ :: K) n f.s ∧ Rep a' n f.s tN ∧
      a'.unused = a.unused ∧ a'.cap = a.cap ∧ a'.dflt = a.dflt ∧ a'.nodes.size = a.nodes.size ∧
      (∀ x, x ∉ tN.slots ++ ctxSlots (f :: K) → a'.node x = a.node x) := by
  have hnidx := hn.idx
  obtain ⟨pp, hT, hK⟩ := Rep.fill hc hn
  simp only [Frame.fill, hside, hsib] at hT
  rw [show ctxSlots (f :: K) = f.s :: ((T.node .red SL s se SR).slots ++ ctxSlots K) by simp [ctxSlots, hsib]] at hnd
  have hndT : ((T.node f.c tN f.s f.e (.node .red SL s se SR)).slots ++ ctxSlots K).Nodup := by slots_tac hnd
  have hndT1 := (List.nodup_append.mp hndT).1
  have hT0 := hT
  obtain ⟨_, pn, hpn, hpp, hpr, hpe, hl, hrS⟩ := hT0
  obtain ⟨hsi, sn, hsn, _⟩ := hrS
  have hpl : pn.left = n := by rw [hl.idx, hnidx]
  obtain ⟨nn, hnn, hnnp⟩ : ∃ nn, a.node n = some nn ∧ nn.parent = f.s := by
    cases tN with
    | leaf => exact absurd rfl hnl
    | node cN lN sN eN rN => obtain ⟨rfl, nn, h1, h2, _⟩ := hn; exact ⟨nn, h1, h2⟩
  have hslt := node_lt hsn
  have hplt := node_lt hpn
  have hns : n ≠ s := by
    have : n ∈ tN.slots := by
      cases tN with
      | leaf => exact absurd rfl hnl
      | node cN lN sN eN rN => simp [hn.1]
    intro h; rw [h] at this; revert this; slots_tac hnd
  have hps : f.s ≠ s := by slots_tac hnd
  -- recolour s black, p red
  let a1 := a.upd s fun m => { m with red := false }
  let a2 := a1.upd f.s fun m => { m with red := true }
  have hT1 : Rep a1 f.s pp (.node f.c tN f.s f.e (.node .black SL s se SR)) := Rep.setRed_right hT hndT1 rfl
  have hK1 : RepCtx a1 K f.s pp := hK.upd_other _ (by slots_tac hnd)
  have hT2 : Rep a2 f.s pp (.node .red tN f.s f.e (.node .black SL s se SR)) :=
    Rep.setRed_root hT1 (by slots_tac hnd) rfl
  have hK2 : RepCtx a2 K f.s pp := hK1.upd_other _ (by slots_tac hnd)
  have hcode : a.handleRedSibling n s = a2.rotateLeft f.s := by
    simp only [Arena.handleRedSibling, Option.bind_eq_bind]
    rw [Arena.setRed_eq _ hslt]
    simp only [Option.bind_some]
    have h1n : a1.node n = some nn := by simp [a1, Ne.symm hns, hnn]
    simp only [a1] at h1n
    rw [h1n]
    simp only [Option.bind_some, hnnp]
    rw [Arena.setRed_eq _ (by simpa using hplt)]
    simp only [Option.bind_some]
    have h2p : a2.node f.s = some { pn with red := true } := by simp [a2, a1, Ne.symm hps, hpn]
    simp only [a2, a1] at h2p
    rw [h2p]
    simp only [Option.bind_some, hpl, beq_self_eq_true, if_true, a2, a1]
  obtain ⟨a3, hr3, hK3, hT3, hf3, _, hu3, hc3, hd3, hs3⟩ :=
    rotateLeft_rep (a := a2) (by simpa [a2, a1] using hsize) hK2 hT2 (by slots_tac hnd)
  have hframe : ∀ x, x ∉ tN.slots ++ (f.s :: ((T.node .red SL s se SR).slots ++ ctxSlots K)) → a3.node x = a.node x := by
    intro x hx
    rw [hf3 x (by slots_tac hx)]
    have h1 : x ≠ s := by slots_tac hx
    have h2 : x ≠ f.s := by slots_tac hx
    simp [a2, a1, Ne.symm h1, Ne.symm h2]
  obtain ⟨i, hc1, hr1⟩ := Rep.down_left hK3 hT3
  have hi : i = f.s := hr1.1
  subst hi
  obtain ⟨j, hc2, hr2⟩ := Rep.down_left hc1 hr1
  have hj : j = n := by rw [hr2.idx, hnidx]
  subst hj
  exact ⟨a3, by rw [hcode]; exact hr3, hc2, hr2, by rw [hu3]; simp [a2, a1], by rw [hc3]; simp [a2, a1],
    by rw [hd3]; simp [a2, a1], by rw [hs3]; simp [a2, a1], fun x hx => hframe x (by
      rwa [show ctxSlots (f :: K) = f.s :: ((T.node .red SL s se SR).slots ++ ctxSlots K) by simp [ctxSlots, hsib]] at hx)⟩

end ITree

namespace ITree
variable {V : Type}

/-- `handle_red_sibling`, the deficient node is a right child -/
theorem handleRedSibling_R {a : Arena V} (hsize : a.nodes.size ≤ EMPTY) {f : Frame (Ent V)} {K : Ctx (Ent V)}
    {tN SL SR : T (Ent V)} {n s : Nat} {se : Ent V}
    (hside : f.side = .R) (hsib : f.sib = .node .red SL s se SR)
    (hc : RepCtx a (f :: K) n f.s) (hn : Rep a n f.s tN) (hnl : tN ≠ .leaf)
    (hnd : (tN.slots ++ ctxSlots (f :: K)).Nodup) :
    ∃ a', a.handleRedSibling n s = some a' ∧
      RepCtx a' (⟨.red, f.s, f.e, SR, .R⟩ :: ⟨.black, s, se, SL, .R⟩ :: K) n f.s ∧ Rep a' n f.s tN ∧
      a'.unused = a.unused ∧ a'.cap = a.cap ∧ a'.dflt = a.dflt ∧ a'.nodes.size = a.nodes.size ∧
      (∀ x, x ∉ tN.slots ++ ctxSlots (f :: K) → a'.node x = a.node x) := by
  have hnidx := hn.idx
  obtain ⟨pp, hT, hK⟩ := Rep.fill hc hn
  simp only [Frame.fill, hside, hsib] at hT
  rw [show ctxSlots (f :: K) = f.s :: ((T.node .red SL s se SR).slots ++ ctxSlots K) by simp [ctxSlots, hsib]] at hnd
  have hndT : ((T.node f.c (.node .red SL s se SR) f.s f.e tN).slots ++ ctxSlots K).Nodup := by slots_tac hnd
  have hndT1 := (List.nodup_append.mp hndT).1
  have hT0 := hT
  obtain ⟨_, pn, hpn, hpp, hpr, hpe, hlS, hr⟩ := hT0
  obtain ⟨hsi, sn, hsn, _⟩ := hlS
  have hprt : pn.right = n := by rw [hr.idx, hnidx]
  obtain ⟨nn, hnn, hnnp⟩ : ∃ nn, a.node n = some nn ∧ nn.parent = f.s := by
    cases tN with
    | leaf => exact absurd rfl hnl
    | node cN lN sN eN rN => obtain ⟨rfl, nn, h1, h2, _⟩ := hn; exact ⟨nn, h1, h2⟩
  have hslt := node_lt hsn
  have hplt := node_lt hpn
  have hns : n ≠ s := by
    have : n ∈ tN.slots := by
      cases tN with
      | leaf => exact absurd rfl hnl
      | node cN lN sN eN rN => simp [hn.1]
    intro h; rw [h] at this; revert this; slots_tac hnd
  have hps : f.s ≠ s := by slots_tac hnd
  let a1 := a.upd s fun m => { m with red := false }
  let a2 := a1.upd f.s fun m => { m with red := true }
  have hT1 : Rep a1 f.s pp (.node f.c (.node .black SL s se SR) f.s f.e tN) := Rep.setRed_left hT hndT1 rfl
  have hK1 : RepCtx a1 K f.s pp := hK.upd_other _ (by slots_tac hnd)
  have hT2 : Rep a2 f.s pp (.node .red (.node .black SL s se SR) f.s f.e tN) :=
    Rep.setRed_root hT1 (by slots_tac hnd) rfl
  have hK2 : RepCtx a2 K f.s pp := hK1.upd_other _ (by slots_tac hnd)
  have hcode : a.handleRedSibling n s = a2.rotateRight f.s := by
    simp only [Arena.handleRedSibling, Option.bind_eq_bind]
    rw [Arena.setRed_eq _ hslt]
    simp only [Option.bind_some]
    have h1n : a1.node n = some nn := by simp [a1, Ne.symm hns, hnn]
    simp only [a1] at h1n
    rw [h1n]
    simp only [Option.bind_some, hnnp]
    rw [Arena.setRed_eq _ (by simpa using hplt)]
    simp only [Option.bind_some]
    have h2p : a2.node f.s = some { pn with red := true } := by simp [a2, a1, Ne.symm hps, hpn]
    simp only [a2, a1] at h2p
    rw [h2p]
    have hnl' : (n == pn.left) = false := by rw [hsi]; simpa using hns
    simp only [Option.bind_some, hnl', Bool.false_eq_true, if_false, a2, a1]
  obtain ⟨a3, hr3, hK3, hT3, hf3, _, hu3, hc3, hd3, hs3⟩ :=
    rotateRight_rep (a := a2) (by simpa [a2, a1] using hsize) hK2 hT2 (by slots_tac hnd)
  have hframe : ∀ x, x ∉ tN.slots ++ (f.s :: ((T.node .red SL s se SR).slots ++ ctxSlots K)) → a3.node x = a.node x := by
    intro x hx
    rw [hf3 x (by slots_tac hx)]
    have h1 : x ≠ s := by slots_tac hx
    have h2 : x ≠ f.s := by slots_tac hx
    simp [a2, a1, Ne.symm h1, Ne.symm h2]
  obtain ⟨i, hc1, hr1⟩ := Rep.down_right hK3 hT3
  have hi : i = f.s := hr1.1
  subst hi
  obtain ⟨j, hc2, hr2⟩ := Rep.down_right hc1 hr1
  have hj : j = n := by rw [hr2.idx, hnidx]
  subst hj
  exact ⟨a3, by rw [hcode]; exact hr3, hc2, hr2, by rw [hu3]; simp [a2, a1], by rw [hc3]; simp [a2, a1],
    by rw [hd3]; simp [a2, a1], by rw [hs3]; simp [a2, a1], fun x hx => hframe x (by
      rwa [show ctxSlots (f :: K) = f.s :: ((T.node .red SL s se SR).slots ++ ctxSlots K) by simp [ctxSlots, hsib]] at hx)⟩

end ITree

namespace ITree
variable {V : Type}

/-- the slot of a non-leaf hole occupant and its node -/
theorem Rep.node_mem {a : Arena V} {t : T (Ent V)} {i p : Nat} (h : Rep a i p t) (hnl : t ≠ .leaf) :
    i ∈ t.slots ∧ ∃ nn, a.node i = some nn ∧ nn.parent = p := by
  cases t with
  | leaf => exact absurd rfl hnl
  | node c l s e r => obtain ⟨rfl, nn, h1, h2, _⟩ := h; exact ⟨by simp, nn, h1, h2⟩

/-- `handle_black_sibling…`, left, outer nephew black (cases 5 and 6) -/
theorem handleBlackSibling_L5 {a : Arena V} (hsize : a.nodes.size ≤ EMPTY) {f : Frame (Ent V)} {K : Ctx (Ent V)}
    {tN SLL SLR SR : T (Ent V)} {n s sl : Nat} {se el : Ent V} {cS cl : Color}
    (hside : f.side = .L) (hsib : f.sib = .node cS (.node cl SLL sl el SLR) s se SR) (hsr : SR.isBlack = true)
    (hc : RepCtx a (f :: K) n f.s) (hn : Rep a n f.s tN) (hnl : tN ≠ .leaf)
    (hnd : (tN.slots ++ ctxSlots (f :: K)).Nodup) :
    ∃ a', a.handleBlackSibling n s = some a' ∧
      RepCtx a' (⟨.black, f.s, f.e, SLL, .L⟩ :: ⟨f.c, sl, el, .node .black SLR s se SR, .L⟩ :: K) n f.s ∧
      Rep a' n f.s tN ∧
      a'.unused = a.unused ∧ a'.cap = a.cap ∧ a'.dflt = a.dflt ∧ a'.nodes.size = a.nodes.size ∧
      (∀ x, x ∉ tN.slots ++ ctxSlots (f :: K) → a'.node x = a.node x) := by
  have hnidx := hn.idx
  obtain ⟨hnmem, nn, hnn, hnnp⟩ := hn.node_mem hnl
  obtain ⟨pp, hT, hK⟩ := Rep.fill hc hn
  simp only [Frame.fill, hside, hsib] at hT
  rw [show ctxSlots (f :: K) = f.s :: ((T.node cS (.node cl SLL sl el SLR) s se SR).slots ++ ctxSlots K) by
    simp [ctxSlots, hsib]] at hnd
  -- nodes read by the code
  have hT0 := hT
  obtain ⟨_, pn, hpn, hpp, hpr, hpe, hl, hrS⟩ := hT0
  have hrS0 := hrS
  obtain ⟨hsi, sn, hsn, _, _, _, hSL, hSR⟩ := hrS0
  have hslb := hSL.isBlack hsize
  obtain ⟨hsli, sln, hsln, _⟩ := hSL
  have hpl : pn.left = n := by rw [hl.idx, hnidx]
  have hsllt := node_lt hsln
  have hslt := node_lt hsn
  have hplt := node_lt hpn
  have hslne : (sn.left != EMPTY) = true := by rw [hsli]; simp; omega
  have hsrb : a.isBlack sn.right = some true := by rw [hSR.isBlack hsize, hsr]
  -- focus on the sibling
  obtain ⟨i, hcS, hrS'⟩ := Rep.down_right hK hT
  have hi : i = s := hrS'.1
  subst hi
  have hndS : ((T.node cS (.node cl SLL sl el SLR) i se SR).slots ++ ctxSlots ((⟨f.c, f.s, f.e, tN, .R⟩ : Frame (Ent V)) :: K)).Nodup := by
    slots_tac hnd
  let a1 := a.upd sl fun m => { m with red := false }
  let a2 := a1.upd i fun m => { m with red := true }
  have hS1 : Rep a1 i f.s (.node cS (.node .black SLL sl el SLR) i se SR) :=
    Rep.setRed_left hrS' (List.nodup_append.mp hndS).1 rfl
  have hcS1 : RepCtx a1 ((⟨f.c, f.s, f.e, tN, .R⟩ : Frame (Ent V)) :: K) i f.s := hcS.upd_other _ (by slots_tac hnd)
  have hS2 : Rep a2 i f.s (.node .red (.node .black SLL sl el SLR) i se SR) :=
    Rep.setRed_root hS1 (by slots_tac hnd) rfl
  have hcS2 : RepCtx a2 ((⟨f.c, f.s, f.e, tN, .R⟩ : Frame (Ent V)) :: K) i f.s := hcS1.upd_other _ (by slots_tac hnd)
  obtain ⟨a3, hr3, hcS3, hS3, hf3, _, hu3, hc3, hd3, hs3⟩ :=
    rotateRight_rep (a := a2) (by simpa [a2, a1] using hsize) hcS2 hS2 (by slots_tac hnd)
  -- back to the parent
  obtain ⟨pp3, hT3', hK3⟩ := Rep.fill hcS3 hS3
  have hT3 : Rep a3 f.s pp3 (.node f.c tN f.s f.e (.node .black SLL sl el (.node .red SLR i se SR))) := hT3'
  have hT30 := hT3
  obtain ⟨_, pn3, hpn3, _, hpr3, _, _, hrS3⟩ := hT30
  obtain ⟨hsl3, sn3, hsn3, _, _, _, _, hS3r⟩ := hrS3
  have hs3r : sn3.right = i := hS3r.1
  have hsize3 : a3.nodes.size ≤ EMPTY := by rw [hs3]; simpa [a2, a1] using hsize
  have h3lt : ∀ x, x < a.nodes.size → x < a3.nodes.size := by intro x hx; rw [hs3]; simpa [a2, a1] using hx
  let a4 := a3.upd sl fun m => { m with red := pn3.red }
  let a5 := a4.upd f.s fun m => { m with red := false }
  let a6 := a5.upd i fun m => { m with red := false }
  have hndT3 : ((T.node f.c tN f.s f.e (.node .black SLL sl el (.node .red SLR i se SR))).slots ++ ctxSlots K).Nodup := by
    slots_tac hnd
  have hT4 : Rep a4 f.s pp3 (.node f.c tN f.s f.e (.node f.c SLL sl el (.node .red SLR i se SR))) :=
    Rep.setRed_right hT3 (List.nodup_append.mp hndT3).1 hpr3
  have hT5 : Rep a5 f.s pp3 (.node .black tN f.s f.e (.node f.c SLL sl el (.node .red SLR i se SR))) :=
    Rep.setRed_root hT4 (by slots_tac hnd) rfl
  have hT6 : Rep a6 f.s pp3 (.node .black tN f.s f.e (.node f.c SLL sl el (.node .black SLR i se SR))) :=
    Rep.setRed_rr hT5 (by slots_tac hnd) rfl
  have hK6 : RepCtx a6 K f.s pp3 :=
    ((hK3.upd_other _ (by slots_tac hnd)).upd_other _ (by slots_tac hnd)).upd_other _ (by slots_tac hnd)
  obtain ⟨a7, hr7, hK7, hT7, hf7, _, hu7, hc7, hd7, hs7⟩ :=
    rotateLeft_rep (a := a6) (by simpa [a6, a5, a4] using hsize3) hK6 hT6 (by slots_tac hnd)
  have hframe : ∀ x, x ∉ tN.slots ++ (f.s :: ((T.node cS (.node cl SLL sl el SLR) i se SR).slots ++ ctxSlots K)) → a7.node x = a.node x := by
    intro x hx
    rw [hf7 x (by slots_tac hx)]
    have h1 : x ≠ sl := by slots_tac hx
    have h2 : x ≠ f.s := by slots_tac hx
    have h3 : x ≠ i := by slots_tac hx
    have e6 : a6.node x = a3.node x := by simp [a6, a5, a4, Ne.symm h1, Ne.symm h2, Ne.symm h3]
    rw [e6, hf3 x (by slots_tac hx)]
    simp [a2, a1, Ne.symm h1, Ne.symm h3]
  obtain ⟨j, hc8, hr8⟩ := Rep.down_left hK7 hT7
  have hj : j = f.s := hr8.1
  subst hj
  obtain ⟨j2, hc9, hr9⟩ := Rep.down_left hc8 hr8
  have hj2 : j2 = n := by rw [hr9.idx, hnidx]
  subst hj2
  have hcode : a.handleBlackSibling j2 i = a6.rotateLeft f.s := by
    simp only [Arena.handleBlackSibling, Option.bind_eq_bind, Option.pure_def, Option.bind_some, hnn, hsn, hnnp, hpn,
      hsrb, hslb, hpl, beq_self_eq_true, Bool.and_true, if_true, hslne]
    rw [hsli, Arena.setRed_eq _ hsllt]
    simp only [Option.bind_some]
    rw [Arena.setRed_eq _ (by simpa using hslt)]
    simp only [Option.bind_some]
    have : a2.rotateRight i = some a3 := hr3
    simp only [a2, a1] at this
    rw [this]
    simp only [Option.bind_some, hpn3, hsl3, hsn3, hs3r]
    rw [Arena.setRed_eq _ (h3lt _ hsllt)]
    simp only [Option.bind_some]
    rw [Arena.setRed_eq _ (by simpa using h3lt _ hplt)]
    simp only [Option.bind_some]
    have hine : (i != EMPTY) = true := by simp; omega
    simp only [hine, if_true]
    rw [Arena.setRed_eq _ (by simpa using h3lt _ hslt)]
    simp only [Option.bind_some, a6, a5, a4]
  refine ⟨a7, by rw [hcode]; exact hr7, hc9, hr9, ?_, ?_, ?_, ?_⟩
  · rw [hu7]; simp only [a6, a5, a4, Arena.unused_upd]; rw [hu3]; simp [a2, a1]
  · rw [hc7]; simp only [a6, a5, a4, Arena.cap_upd]; rw [hc3]; simp [a2, a1]
  · rw [hd7]; simp only [a6, a5, a4, Arena.dflt_upd]; rw [hd3]; simp [a2, a1]
  · refine ⟨by rw [hs7]; simp only [a6, a5, a4, Arena.size_upd]; rw [hs3]; simp [a2, a1], fun x hx => hframe x (by
      rwa [show ctxSlots (f :: K) = f.s :: ((T.node cS (.node cl SLL sl el SLR) i se SR).slots ++ ctxSlots K) by simp [ctxSlots, hsib]] at hx)⟩

end ITree

namespace ITree
variable {V : Type}

/-- `handle_black_sibling…`, left, outer nephew red (case 6 only) -/
theorem handleBlackSibling_L6 {a : Arena V} (hsize : a.nodes.size ≤ EMPTY) {f : Frame (Ent V)} {K : Ctx (Ent V)}
    {tN SL SRL SRR : T (Ent V)} {n s sr : Nat} {se er : Ent V} {cS : Color}
    (hside : f.side = .L) (hsib : f.sib = .node cS SL s se (.node .red SRL sr er SRR))
    (hc : RepCtx a (f :: K) n f.s) (hn : Rep a n f.s tN) (hnl : tN ≠ .leaf)
    (hnd : (tN.slots ++ ctxSlots (f :: K)).Nodup) :
    ∃ a', a.handleBlackSibling n s = some a' ∧
      RepCtx a' (⟨.black, f.s, f.e, SL, .L⟩ :: ⟨f.c, s, se, .node .black SRL sr er SRR, .L⟩ :: K) n f.s ∧
      Rep a' n f.s tN ∧
      a'.unused = a.unused ∧ a'.cap = a.cap ∧ a'.dflt = a.dflt ∧ a'.nodes.size = a.nodes.size ∧
      (∀ x, x ∉ tN.slots ++ ctxSlots (f :: K) → a'.node x = a.node x) := by
  have hnidx := hn.idx
  obtain ⟨hnmem, nn, hnn, hnnp⟩ := hn.node_mem hnl
  obtain ⟨pp, hT, hK⟩ := Rep.fill hc hn
  simp only [Frame.fill, hside, hsib] at hT
  rw [show ctxSlots (f :: K) = f.s :: ((T.node cS SL s se (.node .red SRL sr er SRR)).slots ++ ctxSlots K) by
    simp [ctxSlots, hsib]] at hnd
  have hT0 := hT
  obtain ⟨_, pn, hpn, hpp, hpr, hpe, hl, hrS⟩ := hT0
  obtain ⟨hsi, sn, hsn, _, _, _, hSL, hSR⟩ := hrS
  have hslb := hSL.isBlack hsize
  have hsrb : a.isBlack sn.right = some false := by rw [hSR.isBlack hsize]; rfl
  obtain ⟨hsri, srn, hsrn, _⟩ := hSR
  have hpl : pn.left = n := by rw [hl.idx, hnidx]
  have hsrlt := node_lt hsrn
  have hslt := node_lt hsn
  have hplt := node_lt hpn
  have hsrne : (sn.right != EMPTY) = true := by rw [hsri]; simp; omega
  let a1 := a.upd s fun m => { m with red := pn.red }
  let a2 := a1.upd f.s fun m => { m with red := false }
  let a3 := a2.upd sr fun m => { m with red := false }
  have hndT : ((T.node f.c tN f.s f.e (.node cS SL s se (.node .red SRL sr er SRR))).slots ++ ctxSlots K).Nodup := by
    slots_tac hnd
  have hT1 : Rep a1 f.s pp (.node f.c tN f.s f.e (.node f.c SL s se (.node .red SRL sr er SRR))) :=
    Rep.setRed_right hT (List.nodup_append.mp hndT).1 hpr
  have hT2 : Rep a2 f.s pp (.node .black tN f.s f.e (.node f.c SL s se (.node .red SRL sr er SRR))) :=
    Rep.setRed_root hT1 (by slots_tac hnd) rfl
  have hT3 : Rep a3 f.s pp (.node .black tN f.s f.e (.node f.c SL s se (.node .black SRL sr er SRR))) :=
    Rep.setRed_rr hT2 (by slots_tac hnd) rfl
  have hK3 : RepCtx a3 K f.s pp :=
    ((hK.upd_other _ (by slots_tac hnd)).upd_other _ (by slots_tac hnd)).upd_other _ (by slots_tac hnd)
  obtain ⟨a4, hr4, hK4, hT4, hf4, _, hu4, hc4, hd4, hs4⟩ :=
    rotateLeft_rep (a := a3) (by simpa [a3, a2, a1] using hsize) hK3 hT3 (by slots_tac hnd)
  have hframe : ∀ x, x ∉ tN.slots ++ (f.s :: ((T.node cS SL s se (.node .red SRL sr er SRR)).slots ++ ctxSlots K)) → a4.node x = a.node x := by
    intro x hx
    rw [hf4 x (by slots_tac hx)]
    have h1 : x ≠ s := by slots_tac hx
    have h2 : x ≠ f.s := by slots_tac hx
    have h3 : x ≠ sr := by slots_tac hx
    simp [a3, a2, a1, Ne.symm h1, Ne.symm h2, Ne.symm h3]
  obtain ⟨j, hc5, hr5⟩ := Rep.down_left hK4 hT4
  have hj : j = f.s := hr5.1
  subst hj
  obtain ⟨j2, hc6, hr6⟩ := Rep.down_left hc5 hr5
  have hj2 : j2 = n := by rw [hr6.idx, hnidx]
  subst hj2
  have hcode : a.handleBlackSibling j2 s = a3.rotateLeft f.s := by
    simp only [Arena.handleBlackSibling, Option.bind_eq_bind, Option.pure_def, Option.bind_some, hnn, hsn, hnnp, hpn,
      hsrb, hslb, hpl, beq_self_eq_true, Bool.and_false, Bool.false_eq_true, if_false, Bool.not_true, Bool.false_and,
      if_true, hsrne]
    rw [Arena.setRed_eq _ hslt]
    simp only [Option.bind_some]
    rw [Arena.setRed_eq _ (by simpa using hplt)]
    simp only [Option.bind_some]
    rw [hsri, Arena.setRed_eq _ (by simpa using hsrlt)]
    simp only [Option.bind_some, a3, a2, a1]
  exact ⟨a4, by rw [hcode]; exact hr4, hc6, hr6, by rw [hu4]; simp [a3, a2, a1], by rw [hc4]; simp [a3, a2, a1],
    by rw [hd4]; simp [a3, a2, a1], by rw [hs4]; simp [a3, a2, a1], fun x hx => hframe x (by
      rwa [show ctxSlots (f :: K) = f.s :: ((T.node cS SL s se (.node .red SRL sr er SRR)).slots ++ ctxSlots K) by simp [ctxSlots, hsib]] at hx)⟩

end ITree

namespace ITree
variable {V : Type}

/-- `handle_black_sibling…`, right, outer nephew black (cases 5 and 6, mirrored) -/
theorem handleBlackSibling_R5 {a : Arena V} (hsize : a.nodes.size ≤ EMPTY) {f : Frame (Ent V)} {K : Ctx (Ent V)}
    {tN SL SRL SRR : T (Ent V)} {n s sr : Nat} {se er : Ent V} {cS cr : Color}
    (hside : f.side = .R) (hsib : f.sib = .node cS SL s se (.node cr SRL sr er SRR)) (hsl : SL.isBlack = true)
    (hc : RepCtx a (f :: K) n f.s) (hn : Rep a n f.s tN) (hnl : tN ≠ .leaf)
    (hnd : (tN.slots ++ ctxSlots (f :: K)).Nodup) :
    ∃ a', a.handleBlackSibling n s = some a' ∧
      RepCtx a' (⟨.black, f.s, f.e, SRR, .R⟩ :: ⟨f.c, sr, er, .node .black SL s se SRL, .R⟩ :: K) n f.s ∧
      Rep a' n f.s tN ∧
      a'.unused = a.unused ∧ a'.cap = a.cap ∧ a'.dflt = a.dflt ∧ a'.nodes.size = a.nodes.size ∧
      (∀ x, x ∉ tN.slots ++ ctxSlots (f :: K) → a'.node x = a.node x) := by
  have hnidx := hn.idx
  obtain ⟨hnmem, nn, hnn, hnnp⟩ := hn.node_mem hnl
  obtain ⟨pp, hT, hK⟩ := Rep.fill hc hn
  simp only [Frame.fill, hside, hsib] at hT
  rw [show ctxSlots (f :: K) = f.s :: ((T.node cS SL s se (.node cr SRL sr er SRR)).slots ++ ctxSlots K) by
    simp [ctxSlots, hsib]] at hnd
  have hT0 := hT
  obtain ⟨_, pn, hpn, hpp, hpr, hpe, hlS, hr⟩ := hT0
  have hlS0 := hlS
  obtain ⟨hsi, sn, hsn, _, _, _, hSL, hSR⟩ := hlS0
  have hsrb := hSR.isBlack hsize
  have hslb : a.isBlack sn.left = some true := by rw [hSL.isBlack hsize, hsl]
  obtain ⟨hsri, srn, hsrn, _⟩ := hSR
  have hprt : pn.right = n := by rw [hr.idx, hnidx]
  have hsrlt := node_lt hsrn
  have hslt := node_lt hsn
  have hplt := node_lt hpn
  have hsrne : (sn.right != EMPTY) = true := by rw [hsri]; simp; omega
  have hns : n ≠ s := by
    intro h; rw [h] at hnmem; revert hnmem; slots_tac hnd
  have hnl' : (n == pn.left) = false := by rw [hsi]; simpa using hns
  -- focus on the sibling
  obtain ⟨i, hcS, hrS'⟩ := Rep.down_left hK hT
  have hi : i = s := hrS'.1
  subst hi
  have hndS : ((T.node cS SL i se (.node cr SRL sr er SRR)).slots ++
      ctxSlots ((⟨f.c, f.s, f.e, tN, .L⟩ : Frame (Ent V)) :: K)).Nodup := by slots_tac hnd
  let a1 := a.upd sr fun m => { m with red := false }
  let a2 := a1.upd i fun m => { m with red := true }
  have hS1 : Rep a1 i f.s (.node cS SL i se (.node .black SRL sr er SRR)) :=
    Rep.setRed_right hrS' (List.nodup_append.mp hndS).1 rfl
  have hcS1 : RepCtx a1 ((⟨f.c, f.s, f.e, tN, .L⟩ : Frame (Ent V)) :: K) i f.s := hcS.upd_other _ (by slots_tac hnd)
  have hS2 : Rep a2 i f.s (.node .red SL i se (.node .black SRL sr er SRR)) :=
    Rep.setRed_root hS1 (by slots_tac hnd) rfl
  have hcS2 : RepCtx a2 ((⟨f.c, f.s, f.e, tN, .L⟩ : Frame (Ent V)) :: K) i f.s := hcS1.upd_other _ (by slots_tac hnd)
  obtain ⟨a3, hr3, hcS3, hS3, hf3, _, hu3, hc3, hd3, hs3⟩ :=
    rotateLeft_rep (a := a2) (by simpa [a2, a1] using hsize) hcS2 hS2 (by slots_tac hnd)
  -- back to the parent
  obtain ⟨pp3, hT3', hK3⟩ := Rep.fill hcS3 hS3
  have hT3 : Rep a3 f.s pp3 (.node f.c (.node .black (.node .red SL i se SRL) sr er SRR) f.s f.e tN) := hT3'
  have hT30 := hT3
  obtain ⟨_, pn3, hpn3, _, hpr3, _, hlS3, _⟩ := hT30
  obtain ⟨hsr3, sn3, hsn3, _, _, _, hS3l, _⟩ := hlS3
  have hs3l : sn3.left = i := hS3l.1
  have hsize3 : a3.nodes.size ≤ EMPTY := by rw [hs3]; simpa [a2, a1] using hsize
  have h3lt : ∀ x, x < a.nodes.size → x < a3.nodes.size := by intro x hx; rw [hs3]; simpa [a2, a1] using hx
  let a4 := a3.upd sr fun m => { m with red := pn3.red }
  let a5 := a4.upd f.s fun m => { m with red := false }
  let a6 := a5.upd i fun m => { m with red := false }
  have hndT3 : ((T.node f.c (.node .black (.node .red SL i se SRL) sr er SRR) f.s f.e tN).slots ++ ctxSlots K).Nodup := by
    slots_tac hnd
  have hT4 : Rep a4 f.s pp3 (.node f.c (.node f.c (.node .red SL i se SRL) sr er SRR) f.s f.e tN) :=
    Rep.setRed_left hT3 (List.nodup_append.mp hndT3).1 hpr3
  have hT5 : Rep a5 f.s pp3 (.node .black (.node f.c (.node .red SL i se SRL) sr er SRR) f.s f.e tN) :=
    Rep.setRed_root hT4 (by slots_tac hnd) rfl
  have hT6 : Rep a6 f.s pp3 (.node .black (.node f.c (.node .black SL i se SRL) sr er SRR) f.s f.e tN) :=
    Rep.setRed_ll hT5 (by slots_tac hnd) rfl
  have hK6 : RepCtx a6 K f.s pp3 :=
    ((hK3.upd_other _ (by slots_tac hnd)).upd_other _ (by slots_tac hnd)).upd_other _ (by slots_tac hnd)
  obtain ⟨a7, hr7, hK7, hT7, hf7, _, hu7, hc7, hd7, hs7⟩ :=
    rotateRight_rep (a := a6) (by simpa [a6, a5, a4] using hsize3) hK6 hT6 (by slots_tac hnd)
  have hframe : ∀ x, x ∉ tN.slots ++ (f.s :: ((T.node cS SL i se (.node cr SRL sr er SRR)).slots ++ ctxSlots K)) → a7.node x = a.node x := by
    intro x hx
    rw [hf7 x (by slots_tac hx)]
    have h1 : x ≠ sr := by slots_tac hx
    have h2 : x ≠ f.s := by slots_tac hx
    have h3 : x ≠ i := by slots_tac hx
    have e6 : a6.node x = a3.node x := by simp [a6, a5, a4, Ne.symm h1, Ne.symm h2, Ne.symm h3]
    rw [e6, hf3 x (by slots_tac hx)]
    simp [a2, a1, Ne.symm h1, Ne.symm h3]
  obtain ⟨j, hc8, hr8⟩ := Rep.down_right hK7 hT7
  have hj : j = f.s := hr8.1
  subst hj
  obtain ⟨j2, hc9, hr9⟩ := Rep.down_right hc8 hr8
  have hj2 : j2 = n := by rw [hr9.idx, hnidx]
  subst hj2
  have hcode : a.handleBlackSibling j2 i = a6.rotateRight f.s := by
    simp only [Arena.handleBlackSibling, Option.bind_eq_bind, Option.pure_def, Option.bind_some, hnn, hsn, hnnp, hpn,
      hsrb, hslb, hnl', Bool.false_and, Bool.false_eq_true, if_false, Bool.not_false, Bool.true_and, if_true, hsrne]
    rw [hsri, Arena.setRed_eq _ hsrlt]
    simp only [Option.bind_some]
    rw [Arena.setRed_eq _ (by simpa using hslt)]
    simp only [Option.bind_some]
    have : a2.rotateLeft i = some a3 := hr3
    simp only [a2, a1] at this
    rw [this]
    simp only [Option.bind_some, hpn3, hsr3, hsn3, hs3l]
    rw [Arena.setRed_eq _ (h3lt _ hsrlt)]
    simp only [Option.bind_some]
    rw [Arena.setRed_eq _ (by simpa using h3lt _ hplt)]
    simp only [Option.bind_some]
    have hine : (i != EMPTY) = true := by simp; omega
    simp only [hine, if_true]
    rw [Arena.setRed_eq _ (by simpa using h3lt _ hslt)]
    simp only [Option.bind_some, a6, a5, a4]
  refine ⟨a7, by rw [hcode]; exact hr7, hc9, hr9, ?_, ?_, ?_, ?_⟩
  · rw [hu7]; simp only [a6, a5, a4, Arena.unused_upd]; rw [hu3]; simp [a2, a1]
  · rw [hc7]; simp only [a6, a5, a4, Arena.cap_upd]; rw [hc3]; simp [a2, a1]
  · rw [hd7]; simp only [a6, a5, a4, Arena.dflt_upd]; rw [hd3]; simp [a2, a1]
  · refine ⟨by rw [hs7]; simp only [a6, a5, a4, Arena.size_upd]; rw [hs3]; simp [a2, a1], fun x hx => hframe x (by
      rwa [show ctxSlots (f :: K) = f.s :: ((T.node cS SL i se (.node cr SRL sr er SRR)).slots ++ ctxSlots K) by simp [ctxSlots, hsib]] at hx)⟩

/-- `handle_black_sibling…`, right, outer nephew red (case 6 only, mirrored) -/
theorem handleBlackSibling_R6 {a : Arena V} (hsize : a.nodes.size ≤ EMPTY) {f : Frame (Ent V)} {K : Ctx (Ent V)}
    {tN SLL SLR SR : T (Ent V)} {n s sl : Nat} {se el : Ent V} {cS : Color}
    (hside : f.side = .R) (hsib : f.sib = .node cS (.node .red SLL sl el SLR) s se SR)
    (hc : RepCtx a (f :: K) n f.s) (hn : Rep a n f.s tN) (hnl : tN ≠ .leaf)
    (hnd : (tN.slots ++ ctxSlots (f :: K)).Nodup) :
    ∃ a', a.handleBlackSibling n s = some a' ∧
      RepCtx a' (⟨.black, f.s, f.e, SR, .R⟩ :: ⟨f.c, s, se, .node .black SLL sl el SLR, .R⟩ :: K) n f.s ∧
      Rep a' n f.s tN ∧
      a'.unused = a.unused ∧ a'.cap = a.cap ∧ a'.dflt = a.dflt ∧ a'.nodes.size = a.nodes.size ∧
      (∀ x, x ∉ tN.slots ++ ctxSlots (f :: K) → a'.node x = a.node x) := by
  have hnidx := hn.idx
  obtain ⟨hnmem, nn, hnn, hnnp⟩ := hn.node_mem hnl
  obtain ⟨pp, hT, hK⟩ := Rep.fill hc hn
  simp only [Frame.fill, hside, hsib] at hT
  rw [show ctxSlots (f :: K) = f.s :: ((T.node cS (.node .red SLL sl el SLR) s se SR).slots ++ ctxSlots K) by
    simp [ctxSlots, hsib]] at hnd
  have hT0 := hT
  obtain ⟨_, pn, hpn, hpp, hpr, hpe, hlS, hr⟩ := hT0
  obtain ⟨hsi, sn, hsn, _, _, _, hSL, hSR⟩ := hlS
  have hsrb := hSR.isBlack hsize
  have hslb : a.isBlack sn.left = some false := by rw [hSL.isBlack hsize]; rfl
  obtain ⟨hsli, sln, hsln, _⟩ := hSL
  have hprt : pn.right = n := by rw [hr.idx, hnidx]
  have hsllt := node_lt hsln
  have hslt := node_lt hsn
  have hplt := node_lt hpn
  have hslne : (sn.left != EMPTY) = true := by rw [hsli]; simp; omega
  have hns : n ≠ s := by
    intro h; rw [h] at hnmem; revert hnmem; slots_tac hnd
  have hnl' : (n == pn.left) = false := by rw [hsi]; simpa using hns
  let a1 := a.upd s fun m => { m with red := pn.red }
  let a2 := a1.upd f.s fun m => { m with red := false }
  let a3 := a2.upd sl fun m => { m with red := false }
  have hndT : ((T.node f.c (.node cS (.node .red SLL sl el SLR) s se SR) f.s f.e tN).slots ++ ctxSlots K).Nodup := by
    slots_tac hnd
  have hT1 : Rep a1 f.s pp (.node f.c (.node f.c (.node .red SLL sl el SLR) s se SR) f.s f.e tN) :=
    Rep.setRed_left hT (List.nodup_append.mp hndT).1 hpr
  have hT2 : Rep a2 f.s pp (.node .black (.node f.c (.node .red SLL sl el SLR) s se SR) f.s f.e tN) :=
    Rep.setRed_root hT1 (by slots_tac hnd) rfl
  have hT3 : Rep a3 f.s pp (.node .black (.node f.c (.node .black SLL sl el SLR) s se SR) f.s f.e tN) :=
    Rep.setRed_ll hT2 (by slots_tac hnd) rfl
  have hK3 : RepCtx a3 K f.s pp :=
    ((hK.upd_other _ (by slots_tac hnd)).upd_other _ (by slots_tac hnd)).upd_other _ (by slots_tac hnd)
  obtain ⟨a4, hr4, hK4, hT4, hf4, _, hu4, hc4, hd4, hs4⟩ :=
    rotateRight_rep (a := a3) (by simpa [a3, a2, a1] using hsize) hK3 hT3 (by slots_tac hnd)
  have hframe : ∀ x, x ∉ tN.slots ++ (f.s :: ((T.node cS (.node .red SLL sl el SLR) s se SR).slots ++ ctxSlots K)) → a4.node x = a.node x := by
    intro x hx
    rw [hf4 x (by slots_tac hx)]
    have h1 : x ≠ s := by slots_tac hx
    have h2 : x ≠ f.s := by slots_tac hx
    have h3 : x ≠ sl := by slots_tac hx
    simp [a3, a2, a1, Ne.symm h1, Ne.symm h2, Ne.symm h3]
  obtain ⟨j, hc5, hr5⟩ := Rep.down_right hK4 hT4
  have hj : j = f.s := hr5.1
  subst hj
  obtain ⟨j2, hc6, hr6⟩ := Rep.down_right hc5 hr5
  have hj2 : j2 = n := by rw [hr6.idx, hnidx]
  subst hj2
  have hcode : a.handleBlackSibling j2 s = a3.rotateRight f.s := by
    simp only [Arena.handleBlackSibling, Option.bind_eq_bind, Option.pure_def, Option.bind_some, hnn, hsn, hnnp, hpn,
      hsrb, hslb, hnl', Bool.false_and, Bool.false_eq_true, if_false, Bool.not_false, Bool.and_false, if_true, hslne]
    rw [Arena.setRed_eq _ hslt]
    simp only [Option.bind_some]
    rw [Arena.setRed_eq _ (by simpa using hplt)]
    simp only [Option.bind_some]
    rw [hsli, Arena.setRed_eq _ (by simpa using hsllt)]
    simp only [Option.bind_some, a3, a2, a1]
  exact ⟨a4, by rw [hcode]; exact hr4, hc6, hr6, by rw [hu4]; simp [a3, a2, a1], by rw [hc4]; simp [a3, a2, a1],
    by rw [hd4]; simp [a3, a2, a1], by rw [hs4]; simp [a3, a2, a1], fun x hx => hframe x (by
      rwa [show ctxSlots (f :: K) = f.s :: ((T.node cS (.node .red SLL sl el SLR) s se SR).slots ++ ctxSlots K) by simp [ctxSlots, hsib]] at hx)⟩

end ITree

namespace ITree
variable {V : Type}

/-- the statement proved by induction on the fuel -/
def FixDeleteSpec (fuel : Nat) : Prop :=
  ∀ (a : Arena V) (k : Ctx (Ent V)) (tN : T (Ent V)) (n p : Nat),
    a.nodes.size ≤ EMPTY → k.length < fuel → RepCtx a k n p → Rep a n p tN → tN ≠ .leaf →
    (tN.slots ++ ctxSlots k).Nodup →
    ∀ k' d', fixUpD k true = some (k', d') →
    ∃ a', Arena.fixDelete fuel a n = some a' ∧ RepCtx a' k' n p ∧ Rep a' n p tN ∧
      a'.unused = a.unused ∧ a'.cap = a.cap ∧ a'.dflt = a.dflt ∧ a'.nodes.size = a.nodes.size ∧
      (∀ x, x ∉ tN.slots ++ ctxSlots k → a'.node x = a.node x)

theorem T.isBlack_red (l : T (Ent V)) (s : Nat) (e : Ent V) (r : T (Ent V)) :
    (T.node .red l s e r).isBlack = false := rfl

theorem T.not_black_red {t : T (Ent V)} (h : t.isBlack = false) : ∃ l s e r, t = .node .red l s e r := by
  cases t with
  | leaf => simp [T.isBlack] at h
  | node c l s e r =>
    cases c with
    | red => exact ⟨l, s, e, r, rfl⟩
    | black => simp [T.isBlack] at h

/-- the repair with a black sibling (cases 3–6), continuing upwards through `K` when the deficit persists -/
theorem fixTail_rep {fuel : Nat} (ih : FixDeleteSpec (V := V) fuel) {a : Arena V} (hsize : a.nodes.size ≤ EMPTY)
    {f : Frame (Ent V)} {K : Ctx (Ent V)} {tN SL SR : T (Ent V)} {n s : Nat} {se : Ent V} {cS : Color}
    (hfuel : f.c = .black → K.length < fuel)
    (hsib : f.sib = .node cS SL s se SR)
    (hc : RepCtx a (f :: K) n f.s) (hn : Rep a n f.s tN) (hnl : tN ≠ .leaf)
    (hnd : (tN.slots ++ ctxSlots (f :: K)).Nodup)
    {fs : Ctx (Ent V)} {d : Bool} (hm : fixBlackSib f = some (fs, d))
    {r : Ctx (Ent V)} {d' : Bool} (hr : fixUpD K d = some (r, d')) :
    ∃ a', Arena.fixTail fuel a n s = some a' ∧ RepCtx a' (fs ++ r) n f.s ∧ Rep a' n f.s tN ∧
      a'.unused = a.unused ∧ a'.cap = a.cap ∧ a'.dflt = a.dflt ∧ a'.nodes.size = a.nodes.size ∧
      (∀ x, x ∉ tN.slots ++ ctxSlots (f :: K) → a'.node x = a.node x) := by
  have hnidx := hn.idx
  obtain ⟨hnmem, nn, hnn, hnnp⟩ := hn.node_mem hnl
  obtain ⟨pp, hT, hK⟩ := Rep.fill hc hn
  have hctx0 := hc
  obtain ⟨_, pn, hpn, hpr, hpe, hpside, _⟩ := hctx0
  have hS : Rep a s f.s (.node cS SL s se SR) := by
    cases hs : f.side with
    | L => simp only [hs] at hpside; rw [hsib] at hpside; have := hpside.2; rwa [this.1] at this
    | R => simp only [hs] at hpside; rw [hsib] at hpside; have := hpside.2; rwa [this.1] at this
  have hS0 := hS
  obtain ⟨_, sn, hsn, _, _, _, hSL, hSR⟩ := hS0
  have hslb := hSL.isBlack hsize
  have hsrb := hSR.isBlack hsize
  have hslt := node_lt hsn
  have hplt := node_lt hpn
  have hnd0 := hnd
  rw [show ctxSlots (f :: K) = f.s :: ((T.node cS SL s se SR).slots ++ ctxSlots K) by simp [ctxSlots, hsib]] at hnd
  have hns : n ≠ s := by intro h; rw [h] at hnmem; revert hnmem; slots_tac hnd
  have hps : f.s ≠ s := by slots_tac hnd
  have hnp' : n ≠ f.s := by intro h; rw [h] at hnmem; revert hnmem; slots_tac hnd
  by_cases hbb : (SL.isBlack && SR.isBlack) = true
  · -- cases 3 + 4: recolour the sibling red
    simp only [fixBlackSib, hsib, hbb, if_true, Option.some.injEq, Prod.mk.injEq] at hm
    obtain ⟨rfl, rfl⟩ := hm
    let a1 := a.upd s fun m => { m with red := true }
    have h1n : a1.node n = some nn := by simp [a1, Ne.symm hns, hnn]
    have h1p : a1.node f.s = some pn := by simp [a1, Ne.symm hps, hpn]
    have hK1 : RepCtx a1 K f.s pp := hK.upd_other _ (by slots_tac hnd)
    have hcode : Arena.fixTail fuel a n s =
        (if pn.red then a1.setRed f.s false else Arena.fixDelete fuel a1 f.s) := by
      simp only [Arena.fixTail, hsn, Option.bind_eq_bind, Option.bind_some, hslb, hsrb, hbb, if_true]
      rw [Arena.setRed_eq _ hslt]
      simp only [a1] at h1n h1p
      simp only [Option.bind_some, h1n, hnnp, h1p, a1]
    -- the subtree at p with the recoloured sibling
    have hT1 : Rep a1 f.s pp (Frame.fill { f with sib := .node .red SL s se SR } tN) := by
      cases hs : f.side with
      | L =>
        simp only [Frame.fill, hs, hsib] at hT ⊢
        exact Rep.setRed_right hT (by slots_tac hnd) rfl
      | R =>
        simp only [Frame.fill, hs, hsib] at hT ⊢
        exact Rep.setRed_left hT (by slots_tac hnd) rfl
    rw [hcode]
    by_cases hred : f.c = .red
    · have hpred : pn.red = true := by rw [hpr, hred]; rfl
      have hd : (f.c == Color.black) = false := by rw [hred]; rfl
      rw [hd, fixUpD_false] at hr
      simp only [Option.some.injEq, Prod.mk.injEq] at hr
      obtain ⟨rfl, rfl⟩ := hr
      simp only [hpred, if_true]
      let a2 := a1.upd f.s fun m => { m with red := false }
      have hK2 : RepCtx a2 K f.s pp := hK1.upd_other _ (by slots_tac hnd)
      have hT2 : Rep a2 f.s pp (Frame.fill { f with c := .black, sib := .node .red SL s se SR } tN) := by
        cases hs : f.side with
        | L =>
          simp only [Frame.fill, hs] at hT1 ⊢
          exact Rep.setRed_root hT1 (by slots_tac hnd) rfl
        | R =>
          simp only [Frame.fill, hs] at hT1 ⊢
          exact Rep.setRed_root hT1 (by slots_tac hnd) rfl
      refine ⟨a2, Arena.setRed_eq _ (by simpa [a1] using hplt), ?_, ?_, by simp [a2, a1], by simp [a2, a1],
        by simp [a2, a1], by simp [a2, a1], ?_⟩
      rotate_left 2
      · intro x hx
        rw [show ctxSlots (f :: K) = f.s :: ((T.node cS SL s se SR).slots ++ ctxSlots K) by simp [ctxSlots, hsib]] at hx
        have h1 : x ≠ s := by slots_tac hx
        have h2 : x ≠ f.s := by slots_tac hx
        simp [a2, a1, Ne.symm h1, Ne.symm h2]
      · cases hs : f.side with
        | L =>
          simp only [Frame.fill, hs] at hT2
          obtain ⟨j, hcj, hrj⟩ := Rep.down_left hK2 hT2
          have : j = n := by rw [hrj.idx, hnidx]
          subst this
          have hfe : ({ f with c := .black, sib := .node .red SL s se SR } : Frame (Ent V)) =
              ⟨.black, f.s, f.e, .node .red SL s se SR, .L⟩ := by cases f; simp_all
          simpa [hfe] using hcj
        | R =>
          simp only [Frame.fill, hs] at hT2
          obtain ⟨j, hcj, hrj⟩ := Rep.down_right hK2 hT2
          have : j = n := by rw [hrj.idx, hnidx]
          subst this
          have hfe : ({ f with c := .black, sib := .node .red SL s se SR } : Frame (Ent V)) =
              ⟨.black, f.s, f.e, .node .red SL s se SR, .R⟩ := by cases f; simp_all
          simpa [hfe] using hcj
      · cases hs : f.side with
        | L =>
          simp only [Frame.fill, hs] at hT2
          obtain ⟨j, _, hrj⟩ := Rep.down_left hK2 hT2
          have : j = n := by rw [hrj.idx, hnidx]
          subst this; exact hrj
        | R =>
          simp only [Frame.fill, hs] at hT2
          obtain ⟨j, _, hrj⟩ := Rep.down_right hK2 hT2
          have : j = n := by rw [hrj.idx, hnidx]
          subst this; exact hrj
    · -- black parent: the deficit moves up
      have hblack : f.c = .black := by cases hc' : f.c <;> simp_all
      have hpred : pn.red = false := by rw [hpr, hblack]; rfl
      have hd : (f.c == Color.black) = true := by rw [hblack]; rfl
      rw [hd] at hr
      simp only [hpred, Bool.false_eq_true, if_false]
      have hfe : ({ f with c := .black, sib := .node .red SL s se SR } : Frame (Ent V)) =
          { f with sib := .node .red SL s se SR } := by cases f; simp_all
      have hnd1 : ((Frame.fill { f with sib := .node .red SL s se SR } tN).slots ++ ctxSlots K).Nodup := by
        cases hs : f.side with
        | L => simp only [Frame.fill, hs]; slots_tac hnd
        | R => simp only [Frame.fill, hs]; slots_tac hnd
      obtain ⟨a', h1, h2, h3, h4, h5, h6, h7, h8⟩ := ih a1 K _ f.s pp (by simpa [a1] using hsize) (hfuel hblack) hK1 hT1
        (fill_ne_leaf _ _) hnd1 r d' hr
      refine ⟨a', h1, ?_, ?_, by rw [h4]; simp [a1], by rw [h5]; simp [a1], by rw [h6]; simp [a1], by rw [h7]; simp [a1], ?_⟩
      rotate_left 2
      · intro x hx
        rw [show ctxSlots (f :: K) = f.s :: ((T.node cS SL s se SR).slots ++ ctxSlots K) by simp [ctxSlots, hsib]] at hx
        have h1' : x ≠ s := by slots_tac hx
        rw [h8 x (by
          cases hs : f.side with
          | L => simp only [Frame.fill, hs]; slots_tac hx
          | R => simp only [Frame.fill, hs]; slots_tac hx)]
        simp [a1, Ne.symm h1']
      · rw [hfe]
        cases hs : f.side with
        | L =>
          simp only [Frame.fill, hs] at h3
          obtain ⟨j, hcj, hrj⟩ := Rep.down_left h2 h3
          have : j = n := by rw [hrj.idx, hnidx]
          subst this
          have hfe2 : ({ f with sib := .node .red SL s se SR } : Frame (Ent V)) =
              ⟨f.c, f.s, f.e, .node .red SL s se SR, .L⟩ := by cases f; simp_all
          simpa [hfe2] using hcj
        | R =>
          simp only [Frame.fill, hs] at h3
          obtain ⟨j, hcj, hrj⟩ := Rep.down_right h2 h3
          have : j = n := by rw [hrj.idx, hnidx]
          subst this
          have hfe2 : ({ f with sib := .node .red SL s se SR } : Frame (Ent V)) =
              ⟨f.c, f.s, f.e, .node .red SL s se SR, .R⟩ := by cases f; simp_all
          simpa [hfe2] using hcj
      · cases hs : f.side with
        | L =>
          simp only [Frame.fill, hs] at h3
          obtain ⟨j, _, hrj⟩ := Rep.down_left h2 h3
          have : j = n := by rw [hrj.idx, hnidx]
          subst this; exact hrj
        | R =>
          simp only [Frame.fill, hs] at h3
          obtain ⟨j, _, hrj⟩ := Rep.down_right h2 h3
          have : j = n := by rw [hrj.idx, hnidx]
          subst this; exact hrj
  · -- cases 5 / 6: a red nephew
    have hbb' : (SL.isBlack && SR.isBlack) = false := by simpa using hbb
    have hcode : Arena.fixTail fuel a n s = a.handleBlackSibling n s := by
      simp only [Arena.fixTail, hsn, Option.bind_eq_bind, Option.bind_some, hslb, hsrb, hbb', Bool.false_eq_true,
        if_false]
    rw [hcode]
    cases hs : f.side with
    | L =>
      by_cases hsrB : SR.isBlack = true
      · have hslB : SL.isBlack = false := by cases h : SL.isBlack <;> simp_all
        obtain ⟨SLL, sl, el, SLR, rfl⟩ := T.not_black_red hslB
        simp only [fixBlackSib, hsib, hs, hsrB, T.isBlack_red, Bool.and_true, Bool.false_and, Bool.and_false, beq_iff_eq,
          reduceCtorEq, Bool.false_eq_true, if_false, if_true, Option.some.injEq, Prod.mk.injEq] at hm
        obtain ⟨rfl, rfl⟩ := hm
        rw [fixUpD_false] at hr
        simp only [Option.some.injEq, Prod.mk.injEq] at hr
        obtain ⟨rfl, rfl⟩ := hr
        obtain ⟨a', h1, h2, h3, h4⟩ := handleBlackSibling_L5 hsize hs hsib hsrB hc hn hnl hnd0
        have hfe : ({ f with c := .black, sib := SLL } : Frame (Ent V)) = ⟨.black, f.s, f.e, SLL, .L⟩ := by
          cases f; simp_all
        exact ⟨a', h1, by simpa [hfe] using h2, h3, h4⟩
      · have hsrB' : SR.isBlack = false := by simpa using hsrB
        obtain ⟨SRL, sr, er, SRR, rfl⟩ := T.not_black_red hsrB'
        simp only [fixBlackSib, hsib, hs, T.isBlack_red, Bool.and_true, Bool.false_and, Bool.and_false, beq_iff_eq,
          reduceCtorEq, Bool.false_eq_true, if_false, Option.some.injEq, Prod.mk.injEq, T.setColor] at hm
        obtain ⟨rfl, rfl⟩ := hm
        rw [fixUpD_false] at hr
        simp only [Option.some.injEq, Prod.mk.injEq] at hr
        obtain ⟨rfl, rfl⟩ := hr
        obtain ⟨a', h1, h2, h3, h4⟩ := handleBlackSibling_L6 hsize hs hsib hc hn hnl hnd0
        have hfe : ({ f with c := .black, sib := SL } : Frame (Ent V)) = ⟨.black, f.s, f.e, SL, .L⟩ := by
          cases f; simp_all
        exact ⟨a', h1, by simpa [hfe] using h2, h3, h4⟩
    | R =>
      by_cases hslB : SL.isBlack = true
      · have hsrB : SR.isBlack = false := by cases h : SR.isBlack <;> simp_all
        obtain ⟨SRL, sr, er, SRR, rfl⟩ := T.not_black_red hsrB
        simp only [fixBlackSib, hsib, hs, hslB, T.isBlack_red, Bool.and_true, Bool.true_and, Bool.false_and, Bool.and_false,
          beq_iff_eq, reduceCtorEq, Bool.false_eq_true, if_false, if_true, Option.some.injEq, Prod.mk.injEq] at hm
        obtain ⟨rfl, rfl⟩ := hm
        rw [fixUpD_false] at hr
        simp only [Option.some.injEq, Prod.mk.injEq] at hr
        obtain ⟨rfl, rfl⟩ := hr
        obtain ⟨a', h1, h2, h3, h4⟩ := handleBlackSibling_R5 hsize hs hsib hslB hc hn hnl hnd0
        have hfe : ({ f with c := .black, sib := SRR } : Frame (Ent V)) = ⟨.black, f.s, f.e, SRR, .R⟩ := by
          cases f; simp_all
        exact ⟨a', h1, by simpa [hfe] using h2, h3, h4⟩
      · have hslB' : SL.isBlack = false := by simpa using hslB
        obtain ⟨SLL, sl, el, SLR, rfl⟩ := T.not_black_red hslB'
        simp only [fixBlackSib, hsib, hs, T.isBlack_red, Bool.and_true, Bool.false_and, Bool.and_false, beq_iff_eq,
          reduceCtorEq, Bool.false_eq_true, if_false, Option.some.injEq, Prod.mk.injEq, T.setColor] at hm
        obtain ⟨rfl, rfl⟩ := hm
        rw [fixUpD_false] at hr
        simp only [Option.some.injEq, Prod.mk.injEq] at hr
        obtain ⟨rfl, rfl⟩ := hr
        obtain ⟨a', h1, h2, h3, h4⟩ := handleBlackSibling_R6 hsize hs hsib hc hn hnl hnd0
        have hfe : ({ f with c := .black, sib := SR } : Frame (Ent V)) = ⟨.black, f.s, f.e, SR, .R⟩ := by
          cases f; simp_all
        exact ⟨a', h1, by simpa [hfe] using h2, h3, h4⟩

theorem fixBlackSib_red_parent {f : Frame (Ent V)} {fs : Ctx (Ent V)} {d : Bool}
    (h : fixBlackSib f = some (fs, d)) (hc : f.c = .red) : d = false := by
  simp only [fixBlackSib] at h
  split at h
  · simp at h
  · split at h
    · simp only [Option.some.injEq, Prod.mk.injEq] at h; rw [← h.2, hc]; rfl
    · split at h
      · split at h
        · split at h
          · simp only [Option.some.injEq, Prod.mk.injEq] at h; exact h.2.symm
          · simp at h
        · simp only [Option.some.injEq, Prod.mk.injEq] at h; exact h.2.symm
      · split at h
        · split at h
          · simp only [Option.some.injEq, Prod.mk.injEq] at h; exact h.2.symm
          · simp at h
        · simp only [Option.some.injEq, Prod.mk.injEq] at h; exact h.2.symm

/-- **`fix_red_black_properties_after_delete`** on the arena realises `fixUpD` of the zipper model, for every
context, tree shape and deficit position; it never indexes outside the arena -/
theorem fixDelete_rep : ∀ fuel, FixDeleteSpec (V := V) fuel := by
  intro fuel
  induction fuel with
  | zero => intro a k tN n p _ h; omega
  | succ fuel ih =>
    intro a k tN n p hsize hfuel hc hn hnl hnd k' d' hm
    cases k with
    | nil =>
      simp only [fixUpD, Option.some.injEq, Prod.mk.injEq] at hm
      obtain ⟨rfl, rfl⟩ := hm
      have hroot := hc.2
      refine ⟨a, ?_, hc, hn, rfl, rfl, rfl, rfl, fun _ _ => rfl⟩
      rw [fixDelete_eq]; simp [hroot]
    | cons f K =>
      have hp : p = f.s := hc.1
      subst hp
      obtain ⟨hnmem, _⟩ := hn.node_mem hnl
      have hroot : (n == a.root) = false := by
        have h1 := hc.root_mem (by simp)
        have : n ≠ a.root := by
          intro h; rw [← h] at h1
          exact (List.nodup_append.mp hnd).2.2 n hnmem n h1 rfl
        simpa using this
      obtain ⟨s, nn, pn, hnn, hnp, hpn, hgs, hS, hnl', hpr⟩ := getSibling_rep hsize hc hn hnl hnd
      simp only [fixUpD] at hm
      cases hff : fixFrame f with
      | none => simp [hff] at hm
      | some x =>
      obtain ⟨fs, d⟩ := x
      simp only [hff] at hm
      cases hr : fixUpD K d with
      | none => simp [hr] at hm
      | some y =>
      obtain ⟨r, d2⟩ := y
      simp only [hr, Option.map_some, Option.some.injEq, Prod.mk.injEq] at hm
      obtain ⟨rfl, rfl⟩ := hm
      cases hsib : f.sib with
      | leaf => simp [fixFrame, fixBlackSib, hsib] at hff
      | node cS SL s' se SR =>
      rw [hsib] at hS
      have hss : s = s' := hS.1
      subst hss
      have hS0 := hS
      obtain ⟨_, sn, hsn, _, hsr, _⟩ := hS0
      rw [fixDelete_eq]
      simp only [hroot, Bool.false_eq_true, if_false, hgs, Option.bind_some, hsn]
      have hKlen : K.length < fuel := by simp at hfuel; omega
      cases cS with
      | black =>
        have hsred : sn.red = false := by rw [hsr]; rfl
        simp only [hsred, Bool.false_eq_true, if_false]
        have hff' : fixBlackSib f = some (fs, d) := by simpa [fixFrame, hsib] using hff
        exact fixTail_rep ih hsize (fun _ => hKlen) hsib hc hn hnl hnd hff' hr
      | red =>
        have hsred : sn.red = true := by rw [hsr]; rfl
        simp only [hsred, if_true]
        cases hs : f.side with
        | L =>
          simp only [fixFrame, hsib, hs] at hff
          cases hb : fixBlackSib (⟨.red, f.s, f.e, SL, .L⟩ : Frame (Ent V)) with
          | none => rw [hb] at hff; simp at hff
          | some z =>
          obtain ⟨fs0, d0⟩ := z
          rw [hb] at hff
          simp only [Option.map_some, Option.some.injEq, Prod.mk.injEq] at hff
          obtain ⟨rfl, rfl⟩ := hff
          rw [fixUpD_false] at hr
          simp only [Option.some.injEq, Prod.mk.injEq] at hr
          obtain ⟨rfl, rfl⟩ := hr
          have hd0 : d0 = false := fixBlackSib_red_parent hb rfl
          subst hd0
          obtain ⟨a1, h1, hc1, hn1, hu1, hcap1, hd1, hs1, hfr1⟩ := handleRedSibling_L hsize hs hsib hc hn hnl hnd
          have hsize1 : a1.nodes.size ≤ EMPTY := by rw [hs1]; exact hsize
          have hnd1 : (tN.slots ++ ctxSlots ((⟨.red, f.s, f.e, SL, .L⟩ : Frame (Ent V)) :: ⟨.black, s, se, SR, .L⟩ :: K)).Nodup := by
            rw [show ctxSlots (f :: K) = f.s :: ((T.node .red SL s se SR).slots ++ ctxSlots K) by simp [ctxSlots, hsib]] at hnd
            slots_tac hnd
          obtain ⟨s1, _, _, _, _, _, hgs1, hS1, _, _⟩ :=
            getSibling_rep (f := ⟨.red, f.s, f.e, SL, .L⟩) hsize1 hc1 hn1 hnl hnd1
          cases hSL : SL with
          | leaf => simp [fixBlackSib, hSL] at hb
          | node cS1 SL1 s1' se1 SR1 =>
          subst hSL
          have hs1' : s1 = s1' := hS1.1
          subst hs1'
          obtain ⟨a', h2, hc2, hn2, hu2, hcap2, hd2, hs2, hfr2⟩ :=
            fixTail_rep (f := ⟨.red, f.s, f.e, _, .L⟩) ih hsize1 (fun h => by cases h) rfl hc1 hn1 hnl hnd1 hb
              (fixUpD_false _)
          refine ⟨a', ?_, by simpa using hc2, hn2, by rw [hu2, hu1], by rw [hcap2, hcap1], by rw [hd2, hd1], by rw [hs2, hs1], ?_⟩
          · simp only [h1, Option.bind_some, hgs1]
            exact h2
          · intro x hx
            rw [hfr2 x (by
              rw [show ctxSlots (f :: K) = f.s :: (f.sib.slots ++ ctxSlots K) by simp [ctxSlots], hsib] at hx
              slots_tac hx), hfr1 x hx]
        | R =>
          simp only [fixFrame, hsib, hs] at hff
          cases hb : fixBlackSib (⟨.red, f.s, f.e, SR, .R⟩ : Frame (Ent V)) with
          | none => rw [hb] at hff; simp at hff
          | some z =>
          obtain ⟨fs0, d0⟩ := z
          rw [hb] at hff
          simp only [Option.map_some, Option.some.injEq, Prod.mk.injEq] at hff
          obtain ⟨rfl, rfl⟩ := hff
          rw [fixUpD_false] at hr
          simp only [Option.some.injEq, Prod.mk.injEq] at hr
          obtain ⟨rfl, rfl⟩ := hr
          have hd0 : d0 = false := fixBlackSib_red_parent hb rfl
          subst hd0
          obtain ⟨a1, h1, hc1, hn1, hu1, hcap1, hd1, hs1, hfr1⟩ := handleRedSibling_R hsize hs hsib hc hn hnl hnd
          have hsize1 : a1.nodes.size ≤ EMPTY := by rw [hs1]; exact hsize
          have hnd1 : (tN.slots ++ ctxSlots ((⟨.red, f.s, f.e, SR, .R⟩ : Frame (Ent V)) :: ⟨.black, s, se, SL, .R⟩ :: K)).Nodup := by
            rw [show ctxSlots (f :: K) = f.s :: ((T.node .red SL s se SR).slots ++ ctxSlots K) by simp [ctxSlots, hsib]] at hnd
            slots_tac hnd
          obtain ⟨s1, _, _, _, _, _, hgs1, hS1, _, _⟩ :=
            getSibling_rep (f := ⟨.red, f.s, f.e, SR, .R⟩) hsize1 hc1 hn1 hnl hnd1
          cases hSR : SR with
          | leaf => simp [fixBlackSib, hSR] at hb
          | node cS1 SL1 s1' se1 SR1 =>
          subst hSR
          have hs1' : s1 = s1' := hS1.1
          subst hs1'
          obtain ⟨a', h2, hc2, hn2, hu2, hcap2, hd2, hs2, hfr2⟩ :=
            fixTail_rep (f := ⟨.red, f.s, f.e, _, .R⟩) ih hsize1 (fun h => by cases h) rfl hc1 hn1 hnl hnd1 hb
              (fixUpD_false _)
          refine ⟨a', ?_, by simpa using hc2, hn2, by rw [hu2, hu1], by rw [hcap2, hcap1], by rw [hd2, hd1], by rw [hs2, hs1], ?_⟩
          · simp only [h1, Option.bind_some, hgs1]
            exact h2
          · intro x hx
            rw [hfr2 x (by
              rw [show ctxSlots (f :: K) = f.s :: (f.sib.slots ++ ctxSlots K) by simp [ctxSlots], hsib] at hx
              slots_tac hx), hfr1 x hx]

end ITree

namespace ITree
variable {V : Type}

/-- `remove_parents_child`-style link update: the hole of `f :: K` gets a new occupant index without touching
the occupant (used with `EMPTY_REF` and with the NIL scratch slot) -/
theorem removeParentsChild_ctx {a : Arena V} (hsize : a.nodes.size ≤ EMPTY) {f : Frame (Ent V)} {K : Ctx (Ent V)}
    {old new : Nat} (hc : RepCtx a (f :: K) old f.s) (hold : old ∉ f.sib.slots) (holdne : old ≠ EMPTY)
    (hnd : (ctxSlots (f :: K)).Nodup) :
    ∃ a', a.removeParentsChild f.s old new = some a' ∧ RepCtx a' (f :: K) new f.s ∧
      (∀ j, j ≠ f.s → a'.node j = a.node j) ∧ a'.root = a.root ∧
      a'.unused = a.unused ∧ a'.cap = a.cap ∧ a'.dflt = a.dflt ∧ a'.nodes.size = a.nodes.size := by
  obtain ⟨_, pn, hpn, hpr, hpe, hside, hrest⟩ := hc
  have hplt := node_lt hpn
  simp only [ctxSlots, List.nodup_cons, List.mem_append, not_or] at hnd
  obtain ⟨⟨hfsib, hfk⟩, _⟩ := hnd
  cases hs : f.side with
  | L =>
    simp only [hs] at hside
    refine ⟨a.upd f.s fun m => { m with left := new }, ?_, ?_, ?_, by simp, by simp, by simp, by simp, by simp⟩
    · simp only [Arena.removeParentsChild, hpn, Option.bind_eq_bind, Option.bind_some, hside.1, beq_self_eq_true,
        Bool.true_or, Bool.not_true, Bool.false_eq_true, if_false, if_true]
      exact Arena.setLeft_eq _ hplt
    · refine ⟨rfl, { pn with left := new }, by simp [hpn], hpr, hpe, ?_, hrest.upd_other _ hfk⟩
      simp only [hs]
      exact ⟨trivial, hside.2.upd_other _ hfsib⟩
    · intro j hj; simp [Ne.symm hj]
  | R =>
    simp only [hs] at hside
    have hne : pn.left ≠ old := by
      intro h
      by_cases he : pn.left = EMPTY
      · omega
      · exact hold (h ▸ hside.2.rootIdx_mem he)
    have hb : (pn.left == old) = false := by simpa using hne
    refine ⟨a.upd f.s fun m => { m with right := new }, ?_, ?_, ?_, by simp, by simp, by simp, by simp, by simp⟩
    · simp only [Arena.removeParentsChild, hpn, Option.bind_eq_bind, Option.bind_some, hside.1, beq_self_eq_true,
        Bool.or_true, Bool.not_true, Bool.false_eq_true, if_false, hb]
      exact Arena.setRight_eq _ hplt
    · refine ⟨rfl, { pn with right := new }, by simp [hpn], hpr, hpe, ?_, hrest.upd_other _ hfk⟩
      simp only [hs]
      exact ⟨trivial, hside.2.upd_other _ hfsib⟩
    · intro j hj; simp [Ne.symm hj]

/-- `put_back` is `Pool.free` -/
theorem putBack_pool (a : Arena V) (i : Nat) : poolOf (a.putBack i) = (poolOf a).free i := by
  simp [poolOf, Arena.putBack, Pool.free]

end ITree

namespace ITree
variable {V : Type}

/-- the second half of `delete_index`: unlink the node `del` (which has at most one child), repair, free -/
def Arena.unlink (a : Arena V) (del ndLeft ndRight ndParent : Nat) (ndRed : Bool) : Option (Arena V) := do
  let fuel := a.nodes.size + 1
  let a ←
    if ndLeft != EMPTY then do
      let a ← a.replaceParentsChild ndParent del ndLeft
      Arena.fixDelete fuel a ndLeft
    else if ndRight != EMPTY then do
      let a ← a.replaceParentsChild ndParent del ndRight
      Arena.fixDelete fuel a ndRight
    else if ndParent == EMPTY then
      pure { a with root := EMPTY }
    else if !ndRed then do
      let a ← a.modify 0 fun nd => { nd with parent := ndParent, left := EMPTY, right := EMPTY, red := true }
      let a ← a.removeParentsChild ndParent del 0
      let a ← Arena.fixDelete fuel a 0
      let nil ← a.node 0
      a.removeParentsChild nil.parent 0 EMPTY
    else a.removeParentsChild ndParent del EMPTY
  return a.putBack del

theorem deleteIndex_eq (a : Arena V) (index : Nat) :
    a.deleteIndex index = (a.node index).bind fun n =>
      if (n.left != EMPTY && n.right != EMPTY) = true then
        (Arena.findLeftMinimum (a.nodes.size + 1) a n.right).bind fun succ => (a.node succ).bind fun sn =>
          (a.setEnt index sn.ent).bind fun a' => a'.unlink succ sn.left sn.right sn.parent sn.red
      else a.unlink index n.left n.right n.parent n.red := by
  simp only [Arena.deleteIndex, Arena.unlink, Option.bind_eq_bind, Option.pure_def, Option.bind_some]

end ITree

namespace ITree
variable {V : Type}

/-- model of the second half of `delete_index` at a node with at most one child, in context `KK` -/
def unlinkM (KK : Ctx (Ent V)) (c : Color) (l r : T (Ent V)) : Option (Ctx (Ent V) × T (Ent V)) :=
  match l, r with
  | .node .., _ => (fixUp KK true).map (·, l)
  | .leaf, .node .. => (fixUp KK true).map (·, r)
  | .leaf, .leaf =>
    match KK with
    | [] => some ([], .leaf)
    | _ :: _ => (fixUp KK (c == .black)).map (·, .leaf)

theorem ctx_fuel {a : Arena V} {KK : Ctx (Ent V)} {i p : Nat} (hc : RepCtx a KK i p) (hnd : (ctxSlots KK).Nodup) :
    KK.length < a.nodes.size + 1 := by
  have h1 := ctxSlots_length KK
  have h2 := nodup_lt_length _ _ hnd hc.slots_lt
  omega

/-- replacing the unlinked node by its only child, then repairing -/
theorem unlink_child {a : Arena V} (hsize : a.nodes.size ≤ EMPTY) {KK : Ctx (Ent V)} {tC : T (Ent V)}
    {del p c : Nat} {nd : ANode V}
    (hc : RepCtx a KK del p) (hdel : a.node del = some nd) (hC : Rep a c del tC) (hCnl : tC ≠ .leaf)
    (hnd : (del :: (tC.slots ++ ctxSlots KK)).Nodup)
    {KK' : Ctx (Ent V)} (hm : fixUp KK true = some KK') :
    ∃ a', (a.replaceParentsChild p del c).bind (fun a1 => Arena.fixDelete (a.nodes.size + 1) a1 c) = some a' ∧
      Rep a' a'.root EMPTY (plug KK' tC) ∧
      a'.unused = a.unused ∧ a'.cap = a.cap ∧ a'.dflt = a.dflt ∧ a'.nodes.size = a.nodes.size ∧
      (∀ x, x ∉ tC.slots ++ ctxSlots KK → a'.node x = a.node x) := by
  cases tC with
  | leaf => exact absurd rfl hCnl
  | node cc lc sc ec rc =>
  obtain ⟨rfl, nc, hnc, _, hcr, hce, hcl, hcrr⟩ := hC
  have hclt := node_lt hnc
  obtain ⟨a1, h1, hc1, hn1, hoth1, _, hu1, hcap1, hd1, hs1⟩ :=
    replaceParentsChild_ctx (a := a) (k := KK) (old := del) (new := c) (p := p) hsize hc hnc ⟨_, hdel⟩
      (by slots_tac hnd) (by slots_tac hnd) (by slots_tac hnd)
  have hpne : ∀ s, s < a.nodes.size → s ∉ ctxSlots KK → p ≠ s := fun s h1 h2 => hc.parent_ne hsize h1 h2
  have hkeep : ∀ s ∈ lc.slots ++ rc.slots, a1.node s = a.node s := by
    intro s hs
    have hlt : s < a.nodes.size := by
      simp only [List.mem_append] at hs
      rcases hs with h | h
      · exact hcl.slots_lt s h
      · exact hcrr.slots_lt s h
    refine hoth1 s ?_ (Ne.symm (hpne s hlt ?_))
    · revert hs; slots_tac hnd
    · revert hs; slots_tac hnd
  have hC1 : Rep a1 c p (.node cc lc c ec rc) :=
    ⟨rfl, _, hn1, rfl, hcr, hce, Rep.congr (fun s hs => hkeep s (by simp [hs])) hcl,
      Rep.congr (fun s hs => hkeep s (by simp [hs])) hcrr⟩
  simp only [fixUp] at hm
  cases hfu : fixUpD KK true with
  | none => simp [hfu] at hm
  | some x =>
  obtain ⟨K2, d2⟩ := x
  simp only [hfu, Option.map_some, Option.some.injEq] at hm
  subst hm
  have hfuel : KK.length < a.nodes.size + 1 := ctx_fuel hc (by slots_tac hnd)
  obtain ⟨a2, h2, hc2, hn2, hu2, hcap2, hd2, hs2, hfr2⟩ := fixDelete_rep (a.nodes.size + 1) a1 KK _ c p
    (by rw [hs1]; exact hsize) hfuel hc1 hC1 (by simp) (by slots_tac hnd) K2 d2 hfu
  refine ⟨a2, by rw [h1]; exact h2, Rep.plug hc2 hn2, by rw [hu2, hu1], by rw [hcap2, hcap1], by rw [hd2, hd1],
    by rw [hs2, hs1], ?_⟩
  intro x hx
  rw [hfr2 x hx]
  by_cases hxl : x < a.nodes.size
  · exact hoth1 x (by slots_tac hx) (Ne.symm (hpne x hxl (by slots_tac hx)))
  · exact node_eq_of_size hs1 (by omega)

end ITree

namespace ITree
variable {V : Type}

/-- the repair only rearranges the context: same slots -/
theorem fixUpD_slots {k k' : Ctx (Ent V)} {d d' : Bool} (h : fixUpD k d = some (k', d')) :
    (ctxSlots k').Perm (ctxSlots k) := by
  obtain ⟨h1, h2⟩ := fixUpD_loc k d h
  have e : (ITree.plug k' (.leaf : T (Ent V))).slots = (ITree.plug k .leaf).slots := by
    simp only [T.slots, toList_plug, h1, h2]
  have p1 := slots_plug k' (.leaf : T (Ent V))
  have p2 := slots_plug k (.leaf : T (Ent V))
  simp only [T.slots_leaf, List.nil_append] at p1 p2
  exact p1.symm.trans (e ▸ p2)

/-- the scratch slot 0 never links to a real node -/
def ZeroOK (a : Arena V) : Prop :=
  ∀ n, a.node 0 = some n → (n.left = 0 ∨ n.left = EMPTY) ∧ (n.right = 0 ∨ n.right = EMPTY)

/-- **the second half of `delete_index`** (unlink a node with at most one child, repair, free its slot) -/
theorem unlink_rep {a : Arena V} (hsize : a.nodes.size ≤ EMPTY) {KK : Ctx (Ent V)} {cD : Color} {lD rD : T (Ent V)}
    {eD : Ent V} {del p : Nat}
    (hc : RepCtx a KK del p) (hr : Rep a del p (.node cD lD del eD rD))
    (hnd : ((T.node cD lD del eD rD).slots ++ ctxSlots KK).Nodup)
    (h0 : 0 < a.nodes.size) (h0s : 0 ∉ (T.node cD lD del eD rD).slots ++ ctxSlots KK)
    {KK' : Ctx (Ent V)} {repl : T (Ent V)} (hm : unlinkM KK cD lD rD = some (KK', repl)) :
    ∃ a', a.unlink del lD.rootIdx rD.rootIdx p (isRedC cD) = some a' ∧ Rep a' a'.root EMPTY (plug KK' repl) ∧
      poolOf a' = (poolOf a).free del ∧ a'.nodes.size = a.nodes.size ∧ a'.dflt = a.dflt ∧
      (∀ x, x ∉ lD.slots ++ rD.slots ++ ctxSlots KK → x ≠ 0 → a'.node x = a.node x) ∧ (ZeroOK a → ZeroOK a') := by
  obtain ⟨_, nd, hdel, hdp, hdr, hde, hl, hrr⟩ := hr
  have hdlt := node_lt hdel
  cases lD with
  | node cl ll sl el rl =>
    simp only [unlinkM] at hm
    cases hfu : fixUp KK true with
    | none => simp [hfu] at hm
    | some K2 =>
    simp only [hfu, Option.map_some, Option.some.injEq, Prod.mk.injEq] at hm
    obtain ⟨rfl, rfl⟩ := hm
    have hli : nd.left = sl := hl.1
    rw [hli] at hl
    have := node_lt hl.2.choose_spec.1
    have hne : (sl != EMPTY) = true := by simp; omega
    obtain ⟨a', h1, h2, hu, hcap, hd, hs, hfr⟩ := unlink_child hsize hc hdel hl (by simp) (by slots_tac hnd) hfu
    refine ⟨a'.putBack del, ?_, Rep.congr (a := a') (fun _ _ => rfl) h2, ?_, by simp [Arena.putBack, hs],
      by simp [Arena.putBack, hd], ?_, ?_⟩
    · simp only [Arena.unlink, T.rootIdx, hne, if_true, Option.bind_eq_bind, Option.pure_def, Option.bind_assoc] at h1 ⊢
      rw [← Option.bind_assoc, h1]
      rfl
    · rw [putBack_pool]; simp [poolOf, hu, hcap, hs]
    · intro x hx _
      exact hfr x (by slots_tac hx)
    · intro hz n hn
      exact hz n (by rw [← hfr 0 (by slots_tac h0s)]; exact hn)
  | leaf =>
    have hle : nd.left = EMPTY := hl
    have hne0 : (EMPTY != EMPTY) = false := by simp
    cases rD with
    | node cr lr sr er rr =>
      simp only [unlinkM] at hm
      cases hfu : fixUp KK true with
      | none => simp [hfu] at hm
      | some K2 =>
      simp only [hfu, Option.map_some, Option.some.injEq, Prod.mk.injEq] at hm
      obtain ⟨rfl, rfl⟩ := hm
      have hri : nd.right = sr := hrr.1
      rw [hri] at hrr
      have := node_lt hrr.2.choose_spec.1
      have hne : (sr != EMPTY) = true := by simp; omega
      obtain ⟨a', h1, h2, hu, hcap, hd, hs, hfr⟩ := unlink_child hsize hc hdel hrr (by simp) (by slots_tac hnd) hfu
      refine ⟨a'.putBack del, ?_, Rep.congr (a := a') (fun _ _ => rfl) h2, ?_, by simp [Arena.putBack, hs],
        by simp [Arena.putBack, hd], ?_, ?_⟩
      · simp only [Arena.unlink, T.rootIdx, hne0, hne, Bool.false_eq_true, if_false, if_true, Option.bind_eq_bind,
          Option.pure_def, Option.bind_assoc] at h1 ⊢
        rw [← Option.bind_assoc, h1]
        rfl
      · rw [putBack_pool]; simp [poolOf, hu, hcap, hs]
      · intro x hx _
        exact hfr x (by slots_tac hx)
      · intro hz n hn
        exact hz n (by rw [← hfr 0 (by slots_tac h0s)]; exact hn)
    | leaf =>
      have hre : nd.right = EMPTY := hrr
      cases KK with
      | nil =>
        simp only [unlinkM, Option.some.injEq, Prod.mk.injEq] at hm
        obtain ⟨rfl, rfl⟩ := hm
        obtain ⟨hp, hroot⟩ := hc
        subst hp
        refine ⟨({ a with root := EMPTY } : Arena V).putBack del, ?_, rfl, ?_, rfl, rfl, fun _ _ _ => rfl, fun hz => hz⟩
        · simp [Arena.unlink, T.rootIdx]
        · rw [putBack_pool]; rfl
      | cons f K =>
        have hp : p = f.s := hc.1
        subst hp
        have hplt : f.s < a.nodes.size := hc.slots_lt f.s (by simp [ctxSlots])
        have hpne : (f.s == EMPTY) = false := by simp; omega
        have hndc : (ctxSlots (f :: K)).Nodup := by slots_tac hnd
        have hdsib : del ∉ f.sib.slots := by slots_tac hnd
        have hdne : del ≠ EMPTY := by omega
        cases cD with
        | red =>
          simp only [unlinkM, show (Color.red == Color.black) = false from rfl, fixUp, fixUpD_false, Option.map_some,
            Option.some.injEq, Prod.mk.injEq] at hm
          obtain ⟨rfl, rfl⟩ := hm
          obtain ⟨a1, h1, hc1, hoth1, hroot1, hu1, hcap1, hd1, hs1⟩ :=
            removeParentsChild_ctx (new := EMPTY) hsize hc hdsib hdne hndc
          have h0f : (0 : Nat) ≠ f.s := by slots_tac h0s
          refine ⟨a1.putBack del, ?_, Rep.congr (a := a1) (fun _ _ => rfl) (Rep.plug hc1 (rfl : Rep a1 EMPTY f.s .leaf)), ?_,
            by simp [Arena.putBack, hs1], by simp [Arena.putBack, hd1],
            fun x hx _ => hoth1 x (by slots_tac hx),
            fun hz n hn => hz n (by rw [← hoth1 0 h0f]; exact hn)⟩
          · simp only [Arena.unlink, T.rootIdx, hne0, Bool.false_eq_true, if_false, hpne, isRedC,
              show (Color.red == Color.red) = true from rfl, Bool.not_true, Option.bind_eq_bind, Option.pure_def, h1,
              Option.bind_some]
          · rw [putBack_pool]; simp [poolOf, hu1, hcap1, hs1]
        | black =>
          simp only [unlinkM, show (Color.black == Color.black) = true from rfl, fixUp] at hm
          cases hfu : fixUpD (f :: K) true with
          | none => simp [hfu] at hm
          | some x =>
          obtain ⟨K2, d2⟩ := x
          simp only [hfu, Option.map_some, Option.some.injEq, Prod.mk.injEq] at hm
          obtain ⟨rfl, rfl⟩ := hm
          -- the NIL scratch node in slot 0
          obtain ⟨n0, hn0⟩ : ∃ n0, a.node 0 = some n0 := ⟨a.nodes[0], by simp [Arena.node, h0]⟩
          have h0k : 0 ∉ ctxSlots (f :: K) := by slots_tac h0s
          have h0d : (0 : Nat) ≠ del := by slots_tac h0s
          let a1 := a.upd 0 fun m => { m with parent := f.s, left := EMPTY, right := EMPTY, red := true }
          have hc1 : RepCtx a1 (f :: K) del f.s := hc.upd_other _ h0k
          obtain ⟨a2, h2, hc2, hoth2, hroot2, hu2, hcap2, hd2, hs2⟩ :=
            removeParentsChild_ctx (a := a1) (new := 0) (by simpa [a1] using hsize) hc1 hdsib hdne hndc
          have h0f : (0 : Nat) ≠ f.s := by
            intro h; apply h0k; simp [ctxSlots, ← h]
          have h20 : a2.node 0 = some { n0 with parent := f.s, left := EMPTY, right := EMPTY, red := true } := by
            rw [hoth2 0 h0f]; simp [a1, hn0]
          have hN : Rep a2 0 f.s (.node .red .leaf 0 n0.ent .leaf) := ⟨rfl, _, h20, rfl, rfl, rfl, rfl, rfl⟩
          have hsize2 : a2.nodes.size ≤ EMPTY := by rw [hs2]; simpa [a1] using hsize
          have hfuel : (f :: K).length < a.nodes.size + 1 := ctx_fuel hc hndc
          obtain ⟨a3, h3, hc3, hn3, hu3, hcap3, hd3, hs3, hfr3⟩ := fixDelete_rep (a.nodes.size + 1) a2 (f :: K) _ 0 f.s
            hsize2 hfuel hc2 hN (by simp) (by simpa [T.slots_node] using List.nodup_cons.mpr ⟨h0k, hndc⟩) K2 d2 hfu
          obtain ⟨_, n3, hn3', hn3p, _, _, hn3l, hn3r⟩ := hn3
          -- unlink the scratch node again
          cases K2 with
          | nil => obtain ⟨hpe, _⟩ := hc3; omega
          | cons f' K'' =>
            have hp' : f.s = f'.s := hc3.1
            have hperm := fixUpD_slots hfu
            have hndc' : (ctxSlots (f' :: K'')).Nodup := hperm.nodup_iff.mpr hndc
            have h0k' : 0 ∉ ctxSlots (f' :: K'') := fun h => h0k (hperm.mem_iff.mp h)
            have h0sib : (0 : Nat) ∉ f'.sib.slots := by
              intro h; apply h0k'; simp [ctxSlots, h]
            rw [hp'] at hc3
            obtain ⟨a4, h4, hc4, hoth4, _, hu4, hcap4, hd4, hs4⟩ :=
              removeParentsChild_ctx (a := a3) (new := EMPTY) (by rw [hs3]; exact hsize2) hc3 h0sib (by decide) hndc'
            refine ⟨a4.putBack del, ?_, Rep.congr (a := a4) (fun _ _ => rfl) (Rep.plug hc4 (rfl : Rep a4 EMPTY f'.s .leaf)), ?_, ?_, ?_, ?_, ?_⟩
            rotate_left 4
            · intro x hx hx0
              have hxf : x ≠ f.s := by slots_tac hx
              show a4.node x = a.node x
              rw [hoth4 x (by rw [← hp']; exact hxf), hfr3 x (by
                simp only [T.slots_node, T.slots_leaf, List.nil_append, List.append_nil, List.cons_append, List.mem_cons, not_or]
                exact ⟨hx0, by slots_tac hx⟩), hoth2 x hxf]
              simp [a1, Ne.symm hx0]
            · intro _ n hn
              have h40 : a4.node 0 = some n3 := by
                show a4.node 0 = _
                rw [hoth4 0 (by rw [← hp']; exact h0f), hn3']
              have : n = n3 := by
                have hn' : a4.node 0 = some n := hn
                rw [h40] at hn'; exact (Option.some.inj hn').symm
              subst this
              exact ⟨Or.inr hn3l, Or.inr hn3r⟩
            · simp only [Arena.unlink, T.rootIdx, hne0, Bool.false_eq_true, if_false, hpne, isRedC,
                show (Color.black == Color.red) = false from rfl, Bool.not_false, if_true, Option.bind_eq_bind,
                Option.pure_def]
              rw [Arena.modify_eq_upd _ h0]
              simp only [Option.bind_some]
              have h2' : a1.removeParentsChild f.s del 0 = some a2 := h2
              simp only [a1] at h2'
              rw [h2']
              simp only [Option.bind_some, h3, hn3', hn3p, hp', h4]
            · rw [putBack_pool]; simp [poolOf, hu4, hcap4, hs4, hu3, hcap3, hs3, hu2, hcap2, hs2, a1]
            · simp [Arena.putBack, hs4, hs3, hs2, a1]
            · simp [Arena.putBack, hd4, hd3, hd2, a1]

end ITree
