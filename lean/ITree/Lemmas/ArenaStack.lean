import ITree.Lemmas.ArenaExport
import ITree.Model.ArenaTrace
/-!
# The explicit-stack in-order walk of the export equals the recursive one
-/
namespace ITree
variable {V : Type}

def valsOf (t : T (Ent V)) : List V := t.toList.map (·.2.val)

theorem valsOf_node (c : Color) (l : T (Ent V)) (s : Nat) (e : Ent V) (r : T (Ent V)) :
    valsOf (.node c l s e r) = valsOf l ++ e.val :: valsOf r := by
  simp [valsOf, T.toList]

theorem valsOf_leaf : valsOf (.leaf : T (Ent V)) = [] := rfl

/-- a frame for the root of `t` whose three fields are still unused is worked off in at most `3·size` iterations,
appending the values of `t` in key order -/
theorem exportLoop_subtree {a : Arena V} (hsize : a.nodes.size ≤ EMPTY) : ∀ (t : T (Ent V)) (i p : Nat), Rep a i p t → t ≠ .leaf →
    ∃ k, k ≤ 3 * t.size ∧ ∀ (n : ANode V), a.node i = some n → ∀ (fuel : Nat) (rest : List StackNode) (acc : List V),
      Arena.exportLoop (fuel + k) a (⟨i, n.left, n.right⟩ :: rest) acc =
        Arena.exportLoop fuel a rest ((valsOf t).reverse ++ acc) := by
  intro t
  induction t with
  | leaf => intro i p _ h; exact absurd rfl h
  | node c l s e r ihl ihr =>
    intro i p hr _
    obtain ⟨rfl, n0, hn0, _, _, hne, hl, hrr⟩ := hr
    have hlt := node_lt hn0
    have hiE : (i != EMPTY) = true := by simp; unfold EMPTY at hsize ⊢; omega
    -- the part after the left subtree has been emitted: the node itself, then the right subtree
    have after : ∃ k2, k2 ≤ 2 + 3 * r.size ∧ ∀ (fuel : Nat) (rest : List StackNode) (acc : List V),
        Arena.exportLoop (fuel + k2) a (⟨i, EMPTY, n0.right⟩ :: rest) acc =
          Arena.exportLoop fuel a rest ((valsOf r).reverse ++ e.val :: acc) := by
      cases r with
      | leaf =>
        have hre : n0.right = EMPTY := hrr
        refine ⟨1, by simp [T.size], ?_⟩
        intro fuel rest acc
        simp [Arena.exportLoop, hiE, hn0, hne, hre, valsOf_leaf]
      | node cr lr sr er rr =>
        obtain ⟨kr, hkr, hr2⟩ := ihr n0.right i hrr (by simp)
        obtain ⟨hsr, nr, hnr, _⟩ := hrr
        have hrE : (n0.right != EMPTY) = true := by
          have := node_lt hnr; rw [← hsr] at this; simp; unfold EMPTY at hsize ⊢; omega
        refine ⟨kr + 2, by simp only [T.size_node] at hkr ⊢; omega, ?_⟩
        intro fuel rest acc
        have hnr' : a.node n0.right = some nr := by rw [hsr]; exact hnr
        have hrE' : n0.right ≠ EMPTY := by simpa using hrE
        have step1 : Arena.exportLoop (fuel + (kr + 2)) a (⟨i, EMPTY, n0.right⟩ :: rest) acc =
            Arena.exportLoop (fuel + 1 + kr) a (⟨n0.right, nr.left, nr.right⟩ :: ⟨EMPTY, EMPTY, EMPTY⟩ :: rest) (e.val :: acc) := by
          have : fuel + (kr + 2) = (fuel + 1 + kr) + 1 := by omega
          rw [this]
          simp [Arena.exportLoop, hiE, hn0, hne, hrE', Arena.stackNode, hnr']
        rw [step1, hr2 nr hnr' (fuel + 1) _ _]
        simp [Arena.exportLoop]
    obtain ⟨k2, hk2, h2⟩ := after
    cases l with
    | leaf =>
      have hle : n0.left = EMPTY := hl
      refine ⟨k2, by simp only [T.size_node, T.size]; omega, ?_⟩
      intro n hn fuel rest acc
      rw [hn0] at hn; cases hn
      rw [hle, h2 fuel rest acc]
      simp [valsOf_node, valsOf_leaf]
    | node cl ll sl el rl =>
      obtain ⟨kl, hkl, hl2⟩ := ihl n0.left i hl (by simp)
      obtain ⟨hsl, nl, hnl, _⟩ := hl
      have hlE : (n0.left != EMPTY) = true := by
        have := node_lt hnl; rw [← hsl] at this; simp; unfold EMPTY at hsize ⊢; omega
      have hnl' : a.node n0.left = some nl := by rw [hsl]; exact hnl
      refine ⟨kl + 1 + k2, by simp only [T.size_node] at hkl hk2 ⊢; omega, ?_⟩
      intro n hn fuel rest acc
      rw [hn0] at hn; cases hn
      have step1 : Arena.exportLoop (fuel + (kl + 1 + k2)) a (⟨i, n0.left, n0.right⟩ :: rest) acc =
          Arena.exportLoop (fuel + k2 + kl) a (⟨n0.left, nl.left, nl.right⟩ :: ⟨i, EMPTY, n0.right⟩ :: rest) acc := by
        have : fuel + (kl + 1 + k2) = (fuel + k2 + kl) + 1 := by omega
        rw [this]
        simp [Arena.exportLoop, hlE, Arena.stackNode, hnl']
      rw [step1, hl2 nl hnl' (fuel + k2) _ _, h2 fuel rest _]
      simp [valsOf_node]

/-- **the traversal of `create_ordered_list` as written** yields the values in key order: it agrees with the
recursive walk `inorderVals` the other theorems are about -/
theorem exportStack_spec {a : Arena V} {t : T (Ent V)} (h : Rep a a.root EMPTY t) (hsize : a.nodes.size ≤ EMPTY)
    (hsz : t.size ≤ a.nodes.size) :
    a.exportStack = some (valsOf t) := by
  cases t with
  | leaf =>
    have : a.root = EMPTY := h
    simp [Arena.exportStack, this, valsOf_leaf]
  | node c l s e r =>
    obtain ⟨k, hk, hloop⟩ := exportLoop_subtree hsize (.node c l s e r) a.root EMPTY h (by simp)
    obtain ⟨hs, n, hn, _⟩ := h
    have hn' : a.node a.root = some n := by rw [hs]; exact hn
    have hne : (a.root == EMPTY) = false := by
      have := node_lt hn'; simp; unfold EMPTY at hsize ⊢; omega
    have hfuel : 3 * a.nodes.size + 2 = (3 * a.nodes.size + 2 - k) + k := by omega
    simp only [Arena.exportStack, hne, Bool.false_eq_true, if_false, Arena.stackNode, hn', Option.map_some,
      Option.bind_eq_bind, Option.bind_some]
    rw [hfuel, hloop n hn' _ [] []]
    have : 3 * a.nodes.size + 2 - k = (3 * a.nodes.size + 1 - k) + 1 := by omega
    rw [this]
    simp [Arena.exportLoop]

end ITree

/-! ### the stack stays as shallow as the tree -/
namespace ITree
variable {V : Type}

/-- the loop of `Arena.exportLoop` that also records the greatest stack length it has seen -/
def Arena.exportLoopD : Nat → Arena V → List StackNode → List V → Nat → Option (List V × Nat)
  | 0, _, _, _, _ => none
  | _+1, _, [], acc, d => some (acc.reverse, d)
  | fuel+1, a, s :: rest, acc, d =>
    let d := max d (rest.length + 1)
    if s.left != EMPTY then do
      let c ← a.stackNode s.left
      Arena.exportLoopD fuel a (c :: { s with left := EMPTY } :: rest) acc d
    else do
      let (acc, s) ← if s.index != EMPTY then (a.node s.index).map fun n => (n.ent.val :: acc, { s with index := EMPTY })
                     else some (acc, s)
      if s.right != EMPTY then do
        let c ← a.stackNode s.right
        Arena.exportLoopD fuel a (c :: { s with right := EMPTY } :: rest) acc d
      else
        Arena.exportLoopD fuel a rest acc d

/-- forgetting the depth gives the loop itself -/
theorem exportLoopD_erase : ∀ (fuel : Nat) (a : Arena V) (st : List StackNode) (acc : List V) (d : Nat),
    (Arena.exportLoopD fuel a st acc d).map (·.1) = Arena.exportLoop fuel a st acc := by
  intro fuel
  induction fuel with
  | zero => intro a st acc d; rfl
  | succ fuel ih =>
    intro a st acc d
    cases st with
    | nil => rfl
    | cons s rest =>
      simp only [Arena.exportLoopD, Arena.exportLoop]
      by_cases hl : (s.left != EMPTY) = true
      · simp only [hl, if_true, Option.bind_eq_bind]
        cases a.stackNode s.left with
        | none => rfl
        | some c => simp only [Option.bind_some]; exact ih _ _ _ _
      · simp only [hl, Bool.false_eq_true, if_false, Option.bind_eq_bind]
        by_cases hi : (s.index != EMPTY) = true
        · simp only [hi, if_true]
          cases a.node s.index with
          | none => rfl
          | some n =>
            simp only [Option.map_some, Option.bind_some]
            by_cases hr : (s.right != EMPTY) = true
            · simp only [hr, if_true]
              cases a.stackNode s.right with
              | none => rfl
              | some c => simp only [Option.bind_some]; exact ih _ _ _ _
            · simp only [hr, Bool.false_eq_true, if_false]; exact ih _ _ _ _
        · simp only [hi, Bool.false_eq_true, if_false, Option.bind_some]
          by_cases hr : (s.right != EMPTY) = true
          · simp only [hr, if_true]
            cases a.stackNode s.right with
            | none => rfl
            | some c => simp only [Option.bind_some]; exact ih _ _ _ _
          · simp only [hr, Bool.false_eq_true, if_false]; exact ih _ _ _ _

end ITree

namespace ITree
variable {V : Type}

/-- a frame for the root of `t`, on top of `rest`, is worked off with the stack never longer than
`rest.length + height t` -/
theorem exportLoopD_subtree {a : Arena V} (hsize : a.nodes.size ≤ EMPTY) : ∀ (t : T (Ent V)) (i p : Nat), Rep a i p t → t ≠ .leaf →
    ∃ k, k ≤ 3 * t.size ∧ ∀ (n : ANode V), a.node i = some n → ∀ (fuel : Nat) (rest : List StackNode) (acc : List V) (d : Nat),
      Arena.exportLoopD (fuel + k) a (⟨i, n.left, n.right⟩ :: rest) acc d =
        Arena.exportLoopD fuel a rest ((valsOf t).reverse ++ acc) (max d (rest.length + t.height)) := by
  intro t
  induction t with
  | leaf => intro i p _ h; exact absurd rfl h
  | node c l s e r ihl ihr =>
    intro i p hr _
    obtain ⟨rfl, n0, hn0, _, _, hne, hl, hrr⟩ := hr
    have hlt := node_lt hn0
    have hiE : (i != EMPTY) = true := by simp; unfold EMPTY at hsize ⊢; omega
    have after : ∃ k2, k2 ≤ 2 + 3 * r.size ∧ ∀ (fuel : Nat) (rest : List StackNode) (acc : List V) (d : Nat),
        Arena.exportLoopD (fuel + k2) a (⟨i, EMPTY, n0.right⟩ :: rest) acc d =
          Arena.exportLoopD fuel a rest ((valsOf r).reverse ++ e.val :: acc) (max d (rest.length + 1 + r.height)) := by
      cases r with
      | leaf =>
        have hre : n0.right = EMPTY := hrr
        refine ⟨1, by simp [T.size], ?_⟩
        intro fuel rest acc d
        simp [Arena.exportLoopD, hiE, hn0, hne, hre, valsOf_leaf, T.height]
      | node cr lr sr er rr =>
        obtain ⟨kr, hkr, hr2⟩ := ihr n0.right i hrr (by simp)
        obtain ⟨hsr, nr, hnr, _⟩ := hrr
        have hrE : (n0.right != EMPTY) = true := by
          have := node_lt hnr; rw [← hsr] at this; simp; unfold EMPTY at hsize ⊢; omega
        have hrE' : n0.right ≠ EMPTY := by simpa using hrE
        have hnr' : a.node n0.right = some nr := by rw [hsr]; exact hnr
        refine ⟨kr + 2, by simp only [T.size_node] at hkr ⊢; omega, ?_⟩
        intro fuel rest acc d
        have step1 : Arena.exportLoopD (fuel + (kr + 2)) a (⟨i, EMPTY, n0.right⟩ :: rest) acc d =
            Arena.exportLoopD (fuel + 1 + kr) a (⟨n0.right, nr.left, nr.right⟩ :: ⟨EMPTY, EMPTY, EMPTY⟩ :: rest) (e.val :: acc)
              (max d (rest.length + 1)) := by
          have : fuel + (kr + 2) = (fuel + 1 + kr) + 1 := by omega
          rw [this]
          simp [Arena.exportLoopD, hiE, hn0, hne, hrE', Arena.stackNode, hnr']
        rw [step1, hr2 nr hnr' (fuel + 1) _ _ _]
        simp only [Arena.exportLoopD, List.length_cons, bne_self_eq_false, Bool.false_eq_true, if_false, Option.bind_eq_bind,
          Option.bind_some]
        congr 1
        omega
    obtain ⟨k2, hk2, h2⟩ := after
    cases l with
    | leaf =>
      have hle : n0.left = EMPTY := hl
      refine ⟨k2, by simp only [T.size_node, T.size]; omega, ?_⟩
      intro n hn fuel rest acc d
      rw [hn0] at hn; cases hn
      rw [hle, h2 fuel rest acc d]
      simp only [valsOf_node, valsOf_leaf, List.nil_append, List.reverse_cons, List.append_assoc, List.singleton_append, T.height]
      congr 1
      omega
    | node cl ll sl el rl =>
      obtain ⟨kl, hkl, hl2⟩ := ihl n0.left i hl (by simp)
      obtain ⟨hsl, nl, hnl, _⟩ := hl
      have hlE : (n0.left != EMPTY) = true := by
        have := node_lt hnl; rw [← hsl] at this; simp; unfold EMPTY at hsize ⊢; omega
      have hnl' : a.node n0.left = some nl := by rw [hsl]; exact hnl
      refine ⟨kl + 1 + k2, by simp only [T.size_node] at hkl hk2 ⊢; omega, ?_⟩
      intro n hn fuel rest acc d
      rw [hn0] at hn; cases hn
      have step1 : Arena.exportLoopD (fuel + (kl + 1 + k2)) a (⟨i, n0.left, n0.right⟩ :: rest) acc d =
          Arena.exportLoopD (fuel + k2 + kl) a (⟨n0.left, nl.left, nl.right⟩ :: ⟨i, EMPTY, n0.right⟩ :: rest) acc
            (max d (rest.length + 1)) := by
        have : fuel + (kl + 1 + k2) = (fuel + k2 + kl) + 1 := by omega
        rw [this]
        simp [Arena.exportLoopD, hlE, Arena.stackNode, hnl']
      rw [step1, hl2 nl hnl' (fuel + k2) _ _ _, h2 fuel rest _ _]
      simp only [valsOf_node, List.reverse_append, List.reverse_cons, List.append_assoc, List.singleton_append, List.length_cons, T.height]
      congr 1
      · simp
      · omega

end ITree
