import ITree.Lemmas.Bal
/-!
# `delete_index` (`deleteFocus`): balance and locality
-/
namespace ITree
variable {ε : Type}

theorem ctxLeft_allL (k0 : Ctx ε) (h : ∀ f ∈ k0, f.side = .L) : ctxLeft k0 = [] := by
  induction k0 with
  | nil => rfl
  | cons f k ih =>
    simp only [ctxLeft_cons, ih (fun g hg => h g (List.mem_cons_of_mem _ hg)), List.nil_append]
    simp [Frame.lefts, h f (List.mem_cons_self ..)]

theorem leftmost_spec (k : Ctx ε) (t : T ε) :
    plug (leftmost k t).1 (leftmost k t).2 = plug k t ∧
    (∃ k0, (leftmost k t).1 = k0 ++ k ∧ ∀ f ∈ k0, f.side = .L) ∧
    (t ≠ .leaf → ∃ cs ss es rs, (leftmost k t).2 = .node cs .leaf ss es rs) := by
  fun_induction leftmost k t with
  | case1 k c c' l' s' e' r' s e r ih =>
    obtain ⟨h1, ⟨k0, h2, h4⟩, h5⟩ := ih
    refine ⟨by simpa [Frame.fill] using h1, ⟨k0 ++ [⟨c, s, e, r, .L⟩], by simp [h2], ?_⟩, fun _ => h5 (by simp)⟩
    intro f hf
    simp only [List.mem_append, List.mem_singleton] at hf
    rcases hf with hf | hf
    · exact h4 f hf
    · simp [hf]
  | case2 k t hne =>
    refine ⟨rfl, ⟨[], by simp, by simp⟩, ?_⟩
    intro ht
    cases t with
    | leaf => exact absurd rfl ht
    | node c l s e r =>
      cases l with
      | leaf => exact ⟨c, s, e, r, rfl⟩
      | node c' l' s' e' r' => exact absurd rfl (hne c c' l' s' e' r' s e r)

end ITree

namespace ITree
variable {ε : Type}

/-- what takes the place of a removed node with at most one child, and whether a black was lost -/
def simpleRepl (c : Color) (l r : T ε) : T ε × Bool :=
  match l, r with
  | .node .., _ => (l, true)
  | .leaf, .node .. => (r, true)
  | .leaf, .leaf => (.leaf, c == .black)

/-- a non-empty tree of black height 0 is a red node -/
theorem Bal.zero_red {x : T ε} (hx : Bal x 0) (hne : x ≠ .leaf) : x.isBlack = false := by
  cases hx with
  | leaf => exact absurd rfl hne
  | red => rfl

theorem Bal.entity {c} {l r : T ε} {s e m} (e' : ε) (s' : Nat) (h : Bal (.node c l s e r) m) :
    Bal (.node c l s' e' r) m := by
  cases h with
  | red hl hr bl br => exact Bal.red hl hr bl br
  | black hl hr => exact Bal.black hl hr

/-- removing a node with at most one child from a balanced tree, then repairing, gives a balanced tree -/
theorem removeSimple_bal (K : Ctx ε) {c} {l r : T ε} {s e m}
    (hlr : l = .leaf ∨ r = .leaf) (h : Bal (plug K (.node c l s e r)) m) :
    ∃ K' d', fixUpD K (simpleRepl c l r).2 = some (K', d') ∧ ∃ m', Bal (plug K' (simpleRepl c l r).1) m' := by
  obtain ⟨mt, ht⟩ := Bal.of_plug h
  obtain ⟨n, emt, hl, hr, hcol⟩ := ht.node_inv
  subst emt
  -- common ending: the removed node is black with black height 1, the replacement has black height 0
  have finish : ∀ x : T ε, c = .black → n = 0 → Bal x 0 →
      ∃ K' d', fixUpD K true = some (K', d') ∧ ∃ m', Bal (plug K' x) m' := by
    intro x hc hn hx
    subst hc; subst hn
    obtain ⟨K', d', hK, hres⟩ := fixUpD_bal K h (by simpa using ht) hx
    refine ⟨K', d', hK, ?_⟩
    rcases hres with ⟨_, hb, _⟩ | ⟨_, m0, _, hb⟩
    · exact ⟨_, hb⟩
    · exact ⟨_, hb⟩
  cases l with
  | node cl ll sl el rl =>
    have hr0 : r = .leaf := by rcases hlr with h0 | h0 <;> simp_all
    subst hr0
    have hn : n = 0 := by cases hr; rfl
    subst hn
    have hred := hl.zero_red (by simp)
    have hcb : c = .black := by
      cases c with
      | black => rfl
      | red => simp [(hcol rfl).1] at hred
    simpa [simpleRepl] using finish _ hcb rfl hl
  | leaf =>
    have hn : n = 0 := by cases hl; rfl
    subst hn
    cases r with
    | node cr lr sr er rr =>
      have hred := hr.zero_red (by simp)
      have hcb : c = .black := by
        cases c with
        | black => rfl
        | red => simp [(hcol rfl).2] at hred
      simpa [simpleRepl] using finish _ hcb rfl hr
    | leaf =>
      cases c with
      | red =>
        have hrb : (Color.red == Color.black) = false := rfl
        refine ⟨K, false, by simp [simpleRepl, fixUpD_false, hrb], m, ?_⟩
        exact Bal.plug_subst h ht (by simpa [simpleRepl] using Bal.leaf) (Or.inl (by simp [simpleRepl]))
      | black => simpa [simpleRepl] using finish .leaf rfl rfl Bal.leaf

theorem fixUp_eq (k : Ctx ε) (d : Bool) : fixUp k d = (fixUpD k d).map (·.1) := rfl

/-- `delete_index` keeps the colour / black-height invariant and never faults on a balanced tree -/
theorem deleteFocus_bal (k : Ctx ε) {c} {l r : T ε} {s e m} (h : Bal (plug k (.node c l s e r)) m) :
    ∃ k' t' freed, deleteFocus k (.node c l s e r) = some (k', t', freed) ∧ ∃ m', Bal (plug k' t') m' := by
  cases l with
  | leaf =>
    obtain ⟨K', d', hK, m', hb⟩ := removeSimple_bal k (Or.inl rfl) h
    cases r with
    | leaf =>
      cases k with
      | nil => exact ⟨[], .leaf, s, rfl, 0, Bal.leaf⟩
      | cons f k =>
        simp only [simpleRepl] at hK hb
        exact ⟨K', .leaf, s, by simp [deleteFocus, fixUp_eq, hK], m', hb⟩
    | node cr lr sr er rr =>
      simp only [simpleRepl] at hK hb
      exact ⟨K', _, s, by simp [deleteFocus, fixUp_eq, hK], m', hb⟩
  | node cl ll sl el rl =>
    cases r with
    | leaf =>
      obtain ⟨K', d', hK, m', hb⟩ := removeSimple_bal k (Or.inr rfl) h
      simp only [simpleRepl] at hK hb
      exact ⟨K', _, s, by simp [deleteFocus, fixUp_eq, hK], m', hb⟩
    | node cr lr sr er rr =>
      -- two children: the successor is removed from the context `inner ++ k`
      obtain ⟨hplug, _, hsucc⟩ := leftmost_spec ([] : Ctx ε) (T.node cr lr sr er rr)
      obtain ⟨cs, ss, es, rs, hs⟩ := hsucc (by simp)
      generalize hlm : leftmost [] (T.node cr lr sr er rr) = lm at hplug hs
      obtain ⟨k1, succ⟩ := lm
      simp only at hplug hs
      subst hs
      -- the tree with the successor's entity moved into slot `s`
      obtain ⟨mt, ht⟩ := Bal.of_plug h
      have ht2 : Bal (T.node c (T.node cl ll sl el rl) s es (T.node cr lr sr er rr)) mt := ht.entity es s
      have h2 : Bal (plug k (T.node c (T.node cl ll sl el rl) s es (T.node cr lr sr er rr))) m :=
        Bal.plug_subst h ht ht2 (Or.inl (by simp))
      have hinner : plug ((k1 ++ [⟨c, s, es, T.node cl ll sl el rl, .R⟩]) ++ k) (T.node cs .leaf ss es rs)
          = plug k (T.node c (T.node cl ll sl el rl) s es (T.node cr lr sr er rr)) := by
        rw [plug_append, plug_append, hplug]
        simp [Frame.fill]
      rw [← hinner] at h2
      obtain ⟨K', d', hK, m', hb⟩ := removeSimple_bal _ (Or.inl rfl) h2
      rw [fixUpD_append] at hK
      simp only [deleteFocus, hlm]
      rcases rs with _ | ⟨crs, lrs, srs, ers, rrs⟩ <;> simp only [simpleRepl] at hK hb ⊢ <;>
      · split at hK
        · simp at hK
        · rename_i inner' d1 hin
          rw [hin]
          simp only
          cases hout : fixUpD k d1 with
          | none => simp [hout] at hK
          | some q =>
            obtain ⟨k'', d2⟩ := q
            simp only [hout, Option.map_some, Option.some.injEq, Prod.mk.injEq] at hK
            obtain ⟨hK1, _⟩ := hK
            subst hK1
            refine ⟨k'', _, ss, ?_, m', by simpa [plug_append] using hb⟩
            simp [fixUp_eq, hout]

end ITree
