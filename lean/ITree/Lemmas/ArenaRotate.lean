import ITree.Lemmas.ArenaBasic
/-!
# Arena-level rotations realise the tree rotations under any context
-/
namespace ITree
variable {V : Type}

theorem slots_fill (f : Frame (Ent V)) (t : T (Ent V)) :
    (f.fill t).slots.Perm (t.slots ++ (f.s :: f.sib.slots)) := by
  obtain ⟨c, s, e, sib, side⟩ := f
  cases side
  · simp only [Frame.fill, T.slots_node]; exact List.Perm.refl _
  · simp only [Frame.fill, T.slots_node]
    have : (sib.slots ++ s :: t.slots).Perm (t.slots ++ s :: sib.slots) := by
      calc sib.slots ++ s :: t.slots |>.Perm (s :: t.slots ++ sib.slots) := List.perm_append_comm
        _ |>.Perm (t.slots ++ s :: sib.slots) := by simpa using (List.perm_middle (l₁ := t.slots) (a := s) (l₂ := sib.slots)).symm
    exact this

theorem slots_plug (k : Ctx (Ent V)) (t : T (Ent V)) : (plug k t).slots.Perm (t.slots ++ ctxSlots k) := by
  induction k generalizing t with
  | nil => simp [ctxSlots]
  | cons f k ih =>
    simp only [plug_cons, ctxSlots]
    refine (ih (f.fill t)).trans ?_
    have := slots_fill f t
    calc (f.fill t).slots ++ ctxSlots k |>.Perm ((t.slots ++ (f.s :: f.sib.slots)) ++ ctxSlots k) :=
          List.Perm.append_right _ this
      _ = _ := by simp

/-- the index of the root of a represented tree: its slot, or `EMPTY` for a leaf -/
def T.rootIdx : T (Ent V) → Nat
  | .leaf => EMPTY
  | .node _ _ s _ _ => s

theorem Rep.idx {a : Arena V} {t : T (Ent V)} {i p : Nat} (h : Rep a i p t) : i = t.rootIdx := by
  cases t with
  | leaf => exact h
  | node c l s e r => exact h.1

/-- changing only the parent field of the root of a represented subtree -/
theorem Rep.reparent {a : Arena V} {c} {l r : T (Ent V)} {s : Nat} {e : Ent V} {p p' : Nat}
    (h : Rep a s p (.node c l s e r)) (hnd : (T.node c l s e r).slots.Nodup) :
    Rep (a.upd s fun n => { n with parent := p' }) s p' (.node c l s e r) := by
  obtain ⟨_, n, h1, h2, h3, h4, h5, h6⟩ := h
  simp only [T.slots_node, List.nodup_append, List.nodup_cons, List.mem_cons] at hnd
  obtain ⟨hl, ⟨hir, hr⟩, hdis⟩ := hnd
  refine ⟨rfl, { n with parent := p' }, by simp [h1], rfl, h3, h4, ?_, ?_⟩
  · refine Rep.congr ?_ h5
    intro x hx
    have : s ≠ x := fun heq => hdis x hx s (Or.inl rfl) heq.symm
    simp [this]
  · refine Rep.congr ?_ h6
    intro x hx
    have : s ≠ x := fun heq => hir (heq ▸ hx)
    simp [this]

end ITree

namespace ITree
variable {V : Type}

theorem Rep.rootIdx_mem {a : Arena V} {t : T (Ent V)} {i p : Nat} (h : Rep a i p t) (hne : i ≠ EMPTY) :
    i ∈ t.slots := by
  cases t with
  | leaf => exact absurd h hne
  | node c l s e r => simp [h.1]

theorem Rep.node_of_ne {a : Arena V} {t : T (Ent V)} {i p : Nat} (h : Rep a i p t) (hne : i ≠ EMPTY) :
    ∃ n, a.node i = some n ∧ n.parent = p := by
  cases t with
  | leaf => exact absurd h hne
  | node c l s e r => obtain ⟨rfl, n, h1, h2, _⟩ := h; exact ⟨n, h1, h2⟩

/-- `replace_parents_child(p, old, new)`: the hole of the context gets a new occupant -/
theorem replaceParentsChild_ctx {a : Arena V} {k : Ctx (Ent V)} {old new p : Nat} {nn : ANode V}
    (hsize : a.nodes.size ≤ EMPTY) (hctx : RepCtx a k old p) (hnew : a.node new = some nn)
    (hold : ∃ no, a.node old = some no) (holdk : old ∉ ctxSlots k) (hnewk : new ∉ ctxSlots k)
    (hkn : (ctxSlots k).Nodup) :
    ∃ a', a.replaceParentsChild p old new = some a' ∧ RepCtx a' k new p ∧
      a'.node new = some { nn with parent := p } ∧
      (∀ j, j ≠ new → j ≠ p → a'.node j = a.node j) ∧
      (k ≠ [] → a'.root = a.root) ∧
      a'.unused = a.unused ∧ a'.cap = a.cap ∧ a'.dflt = a.dflt ∧ a'.nodes.size = a.nodes.size := by
  obtain ⟨no, hno⟩ := hold
  have holdne : old ≠ EMPTY := by have := node_lt hno; omega
  cases k with
  | nil =>
    obtain ⟨rfl, hroot⟩ := hctx
    refine ⟨{ a.upd new (fun n => { n with parent := EMPTY }) with root := new }, ?_, ⟨rfl, rfl⟩, ?_, ?_, by simp, rfl, rfl, rfl, by simp⟩
    · simp [Arena.replaceParentsChild, Arena.setParent, Arena.modify_of_node _ hnew]
    · simp [Arena.node, hnew] at *
      simpa [Arena.node, Arena.upd, Array.getElem?_modify] using congrArg (Option.map fun n => ({ n with parent := EMPTY } : ANode V)) hnew
    · intro j hj _
      simp [Arena.node, Arena.upd, Array.getElem?_modify, Ne.symm hj]
  | cons f k' =>
    obtain ⟨rfl, n, h2, h3, h4, h5, h6⟩ := hctx
    have hfs_lt := node_lt h2
    have hpne : f.s ≠ EMPTY := by omega
    have hnewf : new ≠ f.s := by intro h; apply hnewk; simp [ctxSlots, h]
    simp only [ctxSlots, List.nodup_cons, List.mem_append, not_or, List.nodup_append] at hkn
    obtain ⟨⟨hfsib, hfk⟩, hsibnd, hk'nd, hdisj⟩ := hkn
    -- the arena after `node_mut(new).parent = parent`
    have hn1 : (a.upd new fun n => { n with parent := f.s }).node f.s = some n := by
      simp [hnewf, h2]
    cases hside : f.side with
    | L =>
      simp only [hside] at h5
      obtain ⟨hleft, hsib⟩ := h5
      refine ⟨(a.upd new fun n => { n with parent := f.s }).upd f.s (fun n => { n with left := new }), ?_, ?_, ?_, ?_, by intro _; simp, by simp, by simp, by simp, by simp⟩
      · simp only [Arena.replaceParentsChild, Arena.setParent, Arena.modify_of_node _ hnew, Option.bind_eq_bind,
          Option.bind_some]
        have hpe : (f.s == EMPTY) = false := by simpa using hpne
        simp only [hpe, Bool.false_eq_true, if_false, hn1, Option.bind_some, hleft, beq_self_eq_true, Bool.true_or,
          Bool.not_true, if_true, Arena.setLeft, Arena.modify_of_node _ hn1]
      · refine ⟨rfl, { n with left := new }, by simp [hnewf, h2], h3, h4, ?_, ?_⟩
        · simp only [hside]
          refine ⟨trivial, Rep.congr (a := a) ?_ hsib⟩
          intro s hs
          have h1 : f.s ≠ s := fun h => hfsib (h ▸ hs)
          have h2' : new ≠ s := fun h => hnewk (by subst h; simp [ctxSlots, hs])
          simp [h1, h2']
        · refine RepCtx.congr (a := a) ?_ (by simp) h6
          intro s hs
          have h1 : f.s ≠ s := fun h => hfk (h ▸ hs)
          have h2' : new ≠ s := fun h => hnewk (by subst h; simp [ctxSlots, hs])
          simp [h1, h2']
      · simp [hnewf, Ne.symm hnewf, hnew]
      · intro j hj1 hj2
        simp [Ne.symm hj1, Ne.symm hj2]
    | R =>
      simp only [hside] at h5
      obtain ⟨hright, hsib⟩ := h5
      -- the left child (the sibling) is not `old`
      have hleftne : n.left ≠ old := by
        intro heq
        have := hsib.rootIdx_mem (by rw [heq]; exact holdne)
        apply holdk
        simp [ctxSlots, ← heq, this]
      refine ⟨(a.upd new fun n => { n with parent := f.s }).upd f.s (fun n => { n with right := new }), ?_, ?_, ?_, ?_, by intro _; simp, by simp, by simp, by simp, by simp⟩
      · simp only [Arena.replaceParentsChild, Arena.setParent, Arena.modify_of_node _ hnew, Option.bind_eq_bind,
          Option.bind_some]
        have hpe : (f.s == EMPTY) = false := by simpa using hpne
        have hl : (n.left == old) = false := by simpa using hleftne
        simp only [hpe, Bool.false_eq_true, if_false, hn1, Option.bind_some, hright, beq_self_eq_true, Bool.or_true,
          Bool.not_true, hl, Arena.setRight, Arena.modify_of_node _ hn1]
      · refine ⟨rfl, { n with right := new }, by simp [hnewf, h2], h3, h4, ?_, ?_⟩
        · simp only [hside]
          refine ⟨trivial, Rep.congr (a := a) ?_ hsib⟩
          intro s hs
          have h1 : f.s ≠ s := fun h => hfsib (h ▸ hs)
          have h2' : new ≠ s := fun h => hnewk (by subst h; simp [ctxSlots, hs])
          simp [h1, h2']
        · refine RepCtx.congr (a := a) ?_ (by simp) h6
          intro s hs
          have h1 : f.s ≠ s := fun h => hfk (h ▸ hs)
          have h2' : new ≠ s := fun h => hnewk (by subst h; simp [ctxSlots, hs])
          simp [h1, h2']
      · simp [hnewf, Ne.symm hnewf, hnew]
      · intro j hj1 hj2
        simp [Ne.symm hj1, Ne.symm hj2]

end ITree

namespace ITree
variable {V : Type}

/-- `rotate_left(x)` under an arbitrary context -/
theorem rotateLeft_rep {a : Arena V} {k : Ctx (Ent V)} {p : Nat} {cx cy : Color} {A B C : T (Ent V)}
    {x y : Nat} {ex ey : Ent V} (hsize : a.nodes.size ≤ EMPTY)
    (hctx : RepCtx a k x p) (hrep : Rep a x p (.node cx A x ex (.node cy B y ey C)))
    (hnd : ((T.node cx A x ex (T.node cy B y ey C)).slots ++ ctxSlots k).Nodup) :
    ∃ a', a.rotateLeft x = some a' ∧ RepCtx a' k y p ∧
      Rep a' y p (.node cy (.node cx A x ex B) y ey C) ∧
      (∀ j, j ∉ (T.node cx A x ex (T.node cy B y ey C)).slots ++ ctxSlots k → a'.node j = a.node j) ∧
      (k ≠ [] → a'.root = a.root) ∧
      a'.unused = a.unused ∧ a'.cap = a.cap ∧ a'.dflt = a.dflt ∧ a'.nodes.size = a.nodes.size := by
  obtain ⟨_, nx, hx, hxp, hxr, hxe, hA, hyrep⟩ := hrep
  obtain ⟨hyeq, ny, hy, hyp, hyr, hye, hB, hC⟩ := hyrep
  -- disjointness facts
  simp only [T.slots_node, List.append_assoc, List.cons_append, List.nodup_append, List.nodup_cons,
    List.mem_append, List.mem_cons, not_or] at hnd
  obtain ⟨hAnd, ⟨⟨hxB, hxy, hxC, hxk⟩, ⟨hBnd, ⟨⟨hyC, hyk⟩, hCnd, hknd, hCk⟩, hBrest⟩⟩, hArest⟩ := hnd
  have hxy' : x ≠ y := hxy
  have hyx : nx.right = y := hyeq
  -- the root of B
  have hBidx := hB.idx
  have hBx : ny.left ≠ x := by
    intro h
    by_cases hbe : ny.left = EMPTY
    · have := node_lt hx; omega
    · exact hxB (h ▸ hB.rootIdx_mem hbe)
  have hBy : ny.left ≠ y := by
    intro h
    by_cases hbe : ny.left = EMPTY
    · have := node_lt hy; omega
    · exact (hBrest ny.left (hB.rootIdx_mem hbe) y (Or.inl rfl)) h
  -- the four local updates
  let a1 := a.upd y fun n => { n with left := x }
  let a2 := if ny.left = EMPTY then a1 else a1.upd ny.left fun n => { n with parent := x }
  let a3 := a2.upd x fun n => { n with right := ny.left }
  let a4 := a3.upd x fun n => { n with parent := y }
  have hxlt := node_lt hx
  have hylt := node_lt hy
  have hstep : a.rotateLeft x = a4.replaceParentsChild p x y := by
    simp only [Arena.rotateLeft, hx, Option.bind_eq_bind, Option.bind_some, hyx, hy]
    rw [Arena.setLeft_eq x hylt]
    simp only [Option.bind_some]
    by_cases hbe : ny.left = EMPTY
    · have hbne : (ny.left != EMPTY) = false := by simp [hbe]
      simp only [hbne, Bool.false_eq_true, if_false, Option.bind_some]
      rw [Arena.setRight_eq _ (by simpa using hxlt)]
      simp only [Option.bind_some]
      rw [Arena.setParent_eq _ (by simpa using hxlt)]
      simp only [Option.bind_some, hxp, a4, a3, a2, a1, hbe, if_true]
    · have hbne : (ny.left != EMPTY) = true := by simp [hbe]
      obtain ⟨nb, hnb, _⟩ := hB.node_of_ne hbe
      have hblt := node_lt hnb
      simp only [hbne, if_true]
      rw [Arena.setParent_eq _ (by simpa using hblt)]
      simp only [Option.bind_some]
      rw [Arena.setRight_eq _ (by simpa using hxlt)]
      simp only [Option.bind_some]
      rw [Arena.setParent_eq _ (by simpa using hxlt)]
      simp only [Option.bind_some, hxp, a4, a3, a2, a1, hbe, if_false]
  -- node lookups in a4
  have h4x : a4.node x = some { nx with right := ny.left, parent := y } := by
    simp only [a4, a3, a2, a1]
    split <;> simp [Ne.symm hxy', hx, hBx]
  have h4y : a4.node y = some { ny with left := x } := by
    simp only [a4, a3, a2, a1]
    split <;> simp [hxy', hy, hBy]
  have h4other : ∀ j, j ≠ x → j ≠ y → j ≠ ny.left → a4.node j = a.node j := by
    intro j h1 h2 h3
    simp only [a4, a3, a2, a1]
    split <;> simp [Ne.symm h1, Ne.symm h2, Ne.symm h3]
  have h4b : ny.left ≠ EMPTY → ∃ nb, a.node ny.left = some nb ∧ a4.node ny.left = some { nb with parent := x } := by
    intro hbe
    obtain ⟨nb, hnb, _⟩ := hB.node_of_ne hbe
    refine ⟨nb, hnb, ?_⟩
    simp only [a4, a3, a2, a1, hbe, if_false]
    simp [Ne.symm hBx, Ne.symm hBy, hnb]
  have h4size : a4.nodes.size = a.nodes.size := by
    simp only [a4, a3, a2, a1]; split <;> simp
  have h4root : a4.root = a.root := by simp only [a4, a3, a2, a1]; split <;> simp
  -- B's root is not in the context
  have hBk : ny.left ≠ EMPTY → ny.left ∉ ctxSlots k := by
    intro hbe hmem
    exact (hBrest ny.left (hB.rootIdx_mem hbe) ny.left (Or.inr (Or.inr hmem))) rfl
  -- the context is untouched by the local updates
  have hctx4 : RepCtx a4 k x p := by
    refine RepCtx.congr (a := a) ?_ h4root hctx
    intro s hs
    refine h4other s (fun h => hxk (h ▸ hs)) (fun h => hyk (h ▸ hs)) ?_
    intro h
    by_cases hbe : ny.left = EMPTY
    · have := hctx.slots_lt s hs; omega
    · exact hBk hbe (h ▸ hs)
  -- y is not in the context; now hand the hole over from x to y
  have hykk : y ∉ ctxSlots k := hyk
  obtain ⟨a', hrp, hctx', hy', hother', hroot', hu', hc', hd', hs'⟩ :=
    replaceParentsChild_ctx (a := a4) (by omega) hctx4 h4y ⟨_, h4x⟩ hxk hykk hknd
  have hsz' : a'.nodes.size = a.nodes.size := by rw [hs', h4size]
  -- everything outside {x, y, root of B, context} is untouched
  have hkeep : ∀ s, s ≠ x → s ≠ y → s ≠ ny.left → s ∉ ctxSlots k → a'.node s = a.node s := by
    intro s h1 h2 h3 h4
    by_cases hlt : s < a.nodes.size
    · rw [hother' s h2 (Ne.symm (hctx.parent_ne hsize hlt h4)), h4other s h1 h2 h3]
    · exact node_eq_of_size hsz' (by omega)
  have hnotB : ∀ s, s < a.nodes.size → (ny.left ≠ EMPTY → s ≠ ny.left) → s ≠ ny.left := by
    intro s hlt h heq
    by_cases hbe : ny.left = EMPTY
    · omega
    · exact h hbe heq
  refine ⟨a', by rw [hstep]; exact hrp, hctx', ?_, ?_, (fun h => by rw [hroot' h, h4root]), by rw [hu']; simp only [a4, a3, a2, a1]; split <;> simp,
    by rw [hc']; simp only [a4, a3, a2, a1]; split <;> simp, by rw [hd']; simp only [a4, a3, a2, a1]; split <;> simp,
    hsz'⟩
  · -- the rotated subtree
    have hpx : p ≠ x := hctx.parent_ne hsize hxlt hxk
    have hnodeA : ∀ s ∈ A.slots, a'.node s = a.node s := by
      intro s hs
      have hlt := hA.slots_lt s hs
      refine hkeep s (hArest s hs x (Or.inl rfl)) (hArest s hs y (Or.inr (Or.inr (Or.inl rfl))))
        (hnotB s hlt fun hbe => hArest s hs _ (Or.inr (Or.inl (hB.rootIdx_mem hbe))))
        (fun hm => hArest s hs s (Or.inr (Or.inr (Or.inr (Or.inr hm)))) rfl)
    have hnodeC : ∀ s ∈ C.slots, a'.node s = a.node s := by
      intro s hs
      have hlt := hC.slots_lt s hs
      refine hkeep s (fun h => hxC (h ▸ hs)) (fun h => hyC (h ▸ hs))
        (hnotB s hlt fun hbe h => hBrest _ (hB.rootIdx_mem hbe) s (Or.inr (Or.inl hs)) h.symm)
        (fun hm => hCk s hs s hm rfl)
    have hx' : a'.node x = some { nx with right := ny.left, parent := y } := by
      rw [hother' x hxy' (Ne.symm hpx), h4x]
    refine ⟨rfl, _, hy', rfl, hyr, hye, ?_, Rep.congr hnodeC hC⟩
    refine ⟨rfl, _, hx', rfl, hxr, hxe, Rep.congr hnodeA hA, ?_⟩
    -- B, re-parented to x
    cases B with
    | leaf => exact hB
    | node cb Bl sb eb Br =>
      obtain ⟨hbi, nb, hb1, hb2, hb3, hb4, hb5, hb6⟩ := hB
      have hblt := node_lt hb1
      have hbe : ny.left ≠ EMPTY := by omega
      have hsbk : sb ∉ ctxSlots k := by rw [← hbi]; exact hBk hbe
      have hpb : p ≠ sb := hctx.parent_ne hsize hblt hsbk
      have hb' : a'.node sb = some { nb with parent := x } := by
        obtain ⟨nb', hnb', hnb4⟩ := h4b hbe
        rw [hbi] at hnb' hnb4
        rw [hb1] at hnb'
        cases hnb'
        rw [hother' sb (by rw [← hbi]; exact hBy) (Ne.symm hpb), hnb4]
      simp only [T.slots_node, List.nodup_append, List.nodup_cons, List.mem_cons] at hBnd
      obtain ⟨hBlnd, ⟨hsbr, hBrnd⟩, hBdis⟩ := hBnd
      have hsub : ∀ s, s ∈ Bl.slots ∨ s ∈ Br.slots → a'.node s = a.node s := by
        intro s hs
        have hsB : s ∈ (T.node cb Bl sb eb Br).slots := by
          simp only [T.slots_node, List.mem_append, List.mem_cons]
          rcases hs with hs | hs
          · exact Or.inl hs
          · exact Or.inr (Or.inr hs)
        refine hkeep s (fun h => hxB (h ▸ hsB)) (hBrest s hsB y (Or.inl rfl)) ?_
          (fun hm => hBrest s hsB s (Or.inr (Or.inr hm)) rfl)
        rw [hbi]; intro h
        rcases hs with hs | hs
        · exact hBdis s hs sb (Or.inl rfl) h
        · exact hsbr (h ▸ hs)
      exact ⟨hbi, _, hb', rfl, hb3, hb4, Rep.congr (fun s hs => hsub s (Or.inl hs)) hb5,
        Rep.congr (fun s hs => hsub s (Or.inr hs)) hb6⟩
  · -- frame
    intro j hj
    simp only [T.slots_node, List.append_assoc, List.cons_append, List.mem_append, List.mem_cons, not_or] at hj
    obtain ⟨hjA, hjx, hjB, hjy, hjC, hjk⟩ := hj
    by_cases hlt : j < a.nodes.size
    · exact hkeep j hjx hjy (hnotB j hlt fun hbe h => hjB (h ▸ hB.rootIdx_mem hbe)) hjk
    · exact node_eq_of_size hsz' (by omega)

/-- `rotate_right(x)` under an arbitrary context -/
theorem rotateRight_rep {a : Arena V} {k : Ctx (Ent V)} {p : Nat} {cx cy : Color} {A B C : T (Ent V)}
    {x y : Nat} {ex ey : Ent V} (hsize : a.nodes.size ≤ EMPTY)
    (hctx : RepCtx a k x p) (hrep : Rep a x p (.node cx (.node cy A y ey B) x ex C))
    (hnd : ((T.node cx (T.node cy A y ey B) x ex C).slots ++ ctxSlots k).Nodup) :
    ∃ a', a.rotateRight x = some a' ∧ RepCtx a' k y p ∧
      Rep a' y p (.node cy A y ey (.node cx B x ex C)) ∧
      (∀ j, j ∉ (T.node cx (T.node cy A y ey B) x ex C).slots ++ ctxSlots k → a'.node j = a.node j) ∧
      (k ≠ [] → a'.root = a.root) ∧
      a'.unused = a.unused ∧ a'.cap = a.cap ∧ a'.dflt = a.dflt ∧ a'.nodes.size = a.nodes.size := by
  obtain ⟨_, nx, hx, hxp, hxr, hxe, hyrep, hC⟩ := hrep
  obtain ⟨hyeq, ny, hy, hyp, hyr, hye, hA, hB⟩ := hyrep
  -- disjointness facts
  simp only [T.slots_node, List.append_assoc, List.cons_append, List.nodup_append, List.nodup_cons,
    List.mem_append, List.mem_cons, not_or] at hnd
  obtain ⟨hAnd, ⟨⟨hyB, hyx, hyC, hyk⟩, ⟨hBnd, ⟨⟨hxC, hxk⟩, hCnd, hknd, hCk⟩, hBrest⟩⟩, hArest⟩ := hnd
  have hxy' : x ≠ y := fun h => hyx h.symm
  have hxB : x ∉ B.slots := fun h => hBrest x h x (Or.inl rfl) rfl
  have hyx' : nx.left = y := hyeq
  -- the root of B
  have hBx : ny.right ≠ x := by
    intro h
    by_cases hbe : ny.right = EMPTY
    · have := node_lt hx; omega
    · exact hxB (h ▸ hB.rootIdx_mem hbe)
  have hBy : ny.right ≠ y := by
    intro h
    by_cases hbe : ny.right = EMPTY
    · have := node_lt hy; omega
    · exact hyB (h ▸ hB.rootIdx_mem hbe)
  -- the four local updates
  let a1 := a.upd y fun n => { n with right := x }
  let a2 := if ny.right = EMPTY then a1 else a1.upd ny.right fun n => { n with parent := x }
  let a3 := a2.upd x fun n => { n with left := ny.right }
  let a4 := a3.upd x fun n => { n with parent := y }
  have hxlt := node_lt hx
  have hylt := node_lt hy
  have hstep : a.rotateRight x = a4.replaceParentsChild p x y := by
    simp only [Arena.rotateRight, hx, Option.bind_eq_bind, Option.bind_some, hyx', hy]
    rw [Arena.setRight_eq x hylt]
    simp only [Option.bind_some]
    by_cases hbe : ny.right = EMPTY
    · have hbne : (ny.right != EMPTY) = false := by simp [hbe]
      simp only [hbne, Bool.false_eq_true, if_false]
      rw [Arena.setLeft_eq _ (by simpa using hxlt)]
      simp only [Option.bind_some]
      rw [Arena.setParent_eq _ (by simpa using hxlt)]
      simp only [Option.bind_some, hxp, a4, a3, a2, a1, hbe, if_true]
    · have hbne : (ny.right != EMPTY) = true := by simp [hbe]
      obtain ⟨nb, hnb, _⟩ := hB.node_of_ne hbe
      have hblt := node_lt hnb
      simp only [hbne, if_true]
      rw [Arena.setParent_eq _ (by simpa using hblt)]
      simp only [Option.bind_some]
      rw [Arena.setLeft_eq _ (by simpa using hxlt)]
      simp only [Option.bind_some]
      rw [Arena.setParent_eq _ (by simpa using hxlt)]
      simp only [Option.bind_some, hxp, a4, a3, a2, a1, hbe, if_false]
  -- node lookups in a4
  have h4x : a4.node x = some { nx with left := ny.right, parent := y } := by
    simp only [a4, a3, a2, a1]
    split <;> simp [Ne.symm hxy', hx, hBx]
  have h4y : a4.node y = some { ny with right := x } := by
    simp only [a4, a3, a2, a1]
    split <;> simp [hxy', hy, hBy]
  have h4other : ∀ j, j ≠ x → j ≠ y → j ≠ ny.right → a4.node j = a.node j := by
    intro j h1 h2 h3
    simp only [a4, a3, a2, a1]
    split <;> simp [Ne.symm h1, Ne.symm h2, Ne.symm h3]
  have h4b : ny.right ≠ EMPTY → ∃ nb, a.node ny.right = some nb ∧ a4.node ny.right = some { nb with parent := x } := by
    intro hbe
    obtain ⟨nb, hnb, _⟩ := hB.node_of_ne hbe
    refine ⟨nb, hnb, ?_⟩
    simp only [a4, a3, a2, a1, hbe, if_false]
    simp [Ne.symm hBx, Ne.symm hBy, hnb]
  have h4size : a4.nodes.size = a.nodes.size := by
    simp only [a4, a3, a2, a1]; split <;> simp
  have h4root : a4.root = a.root := by simp only [a4, a3, a2, a1]; split <;> simp
  -- B's root is not in the context
  have hBk : ny.right ≠ EMPTY → ny.right ∉ ctxSlots k := by
    intro hbe hmem
    exact (hBrest ny.right (hB.rootIdx_mem hbe) ny.right (Or.inr (Or.inr hmem))) rfl
  have hctx4 : RepCtx a4 k x p := by
    refine RepCtx.congr (a := a) ?_ h4root hctx
    intro s hs
    refine h4other s (fun h => hxk (h ▸ hs)) (fun h => hyk (h ▸ hs)) ?_
    intro h
    by_cases hbe : ny.right = EMPTY
    · have := hctx.slots_lt s hs; omega
    · exact hBk hbe (h ▸ hs)
  obtain ⟨a', hrp, hctx', hy', hother', hroot', hu', hc', hd', hs'⟩ :=
    replaceParentsChild_ctx (a := a4) (by omega) hctx4 h4y ⟨_, h4x⟩ hxk hyk hknd
  have hsz' : a'.nodes.size = a.nodes.size := by rw [hs', h4size]
  have hkeep : ∀ s, s ≠ x → s ≠ y → s ≠ ny.right → s ∉ ctxSlots k → a'.node s = a.node s := by
    intro s h1 h2 h3 h4
    by_cases hlt : s < a.nodes.size
    · rw [hother' s h2 (Ne.symm (hctx.parent_ne hsize hlt h4)), h4other s h1 h2 h3]
    · exact node_eq_of_size hsz' (by omega)
  have hnotB : ∀ s, s < a.nodes.size → (ny.right ≠ EMPTY → s ≠ ny.right) → s ≠ ny.right := by
    intro s hlt h heq
    by_cases hbe : ny.right = EMPTY
    · omega
    · exact h hbe heq
  refine ⟨a', by rw [hstep]; exact hrp, hctx', ?_, ?_, (fun h => by rw [hroot' h, h4root]), by rw [hu']; simp only [a4, a3, a2, a1]; split <;> simp,
    by rw [hc']; simp only [a4, a3, a2, a1]; split <;> simp, by rw [hd']; simp only [a4, a3, a2, a1]; split <;> simp,
    hsz'⟩
  · -- the rotated subtree
    have hpx : p ≠ x := hctx.parent_ne hsize hxlt hxk
    have hnodeA : ∀ s ∈ A.slots, a'.node s = a.node s := by
      intro s hs
      have hlt := hA.slots_lt s hs
      refine hkeep s (hArest s hs x (Or.inr (Or.inr (Or.inl rfl)))) (hArest s hs y (Or.inl rfl))
        (hnotB s hlt fun hbe => hArest s hs _ (Or.inr (Or.inl (hB.rootIdx_mem hbe))))
        (fun hm => hArest s hs s (Or.inr (Or.inr (Or.inr (Or.inr hm)))) rfl)
    have hnodeC : ∀ s ∈ C.slots, a'.node s = a.node s := by
      intro s hs
      have hlt := hC.slots_lt s hs
      refine hkeep s (fun h => hxC (h ▸ hs)) (fun h => hyC (h ▸ hs))
        (hnotB s hlt fun hbe h => hBrest _ (hB.rootIdx_mem hbe) s (Or.inr (Or.inl hs)) h.symm)
        (fun hm => hCk s hs s hm rfl)
    have hx' : a'.node x = some { nx with left := ny.right, parent := y } := by
      rw [hother' x hxy' (Ne.symm hpx), h4x]
    refine ⟨rfl, _, hy', rfl, hyr, hye, Rep.congr hnodeA hA, ?_⟩
    refine ⟨rfl, _, hx', rfl, hxr, hxe, ?_, Rep.congr hnodeC hC⟩
    -- B, re-parented to x
    cases B with
    | leaf => exact hB
    | node cb Bl sb eb Br =>
      obtain ⟨hbi, nb, hb1, hb2, hb3, hb4, hb5, hb6⟩ := hB
      have hblt := node_lt hb1
      have hbe : ny.right ≠ EMPTY := by omega
      have hsbk : sb ∉ ctxSlots k := by rw [← hbi]; exact hBk hbe
      have hpb : p ≠ sb := hctx.parent_ne hsize hblt hsbk
      have hb' : a'.node sb = some { nb with parent := x } := by
        obtain ⟨nb', hnb', hnb4⟩ := h4b hbe
        rw [hbi] at hnb' hnb4
        rw [hb1] at hnb'
        cases hnb'
        rw [hother' sb (by rw [← hbi]; exact hBy) (Ne.symm hpb), hnb4]
      simp only [T.slots_node, List.nodup_append, List.nodup_cons, List.mem_cons] at hBnd
      obtain ⟨hBlnd, ⟨hsbr, hBrnd⟩, hBdis⟩ := hBnd
      have hsub : ∀ s, s ∈ Bl.slots ∨ s ∈ Br.slots → a'.node s = a.node s := by
        intro s hs
        have hsB : s ∈ (T.node cb Bl sb eb Br).slots := by
          simp only [T.slots_node, List.mem_append, List.mem_cons]
          rcases hs with hs | hs
          · exact Or.inl hs
          · exact Or.inr (Or.inr hs)
        refine hkeep s (hBrest s hsB x (Or.inl rfl)) (fun h => hyB (h ▸ hsB)) ?_
          (fun hm => hBrest s hsB s (Or.inr (Or.inr hm)) rfl)
        rw [hbi]; intro h
        rcases hs with hs | hs
        · exact hBdis s hs sb (Or.inl rfl) h
        · exact hsbr (h ▸ hs)
      exact ⟨hbi, _, hb', rfl, hb3, hb4, Rep.congr (fun s hs => hsub s (Or.inl hs)) hb5,
        Rep.congr (fun s hs => hsub s (Or.inr hs)) hb6⟩
  · -- frame
    intro j hj
    simp only [T.slots_node, List.append_assoc, List.cons_append, List.mem_append, List.mem_cons, not_or] at hj
    obtain ⟨hjA, hjy, hjB, hjx, hjC, hjk⟩ := hj
    by_cases hlt : j < a.nodes.size
    · exact hkeep j hjx hjy (hnotB j hlt fun hbe h => hjB (h ▸ hB.rootIdx_mem hbe)) hjk
    · exact node_eq_of_size hsz' (by omega)

end ITree
