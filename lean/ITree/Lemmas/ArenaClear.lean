import ITree.Lemmas.ArenaExpire
/-!
# `clear` of the arena (the free list itself is the work queue of a breadth-first release) against `St.clear`
-/
namespace ITree
variable {V : Type}

/-- a `foldlM` in `Option` with an index-based invariant -/
theorem foldlM_inv {α β : Type} (f : β → α → Option β) (P : Nat → β → Prop) :
    ∀ (l : List α) (off : Nat) (init : β), P off init →
    (∀ j (hj : j < l.length) b, P (off + j) b → ∃ b', f b l[j] = some b' ∧ P (off + j + 1) b') →
    ∃ b', l.foldlM f init = some b' ∧ P (off + l.length) b' := by
  intro l
  induction l with
  | nil => intro off init h _; exact ⟨init, rfl, by simpa using h⟩
  | cons x xs ih =>
    intro off init h hstep
    obtain ⟨b1, h1, hP1⟩ := hstep 0 (by simp) init (by simpa using h)
    simp only [List.getElem_cons_zero] at h1
    obtain ⟨b', h2, hP2⟩ := ih (off + 1) b1 (by simpa using hP1) (by
      intro j hj b hb
      have := hstep (j + 1) (by simp; omega) b (by rw [← Nat.add_assoc, Nat.add_right_comm]; simpa [Nat.add_assoc] using hb)
      simpa [Nat.add_assoc, Nat.add_comm 1 j] using this)
    refine ⟨b', ?_, by simpa [Nat.add_assoc, Nat.add_comm 1] using hP2⟩
    simp only [List.foldlM_cons, h1, Option.bind_eq_bind, Option.bind_some]
    exact h2

/-- several `put_back`s -/
def Arena.putBackAll (a : Arena V) (l : List Nat) : Arena V := l.foldl Arena.putBack a

theorem putBackAll_nodes (a : Arena V) (l : List Nat) :
    (a.putBackAll l).nodes = a.nodes ∧ (a.putBackAll l).root = a.root ∧ (a.putBackAll l).dflt = a.dflt ∧
    (a.putBackAll l).unused = a.unused ++ l.toArray := by
  induction l generalizing a with
  | nil => simp [Arena.putBackAll]
  | cons x xs ih =>
    obtain ⟨h1, h2, h3, h4⟩ := ih (a.putBack x)
    simp only [Arena.putBackAll, List.foldl_cons] at h1 h2 h3 h4 ⊢
    refine ⟨h1, h2, h3, ?_⟩
    rw [h4]
    simp [Arena.putBack]

theorem putBackAll_pool (a : Arena V) (l : List Nat) : poolOf (a.putBackAll l) = (poolOf a).freeAll l := by
  induction l generalizing a with
  | nil => rfl
  | cons x xs ih =>
    simp only [Arena.putBackAll, List.foldl_cons, Pool.freeAll] at ih ⊢
    rw [ih, putBack_pool]

theorem putBackAll_append (a : Arena V) (l1 l2 : List Nat) :
    a.putBackAll (l1 ++ l2) = (a.putBackAll l1).putBackAll l2 := by
  simp [Arena.putBackAll, List.foldl_append]

end ITree

namespace ITree
variable {V : Type}

/-- every tree of the level is non-empty and represented (under whatever parent) -/
def LevelRep (a : Arena V) (level : List (T (Ent V))) : Prop :=
  ∀ t ∈ level, t ≠ .leaf ∧ ∃ p, Rep a t.rootIdx p t

theorem LevelRep.lroots {a : Arena V} {level : List (T (Ent V))} (h : LevelRep a level) :
    lroots level = level.map T.rootIdx := by
  induction level with
  | nil => rfl
  | cons t ts ih =>
    have ht := h t (by simp)
    have := ih (fun x hx => h x (by simp [hx]))
    cases t with
    | leaf => exact absurd rfl ht.1
    | node c l s e r => simp only [ITree.lroots] at this ⊢; simp [List.filterMap_cons, T.rootSlot, T.rootIdx, this]

theorem LevelRep.kids {a : Arena V} {level : List (T (Ent V))} (h : LevelRep a level) :
    LevelRep a (level.flatMap kidsOf) := by
  intro x hx
  simp only [List.mem_flatMap] at hx
  obtain ⟨t, ht, hxt⟩ := hx
  obtain ⟨_, p, hr⟩ := h t ht
  cases t with
  | leaf => simp [kidsOf] at hxt
  | node c l s e r =>
    simp only [T.rootIdx] at hr
    obtain ⟨_, n, _, _, _, _, hl, hrr⟩ := hr
    simp only [kidsOf, List.mem_filter, List.mem_cons, List.not_mem_nil, or_false, Bool.not_eq_eq_eq_not,
      Bool.not_true] at hxt
    obtain ⟨hx, hnl⟩ := hxt
    have hxne : x ≠ .leaf := by intro h'; subst h'; simp [T.isLeaf] at hnl
    rcases hx with rfl | rfl
    · exact ⟨hxne, s, by rw [← hl.idx]; exact hl⟩
    · exact ⟨hxne, s, by rw [← hrr.idx]; exact hrr⟩

/-- releasing the children of one node -/
theorem kids_step {a b : Arena V} (hb : b.nodes = a.nodes) {t : T (Ent V)} {p : Nat} (hnl : t ≠ .leaf)
    (hr : Rep a t.rootIdx p t) (hsize : a.nodes.size ≤ EMPTY) (cnt : Nat) :
    ∃ nd, b.node t.rootIdx = some nd ∧
      (let x := if nd.left != EMPTY then (b.putBack nd.left, cnt + 1) else (b, cnt)
       if nd.right != EMPTY then (x.1.putBack nd.right, x.2 + 1) else x) =
      (b.putBackAll (lroots (kidsOf t)), cnt + (kidsOf t).length) := by
  cases t with
  | leaf => exact absurd rfl hnl
  | node c l s e r =>
    simp only [T.rootIdx] at hr ⊢
    obtain ⟨_, n, hn, _, _, _, hl, hrr⟩ := hr
    refine ⟨n, by simpa [Arena.node, hb] using hn, ?_⟩
    have hL : (n.left != EMPTY) = !l.isLeaf ∧ (l.isLeaf = false → T.rootSlot l = some n.left) := by
      cases l with
      | leaf => have : n.left = EMPTY := hl; simp [this, T.isLeaf]
      | node cl ll sl el rl =>
        have h1 : n.left = sl := hl.1
        have := node_lt hl.2.choose_spec.1
        refine ⟨by simp [T.isLeaf, h1]; omega, fun _ => by simp [T.rootSlot, h1]⟩
    have hR : (n.right != EMPTY) = !r.isLeaf ∧ (r.isLeaf = false → T.rootSlot r = some n.right) := by
      cases r with
      | leaf => have : n.right = EMPTY := hrr; simp [this, T.isLeaf]
      | node cr lr sr er rr =>
        have h1 : n.right = sr := hrr.1
        have := node_lt hrr.2.choose_spec.1
        refine ⟨by simp [T.isLeaf, h1]; omega, fun _ => by simp [T.rootSlot, h1]⟩
    rw [hL.1, hR.1]
    cases hll : l.isLeaf <;> cases hrl : r.isLeaf <;>
      simp [kidsOf, ITree.lroots, hll, hrl, List.filterMap_cons, Arena.putBackAll, hL.2, hR.2]

end ITree

namespace ITree
variable {V : Type}

/-- one element of the work queue: release its children -/
def clearStep (b : Arena V) (cnt : Nat) (nd : ANode V) : Arena V × Nat :=
  let x := if nd.left != EMPTY then (b.putBack nd.left, cnt + 1) else (b, cnt)
  if nd.right != EMPTY then (x.1.putBack nd.right, x.2 + 1) else x

theorem clearLoop_eq (fuel : Nat) (a : Arena V) (n : Nat) :
    Arena.clearLoop (fuel + 1) a n =
      if n == 0 then some a else
        ((List.range (a.unused.size - (a.unused.size - n))).foldlM (fun (acc : Arena V × Nat) j =>
            (acc.1.unused[a.unused.size - n + j]?).bind fun idx => (acc.1.node idx).bind fun nd =>
              some (clearStep acc.1 acc.2 nd)) (a, 0)).bind fun x => Arena.clearLoop fuel x.1 x.2 := by
  simp only [Arena.clearLoop, Option.bind_eq_bind, Option.pure_def]
  split
  · rfl
  · congr 2

end ITree

namespace ITree
variable {V : Type}

theorem clearStep_eq {a b : Arena V} (hb : b.nodes = a.nodes) {t : T (Ent V)} {p : Nat} (hnl : t ≠ .leaf)
    (hr : Rep a t.rootIdx p t) (hsize : a.nodes.size ≤ EMPTY) (cnt : Nat) :
    ∃ nd, b.node t.rootIdx = some nd ∧
      clearStep b cnt nd = (b.putBackAll (lroots (kidsOf t)), cnt + (kidsOf t).length) := by
  obtain ⟨nd, h1, h2⟩ := kids_step hb hnl hr hsize cnt
  exact ⟨nd, h1, h2⟩

theorem freeAll_append (p : Pool) (l1 l2 : List Nat) : p.freeAll (l1 ++ l2) = (p.freeAll l1).freeAll l2 := by
  simp [Pool.freeAll, List.foldl_append]

/-- the breadth-first loop of `clear` -/
theorem clearLoop_rep : ∀ (fuel : Nat) (a : Arena V) (level : List (T (Ent V))) (U : List Nat) (mf : Nat),
    a.nodes.size ≤ EMPTY → LevelRep a level → a.unused.toList = U ++ level.map T.rootIdx →
    lsize level < fuel → lsize level < mf →
    ∃ a', Arena.clearLoop fuel a level.length = some a' ∧ a'.nodes = a.nodes ∧ a'.root = a.root ∧
      a'.dflt = a.dflt ∧ poolOf a' = (poolOf a).freeAll (bfsLevels level mf) := by
  intro fuel
  induction fuel with
  | zero => intro a level U mf _ _ _ h; omega
  | succ fuel ih =>
    intro a level U mf hsize hlev hun hfuel hmf
    obtain ⟨mf, rfl⟩ : ∃ m0, mf = m0 + 1 := ⟨mf - 1, by omega⟩
    rw [clearLoop_eq]
    by_cases hl : level = []
    · subst hl
      refine ⟨a, by simp, rfl, rfl, rfl, ?_⟩
      simp [bfsLevels_nil, Pool.freeAll]
    · have hn : (level.length == 0) = false := by
        cases level with
        | nil => exact absurd rfl hl
        | cons t ts => simp
      simp only [hn, Bool.false_eq_true, if_false]
      have hsz : a.unused.size = U.length + level.length := by
        have := congrArg List.length hun
        simpa using this
      have hi0 : a.unused.size - level.length = U.length := by omega
      have hrange : a.unused.size - (a.unused.size - level.length) = level.length := by omega
      rw [hrange, hi0]
      -- the fold
      obtain ⟨b', hfold, hP⟩ := foldlM_inv
        (fun (acc : Arena V × Nat) j =>
          (acc.1.unused[U.length + j]?).bind fun idx => (acc.1.node idx).bind fun nd =>
            some (clearStep acc.1 acc.2 nd))
        (fun j (acc : Arena V × Nat) =>
          acc.1 = a.putBackAll (lroots ((level.take j).flatMap kidsOf)) ∧
          acc.2 = ((level.take j).flatMap kidsOf).length)
        (List.range level.length) 0 (a, 0) (by simp [Arena.putBackAll, ITree.lroots])
        (by
          intro j hj b hb
          simp only [List.length_range] at hj
          simp only [Nat.zero_add, List.getElem_range] at hb ⊢
          obtain ⟨hb1, hb2⟩ := hb
          obtain ⟨hnodes, _, _, hunused⟩ := putBackAll_nodes a (lroots ((level.take j).flatMap kidsOf))
          have hidx : b.1.unused[U.length + j]? = some (level[j]).rootIdx := by
            rw [hb1, hunused, Array.getElem?_append_left (by omega)]
            have : a.unused[U.length + j]? = a.unused.toList[U.length + j]? := by simp
            rw [this, hun, List.getElem?_append_right (by omega)]
            simp [hj]
          obtain ⟨hnl, p, hr⟩ := hlev level[j] (List.getElem_mem _)
          obtain ⟨nd, hnd, hstep⟩ := clearStep_eq (a := a) (b := b.1) (by rw [hb1]; exact hnodes) hnl hr hsize b.2
          refine ⟨_, by simp only [hidx, Option.bind_some, hnd]; rfl, ?_⟩
          rw [hstep, List.take_succ_eq_append_getElem hj]
          simp only [List.flatMap_append, List.flatMap_cons, List.flatMap_nil, List.append_nil, ITree.lroots,
            List.filterMap_append, List.length_append]
          refine ⟨?_, by rw [hb2]⟩
          rw [hb1, putBackAll_append]
          rfl)
      simp only [Nat.zero_add, List.length_range, List.take_length] at hP
      obtain ⟨hb1, hb2⟩ := hP
      rw [hfold]
      simp only [Option.bind_some]
      obtain ⟨hnodes, hroot, hdflt, hunused⟩ := putBackAll_nodes a (lroots (level.flatMap kidsOf))
      have hkids := hlev.kids
      have hlevb : LevelRep b'.1 (level.flatMap kidsOf) := by
        intro t ht
        obtain ⟨h1, p, h2⟩ := hkids t ht
        exact ⟨h1, p, Rep.congr (a := a) (fun s _ => by simp [Arena.node, hb1, hnodes]) h2⟩
      have hsizes := level_size level
      have hpos : 0 < (lroots level).length := by
        rw [hlev.lroots]
        cases level with
        | nil => exact absurd rfl hl
        | cons t ts => simp
      obtain ⟨a', h1, h2, h3, h4, h5⟩ := ih b'.1 (level.flatMap kidsOf) (U ++ level.map T.rootIdx) mf
        (by rw [hb1, hnodes]; exact hsize) hlevb
        (by rw [hb1, hunused, ← hkids.lroots]; simp [hun]) (by omega) (by omega)
      rw [hb2]
      refine ⟨a', h1, by rw [h2, hb1, hnodes], by rw [h3, hb1, hroot], by rw [h4, hb1, hdflt], ?_⟩
      rw [h5, hb1, putBackAll_pool, bfsLevels_succ level mf hl, freeAll_append]

end ITree

namespace ITree
variable {V : Type}

/-- **`clear`** of the pointer code (the free list as the queue of a breadth-first release, links left as
they are) yields the state of `St.clear`: an empty tree and every slot of the old tree back on the free list,
in the same order -/
theorem clear_rep {a : Arena V} {st : St V} (h : RepSt a st) (hs : SlotsOK st.tree st.pool)
    (hsize : a.nodes.size ≤ EMPTY) :
    ∃ a', a.clear = some a' ∧ RepSt a' st.clear ∧ a'.nodes = a.nodes ∧ a'.dflt = a.dflt := by
  have htree := h.tree
  have hsz := h.size_le hs
  cases ht : st.tree with
  | leaf =>
    rw [ht] at htree
    have hroot : a.root = EMPTY := htree
    refine ⟨a, by simp [Arena.clear, hroot], ⟨?_, ?_⟩, rfl, rfl⟩
    · simp [St.clear, hroot]; rfl
    · simp [St.clear, ht, T.bfs, Pool.freeAll, h.pool]
  | node c l s e r =>
    rw [ht] at htree hsz
    have hroot : a.root = s := htree.1
    have hslt := node_lt htree.2.choose_spec.1
    have hne : (a.root == EMPTY) = false := by rw [hroot]; simp; omega
    let a2 : Arena V := { (a.putBack a.root) with root := EMPTY }
    have hlev : LevelRep a2 [T.node c l s e r] := by
      intro t hmem
      simp only [List.mem_singleton] at hmem
      subst hmem
      exact ⟨by simp, EMPTY, Rep.congr (a := a) (fun _ _ => rfl) (by simpa [T.rootIdx, hroot] using htree)⟩
    obtain ⟨a', h1, h2, h3, h4, h5⟩ := clearLoop_rep (a.nodes.size + 2) a2 [T.node c l s e r] a.unused.toList
      ((T.node c l s e r).size + 1) (by simpa [a2, Arena.putBack] using hsize) hlev
      (by simp [a2, Arena.putBack, T.rootIdx, hroot]) (by simp only [T.size_node] at hsz; simp [lsize]; omega) (by simp [lsize])
    refine ⟨a', ?_, ⟨?_, ?_⟩, by rw [h2]; rfl, by rw [h4]; rfl⟩
    · simp only [Arena.clear, hne, Bool.false_eq_true, if_false]
      simpa [a2] using h1
    · simp only [St.clear]
      rw [h3]
      rfl
    · simp only [St.clear, ht, T.bfs]
      rw [h5]
      have : poolOf a2 = (poolOf a).free s := by
        simp only [a2]
        rw [← hroot]
        exact putBack_pool a a.root
      rw [this, h.pool]
      rfl

end ITree
