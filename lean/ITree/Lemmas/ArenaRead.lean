import ITree.Lemmas.ArenaInsert
/-!
# Read-only arena operations against the zipper model

Handles are `u32` indices with `EMPTY_REF` for "none": `optIdx`.
-/
namespace ITree
variable {V : Type}

/-- `Option` handle of the model as the index the Rust code returns -/
def optIdx : Option Nat → Nat
  | some i => i
  | none => EMPTY

/-- `find_index` -/
theorem findIndex_rep {a : Arena V} (hsize : a.nodes.size ≤ EMPTY) (key : Int) : ∀ (fuel : Nat) (t : T (Ent V)) (k : Ctx (Ent V)) (i p : Nat),
    Rep a i p t → t.height < fuel →
    Arena.findIndex fuel a key i = some (match findKey key k t with
      | some (_, t') => t'.rootIdx
      | none => EMPTY) := by
  intro fuel
  induction fuel with
  | zero => intro t k i p _ h; omega
  | succ fuel ih =>
    intro t k i p hr hf
    cases t with
    | leaf =>
      have : i = EMPTY := hr
      simp [Arena.findIndex, this, findKey]
    | node c l s e r =>
      obtain ⟨rfl, n, hn, _, _, hne, hl, hrr⟩ := hr
      have hlt := node_lt hn
      simp only [T.height] at hf
      have hie : (i == EMPTY) = false := by simp; omega
      simp only [Arena.findIndex, hie, Bool.false_eq_true, if_false, hn, Option.bind_eq_bind, Option.bind_some, hne, findKey]
      by_cases h1 : key < e.key
      · simp only [h1, if_true]
        exact ih l _ _ _ hl (by omega)
      · simp only [h1, if_false]
        by_cases h2 : e.key < key
        · simp only [h2, if_true]
          exact ih r _ _ _ hrr (by omega)
        · simp [h2, T.rootIdx]

/-- `search_first_less_by` -/
theorem firstLessBy_rep {a : Arena V} (hsize : a.nodes.size ≤ EMPTY) (f : Int → Ordering) :
    ∀ (fuel : Nat) (t : T (Ent V)) (i p : Nat) (res : Option Nat),
    Rep a i p t → t.height < fuel →
    Arena.firstLessBy fuel a f i (optIdx res) = some (optIdx (t.firstLEBy f res)) := by
  intro fuel
  induction fuel with
  | zero => intro t i p res _ h; omega
  | succ fuel ih =>
    intro t i p res hr hf
    cases t with
    | leaf =>
      have : i = EMPTY := hr
      simp [Arena.firstLessBy, this, T.firstLEBy]
    | node c l s e r =>
      obtain ⟨rfl, n, hn, _, _, hne, hl, hrr⟩ := hr
      have hlt := node_lt hn
      simp only [T.height] at hf
      have hie : (i == EMPTY) = false := by simp; omega
      simp only [Arena.firstLessBy, hie, Bool.false_eq_true, if_false, hn, Option.bind_eq_bind, Option.bind_some, hne,
        T.firstLEBy]
      cases hfe : f e.key with
      | eq => simp [optIdx]
      | lt => simpa [optIdx] using ih r _ _ (some i) hrr (by omega)
      | gt => simpa using ih l _ _ res hl (by omega)

/-- `find_left_minimum` -/
theorem findLeftMinimum_rep {a : Arena V} (hsize : a.nodes.size ≤ EMPTY) :
    ∀ (fuel : Nat) (t : T (Ent V)) (i p : Nat), Rep a i p t → t ≠ .leaf → t.height < fuel + 1 →
    Arena.findLeftMinimum fuel a i = some (optIdx t.minSlot) := by
  intro fuel
  induction fuel with
  | zero =>
    intro t i p _ hnl h
    cases t with
    | leaf => exact absurd rfl hnl
    | node c l s e r => simp [T.height] at h
  | succ fuel ih =>
    intro t i p hr hnl hf
    cases t with
    | leaf => exact absurd rfl hnl
    | node c l s e r =>
      obtain ⟨rfl, n, hn, _, _, _, hl, _⟩ := hr
      simp only [T.height] at hf
      simp only [Arena.findLeftMinimum, hn, Option.bind_eq_bind, Option.bind_some, T.minSlot]
      cases l with
      | leaf =>
        have : n.left = EMPTY := hl
        simp [this, T.minSlot, optIdx]
      | node cl ll sl el rl =>
        have hl0 := hl
        obtain ⟨hli, nl, hnl', _⟩ := hl0
        have := node_lt hnl'
        have hne : (n.left != EMPTY) = true := by rw [hli]; simp; omega
        simp only [hne, if_true]
        rw [ih _ _ _ hl (by simp) (by simp only [T.height] at hf ⊢; omega)]
        cases hm : (T.node cl ll sl el rl).minSlot with
        | none => simp [T.minSlot] at hm; split at hm <;> simp at hm
        | some m => simp [optIdx]

/-- `find_right_maximum` -/
theorem findRightMaximum_rep {a : Arena V} (hsize : a.nodes.size ≤ EMPTY) :
    ∀ (fuel : Nat) (t : T (Ent V)) (i p : Nat), Rep a i p t → t ≠ .leaf → t.height < fuel + 1 →
    Arena.findRightMaximum fuel a i = some (optIdx t.maxSlot) := by
  intro fuel
  induction fuel with
  | zero =>
    intro t i p _ hnl h
    cases t with
    | leaf => exact absurd rfl hnl
    | node c l s e r => simp [T.height] at h
  | succ fuel ih =>
    intro t i p hr hnl hf
    cases t with
    | leaf => exact absurd rfl hnl
    | node c l s e r =>
      obtain ⟨rfl, n, hn, _, _, _, _, hrr⟩ := hr
      simp only [T.height] at hf
      simp only [Arena.findRightMaximum, hn, Option.bind_eq_bind, Option.bind_some, T.maxSlot]
      cases r with
      | leaf =>
        have : n.right = EMPTY := hrr
        simp [this, T.maxSlot, optIdx]
      | node cl ll sl el rl =>
        have hr0 := hrr
        obtain ⟨hri, nr, hnr', _⟩ := hr0
        have := node_lt hnr'
        have hne : (n.right != EMPTY) = true := by rw [hri]; simp; omega
        simp only [hne, if_true]
        rw [ih _ _ _ hrr (by simp) (by simp only [T.height] at hf ⊢; omega)]
        cases hm : (T.node cl ll sl el rl).maxSlot with
        | none => simp [T.maxSlot] at hm; split at hm <;> simp at hm
        | some m => simp [optIdx]

end ITree

namespace ITree
variable {V : Type}

/-- locating a slot: the arena realises the located context and focus -/
theorem findSlot_rep {a : Arena V} (slot : Nat) : ∀ (t : T (Ent V)) (k : Ctx (Ent V)) (i p : Nat) {k' : Ctx (Ent V)}
    {t' : T (Ent V)}, RepCtx a k i p → Rep a i p t → findSlot slot k t = some (k', t') →
    ∃ p', RepCtx a k' slot p' ∧ Rep a slot p' t' := by
  intro t
  induction t with
  | leaf => intro k i p k' t' _ _ h; simp [findSlot] at h
  | node c l s e r ihl ihr =>
    intro k i p k' t' hc hr h
    have hr0 := hr
    obtain ⟨rfl, n, hn, hnp, hnr, hne, hl, hrr⟩ := hr
    simp only [findSlot] at h
    split at h
    · rename_i heq
      simp only [Option.some.injEq, Prod.mk.injEq] at h
      obtain ⟨rfl, rfl⟩ := h
      have : i = slot := by simpa using heq
      subst this
      exact ⟨p, hc, hr0⟩
    · split at h
      · rename_i x hx
        simp only [Option.some.injEq] at h
        subst h
        have hc' : RepCtx a ((⟨c, i, e, r, .L⟩ : Frame (Ent V)) :: k) n.left i :=
          ⟨rfl, n, hn, hnr, hne, ⟨rfl, hrr⟩, hnp ▸ hc⟩
        exact ihl _ _ _ hc' hl hx
      · have hc' : RepCtx a ((⟨c, i, e, l, .R⟩ : Frame (Ent V)) :: k) n.right i :=
          ⟨rfl, n, hn, hnr, hne, ⟨rfl, hl⟩, hnp ▸ hc⟩
        exact ihr _ _ _ hc' hrr h

/-- climbing while we are the right child (`index_after` without a right subtree) -/
theorem climbAfter_rep {a : Arena V} (hsize : a.nodes.size ≤ EMPTY) : ∀ (fuel : Nat) (k : Ctx (Ent V)) (idx p : Nat),
    RepCtx a k idx p → idx < a.nodes.size → (idx :: ctxSlots k).Nodup → k.length < fuel →
    Arena.climb true fuel a idx p = some (optIdx (climbAfter k)) := by
  intro fuel
  induction fuel with
  | zero => intro k idx p _ _ _ h; omega
  | succ fuel ih =>
    intro k idx p hc hidx hnd hf
    cases k with
    | nil =>
      obtain ⟨rfl, _⟩ := hc
      simp [Arena.climb, climbAfter, optIdx]
    | cons f k =>
      obtain ⟨rfl, n, hn, _, _, hside, hrest⟩ := hc
      have hlt := node_lt hn
      have hpe : (f.s == EMPTY) = false := by simp; omega
      simp only [Arena.climb, hpe, Bool.false_eq_true, if_false, hn, Option.bind_eq_bind, Option.bind_some, if_true,
        climbAfter]
      cases hs : f.side with
      | L =>
        simp only [hs] at hside
        -- the right child is the sibling, which is not `idx`
        have hne : n.right ≠ idx := by
          intro h
          by_cases he : n.right = EMPTY
          · omega
          · have := hside.2.rootIdx_mem he
            rw [h] at this
            simp only [ctxSlots, List.nodup_cons, List.mem_cons, List.mem_append, not_or] at hnd
            exact hnd.1.2.1 this
        have : (n.right != idx) = true := by simpa using hne
        simp [this, optIdx]
      | R =>
        simp only [hs] at hside
        have : (n.right != idx) = false := by simp [hside.1]
        simp only [this, Bool.false_eq_true, if_false]
        refine ih k f.s n.parent hrest hlt ?_ (by simp at hf; omega)
        simp only [ctxSlots, List.nodup_cons, List.mem_cons, List.mem_append, not_or, List.nodup_append] at hnd ⊢
        exact ⟨hnd.2.1.2, hnd.2.2.2.1⟩

theorem climbBefore_rep {a : Arena V} (hsize : a.nodes.size ≤ EMPTY) : ∀ (fuel : Nat) (k : Ctx (Ent V)) (idx p : Nat),
    RepCtx a k idx p → idx < a.nodes.size → (idx :: ctxSlots k).Nodup → k.length < fuel →
    Arena.climb false fuel a idx p = some (optIdx (climbBefore k)) := by
  intro fuel
  induction fuel with
  | zero => intro k idx p _ _ _ h; omega
  | succ fuel ih =>
    intro k idx p hc hidx hnd hf
    cases k with
    | nil =>
      obtain ⟨rfl, _⟩ := hc
      simp [Arena.climb, climbBefore, optIdx]
    | cons f k =>
      obtain ⟨rfl, n, hn, _, _, hside, hrest⟩ := hc
      have hlt := node_lt hn
      have hpe : (f.s == EMPTY) = false := by simp; omega
      simp only [Arena.climb, hpe, Bool.false_eq_true, if_false, hn, Option.bind_eq_bind, Option.bind_some,
        climbBefore]
      cases hs : f.side with
      | R =>
        simp only [hs] at hside
        have hne : n.left ≠ idx := by
          intro h
          by_cases he : n.left = EMPTY
          · omega
          · have := hside.2.rootIdx_mem he
            rw [h] at this
            simp only [ctxSlots, List.nodup_cons, List.mem_cons, List.mem_append, not_or] at hnd
            exact hnd.1.2.1 this
        have : (n.left != idx) = true := by simpa using hne
        simp [this, optIdx]
      | L =>
        simp only [hs] at hside
        have : (n.left != idx) = false := by simp [hside.1]
        simp only [this, Bool.false_eq_true, if_false]
        refine ih k f.s n.parent hrest hlt ?_ (by simp at hf; omega)
        simp only [ctxSlots, List.nodup_cons, List.mem_cons, List.mem_append, not_or, List.nodup_append] at hnd ⊢
        exact ⟨hnd.2.1.2, hnd.2.2.2.1⟩

end ITree
