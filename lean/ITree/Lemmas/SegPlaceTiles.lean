import ITree.Lemmas.SegDefs
namespace ITree

set_option maxRecDepth 100000 in
/-- the stored-at places tile the range: every bucket of `[a,b]` lies under exactly one of them,
no bucket outside lies under any -/
theorem place_tiles : ∀ a < 32, ∀ b < 32, a ≤ b → ∀ x < 32,
    coverCount (placeMask a b) x = if a ≤ x ∧ x ≤ b then 1 else 0 := by decide +kernel


end ITree
