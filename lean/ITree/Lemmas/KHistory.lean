import ITree.Props.KCommon
/-!
# Refinement of expiring-tree histories to the reference semantics
-/
namespace ITree
variable {V : Type}

theorem live_live {t t' : Int} (h : t ≤ t') (l : List (Ent V)) : live t' (live t l) = live t' l := by
  simp only [live, List.filter_filter]
  apply List.filter_congr
  intro x _
  by_cases h1 : t' < x.exp
  · have : t < x.exp := by omega
    simp [h1, this]
  · simp [h1]

theorem live_idem (t : Int) (l : List (Ent V)) : live t (live t l) = live t l := live_live (Int.le_refl t) l

/-- the relation between a reachable state and its reference content -/
def KRel (st : St V) (S : List (Ent V)) : Option Int → Prop
  | none => st.tree.ents = [] ∧ S = []
  | some T => live T st.tree.ents = S

theorem KRel.at_time {st : St V} {S : List (Ent V)} {last : Option Int} (h : KRel st S last)
    {t : Int} (ht : ∀ l, last = some l → l ≤ t) : live t st.tree.ents = live t S := by
  cases last with
  | none => obtain ⟨h1, h2⟩ := h; rw [h1, h2]
  | some T =>
    simp only [KRel] at h
    rw [← h, live_live (ht T rfl)]

/-- one in-contract step: no fault, well-formedness kept, outputs and content as in the reference -/
theorem St.kstep_refines (st : St V) (S : List (Ent V)) (last : Option Int) (op : KOp V)
    (hw : WF st) (hr : KRel st S last) (hc : KContract S last op) :
    ∃ st' r vals tr, st.kstep op = some (st', r, vals, tr) ∧ WF st' ∧
      KRel st' (kspecStep S op).1 (op.nextLast last) ∧
      r = (kspecStep S op).2.1 ∧ vals = (kspecStep S op).2.2 := by
  cases op with
  | insert e t =>
    obtain ⟨hl, hexp, hfresh⟩ := hc
    have hlive := hr.at_time hl
    obtain ⟨st', tr, h1, h2, A, B, h3, h4, h5, h6⟩ := St.kInsert_spec st e t hw (hlive ▸ hfresh)
    refine ⟨st', none, [], tr, by simp [St.kstep, h1], h2, ?_, rfl, rfl⟩
    simp only [KOp.nextLast, KOp.time, KRel, kspecStep]
    rw [h4, ← hlive, h3]
    have hA : ∀ x ∈ A, t < x.exp := by
      intro x hx
      have : x ∈ live t st.tree.ents := by rw [h3]; exact List.mem_append_left _ hx
      simpa using (List.mem_filter.mp this).2
    have hB : ∀ x ∈ B, t < x.exp := by
      intro x hx
      have : x ∈ live t st.tree.ents := by rw [h3]; exact List.mem_append_right _ hx
      simpa using (List.mem_filter.mp this).2
    have hs := filter_split_lt (A := A) (B := B) (k := e.key) h5 h6
    simp only [Spec.insert, hs.1, hs.2]
    rw [show A ++ e :: B = A ++ [e] ++ B by simp, live_append, live_append, live_eq_self hA, live_eq_self hB]
  | query mode t f =>
    obtain ⟨hl, hm⟩ := hc
    have hlive := hr.at_time hl
    obtain ⟨st', r, tr, h1, h2, h3, h4⟩ := St.kQuery_spec st mode t f hw (hlive ▸ hm)
    refine ⟨st', r, [], tr, by simp [St.kstep, h1], h2, ?_, by rw [h4, hlive]; rfl, rfl⟩
    simp only [KOp.nextLast, KOp.time, KRel, kspecStep]
    rw [h3, hlive]
  | exportAt t =>
    have hlive := hr.at_time hc
    obtain ⟨st', vals, cap, tr, h1, h2, h3, h4, _⟩ := St.kExport_spec st t hw
    refine ⟨st', none, vals, tr, by simp [St.kstep, h1], h2, ?_, rfl, by rw [h4, hlive]; rfl⟩
    simp only [KOp.nextLast, KOp.time, KRel, kspecStep]
    rw [h3, live_idem, hlive]
  | clear =>
    obtain ⟨st', h1, h2⟩ := St.step_wf st .clear hw trivial
    simp only [St.step, Option.some.injEq] at h1
    subst h1
    exact ⟨st.clear, none, [], [], rfl, h2, ⟨rfl, rfl⟩, rfl, rfl⟩

theorem KReach.inv {c : Nat} {st : St V} {S : List (Ent V)} {last : Option Int} (h : KReach c st S last) :
    WF st ∧ KRel st S last := by
  induction h with
  | new => exact ⟨WF.new c, rfl, rfl⟩
  | @step st st' S last op r vals tr _ hc hs ih =>
    obtain ⟨st2, r2, vals2, tr2, h1, h2, h3, _⟩ := St.kstep_refines st S last op ih.1 ih.2 hc
    rw [hs] at h1
    simp only [Option.some.injEq, Prod.mk.injEq] at h1
    obtain ⟨rfl, _⟩ := h1
    exact ⟨h2, h3⟩

end ITree
