import ITree.Lemmas.KExport
/-!
# Callback events of the expiring tree: what the caller's code sees, and in which state

Every event records the whole collection at the moment of the callback. `TraceOK time L tr`:
each of these states is well-formed with live content `L`, and every *comparison* is on a stored key
that is live.
-/
namespace ITree
variable {V : Type}

def EvOK (time : Int) (L : List (Ent V)) (ev : Ev V) : Prop :=
  WF (⟨plug ev.ctx ev.focus, ev.pool⟩ : St V) ∧ live time (plug ev.ctx ev.focus).ents = L ∧
    (ev.kind = .cmp → time < ev.ent.exp)

def TraceOK (time : Int) (L : List (Ent V)) (tr : List (Ev V)) : Prop := ∀ ev ∈ tr, EvOK time L ev

theorem TraceOK.cons {time : Int} {L : List (Ent V)} {tr : List (Ev V)} {ev : Ev V}
    (h : TraceOK time L tr) (he : EvOK time L ev) : TraceOK time L (ev :: tr) := by
  intro x hx
  rcases List.mem_cons.mp hx with rfl | hx
  · exact he
  · exact h x hx

theorem expireFocus_trace (time : Int) (L : List (Ent V)) (fuel : Nat) :
    ∀ (k : Ctx (Ent V)) (f : T (Ent V)) (p : Pool) (tr : List (Ev V)),
    WF (⟨plug k f, p⟩ : St V) → live time (plug k f).ents = L → TraceOK time L tr →
    ∀ k' f' p' tr', expireFocus time fuel k f p tr = some (k', f', p', tr') → TraceOK time L tr' := by
  induction fuel with
  | zero => intro k f p tr _ _ _ k' f' p' tr' h; simp [expireFocus] at h
  | succ fuel ih =>
    intro k f p tr hw hL htr k' f' p' tr' h
    cases f with
    | leaf => simp only [expireFocus, Option.some.injEq, Prod.mk.injEq] at h; rw [← h.2.2.2]; exact htr
    | node c l s e r =>
      simp only [expireFocus] at h
      have htr0 : TraceOK time L (⟨.exp, e, k, T.node c l s e r, p⟩ :: tr) :=
        htr.cons ⟨hw, hL, by simp⟩
      split at h
      · simp only [Option.some.injEq, Prod.mk.injEq] at h; rw [← h.2.2.2]; exact htr0
      · rename_i hl
        obtain ⟨k1, t1, fr, hd, hw1, l1, l2, hents, _, _⟩ := deleteFocus_full k hw
        simp only [hd] at h
        refine ih k1 t1 (p.free fr) _ hw1 ?_ htr0 k' f' p' tr' h
        rw [← hL, ents_plug, ents_plug]
        simp only [ctxLeftE, ctxRightE, l1, l2, hents, T.ents_node, live_append, live_cons, hl, if_false]

theorem search_trace (mode : Mode) (time : Int) (f : Int → Ordering) (L : List (Ent V)) (fuel : Nat) :
    ∀ (k : Ctx (Ent V)) (t : T (Ent V)) (p : Pool) (res : Option V) (tr : List (Ev V)),
    WF (⟨plug k t, p⟩ : St V) → (∀ c l s e r, t = .node c l s e r → time < e.exp) →
    live time (plug k t).ents = L → TraceOK time L tr → t.size < fuel →
    ∀ t' p' r tr', search mode time f fuel k t p res tr = some (t', p', r, tr') → TraceOK time L tr' := by
  induction fuel with
  | zero => intro k t p res tr _ _ _ _ h; omega
  | succ fuel ih =>
    intro k t p res tr hw hroot hL htr hfuel t' p' r' tr' h
    cases t with
    | leaf => simp only [search, Option.some.injEq, Prod.mk.injEq] at h; rw [← h.2.2.2]; exact htr
    | node c l s e r =>
      have helive := hroot c l s e r rfl
      have htr0 : TraceOK time L (⟨.cmp, e, k, T.node c l s e r, p⟩ :: tr) :=
        htr.cons ⟨hw, hL, fun _ => helive⟩
      have goL : ∀ res0, (match expireFocus time (l.size + 1) (⟨c, s, e, r, .L⟩ :: k) l p
            (⟨.cmp, e, k, T.node c l s e r, p⟩ :: tr) with
          | none => none
          | some (k', t', p', tr') => search mode time f fuel k' t' p' res0 tr') = some (t', p', r', tr') →
          TraceOK time L tr' := by
        intro res0 hh
        obtain ⟨k1, f1, p1, tr1, he, hx⟩ := expireFocus_spec time (l.size + 1) (⟨c, s, e, r, .L⟩ :: k) l p
          (⟨.cmp, e, k, T.node c l s e r, p⟩ :: tr) (by simpa [Frame.fill] using hw) (by omega)
        have ht1 := expireFocus_trace time L (l.size + 1) _ _ _ _ (by simpa [Frame.fill] using hw)
          (by simpa [Frame.fill] using hL) htr0 _ _ _ _ he
        rw [he] at hh
        refine ih k1 f1 p1 res0 tr1 hx.wf hx.root_live ?_ ht1
          (by have := hx.size_le; simp only [T.size_node] at hfuel; omega) _ _ _ _ hh
        rw [← hL, ents_plug, ents_plug]
        simp only [ctxLeftE, ctxRightE, hx.left, hx.right, live_append, hx.live_eq]
        simp [Frame.lefts, Frame.rights, live_append, live_cons, helive, T.ents, List.append_assoc]
      have goR : ∀ res0, (match expireFocus time (r.size + 1) (⟨c, s, e, l, .R⟩ :: k) r p
            (⟨.cmp, e, k, T.node c l s e r, p⟩ :: tr) with
          | none => none
          | some (k', t', p', tr') => search mode time f fuel k' t' p' res0 tr') = some (t', p', r', tr') →
          TraceOK time L tr' := by
        intro res0 hh
        obtain ⟨k1, f1, p1, tr1, he, hx⟩ := expireFocus_spec time (r.size + 1) (⟨c, s, e, l, .R⟩ :: k) r p
          (⟨.cmp, e, k, T.node c l s e r, p⟩ :: tr) (by simpa [Frame.fill] using hw) (by omega)
        have ht1 := expireFocus_trace time L (r.size + 1) _ _ _ _ (by simpa [Frame.fill] using hw)
          (by simpa [Frame.fill] using hL) htr0 _ _ _ _ he
        rw [he] at hh
        refine ih k1 f1 p1 res0 tr1 hx.wf hx.root_live ?_ ht1
          (by have := hx.size_le; simp only [T.size_node] at hfuel; omega) _ _ _ _ hh
        rw [← hL, ents_plug, ents_plug]
        simp only [ctxLeftE, ctxRightE, hx.left, hx.right, live_append, hx.live_eq]
        simp [Frame.lefts, Frame.rights, live_append, live_cons, helive, T.ents, List.append_assoc]
      simp only [search] at h
      cases hfe : f e.key with
      | lt => rw [hfe] at h; exact goR _ h
      | gt => rw [hfe] at h; exact goL _ h
      | eq =>
        rw [hfe] at h
        cases mode with
        | fl => exact goL _ h
        | fle => simp only [Option.some.injEq, Prod.mk.injEq] at h; rw [← h.2.2.2]; exact htr0
        | get => simp only [Option.some.injEq, Prod.mk.injEq] at h; rw [← h.2.2.2]; exact htr0

theorem insDescend_trace (time : Int) (e : Ent V) (L : List (Ent V)) (fuel : Nat) :
    ∀ (k : Ctx (Ent V)) (t : T (Ent V)) (p : Pool) (tr : List (Ev V)),
    WF (⟨plug k t, p⟩ : St V) → (∀ c l s x r, t = .node c l s x r → time < x.exp) →
    live time (plug k t).ents = L → TraceOK time L tr → t.size < fuel →
    ∀ t' p' tr', insDescend time e fuel k t p tr = some (t', p', tr') → TraceOK time L tr' := by
  induction fuel with
  | zero => intro k t p tr _ _ _ _ h; omega
  | succ fuel ih =>
    intro k t p tr hw hroot hL htr hfuel t' p' tr' h
    cases t with
    | leaf => simp only [insDescend, Option.some.injEq, Prod.mk.injEq] at h; rw [← h.2.2]; exact htr
    | node c l s x r =>
      have hxlive := hroot c l s x r rfl
      have htr0 : TraceOK time L (⟨.cmp, x, k, T.node c l s x r, p⟩ :: tr) :=
        htr.cons ⟨hw, hL, fun _ => hxlive⟩
      simp only [insDescend] at h
      split at h
      · obtain ⟨k1, f1, p1, tr1, he, hx⟩ := expireFocus_spec time (l.size + 1) (⟨c, s, x, r, .L⟩ :: k) l p
          (⟨.cmp, x, k, T.node c l s x r, p⟩ :: tr) (by simpa [Frame.fill] using hw) (by omega)
        have ht1 := expireFocus_trace time L (l.size + 1) _ _ _ _ (by simpa [Frame.fill] using hw)
          (by simpa [Frame.fill] using hL) htr0 _ _ _ _ he
        rw [he] at h
        refine ih k1 f1 p1 tr1 hx.wf hx.root_live ?_ ht1
          (by have := hx.size_le; simp only [T.size_node] at hfuel; omega) _ _ _ h
        rw [← hL, ents_plug, ents_plug]
        simp only [ctxLeftE, ctxRightE, hx.left, hx.right, live_append, hx.live_eq]
        simp [Frame.lefts, Frame.rights, live_append, live_cons, hxlive, T.ents, List.append_assoc]
      · obtain ⟨k1, f1, p1, tr1, he, hx⟩ := expireFocus_spec time (r.size + 1) (⟨c, s, x, l, .R⟩ :: k) r p
          (⟨.cmp, x, k, T.node c l s x r, p⟩ :: tr) (by simpa [Frame.fill] using hw) (by omega)
        have ht1 := expireFocus_trace time L (r.size + 1) _ _ _ _ (by simpa [Frame.fill] using hw)
          (by simpa [Frame.fill] using hL) htr0 _ _ _ _ he
        rw [he] at h
        refine ih k1 f1 p1 tr1 hx.wf hx.root_live ?_ ht1
          (by have := hx.size_le; simp only [T.size_node] at hfuel; omega) _ _ _ h
        rw [← hL, ents_plug, ents_plug]
        simp only [ctxLeftE, ctxRightE, hx.left, hx.right, live_append, hx.live_eq]
        simp [Frame.lefts, Frame.rights, live_append, live_cons, hxlive, T.ents, List.append_assoc]

/-- every callback of a query happens in a well-formed state with the live content of the pre-state,
and every comparison is on a live stored key -/
theorem St.kQuery_trace (st : St V) (mode : Mode) (time : Int) (f : Int → Ordering) (h : WF st)
    {st' : St V} {r : Option V} {tr : List (Ev V)} (hq : st.kQuery mode time f = some (st', r, tr)) :
    TraceOK time (live time st.tree.ents) tr := by
  obtain ⟨k, t, p, tr0, he, hx⟩ := expireFocus_spec time (st.tree.size + 1) [] st.tree st.pool []
    (by simpa using h) (by omega)
  have ht0 := expireFocus_trace time (live time st.tree.ents) (st.tree.size + 1) [] st.tree st.pool []
    (by simpa using h) (by simp) (by intro ev hev; simp at hev) _ _ _ _ he
  have hl : live time (plug k t).ents = live time st.tree.ents := by
    rw [ents_plug]; simp [ctxLeftE, ctxRightE, hx.left, hx.right, hx.live_eq]
  simp only [St.kQuery, he] at hq
  cases hs : search mode time f (t.size + 1) k t p none tr0 with
  | none => simp [hs] at hq
  | some q =>
    obtain ⟨t', p', r', tr'⟩ := q
    simp only [hs, Option.some.injEq, Prod.mk.injEq] at hq
    obtain ⟨_, _, rfl⟩ := hq
    exact search_trace mode time f _ (t.size + 1) k t p none tr0 hx.wf hx.root_live hl ht0 (by omega) _ _ _ _ hs

/-- every callback of an insert precedes the write: it sees the live content of the pre-state -/
theorem St.kInsert_trace (st : St V) (e : Ent V) (time : Int) (h : WF st)
    {st' : St V} {tr : List (Ev V)} (hq : st.kInsert e time = some (st', tr)) :
    TraceOK time (live time st.tree.ents) tr := by
  -- the first event is the probe's own `expiration()`: its recorded state is the pre-state
  have hprobe : EvOK time (live time st.tree.ents) (⟨.exp, e, [], st.tree, st.pool⟩ : Ev V) :=
    ⟨by simpa using h, by simp, by simp⟩
  obtain ⟨k, t, p, tr0, he, hx⟩ := expireFocus_spec time (st.tree.size + 1) [] st.tree st.pool
    [⟨.exp, e, [], st.tree, st.pool⟩] (by simpa using h) (by omega)
  have ht0 := expireFocus_trace time (live time st.tree.ents) (st.tree.size + 1) [] st.tree st.pool
    [⟨.exp, e, [], st.tree, st.pool⟩] (by simpa using h) (by simp)
    (by intro ev hev; simp only [List.mem_singleton] at hev; subst hev; exact hprobe) _ _ _ _ he
  have hl : live time (plug k t).ents = live time st.tree.ents := by
    rw [ents_plug]; simp [ctxLeftE, ctxRightE, hx.left, hx.right, hx.live_eq]
  simp only [St.kInsert, he] at hq
  cases hs : insDescend time e (t.size + 1) k t p tr0 with
  | none => simp [hs] at hq
  | some q =>
    obtain ⟨t', p', tr'⟩ := q
    simp only [hs, Option.some.injEq, Prod.mk.injEq] at hq
    obtain ⟨_, rfl⟩ := hq
    exact insDescend_trace time e _ (t.size + 1) k t p tr0 hx.wf hx.root_live hl ht0 (by omega) _ _ _ hs

theorem expireSlot_trace (time : Int) (slot : Nat) (L : List (Ent V)) (fuel : Nat) :
    ∀ (t : T (Ent V)) (p : Pool) (tr : List (Ev V)), WF (⟨t, p⟩ : St V) → live time t.ents = L →
    TraceOK time L tr → ∀ t' p' tr', expireSlot time slot fuel t p tr = some (t', p', tr') →
    TraceOK time L tr' := by
  induction fuel with
  | zero => intro t p tr _ _ _ t' p' tr' h; simp [expireSlot] at h
  | succ fuel ih =>
    intro t p tr hw hL htr t' p' tr' h
    simp only [expireSlot] at h
    cases hf : findSlot slot [] t with
    | none => simp only [hf, Option.some.injEq, Prod.mk.injEq] at h; rw [← h.2.2]; exact htr
    | some q =>
      obtain ⟨k, f⟩ := q
      obtain ⟨hp, c, l, e, r, rfl⟩ := findSlot_some slot [] t hf
      simp only [plug_nil] at hp
      simp only [hf] at h
      have htr0 : TraceOK time L (⟨.exp, e, k, T.node c l slot e r, p⟩ :: tr) :=
        htr.cons ⟨hp ▸ hw, by rw [hp]; exact hL, by simp⟩
      split at h
      · simp only [Option.some.injEq, Prod.mk.injEq] at h; rw [← h.2.2]; exact htr0
      · rename_i hl
        obtain ⟨k1, t1, fr, hd, hw1, l1, l2, hents, _, _⟩ := deleteFocus_full k (p := p) (hp ▸ hw)
        simp only [hd] at h
        refine ih (plug k1 t1) (p.free fr) _ hw1 ?_ htr0 _ _ _ h
        rw [← hL, ← hp, ents_plug, ents_plug]
        simp only [ctxLeftE, ctxRightE, l1, l2, hents, T.ents_node, live_append, live_cons, hl, if_false]

theorem expireAll_trace (time : Int) (L : List (Ent V)) (slots : List Nat) :
    ∀ (t : T (Ent V)) (p : Pool) (tr : List (Ev V)), WF (⟨t, p⟩ : St V) → live time t.ents = L →
    TraceOK time L tr → ∀ t' p' tr', expireAll time slots t p tr = some (t', p', tr') →
    TraceOK time L tr' := by
  induction slots with
  | nil => intro t p tr _ _ htr t' p' tr' h; simp only [expireAll, Option.some.injEq, Prod.mk.injEq] at h; rw [← h.2.2]; exact htr
  | cons i is ih =>
    intro t p tr hw hL htr t' p' tr' h
    obtain ⟨t1, p1, tr1, he, hres⟩ := expireSlot_spec time i (t.size + 1) t p tr hw (by omega)
    have ht1 := expireSlot_trace time i L (t.size + 1) t p tr hw hL htr _ _ _ he
    simp only [expireAll, he] at h
    exact ih t1 p1 tr1 hres.wf (hres.live_eq.trans hL) ht1 _ _ _ h

/-- every callback of the export purge happens in a well-formed state holding the live content -/
theorem St.kExport_trace (st : St V) (time : Int) (h : WF st)
    {st' : St V} {vals : List V} {cap : Nat} {tr : List (Ev V)}
    (hq : st.kExport time = some (st', vals, cap, tr)) : TraceOK time (live time st.tree.ents) tr := by
  simp only [St.kExport] at hq
  cases he : expireAll time ((List.range st.pool.bufLen).drop 1) st.tree st.pool [] with
  | none => rw [he] at hq; simp at hq
  | some q =>
    obtain ⟨t', p', tr'⟩ := q
    rw [he] at hq
    simp only [Option.some.injEq, Prod.mk.injEq] at hq
    obtain ⟨_, _, _, rfl⟩ := hq
    exact expireAll_trace time _ _ st.tree st.pool [] (by simpa using h) rfl (by intro ev hev; simp at hev) _ _ _ he

end ITree
