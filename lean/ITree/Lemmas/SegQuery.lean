import ITree.Lemmas.SegTake
import ITree.Lemmas.SegTables
/-!
# Queries of the segment tree against the logical list of inserted values
-/
namespace ITree
variable {V : Type}

/-! ### trailing zeros -/

theorem tzAux_spec (fuel : Nat) : ∀ (n i : Nat), n ≠ 0 → n < 2 ^ fuel →
    ∃ k, tzAux fuel n i = i + k ∧ n.testBit k = true ∧ k < fuel := by
  induction fuel with
  | zero => intro n i hn hlt; simp at hlt; omega
  | succ fuel ih =>
    intro n i hn hlt
    simp only [tzAux]
    by_cases hodd : n % 2 = 1
    · simp only [hodd, beq_self_eq_true, if_true]
      exact ⟨0, rfl, by simp [Nat.testBit_zero, hodd], by omega⟩
    · have hne : (n % 2 == 1) = false := by simpa using hodd
      simp only [hne, Bool.false_eq_true, if_false]
      have h2 : n / 2 ≠ 0 := by omega
      have h3 : n / 2 < 2 ^ fuel := by rw [Nat.pow_succ] at hlt; omega
      obtain ⟨k, h4, h5, h6⟩ := ih (n / 2) (i + 1) h2 h3
      exact ⟨k + 1, by rw [h4]; omega, by rw [Nat.testBit_succ]; exact h5, by omega⟩

theorem tz_spec (m : Nat) (hm : m ≠ 0) (hlt : m < 2 ^ 64) : m.testBit (tz m) = true ∧ tz m < 64 := by
  obtain ⟨k, h1, h2, h3⟩ := tzAux_spec 64 m 0 hm hlt
  have : (m == 0) = false := by simpa using hm
  simp only [tz, this]
  simp only [Nat.zero_add] at h1
  rw [h1]; exact ⟨h2, h3⟩

theorem tz_zero : tz 0 = 64 := rfl

/-! ### sums over a duplicate-free list -/

theorem sum_indicator {l : List Nat} (hnd : l.Nodup) (a c : Nat) :
    (l.map fun i => if i = a then c else 0).sum = if a ∈ l then c else 0 := by
  induction l with
  | nil => simp
  | cons x xs ih =>
    simp only [List.nodup_cons] at hnd
    simp only [List.map_cons, List.sum_cons, ih hnd.2, List.mem_cons]
    by_cases hxa : x = a
    · subst hxa; simp [hnd.1]
    · have : ¬ a = x := fun h => hxa h.symm
      simp [hxa, this]

theorem count_flatMap' {α β : Type} [DecidableEq β] (l : List α) (f : α → List β) (b : β) :
    (l.flatMap f).count b = (l.map fun a => (f a).count b).sum := by
  induction l with
  | nil => rfl
  | cons a as ih => simp [List.flatMap_cons, List.count_append, ih]

variable [DecidableEq V]

theorem count_filter' (l : List (SegEnt V)) (p : SegEnt V → Bool) (e : SegEnt V) :
    (l.filter p).count e = if p e then l.count e else 0 := by
  induction l with
  | nil => simp
  | cons x xs ih =>
    simp only [List.filter_cons]
    by_cases hp : p x = true
    · simp only [hp, if_true, List.count_cons, ih]
      by_cases hxe : x = e
      · subst hxe; simp [hp]
      · have : (x == e) = false := by simpa using hxe
        simp [this]
    · have hp' : p x = false := by simpa using hp
      simp only [hp', Bool.false_eq_true, if_false, ih, List.count_cons]
      by_cases hxe : x = e
      · subst hxe; simp [hp']
      · have : (x == e) = false := by simpa using hxe
        simp [this]

/-- relation between a segment tree and the logical list of inserted values; `T` is the last query
time (none before the first query / after clear): values not expired w.r.t. `T` have all their copies -/
structure SegRel (s : Seg V) (L : List (SegEnt V)) (T : Option Int) : Prop where
  cnt : ∀ i, i < s.chunks.length → ∀ e, (∀ t0, T = some t0 → t0 ≤ e.exp) →
    (chunkAt s i).count e = if e.mask.testBit i then L.count e else 0
  le : ∀ i e, (chunkAt s i).count e ≤ if e.mask.testBit i then L.count e else 0
  small : ∀ e ∈ L, e.mask < 2 ^ 63

theorem SegRel.mem {s : Seg V} {L : List (SegEnt V)} {T : Option Int} (h : SegRel s L T) {i : Nat} {e : SegEnt V}
    (he : e ∈ chunkAt s i) : e ∈ L ∧ e.mask.testBit i = true := by
  have h1 := h.le i e
  have hpos : 0 < (chunkAt s i).count e := List.count_pos_iff.mpr he
  by_cases hb : e.mask.testBit i = true
  · simp only [hb, if_true] at h1
    exact ⟨List.count_pos_iff.mp (by omega), hb⟩
  · simp only [hb] at h1; simp at h1; omega

/-- the places of a query mask, as the iterator enumerates them -/
def placesOf (q : Nat) : List Nat := (List.range 63).filter fun n => q.testBit n

theorem placesOf_nodup (q : Nat) : (placesOf q).Nodup :=
  List.Pairwise.sublist List.filter_sublist List.nodup_range

/-- **what a fully consumed query reports**, as a multiset: the logical entries that are not expired
and whose mask meets the query mask — each exactly as often as it was inserted -/
theorem expected_perm (s : Seg V) (L : List (SegEnt V)) (T : Option Int) (t : Int) (q : Nat)
    (h : SegRel s L T) (hT : ∀ t0, T = some t0 → t0 ≤ t) (hq : q < 2 ^ 63)
    (hlen : ∀ i ∈ placesOf q, i < s.chunks.length) :
    ((placesOf q).flatMap fun i => (chunkAt s i).filter (repAt t q i)).Perm
      (L.filter fun e => keepAt t e && decide (e.mask &&& q ≠ 0)) := by
  rw [List.perm_iff_count]
  intro e
  rw [count_flatMap', count_filter']
  have hterm : ∀ i ∈ placesOf q, ((chunkAt s i).filter (repAt t q i)).count e =
      if i = tz (e.mask &&& q) then (if keepAt t e then L.count e else 0) else 0 := by
    intro i hi
    rw [count_filter']
    by_cases hk : keepAt t e = true
    · have hexp : t ≤ e.exp := by simpa [keepAt] using hk
      have hc := h.cnt i (hlen i hi) e (fun t0 ht0 => by have := hT t0 ht0; omega)
      by_cases hf : tz (e.mask &&& q) = i
      · -- the lowest common place: the copy's mask has that bit
        have hne : e.mask &&& q ≠ 0 := by
          intro h0; rw [h0, tz_zero] at hf
          have : i < 63 := by simpa [placesOf] using (List.mem_filter.mp hi).1
          omega
        have hbit := (tz_spec _ hne (by
          have := @Nat.and_le_right e.mask q
          have : (2:Nat) ^ 63 < 2 ^ 64 := by decide
          omega)).1
        rw [hf, Nat.testBit_and, Bool.and_eq_true] at hbit
        simp [repAt, hk, firstAt, hf, hc, hbit.1]
      · have hf' : ¬ i = tz (e.mask &&& q) := fun h => hf h.symm
        simp [repAt, firstAt, hf, hf']
    · have hk' : keepAt t e = false := by simpa using hk
      simp [repAt, hk']
  rw [List.map_congr_left hterm, sum_indicator (placesOf_nodup q)]
  by_cases hk : keepAt t e = true
  · by_cases hne : e.mask &&& q = 0
    · have hnot : tz 0 ∉ placesOf q := by rw [tz_zero]; simp [placesOf]
      simp [hk, hne, hnot]
    · have hlt64 : e.mask &&& q < 2 ^ 64 := by
        have := @Nat.and_le_right e.mask q
        have : (2:Nat) ^ 63 < 2 ^ 64 := by decide
        omega
      obtain ⟨hbit, _⟩ := tz_spec _ hne hlt64
      have hin : tz (e.mask &&& q) ∈ placesOf q := by
        simp only [placesOf, List.mem_filter, List.mem_range]
        rw [Nat.testBit_and, Bool.and_eq_true] at hbit
        refine ⟨?_, hbit.2⟩
        rcases Nat.lt_or_ge (tz (e.mask &&& q)) 63 with h' | h'
        · exact h'
        · have := Nat.ge_two_pow_of_testBit hbit.2
          have : 2 ^ 63 ≤ 2 ^ tz (e.mask &&& q) := Nat.pow_le_pow_right (by omega) h'
          omega
      simp [hin, hk, hne]
  · have hk' : keepAt t e = false := by simpa using hk
    simp [hk']

end ITree

namespace ITree
variable {V : Type} [DecidableEq V]

/-! ### starting an iterator -/

theorem iter_spec (s : Seg V) (a b : Int) (t : Int)
    (hbits : bits (s.layout.queryMask a b) = placesOf (s.layout.queryMask a b))
    (hlen : ∀ i ∈ placesOf (s.layout.queryMask a b), i < s.chunks.length) :
    ∃ it, s.iter a b t = some it ∧ it.time = t ∧ it.mask = s.layout.queryMask a b ∧
      ItInv s it (placesOf (s.layout.queryMask a b)) ∧ it.measure < 64 ∧
      pending s it = (placesOf (s.layout.queryMask a b)).flatMap fun i => (chunkAt s i).filter (repAt t (s.layout.queryMask a b) i) := by
  obtain ⟨n, rest, hf, ⟨sk, hsk1, hsk2⟩, hfin⟩ := findNext_spec s.chunks (placesOf (s.layout.queryMask a b)) hlen
  have hnd := placesOf_nodup (s.layout.queryMask a b)
  rw [hsk1] at hnd
  refine ⟨⟨n, 0, rest, s.layout.queryMask a b, t⟩, by simp [Seg.iter, hbits, hf], rfl, rfl, ?_, ?_, ?_⟩
  · refine ⟨?_, ?_, ?_, ?_, ?_, ?_⟩
    · intro i hi; exact hlen i (by rw [hsk1]; simp [hi])
    · exact (List.nodup_append.mp (List.nodup_append.mp hnd).2.1).2.1
    · intro j hj
      simp only at hj; subst hj
      refine ⟨hlen j (by rw [hsk1]; simp), ?_, by simp, by simp⟩
      have := (List.nodup_append.mp hnd).2.1
      simp only [Option.toList_some, List.singleton_append, List.nodup_cons] at this
      exact this.1
    · exact hfin
    · intro i hi hne hnr
      simp only at hne hnr
      rw [hsk1] at hi
      simp only [List.mem_append] at hi
      rcases hi with hi | hi | hi
      · have := hsk2 i hi
        have hci : chunkAt s i = [] := by simpa [chunkAt] using this
        simp [hci]
      · cases n with
        | none => simp at hi
        | some m => simp only [Option.toList_some, List.mem_singleton] at hi; exact absurd (by rw [hi]) hne
      · exact absurd hi hnr
    · constructor
      · intro j hj; simp only at hj; subst hj; rw [hsk1]; simp
      · intro i hi; rw [hsk1]; simp [hi]
  · have h1 : (placesOf (s.layout.queryMask a b)).length ≤ 63 := by
      have := List.length_filter_le (fun n => (s.layout.queryMask a b).testBit n) (List.range 63)
      simpa [placesOf] using this
    have h2 : (placesOf (s.layout.queryMask a b)).length = sk.length + (n.toList.length + rest.length) := by
      rw [hsk1]; simp
    simp only [SegIt.measure]
    cases n with
    | none => simp; simp at h2; omega
    | some m => simp; simp at h2; omega
  · simp only [pending]
    rw [hsk1, List.flatMap_append, List.flatMap_append]
    have hskip : sk.flatMap (fun i => (chunkAt s i).filter (repAt t (s.layout.queryMask a b) i)) = [] := by
      rw [List.flatMap_eq_nil_iff]
      intro j hj
      have := hsk2 j hj
      simp only [chunkAt, this, List.filter_nil]
    rw [hskip, List.nil_append]
    cases n with
    | none => simp only [Option.toList_none, List.nil_append, List.flatMap_nil]; rfl
    | some m => simp only [Option.toList_some, List.flatMap_cons, List.flatMap_nil, List.append_nil, List.drop_zero]; rfl

/-! ### the logical relation is kept by queries, inserts and clear -/

theorem SegRel.after_query {s s' : Seg V} {L : List (SegEnt V)} {T : Option Int} {t : Int}
    (h : SegRel s L T) (hT : ∀ t0, T = some t0 → t0 ≤ t) (hlen : s'.chunks.length = s.chunks.length)
    (hpurge : ∀ i, ∃ rm, (chunkAt s i).Perm (chunkAt s' i ++ rm) ∧ ∀ e ∈ rm, keepAt t e = false) :
    SegRel s' L (some t) := by
  refine ⟨?_, ?_, h.small⟩
  · intro i hi e he
    have hexp : t ≤ e.exp := he t rfl
    obtain ⟨rm, p1, p2⟩ := hpurge i
    have hc := p1.count_eq e
    rw [List.count_append] at hc
    have hrm : rm.count e = 0 := by
      rw [List.count_eq_zero]
      intro hmem
      have := p2 e hmem
      simp [keepAt] at this; omega
    rw [← h.cnt i (hlen ▸ hi) e (fun t0 ht0 => by have := hT t0 ht0; omega)]
    omega
  · intro i e
    obtain ⟨rm, p1, _⟩ := hpurge i
    have hc := p1.count_eq e
    rw [List.count_append] at hc
    have := h.le i e
    omega

theorem pushAll_spec (e : SegEnt V) : ∀ (is : List Nat) (chunks : List (List (SegEnt V))),
    (∀ i ∈ is, i < chunks.length) →
    ∃ cs, is.foldlM (fun cs i => pushAt cs i e) chunks = some cs ∧ cs.length = chunks.length ∧
      ∀ j, (cs[j]?).getD [] = (chunks[j]?).getD [] ++ List.replicate (is.count j) e := by
  intro is
  induction is with
  | nil => intro chunks _; exact ⟨chunks, rfl, rfl, by simp⟩
  | cons i is ih =>
    intro chunks h
    have hi : i < chunks.length := h i (List.mem_cons_self ..)
    have hpush : pushAt chunks i e = some (chunks.set i (chunks[i] ++ [e])) := by
      simp [pushAt, List.getElem?_eq_getElem hi]
    obtain ⟨cs, h1, h2, h3⟩ := ih (chunks.set i (chunks[i] ++ [e])) (by
      intro j hj; simpa using h j (List.mem_cons_of_mem _ hj))
    refine ⟨cs, by simp [List.foldlM_cons, hpush, h1], by simpa using h2, ?_⟩
    intro j
    rw [h3 j]
    by_cases hji : j = i
    · subst hji
      simp [List.getElem?_eq_getElem hi, List.getElem?_set_self hi, List.replicate_succ]
    · have hij : ¬ i = j := fun h => hji h.symm
      simp [List.getElem?_set_ne hij, List.count_cons, hij]

theorem SegRel.after_insert {s : Seg V} {L : List (SegEnt V)} {T : Option Int} (h : SegRel s L T)
    (a b : Int) (val : V) (exp : Int)
    (hbits : bits (s.layout.insertMask a b) = placesOf (s.layout.insertMask a b))
    (hlen : ∀ i ∈ placesOf (s.layout.insertMask a b), i < s.chunks.length)
    (hsmall : s.layout.insertMask a b < 2 ^ 63) :
    ∃ s', s.insert a b val exp = some s' ∧ s'.layout = s.layout ∧ s'.chunks.length = s.chunks.length ∧
      SegRel s' (⟨val, exp, s.layout.insertMask a b⟩ :: L) T := by
  obtain ⟨cs, h1, h2, h3⟩ := pushAll_spec ⟨val, exp, s.layout.insertMask a b⟩ (placesOf (s.layout.insertMask a b)) s.chunks hlen
  refine ⟨{ s with chunks := cs }, by simp [Seg.insert, hbits, h1], rfl, h2, ?_⟩
  have hcount : ∀ j, (placesOf (s.layout.insertMask a b)).count j =
      if (s.layout.insertMask a b).testBit j ∧ j < 63 then 1 else 0 := by
    intro j
    by_cases hj : j ∈ placesOf (s.layout.insertMask a b)
    · rw [(placesOf_nodup _).count, if_pos hj]
      simp only [placesOf, List.mem_filter, List.mem_range] at hj
      simp [hj.1, hj.2]
    · rw [(placesOf_nodup _).count, if_neg hj]
      simp only [placesOf, List.mem_filter, List.mem_range, not_and] at hj
      by_cases hj63 : j < 63
      · simp [hj hj63]
      · simp [hj63]
  have hbit63 : ∀ j, (s.layout.insertMask a b).testBit j = true → j < 63 := by
    intro j hj
    rcases Nat.lt_or_ge j 63 with h' | h'
    · exact h'
    · have := Nat.ge_two_pow_of_testBit hj
      have : 2 ^ 63 ≤ 2 ^ j := Nat.pow_le_pow_right (by omega) h'
      omega
  have hchunk : ∀ j, chunkAt { s with chunks := cs } j =
      chunkAt s j ++ (if (s.layout.insertMask a b).testBit j then [⟨val, exp, s.layout.insertMask a b⟩] else []) := by
    intro j
    simp only [chunkAt, h3 j, hcount j]
    by_cases hj : (s.layout.insertMask a b).testBit j = true
    · simp [hj, hbit63 j hj]
    · simp [hj]
  refine ⟨?_, ?_, ?_⟩
  · intro i hi e he
    rw [hchunk i, List.count_append, h.cnt i (by simpa [h2] using hi) e he, List.count_cons]
    by_cases hee : (⟨val, exp, s.layout.insertMask a b⟩ : SegEnt V) = e
    · subst hee
      by_cases hb : (s.layout.insertMask a b).testBit i = true <;> simp [hb]
    · have hne : ((⟨val, exp, s.layout.insertMask a b⟩ : SegEnt V) == e) = false := by simpa using hee
      by_cases hb : (s.layout.insertMask a b).testBit i = true
      · simp [hb, hne, List.count_cons, hee]
      · simp [hb, hne]
  · intro i e
    rw [hchunk i, List.count_append, List.count_cons]
    have := h.le i e
    by_cases hee : (⟨val, exp, s.layout.insertMask a b⟩ : SegEnt V) = e
    · subst hee
      by_cases hb : (s.layout.insertMask a b).testBit i = true
      · simp only [hb, if_true] at this ⊢; simp; omega
      · simp only [hb] at this ⊢; simpa using this
    · have hne : ((⟨val, exp, s.layout.insertMask a b⟩ : SegEnt V) == e) = false := by simpa using hee
      by_cases hb : (s.layout.insertMask a b).testBit i = true
      · simp only [hb, if_true, hne, List.count_cons, List.count_nil] at this ⊢
        split <;> simp_all <;> omega
      · simp only [hb, hne] at this ⊢; simp; split <;> simp_all
  · intro e he
    rcases List.mem_cons.mp he with rfl | he
    · exact hsmall
    · exact h.small e he

theorem SegRel.clear (s : Seg V) : SegRel s.clear ([] : List (SegEnt V)) none := by
  have hc : ∀ i, chunkAt s.clear i = [] := by
    intro i
    simp only [chunkAt, Seg.clear]
    cases h : (s.chunks.map fun _ => ([] : List (SegEnt V)))[i]? with
    | none => rfl
    | some c =>
      have := List.mem_of_getElem? h
      simp only [List.mem_map] at this
      obtain ⟨_, _, rfl⟩ := this
      rfl
  exact ⟨by intro i _ e _; simp [hc], by intro i e; simp [hc], by simp⟩

end ITree
