import ITree.Lemmas.Refine
import ITree.Model.KeyExp
/-!
# Lazy expiry: `expireFocus` removes exactly the expired roots of the focus and nothing else
-/
namespace ITree
variable {V : Type}

/-- entities (without slots) left / right of a context's hole -/
def ctxLeftE (k : Ctx (Ent V)) : List (Ent V) := (ctxLeft k).map (·.2)
def ctxRightE (k : Ctx (Ent V)) : List (Ent V) := (ctxRight k).map (·.2)

theorem ents_plug (k : Ctx (Ent V)) (t : T (Ent V)) : (plug k t).ents = ctxLeftE k ++ t.ents ++ ctxRightE k := by
  simp [T.ents, toList_plug, ctxLeftE, ctxRightE]

/-- entries still visible at time `t` -/
def live (t : Int) (l : List (Ent V)) : List (Ent V) := l.filter fun e => t < e.exp

@[simp] theorem live_nil (t : Int) : live t ([] : List (Ent V)) = [] := rfl
theorem live_append (t : Int) (a b : List (Ent V)) : live t (a ++ b) = live t a ++ live t b := by
  simp [live]
theorem live_cons (t : Int) (e : Ent V) (l : List (Ent V)) :
    live t (e :: l) = if t < e.exp then e :: live t l else live t l := by
  simp only [live, List.filter_cons]; split <;> simp_all

/-- zipper-level form of `delete_index`: well-formedness, locality and content -/
theorem deleteFocus_full (k : Ctx (Ent V)) {c} {l r : T (Ent V)} {s} {e : Ent V} {p : Pool}
    (h : WF (⟨plug k (.node c l s e r), p⟩ : St V)) :
    ∃ k' t' f, deleteFocus k (.node c l s e r) = some (k', t', f) ∧
      WF (⟨plug k' t', p.free f⟩ : St V) ∧ ctxLeft k' = ctxLeft k ∧ ctxRight k' = ctxRight k ∧
      t'.ents = l.ents ++ r.ents ∧ t'.size + 1 = (T.node c l s e r).size ∧
      (∀ x ∈ t'.toList, x ∈ l.toList ∨ x ∈ r.toList ∨ (x.1 = s ∧ x.2 ∈ r.ents)) := by
  obtain ⟨st', h1, h2, _⟩ := St.deleteAt_spec (⟨plug k (.node c l s e r), p⟩ : St V) k h rfl
  simp only [St.deleteAt, Option.map_eq_some_iff] at h1
  obtain ⟨⟨k', t', f⟩, hd, rfl⟩ := h1
  obtain ⟨l1, l2, l3, l4⟩ := deleteFocus_spec k _ hd
  have hents : t'.ents = l.ents ++ r.ents := by
    simp only [T.ents, l3, T.rootErased_ents]
  refine ⟨k', t', f, hd, h2, l1, l2, hents, ?_, ?_⟩
  · have := congrArg List.length hents
    simp only [T.ents, List.length_map, T.length_toList, List.length_append] at this
    simp only [T.size_node]; omega
  · intro x hx
    rw [l3] at hx
    cases l with
    | leaf =>
      cases r <;> simp only [T.rootErased, T.toList_leaf, List.nil_append, List.append_nil] at hx
      · simp at hx
      · exact Or.inr (Or.inl hx)
    | node cl ll sl el rl =>
      cases r with
      | leaf =>
        simp only [T.rootErased, T.toList_leaf, List.append_nil] at hx
        exact Or.inl hx
      | node cr lr sr er rr =>
        simp only [T.rootErased] at hx
        split at hx
        · rename_i ss es rest heq
          simp only [List.mem_append, List.mem_cons] at hx
          rcases hx with hx | rfl | hx
          · exact Or.inl hx
          · refine Or.inr (Or.inr ⟨rfl, ?_⟩)
            simp only [T.ents, heq, List.map_cons, List.mem_cons, true_or]
          · exact Or.inr (Or.inl (by rw [heq]; exact List.mem_cons_of_mem _ hx))
        · exact Or.inl hx

/-- what one run of `expire_root/left/right` guarantees -/
structure ExpireRes (time : Int) (k : Ctx (Ent V)) (f : T (Ent V))
    (k' : Ctx (Ent V)) (f' : T (Ent V)) (p' : Pool) : Prop where
  wf : WF (⟨plug k' f', p'⟩ : St V)
  left : ctxLeft k' = ctxLeft k
  right : ctxRight k' = ctxRight k
  live_eq : live time f'.ents = live time f.ents
  sub : f'.ents.Sublist f.ents
  size_le : f'.size ≤ f.size
  root_live : ∀ c l s e r, f' = .node c l s e r → time < e.exp

theorem expireFocus_spec (time : Int) (fuel : Nat) (k : Ctx (Ent V)) (f : T (Ent V)) (p : Pool)
    (tr : List (Ev V)) (h : WF (⟨plug k f, p⟩ : St V)) (hfuel : f.size < fuel) :
    ∃ k' f' p' tr', expireFocus time fuel k f p tr = some (k', f', p', tr') ∧
      ExpireRes time k f k' f' p' := by
  induction fuel generalizing k f p tr with
  | zero => omega
  | succ fuel ih =>
    cases f with
    | leaf =>
      exact ⟨k, .leaf, p, tr, rfl, ⟨h, rfl, rfl, rfl, List.Sublist.refl _, Nat.le_refl _, by intro c l s e r hh; cases hh⟩⟩
    | node c l s e r =>
      simp only [expireFocus]
      by_cases hl : time < e.exp
      · simp only [hl, if_true]
        refine ⟨_, _, _, _, rfl, ⟨h, rfl, rfl, rfl, List.Sublist.refl _, Nat.le_refl _, ?_⟩⟩
        intro c' l' s' e' r' hh; cases hh; exact hl
      · simp only [hl, if_false]
        obtain ⟨k1, t1, fr, hd, hw, l1, l2, hents, hsz, _⟩ := deleteFocus_full k h
        simp only [hd]
        obtain ⟨k', f', p', tr', he, hres⟩ := ih k1 t1 (p.free fr) _ hw (by simp only [T.size_node] at hsz hfuel; omega)
        refine ⟨k', f', p', tr', he, ⟨hres.wf, hres.left.trans l1, hres.right.trans l2, ?_, ?_, ?_, hres.root_live⟩⟩
        · rw [hres.live_eq, hents]
          simp only [T.ents_node, live_append, live_cons, hl, if_false]
        · refine hres.sub.trans ?_
          rw [hents]
          simp only [T.ents_node]
          exact List.Sublist.append (List.Sublist.refl _) (List.Sublist.cons _ (List.Sublist.refl _))
        · have := hres.size_le
          simp only [T.size_node] at hsz ⊢; omega

end ITree
