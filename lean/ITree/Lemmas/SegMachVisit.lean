import ITree.Model.SegMach
/-! Complete table (all 528 bucket ranges, `decide +kernel`): the machine-integer transcription of
`range_to_intersect_mask` never trips an overflow / shift / `debug_assert!` check and computes the value of
the `Nat` model. -/
namespace ITree.Mach

set_option maxRecDepth 100000 in
theorem visitMask_table : ∀ a < 32, ∀ b < 32, a ≤ b → visitMask a b = some (ITree.visitMask a b) := by
  decide +kernel

end ITree.Mach
