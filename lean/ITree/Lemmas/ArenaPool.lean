import ITree.Lemmas.ArenaInsert
/-!
# The pool part of the arena (`get_free_index`, `put_back`) against `Pool`
-/
namespace ITree
variable {V : Type}

/-- the pool the arena denotes -/
def poolOf (a : Arena V) : Pool :=
  { bufLen := a.nodes.size, unused := a.unused.toList.reverse, cap := a.cap }

theorem nodup_lt_length : ∀ (n : Nat) (l : List Nat), l.Nodup → (∀ x ∈ l, x < n) → l.length ≤ n
  | 0, l, _, h => by
    cases l with
    | nil => simp
    | cons x xs => exact absurd (h x (List.mem_cons_self ..)) (by omega)
  | n+1, l, hnd, h => by
    have ih := nodup_lt_length n (l.erase n) (hnd.erase n) (fun x hx => by
      have hx' := (List.Nodup.mem_erase_iff hnd).mp hx
      have := h x hx'.2
      omega)
    have := List.length_erase (a := n) (l := l)
    split at this <;> omega

theorem arr_back_pop (u : Array Nat) (h : 0 < u.size) :
    u.back? = some u[u.size - 1] ∧ u.toList.reverse = u[u.size - 1] :: u.pop.toList.reverse := by
  obtain ⟨l⟩ := u
  rcases List.eq_nil_or_concat l with rfl | ⟨l', x, rfl⟩
  · simp at h
  · simp [Array.back?]

theorem arr_grow (n c : Nat) :
    (((List.range (c+1)).reverse.map (· + n)).toArray).back? = some n ∧
    ((((List.range (c+1)).reverse.map (· + n)).toArray).pop).toList.reverse = ((List.range (c+1)).drop 1).map (· + n) := by
  constructor
  · simp [List.range_succ_eq_map, List.map_reverse]
  · simp [List.range_succ_eq_map, List.map_reverse]

/-- `get_free_index` is `Pool.alloc`; old slots keep their content, the returned slot is inside the arena -/
theorem getFree_spec (a : Arena V) (hcap : 0 < a.cap) (hfree : ∀ x ∈ a.unused.toList, x < a.nodes.size) :
    ∃ i a1, a.getFree = some (i, a1) ∧ (poolOf a).alloc = (i, poolOf a1) ∧
      (∀ j, j < a.nodes.size → a1.node j = a.node j) ∧ a1.root = a.root ∧ a1.dflt = a.dflt ∧
      i < a1.nodes.size ∧ a.nodes.size ≤ a1.nodes.size ∧ a1.nodes.size ≤ a.nodes.size + a.cap ∧
      (∀ j, a.nodes.size ≤ j → j < a1.nodes.size → ∃ n, a1.node j = some n ∧ n.parent = 0) := by
  by_cases hemp : a.unused.isEmpty = true
  · -- grow by `cap` slots
    have hu : a.unused = #[] := by simpa using hemp
    have hlist : a.unused.toList = [] := by simp [hu]
    obtain ⟨c, hc⟩ : ∃ c, a.cap = c + 1 := ⟨a.cap - 1, by omega⟩
    have hres : (a.reserve a.cap).unused = ((List.range (c+1)).reverse.map (· + a.nodes.size)).toArray := by
      simp [Arena.reserve, hu, hc]
    obtain ⟨hb, hp⟩ := arr_grow a.nodes.size c
    refine ⟨a.nodes.size, { (a.reserve a.cap) with unused := (a.reserve a.cap).unused.pop }, ?_, ?_, ?_, rfl, rfl, ?_, ?_, ?_, ?_⟩
    · simp only [Arena.getFree, hemp, if_true, hres, hb]
    · have h1 : (poolOf a).alloc = (a.nodes.size,
          Pool.mk (a.nodes.size + a.cap) (((List.range a.cap).drop 1).map (· + a.nodes.size)) a.cap) := by
        simp [poolOf, Pool.alloc, hlist]
      rw [h1]
      simp only [poolOf, Prod.mk.injEq, true_and, Pool.mk.injEq]
      refine ⟨by simp [Arena.reserve], ?_, by simp [Arena.reserve]⟩
      show _ = ((a.reserve a.cap).unused.pop).toList.reverse
      rw [hres, hp, hc]
    · intro j hj
      simp [Arena.node, Arena.reserve, Array.getElem?_append_left hj]
    · simp [Arena.reserve]; omega
    · simp [Arena.reserve]
    · simp [Arena.reserve]
    · intro j hj1 hj2
      have hj2' : j < a.nodes.size + a.cap := by simpa [Arena.reserve] using hj2
      refine ⟨⟨0, 0, 0, true, a.dflt⟩, ?_, rfl⟩
      simp only [Arena.node, Arena.reserve]
      rw [Array.getElem?_append_right hj1]
      have : j - a.nodes.size < a.cap := by omega
      simp [this]
  · have hne : a.unused.isEmpty = false := by simpa using hemp
    have hsz : 0 < a.unused.size := by
      rcases Nat.eq_zero_or_pos a.unused.size with h | h
      · exact absurd (by simpa using h) hemp
      · exact h
    obtain ⟨hb, hp⟩ := arr_back_pop a.unused hsz
    refine ⟨a.unused[a.unused.size - 1], { a with unused := a.unused.pop }, ?_, ?_, fun _ _ => rfl, rfl, rfl, ?_, Nat.le_refl _, by simp,
      fun j h1 h2 => absurd h2 (by simp; omega)⟩
    · simp only [Arena.getFree, hne, Bool.false_eq_true, if_false, hb]
    · simp only [poolOf, Pool.alloc, hp]
    · exact hfree _ (by simp)

end ITree

namespace ITree
variable {V : Type}

theorem ctxSlots_length (k : Ctx (Ent V)) : k.length ≤ (ctxSlots k).length := by
  induction k with
  | nil => simp [ctxSlots]
  | cons f k ih => simp [ctxSlots]; omega

/-- the tail of `insert_as_*_child`: repair if the parent is red -/
theorem linkNew_rep {a3 : Arena V} {f : Frame (Ent V)} {k : Ctx (Ent V)} {i : Nat} {e : Ent V} {nf : ANode V}
    (hsize3 : a3.nodes.size ≤ EMPTY) (hctx3 : RepCtx a3 (f :: k) i f.s)
    (hn3 : Rep a3 i f.s (.node .red .leaf i e .leaf)) (hnd3 : (i :: ctxSlots (f :: k)).Nodup)
    (hnf : a3.node f.s = some nf) :
    ∃ a', (if nf.red then Arena.fixInsert (a3.nodes.size + 1) a3 i f.s else some a3) = some a' ∧
      Rep a' a'.root EMPTY (linkNew (f :: k) i e) ∧ poolOf a' = poolOf a3 ∧
      a'.nodes.size = a3.nodes.size ∧ a'.dflt = a3.dflt ∧
      (∀ j, j ∉ i :: ctxSlots (f :: k) → a'.node j = a3.node j) := by
  have hctx0 := hctx3
  obtain ⟨_, nf', hnf', hfr, _⟩ := hctx0
  rw [hnf] at hnf'
  cases hnf'
  by_cases hred : f.c = .red
  · have hr : nf.red = true := by rw [hfr, hred]; rfl
    simp only [hr, if_true]
    have hlen : (ctxSlots (f :: k)).length ≤ a3.nodes.size :=
      nodup_lt_length _ _ (List.nodup_cons.mp hnd3).2 hctx3.slots_lt
    have hk := ctxSlots_length (f :: k)
    simp only [List.length_cons] at hk
    obtain ⟨a', h1, h2, hfr3, h4, h5, h6, h7⟩ := fixInsert_rep (a3.nodes.size + 1) a3 k f _ i hsize3 (by omega)
      hctx3 hn3 (by simp) hred (by simpa [T.slots_node] using hnd3)
    refine ⟨a', h1, ?_, by simp [poolOf, h4, h5, h7], h7, h6, fun j hj => hfr3 j (by simpa [T.slots_node] using hj)⟩
    simp only [linkNew, hred, beq_self_eq_true, if_true]
    exact h2
  · have hr : nf.red = false := by
      rw [hfr]; cases hc : f.c
      · exact absurd hc hred
      · rfl
    have hb : (f.c == Color.red) = false := by cases hc : f.c <;> simp_all
    simp only [hr, Bool.false_eq_true, if_false]
    refine ⟨a3, rfl, ?_, rfl, rfl, rfl, fun _ _ => rfl⟩
    simp only [linkNew, hb, Bool.false_eq_true, if_false]
    exact Rep.plug hctx3 hn3

/-- `insert_as_left/right_child` + repair: the new red node is linked into the (leaf) hole of `f :: k` -/
theorem insertAs_rep {a : Arena V} {f : Frame (Ent V)} {k : Ctx (Ent V)} (e : Ent V)
    (hsize : a.nodes.size + a.cap ≤ EMPTY) (hcap : 0 < a.cap)
    (hfree : ∀ x ∈ a.unused.toList, x < a.nodes.size)
    (hctx : RepCtx a (f :: k) EMPTY f.s) (hnd : (ctxSlots (f :: k)).Nodup)
    (hfresh : (poolOf a).alloc.1 ∉ ctxSlots (f :: k)) :
    ∃ a', a.insertAs e f.s (f.side == Side.L) = some a' ∧
      Rep a' a'.root EMPTY (linkNew (f :: k) (poolOf a).alloc.1 e) ∧
      poolOf a' = (poolOf a).alloc.2 ∧ a'.nodes.size ≤ EMPTY ∧ a'.dflt = a.dflt ∧
      (∀ j, j ∉ (poolOf a).alloc.1 :: ctxSlots (f :: k) → (j < a.nodes.size → a'.node j = a.node j) ∧
        (a.nodes.size ≤ j → j < a'.nodes.size → ∃ n, a'.node j = some n ∧ n.parent = 0)) := by
  obtain ⟨i, a1, hgf, halloc, hold, hroot1, hd1, hi1, hsz1, hsz1', hnew1⟩ := getFree_spec a hcap hfree
  rw [halloc] at hfresh ⊢
  simp only at hfresh ⊢
  have hlt : ∀ s ∈ ctxSlots (f :: k), s < a.nodes.size := hctx.slots_lt
  -- a1: after get_free_index
  have hctx1 : RepCtx a1 (f :: k) EMPTY f.s :=
    RepCtx.congr (a := a) (fun s hs => hold s (hlt s hs)) hroot1 hctx
  -- a2: the new node is written
  let a2 := a1.upd i fun _ => (⟨f.s, EMPTY, EMPTY, true, e⟩ : ANode V)
  have hctx2 : RepCtx a2 (f :: k) EMPTY f.s := hctx1.upd_other _ hfresh
  obtain ⟨ni, hni⟩ : ∃ ni, a1.node i = some ni := by
    simp only [Arena.node]
    exact ⟨a1.nodes[i], by simp [hi1]⟩
  have h2i : a2.node i = some ⟨f.s, EMPTY, EMPTY, true, e⟩ := by simp [a2, hni]
  -- a3: the parent's child link
  have hfi : f.s ≠ i := by
    intro h; apply hfresh; simp [ctxSlots, ← h]
  obtain ⟨_, nf, hnf, hfr, hfe, hfside, hrest⟩ := hctx2
  have hflt := node_lt hnf
  have hfsk : f.s ∉ f.sib.slots ∧ f.s ∉ ctxSlots k := by
    simp only [ctxSlots, List.nodup_cons, List.mem_append, not_or] at hnd
    exact hnd.1
  have hisk : i ∉ f.sib.slots ∧ i ∉ ctxSlots k := by
    simp only [ctxSlots, List.mem_cons, List.mem_append, not_or] at hfresh
    exact hfresh.2
  cases hside : f.side with
  | L =>
    simp only [hside] at hfside
    let a3 := a2.upd f.s fun n => { n with left := i }
    have h3f : a3.node f.s = some { nf with left := i } := by simp [a3, hnf]
    have h3i : a3.node i = some ⟨f.s, EMPTY, EMPTY, true, e⟩ := by simp [a3, hfi, h2i]
    have hctx3 : RepCtx a3 (f :: k) i f.s := by
      refine ⟨rfl, _, h3f, hfr, hfe, ?_, (hrest.upd_other _ hfsk.2)⟩
      simp only [hside]
      exact ⟨trivial, hfside.2.upd_other _ hfsk.1⟩
    have hn3 : Rep a3 i f.s (.node .red .leaf i e .leaf) := ⟨rfl, _, h3i, rfl, rfl, rfl, rfl, rfl⟩
    have hcode : a.insertAs e f.s (Side.L == Side.L) =
        (if nf.red then Arena.fixInsert (a3.nodes.size + 1) a3 i f.s else some a3) := by
      simp only [Arena.insertAs, Arena.insertNew, hgf, Option.bind_eq_bind, Option.bind_some, beq_self_eq_true, if_true,
        Option.pure_def]
      rw [Arena.modify_eq_upd _ hi1]
      simp only [Option.bind_some]
      rw [Arena.setLeft_eq _ hflt]
      simp only [Option.bind_some]
      have : a3.node f.s = some { nf with left := i } := h3f
      simp only [a3, a2] at this
      rw [this]
      simp only [Option.bind_some, a3, a2]
    rw [hcode]
    obtain ⟨a', h1, h2, h3, h4, h5, h6⟩ := linkNew_rep (e := e) (by simp [a3, a2]; omega) hctx3 hn3
      (List.nodup_cons.mpr ⟨hfresh, hnd⟩) h3f
    refine ⟨a', h1, h2, by rw [h3]; simp [poolOf, a3, a2], by rw [h4]; simp [a3, a2]; omega, by rw [h5]; simp [a3, a2, hd1], ?_⟩
    intro j hj
    have hji : j ≠ i := fun h => hj (by simp [h])
    have hjf : j ≠ f.s := fun h => hj (by simp [ctxSlots, h])
    have e3 : a'.node j = a1.node j := by
      rw [h6 j hj]; simp [a3, a2, Ne.symm hji, Ne.symm hjf]
    refine ⟨fun hjlt => by rw [e3, hold j hjlt], fun h1 h2 => ?_⟩
    rw [e3]
    exact hnew1 j h1 (by rw [h4] at h2; simpa [a3, a2] using h2)
  | R =>
    simp only [hside] at hfside
    let a3 := a2.upd f.s fun n => { n with right := i }
    have h3f : a3.node f.s = some { nf with right := i } := by simp [a3, hnf]
    have h3i : a3.node i = some ⟨f.s, EMPTY, EMPTY, true, e⟩ := by simp [a3, hfi, h2i]
    have hctx3 : RepCtx a3 (f :: k) i f.s := by
      refine ⟨rfl, _, h3f, hfr, hfe, ?_, (hrest.upd_other _ hfsk.2)⟩
      simp only [hside]
      exact ⟨trivial, hfside.2.upd_other _ hfsk.1⟩
    have hn3 : Rep a3 i f.s (.node .red .leaf i e .leaf) := ⟨rfl, _, h3i, rfl, rfl, rfl, rfl, rfl⟩
    have hcode : a.insertAs e f.s (Side.R == Side.L) =
        (if nf.red then Arena.fixInsert (a3.nodes.size + 1) a3 i f.s else some a3) := by
      have hb : (Side.R == Side.L) = false := rfl
      simp only [Arena.insertAs, Arena.insertNew, hgf, Option.bind_eq_bind, Option.bind_some, hb, Bool.false_eq_true,
        if_false, Option.pure_def]
      rw [Arena.modify_eq_upd _ hi1]
      simp only [Option.bind_some]
      rw [Arena.setRight_eq _ hflt]
      simp only [Option.bind_some]
      have : a3.node f.s = some { nf with right := i } := h3f
      simp only [a3, a2] at this
      rw [this]
      simp only [Option.bind_some, a3, a2]
    rw [hcode]
    obtain ⟨a', h1, h2, h3, h4, h5, h6⟩ := linkNew_rep (e := e) (by simp [a3, a2]; omega) hctx3 hn3
      (List.nodup_cons.mpr ⟨hfresh, hnd⟩) h3f
    refine ⟨a', h1, h2, by rw [h3]; simp [poolOf, a3, a2], by rw [h4]; simp [a3, a2]; omega, by rw [h5]; simp [a3, a2, hd1], ?_⟩
    intro j hj
    have hji : j ≠ i := fun h => hj (by simp [h])
    have hjf : j ≠ f.s := fun h => hj (by simp [ctxSlots, h])
    have e3 : a'.node j = a1.node j := by
      rw [h6 j hj]; simp [a3, a2, Ne.symm hji, Ne.symm hjf]
    refine ⟨fun hjlt => by rw [e3, hold j hjlt], fun h1 h2 => ?_⟩
    rw [e3]
    exact hnew1 j h1 (by rw [h4] at h2; simpa [a3, a2] using h2)

end ITree

namespace ITree
variable {V : Type}

/-- the descent of `insert_entity` -/
theorem insertLoop_rep (e : Ent V) : ∀ (fuel : Nat) (a : Arena V) (k : Ctx (Ent V)) (t : T (Ent V)) (idx p : Nat),
    a.nodes.size + a.cap ≤ EMPTY → 0 < a.cap → (∀ x ∈ a.unused.toList, x < a.nodes.size) →
    t.height < fuel → t ≠ .leaf →
    RepCtx a k idx p → Rep a idx p t → (t.slots ++ ctxSlots k).Nodup →
    (poolOf a).alloc.1 ∉ t.slots ++ ctxSlots k →
    ∃ a', Arena.insertLoop fuel a e idx = some a' ∧
      Rep a' a'.root EMPTY (linkNew (descendIns e.key k t) (poolOf a).alloc.1 e) ∧
      poolOf a' = (poolOf a).alloc.2 ∧ a'.nodes.size ≤ EMPTY ∧ a'.dflt = a.dflt ∧
      (∀ j, j ∉ (poolOf a).alloc.1 :: (t.slots ++ ctxSlots k) → (j < a.nodes.size → a'.node j = a.node j) ∧
        (a.nodes.size ≤ j → j < a'.nodes.size → ∃ n, a'.node j = some n ∧ n.parent = 0)) := by
  intro fuel
  induction fuel with
  | zero => intro a k t idx p _ _ _ h; omega
  | succ fuel ih =>
    intro a k t idx p hsize hcap hfree hfuel hnl hctx hrep hnd hfresh
    cases t with
    | leaf => exact absurd rfl hnl
    | node c l s ent r =>
    obtain ⟨rfl, ns, hns, hnp, hnr, hne, hl, hr⟩ := hrep
    have hslt := node_lt hns
    simp only [T.height] at hfuel
    by_cases hlt : e.key < ent.key
    · have hlt' : e.key < ns.ent.key := by rw [hne]; exact hlt
      simp only [Arena.insertLoop, hns, Option.bind_eq_bind, Option.bind_some, hlt', if_true, descendIns, hlt]
      cases l with
      | leaf =>
        have hle : ns.left = EMPTY := hl
        simp only [hle, beq_self_eq_true, if_true, descendIns]
        have hctx' : RepCtx a ((⟨c, idx, ent, r, .L⟩ : Frame (Ent V)) :: k) EMPTY idx :=
          ⟨rfl, ns, hns, hnr, hne, ⟨hle, hr⟩, hnp ▸ hctx⟩
        obtain ⟨a', h1, h2, h3, h4, h5, h6⟩ := insertAs_rep (f := ⟨c, idx, ent, r, .L⟩) e hsize hcap hfree hctx'
          (by slots_tac hnd) (by slots_tac hfresh)
        exact ⟨a', h1, h2, h3, h4, h5, fun j hj => h6 j (by slots_tac hj)⟩
      | node cl ll sl el rl =>
        have hl0 := hl
        obtain ⟨hli, nl, hnl', _⟩ := hl0
        have := node_lt hnl'
        have hne' : (ns.left == EMPTY) = false := by rw [hli]; simp; omega
        simp only [hne', Bool.false_eq_true, if_false]
        have hctx' : RepCtx a ((⟨c, idx, ent, r, .L⟩ : Frame (Ent V)) :: k) ns.left idx :=
          ⟨rfl, ns, hns, hnr, hne, ⟨rfl, hr⟩, hnp ▸ hctx⟩
        obtain ⟨a', h1, h2, h3, h4, h5, h6⟩ := ih a _ _ ns.left idx hsize hcap hfree
          (by simp only [T.height] at hfuel ⊢; omega) (by simp) hctx' hl (by slots_tac hnd) (by slots_tac hfresh)
        exact ⟨a', h1, h2, h3, h4, h5, fun j hj => h6 j (by slots_tac hj)⟩
    · have hlt' : ¬ e.key < ns.ent.key := by rw [hne]; exact hlt
      simp only [Arena.insertLoop, hns, Option.bind_eq_bind, Option.bind_some, hlt', if_false, descendIns, hlt]
      cases r with
      | leaf =>
        have hre : ns.right = EMPTY := hr
        simp only [hre, beq_self_eq_true, if_true, descendIns]
        have hctx' : RepCtx a ((⟨c, idx, ent, l, .R⟩ : Frame (Ent V)) :: k) EMPTY idx :=
          ⟨rfl, ns, hns, hnr, hne, ⟨hre, hl⟩, hnp ▸ hctx⟩
        obtain ⟨a', h1, h2, h3, h4, h5, h6⟩ := insertAs_rep (f := ⟨c, idx, ent, l, .R⟩) e hsize hcap hfree hctx'
          (by slots_tac hnd) (by slots_tac hfresh)
        exact ⟨a', h1, h2, h3, h4, h5, fun j hj => h6 j (by slots_tac hj)⟩
      | node cr lr sr er rr =>
        have hr0 := hr
        obtain ⟨hri, nr, hnr', _⟩ := hr0
        have := node_lt hnr'
        have hne' : (ns.right == EMPTY) = false := by rw [hri]; simp; omega
        simp only [hne', Bool.false_eq_true, if_false]
        have hctx' : RepCtx a ((⟨c, idx, ent, l, .R⟩ : Frame (Ent V)) :: k) ns.right idx :=
          ⟨rfl, ns, hns, hnr, hne, ⟨rfl, hl⟩, hnp ▸ hctx⟩
        obtain ⟨a', h1, h2, h3, h4, h5, h6⟩ := ih a _ _ ns.right idx hsize hcap hfree
          (by simp only [T.height] at hfuel ⊢; omega) (by simp) hctx' hr (by slots_tac hnd) (by slots_tac hfresh)
        exact ⟨a', h1, h2, h3, h4, h5, fun j hj => h6 j (by slots_tac hj)⟩

end ITree

namespace ITree
variable {V : Type}

/-- the arena represents the abstract state of the zipper model -/
structure RepSt (a : Arena V) (st : St V) : Prop where
  tree : Rep a a.root EMPTY st.tree
  pool : st.pool = poolOf a

theorem T.height_le_slots (t : T (Ent V)) : t.height ≤ t.slots.length := by
  induction t with
  | leaf => simp [T.height]
  | node c l s e r ihl ihr => simp only [T.height, T.slots_node, List.length_append, List.length_cons]; omega

/-- what `SlotsOK` says about the arena -/
theorem SlotsOK.arena {a : Arena V} {st : St V} (h : RepSt a st) (hs : SlotsOK st.tree st.pool) :
    0 < a.cap ∧ (∀ x ∈ a.unused.toList, x < a.nodes.size) ∧ st.tree.slots.Nodup ∧
      (∀ x ∈ st.tree.slots, x < a.nodes.size) ∧ (poolOf a).alloc.1 ∉ st.tree.slots := by
  have hfresh := (Pool.alloc_spec hs).1
  obtain ⟨hperm, _, hcap⟩ := hs
  rw [h.pool] at hperm hcap hfresh
  simp only [poolOf] at hperm hcap
  have hnd : (0 :: (st.tree.slots ++ a.unused.toList.reverse)).Nodup := hperm.nodup_iff.mpr List.nodup_range
  have hmem : ∀ x ∈ (0 :: (st.tree.slots ++ a.unused.toList.reverse)), x < a.nodes.size := by
    intro x hx; exact List.mem_range.mp (hperm.mem_iff.mp hx)
  refine ⟨hcap, ?_, ?_, ?_, hfresh⟩
  · intro x hx; exact hmem x (by simp [hx])
  · exact (List.nodup_append.mp (List.nodup_cons.mp hnd).2).1
  · intro x hx; exact hmem x (by simp [hx])

/-- **`insert` of the arena-level model refines `St.insert`** and stays inside the arena -/
theorem insert_rep {a : Arena V} {st : St V} (e : Ent V) (h : RepSt a st) (hs : SlotsOK st.tree st.pool)
    (hsize : a.nodes.size + a.cap ≤ EMPTY) :
    ∃ a', a.insert e = some a' ∧ RepSt a' (st.insert e) ∧ a'.nodes.size ≤ EMPTY ∧ a'.dflt = a.dflt ∧
      a.nodes.size ≤ a'.nodes.size ∧
      (∀ j, j ∉ (poolOf a).alloc.1 :: st.tree.slots → (j < a.nodes.size → a'.node j = a.node j) ∧
        (a.nodes.size ≤ j → j < a'.nodes.size → ∃ n, a'.node j = some n ∧ n.parent = 0)) := by
  obtain ⟨hcap, hfree, hnd, hlt, hfresh⟩ := SlotsOK.arena h hs
  have hpool := h.pool
  simp only [St.insert, hpool]
  cases ht : st.tree with
  | leaf =>
    have hroot : a.root = EMPTY := by have := h.tree; rw [ht] at this; exact this
    obtain ⟨i, a1, hgf, halloc, hold, hroot1, hd1, hi1, hsz1, hsz1', hnew1⟩ := getFree_spec a hcap hfree
    rw [halloc]
    simp only [descendIns, linkNew]
    refine ⟨{ (a1.upd i fun _ => (⟨EMPTY, EMPTY, EMPTY, false, e⟩ : ANode V)) with root := i }, ?_, ⟨?_, ?_⟩, ?_, ?_,
      by simpa using hsz1, ?_⟩
    · simp only [Arena.insert, hroot, beq_self_eq_true, if_true, Arena.insertRoot, Arena.insertNew, hgf,
        Option.bind_eq_bind, Option.bind_some, Option.pure_def]
      rw [Arena.modify_eq_upd _ hi1]
      simp
    · obtain ⟨ni, hni⟩ : ∃ ni, a1.node i = some ni := ⟨a1.nodes[i], by simp [Arena.node, hi1]⟩
      have hn : ({ (a1.upd i fun _ => (⟨EMPTY, EMPTY, EMPTY, false, e⟩ : ANode V)) with root := i } : Arena V).node i =
          some ⟨EMPTY, EMPTY, EMPTY, false, e⟩ := by
        show (a1.upd i _).node i = _
        simp [hni]
      exact ⟨rfl, ⟨EMPTY, EMPTY, EMPTY, false, e⟩, hn, rfl, rfl, rfl, rfl, rfl⟩
    · simp [poolOf]
    · simp; omega
    · simp [hd1]
    · intro j hj
      have hji : j ≠ i := fun h => hj (by simp [h])
      have e3 : ({ (a1.upd i fun _ => (⟨EMPTY, EMPTY, EMPTY, false, e⟩ : ANode V)) with root := i } : Arena V).node j =
          a1.node j := by
        show (a1.upd i _).node j = _
        simp [Ne.symm hji]
      refine ⟨fun hjlt => by rw [e3, hold j hjlt], fun h1 h2 => ?_⟩
      rw [e3]
      exact hnew1 j h1 (by simpa using h2)
  | node c l s ent r =>
    have htree := h.tree
    rw [ht] at htree hnd hlt hfresh
    have hroot : a.root = s := htree.1
    have hslt : s < a.nodes.size := hlt s (by simp)
    have hrne : (a.root == EMPTY) = false := by rw [hroot]; simp; omega
    have hh : (T.node c l s ent r).height < a.nodes.size + 1 := by
      have h1 := T.height_le_slots (T.node c l s ent r)
      have h2 := nodup_lt_length _ _ hnd hlt
      omega
    obtain ⟨a', h1, h2, h3, h4, h5, h6⟩ := insertLoop_rep e (a.nodes.size + 1) a [] (T.node c l s ent r) a.root EMPTY
      hsize hcap hfree hh (by simp) ⟨rfl, rfl⟩ htree (by simpa [ctxSlots] using hnd) (by simpa [ctxSlots] using hfresh)
    have hgrow : a.nodes.size ≤ a'.nodes.size := by
      have e1 : (poolOf a').bufLen = a'.nodes.size := rfl
      have e2 : (poolOf a).bufLen = a.nodes.size := rfl
      have := (Pool.alloc_spec hs).2.2.2.2.2
      rw [h.pool] at this
      rw [h3] at e1; omega
    refine ⟨a', ?_, ⟨?_, ?_⟩, h4, h5, hgrow, fun j hj => h6 j (by simpa [ctxSlots] using hj)⟩
    · simp only [Arena.insert, hrne, Bool.false_eq_true, if_false]; exact h1
    · exact h2
    · exact h3.symm

end ITree
