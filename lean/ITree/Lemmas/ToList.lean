import ITree.Lemmas.Delete
import ITree.Lemmas.Insert
/-!
# The repairs do not change the in-order sequence of `(slot, entity)` pairs; locality of deletion
-/
namespace ITree
variable {ε : Type}

theorem insertFix_toList (k : Ctx ε) (n : T ε) : (insertFix k n).toList = (plug k n).toList := by
  fun_induction insertFix k n with
  | case1 n => rfl
  | case2 p n => simp [toList_plug, toList_fill, Frame.lefts, Frame.rights]
  | case3 =>
    rename_i p g n hu n'
    simp [n', toList_plug, toList_fill, Frame.lefts, Frame.rights]
  | case4 =>
    rename_i p g n hu n' gg tl hggr ih
    rw [ih]
    simp only [toList_plug, n']
    obtain ⟨pc, ps, pe, psib, pside⟩ := p
    obtain ⟨gc, gs, ge, gsib, gside⟩ := g
    cases pside <;> cases gside <;> simp [Frame.lefts, Frame.rights, List.append_assoc]
  | case5 =>
    rename_i p g n hu n' gg tl hggr
    simp only [toList_plug, n']
    obtain ⟨pc, ps, pe, psib, pside⟩ := p
    obtain ⟨gc, gs, ge, gsib, gside⟩ := g
    cases pside <;> cases gside <;> simp [Frame.lefts, Frame.rights, List.append_assoc]
  | case6 => rfl
  | case7 p g rest hu c nl sn en nr =>
    obtain ⟨pc, ps, pe, psib, pside⟩ := p
    obtain ⟨gc, gs, ge, gsib, gside⟩ := g
    cases pside <;> cases gside <;>
      simp [toList_plug, toList_fill, Frame.lefts, Frame.rights, List.append_assoc]

theorem fixBlackSib_loc {f : Frame ε} {fs : Ctx ε} {d : Bool} (h : fixBlackSib f = some (fs, d)) :
    ctxLeft fs = ctxLeft [f] ∧ ctxRight fs = ctxRight [f] := by
  obtain ⟨c, s, e, sib, side⟩ := f
  unfold fixBlackSib at h
  cases sib with
  | leaf => simp at h
  | node cS SL sS eS SR =>
    simp only at h
    split at h
    · cases h; cases side <;> simp [Frame.lefts, Frame.rights]
    · cases side with
      | L =>
        simp only at h
        split at h
        · cases SL with
          | leaf => simp at h
          | node _ SLL sSL eSL SLR =>
            simp only [Option.some.injEq, Prod.mk.injEq] at h
            obtain ⟨rfl, rfl⟩ := h
            simp [Frame.lefts, Frame.rights]
        · simp only [Option.some.injEq, Prod.mk.injEq] at h
          obtain ⟨rfl, rfl⟩ := h
          simp [Frame.lefts, Frame.rights]
      | R =>
        simp only at h
        split at h
        · cases SR with
          | leaf => simp at h
          | node _ SRL sSR eSR SRR =>
            simp only [Option.some.injEq, Prod.mk.injEq] at h
            obtain ⟨rfl, rfl⟩ := h
            simp [Frame.lefts, Frame.rights]
        · simp only [Option.some.injEq, Prod.mk.injEq] at h
          obtain ⟨rfl, rfl⟩ := h
          simp [Frame.lefts, Frame.rights]

theorem fixFrame_loc {f : Frame ε} {fs : Ctx ε} {d : Bool} (h : fixFrame f = some (fs, d)) :
    ctxLeft fs = ctxLeft [f] ∧ ctxRight fs = ctxRight [f] := by
  obtain ⟨c, s, e, sib, side⟩ := f
  have hblack : ∀ g : Frame ε, fixFrame g = fixBlackSib g ∨ ∃ SL sS eS SR, g.sib = .node .red SL sS eS SR := by
    intro g
    obtain ⟨gc, gs, ge, gsib, gside⟩ := g
    cases gsib with
    | leaf => exact Or.inl rfl
    | node cS SL sS eS SR =>
      cases cS with
      | black => exact Or.inl rfl
      | red => exact Or.inr ⟨SL, sS, eS, SR, rfl⟩
  rcases hblack ⟨c, s, e, sib, side⟩ with hb | ⟨SL, sS, eS, SR, hsib⟩
  · rw [hb] at h; exact fixBlackSib_loc h
  · simp only at hsib
    subst hsib
    cases side with
    | L =>
      simp only [fixFrame, Option.map_eq_some_iff] at h
      obtain ⟨⟨fs', d'⟩, h1, h2⟩ := h
      simp only [Prod.mk.injEq] at h2
      obtain ⟨rfl, rfl⟩ := h2
      obtain ⟨l1, l2⟩ := fixBlackSib_loc h1
      simp [ctxLeft_append, ctxRight_append, l1, l2, Frame.lefts, Frame.rights]
    | R =>
      simp only [fixFrame, Option.map_eq_some_iff] at h
      obtain ⟨⟨fs', d'⟩, h1, h2⟩ := h
      simp only [Prod.mk.injEq] at h2
      obtain ⟨rfl, rfl⟩ := h2
      obtain ⟨l1, l2⟩ := fixBlackSib_loc h1
      simp [ctxLeft_append, ctxRight_append, l1, l2, Frame.lefts, Frame.rights]

theorem fixUpD_loc (k : Ctx ε) (d : Bool) {k' : Ctx ε} {d' : Bool} (h : fixUpD k d = some (k', d')) :
    ctxLeft k' = ctxLeft k ∧ ctxRight k' = ctxRight k := by
  induction k generalizing d k' d' with
  | nil => cases d <;> simp [fixUpD] at h <;> simp [h.1]
  | cons f rest ih =>
    cases d with
    | false => simp [fixUpD] at h; simp [h.1]
    | true =>
      simp only [fixUpD] at h
      split at h
      · simp at h
      · rename_i fs d1 hf
        simp only [Option.map_eq_some_iff] at h
        obtain ⟨⟨r, d2⟩, h1, h2⟩ := h
        simp only [Prod.mk.injEq] at h2
        obtain ⟨rfl, rfl⟩ := h2
        obtain ⟨l1, l2⟩ := fixFrame_loc hf
        obtain ⟨r1, r2⟩ := ih d1 h1
        simp only [ctxLeft_append, ctxRight_append, r1, r2, l1, l2]
        simp

theorem fixUp_loc (k : Ctx ε) (d : Bool) {k' : Ctx ε} (h : fixUp k d = some k') :
    ctxLeft k' = ctxLeft k ∧ ctxRight k' = ctxRight k := by
  simp only [fixUp, Option.map_eq_some_iff] at h
  obtain ⟨⟨k1, d1⟩, h1, h2⟩ := h
  simp only at h2
  subst h2
  exact fixUpD_loc k d h1

/-- in-order contents of a focus after its root has been removed by `delete_index`:
a node with two children keeps its slot and receives the entity of its in-order successor. -/
def T.rootErased : T ε → List (Nat × ε)
  | .leaf => []
  | .node _ l s _ r =>
    match l, r with
    | .node .., .node .. =>
      match r.toList with
      | (_, es) :: rest => l.toList ++ (s, es) :: rest
      | [] => l.toList
    | _, _ => l.toList ++ r.toList

/-- the slot released by `delete_index` of the focus root -/
def T.rootFreed : T ε → Option Nat
  | .leaf => none
  | .node _ l s _ r =>
    match l, r with
    | .node .., .node .. => r.toList.head?.map (·.1)
    | _, _ => some s

theorem leftmost_toList (r : T ε) (k1 : Ctx ε) (cs : Color) (ss : Nat) (es : ε) (rs : T ε)
    (h : leftmost [] r = (k1, .node cs .leaf ss es rs)) :
    r.toList = (ss, es) :: (rs.toList ++ ctxRight k1) ∧ ctxLeft k1 = [] := by
  obtain ⟨hplug, ⟨k0, hk0, hL⟩, _⟩ := leftmost_spec ([] : Ctx ε) r
  rw [h] at hplug hk0
  simp only [List.append_nil] at hk0
  subst hk0
  have hl : ctxLeft k1 = [] := ctxLeft_allL k1 hL
  have := congrArg T.toList hplug
  simp only [toList_plug, hl, plug_nil] at this
  exact ⟨by simpa using this.symm, hl⟩

/-- **Locality of deletion.** `delete_index` of the focus root leaves everything to the left and to
the right of the focus untouched, and the focus keeps exactly its other entries. -/
theorem deleteFocus_spec (k : Ctx ε) (t : T ε) {k' : Ctx ε} {t' : T ε} {freed : Nat}
    (h : deleteFocus k t = some (k', t', freed)) :
    ctxLeft k' = ctxLeft k ∧ ctxRight k' = ctxRight k ∧ t'.toList = t.rootErased ∧
      t.rootFreed = some freed := by
  cases t with
  | leaf => simp [deleteFocus] at h
  | node c l s e r =>
    cases l with
    | leaf =>
      cases r with
      | leaf =>
        cases k with
        | nil =>
          simp only [deleteFocus, Option.some.injEq, Prod.mk.injEq] at h
          obtain ⟨rfl, rfl, rfl⟩ := h
          simp [T.rootErased, T.rootFreed]
        | cons f k =>
          simp only [deleteFocus, Option.map_eq_some_iff] at h
          obtain ⟨k1, h1, h2⟩ := h
          simp only [Prod.mk.injEq] at h2
          obtain ⟨rfl, rfl, rfl⟩ := h2
          obtain ⟨l1, l2⟩ := fixUp_loc _ _ h1
          simp [T.rootErased, T.rootFreed, l1, l2]
      | node cr lr sr er rr =>
        simp only [deleteFocus, Option.map_eq_some_iff] at h
        obtain ⟨k1, h1, h2⟩ := h
        simp only [Prod.mk.injEq] at h2
        obtain ⟨rfl, rfl, rfl⟩ := h2
        obtain ⟨l1, l2⟩ := fixUp_loc _ _ h1
        simp [T.rootErased, T.rootFreed, l1, l2]
    | node cl ll sl el rl =>
      cases r with
      | leaf =>
        simp only [deleteFocus, Option.map_eq_some_iff] at h
        obtain ⟨k1, h1, h2⟩ := h
        simp only [Prod.mk.injEq] at h2
        obtain ⟨rfl, rfl, rfl⟩ := h2
        obtain ⟨l1, l2⟩ := fixUp_loc _ _ h1
        simp [T.rootErased, T.rootFreed, l1, l2]
      | node cr lr sr er rr =>
        obtain ⟨_, _, hsucc⟩ := leftmost_spec ([] : Ctx ε) (T.node cr lr sr er rr)
        obtain ⟨cs, ss, es, rs, hs⟩ := hsucc (by simp)
        generalize hlm : leftmost [] (T.node cr lr sr er rr) = lm at hs
        obtain ⟨k1, succ⟩ := lm
        simp only at hs
        subst hs
        obtain ⟨hrl, hk1l⟩ := leftmost_toList _ _ _ _ _ _ hlm
        simp only [deleteFocus, hlm] at h
        split at h
        · simp at h
        · rename_i inner' d1 hin
          simp only [Option.map_eq_some_iff] at h
          obtain ⟨k2, h1, h2⟩ := h
          simp only [Prod.mk.injEq] at h2
          obtain ⟨rfl, rfl, rfl⟩ := h2
          obtain ⟨l1, l2⟩ := fixUp_loc _ _ h1
          obtain ⟨i1, i2⟩ := fixUpD_loc _ _ hin
          refine ⟨l1, l2, ?_, ?_⟩
          · simp only [toList_plug, i1, i2, ctxLeft_append, ctxRight_append, hk1l]
            simp only [T.rootErased, hrl]
            cases rs <;> simp [Frame.lefts, Frame.rights, List.append_assoc]
          · simp [T.rootFreed, hrl]

end ITree
