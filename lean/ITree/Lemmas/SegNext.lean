import ITree.Lemmas.SegIter
/-!
# The segment-tree iterator: `next` across places
-/
namespace ITree
variable {V : Type}

def chunkAt (s : Seg V) (i : Nat) : List (SegEnt V) := (s.chunks[i]?).getD []

/-- copies that a place will still report, given the iterator's query -/
def repIn (s : Seg V) (it : SegIt) (i : Nat) : List (SegEnt V) :=
  (chunkAt s i).filter (repAt it.time it.mask i)

/-- everything the iterator will still report -/
def pending (s : Seg V) (it : SegIt) : List (SegEnt V) :=
  (match it.i0 with
    | none => []
    | some i0 => ((chunkAt s i0).drop it.i1).filter (repAt it.time it.mask i0)) ++
  it.rest.flatMap (repIn s it)

structure ItInv (s : Seg V) (it : SegIt) (places : List Nat) : Prop where
  /-- the places still to visit are among the query's places, without repetition, inside the chunk vector -/
  rest_lt : ∀ i ∈ it.rest, i < s.chunks.length
  rest_nodup : it.rest.Nodup
  cur : ∀ i0, it.i0 = some i0 → i0 < s.chunks.length ∧ i0 ∉ it.rest ∧ it.i1 ≤ (chunkAt s i0).length ∧
      ∀ e ∈ (chunkAt s i0).take it.i1, keepAt it.time e = true
  fin : it.i0 = none → it.rest = []
  /-- every place of the query that is neither current nor pending has been scanned completely -/
  done : ∀ i ∈ places, it.i0 ≠ some i → i ∉ it.rest → ∀ e ∈ chunkAt s i, keepAt it.time e = true
  sub : (∀ i0, it.i0 = some i0 → i0 ∈ places) ∧ ∀ i ∈ it.rest, i ∈ places

theorem findNext_spec (chunks : List (List (SegEnt V))) (bs : List Nat) (h : ∀ b ∈ bs, b < chunks.length) :
    ∃ n rest, findNext chunks bs = some (n, rest) ∧
      (∃ skipped, bs = skipped ++ (n.toList ++ rest) ∧ ∀ b ∈ skipped, (chunks[b]?).getD [] = []) ∧
      (n = none → rest = []) := by
  induction bs with
  | nil => exact ⟨none, [], rfl, ⟨[], rfl, by simp⟩, fun _ => rfl⟩
  | cons b bs ih =>
    have hb : b < chunks.length := h b (List.mem_cons_self ..)
    obtain ⟨n, rest, h1, ⟨sk, h2, h3⟩, h4⟩ := ih (fun x hx => h x (List.mem_cons_of_mem _ hx))
    simp only [findNext, List.getElem?_eq_getElem hb]
    by_cases he : chunks[b].isEmpty = true
    · simp only [he, if_true]
      refine ⟨n, rest, h1, ⟨b :: sk, by simp [h2], ?_⟩, h4⟩
      intro x hx
      rcases List.mem_cons.mp hx with rfl | hx
      · simp [List.getElem?_eq_getElem hb, List.isEmpty_iff.mp he]
      · exact h3 x hx
    · simp only [he]
      exact ⟨some b, bs, rfl, ⟨[], by simp, by simp⟩, by simp⟩

theorem chunkAt_set (s : Seg V) (i j : Nat) (c : List (SegEnt V)) (hi : i < s.chunks.length) :
    chunkAt { s with chunks := s.chunks.set i c } j = if j = i then c else chunkAt s j := by
  simp only [chunkAt]
  by_cases hj : j = i
  · subst hj; simp [hi]
  · simp [hj, List.getElem?_set_ne (Ne.symm hj)]

/-- fuel measure of `next`: places still to visit, plus one for the current place -/
def SegIt.measure (it : SegIt) : Nat := it.rest.length + (if it.i0.isSome then 1 else 0)

/-- what one call of `next` guarantees -/
structure NextRes (s : Seg V) (it : SegIt) (places : List Nat) (s' : Seg V) (it' : SegIt) (out : Option V) : Prop where
  inv : ItInv s' it' places
  layout : s'.layout = s.layout ∧ s'.chunks.length = s.chunks.length ∧ it'.time = it.time ∧ it'.mask = it.mask
  meas : it'.measure ≤ it.measure
  purge : ∀ i, ∃ rm, (chunkAt s i).Perm (chunkAt s' i ++ rm) ∧ ∀ e ∈ rm, keepAt it.time e = false
  out : match out with
    | some v => ∃ item, item.val = v ∧ (pending s it).Perm (item :: pending s' it') ∧
        keepAt it.time item = true ∧ ∃ i ∈ places, firstAt it.mask i item = true
    | none => pending s it = [] ∧ it'.i0 = none

theorem flatMap_congr' {α β : Type} {l : List α} {f g : α → List β} (h : ∀ x ∈ l, f x = g x) :
    l.flatMap f = l.flatMap g := by
  induction l with
  | nil => rfl
  | cons a as ih =>
    simp only [List.flatMap_cons]
    rw [h a (List.mem_cons_self ..), ih (fun x hx => h x (List.mem_cons_of_mem _ hx))]

theorem repIn_congr {s s' : Seg V} {it it' : SegIt} (i : Nat) (hc : chunkAt s' i = chunkAt s i)
    (ht : it'.time = it.time) (hm : it'.mask = it.mask) : repIn s' it' i = repIn s it i := by
  simp [repIn, hc, ht, hm]

theorem segNext_spec (fuel : Nat) : ∀ (s : Seg V) (it : SegIt) (places : List Nat),
    ItInv s it places → it.measure < fuel →
    ∃ s' it' out, segNext fuel s it = some (s', it', out) ∧ NextRes s it places s' it' out := by
  induction fuel with
  | zero => intro s it places _ h; omega
  | succ fuel ih =>
    intro s it places inv hfuel
    simp only [segNext]
    cases hi0 : it.i0 with
    | none =>
      refine ⟨s, it, none, rfl, ⟨inv, ⟨rfl, rfl, rfl, rfl⟩, Nat.le_refl _, fun i => ⟨[], by simp, by simp⟩, ?_⟩⟩
      simp only [pending, hi0, inv.fin hi0]
      exact ⟨rfl, trivial⟩
    | some i0 =>
      obtain ⟨hlt, hnotin, hi1, hpre⟩ := inv.cur i0 hi0
      simp only [List.getElem?_eq_getElem hlt]
      have hc : chunkAt s i0 = s.chunks[i0] := by simp [chunkAt, List.getElem?_eq_getElem hlt]
      have hscan := scanChunk_spec it.time it.mask i0 (2 * s.chunks[i0].length + 1) s.chunks[i0] it.i1
        (hc ▸ hi1) (by omega) (hc ▸ hpre)
      generalize hsc : scanChunk it.time it.mask i0 (2 * s.chunks[i0].length + 1) s.chunks[i0] it.i1 = sc at hscan
      obtain ⟨c', r⟩ := sc
      obtain ⟨p1, ⟨rm, p2, p3⟩, p4⟩ := hscan
      simp only at p1 p2 p4 ⊢
      -- the state with the scanned chunk written back
      have hset := fun j => chunkAt_set s i0 j c' hlt
      have hother : ∀ j ∈ it.rest, chunkAt { s with chunks := s.chunks.set i0 c' } j = chunkAt s j := by
        intro j hj
        rw [hset]
        have : j ≠ i0 := fun h => hnotin (h ▸ hj)
        simp [this]
      cases r with
      | some vi =>
        obtain ⟨v, i1⟩ := vi
        simp only at p4 ⊢
        obtain ⟨q1, q2, q3, item, q4, q5, q6⟩ := p4
        refine ⟨_, _, some v, rfl, ⟨⟨?_, inv.rest_nodup, ?_, ?_, ?_, ?_⟩, ⟨rfl, by simp, rfl, rfl⟩, by simp [SegIt.measure, hi0], ?_, ?_⟩⟩
        · simpa using inv.rest_lt
        · intro j hj
          simp only [hi0, Option.some.injEq] at hj
          subst hj
          refine ⟨by simpa using hlt, hnotin, ?_, ?_⟩
          · simp only [hset, if_true]; exact q2
          · simp only [hset, if_true]; exact q3
        · intro h; simp [hi0] at h
        · intro i hi hne hnr
          simp only [hi0] at hne
          have hne' : i ≠ i0 := fun h => hne (by rw [h])
          simp only [hset, hne', if_false]
          exact inv.done i hi (by rw [hi0]; simp only [ne_eq, Option.some.injEq]; exact fun h => hne' h.symm) hnr
        · exact ⟨by simpa [hi0] using inv.sub.1, inv.sub.2⟩
        · intro i
          by_cases hii : i = i0
          · subst hii
            refine ⟨rm, ?_, p3⟩
            simp only [hset, if_true]
            rw [hc]; exact p2
          · exact ⟨[], by simp [hset, hii], by simp⟩
        · simp only
          refine ⟨item, q4, ?_, by simp only [repAt, Bool.and_eq_true] at q5; exact q5.1,
            i0, inv.sub.1 i0 hi0, by simp only [repAt, Bool.and_eq_true] at q5; exact q5.2⟩
          simp only [pending, hi0, hset, if_true]
          have hrest : ∀ it2 : SegIt, it2.time = it.time → it2.mask = it.mask →
              it.rest.flatMap (repIn { s with chunks := s.chunks.set i0 c' } it2) = it.rest.flatMap (repIn s it) := by
            intro it2 ht hm
            apply flatMap_congr'
            intro j hj
            exact repIn_congr j (hother j hj) ht hm
          rw [hrest { i0 := some i0, i1 := i1, rest := it.rest, mask := it.mask, time := it.time } rfl rfl, hc]
          exact (List.Perm.append_right _ q6)
      | none =>
        simp only at p4 ⊢
        obtain ⟨q1, q2⟩ := p4
        -- move on to the next non-empty place
        have hrl : ∀ b ∈ it.rest, b < (s.chunks.set i0 c').length := by simpa using inv.rest_lt
        obtain ⟨n, rest', hf, ⟨sk, hsk1, hsk2⟩, hfin⟩ := findNext_spec (s.chunks.set i0 c') it.rest hrl
        simp only [hf]
        -- invariant of the new iterator state
        have hnd := inv.rest_nodup
        rw [hsk1] at hnd
        have inv' : ItInv { s with chunks := s.chunks.set i0 c' } { it with i0 := n, i1 := 0, rest := rest' } places := by
          refine ⟨?_, ?_, ?_, ?_, ?_, ?_⟩
          · intro i hi
            exact hrl i (by rw [hsk1]; simp [hi])
          · exact (List.nodup_append.mp (List.nodup_append.mp hnd).2.1).2.1
          · intro j hj
            simp only at hj
            subst hj
            refine ⟨hrl j (by rw [hsk1]; simp), ?_, by simp, by simp⟩
            have := (List.nodup_append.mp hnd).2.1
            simp only [Option.toList_some, List.singleton_append, List.nodup_cons] at this
            exact this.1
          · exact hfin
          · intro i hi hne hnr
            simp only at hne hnr
            by_cases hii : i = i0
            · subst hii; simp only [hset, if_true]; exact q1
            · simp only [hset, hii, if_false]
              by_cases hir : i ∈ it.rest
              · -- i was skipped: its chunk is empty
                rw [hsk1] at hir
                simp only [List.mem_append] at hir
                rcases hir with hir | hir | hir
                · have := hsk2 i hir
                  have hci : chunkAt s i = [] := by
                    rw [← hother i (by rw [hsk1]; simp [hir])]
                    simpa [chunkAt] using this
                  simp [hci]
                · cases n with
                  | none => simp at hir
                  | some m => simp only [Option.toList_some, List.mem_singleton] at hir; exact absurd (by rw [hir]) hne
                · exact absurd hir hnr
              · exact inv.done i hi (by rw [hi0]; simp only [ne_eq, Option.some.injEq]; exact fun h => hii h.symm) hir
          · constructor
            · intro j hj
              simp only at hj; subst hj
              exact inv.sub.2 j (by rw [hsk1]; simp)
            · intro i hi
              exact inv.sub.2 i (by rw [hsk1]; simp [hi])
        have hpend0 : pending s it = pending { s with chunks := s.chunks.set i0 c' } { it with i0 := n, i1 := 0, rest := rest' } := by
          simp only [pending, hi0]
          rw [hc, q2, List.nil_append]
          have hrest : it.rest.flatMap (repIn s it) =
              it.rest.flatMap (repIn { s with chunks := s.chunks.set i0 c' } { it with i0 := n, i1 := 0, rest := rest' }) := by
            apply flatMap_congr'
            intro j hj
            exact (repIn_congr j (hother j hj) rfl rfl).symm
          rw [hrest, hsk1, List.flatMap_append, List.flatMap_append]
          have hskip : sk.flatMap (repIn { s with chunks := s.chunks.set i0 c' } { it with i0 := n, i1 := 0, rest := rest' }) = [] := by
            rw [List.flatMap_eq_nil_iff]
            intro j hj
            have := hsk2 j hj
            simp only [repIn, chunkAt, this, List.filter_nil]
          rw [hskip, List.nil_append]
          cases n with
          | none => simp
          | some m => simp [repIn]
        have hmeas' : ({ it with i0 := n, i1 := 0, rest := rest' } : SegIt).measure ≤ it.rest.length := by
          have h1 : it.rest.length = sk.length + (n.toList.length + rest'.length) := by rw [hsk1]; simp
          simp only [SegIt.measure]
          cases n with
          | none => simp; simp at h1; omega
          | some m => simp; simp at h1; omega
        have hmeas0 : it.measure = it.rest.length + 1 := by simp [SegIt.measure, hi0]
        obtain ⟨s2, it2, out, hn, hres⟩ := ih _ _ places inv' (by omega)
        refine ⟨s2, it2, out, hn, ⟨hres.inv, ?_, by have := hres.meas; omega, ?_, ?_⟩⟩
        · obtain ⟨l1, l2, l3, l4⟩ := hres.layout
          exact ⟨l1, by simpa using l2, l3, l4⟩
        · intro i
          obtain ⟨rm2, r1, r2⟩ := hres.purge i
          by_cases hii : i = i0
          · subst hii
            simp only [hset, if_true] at r1
            refine ⟨rm2 ++ rm, ?_, ?_⟩
            · rw [hc]
              calc s.chunks[i] |>.Perm (c' ++ rm) := p2
                _ |>.Perm ((chunkAt s2 i ++ rm2) ++ rm) := List.Perm.append_right _ r1
                _ = _ := by simp
            · intro e he
              simp only [List.mem_append] at he
              rcases he with he | he
              · exact r2 e he
              · exact p3 e he
          · simp only [hset, hii, if_false] at r1
            exact ⟨rm2, r1, r2⟩
        · rw [hpend0]; exact hres.out

end ITree
