import ITree.Lemmas.MapWF
/-!
# Read-only descents on an ordered tree agree with the obvious list functions
-/
namespace ITree
variable {V ε : Type}

/-- entities in key order: the abstract content of a tree state -/
def T.ents (t : T (Ent V)) : List (Ent V) := t.toList.map (·.2)

@[simp] theorem T.ents_leaf : (T.leaf : T (Ent V)).ents = [] := rfl
@[simp] theorem T.ents_node (c : Color) (l r : T (Ent V)) (s : Nat) (e : Ent V) :
    (T.node c l s e r).ents = l.ents ++ e :: r.ents := by simp [T.ents]
@[simp] theorem T.keys_leaf : (T.leaf : T (Ent V)).keys = [] := rfl
@[simp] theorem T.keys_node (c : Color) (l r : T (Ent V)) (s : Nat) (e : Ent V) :
    (T.node c l s e r).keys = l.keys ++ e.key :: r.keys := by simp [T.keys]
theorem T.keys_ents (t : T (Ent V)) : t.keys = t.ents.map (·.key) := by simp [T.keys, T.ents]

theorem ordered_node {c} {l r : T (Ent V)} {s} {e : Ent V} (h : Ordered (T.node c l s e r)) :
    Ordered l ∧ Ordered r ∧ (∀ k ∈ l.keys, k < e.key) ∧ (∀ k ∈ r.keys, e.key < k) := by
  simp only [Ordered, T.keys_node, List.pairwise_append, List.pairwise_cons] at h
  obtain ⟨hl, ⟨her, hr⟩, hlr⟩ := h
  exact ⟨hl, hr, fun k hk => hlr k hk _ (List.mem_cons_self ..), her⟩

/-- `search_value` = first (the only) entry with that key -/
theorem T.lookup_spec (t : T (Ent V)) (key : Int) (h : Ordered t) :
    t.lookup key = t.ents.find? (fun e => e.key == key) := by
  induction t with
  | leaf => rfl
  | node c l s e r ihl ihr =>
    obtain ⟨hl, hr, hlk, hrk⟩ := ordered_node h
    simp only [T.lookup, T.ents_node, List.find?_append, List.find?_cons]
    split
    · rename_i hlt
      rw [ihl hl]
      cases hf : l.ents.find? (fun e => e.key == key) with
      | some x => simp
      | none =>
        have h1 : (e.key == key) = false := by simp; omega
        simp only [Option.none_or, h1]
        symm
        rw [List.find?_eq_none]
        intro x hx
        have := hrk x.key (by rw [T.keys_ents]; exact List.mem_map_of_mem hx)
        simp; omega
    · split
      · rename_i hge hgt
        rw [ihr hr]
        have h0 : l.ents.find? (fun e => e.key == key) = none := by
          rw [List.find?_eq_none]
          intro x hx
          have := hlk x.key (by rw [T.keys_ents]; exact List.mem_map_of_mem hx)
          simp; omega
        have h1 : (e.key == key) = false := by simp; omega
        simp [h0, h1]
      · rename_i hge hle
        have heq : e.key = key := by omega
        have h0 : l.ents.find? (fun e => e.key == key) = none := by
          rw [List.find?_eq_none]
          intro x hx
          have := hlk x.key (by rw [T.keys_ents]; exact List.mem_map_of_mem hx)
          simp; omega
        simp [h0, heq]

/-- a comparator is monotone along a key list: answers are `lt … lt, (eq)?, gt … gt` -/
def MonoOn (f : Int → Ordering) (keys : List Int) : Prop :=
  keys.Pairwise fun a b => f b ≠ .gt → f a = .lt

/-- handle of the last entry the comparator does not place above the probe -/
def lastLE (f : Int → Ordering) (l : List (Nat × Ent V)) : Option Nat :=
  ((l.filter fun x => f x.2.key != .gt).getLast?).map (·.1)

theorem lastLE_append (f : Int → Ordering) (a b : List (Nat × Ent V)) :
    lastLE f (a ++ b) = (lastLE f b).or (lastLE f a) := by
  simp only [lastLE, List.filter_append, List.getLast?_append]
  cases (b.filter fun x => f x.2.key != .gt).getLast? <;> simp

theorem lastLE_none_of_all_gt (f : Int → Ordering) (l : List (Nat × Ent V))
    (h : ∀ x ∈ l, f x.2.key = .gt) : lastLE f l = none := by
  simp only [lastLE, Option.map_eq_none_iff, List.getLast?_eq_none_iff, List.filter_eq_nil_iff]
  intro x hx; simp [h x hx]

/-- `search_first_less_by` -/
theorem T.firstLEBy_spec (f : Int → Ordering) (t : T (Ent V)) (res : Option Nat)
    (hm : MonoOn f t.keys) : t.firstLEBy f res = (lastLE f t.toList).or res := by
  induction t generalizing res with
  | leaf => simp [T.firstLEBy, lastLE]
  | node c l s e r ihl ihr =>
    simp only [MonoOn, T.keys_node, List.pairwise_append, List.pairwise_cons] at hm
    obtain ⟨hl, ⟨her, hr⟩, hlr⟩ := hm
    have hr_gt : f e.key ≠ .lt → ∀ x ∈ r.toList, f x.2.key = .gt := by
      intro hne x hx
      have := her x.2.key (by simp only [T.keys, List.mem_map]; exact ⟨x, hx, rfl⟩)
      cases hfx : f x.2.key <;> simp_all
    simp only [T.firstLEBy, T.toList_node]
    rw [show l.toList ++ (s, e) :: r.toList = l.toList ++ ([(s, e)] ++ r.toList) from rfl,
      lastLE_append, lastLE_append]
    cases hfe : f e.key with
    | eq =>
      simp only
      rw [lastLE_none_of_all_gt f r.toList (hr_gt (by simp [hfe]))]
      simp [lastLE, hfe]
    | lt =>
      simp only
      rw [ihr _ hr]
      cases lastLE f r.toList <;> simp [lastLE, hfe]
    | gt =>
      simp only
      rw [ihl _ hl, lastLE_none_of_all_gt f r.toList (hr_gt (by simp [hfe]))]
      simp [lastLE, hfe]

/-- `k ↦ k.cmp(probe)` is monotone along any strictly increasing key list -/
theorem monoOn_compare (key : Int) (keys : List Int) (h : keys.Pairwise (· < ·)) :
    MonoOn (fun k => compare k key) keys := by
  refine List.Pairwise.imp ?_ h
  intro a b hab hb
  simp only [ne_eq, Int.compare_eq_gt, Int.not_lt] at hb
  rw [Int.compare_eq_lt]; omega

/-- the comparator family used by the correspondence check, `k ↦ (2k).cmp(q)`, is monotone too -/
theorem monoOn_cmpQ (q : Int) (keys : List Int) (h : keys.Pairwise (· < ·)) :
    MonoOn (fun k => compare (2 * k) q) keys := by
  refine List.Pairwise.imp ?_ h
  intro a b hab hb
  simp only [ne_eq, Int.compare_eq_gt, Int.not_lt] at hb
  rw [Int.compare_eq_lt]; omega

theorem T.mem_slots_of_mem {t : T ε} {x : Nat × ε} (h : x ∈ t.toList) : x.1 ∈ t.slots := by
  simp only [T.slots, List.mem_map]; exact ⟨x, h, rfl⟩

/-- reading through a handle: the entity paired with that slot -/
theorem T.atSlot_spec (t : T (Ent V)) (slot : Nat) (hn : t.slots.Nodup) :
    t.atSlot slot = (t.toList.find? (fun x => x.1 == slot)).map (·.2) := by
  induction t with
  | leaf => rfl
  | node c l s x r ihl ihr =>
    simp only [T.slots_node, List.nodup_append, List.nodup_cons, List.mem_cons] at hn
    obtain ⟨hln, ⟨hsr, hrn⟩, hdis⟩ := hn
    simp only [T.atSlot, T.toList_node, List.find?_append, List.find?_cons]
    split
    · rename_i heq
      have hs : s = slot := by simpa using heq
      subst hs
      have h0 : l.toList.find? (fun x => x.1 == s) = none := by
        rw [List.find?_eq_none]
        intro y hy hys
        have : y.1 = s := by simpa using hys
        exact hdis y.1 (T.mem_slots_of_mem hy) s (Or.inl rfl) this
      simp [h0]
    · rename_i hne
      rw [ihl hln, ihr hrn]
      have hs : (s == slot) = false := by simpa using hne
      cases l.toList.find? (fun x => x.1 == slot) <;> simp [hs]

/-- writing through a handle changes the value of exactly the entry paired with that slot -/
theorem T.setAtSlot_toList (t : T (Ent V)) (slot : Nat) (v : V) (hn : t.slots.Nodup) :
    (t.setAtSlot slot v).toList =
      t.toList.map fun x => if x.1 = slot then (x.1, x.2.setVal v) else x := by
  induction t with
  | leaf => rfl
  | node c l s x r ihl ihr =>
    simp only [T.slots_node, List.nodup_append, List.nodup_cons, List.mem_cons] at hn
    obtain ⟨hln, ⟨hsr, hrn⟩, hdis⟩ := hn
    simp only [T.setAtSlot]
    split
    · rename_i heq
      have hs : s = slot := by simpa using heq
      subst hs
      have hl : l.toList.map (fun x => if x.1 = s then (x.1, x.2.setVal v) else x) = l.toList := by
        conv => rhs; rw [← List.map_id l.toList]
        apply List.map_congr_left
        intro y hy
        have : y.1 ≠ s := fun h => hdis y.1 (T.mem_slots_of_mem hy) s (Or.inl rfl) h
        simp [this]
      have hr : r.toList.map (fun x => if x.1 = s then (x.1, x.2.setVal v) else x) = r.toList := by
        conv => rhs; rw [← List.map_id r.toList]
        apply List.map_congr_left
        intro y hy
        have : y.1 ≠ s := fun h => hsr (h ▸ T.mem_slots_of_mem hy)
        simp [this]
      simp [hl, hr]
    · rename_i hne
      have hs : s ≠ slot := by simpa using hne
      simp [ihl hln, ihr hrn, hs]

theorem SlotsOK.nodup {t : T ε} {p : Pool} (h : SlotsOK t p) : t.slots.Nodup := by
  have h1 : (0 :: (t.slots ++ p.unused)).Nodup := h.1.nodup_iff.mpr List.nodup_range
  simp only [List.nodup_cons, List.nodup_append] at h1
  exact h1.2.1

theorem SlotsOK.pos {t : T ε} {p : Pool} (h : SlotsOK t p) : ∀ s ∈ t.slots, 0 < s ∧ s < p.bufLen := by
  intro s hs
  have h1 : (0 :: (t.slots ++ p.unused)).Nodup := h.1.nodup_iff.mpr List.nodup_range
  have h2 : s ∈ List.range p.bufLen := h.1.mem_iff.mp (by simp [hs])
  simp only [List.nodup_cons, List.mem_append] at h1
  refine ⟨?_, by simpa using h2⟩
  rcases Nat.eq_zero_or_pos s with h0 | h0
  · subst h0; exact absurd (Or.inl hs) h1.1
  · exact h0

end ITree
