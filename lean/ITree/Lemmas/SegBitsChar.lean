import ITree.Lemmas.SegDefs
namespace ITree

set_option maxRecDepth 100000 in
/-- `bits` enumerates exactly the set bits below 63, in increasing order -/
theorem bits_char : ∀ a < 32, ∀ b < 32, a ≤ b →
    bits (placeMask a b) = (List.range 63).filter (fun n => (placeMask a b).testBit n) ∧
    bits (visitMask a b) = (List.range 63).filter (fun n => (visitMask a b).testBit n) := by decide +kernel


end ITree
