import ITree.Model.Arena
import ITree.Lemmas.Clear
/-!
# Arena-level model: basic facts about node updates and the representation predicates

`Rep a i p t`: the sub-arena reachable from index `i` by child links, whose root has parent field `p`,
*is* the labelled tree `t` (slots = indices, colours, entities, and every parent field consistent).
`RepCtx a k i p`: the zipper context `k` is realised by the parent chain above a hole whose occupant has
index `i` and parent field `p`, up to `a.root`.
-/
namespace ITree
variable {V : Type}

namespace Arena

end Arena

/-- colour of a node -/
def isRedC (c : Color) : Bool := c == .red

/-- the sub-arena below index `i` (whose parent field must be `p`) is the labelled tree `t` -/
def Rep (a : Arena V) : Nat → Nat → T (Ent V) → Prop
  | i, _, .leaf => i = EMPTY
  | i, p, .node c l s e r =>
    i = s ∧ ∃ n, a.node s = some n ∧ n.parent = p ∧ n.red = isRedC c ∧ n.ent = e ∧
      Rep a n.left s l ∧ Rep a n.right s r

/-- the zipper context `k` is realised above a hole occupied by index `i` whose parent field is `p` -/
def RepCtx (a : Arena V) : Ctx (Ent V) → Nat → Nat → Prop
  | [], i, p => p = EMPTY ∧ a.root = i
  | f :: k, i, p => p = f.s ∧ ∃ n, a.node f.s = some n ∧ n.red = isRedC f.c ∧ n.ent = f.e ∧
      (match f.side with
        | .L => n.left = i ∧ Rep a n.right f.s f.sib
        | .R => n.right = i ∧ Rep a n.left f.s f.sib) ∧
      RepCtx a k f.s n.parent

/-- slots occurring in a context -/
def ctxSlots : Ctx (Ent V) → List Nat
  | [] => []
  | f :: k => f.s :: (f.sib.slots ++ ctxSlots k)

theorem Rep.congr {a a' : Arena V} {t : T (Ent V)} {i p : Nat}
    (h : ∀ s ∈ t.slots, a'.node s = a.node s) (hr : Rep a i p t) : Rep a' i p t := by
  induction t generalizing i p with
  | leaf => exact hr
  | node c l s e r ihl ihr =>
    obtain ⟨rfl, n, h1, h2, h3, h4, h5, h6⟩ := hr
    have hs : ∀ x ∈ l.slots ++ i :: r.slots, a'.node x = a.node x := by
      intro x hx; exact h x (by simpa [T.slots] using hx)
    refine ⟨rfl, n, by rw [h i (by simp [T.slots])]; exact h1, h2, h3, h4, ?_, ?_⟩
    · exact ihl (fun x hx => hs x (by simp [hx])) h5
    · exact ihr (fun x hx => hs x (by simp [hx])) h6

theorem RepCtx.congr {a a' : Arena V} {k : Ctx (Ent V)} {i p : Nat}
    (h : ∀ s ∈ ctxSlots k, a'.node s = a.node s) (hroot : a'.root = a.root) (hr : RepCtx a k i p) :
    RepCtx a' k i p := by
  induction k generalizing i p with
  | nil => obtain ⟨h1, h2⟩ := hr; exact ⟨h1, by rw [hroot]; exact h2⟩
  | cons f k ih =>
    obtain ⟨h1, n, h2, h3, h4, h5, h6⟩ := hr
    have hf : a'.node f.s = a.node f.s := h f.s (by simp [ctxSlots])
    have hsib : ∀ s ∈ f.sib.slots, a'.node s = a.node s := fun s hs => h s (by simp [ctxSlots, hs])
    have hk : ∀ s ∈ ctxSlots k, a'.node s = a.node s := fun s hs => h s (by simp [ctxSlots, hs])
    refine ⟨h1, n, by rw [hf]; exact h2, h3, h4, ?_, ih hk h6⟩
    cases hside : f.side with
    | L => simp only [hside] at h5 ⊢; exact ⟨h5.1, Rep.congr hsib h5.2⟩
    | R => simp only [hside] at h5 ⊢; exact ⟨h5.1, Rep.congr hsib h5.2⟩

theorem node_lt {a : Arena V} {i : Nat} {n : ANode V} (h : a.node i = some n) : i < a.nodes.size := by
  simp only [Arena.node] at h
  rcases Nat.lt_or_ge i a.nodes.size with h' | h'
  · exact h'
  · rw [Array.getElem?_eq_none h'] at h; simp at h

theorem Rep.slots_lt {a : Arena V} {t : T (Ent V)} {i p : Nat} (h : Rep a i p t) :
    ∀ s ∈ t.slots, s < a.nodes.size := by
  induction t generalizing i p with
  | leaf => intro s hs; simp at hs
  | node c l s e r ihl ihr =>
    obtain ⟨_, n, h1, _, _, _, h5, h6⟩ := h
    intro x hx
    simp only [T.slots_node, List.mem_append, List.mem_cons] at hx
    rcases hx with hx | rfl | hx
    · exact ihl h5 x hx
    · exact node_lt h1
    · exact ihr h6 x hx

theorem RepCtx.slots_lt {a : Arena V} {k : Ctx (Ent V)} {i p : Nat} (h : RepCtx a k i p) :
    ∀ s ∈ ctxSlots k, s < a.nodes.size := by
  induction k generalizing i p with
  | nil => intro s hs; simp [ctxSlots] at hs
  | cons f k ih =>
    obtain ⟨_, n, h2, _, _, h5, h6⟩ := h
    intro x hx
    simp only [ctxSlots, List.mem_cons, List.mem_append] at hx
    rcases hx with rfl | hx | hx
    · exact node_lt h2
    · cases hside : f.side with
      | L => simp only [hside] at h5; exact h5.2.slots_lt x hx
      | R => simp only [hside] at h5; exact h5.2.slots_lt x hx
    · exact ih h6 x hx

theorem node_none {a : Arena V} {i : Nat} (h : a.nodes.size ≤ i) : a.node i = none := by
  simp only [Arena.node]; exact Array.getElem?_eq_none h

theorem node_eq_of_size {a a' : Arena V} {i : Nat} (hs : a'.nodes.size = a.nodes.size) (h : a.nodes.size ≤ i) :
    a'.node i = a.node i := by
  rw [node_none h, node_none (by omega)]

/-- the parent of the hole is `EMPTY` at the top and the first context slot otherwise -/
theorem RepCtx.parent_ne {a : Arena V} {k : Ctx (Ent V)} {i p : Nat} (hsize : a.nodes.size ≤ EMPTY)
    (h : RepCtx a k i p) {s : Nat} (hs : s < a.nodes.size) (hk : s ∉ ctxSlots k) : p ≠ s := by
  cases k with
  | nil => obtain ⟨hp, _⟩ := h; omega
  | cons f k' =>
    obtain ⟨hp, _⟩ := h
    intro heq
    apply hk
    simp [ctxSlots, ← heq, hp]

/-- a represented tree is what the abstraction function of the driver computes (child links only) -/
theorem Rep.absTree {a : Arena V} (hsize : a.nodes.size ≤ EMPTY) {t : T (Ent V)} {i p : Nat}
    (hr : Rep a i p t) (fuel : Nat) (hf : t.height < fuel) : Arena.absTree fuel a i = some t := by
  induction t generalizing i p fuel with
  | leaf =>
    cases fuel with
    | zero => omega
    | succ fuel => simp only [Rep] at hr; subst hr; simp [Arena.absTree]
  | node c l s e r ihl ihr =>
    cases fuel with
    | zero => omega
    | succ fuel =>
      obtain ⟨rfl, n, h1, h2, h3, h4, h5, h6⟩ := hr
      simp only [T.height] at hf
      have hlt := node_lt h1
      have hne : (i == EMPTY) = false := by
        simp only [beq_eq_false_iff_ne, ne_eq]; omega
      simp only [Arena.absTree, hne, h1, Bool.false_eq_true, if_false, Option.bind_eq_bind, Option.bind_some]
      rw [ihl h5 fuel (by omega), ihr h6 fuel (by omega)]
      simp only [Option.bind_some, Option.pure_def, Option.some.injEq]
      cases c <;> simp [h3, h4, isRedC]

end ITree

namespace ITree
variable {V : Type}

namespace Arena

theorem modify_eq_upd {a : Arena V} {i : Nat} (f : ANode V → ANode V) (h : i < a.nodes.size) :
    a.modify i f = some (a.upd i f) := by simp [modify, h]

@[simp] theorem node_upd (a : Arena V) (i j : Nat) (f : ANode V → ANode V) :
    (a.upd i f).node j = if i = j then (a.node j).map f else a.node j := by
  simp only [upd, node, Array.getElem?_modify]

@[simp] theorem root_upd (a : Arena V) (i : Nat) (f : ANode V → ANode V) : (a.upd i f).root = a.root := rfl
@[simp] theorem unused_upd (a : Arena V) (i : Nat) (f : ANode V → ANode V) : (a.upd i f).unused = a.unused := rfl
@[simp] theorem cap_upd (a : Arena V) (i : Nat) (f : ANode V → ANode V) : (a.upd i f).cap = a.cap := rfl
@[simp] theorem dflt_upd (a : Arena V) (i : Nat) (f : ANode V → ANode V) : (a.upd i f).dflt = a.dflt := rfl
@[simp] theorem size_upd (a : Arena V) (i : Nat) (f : ANode V → ANode V) : (a.upd i f).nodes.size = a.nodes.size := by
  simp [upd]

theorem setLeft_eq {a : Arena V} {i : Nat} (v : Nat) (h : i < a.nodes.size) :
    a.setLeft i v = some (a.upd i fun n => { n with left := v }) := modify_eq_upd _ h
theorem setRight_eq {a : Arena V} {i : Nat} (v : Nat) (h : i < a.nodes.size) :
    a.setRight i v = some (a.upd i fun n => { n with right := v }) := modify_eq_upd _ h
theorem setParent_eq {a : Arena V} {i : Nat} (v : Nat) (h : i < a.nodes.size) :
    a.setParent i v = some (a.upd i fun n => { n with parent := v }) := modify_eq_upd _ h
theorem setRed_eq {a : Arena V} {i : Nat} (v : Bool) (h : i < a.nodes.size) :
    a.setRed i v = some (a.upd i fun n => { n with red := v }) := modify_eq_upd _ h
theorem setEnt_eq {a : Arena V} {i : Nat} (v : Ent V) (h : i < a.nodes.size) :
    a.setEnt i v = some (a.upd i fun n => { n with ent := v }) := modify_eq_upd _ h

/-- `modify` on an index that holds a node -/
theorem modify_of_node {a : Arena V} {i : Nat} {n : ANode V} (f : ANode V → ANode V) (h : a.node i = some n) :
    a.modify i f = some (a.upd i f) := modify_eq_upd f (node_lt h)

end Arena
end ITree
