import ITree.Lemmas.Refine
/-!
# Neighbour steps of the set: zipper climb = successor / predecessor in the in-order sequence
-/
namespace ITree
variable {ε V : Type}

theorem T.minSlot_spec (t : T ε) : t.minSlot = (t.toList.head?).map (·.1) := by
  induction t with
  | leaf => simp [T.minSlot]
  | node c l s e r ihl _ =>
    simp only [T.minSlot, ihl, T.toList_node]
    cases hl : l.toList with
    | nil => simp
    | cons x xs => simp

theorem T.maxSlot_spec (t : T ε) : t.maxSlot = (t.toList.getLast?).map (·.1) := by
  induction t with
  | leaf => simp [T.maxSlot]
  | node c l s e r _ ihr =>
    simp only [T.maxSlot, ihr, T.toList_node]
    rw [show l.toList ++ (s, e) :: r.toList = (l.toList ++ [(s, e)]) ++ r.toList by simp, List.getLast?_append]
    cases hg : r.toList.getLast? with
    | none => simp
    | some x => simp

theorem climbAfter_spec (k : Ctx ε) : climbAfter k = ((ctxRight k).head?).map (·.1) := by
  induction k with
  | nil => rfl
  | cons f k ih =>
    obtain ⟨c, s, e, sib, side⟩ := f
    cases side <;> simp [climbAfter, Frame.rights, ih]

theorem climbBefore_spec (k : Ctx ε) : climbBefore k = ((ctxLeft k).getLast?).map (·.1) := by
  induction k with
  | nil => rfl
  | cons f k ih =>
    obtain ⟨c, s, e, sib, side⟩ := f
    cases side
    · simp [climbBefore, Frame.lefts, ih]
    · simp [climbBefore, Frame.lefts, ← List.append_assoc]

/-- a list without repeated first components splits uniquely around an element with a given first component -/
theorem split_unique {α β : Type} {A A' B B' : List (α × β)} {x x' : α × β}
    (hnd : ((A ++ x :: B).map (·.1)).Nodup) (h : A ++ x :: B = A' ++ x' :: B') (hx : x.1 = x'.1) :
    A = A' ∧ x = x' ∧ B = B' := by
  induction A generalizing A' with
  | nil =>
    cases A' with
    | nil => simp only [List.nil_append, List.cons.injEq] at h; exact ⟨rfl, h.1, h.2⟩
    | cons a as =>
      simp only [List.nil_append, List.cons_append, List.cons.injEq] at h
      obtain ⟨rfl, hB⟩ := h
      simp only [List.nil_append, List.map_cons, List.nodup_cons, List.mem_map] at hnd
      exact absurd ⟨x', by rw [hB]; simp, hx.symm⟩ hnd.1
  | cons a as ih =>
    cases A' with
    | nil =>
      simp only [List.nil_append, List.cons_append, List.cons.injEq] at h
      obtain ⟨rfl, hB⟩ := h
      simp only [List.cons_append, List.map_cons, List.nodup_cons, List.mem_map] at hnd
      exact absurd ⟨x, by simp, hx⟩ hnd.1
    | cons a' as' =>
      simp only [List.cons_append, List.cons.injEq] at h
      obtain ⟨rfl, hrest⟩ := h
      simp only [List.cons_append, List.map_cons, List.nodup_cons] at hnd
      obtain ⟨h1, h2, h3⟩ := ih hnd.2 hrest
      exact ⟨by rw [h1], h2, h3⟩

/-- `index_after` / `index_before`: the handle of the next larger / next smaller entry, the empty
sentinel at the ends -/
theorem St.neighbour_spec (st : St V) (slot : Nat) (e : Ent V) (A B : List (Nat × Ent V))
    (hn : st.tree.slots.Nodup) (h : st.tree.toList = A ++ (slot, e) :: B) :
    st.indexAfter slot = some ((B.head?).map (·.1)) ∧ st.indexBefore slot = some ((A.getLast?).map (·.1)) := by
  have hmem : slot ∈ st.tree.slots := by simp [T.slots, h]
  cases hf : findSlot slot [] st.tree with
  | none => exact absurd hmem (findSlot_none slot [] st.tree hf)
  | some q =>
    obtain ⟨k, t⟩ := q
    obtain ⟨hp, c, l, e', r, rfl⟩ := findSlot_some slot [] st.tree hf
    simp only [plug_nil] at hp
    have hl : st.tree.toList = (ctxLeft k ++ l.toList) ++ (slot, e') :: (r.toList ++ ctxRight k) := by
      rw [← hp, toList_plug]; simp
    have hnd : ((A ++ (slot, e) :: B).map (·.1)).Nodup := by rw [← h]; exact hn
    obtain ⟨hA, _, hB⟩ := split_unique hnd (h.symm.trans hl) rfl
    constructor
    · simp only [St.indexAfter, hf]
      cases r with
      | leaf => simp [hB, climbAfter_spec]
      | node cr lr sr er rr =>
        simp only [T.minSlot_spec, hB]
        cases hrl : (T.node cr lr sr er rr).toList with
        | nil => simp at hrl
        | cons x xs => simp
    · simp only [St.indexBefore, hf]
      cases l with
      | leaf => simp [hA, climbBefore_spec]
      | node cl ll sl el rl =>
        simp only [T.maxSlot_spec, hA]
        have hne : (T.node cl ll sl el rl).toList ≠ [] := by simp
        rw [List.getLast?_append]
        cases hg : (T.node cl ll sl el rl).toList.getLast? with
        | none => exact absurd (List.getLast?_eq_none_iff.mp hg) hne
        | some x => simp

end ITree
