import ITree.Lemmas.MapWF
/-!
# Arena growth is bounded by the peak population
-/
namespace ITree
variable {V ε : Type}

theorem SlotsOK.count {t : T ε} {p : Pool} (h : SlotsOK t p) :
    1 + t.size + p.unused.length = p.bufLen := by
  have := h.1.length_eq
  simp only [List.length_cons, List.length_append, List.length_range, T.slots, List.length_map,
    T.length_toList] at this
  omega

theorem perm_count {slots : List Nat} {q : Pool}
    (h : (0 :: (slots ++ q.unused)).Perm (List.range q.bufLen)) :
    1 + slots.length + q.unused.length = q.bufLen := by
  have := h.length_eq
  simp only [List.length_cons, List.length_append, List.length_range] at this
  omega

theorem Pool.free_cap (p : Pool) (f : Nat) (hlen : p.unused.length + 1 ≤ p.bufLen) :
    (p.free f).cap ≤ max p.cap (max 4 (2 * p.bufLen)) ∧ (p.free f).bufLen = p.bufLen := by
  simp only [Pool.free]
  refine ⟨?_, trivial⟩
  split
  · rename_i heq
    have : p.unused.length = p.cap := by simpa using heq
    omega
  · omega

theorem Pool.freeAll_cap (fs : List Nat) : ∀ (slots : List Nat) (q : Pool) (M : Nat),
    (0 :: (slots ++ q.unused)).Perm (List.range q.bufLen) → ∀ rest, slots.Perm (fs ++ rest) →
    q.cap ≤ M → 4 ≤ M → 2 * q.bufLen ≤ M →
    (fs.foldl Pool.free q).cap ≤ M ∧ (fs.foldl Pool.free q).bufLen = q.bufLen := by
  induction fs with
  | nil => intro slots q M _ _ _ h1 _ _; exact ⟨h1, rfl⟩
  | cons g gs ih =>
    intro slots q M a rest hr h1 h2 h3
    simp only [List.foldl_cons]
    have hcnt := perm_count a
    have hsl : slots.length = (g :: gs ++ rest).length := hr.length_eq
    simp only [List.cons_append, List.length_cons] at hsl
    obtain ⟨c1, c2⟩ := Pool.free_cap q g (by omega)
    have a' : (0 :: ((gs ++ rest) ++ (q.free g).unused)).Perm (List.range (q.free g).bufLen) := by
      simp only [Pool.free]
      refine List.Perm.trans ?_ a
      refine List.Perm.cons 0 ?_
      have h1 : (gs ++ rest ++ g :: q.unused).Perm (g :: (gs ++ rest) ++ q.unused) := by
        have := @List.perm_middle _ g (gs ++ rest) q.unused
        simpa [List.append_assoc] using this
      exact h1.trans (List.Perm.append_right _ (by simpa using hr.symm))
    obtain ⟨r1, r2⟩ := ih (gs ++ rest) (q.free g) M a' rest (List.Perm.refl _) (by omega) h2 (by omega)
    exact ⟨r1, by omega⟩

/-- the growth invariant: `c0 = max c 8` is the initial size -/
structure Growth (c0 pk : Nat) (st : St V) : Prop where
  size_le : st.tree.size ≤ pk
  base : c0 ≤ st.pool.bufLen
  cap_le : st.pool.cap ≤ max c0 (2 * st.pool.bufLen)
  buf_le : st.pool.bufLen ≤ max c0 (3 * (pk + 1))

theorem Growth.mono {c0 pk pk' : Nat} {st : St V} (g : Growth c0 pk st) (h : pk ≤ pk') : Growth c0 pk' st :=
  ⟨by have := g.size_le; omega, g.base, g.cap_le, by have := g.buf_le; omega⟩

theorem Growth.insert {c0 pk : Nat} {st : St V} (e : Ent V) (hc0 : 8 ≤ c0) (h : WF st)
    (hfresh : e.key ∉ st.tree.keys) (g : Growth c0 pk st) :
    Growth c0 (max pk (st.insert e).tree.size) (st.insert e) := by
  obtain ⟨hw, L, R, slot, h1, h2, _⟩ := St.insert_spec st e h hfresh
  have hsize : (st.insert e).tree.size = st.tree.size + 1 := by
    rw [← T.length_toList, ← T.length_toList, h1, h2]; simp; omega
  have hcount := h.slots.count
  have hcount' := hw.slots.count
  obtain ⟨gs, gb, gc, gbuf⟩ := g
  cases hu : st.pool.unused with
  | cons x xs =>
    have hp : (st.insert e).pool = { st.pool with unused := xs } := by simp [St.insert, Pool.alloc, hu]
    refine ⟨by omega, by rw [hp]; exact gb, by rw [hp]; exact gc, ?_⟩
    rw [hp]; simp only; omega
  | nil =>
    have hp : (st.insert e).pool.bufLen = st.pool.bufLen + st.pool.cap ∧ (st.insert e).pool.cap = st.pool.cap := by
      simp [St.insert, Pool.alloc, hu]
    rw [hu] at hcount
    simp only [List.length_nil] at hcount
    refine ⟨by omega, by omega, by omega, ?_⟩
    rw [hp.1, hsize]
    omega

theorem Growth.free {c0 pk : Nat} {st st' : St V} {f : Nat} (hc0 : 8 ≤ c0) (h : WF st)
    (hp : st'.pool = st.pool.free f) (hs : st.tree.slots.Perm (f :: st'.tree.slots)) (g : Growth c0 pk st) :
    Growth c0 (max pk st'.tree.size) st' := by
  have hcount := h.slots.count
  have hsz : st.tree.size = st'.tree.size + 1 := by
    have := hs.length_eq
    simpa [T.slots, T.length_toList] using this
  obtain ⟨c1, c2⟩ := Pool.free_cap st.pool f (by omega)
  obtain ⟨gs, gb, gc, gbuf⟩ := g
  refine ⟨by omega, by rw [hp, c2]; exact gb, by rw [hp, c2]; omega, by rw [hp, c2]; omega⟩

end ITree
