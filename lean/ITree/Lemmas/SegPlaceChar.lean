import ITree.Lemmas.SegDefs
namespace ITree

set_option maxRecDepth 100000 in
/-- bit `n` of the place mask ⇔ place `n` is inside the range and its parent is not -/
theorem place_char : ∀ a < 32, ∀ b < 32, a ≤ b → ∀ n < 63,
    (placeMask a b).testBit n = (inside a b n && (n == 0 || !inside a b (nodeParent n))) := by
  decide +kernel


end ITree
