import ITree.Lemmas.ArenaStale
import ITree.Lemmas.Expire
/-!
# Lazy expiry on the arena (`expire_root` / `expire_left` / `expire_right`) against `expireFocus`
-/
namespace ITree
variable {V : Type}

/-- the repair keeps the innermost frame's slot and side: the hole stays the same child of the same node -/
theorem fixBlackSib_head {f : Frame (Ent V)} {fs : Ctx (Ent V)} {d : Bool} (h : fixBlackSib f = some (fs, d)) :
    ∃ f' K', fs = f' :: K' ∧ f'.s = f.s ∧ f'.side = f.side := by
  simp only [fixBlackSib] at h
  split at h
  · simp at h
  · split at h
    · simp only [Option.some.injEq, Prod.mk.injEq] at h; exact ⟨_, _, h.1.symm, rfl, rfl⟩
    · split at h
      · split at h
        · split at h
          · simp only [Option.some.injEq, Prod.mk.injEq] at h; exact ⟨_, _, h.1.symm, rfl, rfl⟩
          · simp at h
        · simp only [Option.some.injEq, Prod.mk.injEq] at h; exact ⟨_, _, h.1.symm, rfl, rfl⟩
      · split at h
        · split at h
          · simp only [Option.some.injEq, Prod.mk.injEq] at h; exact ⟨_, _, h.1.symm, rfl, rfl⟩
          · simp at h
        · simp only [Option.some.injEq, Prod.mk.injEq] at h; exact ⟨_, _, h.1.symm, rfl, rfl⟩

theorem fixFrame_head {f : Frame (Ent V)} {fs : Ctx (Ent V)} {d : Bool} (h : fixFrame f = some (fs, d)) :
    ∃ f' K', fs = f' :: K' ∧ f'.s = f.s ∧ f'.side = f.side := by
  simp only [fixFrame] at h
  split at h
  · split at h
    · rename_i hs
      cases hb : fixBlackSib ({ f with c := .red, sib := _ } : Frame (Ent V)) with
      | none => rw [hb] at h; simp at h
      | some x =>
        rw [hb] at h
        simp only [Option.map_some, Option.some.injEq, Prod.mk.injEq] at h
        obtain ⟨f', K', h1, h2, h3⟩ := fixBlackSib_head hb
        exact ⟨f', _, by rw [← h.1, h1]; rfl, h2, h3⟩
    · rename_i hs
      cases hb : fixBlackSib ({ f with c := .red, sib := _ } : Frame (Ent V)) with
      | none => rw [hb] at h; simp at h
      | some x =>
        rw [hb] at h
        simp only [Option.map_some, Option.some.injEq, Prod.mk.injEq] at h
        obtain ⟨f', K', h1, h2, h3⟩ := fixBlackSib_head hb
        exact ⟨f', _, by rw [← h.1, h1]; rfl, h2, h3⟩
  · exact fixBlackSib_head h

theorem fixUpD_head {f : Frame (Ent V)} {K k' : Ctx (Ent V)} {d d' : Bool} (h : fixUpD (f :: K) d = some (k', d')) :
    ∃ f' K', k' = f' :: K' ∧ f'.s = f.s ∧ f'.side = f.side := by
  cases d with
  | false => rw [fixUpD_false] at h; simp only [Option.some.injEq, Prod.mk.injEq] at h; exact ⟨f, K, h.1.symm, rfl, rfl⟩
  | true =>
    simp only [fixUpD] at h
    cases hf : fixFrame f with
    | none => simp [hf] at h
    | some x =>
      obtain ⟨fs, d1⟩ := x
      simp only [hf] at h
      cases hr : fixUpD K d1 with
      | none => simp [hr] at h
      | some y =>
        simp only [hr, Option.map_some, Option.some.injEq, Prod.mk.injEq] at h
        obtain ⟨f', K', h1, h2, h3⟩ := fixFrame_head hf
        exact ⟨f', K' ++ y.1, by rw [← h.1, h1]; rfl, h2, h3⟩

theorem fixUpD_nil {k' : Ctx (Ent V)} {d d' : Bool} (h : fixUpD ([] : Ctx (Ent V)) d = some (k', d')) : k' = [] := by
  cases d <;> simp [fixUpD] at h <;> exact h.1

/-- `delete_index` of the focus leaves the hole where it was -/
theorem deleteFocus_head {k k' : Ctx (Ent V)} {t t' : T (Ent V)} {freed : Nat}
    (h : deleteFocus k t = some (k', t', freed)) :
    (k = [] → k' = []) ∧ (∀ f K, k = f :: K → ∃ f' K', k' = f' :: K' ∧ f'.s = f.s ∧ f'.side = f.side) := by
  have key : ∀ d k2, fixUp k d = some k2 →
      (k = [] → k2 = []) ∧ (∀ f K, k = f :: K → ∃ f' K', k2 = f' :: K' ∧ f'.s = f.s ∧ f'.side = f.side) := by
    intro d k2 hk
    simp only [fixUp] at hk
    cases hx : fixUpD k d with
    | none => simp [hx] at hk
    | some x =>
      simp only [hx, Option.map_some, Option.some.injEq] at hk
      subst hk
      refine ⟨fun hk => by subst hk; exact fixUpD_nil hx, fun f K hk => by subst hk; exact fixUpD_head hx⟩
  cases t with
  | leaf => simp [deleteFocus] at h
  | node c l s e r =>
    cases l with
    | leaf =>
      cases r with
      | leaf =>
        cases k with
        | nil => simp only [deleteFocus, Option.some.injEq, Prod.mk.injEq] at h; exact ⟨fun _ => h.1.symm, fun f K hk => by cases hk⟩
        | cons f K =>
          simp only [deleteFocus] at h
          cases hx : fixUp (f :: K) (c == .black) with
          | none => simp [hx] at h
          | some k2 =>
            simp only [hx, Option.map_some, Option.some.injEq, Prod.mk.injEq] at h
            rw [← h.1]; exact key _ _ hx
      | node cr lr sr er rr =>
        simp only [deleteFocus] at h
        cases hx : fixUp k true with
        | none => simp [hx] at h
        | some k2 =>
          simp only [hx, Option.map_some, Option.some.injEq, Prod.mk.injEq] at h
          rw [← h.1]; exact key _ _ hx
    | node cl ll sl el rl =>
      cases r with
      | leaf =>
        simp only [deleteFocus] at h
        cases hx : fixUp k true with
        | none => simp [hx] at h
        | some k2 =>
          simp only [hx, Option.map_some, Option.some.injEq, Prod.mk.injEq] at h
          rw [← h.1]; exact key _ _ hx
      | node cr lr sr er rr =>
        simp only [deleteFocus] at h
        split at h
        · simp at h
        · split at h
          · simp at h
          · rename_i inner' d' _
            cases hx : fixUp k d' with
            | none => simp [hx] at h
            | some k2 =>
              simp only [hx, Option.map_some, Option.some.injEq, Prod.mk.injEq] at h
              rw [← h.1]; exact key _ _ hx

end ITree

namespace ITree
variable {V : Type}

/-- the link `via` is the hole of the context -/
def ViaOK (via : Arena.Via) : Ctx (Ent V) → Prop
  | [] => via = .root
  | f :: _ => match f.side with
    | .L => via = .left f.s
    | .R => via = .right f.s

theorem readVia_rep {a : Arena V} {k : Ctx (Ent V)} {i p : Nat} {via : Arena.Via}
    (hc : RepCtx a k i p) (hv : ViaOK via k) : a.readVia via = some i := by
  cases k with
  | nil => obtain ⟨_, hroot⟩ := hc; simp only [ViaOK] at hv; subst hv; simp [Arena.readVia, hroot]
  | cons f K =>
    obtain ⟨_, n, hn, _, _, hside, _⟩ := hc
    simp only [ViaOK] at hv
    cases hs : f.side with
    | L => simp only [hs] at hv hside; subst hv; simp [Arena.readVia, hn, hside.1]
    | R => simp only [hs] at hv hside; subst hv; simp [Arena.readVia, hn, hside.1]

theorem ViaOK.of_head {via : Arena.Via} {k k' : Ctx (Ent V)} (hv : ViaOK via k)
    (h : (k = [] → k' = []) ∧ (∀ f K, k = f :: K → ∃ f' K', k' = f' :: K' ∧ f'.s = f.s ∧ f'.side = f.side)) :
    ViaOK via k' := by
  cases k with
  | nil => rw [h.1 rfl]; exact hv
  | cons f K =>
    obtain ⟨f', K', rfl, hs, hside⟩ := h.2 f K rfl
    simp only [ViaOK] at hv ⊢
    rw [hs, hside]; exact hv

/-- **`expire_root` / `expire_left` / `expire_right`** on the arena are `expireFocus` -/
theorem expireVia_rep (time : Int) : ∀ (m : Nat) (a : Arena V) (k : Ctx (Ent V)) (t : T (Ent V)) (pool : Pool)
    (tr : List (Ev V)) (via : Arena.Via) {k' : Ctx (Ent V)} {t' : T (Ent V)} {pool' : Pool} {tr' : List (Ev V)},
    a.nodes.size ≤ EMPTY → RepStG a ⟨plug k t, pool⟩ → WF (⟨plug k t, pool⟩ : St V) → ViaOK via k →
    expireFocus time m k t pool tr = some (k', t', pool', tr') →
    ∀ fuel, m ≤ fuel →
    ∃ a', Arena.expireVia time fuel a via = some (t'.rootIdx, a') ∧ RepStG a' ⟨plug k' t', pool'⟩ ∧
      WF (⟨plug k' t', pool'⟩ : St V) ∧ ViaOK via k' ∧ a'.nodes.size = a.nodes.size ∧ a'.dflt = a.dflt := by
  intro m
  induction m with
  | zero => intro a k t pool tr via k' t' pool' tr' _ _ _ _ h; simp [expireFocus] at h
  | succ m ih =>
    intro a k t pool tr via k' t' pool' tr' hsize hrep hw hv h fuel hfuel
    obtain ⟨fuel, rfl⟩ : ∃ f0, fuel = f0 + 1 := ⟨fuel - 1, by omega⟩
    obtain ⟨i, p, hc, hr⟩ := Rep.unplug k t hrep.rep.tree
    have hread := readVia_rep hc hv
    cases t with
    | leaf =>
      simp only [expireFocus, Option.some.injEq, Prod.mk.injEq] at h
      obtain ⟨rfl, rfl, rfl, rfl⟩ := h
      have hi : i = EMPTY := hr
      refine ⟨a, ?_, hrep, hw, hv, rfl, rfl⟩
      simp [Arena.expireVia, hread, hi, T.rootIdx]
    | node c l s e r =>
      have hr0 := hr
      obtain ⟨rfl, n, hn, _, _, hne, _, _⟩ := hr0
      have hlt := node_lt hn
      have hie : (i == EMPTY) = false := by simp; omega
      simp only [expireFocus] at h
      by_cases hl : time < e.exp
      · simp only [hl, if_true, Option.some.injEq, Prod.mk.injEq] at h
        obtain ⟨rfl, rfl, rfl, _⟩ := h
        refine ⟨a, ?_, hrep, hw, hv, rfl, rfl⟩
        have hine : i ≠ EMPTY := by omega
        simp [Arena.expireVia, hread, hine, hn, hne, hl, T.rootIdx]
      · simp only [hl, if_false] at h
        cases hd : deleteFocus k (T.node c l i e r) with
        | none => simp [hd] at h
        | some x =>
        obtain ⟨k1, t1, freed⟩ := x
        simp only [hd] at h
        obtain ⟨k1', t1', f', hd', hw1, _⟩ := deleteFocus_full k hw
        rw [hd] at hd'
        simp only [Option.some.injEq, Prod.mk.injEq] at hd'
        obtain ⟨rfl, rfl, rfl⟩ := hd'
        have hdel : (⟨plug k (T.node c l i e r), pool⟩ : St V).deleteAt k (T.node c l i e r) =
            some ⟨plug k1 t1, pool.free freed⟩ := by simp [St.deleteAt, hd]
        obtain ⟨a1, h1, hrep1, hs1, hd1⟩ := deleteAt_repG hrep hw hsize rfl hc hr hdel
        obtain ⟨a', h2, hrep2, hw2, hv2, hs2, hd2⟩ := ih a1 k1 t1 _ _ via (by rw [hs1]; exact hsize) hrep1 hw1
          (hv.of_head (deleteFocus_head hd)) h fuel (by omega)
        refine ⟨a', ?_, hrep2, hw2, hv2, by rw [hs2, hs1], by rw [hd2, hd1]⟩
        simp only [Arena.expireVia, hread, Option.bind_eq_bind, Option.bind_some, hie, Bool.false_eq_true, if_false, hn, hne,
          hl, h1]
        exact h2

end ITree

namespace ITree
variable {V : Type}

theorem size_plug' (k : Ctx (Ent V)) (t : T (Ent V)) : t.size ≤ (plug k t).size := by
  rw [← T.length_toList, ← T.length_toList (plug k t), toList_plug]; simp; omega

/-- the tree fits into the arena -/
theorem RepSt.size_le {a : Arena V} {st : St V} (h : RepSt a st) (hs : SlotsOK st.tree st.pool) :
    st.tree.size ≤ a.nodes.size := by
  obtain ⟨_, _, hnd, hlt, _⟩ := SlotsOK.arena h hs
  have := nodup_lt_length _ _ hnd hlt
  simpa [T.slots, T.length_toList] using this

/-- **the three searches of the expiring tree** (`first_less`, `first_less_or_equal(_by)`, `get_value`) with
their lazy removals on the way -/
theorem kSearch_rep (mode : Mode) (time : Int) (f : Int → Ordering) : ∀ (m : Nat) (a : Arena V) (k : Ctx (Ent V))
    (t : T (Ent V)) (pool : Pool) (res : Option V) (tr : List (Ev V)) {T' : T (Ent V)} {pool' : Pool}
    {r : Option V} {tr' : List (Ev V)},
    a.nodes.size ≤ EMPTY → RepStG a ⟨plug k t, pool⟩ → WF (⟨plug k t, pool⟩ : St V) →
    search mode time f m k t pool res tr = some (T', pool', r, tr') →
    ∀ fuel, m ≤ fuel →
    ∃ a', Arena.kSearch mode time f fuel a t.rootIdx res = some (a', r) ∧ RepStG a' ⟨T', pool'⟩ ∧
      WF (⟨T', pool'⟩ : St V) ∧ a'.nodes.size = a.nodes.size ∧ a'.dflt = a.dflt := by
  intro m
  induction m with
  | zero => intro a k t pool res tr T' pool' r tr' _ _ _ h; simp [search] at h
  | succ m ih =>
    intro a k t pool res tr T' pool' r tr' hsize hrep hw h fuel hfuel
    obtain ⟨fuel, rfl⟩ : ∃ f0, fuel = f0 + 1 := ⟨fuel - 1, by omega⟩
    cases t with
    | leaf =>
      simp only [search, Option.some.injEq, Prod.mk.injEq] at h
      obtain ⟨rfl, rfl, rfl, _⟩ := h
      exact ⟨a, by simp [Arena.kSearch, T.rootIdx], hrep, hw, rfl, rfl⟩
    | node c l s e r0 =>
      obtain ⟨i, p, hc, hr⟩ := Rep.unplug k _ hrep.rep.tree
      have hr' := hr
      obtain ⟨rfl, n, hn, _, _, hne, _, _⟩ := hr'
      have hlt := node_lt hn
      have hie : (i == EMPTY) = false := by simp; omega
      have hsz : (plug k (T.node c l i e r0)).size ≤ a.nodes.size := hrep.rep.size_le hw.slots
      have hsz2 := size_plug' k (T.node c l i e r0)
      simp only [T.size_node] at hsz2
      -- the two continuations
      have goL : ∀ res', (match expireFocus time (l.size + 1) (⟨c, i, e, r0, .L⟩ :: k) l pool
              (⟨.cmp, e, k, T.node c l i e r0, pool⟩ :: tr) with
            | none => none
            | some (k', t', p', tr') => search mode time f m k' t' p' res' tr') = some (T', pool', r, tr') →
          ∃ a', ((Arena.expireVia time (a.nodes.size + 1) a (.left i)).bind fun x =>
              Arena.kSearch mode time f fuel x.2 x.1 res') = some (a', r) ∧ RepStG a' ⟨T', pool'⟩ ∧
            WF (⟨T', pool'⟩ : St V) ∧ a'.nodes.size = a.nodes.size ∧ a'.dflt = a.dflt := by
        intro res' hx
        cases he : expireFocus time (l.size + 1) (⟨c, i, e, r0, .L⟩ :: k) l pool
            (⟨.cmp, e, k, T.node c l i e r0, pool⟩ :: tr) with
        | none => simp [he] at hx
        | some y =>
          obtain ⟨k1, t1, p1, tr1⟩ := y
          simp only [he] at hx
          obtain ⟨a1, h1, hrep1, hw1, _, hs1, hd1⟩ := expireVia_rep time _ a _ l pool _ (.left i) hsize
            (by simpa [Frame.fill] using hrep) (by simpa [Frame.fill] using hw) (by simp [ViaOK]) he
            (a.nodes.size + 1) (by omega)
          obtain ⟨a2, h2, hrep2, hw2, hs2, hd2⟩ := ih a1 k1 t1 p1 res' tr1 (by rw [hs1]; exact hsize) hrep1 hw1 hx
            fuel (by omega)
          exact ⟨a2, by simp only [h1, Option.bind_some]; exact h2, hrep2, hw2, by rw [hs2, hs1], by rw [hd2, hd1]⟩
      have goR : ∀ res', (match expireFocus time (r0.size + 1) (⟨c, i, e, l, .R⟩ :: k) r0 pool
              (⟨.cmp, e, k, T.node c l i e r0, pool⟩ :: tr) with
            | none => none
            | some (k', t', p', tr') => search mode time f m k' t' p' res' tr') = some (T', pool', r, tr') →
          ∃ a', ((Arena.expireVia time (a.nodes.size + 1) a (.right i)).bind fun x =>
              Arena.kSearch mode time f fuel x.2 x.1 res') = some (a', r) ∧ RepStG a' ⟨T', pool'⟩ ∧
            WF (⟨T', pool'⟩ : St V) ∧ a'.nodes.size = a.nodes.size ∧ a'.dflt = a.dflt := by
        intro res' hx
        cases he : expireFocus time (r0.size + 1) (⟨c, i, e, l, .R⟩ :: k) r0 pool
            (⟨.cmp, e, k, T.node c l i e r0, pool⟩ :: tr) with
        | none => simp [he] at hx
        | some y =>
          obtain ⟨k1, t1, p1, tr1⟩ := y
          simp only [he] at hx
          obtain ⟨a1, h1, hrep1, hw1, _, hs1, hd1⟩ := expireVia_rep time _ a _ r0 pool _ (.right i) hsize
            (by simpa [Frame.fill] using hrep) (by simpa [Frame.fill] using hw) (by simp [ViaOK]) he
            (a.nodes.size + 1) (by omega)
          obtain ⟨a2, h2, hrep2, hw2, hs2, hd2⟩ := ih a1 k1 t1 p1 res' tr1 (by rw [hs1]; exact hsize) hrep1 hw1 hx
            fuel (by omega)
          exact ⟨a2, by simp only [h1, Option.bind_some]; exact h2, hrep2, hw2, by rw [hs2, hs1], by rw [hd2, hd1]⟩
      simp only [search] at h
      simp only [Arena.kSearch, T.rootIdx, hie, Bool.false_eq_true, if_false, hn, Option.bind_eq_bind, Option.bind_some, hne]
      cases hfe : f e.key with
      | eq =>
        simp only [hfe] at h ⊢
        cases mode with
        | fl => exact goL res h
        | fle =>
          simp only [Option.some.injEq, Prod.mk.injEq] at h
          obtain ⟨rfl, rfl, rfl, _⟩ := h
          exact ⟨a, rfl, hrep, hw, rfl, rfl⟩
        | get =>
          simp only [Option.some.injEq, Prod.mk.injEq] at h
          obtain ⟨rfl, rfl, rfl, _⟩ := h
          exact ⟨a, rfl, hrep, hw, rfl, rfl⟩
      | lt => simp only [hfe] at h ⊢; exact goR _ h
      | gt => simp only [hfe] at h ⊢; exact goL res h

end ITree

namespace ITree
variable {V : Type}

/-- **`first_less` / `first_less_or_equal(_by)` / `get_value`** of the expiring tree -/
theorem kQuery_rep {a : Arena V} {st st' : St V} (h : RepStG a st) (hw : WF st) (hsize : a.nodes.size ≤ EMPTY)
    (mode : Mode) (time : Int) (f : Int → Ordering) {r : Option V} {tr : List (Ev V)}
    (hm : st.kQuery mode time f = some (st', r, tr)) :
    ∃ a', a.kQuery mode time f = some (a', r) ∧ RepStG a' st' ∧ WF st' ∧ a'.nodes.size = a.nodes.size := by
  simp only [St.kQuery] at hm
  cases he : expireFocus time (st.tree.size + 1) [] st.tree st.pool [] with
  | none => simp [he] at hm
  | some x =>
    obtain ⟨k, t, p, tr1⟩ := x
    simp only [he] at hm
    cases hs : search mode time f (t.size + 1) k t p none tr1 with
    | none => simp [hs] at hm
    | some y =>
      obtain ⟨t', p', r', tr'⟩ := y
      simp only [hs, Option.some.injEq, Prod.mk.injEq] at hm
      obtain ⟨rfl, rfl, rfl⟩ := hm
      have hsz := h.rep.size_le hw.slots
      obtain ⟨a1, h1, hrep1, hw1, _, hs1, _⟩ := expireVia_rep time _ a [] st.tree st.pool [] .root hsize
        (by simpa using h) (by simpa using hw) rfl he (a.nodes.size + 1) (by omega)
      have hsz1 : (plug k t).size ≤ a1.nodes.size := hrep1.rep.size_le hw1.slots
      have := size_plug' k t
      obtain ⟨a2, h2, hrep2, hw2, hs2, _⟩ := kSearch_rep mode time f _ a1 k t p none tr1 (by rw [hs1]; exact hsize)
        hrep1 hw1 hs (a1.nodes.size + 1) (by omega)
      refine ⟨a2, ?_, hrep2, hw2, by rw [hs2, hs1]⟩
      simp only [Arena.kQuery, h1, Option.bind_eq_bind, Option.bind_some]
      exact h2

/-- `put_back` can grow the growth increment, but only up to twice the arena -/
theorem free_cap_bound {t : T (Ent V)} {p : Pool} (hs : SlotsOK t p) (f : Nat) :
    (p.free f).cap ≤ max p.cap (2 * p.bufLen + 4) ∧ (p.free f).bufLen = p.bufLen := by
  obtain ⟨hperm, hlen, _⟩ := hs
  have hl := hperm.length_eq
  simp only [List.length_cons, List.length_append, List.length_range] at hl
  simp only [Pool.free]
  refine ⟨?_, trivial⟩
  split
  · rename_i hc
    have : p.unused.length = p.cap := by simpa using hc
    omega
  · omega

theorem expireFocus_cap (time : Int) : ∀ (m : Nat) (k : Ctx (Ent V)) (t : T (Ent V)) (pool : Pool) (tr : List (Ev V))
    {k' : Ctx (Ent V)} {t' : T (Ent V)} {pool' : Pool} {tr' : List (Ev V)},
    WF (⟨plug k t, pool⟩ : St V) → expireFocus time m k t pool tr = some (k', t', pool', tr') →
    pool'.cap ≤ max pool.cap (2 * pool.bufLen + 4) ∧ pool'.bufLen = pool.bufLen := by
  intro m
  induction m with
  | zero => intro k t pool tr k' t' pool' tr' _ h; simp [expireFocus] at h
  | succ m ih =>
    intro k t pool tr k' t' pool' tr' hw h
    cases t with
    | leaf =>
      simp only [expireFocus, Option.some.injEq, Prod.mk.injEq] at h
      obtain ⟨_, _, rfl, _⟩ := h
      exact ⟨by omega, rfl⟩
    | node c l s e r =>
      simp only [expireFocus] at h
      by_cases hl : time < e.exp
      · simp only [hl, if_true, Option.some.injEq, Prod.mk.injEq] at h
        obtain ⟨_, _, rfl, _⟩ := h
        exact ⟨by omega, rfl⟩
      · simp only [hl, if_false] at h
        obtain ⟨k1, t1, f1, hd, hw1, _⟩ := deleteFocus_full k hw
        simp only [hd] at h
        obtain ⟨h1, h2⟩ := ih k1 t1 _ _ hw1 h
        obtain ⟨h3, h4⟩ := free_cap_bound hw.slots f1
        simp only at h3 h4
        rw [h4] at h1 h2
        exact ⟨by omega, h2⟩

end ITree

namespace ITree
variable {V : Type}

/-- the descent of the expiring tree's `insert_entity`, with the lazy removals on the way -/
theorem kInsertLoop_rep (time : Int) (e : Ent V) : ∀ (m : Nat) (a : Arena V) (k : Ctx (Ent V)) (t : T (Ent V))
    (pool : Pool) (tr : List (Ev V)) {T' : T (Ent V)} {pool' : Pool} {tr' : List (Ev V)},
    a.nodes.size + max a.cap (2 * a.nodes.size + 4) ≤ EMPTY → t ≠ .leaf →
    RepStG a ⟨plug k t, pool⟩ → WF (⟨plug k t, pool⟩ : St V) →
    insDescend time e m k t pool tr = some (T', pool', tr') →
    ∀ fuel, m ≤ fuel →
    ∃ a', Arena.kInsertLoop time e fuel a t.rootIdx = some a' ∧ RepStG a' ⟨T', pool'⟩ := by
  intro m
  induction m with
  | zero => intro a k t pool tr T' pool' tr' _ _ _ _ h; simp [insDescend] at h
  | succ m ih =>
    intro a k t pool tr T' pool' tr' hB hnl hrep hw h fuel hfuel
    obtain ⟨fuel, rfl⟩ : ∃ f0, fuel = f0 + 1 := ⟨fuel - 1, by omega⟩
    cases t with
    | leaf => exact absurd rfl hnl
    | node c l s x r0 =>
      have hsize : a.nodes.size ≤ EMPTY := by omega
      obtain ⟨i, p, hc, hr⟩ := Rep.unplug k _ hrep.rep.tree
      have hr' := hr
      obtain ⟨rfl, n, hn, _, _, hne, _, _⟩ := hr'
      have hsz : (plug k (T.node c l i x r0)).size ≤ a.nodes.size := hrep.rep.size_le hw.slots
      have hsz2 := size_plug' k (T.node c l i x r0)
      simp only [T.size_node] at hsz2
      -- one step: the chosen side, purged, then either the attach point or the next node
      have step : ∀ (side : Side) (sub : T (Ent V)) (f0 : Frame (Ent V)) (via : Arena.Via),
          f0 = ⟨c, i, x, (match side with | .L => r0 | .R => l), side⟩ →
          plug (f0 :: k) sub = plug k (T.node c l i x r0) → ViaOK via (f0 :: k) → sub.size < a.nodes.size + 1 →
          (match side with | .L => via = .left i | .R => via = .right i) →
          (match expireFocus time (sub.size + 1) (f0 :: k) sub pool (⟨.cmp, x, k, T.node c l i x r0, pool⟩ :: tr) with
            | none => none
            | some (k', t', p', tr') => insDescend time e m k' t' p' tr') = some (T', pool', tr') →
          ∃ a', ((Arena.expireVia time (a.nodes.size + 1) a via).bind fun y =>
              if y.1 == EMPTY then y.2.insertAs e i (side == Side.L) else Arena.kInsertLoop time e fuel y.2 y.1) = some a' ∧
            RepStG a' ⟨T', pool'⟩ := by
        intro side sub f0 via hf0 hplug hv hsub hvia hx
        cases he : expireFocus time (sub.size + 1) (f0 :: k) sub pool (⟨.cmp, x, k, T.node c l i x r0, pool⟩ :: tr) with
        | none => simp [he] at hx
        | some y =>
          obtain ⟨k1, t1, p1, tr1⟩ := y
          simp only [he] at hx
          have hw0 : WF (⟨plug (f0 :: k) sub, pool⟩ : St V) := by rw [hplug]; exact hw
          obtain ⟨a1, h1, hrep1, hw1, hv1, hs1, hd1⟩ := expireVia_rep time _ a _ sub pool _ via hsize
            (by rw [hplug]; exact hrep) hw0 hv he (a.nodes.size + 1) (by omega)
          obtain ⟨hcap, hbl⟩ := expireFocus_cap time _ _ _ _ _ hw0 he
          have hp0 : pool = poolOf a := hrep.rep.pool
          have hp1 : p1 = poolOf a1 := hrep1.rep.pool
          have hcap1 : a1.cap ≤ max a.cap (2 * a.nodes.size + 4) := by
            have : p1.cap = a1.cap := by rw [hp1]; rfl
            have h2 : pool.cap = a.cap := by rw [hp0]; rfl
            have h3 : pool.bufLen = a.nodes.size := by rw [hp0]; rfl
            omega
          simp only [h1, Option.bind_some]
          cases t1 with
          | leaf =>
            simp only [T.rootIdx, beq_self_eq_true, if_true]
            obtain ⟨m', rfl⟩ : ∃ m', m = m' + 1 := by
              cases m with
              | zero => simp [insDescend] at hx
              | succ m' => exact ⟨m', rfl⟩
            simp only [insDescend, Option.some.injEq, Prod.mk.injEq] at hx
            obtain ⟨rfl, rfl, _⟩ := hx
            -- the attach point
            cases k1 with
            | nil => cases side <;> simp [ViaOK] at hv1 <;> simp_all
            | cons f' K' =>
              obtain ⟨j, q, hcj, hrj⟩ := Rep.unplug (f' :: K') .leaf hrep1.rep.tree
              have hj : j = EMPTY := hrj
              subst hj
              have hq : q = f'.s := hcj.1
              subst hq
              obtain ⟨hcap', hfree, hnd, hlt, hfresh⟩ := SlotsOK.arena hrep1.rep hw1.slots
              have hperm := slots_plug (f' :: K') (.leaf : T (Ent V))
              simp only [T.slots_leaf, List.nil_append] at hperm
              have hside' : f'.side = side ∧ f'.s = i := by
                simp only [ViaOK] at hv1
                cases hs' : f'.side <;> cases side <;> simp_all
              obtain ⟨a', h2, h3, h4, h5, _, h7⟩ := insertAs_rep (f := f') (k := K') e (by rw [hs1]; omega) hcap' hfree hcj
                (hperm.nodup_iff.mp hnd) (fun hm => hfresh (hperm.mem_iff.mpr hm))
              rw [hside'.2, hside'.1] at h2
              have hrep' : RepSt a' ⟨linkNew (f' :: K') p1.alloc.1 e, p1.alloc.2⟩ := by
                refine ⟨?_, ?_⟩
                · rw [hp1]; exact h3
                · rw [hp1, h4]
              refine ⟨a', h2, ?_⟩
              obtain ⟨h0, h0s⟩ := SlotsOK.zero hrep1.rep hw1.slots
              obtain ⟨al1, al2, _, _, _, al6⟩ := Pool.alloc_spec hw1.slots
              have hpl := linkNew_slots_perm (f' :: K') p1.alloc.1 e
              have hgrow : a1.nodes.size ≤ a'.nodes.size := by
                have e1 : (poolOf a').bufLen = a'.nodes.size := rfl
                have e2 : (poolOf a1).bufLen = a1.nodes.size := rfl
                rw [h4, ← hp1] at e1
                rw [← hp1] at e2
                rw [← e1, ← e2]; exact al6
              refine RepStG.of_grow hrep1 hrep' hgrow h5 h0 (fun s hs => hpl.mem_iff.mpr (List.mem_cons_of_mem _ hs)) ?_ ?_
              · intro j hj
                refine h7 j ?_
                rw [← hp1]
                intro hm
                apply hj
                refine hpl.mem_iff.mpr ?_
                simp only [List.mem_cons] at hm ⊢
                rcases hm with hm | hm
                · exact Or.inl hm
                · exact Or.inr (hperm.mem_iff.mpr hm)
              · intro hm
                have := hpl.mem_iff.mp hm
                simp only [List.mem_cons] at this
                rcases this with h' | h'
                · exact al2 h'.symm
                · exact h0s h'
          | node c1 l1 s1 x1 r1 =>
            have hs1lt : s1 < a1.nodes.size := by
              obtain ⟨j, q, _, hrj⟩ := Rep.unplug k1 _ hrep1.rep.tree
              exact node_lt hrj.2.choose_spec.1
            have hne1 : (s1 == EMPTY) = false := by simp; omega
            simp only [T.rootIdx, hne1, Bool.false_eq_true, if_false]
            exact ih a1 k1 _ p1 tr1 (by rw [hs1]; omega) (by simp) hrep1 hw1 hx fuel (by omega)
      simp only [insDescend] at h
      simp only [Arena.kInsertLoop, T.rootIdx, hn, Option.bind_eq_bind, Option.bind_some, hne]
      by_cases hlt : e.key < x.key
      · simp only [hlt, if_true] at h ⊢
        have := step .L l ⟨c, i, x, r0, .L⟩ (.left i) rfl (by simp [Frame.fill]) (by simp [ViaOK]) (by omega) rfl h
        simpa using this
      · simp only [hlt, if_false] at h ⊢
        have := step .R r0 ⟨c, i, x, l, .R⟩ (.right i) rfl (by simp [Frame.fill]) (by simp [ViaOK]) (by omega) rfl h
        have hRL : (Side.R == Side.L) = false := rfl
        simpa [hRL] using this

end ITree

namespace ITree
variable {V : Type}

/-- **`insert(key, val, time)` of the expiring tree** -/
theorem kInsert_rep {a : Arena V} {st st' : St V} (h : RepStG a st) (hw : WF st)
    (hB : a.nodes.size + max a.cap (2 * a.nodes.size + 4) ≤ EMPTY) (e : Ent V) (time : Int) {tr : List (Ev V)}
    (hm : st.kInsert e time = some (st', tr)) :
    ∃ a', a.kInsert e time = some a' ∧ RepStG a' st' := by
  have hsize : a.nodes.size ≤ EMPTY := by omega
  simp only [St.kInsert] at hm
  cases he : expireFocus time (st.tree.size + 1) [] st.tree st.pool [⟨.exp, e, [], st.tree, st.pool⟩] with
  | none => simp [he] at hm
  | some x =>
    obtain ⟨k, t, p, tr1⟩ := x
    simp only [he] at hm
    cases hi : insDescend time e (t.size + 1) k t p tr1 with
    | none => simp [hi] at hm
    | some y =>
      obtain ⟨t', p', tr'⟩ := y
      simp only [hi, Option.some.injEq, Prod.mk.injEq] at hm
      obtain ⟨rfl, _⟩ := hm
      have hsz := h.rep.size_le hw.slots
      have hw0 : WF (⟨plug [] st.tree, st.pool⟩ : St V) := by simpa using hw
      obtain ⟨a1, h1, hrep1, hw1, hv1, hs1, _⟩ := expireVia_rep time _ a [] st.tree st.pool _ .root hsize
        (by simpa using h) hw0 rfl he (a.nodes.size + 1) (by omega)
      obtain ⟨hcap, hbl⟩ := expireFocus_cap time _ _ _ _ _ hw0 he
      have hp0 : st.pool = poolOf a := h.rep.pool
      have hp1 : p = poolOf a1 := hrep1.rep.pool
      have hcap1 : a1.cap ≤ max a.cap (2 * a.nodes.size + 4) := by
        have : p.cap = a1.cap := by rw [hp1]; rfl
        have h2 : st.pool.cap = a.cap := by rw [hp0]; rfl
        have h3 : st.pool.bufLen = a.nodes.size := by rw [hp0]; rfl
        omega
      simp only [Arena.kInsert, h1, Option.bind_eq_bind, Option.bind_some]
      have hk : k = [] := by
        cases k with
        | nil => rfl
        | cons f K => simp only [ViaOK] at hv1; cases hs' : f.side <;> simp [hs'] at hv1
      subst hk
      cases t with
      | leaf =>
        simp only [T.rootIdx, beq_self_eq_true, if_true]
        simp only [insDescend, T.size, Option.some.injEq, Prod.mk.injEq] at hi
        obtain ⟨rfl, rfl, _⟩ := hi
        have hroot : a1.root = EMPTY := by
          have := hrep1.rep.tree
          simp only [plug_nil] at this
          exact this
        obtain ⟨a', h2, h3, _, _⟩ := insert_repG e hrep1 hw1 (by rw [hs1]; omega)
        refine ⟨a', ?_, ?_⟩
        · simpa [Arena.insert, hroot] using h2
        · simpa [St.insert, descendIns] using h3
      | node c l s x r =>
        have hslt : s < a1.nodes.size := by
          have := hrep1.rep.tree
          simp only [plug_nil] at this
          exact node_lt this.2.choose_spec.1
        have hne : (s == EMPTY) = false := by simp; omega
        simp only [T.rootIdx, hne, Bool.false_eq_true, if_false]
        have hsz1 : (plug [] (T.node c l s x r)).size ≤ a1.nodes.size := hrep1.rep.size_le hw1.slots
        simp only [plug_nil] at hsz1
        exact kInsertLoop_rep time e _ a1 [] _ p tr1 (by rw [hs1]; omega) (by simp) hrep1 hw1 hi (a1.nodes.size + 1)
          (by omega)

end ITree
