import ITree.Lemmas.KExport
import ITree.Model.Lists
/-!
# Sorted-vector variants: the binary-search contract on a sorted list, refinement to the same specs
-/
namespace ITree
variable {V : Type}

/-- linear-scan contract of `binary_search_by`: split at the first element not answering `Less` -/
theorem bsearch_split (f : Ent V → Ordering) (l : List (Ent V)) (i : Nat) :
    ∃ A B, l = A ++ B ∧ (∀ x ∈ A, f x = .lt) ∧ (∀ b bs, B = b :: bs → f b ≠ .lt) ∧
      bsearch f l i = match B with
        | [] => .error (i + A.length)
        | b :: _ => if f b = .eq then .ok (i + A.length) else .error (i + A.length) := by
  induction l generalizing i with
  | nil => exact ⟨[], [], rfl, by simp, by simp, by simp [bsearch]⟩
  | cons e es ih =>
    cases hfe : f e with
    | lt =>
      obtain ⟨A, B, h1, h2, h3, h4⟩ := ih (i + 1)
      refine ⟨e :: A, B, by simp [h1], ?_, h3, ?_⟩
      · intro x hx
        rcases List.mem_cons.mp hx with rfl | hx
        · exact hfe
        · exact h2 x hx
      · simp only [bsearch, hfe, h4, List.length_cons]
        cases B with
        | nil => simp; omega
        | cons b bs => simp only; split <;> simp <;> omega
    | eq => exact ⟨[], e :: es, rfl, by simp, by intro b bs h; cases h; simp [hfe], by simp [bsearch, hfe]⟩
    | gt => exact ⟨[], e :: es, rfl, by simp, by intro b bs h; cases h; simp [hfe], by simp [bsearch, hfe]⟩

/-- strictly increasing keys -/
def SortedE (l : List (Ent V)) : Prop := (l.map (·.key)).Pairwise (· < ·)

theorem SortedE.mono_compare {l : List (Ent V)} (h : SortedE l) (key : Int) :
    MonoE (fun k => compare k key) l := monoOn_compare key _ h

/-- the shape of a list on which the comparator is monotone, around the split of `bsearch` -/
theorem mono_tail_gt {f : Int → Ordering} {A : List (Ent V)} {b : Ent V} {bs : List (Ent V)}
    (hm : MonoE f (A ++ b :: bs)) (hb : f b.key ≠ .lt) : ∀ x ∈ bs, f x.key = .gt :=
  (MonoE.split hm).2 hb

/-! ### `KeyExpList` -/

/-- invariant of `KeyExpList`: the cached earliest expiration is a lower bound -/
def KL.Inv (s : KL V) : Prop := ∀ e ∈ s.buf, s.minExp ≤ e.exp

theorem KL.Inv.clearExpired {s : KL V} (h : s.Inv) (t : Int) :
    (s.clearExpired t).buf = live t s.buf ∧ (s.clearExpired t).Inv ∧ (s.clearExpired t).maxE = s.maxE := by
  simp only [KL.clearExpired]
  split
  · rename_i hlt
    have hall : ∀ e ∈ s.buf, t < e.exp := fun e he => by have := h e he; omega
    exact ⟨(live_eq_self hall).symm, h, rfl⟩
  · refine ⟨rfl, ?_, rfl⟩
    intro e he
    simp only at he ⊢
    have : ∀ (l : List (Ent V)) (m : Int), (∀ e ∈ l, l.foldl (fun m e => min m e.exp) m ≤ e.exp) ∧
        l.foldl (fun m e => min m e.exp) m ≤ m := by
      intro l
      induction l with
      | nil => intro m; simp
      | cons x xs ih =>
        intro m
        obtain ⟨h1, h2⟩ := ih (min m x.exp)
        refine ⟨?_, by simp only [List.foldl_cons]; omega⟩
        intro e he
        simp only [List.foldl_cons]
        rcases List.mem_cons.mp he with rfl | he
        · omega
        · exact h1 e he
    exact (this _ s.maxE).1 e he

/-- result of the three searches on a sorted live buffer = the reference answer -/
theorem klist_answer (mode : Mode) (f : Int → Ordering) (buf : List (Ent V)) (hm : MonoE f buf) :
    (match mode, bsearch (fun x => f x.key) buf 0 with
      | .get, .ok i => (buf[i]?).map (·.val)
      | .get, .error _ => none
      | .fle, .ok i => (buf[i]?).map (·.val)
      | .fle, .error i => if i > 0 then (buf[i-1]?).map (·.val) else none
      | .fl, .ok i => if i > 0 then (buf[i-1]?).map (·.val) else none
      | .fl, .error i => if i > 0 then (buf[i-1]?).map (·.val) else none) = specPred mode f buf := by
  obtain ⟨A, B, h1, h2, h3, h4⟩ := bsearch_split (fun x => f x.key) buf 0
  subst h1
  have hAlt : ∀ x ∈ A, (f x.key == .lt) = true := by intro x hx; simp [h2 x hx]
  have hAng : ∀ x ∈ A, (f x.key != .gt) = true := by intro x hx; simp [h2 x hx]
  have hAne : ∀ x ∈ A, (f x.key == .eq) = false := by intro x hx; simp [h2 x hx]
  -- element just before the split
  have hprev : (if A.length > 0 then ((A ++ B)[A.length - 1]?).map (·.val) else none) = (A.getLast?).map (·.val) := by
    cases hA : A.getLast? with
    | none => have : A = [] := List.getLast?_eq_none_iff.mp hA; subst this; simp
    | some x =>
      have hne : A ≠ [] := by intro h0; subst h0; simp at hA
      have hpos : A.length > 0 := List.length_pos_iff.mpr hne
      simp only [hpos, if_true]
      rw [List.getElem?_append_left (by omega)]
      rw [List.getLast?_eq_getElem?] at hA
      rw [hA]
  rw [h4]
  cases B with
  | nil =>
    simp only [Nat.zero_add, List.append_nil] at hprev ⊢
    cases mode with
    | fl => simp only [specPred, filter_all hAlt]; exact hprev
    | fle => simp only [specPred, filter_all hAng]; exact hprev
    | get =>
      simp only [specPred]
      have : A.find? (fun e => f e.key == .eq) = none := by
        rw [List.find?_eq_none]; intro x hx; simp [h2 x hx]
      simp [this]
  | cons b bs =>
    have hbne := h3 b bs rfl
    have hbs := mono_tail_gt hm hbne
    have hbsl : ∀ x ∈ bs, (f x.key == .lt) = false := by intro x hx; simp [hbs x hx]
    have hbsg : ∀ x ∈ bs, (f x.key != .gt) = false := by intro x hx; simp [hbs x hx]
    have hAfind : A.find? (fun e => f e.key == .eq) = none := by
      rw [List.find?_eq_none]; intro x hx; simp [h2 x hx]
    simp only [Nat.zero_add] at hprev ⊢
    by_cases hbe : f b.key = .eq
    · simp only [hbe, if_true]
      cases mode with
      | fl =>
        simp only [specPred, List.filter_append, List.filter_cons, filter_all hAlt, filter_none hbsl, hbe]
        simpa using hprev
      | fle =>
        simp only [specPred, List.filter_append, List.filter_cons, filter_all hAng, filter_none hbsg, hbe]
        simp
      | get =>
        simp only [specPred, List.find?_append, hAfind, List.find?_cons, hbe]
        simp
    · have hbg : f b.key = .gt := by cases h : f b.key <;> simp_all
      simp only [hbg]
      cases mode with
      | fl =>
        simp only [specPred, List.filter_append, List.filter_cons, filter_all hAlt, filter_none hbsl, hbg]
        simpa using hprev
      | fle =>
        simp only [specPred, List.filter_append, List.filter_cons, filter_all hAng, filter_none hbsg, hbg]
        simpa using hprev
      | get =>
        have hbsf : bs.find? (fun e => f e.key == .eq) = none := by
          rw [List.find?_eq_none]; intro x hx; simp [hbs x hx]
        simp [specPred, List.find?_append, hAfind, List.find?_cons, hbg, hbsf]

end ITree

namespace ITree
variable {V : Type}

theorem sorted_split_bounds {A B : List (Ent V)} {k : Int} (hs : SortedE (A ++ B))
    (hA : ∀ x ∈ A, x.key < k) (hB : ∀ b bs, B = b :: bs → k < b.key) :
    ∀ x ∈ B, k < x.key := by
  intro x hx
  cases B with
  | nil => simp at hx
  | cons b bs =>
    have hb := hB b bs rfl
    rcases List.mem_cons.mp hx with rfl | hx
    · exact hb
    · simp only [SortedE, List.map_append, List.map_cons, List.pairwise_append, List.pairwise_cons, List.mem_map] at hs
      have := hs.2.1.1 x.key ⟨x, hx, rfl⟩
      omega

/-- sorted insertion through the binary-search contract = the specification's insertion -/
theorem LSt.insert_eq (l : List (Ent V)) (e : Ent V) (hs : SortedE l) (hfresh : ∀ x ∈ l, x.key ≠ e.key) :
    LSt.insert l e = Spec.insert l e ∧ SortedE (LSt.insert l e) := by
  obtain ⟨A, B, h1, h2, h3, h4⟩ := bsearch_split (fun x => compare x.key e.key) l 0
  subst h1
  have hA : ∀ x ∈ A, x.key < e.key := by intro x hx; simpa [Int.compare_eq_lt] using h2 x hx
  have hBhead : ∀ b bs, B = b :: bs → e.key < b.key := by
    intro b bs hb
    have h1 := h3 b bs hb
    have h2' := hfresh b (by rw [hb]; simp)
    simp only [ne_eq, Int.compare_eq_lt] at h1
    omega
  have hB := sorted_split_bounds hs hA hBhead
  have hsp := filter_split_lt (A := A) (B := B) (k := e.key) hA hB
  have hins : LSt.insert (A ++ B) e = A ++ e :: B := by
    simp only [LSt.insert, h4, Nat.zero_add]
    cases B with
    | nil => simp [insertAt]
    | cons b bs =>
      have hne : compare b.key e.key ≠ .eq := by
        rw [ne_eq, Int.compare_eq_eq]; exact hfresh b (by simp)
      simp only [hne, if_false]
      simp [insertAt]
  refine ⟨by rw [hins]; simp [Spec.insert, hsp.1, hsp.2], ?_⟩
  rw [hins]
  simp only [SortedE, List.map_append, List.map_cons, List.pairwise_append, List.pairwise_cons, List.mem_map,
    List.mem_cons] at hs ⊢
  refine ⟨hs.1, ⟨?_, hs.2.1⟩, ?_⟩
  · rintro _ ⟨x, hx, rfl⟩; exact hB x hx
  · rintro _ ⟨x, hx, rfl⟩ _ (rfl | ⟨y, hy, rfl⟩)
    · exact hA x hx
    · exact hs.2.2 _ ⟨x, hx, rfl⟩ _ ⟨y, hy, rfl⟩

end ITree
