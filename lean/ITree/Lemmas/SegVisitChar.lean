import ITree.Lemmas.SegDefs
namespace ITree

set_option maxRecDepth 100000 in
/-- bit `n` of the visit mask ⇔ the leaf interval of place `n` meets the range -/
theorem visit_char : ∀ c < 32, ∀ d < 32, c ≤ d → ∀ n < 63,
    (visitMask c d).testBit n = meets c d n := by decide +kernel


end ITree
