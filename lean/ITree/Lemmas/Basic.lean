import ITree.Model.Tree
import ITree.Model.Pool
import ITree.Model.Map
/-!
# Basic facts: `toList` through contexts (locality), sizes
-/
namespace ITree
variable {ε : Type}

@[simp] theorem T.toList_leaf : (T.leaf : T ε).toList = [] := rfl
@[simp] theorem T.toList_node (c : Color) (l r : T ε) (s : Nat) (e : ε) :
    (T.node c l s e r).toList = l.toList ++ (s, e) :: r.toList := rfl
@[simp] theorem T.toList_setColor (c : Color) (t : T ε) : (t.setColor c).toList = t.toList := by
  cases t <;> rfl
@[simp] theorem T.size_setColor (c : Color) (t : T ε) : (t.setColor c).size = t.size := by
  cases t <;> rfl
@[simp] theorem T.size_leaf : (T.leaf : T ε).size = 0 := rfl
@[simp] theorem T.size_node (c : Color) (l r : T ε) (s : Nat) (e : ε) :
    (T.node c l s e r).size = l.size + r.size + 1 := rfl

theorem T.length_toList (t : T ε) : t.toList.length = t.size := by
  induction t with
  | leaf => rfl
  | node c l s e r ihl ihr => simp [ihl, ihr]; omega

/-- entries to the left of a frame's hole -/
def Frame.lefts (f : Frame ε) : List (Nat × ε) :=
  match f.side with
  | .L => []
  | .R => f.sib.toList ++ [(f.s, f.e)]

/-- entries to the right of a frame's hole -/
def Frame.rights (f : Frame ε) : List (Nat × ε) :=
  match f.side with
  | .L => (f.s, f.e) :: f.sib.toList
  | .R => []

/-- everything left of the hole of a context, in order -/
def ctxLeft : Ctx ε → List (Nat × ε)
  | [] => []
  | f :: k => ctxLeft k ++ f.lefts

/-- everything right of the hole of a context, in order -/
def ctxRight : Ctx ε → List (Nat × ε)
  | [] => []
  | f :: k => f.rights ++ ctxRight k

@[simp] theorem ctxLeft_nil : ctxLeft ([] : Ctx ε) = [] := rfl
@[simp] theorem ctxRight_nil : ctxRight ([] : Ctx ε) = [] := rfl
@[simp] theorem ctxLeft_cons (f : Frame ε) (k : Ctx ε) : ctxLeft (f :: k) = ctxLeft k ++ f.lefts := rfl
@[simp] theorem ctxRight_cons (f : Frame ε) (k : Ctx ε) : ctxRight (f :: k) = f.rights ++ ctxRight k := rfl

theorem toList_fill (f : Frame ε) (t : T ε) : (f.fill t).toList = f.lefts ++ t.toList ++ f.rights := by
  obtain ⟨c, s, e, sib, side⟩ := f
  cases side <;> simp [Frame.fill, Frame.lefts, Frame.rights]

theorem toList_plug (k : Ctx ε) (t : T ε) : (plug k t).toList = ctxLeft k ++ t.toList ++ ctxRight k := by
  induction k generalizing t with
  | nil => simp [plug]
  | cons f k ih => simp [plug, ih, toList_fill, List.append_assoc]

theorem ctxLeft_append (a b : Ctx ε) : ctxLeft (a ++ b) = ctxLeft b ++ ctxLeft a := by
  induction a with
  | nil => simp
  | cons f a ih => simp [ih, List.append_assoc]

theorem ctxRight_append (a b : Ctx ε) : ctxRight (a ++ b) = ctxRight a ++ ctxRight b := by
  induction a with
  | nil => simp
  | cons f a ih => simp [ih, List.append_assoc]

theorem plug_append (a b : Ctx ε) (t : T ε) : plug (a ++ b) t = plug b (plug a t) := by
  induction a generalizing t with
  | nil => rfl
  | cons f a ih => simp [plug, ih]

@[simp] theorem plug_nil (t : T ε) : plug [] t = t := rfl
@[simp] theorem plug_cons (f : Frame ε) (k : Ctx ε) (t : T ε) : plug (f :: k) t = plug k (f.fill t) := rfl

end ITree
