import ITree.Lemmas.Basic
/-!
# The colour / black-height invariant and its preservation by the repairs

`Bal t n`: no red node has a red child (a red *root* is allowed — the Rust code never forces the
root black after a removal) and every root-to-leaf path passes `n` black nodes.
-/
namespace ITree
variable {ε : Type}

inductive Bal : T ε → Nat → Prop where
  | leaf : Bal .leaf 0
  | red {l r : T ε} {s e n} : Bal l n → Bal r n → l.isBlack = true → r.isBlack = true →
      Bal (.node .red l s e r) n
  | black {l r : T ε} {s e n} : Bal l n → Bal r n → Bal (.node .black l s e r) (n + 1)

def bh (c : Color) : Nat := if c = .black then 1 else 0
@[simp] theorem bh_black : bh .black = 1 := rfl
@[simp] theorem bh_red : bh .red = 0 := rfl

@[simp] theorem T.isBlack_leaf : (T.leaf : T ε).isBlack = true := rfl
@[simp] theorem T.isBlack_node (c : Color) (l r : T ε) (s : Nat) (e : ε) :
    (T.node c l s e r).isBlack = (c == .black) := rfl
@[simp] theorem T.isBlack_setBlack (t : T ε) : (t.setColor .black).isBlack = true := by
  cases t <;> rfl

theorem Bal.node_inv {c} {l r : T ε} {s e m} (h : Bal (.node c l s e r) m) :
    ∃ n, m = n + bh c ∧ Bal l n ∧ Bal r n ∧ (c = .red → l.isBlack = true ∧ r.isBlack = true) := by
  cases h with
  | red hl hr bl br => exact ⟨_, by simp, hl, hr, fun _ => ⟨bl, br⟩⟩
  | black hl hr => exact ⟨_, by simp, hl, hr, by simp⟩

theorem Bal.mk {c} {l r : T ε} {s e n} (hl : Bal l n) (hr : Bal r n)
    (hc : c = .red → l.isBlack = true ∧ r.isBlack = true) : Bal (.node c l s e r) (n + bh c) := by
  cases c with
  | red => simpa using Bal.red hl hr (hc rfl).1 (hc rfl).2
  | black => simpa using Bal.black hl hr

theorem Bal.unique {t : T ε} {n m} (h1 : Bal t n) (h2 : Bal t m) : n = m := by
  induction h1 generalizing m with
  | leaf => cases h2; rfl
  | red hl _ _ _ ihl _ => cases h2 with | red hl' _ _ _ => exact ihl hl'
  | black hl _ ihl _ => cases h2 with | black hl' _ => rw [ihl hl']

theorem Bal.setBlack {t : T ε} {n} (h : Bal t n) (hr : t.isBlack = false) :
    Bal (t.setColor .black) (n + 1) := by
  cases h with
  | leaf => simp at hr
  | red hl hr' _ _ => exact Bal.black hl hr'
  | black => simp at hr

/-- recolouring the root black never breaks the invariant -/
theorem Bal.blacken {t : T ε} {n} (h : Bal t n) : ∃ m, Bal (t.setColor .black) m := by
  cases h with
  | leaf => exact ⟨0, Bal.leaf⟩
  | red hl hr _ _ => exact ⟨_, Bal.black hl hr⟩
  | black hl hr => exact ⟨_, Bal.black hl hr⟩

/-! ### contexts -/

theorem Bal.of_fill {f : Frame ε} {t : T ε} {m} (h : Bal (f.fill t) m) :
    ∃ n, m = n + bh f.c ∧ Bal t n ∧ Bal f.sib n ∧ (f.c = .red → t.isBlack = true ∧ f.sib.isBlack = true) := by
  obtain ⟨c, s, e, sib, side⟩ := f
  cases side <;> simp only [Frame.fill] at h <;> obtain ⟨n, h1, h2, h3, h4⟩ := h.node_inv
  · exact ⟨n, h1, h2, h3, h4⟩
  · exact ⟨n, h1, h3, h2, fun hc => ⟨(h4 hc).2, (h4 hc).1⟩⟩

theorem Bal.fill {f : Frame ε} {t : T ε} {n} (ht : Bal t n) (hs : Bal f.sib n)
    (hc : f.c = .red → t.isBlack = true ∧ f.sib.isBlack = true) : Bal (f.fill t) (n + bh f.c) := by
  obtain ⟨c, s, e, sib, side⟩ := f
  cases side <;> simp only [Frame.fill]
  · exact Bal.mk ht hs hc
  · exact Bal.mk hs ht fun h => ⟨(hc h).2, (hc h).1⟩

theorem Bal.of_plug {k : Ctx ε} {t : T ε} {m} (h : Bal (plug k t) m) : ∃ n, Bal t n := by
  induction k generalizing t with
  | nil => exact ⟨m, h⟩
  | cons f k ih =>
    obtain ⟨n, hn⟩ := ih h
    obtain ⟨n', _, h2, _⟩ := hn.of_fill
    exact ⟨n', h2⟩

/-- the innermost frame is black (or there is none): the hole accepts a tree of any root colour -/
def Ctx.topBlack : Ctx ε → Bool
  | [] => true
  | f :: _ => f.c == .black

/-- Replacing the focus by a tree of the same black height keeps the whole tree balanced, provided
the replacement's root is black whenever the original's was, or the parent is black / absent. -/
theorem Bal.plug_subst {k : Ctx ε} {t t' : T ε} {m n} (h : Bal (plug k t) m) (ht : Bal t n)
    (ht' : Bal t' n) (hc : (t.isBlack = true → t'.isBlack = true) ∨ Ctx.topBlack k = true) :
    Bal (plug k t') m := by
  induction k generalizing t t' n with
  | nil => simpa using (Bal.unique ht h) ▸ ht'
  | cons f k ih =>
    simp only [plug_cons] at h ⊢
    obtain ⟨m1, hm1⟩ := Bal.of_plug h
    obtain ⟨n1, e1, h2, h3, h4⟩ := hm1.of_fill
    have hn : n1 = n := Bal.unique h2 ht
    subst hn
    have hfill : Bal (f.fill t') (n1 + bh f.c) := by
      apply Bal.fill ht' h3
      intro hred
      refine ⟨?_, (h4 hred).2⟩
      rcases hc with hc | hc
      · exact hc (h4 hred).1
      · simp [Ctx.topBlack, hred] at hc
    refine ih h (e1 ▸ hm1) hfill (Or.inl ?_)
    obtain ⟨c, s, e, sib, side⟩ := f
    cases side <;> simp [Frame.fill]

/-! ### delete repair -/

theorem plug_one (f : Frame ε) (x : T ε) : plug [f] x = f.fill x := rfl
theorem plug_two (f g : Frame ε) (x : T ε) : plug [f, g] x = g.fill (f.fill x) := rfl

/-- One activation of the delete repair with a black sibling: the hole holds `x` of black height `n`
(any root colour), the sibling has black height `n+1`. -/
theorem fixBlackSib_bal {f : Frame ε} {x : T ε} {n}
    (hx : Bal x n) (hs : Bal f.sib (n + 1)) (hsb : f.sib.isBlack = true) :
    ∃ fs d, fixBlackSib f = some (fs, d) ∧ (d = true → f.c = .black) ∧
      Bal (plug fs x) (if d then n + 1 else n + 1 + bh f.c) ∧
      ((plug fs x).isBlack = true ∨ f.c = .red) := by
  obtain ⟨c, s, e, sib, side⟩ := f
  simp only at hs hsb
  cases hs with
  | red => simp at hsb
  | @black SL SR sS eS _ hSL hSR =>
    unfold fixBlackSib
    simp only
    by_cases h1 : (SL.isBlack && SR.isBlack) = true
    · simp only [h1, if_true]
      simp only [Bool.and_eq_true] at h1
      refine ⟨_, _, rfl, by simp, ?_, ?_⟩
      · cases side <;> cases c <;> simp [plug, Frame.fill] <;>
          first
          | exact Bal.black hx (Bal.red hSL hSR h1.1 h1.2)
          | exact Bal.black (Bal.red hSL hSR h1.1 h1.2) hx
      · cases side <;> simp [plug, Frame.fill]
    · simp only [h1]
      cases side with
      | L =>
        simp only
        by_cases h2 : SR.isBlack = true
        · simp only [h2, if_true]
          have h3 : SL.isBlack = false := by simpa [h2] using h1
          cases hSL with
          | leaf => simp at h3
          | black => simp at h3
          | @red SLL SLR _ _ _ hSLL hSLR b1 b2 =>
            refine ⟨_, _, rfl, by simp, ?_, ?_⟩
            · simp only [plug, Frame.fill, Bool.false_eq_true, if_false]
              exact Bal.mk (Bal.black hx hSLL) (Bal.black hSLR hSR) (by simp)
            · cases c <;> simp [plug, Frame.fill]
        · simp only [h2]
          have h2' : SR.isBlack = false := by simpa using h2
          refine ⟨_, _, rfl, by simp, ?_, ?_⟩
          · simp only [plug, Frame.fill, Bool.false_eq_true, if_false]
            exact Bal.mk (Bal.black hx hSL) (Bal.setBlack hSR h2') (by simp)
          · cases c <;> simp [plug, Frame.fill]
      | R =>
        simp only
        by_cases h2 : SL.isBlack = true
        · simp only [h2, if_true]
          have h3 : SR.isBlack = false := by simpa [h2] using h1
          cases hSR with
          | leaf => simp at h3
          | black => simp at h3
          | @red SRL SRR _ _ _ hSRL hSRR b1 b2 =>
            refine ⟨_, _, rfl, by simp, ?_, ?_⟩
            · simp only [plug, Frame.fill, Bool.false_eq_true, if_false]
              exact Bal.mk (Bal.black hSL hSRL) (Bal.black hSRR hx) (by simp)
            · cases c <;> simp [plug, Frame.fill]
        · simp only [h2]
          have h2' : SL.isBlack = false := by simpa using h2
          refine ⟨_, _, rfl, by simp, ?_, ?_⟩
          · simp only [plug, Frame.fill, Bool.false_eq_true, if_false]
            exact Bal.mk (Bal.setBlack hSL h2') (Bal.black hSR hx) (by simp)
          · cases c <;> simp [plug, Frame.fill]

end ITree

namespace ITree
variable {ε : Type}

/-- one activation of the delete repair, any sibling colour -/
theorem fixFrame_bal {f : Frame ε} {x : T ε} {n}
    (hx : Bal x n) (hs : Bal f.sib (n + 1)) (hc : f.c = .red → f.sib.isBlack = true) :
    ∃ fs d, fixFrame f = some (fs, d) ∧ (d = true → f.c = .black) ∧
      Bal (plug fs x) (if d then n + 1 else n + 1 + bh f.c) ∧
      ((plug fs x).isBlack = true ∨ f.c = .red) := by
  by_cases hsb : f.sib.isBlack = true
  · obtain ⟨fs, d, h, rest⟩ := fixBlackSib_bal hx hs hsb
    refine ⟨fs, d, ?_, rest⟩
    obtain ⟨c, s, e, sib, side⟩ := f
    cases sib with
    | leaf => simpa [fixFrame] using h
    | node cS _ _ _ _ => cases cS <;> simp_all [fixFrame]
  · have hsb' : f.sib.isBlack = false := by simpa using hsb
    obtain ⟨c, s, e, sib, side⟩ := f
    simp only at hs hc hsb'
    have hcP : c = .black := by
      cases c with
      | black => rfl
      | red => simp [hc rfl] at hsb'
    subst hcP
    cases hs with
    | black => simp at hsb'
    | @red SL SR sS eS _ hSL hSR b1 b2 =>
      cases side with
      | L =>
        obtain ⟨fs, d, h, hd, hb, _⟩ :=
          fixBlackSib_bal (f := ⟨.red, s, e, SL, .L⟩) hx hSL b1
        have hd' : d = false := by cases d <;> simp_all
        subst hd'
        refine ⟨fs ++ [⟨.black, sS, eS, SR, .L⟩], false, by simp [fixFrame, h], by simp, ?_, ?_⟩
        · simp only [plug_append, plug_one, Frame.fill] at hb ⊢
          simpa using Bal.black hb hSR
        · simp [plug_append, plug_one, Frame.fill]
      | R =>
        obtain ⟨fs, d, h, hd, hb, _⟩ :=
          fixBlackSib_bal (f := ⟨.red, s, e, SR, .R⟩) hx hSR b2
        have hd' : d = false := by cases d <;> simp_all
        subst hd'
        refine ⟨fs ++ [⟨.black, sS, eS, SL, .R⟩], false, by simp [fixFrame, h], by simp, ?_, ?_⟩
        · simp only [plug_append, plug_one, Frame.fill] at hb ⊢
          simpa using Bal.black hSL hb
        · simp [plug_append, plug_one, Frame.fill]

theorem isBlack_fill (f : Frame ε) (t : T ε) : (f.fill t).isBlack = (f.c == .black) := by
  obtain ⟨c, s, e, sib, side⟩ := f
  cases side <;> rfl

theorem isBlack_plug_mono (k : Ctx ε) {t t' : T ε} (h : t.isBlack = true → t'.isBlack = true) :
    (plug k t).isBlack = true → (plug k t').isBlack = true := by
  induction k generalizing t t' with
  | nil => simpa using h
  | cons f k ih =>
    simp only [plug_cons]
    exact ih (by simp [isBlack_fill])

/-- The whole upward repair. `x0` (black height `n+1`) is what the context was built around,
`x` (black height `n`, any root colour) is the deficient replacement. Either the deficit is
absorbed (same total black height, root colour not reddened) or it leaves at the top (total black
height one less). -/
theorem fixUpD_bal (k : Ctx ε) {x x0 : T ε} {n m}
    (h : Bal (plug k x0) m) (hx0 : Bal x0 (n + 1)) (hx : Bal x n) :
    ∃ k' d', fixUpD k true = some (k', d') ∧
      ((d' = false ∧ Bal (plug k' x) m ∧ ((plug k x0).isBlack = true → (plug k' x).isBlack = true)) ∨
       (d' = true ∧ ∃ m0, m = m0 + 1 ∧ Bal (plug k' x) m0)) := by
  induction k generalizing x x0 n with
  | nil =>
    refine ⟨[], true, rfl, Or.inr ⟨rfl, n, ?_, hx⟩⟩
    exact Bal.unique h hx0
  | cons f rest ih =>
    simp only [plug_cons] at h
    obtain ⟨m1, hm1⟩ := Bal.of_plug h
    obtain ⟨n1, e1, h2, h3, h4⟩ := hm1.of_fill
    have hn : n1 = n + 1 := Bal.unique h2 hx0
    subst hn
    obtain ⟨fs, d, hfix, hd, hb, hcol⟩ := fixFrame_bal (f := f) hx h3 (fun hc => (h4 hc).2)
    cases d with
    | false =>
      refine ⟨fs ++ rest, false, by simp [fixUpD, hfix], Or.inl ⟨rfl, ?_, ?_⟩⟩
      · simp only [plug_append]
        simp only [Bool.false_eq_true, if_false] at hb
        refine Bal.plug_subst h hm1 (e1 ▸ hb) (Or.inl ?_)
        intro hblk
        rcases hcol with hcol | hcol
        · exact hcol
        · simp [isBlack_fill, hcol] at hblk
      · simp only [plug_append, plug_cons]
        apply isBlack_plug_mono
        intro hblk
        rcases hcol with hcol | hcol
        · exact hcol
        · simp [isBlack_fill, hcol] at hblk
    | true =>
      have hcb : f.c = .black := hd rfl
      simp only [if_true] at hb
      have hm1' : Bal (f.fill x0) (n + 1 + 1) := by simpa [e1, hcb] using hm1
      obtain ⟨k', d', hk', hres⟩ := ih h hm1' hb
      refine ⟨fs ++ k', d', by simp [fixUpD, hfix, hk'], ?_⟩
      simpa only [plug_append, plug_cons] using hres

theorem fixUpD_false (k : Ctx ε) : fixUpD k false = some (k, false) := by
  cases k <;> rfl

theorem fixUpD_append (a b : Ctx ε) (d : Bool) :
    fixUpD (a ++ b) d =
      match fixUpD a d with
      | none => none
      | some (a', d') => (fixUpD b d').map fun (b', d'') => (a' ++ b', d'') := by
  induction a generalizing d with
  | nil =>
    cases d with
    | false => simp [fixUpD_false]
    | true =>
      simp only [List.nil_append, fixUpD]
      cases fixUpD b true with
      | none => rfl
      | some p => obtain ⟨b', d''⟩ := p; simp
  | cons f a ih =>
    cases d with
    | false => simp [fixUpD_false]
    | true =>
      simp only [List.cons_append, fixUpD]
      cases hf : fixFrame f with
      | none => rfl
      | some p =>
        obtain ⟨fs, d1⟩ := p
        simp only [ih]
        cases fixUpD a d1 with
        | none => rfl
        | some q =>
          obtain ⟨a', d2⟩ := q
          simp only [Option.map_some]
          cases fixUpD b d2 with
          | none => rfl
          | some r => obtain ⟨b', d3⟩ := r; simp [List.append_assoc]

end ITree
