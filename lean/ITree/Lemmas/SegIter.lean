import ITree.Model.Seg
/-!
# The segment-tree iterator: scanning one place
-/
namespace ITree
variable {V : Type}

/-- not expired at query time `t` (`!(expiration < t)`) -/
def keepAt (t : Int) (e : SegEnt V) : Bool := decide (t ≤ e.exp)
/-- place `i0` is the lowest place common to the copy's mask and the query mask -/
def firstAt (q i0 : Nat) (e : SegEnt V) : Bool := tz (e.mask &&& q) == i0
/-- the copy is reported when met in place `i0` -/
def repAt (t : Int) (q i0 : Nat) (e : SegEnt V) : Bool := keepAt t e && firstAt q i0 e

theorem swapRemove_last (A : List (SegEnt V)) (x : SegEnt V) : swapRemove (A ++ [x]) A.length = A := by
  simp [swapRemove]

theorem swapRemove_mid (A : List (SegEnt V)) (x y : SegEnt V) (B' : List (SegEnt V)) :
    swapRemove (A ++ x :: (B' ++ [y])) A.length = A ++ y :: B' := by
  have hlast : (A ++ x :: (B' ++ [y])).getLast? = some y := by
    rw [show A ++ x :: (B' ++ [y]) = (A ++ x :: B') ++ [y] by simp]
    exact List.getLast?_concat
  have hne : (A.length + 1 == (A ++ x :: (B' ++ [y])).length) = false := by
    simp only [List.length_append, List.length_cons, List.length_nil, beq_eq_false_iff_ne]; omega
  have hset : (A ++ x :: (B' ++ [y])).set A.length y = A ++ y :: (B' ++ [y]) := by
    rw [List.set_append_right _ _ (Nat.le_refl _)]; simp
  simp only [swapRemove, hlast, hne, hset]
  rw [show A ++ y :: (B' ++ [y]) = (A ++ y :: B') ++ [y] by simp, List.dropLast_concat]
  simp

theorem swapRemove_spec (l : List (SegEnt V)) (i : Nat) (h : i < l.length) :
    ∃ A x B, l = A ++ x :: B ∧ A.length = i ∧
      (swapRemove l i).take i = A ∧ ((swapRemove l i).drop i).Perm B ∧ (swapRemove l i).length + 1 = l.length := by
  obtain ⟨A, x, B, hl, hA⟩ : ∃ A x B, l = A ++ x :: B ∧ A.length = i :=
    ⟨l.take i, l[i], l.drop (i + 1), by simp, by simp; omega⟩
  refine ⟨A, x, B, hl, hA, ?_⟩
  subst hl; subst hA
  rcases List.eq_nil_or_concat B with rfl | ⟨B', y, rfl⟩
  · rw [swapRemove_last]; simp
  · simp only [List.concat_eq_append]
    rw [swapRemove_mid]
    refine ⟨by simp, ?_, by simp; omega⟩
    rw [List.drop_left]
    exact (List.perm_append_singleton y B').symm

/-- what a (resumed) scan of one place guarantees -/
structure ScanRes (t : Int) (q i0 : Nat) (c : List (SegEnt V)) (i : Nat) (c' : List (SegEnt V))
    (r : Option (V × Nat)) : Prop where
  pre : c'.take i = c.take i
  purge : ∃ rm, c.Perm (c' ++ rm) ∧ ∀ e ∈ rm, keepAt t e = false
  out : match r with
    | some (v, i1) => i < i1 ∧ i1 ≤ c'.length ∧ (∀ e ∈ c'.take i1, keepAt t e = true) ∧
        ∃ item, item.val = v ∧ repAt t q i0 item = true ∧
          ((c.drop i).filter (repAt t q i0)).Perm (item :: (c'.drop i1).filter (repAt t q i0))
    | none => (∀ e ∈ c', keepAt t e = true) ∧ (c.drop i).filter (repAt t q i0) = []

theorem scanChunk_spec (t : Int) (q i0 : Nat) (fuel : Nat) :
    ∀ (c : List (SegEnt V)) (i : Nat), i ≤ c.length → 2 * c.length - i < fuel →
      (∀ e ∈ c.take i, keepAt t e = true) →
      ScanRes t q i0 c i (scanChunk t q i0 fuel c i).1 (scanChunk t q i0 fuel c i).2 := by
  induction fuel with
  | zero => intro c i _ h; omega
  | succ fuel ih =>
    intro c i hi hfuel hpre
    simp only [scanChunk]
    cases hci : c[i]? with
    | none =>
      have hlen : c.length ≤ i := by simpa using hci
      have heq : i = c.length := by omega
      subst heq
      refine ⟨rfl, ⟨[], by simp, by simp⟩, ?_⟩
      simp only
      exact ⟨by simpa using hpre, by simp⟩
    | some item =>
      have hilt : i < c.length := by
        rcases Nat.lt_or_ge i c.length with h | h
        · exact h
        · simp [List.getElem?_eq_none h] at hci
      have hitem : c[i] = item := by
        have := List.getElem?_eq_getElem hilt
        rw [this] at hci; simpa using hci
      have hdrop : c.drop i = item :: c.drop (i + 1) := by
        rw [← hitem]; exact (List.drop_eq_getElem_cons hilt)
      simp only
      by_cases hexp : item.exp < t
      · -- expired: swap_remove and look at the same index again
        simp only [hexp, if_true]
        obtain ⟨A, x, B, hl, hA, h1, h2, h3⟩ := swapRemove_spec c i hilt
        have hx : x = item := by
          have : c[i]? = some x := by rw [hl, ← hA]; simp
          rw [hci] at this; simpa using this.symm
        subst hx
        have hcA : c.take i = A := by rw [hl, ← hA]; simp
        have hcB : c.drop (i + 1) = B := by rw [hl, ← hA]; simp
        have hres := ih (swapRemove c i) i (by omega) (by omega) (by rw [h1, ← hcA]; exact hpre)
        obtain ⟨p1, ⟨rm, p2, p3⟩, p4⟩ := hres
        have hnk : keepAt t x = false := by simp [keepAt]; omega
        have hnr : repAt t q i0 x = false := by simp [repAt, hnk]
        refine ⟨by rw [p1, h1, hcA], ⟨rm ++ [x], ?_, ?_⟩, ?_⟩
        · -- c ~ swapRemove ++ [x]
          have hsw : c.Perm (swapRemove c i ++ [x]) := by
            have : (swapRemove c i) = (swapRemove c i).take i ++ (swapRemove c i).drop i := (List.take_append_drop i _).symm
            rw [this, h1, hl]
            calc A ++ x :: B |>.Perm (A ++ (B ++ [x])) := List.Perm.append_left _ (List.perm_append_singleton x B).symm
              _ |>.Perm (A ++ ((swapRemove (A ++ x :: B) i).drop i ++ [x])) :=
                  List.Perm.append_left _ (List.Perm.append_right _ (hl ▸ h2).symm)
              _ = _ := by simp
          calc c |>.Perm (swapRemove c i ++ [x]) := hsw
            _ |>.Perm (((scanChunk t q i0 fuel (swapRemove c i) i).1 ++ rm) ++ [x]) := List.Perm.append_right _ p2
            _ = _ := by simp
        · intro e he
          simp only [List.mem_append, List.mem_singleton] at he
          rcases he with he | rfl
          · exact p3 e he
          · exact hnk
        · have hfil : (c.drop i).filter (repAt t q i0) = B.filter (repAt t q i0) := by
            rw [hdrop, List.filter_cons, hnr, hcB]; simp
          have hperm : (B.filter (repAt t q i0)).Perm (((swapRemove c i).drop i).filter (repAt t q i0)) :=
            (List.Perm.filter _ h2).symm
          cases hr : (scanChunk t q i0 fuel (swapRemove c i) i).2 with
          | none =>
            rw [hr] at p4
            simp only at p4 ⊢
            refine ⟨p4.1, ?_⟩
            rw [hfil]
            have := hperm
            rw [p4.2] at this
            exact List.Perm.eq_nil this
          | some vi =>
            obtain ⟨v, i1⟩ := vi
            rw [hr] at p4
            simp only at p4 ⊢
            obtain ⟨q1, q2, q3, it', q4, q5, q6⟩ := p4
            exact ⟨q1, q2, q3, it', q4, q5, by rw [hfil]; exact hperm.trans q6⟩
      · simp only [hexp, if_false]
        have hk : keepAt t item = true := by simp [keepAt]; omega
        by_cases hfirst : (tz (item.mask &&& q) == i0) = true
        · simp only [hfirst, if_true]
          refine ⟨rfl, ⟨[], by simp, by simp⟩, ?_⟩
          simp only
          refine ⟨by omega, by omega, ?_, item, rfl, by simp [repAt, hk, firstAt, hfirst], ?_⟩
          · intro e he
            rw [List.take_succ, List.mem_append] at he
            rcases he with he | he
            · exact hpre e he
            · simp only [hci, Option.toList_some, List.mem_singleton] at he; rw [he]; exact hk
          · rw [hdrop, List.filter_cons]
            simp [repAt, hk, firstAt, hfirst]
        · have hff : (tz (item.mask &&& q) == i0) = false := by simpa using hfirst
          simp only [hff, Bool.false_eq_true, if_false]
          have hnr : repAt t q i0 item = false := by simp [repAt, firstAt, hff]
          have hres := ih c (i + 1) (by omega) (by omega) (by
            intro e he
            rw [List.take_succ, List.mem_append] at he
            rcases he with he | he
            · exact hpre e he
            · simp only [hci, Option.toList_some, List.mem_singleton] at he; rw [he]; exact hk)
          obtain ⟨p1, p2, p4⟩ := hres
          have hfil : (c.drop i).filter (repAt t q i0) = (c.drop (i + 1)).filter (repAt t q i0) := by
            rw [hdrop, List.filter_cons, hnr]; simp
          refine ⟨?_, p2, ?_⟩
          · have := congrArg (List.take i) p1
            simpa [List.take_take, Nat.min_eq_left (Nat.le_succ i)] using this
          · cases hr : (scanChunk t q i0 fuel c (i + 1)).2 with
            | none => rw [hr] at p4; simp only at p4 ⊢; exact ⟨p4.1, by rw [hfil]; exact p4.2⟩
            | some vi =>
              obtain ⟨v, i1⟩ := vi
              rw [hr] at p4
              simp only at p4 ⊢
              obtain ⟨q1, q2, q3, it', q4, q5, q6⟩ := p4
              exact ⟨by omega, q2, q3, it', q4, q5, by rw [hfil]; exact q6⟩

end ITree
