import ITree.Lemmas.KOps
import ITree.Lemmas.Storage
/-!
# Ordered export of the expiring tree: the slot scan purges exactly the expired entries
-/
namespace ITree
variable {V : Type}

structure SlotRes (time : Int) (slot : Nat) (t t' : T (Ent V)) (p' : Pool) : Prop where
  wf : WF (⟨t', p'⟩ : St V)
  live_eq : live time t'.ents = live time t.ents
  pairs : ∀ x ∈ t'.toList, x ∈ t.toList ∨ x.1 = slot
  slot_live : ∀ x ∈ t'.toList, x.1 = slot → time < x.2.exp
  size_le : t'.size ≤ t.size

theorem expireSlot_spec (time : Int) (slot : Nat) (fuel : Nat) :
    ∀ (t : T (Ent V)) (p : Pool) (tr : List (Ev V)), WF (⟨t, p⟩ : St V) → t.size < fuel →
    ∃ t' p' tr', expireSlot time slot fuel t p tr = some (t', p', tr') ∧ SlotRes time slot t t' p' := by
  induction fuel with
  | zero => intro t p tr _ h; omega
  | succ fuel ih =>
    intro t p tr hwf hfuel
    simp only [expireSlot]
    cases hf : findSlot slot [] t with
    | none =>
      refine ⟨t, p, tr, rfl, ⟨hwf, rfl, fun x hx => Or.inl hx, ?_, Nat.le_refl _⟩⟩
      intro x hx hxs
      exact absurd (hxs ▸ T.mem_slots_of_mem hx) (findSlot_none slot [] t hf)
    | some q =>
      obtain ⟨k, f⟩ := q
      obtain ⟨hp, c, l, e, r, rfl⟩ := findSlot_some slot [] t hf
      simp only [plug_nil] at hp
      simp only
      by_cases hl : time < e.exp
      · simp only [hl, if_true]
        refine ⟨t, p, _, rfl, ⟨hwf, rfl, fun x hx => Or.inl hx, ?_, Nat.le_refl _⟩⟩
        intro x hx hxs
        -- the only pair with this slot is the focus root
        have hmem : (slot, e) ∈ t.toList := by rw [← hp, toList_plug]; simp
        have hnd := hwf.slots.nodup
        have e1 := T.atSlot_of_mem hnd hmem
        have e2 := T.atSlot_of_mem hnd (show (slot, x.2) ∈ t.toList by rw [← hxs]; exact hx)
        rw [e1] at e2
        have : e = x.2 := by simpa using e2
        rw [← this]; exact hl
      · simp only [hl, if_false]
        obtain ⟨k1, t1, fr, hd, hw, l1, l2, hents, hsz, hpairs⟩ := deleteFocus_full k (p := p) (hp ▸ hwf)
        simp only [hd]
        have hsize : (plug k1 t1).size + 1 = t.size := by
          rw [← T.length_toList, ← T.length_toList, ← hp, toList_plug, toList_plug, l1, l2]
          simp only [List.length_append, T.length_toList]
          omega
        obtain ⟨t', p', tr', he, hres⟩ := ih (plug k1 t1) (p.free fr) _ hw (by omega)
        have hlive1 : live time (plug k1 t1).ents = live time t.ents := by
          rw [← hp, ents_plug, ents_plug]
          simp only [ctxLeftE, ctxRightE, l1, l2, hents, T.ents_node, live_append, live_cons, hl, if_false]
        refine ⟨t', p', tr', he, ⟨hres.wf, hres.live_eq.trans hlive1, ?_, hres.slot_live, by have := hres.size_le; omega⟩⟩
        intro x hx
        rcases hres.pairs x hx with h1 | h1
        · rw [toList_plug, l1, l2] at h1
          rw [← hp, toList_plug]
          simp only [List.mem_append, T.toList_node, List.mem_cons] at h1 ⊢
          rcases h1 with (h1 | h1) | h1
          · exact Or.inl (Or.inl (Or.inl h1))
          · rcases hpairs x h1 with h2 | h2 | h2
            · exact Or.inl (Or.inl (Or.inr (Or.inl h2)))
            · exact Or.inl (Or.inl (Or.inr (Or.inr (Or.inr h2))))
            · exact Or.inr h2.1
          · exact Or.inl (Or.inr h1)
        · exact Or.inr h1

theorem expireAll_spec (time : Int) (slots : List Nat) :
    ∀ (t : T (Ent V)) (p : Pool) (tr : List (Ev V)) (done : List Nat), WF (⟨t, p⟩ : St V) →
    (∀ x ∈ t.toList, x.1 ∈ done → time < x.2.exp) →
    ∃ t' p' tr', expireAll time slots t p tr = some (t', p', tr') ∧ WF (⟨t', p'⟩ : St V) ∧
      live time t'.ents = live time t.ents ∧
      (∀ x ∈ t'.toList, x.1 ∈ done ++ slots → time < x.2.exp) ∧ p'.bufLen = p.bufLen := by
  induction slots with
  | nil =>
    intro t p tr done hwf hdone
    exact ⟨t, p, tr, rfl, hwf, rfl, by simpa using hdone, rfl⟩
  | cons i is ih =>
    intro t p tr done hwf hdone
    obtain ⟨t1, p1, tr1, he, hres⟩ := expireSlot_spec time i (t.size + 1) t p tr hwf (by omega)
    have hdone1 : ∀ x ∈ t1.toList, x.1 ∈ done ++ [i] → time < x.2.exp := by
      intro x hx hxd
      simp only [List.mem_append, List.mem_singleton] at hxd
      rcases hxd with hxd | hxd
      · rcases hres.pairs x hx with h1 | h1
        · exact hdone x h1 hxd
        · exact hres.slot_live x hx h1
      · exact hres.slot_live x hx hxd
    obtain ⟨t', p', tr', he2, hw, hl, hall, hb⟩ := ih t1 p1 tr1 (done ++ [i]) hres.wf hdone1
    have hbuf : p1.bufLen = p.bufLen := by
      -- the arena never shrinks or grows during a purge: slots + free list always count `bufLen`
      have c1 := hwf.slots.count
      have c2 := hres.wf.slots.count
      simp only at c1 c2
      -- every step of expireSlot is `Pool.free`, which leaves `bufLen` alone; prove it by the same induction
      clear ih he2 hw hl hall hb hdone1
      have : ∀ (fuel : Nat) (t : T (Ent V)) (p : Pool) (tr : List (Ev V)) t' p' tr',
          expireSlot time i fuel t p tr = some (t', p', tr') → p'.bufLen = p.bufLen := by
        intro fuel
        induction fuel with
        | zero => intro t p tr t' p' tr' h; simp [expireSlot] at h
        | succ fuel ihf =>
          intro t p tr t' p' tr' h
          simp only [expireSlot] at h
          split at h
          · simp only [Option.some.injEq, Prod.mk.injEq] at h; rw [← h.2.1]
          · rename_i k f _
            split at h
            · simp only [Option.some.injEq, Prod.mk.injEq] at h; rw [← h.2.1]
            · split at h
              · simp only [Option.some.injEq, Prod.mk.injEq] at h; rw [← h.2.1]
              · split at h
                · simp at h
                · have := ihf _ _ _ _ _ _ h
                  simpa [Pool.free] using this
      exact this _ _ _ _ _ _ _ he
    refine ⟨t', p', tr', by simp [expireAll, he, he2], hw, hl.trans hres.live_eq, ?_, hb.trans hbuf⟩
    intro x hx hxd
    exact hall x hx (by simpa [List.append_assoc] using hxd)

theorem live_eq_self {time : Int} {l : List (Ent V)} (h : ∀ x ∈ l, time < x.exp) : live time l = l :=
  List.filter_eq_self.mpr (by simpa using h)

/-- **ordered export**: exactly the live entries, in key order, each once; the purged tree holds
exactly those entries; the capacity requested for the result is their number -/
theorem St.kExport_spec (st : St V) (time : Int) (h : WF st) :
    ∃ st' vals cap tr, st.kExport time = some (st', vals, cap, tr) ∧ WF st' ∧
      st'.tree.ents = live time st.tree.ents ∧ vals = (live time st.tree.ents).map (·.val) ∧
      cap = vals.length := by
  obtain ⟨t', p', tr', he, hw, hl, hall, hb⟩ := expireAll_spec time ((List.range st.pool.bufLen).drop 1)
    st.tree st.pool [] [] (by simpa using h) (by simp)
  have hlive : ∀ x ∈ t'.ents, time < x.exp := by
    intro x hx
    simp only [T.ents, List.mem_map] at hx
    obtain ⟨y, hy, rfl⟩ := hx
    apply hall y hy
    obtain ⟨hpos, hlt⟩ := hw.slots.pos y.1 (T.mem_slots_of_mem hy)
    simp only at hlt
    rw [hb] at hlt
    simp only [List.nil_append, List.mem_drop_iff_getElem]
    refine ⟨y.1 - 1, by simp; omega, ?_⟩
    simp only [List.getElem_range]
    omega
  have hents : t'.ents = live time st.tree.ents := by rw [← hl, live_eq_self hlive]
  refine ⟨⟨t', p'⟩, _, _, tr', by simp only [St.kExport]; rw [he], hw, hents, ?_, ?_⟩
  · rw [← hents]; simp [T.ents]
  · have := hw.slots.count
    simp only at this
    simp only [List.length_map, T.length_toList]
    omega

end ITree
