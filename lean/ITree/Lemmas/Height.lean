import ITree.Lemmas.Bal
namespace ITree
variable {ε : Type}

/-- a red node has black children, so along any path at most every second node is red -/
theorem Bal.height_le {t : T ε} {n} (h : Bal t n) :
    t.height ≤ 2 * n + (if t.isBlack then 0 else 1) := by
  induction h with
  | leaf => simp [T.height]
  | @red l r s e n hl hr bl br ihl ihr =>
    simp only [T.height, T.isBlack_node]
    simp only [bl, br, if_true] at ihl ihr
    simp; omega
  | @black l r s e n hl hr ihl ihr =>
    simp only [T.height, T.isBlack_node]
    have : (Color.black == Color.black) = true := rfl
    simp only [this, if_true]
    split at ihl <;> split at ihr <;> omega

theorem Bal.size_ge {t : T ε} {n} (h : Bal t n) : 2 ^ n ≤ t.size + 1 := by
  induction h with
  | leaf => simp
  | red hl hr _ _ ihl ihr => simp only [T.size_node]; omega
  | black hl hr ihl ihr => simp only [T.size_node, Nat.pow_succ]; omega

end ITree
