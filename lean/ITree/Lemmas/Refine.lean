import ITree.Lemmas.Search
/-!
# Refinement of the map / set to a sorted association list
-/
namespace ITree
variable {V ε : Type}

/-- the specification: an association list kept sorted by key -/
abbrev Spec (V : Type) := List (Ent V)

def Spec.insert (l : Spec V) (e : Ent V) : Spec V :=
  l.filter (fun x => x.key < e.key) ++ e :: l.filter (fun x => e.key < x.key)
def Spec.erase (l : Spec V) (key : Int) : Spec V := l.filter (fun x => x.key != key)
def Spec.lookup (l : Spec V) (key : Int) : Option V := (l.find? (fun x => x.key == key)).map (·.val)
def Spec.setVal (l : Spec V) (key : Int) (v : V) : Spec V :=
  l.map fun x => if x.key = key then x.setVal v else x

theorem filter_split_lt {A B : List (Ent V)} {k : Int} (ha : ∀ x ∈ A, x.key < k) (hb : ∀ x ∈ B, k < x.key) :
    (A ++ B).filter (fun x => x.key < k) = A ∧ (A ++ B).filter (fun x => k < x.key) = B := by
  constructor
  · rw [List.filter_append]
    have h1 : A.filter (fun x => x.key < k) = A := List.filter_eq_self.mpr (by simpa using ha)
    have h2 : B.filter (fun x => x.key < k) = [] := List.filter_eq_nil_iff.mpr (by
      intro x hx; have := hb x hx; simp; omega)
    simp [h1, h2]
  · rw [List.filter_append]
    have h1 : A.filter (fun x => k < x.key) = [] := List.filter_eq_nil_iff.mpr (by
      intro x hx; have := ha x hx; simp; omega)
    have h2 : B.filter (fun x => k < x.key) = B := List.filter_eq_self.mpr (by simpa using hb)
    simp [h1, h2]

theorem St.insert_refines (st : St V) (e : Ent V) (h : WF st) (hfresh : e.key ∉ st.tree.keys) :
    (st.insert e).tree.ents = Spec.insert st.tree.ents e := by
  obtain ⟨_, L, R, slot, h1, h2, h3, h4, _⟩ := St.insert_spec st e h hfresh
  have hs := filter_split_lt (A := L.map (·.2)) (B := R.map (·.2)) (k := e.key)
    (by simpa using fun b a hab => h3 (a, b) hab) (by simpa using fun b a hab => h4 (a, b) hab)
  simp only [T.ents, h1, h2, Spec.insert, List.map_append, List.map_cons, hs.1, hs.2]

theorem erase_mid {A B : List (Ent V)} {e : Ent V}
    (ho : ((A ++ e :: B).map (·.key)).Pairwise (· < ·)) :
    Spec.erase (A ++ e :: B) e.key = A ++ B := by
  simp only [List.map_append, List.map_cons, List.pairwise_append, List.pairwise_cons, List.mem_map,
    List.mem_cons] at ho
  obtain ⟨_, ⟨heb, _⟩, hab⟩ := ho
  simp only [Spec.erase, List.filter_append, List.filter_cons]
  have h1 : A.filter (fun x => x.key != e.key) = A := List.filter_eq_self.mpr (by
    intro x hx
    have := hab _ ⟨x, hx, rfl⟩ e.key (Or.inl rfl)
    simp; omega)
  have h2 : B.filter (fun x => x.key != e.key) = B := List.filter_eq_self.mpr (by
    intro x hx
    have := heb _ ⟨x, hx, rfl⟩
    simp; omega)
  simp [h1, h2]

theorem erase_absent {l : List (Ent V)} {key : Int} (h : key ∉ l.map (·.key)) : Spec.erase l key = l := by
  apply List.filter_eq_self.mpr
  intro x hx
  have : x.key ≠ key := fun heq => h (by simp only [List.mem_map]; exact ⟨x, hx, heq⟩)
  simpa using this

/-- removal by key -/
theorem St.delete_refines (st : St V) (key : Int) (h : WF st) :
    ∃ st', st.delete key = some st' ∧ WF st' ∧ st'.tree.ents = Spec.erase st.tree.ents key ∧
      (key ∉ st.tree.keys → st' = st) := by
  simp only [St.delete]
  cases hf : findKey key [] st.tree with
  | none =>
    have hnot := findKey_none key [] st.tree h.ordered hf
    exact ⟨st, rfl, h, (erase_absent (by simpa [T.keys_ents] using hnot)).symm, fun _ => rfl⟩
  | some p =>
    obtain ⟨k, t⟩ := p
    obtain ⟨hp, c, l, s, e, r, rfl, hek⟩ := findKey_some key [] st.tree hf
    obtain ⟨st', h1, h2, h3, h4, _⟩ := St.deleteAt_spec st k h (by simpa using hp)
    refine ⟨st', h1, h2, ?_, ?_⟩
    · simp only [T.ents]
      rw [h3, h4, ← hek]
      refine (erase_mid ?_).symm
      have := h.ordered
      simp only [Ordered, T.keys] at this
      rw [show st.tree.toList.map (fun x => x.2.key) = (st.tree.toList.map (·.2)).map (·.key) by simp, h4] at this
      exact this
    · intro hnot
      exfalso; apply hnot
      rw [T.keys_ents]
      simp only [T.ents]
      rw [h4]
      simp [hek]

theorem inj_of_nodup_map {α β : Type} {f : α → β} {l : List α} (h : (l.map f).Nodup) :
    ∀ {a b : α}, a ∈ l → b ∈ l → f a = f b → a = b := by
  induction l with
  | nil => intro a b ha; simp at ha
  | cons x xs ih =>
    simp only [List.map_cons, List.nodup_cons, List.mem_map] at h
    intro a b ha hb hab
    rcases List.mem_cons.mp ha with rfl | ha' <;> rcases List.mem_cons.mp hb with rfl | hb'
    · rfl
    · exact absurd ⟨b, hb', hab.symm⟩ h.1
    · exact absurd ⟨a, ha', hab⟩ h.1
    · exact ih h.2 ha' hb' hab

theorem find_slot_pair {ys : List (Nat × Ent V)} {slot : Nat} (hnd : (ys.map (·.1)).Nodup) :
    ∀ x, (slot, x) ∈ ys → (ys.find? (fun y => y.1 == slot)).map (·.2) = some x := by
  induction ys with
  | nil => intro x hx; simp at hx
  | cons y ys ih =>
    intro x hx
    simp only [List.map_cons, List.nodup_cons, List.mem_map] at hnd
    simp only [List.find?_cons]
    rcases List.mem_cons.mp hx with rfl | hx'
    · simp
    · have : (y.1 == slot) = false := by
        simp only [beq_eq_false_iff_ne, ne_eq]
        intro heq
        exact hnd.1 ⟨(slot, x), hx', by simp [heq]⟩
      simp only [this]
      exact ih hnd.2 x hx'

/-- the entity stored in a slot is the one paired with it in the in-order sequence -/
theorem T.mem_of_atSlot {t : T (Ent V)} {slot : Nat} {e : Ent V} (hn : t.slots.Nodup)
    (he : t.atSlot slot = some e) : (slot, e) ∈ t.toList := by
  rw [T.atSlot_spec t slot hn] at he
  simp only [Option.map_eq_some_iff] at he
  obtain ⟨⟨s, x⟩, hf, rfl⟩ := he
  have := List.find?_some hf
  have hs' : s = slot := by simpa using this
  subst hs'
  exact List.mem_of_find?_eq_some hf

theorem T.atSlot_of_mem {t : T (Ent V)} {slot : Nat} {e : Ent V} (hn : t.slots.Nodup)
    (he : (slot, e) ∈ t.toList) : t.atSlot slot = some e := by
  rw [T.atSlot_spec t slot hn]
  exact find_slot_pair hn e he

/-- removal through a handle removes exactly the entry the handle designates -/
theorem St.deleteByIndex_refines (st : St V) (slot : Nat) (e : Ent V) (h : WF st)
    (hmem : (slot, e) ∈ st.tree.toList) :
    ∃ st', st.deleteByIndex slot = some st' ∧ WF st' ∧ st'.tree.ents = Spec.erase st.tree.ents e.key := by
  simp only [St.deleteByIndex]
  cases hf : findSlot slot [] st.tree with
  | none => exact absurd (T.mem_slots_of_mem hmem) (findSlot_none slot [] st.tree hf)
  | some p =>
    obtain ⟨k, t⟩ := p
    obtain ⟨hp, c, l, e', r, rfl⟩ := findSlot_some slot [] st.tree hf
    obtain ⟨st', h1, h2, h3, h4, _⟩ := St.deleteAt_spec st k h (by simpa using hp)
    -- the entity at that slot is `e` (slots are distinct)
    have hmem' : (slot, e') ∈ st.tree.toList := by
      have : st.tree.toList = ctxLeft k ++ (l.toList ++ (slot, e') :: r.toList) ++ ctxRight k := by
        have := congrArg T.toList hp
        simpa [toList_plug] using this.symm
      rw [this]; simp
    have hnd := h.slots.nodup
    have he : e' = e := by
      have a1 := (T.atSlot_spec st.tree slot hnd)
      -- both pairs are found by the same `find?`
      have aux : ∀ (ys : List (Nat × Ent V)) (x : Ent V), (ys.map (·.1)).Nodup → (slot, x) ∈ ys →
          (ys.find? (fun y => y.1 == slot)).map (·.2) = some x := by
        intro ys
        induction ys with
        | nil => intro x _ hx; simp at hx
        | cons y ys ih =>
          intro x hnd' hx
          simp only [List.map_cons, List.nodup_cons, List.mem_map] at hnd'
          simp only [List.find?_cons]
          rcases List.mem_cons.mp hx with rfl | hx'
          · simp
          · have : (y.1 == slot) = false := by
              simp only [beq_eq_false_iff_ne, ne_eq]
              intro heq
              exact hnd'.1 ⟨(slot, x), hx', by simp [heq]⟩
            simp only [this]
            exact ih x hnd'.2 hx'
      have key : ∀ x, (slot, x) ∈ st.tree.toList → st.tree.atSlot slot = some x := by
        intro x hx
        rw [a1]
        exact aux _ x hnd hx
      have := (key e' hmem').symm.trans (key e hmem)
      simpa using this
    subst he
    refine ⟨st', h1, h2, ?_⟩
    simp only [T.ents]
    rw [h3, h4]
    refine (erase_mid ?_).symm
    have := h.ordered
    simp only [Ordered, T.keys] at this
    rw [show st.tree.toList.map (fun x => x.2.key) = (st.tree.toList.map (·.2)).map (·.key) by simp, h4] at this
    exact this

theorem St.getValue_refines (st : St V) (key : Int) (h : WF st) :
    st.getValue key = Spec.lookup st.tree.ents key := by
  simp only [St.getValue, Spec.lookup, T.lookup_spec st.tree key h.ordered]

end ITree
