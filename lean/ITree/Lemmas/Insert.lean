import ITree.Lemmas.Bal
/-!
# `fix_red_black_properties_after_insert` (`insertFix`) and `linkNew`: balance
-/
namespace ITree
variable {ε : Type}

theorem T.isBlack_of_not_redNode {t : T ε} (h : t.isRedNode = false) : t.isBlack = true := by
  cases t with
  | leaf => rfl
  | node c _ _ _ _ => cases c <;> simp_all [T.isRedNode]

theorem T.isBlack_false_of_redNode {t : T ε} (h : t.isRedNode = true) : t.isBlack = false := by
  cases t with
  | leaf => simp [T.isRedNode] at h
  | node c _ _ _ _ => cases c <;> simp_all [T.isRedNode]

/-- facts about parent / grand-parent when the parent is red -/
theorem grand_facts {p g : Frame ε} {rest : Ctx ε} {n0 : T ε} {hgt m : Nat}
    (h : Bal (plug (p :: g :: rest) n0) m) (hn0 : Bal n0 hgt) (hpr : p.c = .red) :
    Bal (g.fill (p.fill n0)) (hgt + 1) ∧ g.c = .black ∧ Bal p.sib hgt ∧ p.sib.isBlack = true ∧
      Bal g.sib hgt := by
  simp only [plug_cons] at h
  obtain ⟨mg, hmg⟩ := Bal.of_plug h
  obtain ⟨n2, e2, hpf, hgs, hgc⟩ := hmg.of_fill
  obtain ⟨n1, e1, h2, h3, h4⟩ := hpf.of_fill
  have := Bal.unique h2 hn0; subst this
  have hgb : g.c = .black := by
    cases hg : g.c with
    | black => rfl
    | red => have := (hgc hg).1; simp [isBlack_fill, hpr] at this
  have hn2 : n2 = n1 := by simp [e1, hpr]
  subst hn2
  exact ⟨by simpa [e2, hgb] using hmg, hgb, h3, (h4 hpr).2, hgs⟩

/-- the recoloured grand-parent subtree of case 3 (red uncle) -/
theorem recolour_bal {p g : Frame ε} {n : T ε} {hgt : Nat} (hn : Bal n hgt)
    (hps : Bal p.sib hgt) (hgs : Bal g.sib hgt) (hu : g.sib.isRedNode = true) :
    Bal (plug [{ p with c := .black }, { g with c := .red, sib := g.sib.setColor .black }] n) (hgt + 1) := by
  simp only [plug_cons, plug_nil]
  exact Bal.fill (f := { g with c := .red, sib := g.sib.setColor .black })
    (Bal.fill (f := { p with c := .black }) hn hps (by simp))
    (by simpa using Bal.setBlack hgs (T.isBlack_false_of_redNode hu))
    (by simp [isBlack_fill])

/-- `n` is a red node of black height `hgt` with black children, standing where the black-rooted
`n0` of the same black height stood; its parent (innermost frame) is red. -/
theorem insertFix_bal (k : Ctx ε) (n : T ε) :
    ∀ {n0 : T ε} {hgt m : Nat}, Bal (plug k n0) m → Bal n0 hgt →
      Bal n hgt → n.isBlack = false → (∀ p ∈ k.head?, p.c = .red) →
      ∃ m', Bal (insertFix k n) m' := by
  fun_induction insertFix k n with
  | case1 n => intro n0 hgt m _ _ hn _ _; exact ⟨_, hn⟩
  | case2 p n =>
    intro n0 hgt m h hn0 hn hnr hp
    have hpr : p.c = .red := hp p (by simp)
    obtain ⟨n1, _, h2, h3, h4⟩ := (show Bal (p.fill n0) m from h).of_fill
    have := Bal.unique h2 hn0; subst this
    exact ⟨_, Bal.fill (f := { p with c := .black }) hn h3 (by simp)⟩
  | case3 p g n hu =>
    intro n0 hgt m h hn0 hn hnr hp
    obtain ⟨_, _, hps, _, hgs⟩ := grand_facts h hn0 (hp p (by simp))
    exact ⟨_, recolour_bal hn hps hgs hu⟩
  | case4 =>
    rename_i p g n hu n' gg tl hggr ih
    intro n0 hgt m h hn0 hn hnr hp
    obtain ⟨hg, hgb, hps, _, hgs⟩ := grand_facts h hn0 (hp p (by simp))
    refine ih (n0 := g.fill (p.fill n0)) h hg (recolour_bal hn hps hgs hu) ?_ ?_
    · show (plug [{ p with c := .black }, { g with c := .red, sib := g.sib.setColor .black }] n).isBlack = false
      simp [isBlack_fill]
    · intro q hq
      simp only [List.head?_cons, Option.mem_def, Option.some.injEq] at hq
      subst hq
      simpa using hggr
  | case5 =>
    rename_i p g n hu n' gg tl hggr
    intro n0 hgt m h hn0 hn hnr hp
    obtain ⟨hg, hgb, hps, _, hgs⟩ := grand_facts h hn0 (hp p (by simp))
    refine ⟨m, Bal.plug_subst (k := gg :: tl) h hg (recolour_bal hn hps hgs hu) (Or.inr ?_)⟩
    cases hc : gg.c <;> simp_all [Ctx.topBlack]
  | case6 p g rest hu =>
    intro n0 hgt m _ _ _ hnr _
    simp at hnr
  | case7 p g rest hu c nl sn en nr =>
    intro n0 hgt m h hn0 hn hnr hp
    have hpr : p.c = .red := hp p (by simp)
    obtain ⟨hg, hgb, hps, hpsb, hgs⟩ := grand_facts h hn0 hpr
    have hub : g.sib.isBlack = true := T.isBlack_of_not_redNode (by simpa using hu)
    have hcr : c = .red := by cases c <;> simp_all
    subst hcr
    obtain ⟨nn, enn, hnl, hnr', hncol⟩ := hn.node_inv
    have : nn = hgt := by simpa using enn.symm
    subst this
    have hnlb := (hncol rfl).1
    have hnrb := (hncol rfl).2
    obtain ⟨pc, ps, pe, psib, pside⟩ := p
    obtain ⟨gc, gs, ge, gsib, gside⟩ := g
    simp only at hpr hgb hub hpsb hps hgs
    refine ⟨m, Bal.plug_subst (k := rest) h hg (t' := _) ?_ (Or.inl fun _ => ?_)⟩
    · cases gside <;> cases pside <;> simp only
      · exact Bal.black hn (Bal.red hps hgs hpsb hub)
      · exact Bal.black (Bal.red hps hnl hpsb hnlb) (Bal.red hnr' hgs hnrb hub)
      · exact Bal.black (Bal.red hgs hnl hub hnlb) (Bal.red hnr' hps hnrb hpsb)
      · exact Bal.black (Bal.red hgs hps hub hpsb) hn
    · cases gside <;> cases pside <;> rfl

/-- linking a new red node where a leaf was -/
theorem linkNew_bal {V : Type} (k : Ctx (Ent V)) (slot : Nat) (e : Ent V) {m : Nat}
    (h : Bal (plug k .leaf) m) : ∃ m', Bal (linkNew k slot e) m' := by
  have hnew : Bal (T.node .red .leaf slot e .leaf) 0 := Bal.red Bal.leaf Bal.leaf rfl rfl
  cases k with
  | nil => exact ⟨1, Bal.black Bal.leaf Bal.leaf⟩
  | cons p rest =>
    simp only [linkNew]
    by_cases hp : (p.c == .red) = true
    · simp only [hp, if_true]
      exact insertFix_bal (p :: rest) _ h Bal.leaf hnew rfl (by
        intro q hq
        simp only [List.head?_cons, Option.mem_def, Option.some.injEq] at hq
        subst hq; simpa using hp)
    · simp only [hp]
      refine ⟨m, Bal.plug_subst h Bal.leaf hnew (Or.inr ?_)⟩
      cases hc : p.c <;> simp_all [Ctx.topBlack]

end ITree
