import ITree.Lemmas.KSearch
/-!
# Expiring tree: queries, insertion and ordered export against the live content
-/
namespace ITree
variable {V : Type}

theorem St.kQuery_spec (st : St V) (mode : Mode) (time : Int) (f : Int → Ordering) (h : WF st)
    (hm : MonoE f (live time st.tree.ents)) :
    ∃ st' r tr, st.kQuery mode time f = some (st', r, tr) ∧ WF st' ∧
      live time st'.tree.ents = live time st.tree.ents ∧ r = specPred mode f (live time st.tree.ents) := by
  obtain ⟨k, t, p, tr, he, hx⟩ := expireFocus_spec time (st.tree.size + 1) [] st.tree st.pool []
    (by simpa using h) (by omega)
  have hl : live time (plug k t).ents = live time st.tree.ents := by
    rw [ents_plug]; simp [ctxLeftE, ctxRightE, hx.left, hx.right, hx.live_eq]
  have inv : SearchInv mode time f k t p none := by
    refine ⟨hx.wf, hx.root_live, hl ▸ hm, ?_, ?_, ?_⟩
    · simp [ctxLeftE, hx.left]
    · simp [ctxRightE, hx.right]
    · cases mode <;> simp [resFor, ctxLeftE, hx.left]
  obtain ⟨t', p', r, tr', hs, hw, hl', hr⟩ := search_spec mode time f (t.size + 1) k t p none tr inv (by omega)
  refine ⟨⟨t', p'⟩, r, tr', ?_, hw, hl'.trans hl, hl ▸ hr⟩
  simp [St.kQuery, he, hs]

theorem Ordered.of_plug {k : Ctx (Ent V)} {t : T (Ent V)} (h : Ordered (plug k t)) : Ordered t := by
  simp only [Ordered, T.keys, toList_plug, List.map_append] at h ⊢
  exact (List.pairwise_append.mp (List.pairwise_append.mp h).1).2.1

/-- invariant of the insert descent: strict bounds on both sides -/
structure InsInv (time : Int) (key : Int) (k : Ctx (Ent V)) (t : T (Ent V)) (p : Pool) : Prop where
  wf : WF (⟨plug k t, p⟩ : St V)
  root_live : ∀ c l s e r, t = .node c l s e r → time < e.exp
  left_lt : ∀ x ∈ ctxLeftE k, x.key < key
  right_gt : ∀ x ∈ ctxRightE k, key < x.key

theorem insDescend_spec (time : Int) (e : Ent V) (fuel : Nat) :
    ∀ (k : Ctx (Ent V)) (t : T (Ent V)) (p : Pool) (tr : List (Ev V)),
    InsInv time e.key k t p → (∀ x ∈ live time (plug k t).ents, x.key ≠ e.key) → t.size < fuel →
    ∃ t' p' tr', insDescend time e fuel k t p tr = some (t', p', tr') ∧ WF (⟨t', p'⟩ : St V) ∧
      ∃ A B, live time (plug k t).ents = A ++ B ∧ live time t'.ents = A ++ live time [e] ++ B ∧
        (∀ x ∈ A, x.key < e.key) ∧ (∀ x ∈ B, e.key < x.key) := by
  induction fuel with
  | zero => intro k t p tr _ _ h; omega
  | succ fuel ih =>
    intro k t p tr inv hfresh hfuel
    obtain ⟨hwf, hroot, hL, hR⟩ := inv
    cases t with
    | leaf =>
      simp only [insDescend]
      have hperm := hwf.slots
      obtain ⟨a1, a2, a3, a4, a5, a6⟩ := Pool.alloc_spec (t := plug k .leaf) hperm
      have hnew : (linkNew k p.alloc.1 e).toList = ctxLeft k ++ (p.alloc.1, e) :: ctxRight k := linkNew_toList _ _ _
      have hold : (plug k (.leaf : T (Ent V))).toList = ctxLeft k ++ ctxRight k := by simp [toList_plug]
      refine ⟨_, _, tr, rfl, ⟨?_, ?_, ?_⟩, live time (ctxLeftE k), live time (ctxRightE k), ?_, ?_, ?_, ?_⟩
      · show ((linkNew k p.alloc.1 e).toList.map (·.2.key)).Pairwise (· < ·)
        rw [hnew]
        apply pairwise_insert_mid
        · rw [← hold]; exact hwf.ordered
        · intro y hy; exact hL y.2 (by simp only [ctxLeftE, List.mem_map]; exact ⟨y, hy, rfl⟩)
        · intro y hy; exact hR y.2 (by simp only [ctxRightE, List.mem_map]; exact ⟨y, hy, rfl⟩)
      · obtain ⟨m, hb⟩ := hwf.bal
        exact linkNew_bal _ _ _ hb
      · refine ⟨?_, a4, by simpa [a5] using hperm.2.2⟩
        have hsl : (linkNew k p.alloc.1 e).slots.Perm (p.alloc.1 :: (plug k (.leaf : T (Ent V))).slots) := by
          rw [T.slots_eq, T.slots_eq, hnew, hold]
          simp only [List.map_append, List.map_cons]
          exact List.perm_middle
        exact List.Perm.trans (List.Perm.cons 0 (List.Perm.append_right _ hsl)) a3
      · rw [ents_plug]; simp [live_append]
      · rw [T.ents, hnew]
        simp only [List.map_append, List.map_cons, ctxLeftE, ctxRightE]
        rw [show ∀ (a b : List (Ent V)), a ++ e :: b = a ++ [e] ++ b from by simp, live_append, live_append]
      · intro x hx; exact hL x (List.mem_filter.mp hx).1
      · intro x hx; exact hR x (List.mem_filter.mp hx).1
    | node c l s x r =>
      have hxlive : time < x.exp := hroot c l s x r rfl
      have hxne : x.key ≠ e.key := by
        apply hfresh
        simp [ents_plug, live_append, live_cons, hxlive]
      obtain ⟨_, _, hlk, hrk⟩ := ordered_node (Ordered.of_plug hwf.ordered)
      simp only [insDescend]
      split
      · rename_i hlt
        obtain ⟨k', f', p', tr', he, hx⟩ := expireFocus_spec time (l.size + 1) (⟨c, s, x, r, .L⟩ :: k) l p
          (⟨.cmp, x, k, T.node c l s x r, p⟩ :: tr) (by simpa [Frame.fill] using hwf) (by omega)
        have hplug : live time (plug k' f').ents = live time (plug k (T.node c l s x r)).ents := by
          rw [ents_plug, ents_plug]
          simp only [ctxLeftE, ctxRightE, hx.left, hx.right, live_append, hx.live_eq]
          simp [Frame.lefts, Frame.rights, live_append, live_cons, hxlive, T.ents, List.append_assoc]
        have inv' : InsInv time e.key k' f' p' := by
          refine ⟨hx.wf, hx.root_live, ?_, ?_⟩
          · simp only [ctxLeftE, hx.left]; simpa [ctxLeftE, Frame.lefts] using hL
          · simp only [ctxRightE, hx.right]
            intro y hy
            simp only [ctxRight_cons, Frame.rights, List.map_append, List.map_cons, List.cons_append,
              List.mem_cons, List.mem_append, List.mem_map] at hy
            rcases hy with rfl | ⟨z, hz, rfl⟩ | ⟨z, hz, rfl⟩
            · exact hlt
            · have := hrk z.2.key (by simp only [T.keys, List.mem_map]; exact ⟨z, hz, rfl⟩)
              omega
            · exact hR z.2 (by simp only [ctxRightE, List.mem_map]; exact ⟨z, hz, rfl⟩)
        obtain ⟨t', p'', tr'', hs, hw', A, B, h1, h2, h3, h4⟩ := ih k' f' p' tr' inv' (hplug ▸ hfresh)
          (by have := hx.size_le; simp only [T.size_node] at hfuel; omega)
        exact ⟨t', p'', tr'', by rw [he]; exact hs, hw', A, B, hplug ▸ h1, h2, h3, h4⟩
      · rename_i hge
        have hgt : x.key < e.key := by omega
        obtain ⟨k', f', p', tr', he, hx⟩ := expireFocus_spec time (r.size + 1) (⟨c, s, x, l, .R⟩ :: k) r p
          (⟨.cmp, x, k, T.node c l s x r, p⟩ :: tr) (by simpa [Frame.fill] using hwf) (by omega)
        have hplug : live time (plug k' f').ents = live time (plug k (T.node c l s x r)).ents := by
          rw [ents_plug, ents_plug]
          simp only [ctxLeftE, ctxRightE, hx.left, hx.right, live_append, hx.live_eq]
          simp [Frame.lefts, Frame.rights, live_append, live_cons, hxlive, T.ents, List.append_assoc]
        have inv' : InsInv time e.key k' f' p' := by
          refine ⟨hx.wf, hx.root_live, ?_, ?_⟩
          · simp only [ctxLeftE, hx.left]
            intro y hy
            simp only [ctxLeft_cons, Frame.lefts, List.map_append, List.map_cons, List.map_nil,
              List.mem_append, List.mem_singleton, List.mem_map] at hy
            rcases hy with ⟨z, hz, rfl⟩ | ⟨z, hz, rfl⟩ | rfl
            · exact hL z.2 (by simp only [ctxLeftE, List.mem_map]; exact ⟨z, hz, rfl⟩)
            · have := hlk z.2.key (by simp only [T.keys, List.mem_map]; exact ⟨z, hz, rfl⟩)
              omega
            · exact hgt
          · simp only [ctxRightE, hx.right]; simpa [ctxRightE, Frame.rights] using hR
        obtain ⟨t', p'', tr'', hs, hw', A, B, h1, h2, h3, h4⟩ := ih k' f' p' tr' inv' (hplug ▸ hfresh)
          (by have := hx.size_le; simp only [T.size_node] at hfuel; omega)
        exact ⟨t', p'', tr'', by rw [he]; exact hs, hw', A, B, hplug ▸ h1, h2, h3, h4⟩

/-- **insert** (key not live): the live content gains exactly the new entry at its place in key
order (nothing, if the entry is already expired at the insertion time) -/
theorem St.kInsert_spec (st : St V) (e : Ent V) (time : Int) (h : WF st)
    (hfresh : ∀ x ∈ live time st.tree.ents, x.key ≠ e.key) :
    ∃ st' tr, st.kInsert e time = some (st', tr) ∧ WF st' ∧
      ∃ A B, live time st.tree.ents = A ++ B ∧ live time st'.tree.ents = A ++ live time [e] ++ B ∧
        (∀ x ∈ A, x.key < e.key) ∧ (∀ x ∈ B, e.key < x.key) := by
  obtain ⟨k, t, p, tr, he, hx⟩ := expireFocus_spec time (st.tree.size + 1) [] st.tree st.pool
    [⟨.exp, e, [], st.tree, st.pool⟩] (by simpa using h) (by omega)
  have hl : live time (plug k t).ents = live time st.tree.ents := by
    rw [ents_plug]; simp [ctxLeftE, ctxRightE, hx.left, hx.right, hx.live_eq]
  have inv : InsInv time e.key k t p := ⟨hx.wf, hx.root_live, by simp [ctxLeftE, hx.left], by simp [ctxRightE, hx.right]⟩
  obtain ⟨t', p', tr', hs, hw, A, B, h1, h2, h3, h4⟩ := insDescend_spec time e (t.size + 1) k t p tr inv (hl ▸ hfresh) (by omega)
  exact ⟨⟨t', p'⟩, tr', by simp [St.kInsert, he, hs], hw, A, B, hl ▸ h1, h2, h3, h4⟩

end ITree
