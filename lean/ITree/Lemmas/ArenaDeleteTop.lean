import ITree.Lemmas.ArenaDelete
import ITree.Lemmas.Delete
/-!
# `delete_index`, `delete`, `delete_by_index` of the arena against `deleteFocus` / `St.delete*`
-/
namespace ITree
variable {V : Type}

/-! ### model side: `deleteFocus` in terms of `unlinkM` -/

theorem leftmost_append (K : Ctx (Ent V)) (t : T (Ent V)) :
    leftmost K t = ((leftmost [] t).1 ++ K, (leftmost [] t).2) := by
  suffices h : ∀ (K0 : Ctx (Ent V)) (t : T (Ent V)) (K : Ctx (Ent V)),
      leftmost (K0 ++ K) t = ((leftmost K0 t).1 ++ K, (leftmost K0 t).2) by simpa using h [] t K
  intro K0 t
  fun_induction leftmost K0 t with
  | case1 k c c' l' s' e' r' s e r ih =>
    intro K
    have := ih K
    simp only [List.cons_append] at this
    simp only [leftmost]
    exact this
  | case2 k t h =>
    intro K
    cases t with
    | leaf => simp [leftmost]
    | node c l s e r =>
      cases l with
      | leaf => simp [leftmost]
      | node c' l' s' e' r' => exact absurd rfl (h c c' l' s' e' r' s e r)

theorem leftmost_minSlot (K : Ctx (Ent V)) (t : T (Ent V)) {cs : Color} {sl rs : T (Ent V)} {ss : Nat} {es : Ent V}
    (h : (leftmost K t).2 = .node cs sl ss es rs) : t.minSlot = some ss := by
  fun_induction leftmost K t with
  | case1 k c c' l' s' e' r' s e r ih =>
    have := ih h
    simp only [T.minSlot] at this ⊢
    simp [this]
  | case2 k t hne =>
    simp only at h
    subst h
    cases sl with
    | leaf => simp [T.minSlot]
    | node c' l' s' e' r' => exact absurd rfl (hne cs c' l' s' e' r' ss es rs)

/-- the arena realises the located successor -/
theorem leftmost_rep {a : Arena V} (K : Ctx (Ent V)) (t : T (Ent V)) {i p : Nat}
    (hc : RepCtx a K i p) (hr : Rep a i p t) :
    ∃ i' p', RepCtx a (leftmost K t).1 i' p' ∧ Rep a i' p' (leftmost K t).2 := by
  fun_induction leftmost K t generalizing i p with
  | case1 k c c' l' s' e' r' s e r ih =>
    have hi : i = s := hr.1
    subst hi
    obtain ⟨j, hcj, hrj⟩ := Rep.down_left hc hr
    exact ih hcj hrj
  | case2 k t _ => exact ⟨i, p, hc, hr⟩

/-- removal of a node with at most one child is `unlinkM` -/
theorem deleteFocus_simple (k : Ctx (Ent V)) (c : Color) (l r : T (Ent V)) (s : Nat) (e : Ent V)
    (h : l = .leaf ∨ r = .leaf) :
    deleteFocus k (.node c l s e r) = (unlinkM k c l r).map fun x => (x.1, x.2, s) := by
  cases l with
  | leaf =>
    cases r with
    | leaf =>
      cases k with
      | nil => simp [deleteFocus, unlinkM]
      | cons f K => simp [deleteFocus, unlinkM, Option.map_map, Function.comp_def]
    | node cr lr sr er rr => simp [deleteFocus, unlinkM, Option.map_map, Function.comp_def]
  | node cl ll sl el rl =>
    cases r with
    | leaf => simp [deleteFocus, unlinkM, Option.map_map, Function.comp_def]
    | node cr lr sr er rr => simp at h

/-- removal of a node with two children is `unlinkM` at its in-order successor, whose entity moved up -/
theorem deleteFocus_two (k : Ctx (Ent V)) (c : Color) (cl cr : Color) (ll rl lr rr : T (Ent V)) (sl sr s : Nat)
    (el er e : Ent V) {k'' : Ctx (Ent V)} {t'' : T (Ent V)} {freed : Nat}
    (h : deleteFocus k (.node c (.node cl ll sl el rl) s e (.node cr lr sr er rr)) = some (k'', t'', freed)) :
    ∃ cs ss es rs KK' repl,
      (leftmost [] (T.node cr lr sr er rr)).2 = .node cs .leaf ss es rs ∧
      unlinkM ((leftmost [] (T.node cr lr sr er rr)).1 ++ [⟨c, s, es, .node cl ll sl el rl, .R⟩] ++ k) cs .leaf rs
        = some (KK', repl) ∧
      plug KK' repl = plug k'' t'' ∧ freed = ss := by
  obtain ⟨_, _, hsucc⟩ := leftmost_spec ([] : Ctx (Ent V)) (T.node cr lr sr er rr)
  obtain ⟨cs, ss, es, rs, hs⟩ := hsucc (by simp)
  simp only [deleteFocus] at h
  cases hlm : leftmost ([] : Ctx (Ent V)) (T.node cr lr sr er rr) with
  | mk k' succ =>
  rw [hlm] at hs h
  simp only at hs
  subst hs
  simp only at h
  refine ⟨cs, ss, es, rs, ?_⟩
  cases rs with
  | node crs lrs srs ers rrs =>
    simp only at h
    cases hfu : fixUpD (k' ++ [⟨c, s, es, .node cl ll sl el rl, .R⟩]) true with
    | none => simp [hfu] at h
    | some x =>
    obtain ⟨inner', d'⟩ := x
    simp only [hfu] at h
    cases hfk : fixUp k d' with
    | none => simp [hfk] at h
    | some k2 =>
    simp only [hfk, Option.map_some, Option.some.injEq, Prod.mk.injEq] at h
    obtain ⟨rfl, rfl, rfl⟩ := h
    simp only [fixUp] at hfk
    cases hfk2 : fixUpD k d' with
    | none => simp [hfk2] at hfk
    | some y =>
    obtain ⟨k3, d3⟩ := y
    simp only [hfk2, Option.map_some, Option.some.injEq] at hfk
    subst hfk
    refine ⟨inner' ++ k3, T.node crs lrs srs ers rrs, rfl, ?_, by simp [plug_append], rfl⟩
    simp only [unlinkM, fixUp, fixUpD_append, hfu, hfk2, Option.map_some]
  | leaf =>
    simp only at h
    cases hfu : fixUpD (k' ++ [⟨c, s, es, .node cl ll sl el rl, .R⟩]) (cs == .black) with
    | none => simp [hfu] at h
    | some x =>
    obtain ⟨inner', d'⟩ := x
    simp only [hfu] at h
    cases hfk : fixUp k d' with
    | none => simp [hfk] at h
    | some k2 =>
    simp only [hfk, Option.map_some, Option.some.injEq, Prod.mk.injEq] at h
    obtain ⟨rfl, rfl, rfl⟩ := h
    simp only [fixUp] at hfk
    cases hfk2 : fixUpD k d' with
    | none => simp [hfk2] at hfk
    | some y =>
    obtain ⟨k3, d3⟩ := y
    simp only [hfk2, Option.map_some, Option.some.injEq] at hfk
    subst hfk
    refine ⟨inner' ++ k3, .leaf, rfl, ?_, by simp [plug_append], rfl⟩
    cases hk : k' ++ [⟨c, s, es, .node cl ll sl el rl, .R⟩] ++ k with
    | nil => simp at hk
    | cons g G =>
      simp only [unlinkM]
      rw [← hk]
      simp only [fixUp, fixUpD_append, hfu, hfk2, Option.map_some]

end ITree

namespace ITree
variable {V : Type}

/-- changing the entity of a frame somewhere in the context -/
theorem RepCtx.setEnt_mid {a : Arena V} (e' : Ent V) : ∀ (k1 : Ctx (Ent V)) (g : Frame (Ent V)) (k2 : Ctx (Ent V))
    (i p : Nat), RepCtx a (k1 ++ g :: k2) i p → g.s ∉ ctxSlots k1 → g.s ∉ g.sib.slots → g.s ∉ ctxSlots k2 →
    RepCtx (a.upd g.s fun m => { m with ent := e' }) (k1 ++ { g with e := e' } :: k2) i p := by
  intro k1
  induction k1 with
  | nil =>
    intro g k2 i p hc _ hsib hk2
    obtain ⟨rfl, n, hn, hr, _, hside, hrest⟩ := hc
    refine ⟨rfl, { n with ent := e' }, by simp [hn], hr, rfl, ?_, hrest.upd_other _ hk2⟩
    cases hs : g.side with
    | L => simp only [hs] at hside ⊢; exact ⟨hside.1, hside.2.upd_other _ hsib⟩
    | R => simp only [hs] at hside ⊢; exact ⟨hside.1, hside.2.upd_other _ hsib⟩
  | cons f k1 ih =>
    intro g k2 i p hc hk1 hsib hk2
    obtain ⟨rfl, n, hn, hr, he, hside, hrest⟩ := hc
    simp only [ctxSlots, List.mem_cons, List.mem_append, not_or] at hk1
    obtain ⟨hgf, hgfs, hgk1⟩ := hk1
    refine ⟨rfl, n, by simp [hgf, hn], hr, he, ?_, ih g k2 _ _ hrest hgk1 hsib hk2⟩
    cases hs : f.side with
    | L => simp only [hs] at hside ⊢; exact ⟨hside.1, hside.2.upd_other _ hgfs⟩
    | R => simp only [hs] at hside ⊢; exact ⟨hside.1, hside.2.upd_other _ hgfs⟩

/-- slots of the two-children situation: successor `succ` located at `k'` inside the right subtree `r` -/
theorem two_kids_perm {k k' : Ctx (Ent V)} {c : Color} {l r succ : T (Ent V)} {s : Nat} {e es : Ent V}
    (hplug : plug k' succ = r) :
    (succ.slots ++ ctxSlots (k' ++ (⟨c, s, es, l, .R⟩ : Frame (Ent V)) :: k)).Perm
      ((T.node c l s e r).slots ++ ctxSlots k) := by
  have hp := slots_plug k' succ
  rw [hplug] at hp
  rw [List.perm_iff_count]
  intro x
  have hx := hp.count_eq x
  simp only [ctxSlots_append, ctxSlots, T.slots_node, List.count_append, List.count_cons] at hx ⊢
  omega

end ITree

namespace ITree
variable {V : Type}

/-- **`delete_index`** at a located node: the pointer code (successor search, entity move, unlinking with the
NIL scratch slot, repair, `put_back`) realises `deleteFocus` and never indexes outside the arena -/
theorem deleteIndex_rep {a : Arena V} (hsize : a.nodes.size ≤ EMPTY) {k : Ctx (Ent V)} {c : Color} {l r : T (Ent V)}
    {s p : Nat} {e : Ent V}
    (hc : RepCtx a k s p) (hr : Rep a s p (.node c l s e r))
    (hnd : ((T.node c l s e r).slots ++ ctxSlots k).Nodup)
    (h0 : 0 < a.nodes.size) (h0s : 0 ∉ (T.node c l s e r).slots ++ ctxSlots k)
    {k'' : Ctx (Ent V)} {t'' : T (Ent V)} {freed : Nat}
    (hm : deleteFocus k (.node c l s e r) = some (k'', t'', freed)) :
    ∃ a', a.deleteIndex s = some a' ∧ Rep a' a'.root EMPTY (plug k'' t'') ∧
      poolOf a' = (poolOf a).free freed ∧ a'.nodes.size = a.nodes.size ∧ a'.dflt = a.dflt ∧
      (∀ x, (x ∉ (T.node c l s e r).slots ++ ctxSlots k ∨ x = freed) → x ≠ 0 → a'.node x = a.node x) ∧
      (ZeroOK a → ZeroOK a') := by
  have hr0 := hr
  obtain ⟨_, n, hn, hnp, hnr, hne, hl, hrr⟩ := hr0
  rw [deleteIndex_eq]
  simp only [hn, Option.bind_some]
  by_cases htwo : l = .leaf ∨ r = .leaf
  · -- at most one child
    have hcond : (n.left != EMPTY && n.right != EMPTY) = false := by
      rcases htwo with h | h
      · subst h; have : n.left = EMPTY := hl; simp [this]
      · subst h; have : n.right = EMPTY := hrr; simp [this]
    simp only [hcond, Bool.false_eq_true, if_false]
    rw [deleteFocus_simple k c l r s e htwo] at hm
    cases hu : unlinkM k c l r with
    | none => simp [hu] at hm
    | some x =>
    obtain ⟨KK', repl⟩ := x
    simp only [hu, Option.map_some, Option.some.injEq, Prod.mk.injEq] at hm
    obtain ⟨rfl, rfl, rfl⟩ := hm
    obtain ⟨a', h1, h2, h3, h4, h5, h6, h7⟩ := unlink_rep hsize hc hr hnd h0 h0s hu
    refine ⟨a', ?_, h2, h3, h4, h5, ?_, h7⟩
    · rw [hl.idx, hrr.idx, hnp, hnr]
      exact h1
    · intro x hx hx0
      refine h6 x ?_ hx0
      rcases hx with hx | rfl
      · slots_tac hx
      · slots_tac hnd
  · -- two children
    have hlne : l ≠ .leaf := fun h => htwo (Or.inl h)
    have hrne : r ≠ .leaf := fun h => htwo (Or.inr h)
    cases l with
    | leaf => exact absurd rfl hlne
    | node cl ll sl el rl =>
    cases r with
    | leaf => exact absurd rfl hrne
    | node cr lr sr er rr =>
    obtain ⟨cs, ss, es, rs, KK', repl, hsucc, hu, hplug, hfreed⟩ := deleteFocus_two k c cl cr ll rl lr rr sl sr s el er e hm
    subst freed
    have hll := node_lt hl.2.choose_spec.1
    have hrl := node_lt hrr.2.choose_spec.1
    have hcond : (n.left != EMPTY && n.right != EMPTY) = true := by
      rw [hl.1, hrr.1]; simp; omega
    simp only [hcond, if_true]
    -- the successor
    have hmin := leftmost_minSlot ([] : Ctx (Ent V)) (T.node cr lr sr er rr) hsucc
    have hfuelr : (T.node cr lr sr er rr).height < a.nodes.size + 1 + 1 := by
      have h1 := T.height_le_slots (T.node cr lr sr er rr)
      have h2 := nodup_lt_length _ _ (show (T.node cr lr sr er rr).slots.Nodup by slots_tac hnd) hrr.slots_lt
      omega
    have hflm := findLeftMinimum_rep hsize (a.nodes.size + 1) _ _ _ hrr (by simp) hfuelr
    rw [hmin] at hflm
    simp only [optIdx] at hflm
    simp only [hflm, Option.bind_some]
    -- where it sits
    obtain ⟨j, hcj, hrj⟩ := Rep.down_right hc hr
    obtain ⟨i', p', hcs, hrs⟩ := leftmost_rep _ _ hcj hrj
    rw [leftmost_append] at hcs hrs
    simp only at hcs hrs
    rw [hsucc] at hrs
    have hi' : i' = ss := hrs.1
    subst i'
    have hrs0 := hrs
    obtain ⟨_, sn, hsn, hsnp, hsnr, hsne, hsl, hsr⟩ := hrs0
    have hsle : sn.left = EMPTY := hsl
    simp only [hsn, Option.bind_some]
    have hslt := node_lt hn
    rw [Arena.setEnt_eq _ hslt]
    simp only [Option.bind_some]
    -- slots
    have hpl := (leftmost_spec ([] : Ctx (Ent V)) (T.node cr lr sr er rr)).1
    rw [hsucc] at hpl
    simp only [plug_nil] at hpl
    have hperm := two_kids_perm (k := k) (c := c) (l := T.node cl ll sl el rl) (s := s) (e := e) (es := es) hpl
    have hnd2 := hperm.nodup_iff.mpr hnd
    have h0s2 : 0 ∉ (T.node cs .leaf ss es rs).slots ++
        ctxSlots ((leftmost [] (T.node cr lr sr er rr)).1 ++ (⟨c, s, es, .node cl ll sl el rl, .R⟩ : Frame (Ent V)) :: k) :=
      fun h => h0s (hperm.mem_iff.mp h)
    -- the entity of the successor moves into slot s
    let a1 := a.upd s fun m => { m with ent := sn.ent }
    have hcs1 : RepCtx a1 ((leftmost [] (T.node cr lr sr er rr)).1 ++
        (⟨c, s, es, .node cl ll sl el rl, .R⟩ : Frame (Ent V)) :: k) ss p' := by
      have := RepCtx.setEnt_mid (a := a) sn.ent (leftmost [] (T.node cr lr sr er rr)).1
        (⟨c, s, e, .node cl ll sl el rl, .R⟩ : Frame (Ent V)) k ss p' hcs
        (by simp only [ctxSlots_append, ctxSlots, List.nodup_append, T.slots_node] at hnd2; slots_tac hnd2)
        (by slots_tac hnd) (by slots_tac hnd)
      simpa [a1, hsne] using this
    have hrs1 : Rep a1 ss p' (.node cs .leaf ss es rs) :=
      hrs.upd_other _ (by simp only [ctxSlots_append, ctxSlots, List.nodup_append, T.slots_node] at hnd2; slots_tac hnd2)
    have hu' : unlinkM ((leftmost [] (T.node cr lr sr er rr)).1 ++
        (⟨c, s, es, .node cl ll sl el rl, .R⟩ : Frame (Ent V)) :: k) cs .leaf rs = some (KK', repl) := by
      simpa using hu
    obtain ⟨a', h1, h2, h3, h4, h5, h6, h7⟩ := unlink_rep (a := a1) (by simpa [a1] using hsize) hcs1 hrs1
      (by simpa using hnd2) (by simpa [a1] using h0) (by simpa using h0s2) hu'
    have hs0 : s ≠ 0 := by slots_tac h0s
    refine ⟨a', ?_, hplug ▸ h2, by rw [h3]; simp [poolOf, a1], by rw [h4]; simp [a1], by rw [h5]; simp [a1], ?_, ?_⟩
    · have : sn.right = rs.rootIdx := hsr.idx
      rw [hsle, this, hsnp, hsnr]
      exact h1
    · intro x hx hx0
      have hxs : x ≠ s := by
        rcases hx with hx | rfl
        · slots_tac hx
        · simp only [ctxSlots_append, ctxSlots, List.nodup_append, T.slots_node] at hnd2; slots_tac hnd2
      rw [h6 x ?_ hx0]
      · simp [a1, Ne.symm hxs]
      · rcases hx with hx | rfl
        · intro hm'
          apply hx
          have := hperm.mem_iff.mp (show x ∈ (T.node cs .leaf ss es rs).slots ++ ctxSlots
            ((leftmost [] (T.node cr lr sr er rr)).1 ++ (⟨c, s, es, .node cl ll sl el rl, .R⟩ : Frame (Ent V)) :: k) by
              simp only [T.slots_leaf, List.nil_append, List.mem_append] at hm'
              simp only [T.slots_node, T.slots_leaf, List.nil_append, List.mem_append, List.mem_cons]
              rcases hm' with h | h
              · exact Or.inl (Or.inr h)
              · exact Or.inr h)
          exact this
        · simp only [T.slots_leaf, List.nil_append]
          simp only [T.slots_node, T.slots_leaf, List.nil_append, List.cons_append, List.nodup_cons] at hnd2
          exact hnd2.1
    · intro hz
      refine h7 ?_
      intro n hn0
      exact hz n (by simpa [a1, hs0] using hn0)

end ITree

namespace ITree
variable {V : Type}

/-- locating a key: the arena realises the located context and focus -/
theorem findKey_rep {a : Arena V} (key : Int) : ∀ (t : T (Ent V)) (k : Ctx (Ent V)) (i p : Nat) {k' : Ctx (Ent V)}
    {t' : T (Ent V)}, RepCtx a k i p → Rep a i p t → findKey key k t = some (k', t') →
    ∃ p', RepCtx a k' t'.rootIdx p' ∧ Rep a t'.rootIdx p' t' ∧ ∃ c l s e r, t' = .node c l s e r := by
  intro t
  induction t with
  | leaf => intro k i p k' t' _ _ h; simp [findKey] at h
  | node c l s e r ihl ihr =>
    intro k i p k' t' hc hr h
    have hr0 := hr
    obtain ⟨rfl, n, hn, hnp, hnr, hne, hl, hrr⟩ := hr
    simp only [findKey] at h
    split at h
    · have hc' : RepCtx a ((⟨c, i, e, r, .L⟩ : Frame (Ent V)) :: k) n.left i :=
        ⟨rfl, n, hn, hnr, hne, ⟨rfl, hrr⟩, hnp ▸ hc⟩
      exact ihl _ _ _ hc' hl h
    · split at h
      · have hc' : RepCtx a ((⟨c, i, e, l, .R⟩ : Frame (Ent V)) :: k) n.right i :=
          ⟨rfl, n, hn, hnr, hne, ⟨rfl, hl⟩, hnp ▸ hc⟩
        exact ihr _ _ _ hc' hrr h
      · simp only [Option.some.injEq, Prod.mk.injEq] at h
        obtain ⟨rfl, rfl⟩ := h
        exact ⟨p, hc, hr0, c, l, i, e, r, rfl⟩

/-- the sentinel facts of a well-formed state -/
theorem SlotsOK.zero {a : Arena V} {st : St V} (h : RepSt a st) (hs : SlotsOK st.tree st.pool) :
    0 < a.nodes.size ∧ 0 ∉ st.tree.slots := by
  obtain ⟨hperm, _, _⟩ := hs
  rw [h.pool] at hperm
  simp only [poolOf] at hperm
  have hnd : (0 :: (st.tree.slots ++ a.unused.toList.reverse)).Nodup := hperm.nodup_iff.mpr List.nodup_range
  have h0 : 0 ∈ List.range a.nodes.size := hperm.mem_iff.mp (by simp)
  refine ⟨List.mem_range.mp h0, ?_⟩
  intro hm
  exact (List.nodup_cons.mp hnd).1 (by simp [hm])

/-- `delete_index` at the state level (the located focus comes from `findKey` or `findSlot`) -/
theorem deleteAt_rep {a : Arena V} {st st' : St V} (h : RepSt a st) (hs : SlotsOK st.tree st.pool)
    (hsize : a.nodes.size ≤ EMPTY) {k : Ctx (Ent V)} {c : Color} {l r : T (Ent V)} {s : Nat} {e : Ent V}
    (hplug : plug k (.node c l s e r) = st.tree)
    {p : Nat} (hc : RepCtx a k s p) (hr : Rep a s p (.node c l s e r))
    (hm : st.deleteAt k (.node c l s e r) = some st') :
    ∃ a', a.deleteIndex s = some a' ∧ RepSt a' st' ∧ a'.nodes.size = a.nodes.size ∧ a'.dflt = a.dflt := by
  obtain ⟨_, _, hnd, _, _⟩ := SlotsOK.arena h hs
  obtain ⟨h0, h0s⟩ := SlotsOK.zero h hs
  have hperm := slots_plug k (T.node c l s e r)
  rw [hplug] at hperm
  simp only [St.deleteAt] at hm
  cases hdf : deleteFocus k (T.node c l s e r) with
  | none => simp [hdf] at hm
  | some x =>
  obtain ⟨k'', t'', freed⟩ := x
  simp only [hdf, Option.map_some, Option.some.injEq] at hm
  subst hm
  obtain ⟨a', h1, h2, h3, h4, h5, _⟩ := deleteIndex_rep hsize hc hr (hperm.nodup_iff.mp hnd) h0
    (fun hx => h0s (hperm.mem_iff.mpr hx)) hdf
  exact ⟨a', h1, ⟨h2, by rw [h3, h.pool]⟩, h4, h5⟩

/-- **`delete(key)`** -/
theorem delete_rep {a : Arena V} {st st' : St V} (h : RepSt a st) (hs : SlotsOK st.tree st.pool)
    (hsize : a.nodes.size ≤ EMPTY) (key : Int) (hm : st.delete key = some st') :
    ∃ a', a.delete key = some a' ∧ RepSt a' st' ∧ a'.nodes.size = a.nodes.size ∧ a'.dflt = a.dflt := by
  have hfi := findIndex_rep_st h hs hsize key
  simp only [St.delete] at hm
  simp only [Arena.delete, hfi, Option.bind_eq_bind, Option.bind_some]
  cases hf : findKey key [] st.tree with
  | none =>
    simp only [hf, Option.some.injEq] at hm
    subst hm
    exact ⟨a, by simp, h, rfl, rfl⟩
  | some x =>
    obtain ⟨k, t⟩ := x
    simp only [hf] at hm
    obtain ⟨p', hc, hr, c, l, s, e, r, rfl⟩ := findKey_rep key st.tree [] a.root EMPTY ⟨rfl, rfl⟩ h.tree hf
    have hplug := (findKey_some key [] st.tree hf).1
    simp only [T.rootIdx] at hc hr ⊢
    have hslt := node_lt hr.2.choose_spec.1
    have hne : (s != EMPTY) = true := by simp; omega
    simp only [hne, if_true]
    exact deleteAt_rep h hs hsize (by simpa using hplug) hc hr hm

/-- **`delete_by_index(slot)`** -/
theorem deleteByIndex_rep {a : Arena V} {st st' : St V} (h : RepSt a st) (hs : SlotsOK st.tree st.pool)
    (hsize : a.nodes.size ≤ EMPTY) (slot : Nat) (hm : st.deleteByIndex slot = some st') :
    ∃ a', a.deleteIndex slot = some a' ∧ RepSt a' st' ∧ a'.nodes.size = a.nodes.size ∧ a'.dflt = a.dflt := by
  simp only [St.deleteByIndex] at hm
  cases hf : findSlot slot [] st.tree with
  | none => simp [hf] at hm
  | some x =>
    obtain ⟨k, t⟩ := x
    simp only [hf] at hm
    obtain ⟨hplug, c, l, e, r, rfl⟩ := findSlot_some slot [] st.tree hf
    obtain ⟨p', hc, hr⟩ := findSlot_rep slot st.tree [] a.root EMPTY ⟨rfl, rfl⟩ h.tree hf
    exact deleteAt_rep h hs hsize (by simpa using hplug) hc hr hm

end ITree
