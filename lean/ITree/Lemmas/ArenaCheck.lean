import ITree.Lemmas.ArenaStale
/-!
# Soundness of the driver's executable representation check

On every explored transition of the arena suites the driver evaluates `Arena.absP`, `Arena.garbageOK` and
`Arena.zeroOK` on the *real* pre-arena. These theorems say that a positive answer is exactly the hypothesis
`RepSt` / `RepStG` of the arena-level theorems (`Props/Arena.lean`) — so those theorems apply to every explored
real state, not only to states the model reaches.
-/
namespace ITree
variable {V : Type}

theorem absTreeP_rep {a : Arena V} : ∀ (fuel : Nat) (i p : Nat) (t : T (Ent V)),
    Arena.absTreeP fuel a i p = some t → Rep a i p t := by
  intro fuel
  induction fuel with
  | zero => intro i p t h; simp [Arena.absTreeP] at h
  | succ fuel ih =>
    intro i p t h
    simp only [Arena.absTreeP] at h
    by_cases hi : i = EMPTY
    · subst hi
      simp only [beq_self_eq_true, if_true, Option.some.injEq] at h
      subst h; exact rfl
    · have hb : (i == EMPTY) = false := by simpa using hi
      simp only [hb, Bool.false_eq_true, if_false, Option.bind_eq_bind] at h
      cases hn : a.node i with
      | none => simp [hn] at h
      | some n =>
        simp only [hn, Option.bind_some] at h
        by_cases hp : n.parent = p
        · have hpb : (n.parent != p) = false := by simp [hp]
          simp only [hpb, Bool.false_eq_true, if_false] at h
          cases hl : Arena.absTreeP fuel a n.left i with
          | none => simp [hl] at h
          | some l =>
            cases hr : Arena.absTreeP fuel a n.right i with
            | none => simp [hl, hr] at h
            | some r =>
              simp only [hl, hr, Option.bind_some, Option.pure_def, Option.some.injEq] at h
              subst h
              refine ⟨rfl, n, hn, hp, ?_, rfl, ih _ _ _ hl, ih _ _ _ hr⟩
              cases n.red <;> rfl
        · have hpb : (n.parent != p) = true := by simpa using hp
          simp [hpb] at h

/-- the converse: a represented tree is what the check computes (given enough fuel) -/
theorem rep_absTreeP {a : Arena V} (hsize : a.nodes.size ≤ EMPTY) : ∀ (fuel : Nat) (t : T (Ent V)) (i p : Nat),
    Rep a i p t → t.height < fuel → Arena.absTreeP fuel a i p = some t := by
  intro fuel
  induction fuel with
  | zero => intro t i p _ h; omega
  | succ fuel ih =>
    intro t i p hr hf
    cases t with
    | leaf =>
      have : i = EMPTY := hr
      simp [Arena.absTreeP, this]
    | node c l s e r =>
      obtain ⟨rfl, n, hn, hp, hred, hne, hl, hrr⟩ := hr
      have := node_lt hn
      have hie : (i == EMPTY) = false := by simp; omega
      simp only [T.height] at hf
      have hc : (if n.red = true then Color.red else Color.black) = c := by
        rw [hred]; cases c <;> rfl
      simp [Arena.absTreeP, hie, hn, hp, ih l _ _ hl (by omega), ih r _ _ hrr (by omega), hne, hc]

/-- **soundness**: if the driver's check computes `st` from the arena, the arena represents `st` -/
theorem absP_sound {a : Arena V} {st : St V} (h : a.absP = some st) : RepSt a st := by
  simp only [Arena.absP, Option.bind_eq_bind, Option.pure_def] at h
  cases ht : Arena.absTreeP (a.nodes.size + 1) a a.root EMPTY with
  | none => simp [ht] at h
  | some t =>
    simp only [ht, Option.bind_some, Option.some.injEq] at h
    subst h
    exact ⟨absTreeP_rep _ _ _ _ ht, rfl⟩

theorem garbageOK_sound {a : Arena V} {live : List Nat} (h : a.garbageOK live = true) : Garbage a live := by
  intro j hj hjl hj0
  simp only [Arena.garbageOK, List.all_eq_true, List.mem_range] at h
  have := h j hj
  simp only [Bool.or_eq_true, beq_iff_eq, List.contains_eq_mem, decide_eq_true_eq] at this
  rcases this with (h0 | hm) | hw
  · exact absurd h0 hj0
  · exact absurd hm hjl
  · cases hp : Arena.isPartOfTree (a.nodes.size + 1) a j with
    | none => simp [hp] at hw
    | some b => cases b <;> simp [hp] at hw ⊢

theorem zeroOK_sound {a : Arena V} (h : a.zeroOK = true) : ZeroOK a := by
  intro n hn
  simp only [Arena.zeroOK, hn, Bool.and_eq_true, Bool.or_eq_true, beq_iff_eq] at h
  exact h

/-- **the driver's check on a real arena establishes the hypotheses of the arena-level theorems** -/
theorem repCheck_sound {a : Arena V} {st : St V} (h1 : a.absP = some st) (h2 : a.garbageOK st.tree.slots = true)
    (h3 : a.zeroOK = true) : RepStG a st :=
  ⟨absP_sound h1, garbageOK_sound h2, zeroOK_sound h3⟩

/-- and it is complete: every represented state passes (so the check rejects no state the model reaches) -/
theorem absP_complete {a : Arena V} {st : St V} (h : RepSt a st) (hs : SlotsOK st.tree st.pool)
    (hsize : a.nodes.size ≤ EMPTY) : a.absP = some st := by
  obtain ⟨_, _, hnd, hlt, _⟩ := SlotsOK.arena h hs
  have hh : st.tree.height < a.nodes.size + 1 := by
    have h1 := T.height_le_slots st.tree
    have h2 := nodup_lt_length _ _ hnd hlt
    omega
  have := rep_absTreeP hsize _ _ _ _ h.tree hh
  simp only [Arena.absP, this, Option.bind_eq_bind, Option.bind_some, Option.pure_def, Option.some.injEq]
  cases st with
  | mk tree pool =>
    have hp : pool = poolOf a := h.pool
    simp [hp, poolOf]

end ITree
