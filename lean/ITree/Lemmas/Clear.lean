import ITree.Lemmas.WF
/-!
# `clear`: the breadth-first release returns every slot of the tree exactly once
-/
namespace ITree
variable {ε : Type}

def kidsOf (t : T ε) : List (T ε) :=
  match t with
  | .leaf => []
  | .node _ l _ _ r => [l, r].filter fun x => !x.isLeaf

def lsize (level : List (T ε)) : Nat := (level.map T.size).sum
def lslots (level : List (T ε)) : List Nat := level.flatMap T.slots
def lroots (level : List (T ε)) : List Nat := level.filterMap T.rootSlot

@[simp] theorem T.slots_leaf : (T.leaf : T ε).slots = [] := rfl
@[simp] theorem T.slots_node (c : Color) (l r : T ε) (s : Nat) (e : ε) :
    (T.node c l s e r).slots = l.slots ++ s :: r.slots := by simp [T.slots]

theorem bfsLevels_succ (level : List (T ε)) (fuel : Nat) (h : level ≠ []) :
    bfsLevels level (fuel + 1) = lroots (level.flatMap kidsOf) ++ bfsLevels (level.flatMap kidsOf) fuel := by
  cases level with
  | nil => exact absurd rfl h
  | cons t ts => rfl

theorem bfsLevels_nil (fuel : Nat) : bfsLevels ([] : List (T ε)) fuel = [] := by
  cases fuel <;> rfl

theorem kidsOf_slots (t : T ε) : t.slots.Perm ((T.rootSlot t).toList ++ lslots (kidsOf t)) := by
  cases t with
  | leaf => simp [kidsOf, lslots, T.rootSlot]
  | node c l s e r =>
    simp only [T.slots_node, T.rootSlot, Option.toList_some, kidsOf, lslots]
    have hl : ([l, r].filter fun x => !x.isLeaf).flatMap T.slots = l.slots ++ r.slots := by
      cases l <;> cases r <;> simp [T.isLeaf]
    rw [hl]
    simpa using List.perm_middle (l₁ := l.slots) (a := s) (l₂ := r.slots)

theorem kidsOf_size (t : T ε) : lsize (kidsOf t) + (T.rootSlot t).toList.length = t.size := by
  cases t with
  | leaf => simp [kidsOf, lsize, T.rootSlot]
  | node c l s e r =>
    cases l <;> cases r <;> simp [kidsOf, lsize, T.rootSlot, T.isLeaf] <;> omega

theorem level_slots (level : List (T ε)) :
    (lslots level).Perm (lroots level ++ lslots (level.flatMap kidsOf)) := by
  induction level with
  | nil => simp [lslots, lroots]
  | cons t ts ih =>
    have h1 := kidsOf_slots t
    simp only [lslots, lroots, List.flatMap_cons, List.flatMap_append] at ih ⊢
    have hr : (t :: ts).filterMap T.rootSlot = (T.rootSlot t).toList ++ ts.filterMap T.rootSlot := by
      cases h : T.rootSlot t <;> simp [List.filterMap_cons, h]
    rw [hr]
    calc t.slots ++ ts.flatMap T.slots
        |>.Perm (((T.rootSlot t).toList ++ (kidsOf t).flatMap T.slots) ++
            (ts.filterMap T.rootSlot ++ (ts.flatMap kidsOf).flatMap T.slots)) := List.Perm.append h1 ih
      _ |>.Perm _ := by
        simp only [List.append_assoc]
        refine List.Perm.append_left _ ?_
        rw [← List.append_assoc, ← List.append_assoc]
        exact List.Perm.append_right _ List.perm_append_comm

theorem level_size (level : List (T ε)) :
    lsize (level.flatMap kidsOf) + (lroots level).length = lsize level := by
  induction level with
  | nil => simp [lsize, lroots]
  | cons t ts ih =>
    have h1 := kidsOf_size t
    have hr : lroots (t :: ts) = (T.rootSlot t).toList ++ lroots ts := by
      simp only [lroots]
      cases h : T.rootSlot t <;> simp [List.filterMap_cons, h]
    rw [hr]
    simp only [lsize, List.flatMap_cons, List.map_append, List.sum_append, List.map_cons,
      List.sum_cons, List.length_append] at ih h1 ⊢
    omega

theorem lroots_length_pos (level : List (T ε)) (h : 0 < lsize level) : 0 < (lroots level).length := by
  induction level with
  | nil => simp [lsize] at h
  | cons t ts ih =>
    cases t with
    | leaf =>
      have : lsize (T.leaf :: ts) = lsize ts := by simp [lsize]
      rw [this] at h
      simpa [lroots, List.filterMap_cons, T.rootSlot] using ih h
    | node c l s e r => simp [lroots, List.filterMap_cons, T.rootSlot]

theorem bfsLevels_perm (fuel : Nat) (level : List (T ε)) (h : lsize level < fuel) :
    (lroots level ++ bfsLevels level fuel).Perm (lslots level) := by
  induction fuel generalizing level with
  | zero => omega
  | succ fuel ih =>
    by_cases hl : level = []
    · subst hl; simp [lroots, lslots, bfsLevels_nil]
    · rw [bfsLevels_succ level fuel hl]
      refine List.Perm.trans ?_ (level_slots level).symm
      refine List.Perm.append_left _ ?_
      by_cases hz : lsize level = 0
      · -- no nodes at all
        have hsz := level_size level
        have hk : lsize (level.flatMap kidsOf) = 0 := by omega
        have hperm := level_slots (level.flatMap kidsOf)
        -- the kids level has no slots either
        have hsl : lslots (level.flatMap kidsOf) = [] := by
          have : ∀ lv : List (T ε), lsize lv = 0 → lslots lv = [] := by
            intro lv
            induction lv with
            | nil => intro _; rfl
            | cons t ts iht =>
              intro h0
              simp only [lsize, List.map_cons, List.sum_cons] at h0
              have ht : t.size = 0 := by omega
              have hts : lsize ts = 0 := by simp only [lsize]; omega
              cases t with
              | leaf => simpa [lslots] using iht hts
              | node => simp at ht
          exact this _ hk
        have hro : lroots (level.flatMap kidsOf) = [] := by
          cases hr : lroots (level.flatMap kidsOf) with
          | nil => rfl
          | cons a as =>
            have := level_size (level.flatMap kidsOf)
            rw [hr] at this
            simp at this
            omega
        rw [hsl, hro]
        cases fuel with
        | zero => simp [bfsLevels]
        | succ f =>
          by_cases hk0 : level.flatMap kidsOf = []
          · rw [hk0, bfsLevels_nil]; simp
          · have := ih (level.flatMap kidsOf) (by omega)
            rw [hro, hsl] at this
            simpa using this
      · have hpos := lroots_length_pos level (by omega)
        have hsz := level_size level
        exact ih _ (by omega)

/-- the slots released by `clear` are the slots of the tree, each once -/
theorem T.bfs_perm (t : T ε) : t.bfs.Perm t.slots := by
  cases t with
  | leaf => simp [T.bfs]
  | node c l s e r =>
    have := bfsLevels_perm ((T.node c l s e r).size + 1) [T.node c l s e r] (by simp [lsize])
    simpa [T.bfs, lroots, lslots, T.rootSlot] using this

theorem Pool.freeAll_aux (fs : List Nat) : ∀ (slots : List Nat) (q : Pool),
    (0 :: (slots ++ q.unused)).Perm (List.range q.bufLen) →
    q.unused.length ≤ q.cap → 0 < q.cap → ∀ rest, slots.Perm (fs ++ rest) →
    (0 :: (rest ++ (fs.foldl Pool.free q).unused)).Perm (List.range (fs.foldl Pool.free q).bufLen) ∧
    (fs.foldl Pool.free q).unused.length ≤ (fs.foldl Pool.free q).cap ∧ 0 < (fs.foldl Pool.free q).cap := by
  induction fs with
  | nil =>
    intro slots q a b c rest hr
    refine ⟨?_, b, c⟩
    refine List.Perm.trans (List.Perm.cons 0 (List.Perm.append_right _ ?_)) a
    simpa using hr.symm
  | cons g gs ihg =>
    intro slots q a b c rest hr
    simp only [List.foldl_cons]
    apply ihg (gs ++ rest) (q.free g)
    · simp only [Pool.free]
      refine List.Perm.trans ?_ a
      refine List.Perm.cons 0 ?_
      have h1 : (gs ++ rest ++ g :: q.unused).Perm (g :: (gs ++ rest) ++ q.unused) := by
        have := @List.perm_middle _ g (gs ++ rest) q.unused
        simpa [List.append_assoc] using this
      exact h1.trans (List.Perm.append_right _ (by simpa using hr.symm))
    · simp only [Pool.free, List.length_cons]
      split
      · rename_i heq; have : q.unused.length = q.cap := by simpa using heq
        omega
      · rename_i hne; have : q.unused.length ≠ q.cap := by simpa using hne
        omega
    · simp only [Pool.free]; split <;> omega
    · exact List.Perm.refl _

theorem Pool.freeAll_spec {t t' : T ε} (l : List Nat) {p : Pool} (h : SlotsOK t p)
    (hs : t.slots.Perm (l ++ t'.slots)) : SlotsOK t' (p.freeAll l) := by
  obtain ⟨h1, h2, h3⟩ := h
  exact Pool.freeAll_aux l t.slots p h1 h2 h3 t'.slots hs

end ITree
