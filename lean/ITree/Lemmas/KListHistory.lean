import ITree.Lemmas.ListOps
import ITree.Lemmas.KHistory
/-!
# The sorted-vector expiring list refines the same reference as the tree
-/
namespace ITree
variable {V : Type}

theorem SortedE.live {l : List (Ent V)} (h : SortedE l) (t : Int) : SortedE (live t l) :=
  List.Pairwise.sublist (List.Sublist.map _ List.filter_sublist) h

/-- relation between a `KeyExpList` state and the reference content -/
structure KLRel (s : KL V) (S : List (Ent V)) (last : Option Int) : Prop where
  inv : s.Inv
  sorted : SortedE s.buf
  rel : match last with
    | none => s.buf = [] ∧ S = []
    | some T => live T s.buf = S

theorem KLRel.at_time {s : KL V} {S : List (Ent V)} {last : Option Int} (h : KLRel s S last)
    {t : Int} (ht : ∀ l, last = some l → l ≤ t) : live t s.buf = live t S := by
  have hr := h.rel
  cases last with
  | none => simp only at hr; rw [hr.1, hr.2]
  | some T => simp only at hr; rw [← hr, live_live (ht T rfl)]

/-- the model step of the sorted-vector variant -/
def KL.step (s : KL V) : KOp V → KL V × Option V × List V
  | .insert e t => (s.insert e t, none, [])
  | .query mode t f => ((s.query mode t f).1, (s.query mode t f).2, [])
  | .exportAt t => ((s.export t).1, none, (s.export t).2)
  | .clear => (s.clear, none, [])

/-- every in-contract step of the list gives the reference's outputs and content — the same
reference the tree refines -/
theorem KL.step_refines (s : KL V) (S : List (Ent V)) (last : Option Int) (op : KOp V)
    (hr : KLRel s S last) (hc : KContract S last op) :
    KLRel (s.step op).1 (kspecStep S op).1 (op.nextLast last) ∧
      (s.step op).2.1 = (kspecStep S op).2.1 ∧ (s.step op).2.2 = (kspecStep S op).2.2 := by
  cases op with
  | insert e t =>
    obtain ⟨hl, hexp, hfresh⟩ := hc
    have hlive := hr.at_time hl
    obtain ⟨c1, c2, c3⟩ := hr.inv.clearExpired t
    have hsorted : SortedE (s.clearExpired t).buf := by rw [c1]; exact hr.sorted.live t
    have hfr : ∀ x ∈ (s.clearExpired t).buf, x.key ≠ e.key := by rw [c1, hlive]; exact hfresh
    obtain ⟨i1, i2⟩ := LSt.insert_eq _ e hsorted hfr
    refine ⟨⟨?_, ?_, ?_⟩, rfl, rfl⟩
    · -- invariant: minExp' = min minExp e.exp
      intro x hx
      simp only [KL.step, KL.insert] at hx ⊢
      rw [i1] at hx
      simp only [Spec.insert, List.mem_append, List.mem_cons, List.mem_filter] at hx
      rcases hx with ⟨hx, _⟩ | rfl | ⟨hx, _⟩
      · have := c2 x hx; omega
      · omega
      · have := c2 x hx; omega
    · simpa [KL.step, KL.insert] using i2
    · simp only [KOp.nextLast, KOp.time, kspecStep, KL.step, KL.insert]
      rw [i1, c1, hlive]
  | query mode t f =>
    obtain ⟨hl, hm⟩ := hc
    have hlive := hr.at_time hl
    obtain ⟨c1, c2, c3⟩ := hr.inv.clearExpired t
    refine ⟨⟨by simpa [KL.step, KL.query] using c2, by simp only [KL.step, KL.query]; rw [c1]; exact hr.sorted.live t, ?_⟩, ?_, rfl⟩
    · simp only [KOp.nextLast, KOp.time, kspecStep, KL.step, KL.query]
      rw [c1, live_idem, hlive]
    · simp only [KL.step, KL.query, kspecStep]
      have := klist_answer mode f (s.clearExpired t).buf (by rw [c1, hlive]; exact hm)
      rw [c1, hlive] at this ⊢
      rw [← this]
      cases mode <;> rfl
  | exportAt t =>
    have hlive := hr.at_time hc
    obtain ⟨c1, c2, c3⟩ := hr.inv.clearExpired t
    refine ⟨⟨by simpa [KL.step, KL.export] using c2, by simp only [KL.step, KL.export]; rw [c1]; exact hr.sorted.live t, ?_⟩, rfl, ?_⟩
    · simp only [KOp.nextLast, KOp.time, kspecStep, KL.step, KL.export]
      rw [c1, live_idem, hlive]
    · simp only [KL.step, KL.export, kspecStep]
      rw [c1, hlive]
  | clear =>
    exact ⟨⟨by intro x hx; simp [KL.step, KL.clear] at hx, by simp [KL.step, KL.clear, SortedE], ⟨rfl, rfl⟩⟩, rfl, rfl⟩

end ITree
