import ITree.Lemmas.WF
/-!
# Map / set operations: well-formedness preservation and their effect on the in-order sequence
-/
namespace ITree
variable {ε V : Type}

theorem pairwise_insert_mid {L R : List (Nat × Ent V)} {x : Nat × Ent V}
    (h : ((L ++ R).map (·.2.key)).Pairwise (· < ·))
    (hl : ∀ y ∈ L, y.2.key < x.2.key) (hr : ∀ y ∈ R, x.2.key < y.2.key) :
    ((L ++ x :: R).map (·.2.key)).Pairwise (· < ·) := by
  simp only [List.map_append, List.map_cons, List.pairwise_append, List.pairwise_cons, List.mem_map,
    List.mem_cons] at h ⊢
  obtain ⟨h1, h2, h3⟩ := h
  refine ⟨h1, ⟨?_, h2⟩, ?_⟩
  · rintro _ ⟨y, hy, rfl⟩; exact hr y hy
  · rintro _ ⟨y, hy, rfl⟩ _ (rfl | ⟨z, hz, rfl⟩)
    · exact hl y hy
    · exact h3 _ ⟨y, hy, rfl⟩ _ ⟨z, hz, rfl⟩

/-- **insert**: the new entry lands at its place in key order, in a slot that was free; everything
else keeps its slot and entity; the state stays well-formed. -/
theorem St.insert_spec (st : St V) (e : Ent V) (h : WF st) (hfresh : e.key ∉ st.tree.keys) :
    WF (st.insert e) ∧
    ∃ L R slot, st.tree.toList = L ++ R ∧ (st.insert e).tree.toList = L ++ (slot, e) :: R ∧
      (∀ x ∈ L, x.2.key < e.key) ∧ (∀ x ∈ R, e.key < x.2.key) ∧ slot ∉ st.tree.slots ∧ slot ≠ 0 := by
  obtain ⟨hord, ⟨m, hbal⟩, hslots⟩ := h
  have hplug := descendIns_plug e.key [] st.tree
  simp only [plug_nil] at hplug
  have hb := descendIns_bounds e.key [] st.tree (by simp) (by simp) hord
  obtain ⟨hbl, hbr⟩ := hb
  have htl : st.tree.toList = ctxLeft (descendIns e.key [] st.tree) ++ ctxRight (descendIns e.key [] st.tree) := by
    have := congrArg T.toList hplug
    simpa [toList_plug] using this.symm
  have hbl' : ∀ x ∈ ctxLeft (descendIns e.key [] st.tree), x.2.key < e.key := by
    intro x hx
    have h1 := hbl x hx
    have h2 : x.2.key ≠ e.key := by
      intro heq
      apply hfresh
      rw [T.keys_eq, htl]
      simp only [List.map_append, List.mem_append, List.mem_map]
      exact Or.inl ⟨x, hx, heq⟩
    omega
  obtain ⟨a1, a2, a3, a4, a5, a6⟩ := Pool.alloc_spec hslots
  have hnew : (st.insert e).tree.toList =
      ctxLeft (descendIns e.key [] st.tree) ++ (st.pool.alloc.1, e) :: ctxRight (descendIns e.key [] st.tree) := by
    simp only [St.insert]
    exact linkNew_toList _ _ _
  refine ⟨⟨?_, ?_, ?_⟩, _, _, st.pool.alloc.1, htl, hnew, hbl', hbr, a1, a2⟩
  · show ((st.insert e).tree.toList.map (·.2.key)).Pairwise (· < ·)
    rw [hnew]
    apply pairwise_insert_mid _ hbl' hbr
    rw [← htl]; exact hord
  · simp only [St.insert]
    exact linkNew_bal _ _ _ (hplug ▸ hbal)
  · refine ⟨?_, a4, by rw [St.insert]; simpa [a5] using hslots.2.2⟩
    show (0 :: ((st.insert e).tree.slots ++ (st.insert e).pool.unused)).Perm _
    have hsl : (st.insert e).tree.slots.Perm (st.pool.alloc.1 :: st.tree.slots) := by
      rw [T.slots_eq, T.slots_eq, hnew, htl]
      simp only [List.map_append, List.map_cons]
      exact List.perm_middle
    refine List.Perm.trans (List.Perm.cons 0 (List.Perm.append_right _ hsl)) ?_
    simpa [St.insert] using a3

/-! ### locating a node -/

theorem findKey_some (key : Int) (k : Ctx (Ent V)) (t : T (Ent V)) {k' : Ctx (Ent V)} {t' : T (Ent V)}
    (h : findKey key k t = some (k', t')) :
    plug k' t' = plug k t ∧ ∃ c l s e r, t' = .node c l s e r ∧ e.key = key := by
  induction t generalizing k with
  | leaf => simp [findKey] at h
  | node c l s e r ihl ihr =>
    simp only [findKey] at h
    split at h
    · obtain ⟨h1, h2⟩ := ihl _ h; exact ⟨by simpa [Frame.fill] using h1, h2⟩
    · split at h
      · obtain ⟨h1, h2⟩ := ihr _ h; exact ⟨by simpa [Frame.fill] using h1, h2⟩
      · simp only [Option.some.injEq, Prod.mk.injEq] at h
        obtain ⟨rfl, rfl⟩ := h
        exact ⟨rfl, c, l, s, e, r, rfl, by omega⟩

theorem findKey_none (key : Int) (k : Ctx (Ent V)) (t : T (Ent V)) (ho : t.keys.Pairwise (· < ·))
    (h : findKey key k t = none) : key ∉ t.keys := by
  induction t generalizing k with
  | leaf => simp [T.keys]
  | node c l s e r ihl ihr =>
    have ho' : (l.keys ++ e.key :: r.keys).Pairwise (· < ·) := by simpa [T.keys] using ho
    simp only [List.pairwise_append, List.pairwise_cons] at ho'
    obtain ⟨hl, ⟨her, hr⟩, hlr⟩ := ho'
    simp only [findKey] at h
    have hk : (T.node c l s e r).keys = l.keys ++ e.key :: r.keys := by simp [T.keys]
    rw [hk]
    simp only [List.mem_append, List.mem_cons, not_or]
    split at h
    · rename_i hlt
      refine ⟨ihl _ hl h, by omega, fun hm => ?_⟩
      have := her _ hm; omega
    · rename_i hge
      split at h
      · rename_i hgt
        refine ⟨fun hm => ?_, by omega, ihr _ hr h⟩
        have := hlr _ hm _ (List.mem_cons_self ..); omega
      · simp at h

theorem findSlot_some (slot : Nat) (k : Ctx ε) (t : T ε) {k' : Ctx ε} {t' : T ε}
    (h : findSlot slot k t = some (k', t')) :
    plug k' t' = plug k t ∧ ∃ c l e r, t' = .node c l slot e r := by
  induction t generalizing k with
  | leaf => simp [findSlot] at h
  | node c l s e r ihl ihr =>
    simp only [findSlot] at h
    split at h
    · rename_i heq
      simp only [Option.some.injEq, Prod.mk.injEq] at h
      obtain ⟨rfl, rfl⟩ := h
      have : s = slot := by simpa using heq
      subst this
      exact ⟨rfl, c, l, e, r, rfl⟩
    · split at h
      · rename_i x hx
        simp only [Option.some.injEq] at h
        subst h
        obtain ⟨h1, h2⟩ := ihl _ hx; exact ⟨by simpa [Frame.fill] using h1, h2⟩
      · obtain ⟨h1, h2⟩ := ihr _ h; exact ⟨by simpa [Frame.fill] using h1, h2⟩

theorem findSlot_none (slot : Nat) (k : Ctx ε) (t : T ε) (h : findSlot slot k t = none) :
    slot ∉ t.slots := by
  induction t generalizing k with
  | leaf => simp [T.slots]
  | node c l s e r ihl ihr =>
    simp only [findSlot] at h
    split at h
    · simp at h
    · rename_i hne
      split at h
      · simp at h
      · rename_i hl
        have hs : (T.node c l s e r).slots = l.slots ++ s :: r.slots := by simp [T.slots]
        rw [hs]
        simp only [List.mem_append, List.mem_cons, not_or]
        exact ⟨ihl _ hl, fun heq => hne (by simp [heq]), ihr _ h⟩

/-! ### removal -/

theorem T.rootErased_ents (c : Color) (l r : T ε) (s : Nat) (e : ε) :
    (T.node c l s e r).rootErased.map (·.2) = l.toList.map (·.2) ++ r.toList.map (·.2) := by
  cases l with
  | leaf => cases r <;> simp [T.rootErased]
  | node cl ll sl el rl =>
    cases r with
    | leaf => simp [T.rootErased]
    | node cr lr sr er rr =>
      simp only [T.rootErased]
      split
      · rename_i ss es rest heq
        rw [heq]; simp
      · rename_i heq
        rw [heq]; simp

theorem T.rootErased_slots (c : Color) (l r : T ε) (s : Nat) (e : ε) (f : Nat)
    (hf : (T.node c l s e r).rootFreed = some f) :
    (l.toList.map (·.1) ++ s :: r.toList.map (·.1)).Perm (f :: (T.node c l s e r).rootErased.map (·.1)) := by
  cases l with
  | leaf =>
    have : f = s := by cases r <;> simpa [T.rootFreed] using hf.symm
    subst this
    cases r <;> simp [T.rootErased]
  | node cl ll sl el rl =>
    cases r with
    | leaf =>
      have : f = s := by simpa [T.rootFreed] using hf.symm
      subst this
      simp only [T.rootErased, T.toList_leaf, List.map_nil, List.append_nil]
      have := @List.perm_middle _ f ((T.node cl ll sl el rl).toList.map (·.1)) []
      simpa using this
    | node cr lr sr er rr =>
      simp only [T.rootFreed, Option.map_eq_some_iff] at hf
      obtain ⟨⟨ss, es⟩, hhead, rfl⟩ := hf
      simp only [T.rootErased]
      cases hrl : (T.node cr lr sr er rr).toList with
      | nil => simp [hrl] at hhead
      | cons x rest =>
        simp only [hrl, List.head?_cons, Option.some.injEq] at hhead
        subst hhead
        simp only [List.map_cons, List.map_append]
        -- l.slots ++ s :: ss :: rest.slots  ~  ss :: (l.slots ++ s :: rest.slots)
        have := @List.perm_middle _ ss (ll.toList.map (·.1) ++ sl :: rl.toList.map (·.1) ++ [s]) (rest.map (·.1))
        simpa [List.append_assoc] using this

/-- **removal of a located node**: never faults on a well-formed state, keeps it well-formed,
removes exactly the entity of the focus root, frees exactly one slot. -/
theorem St.deleteAt_spec (st : St V) (k : Ctx (Ent V)) {c} {l r : T (Ent V)} {s} {e : Ent V}
    (h : WF st) (hp : plug k (.node c l s e r) = st.tree) :
    ∃ st', st.deleteAt k (.node c l s e r) = some st' ∧ WF st' ∧
      st'.tree.toList.map (·.2) =
        (ctxLeft k ++ l.toList).map (·.2) ++ (r.toList ++ ctxRight k).map (·.2) ∧
      st.tree.toList.map (·.2) =
        (ctxLeft k ++ l.toList).map (·.2) ++ e :: (r.toList ++ ctxRight k).map (·.2) ∧
      ∃ f, st.tree.slots.Perm (f :: st'.tree.slots) ∧ st'.pool = st.pool.free f := by
  obtain ⟨hord, ⟨m, hbal⟩, hslots⟩ := h
  obtain ⟨k', t', f, hdel, m', hbal'⟩ := deleteFocus_bal k (hp ▸ hbal)
  obtain ⟨l1, l2, l3, l4⟩ := deleteFocus_spec k _ hdel
  have hold : st.tree.toList = ctxLeft k ++ (l.toList ++ (s, e) :: r.toList) ++ ctxRight k := by
    rw [← hp, toList_plug]; simp
  have hnew : (plug k' t').toList = ctxLeft k ++ (T.node c l s e r).rootErased ++ ctxRight k := by
    rw [toList_plug, l1, l2, l3]
  have hents : (plug k' t').toList.map (·.2) =
      (ctxLeft k ++ l.toList).map (·.2) ++ (r.toList ++ ctxRight k).map (·.2) := by
    rw [hnew]
    simp only [List.map_append, T.rootErased_ents, List.append_assoc]
  have hslotperm : st.tree.slots.Perm (f :: (plug k' t').slots) := by
    rw [T.slots_eq, T.slots_eq, hold, hnew]
    simp only [List.map_append, List.map_cons]
    have h1 := T.rootErased_slots c l r s e f l4
    calc (ctxLeft k).map (·.1) ++ (l.toList.map (·.1) ++ s :: r.toList.map (·.1)) ++ (ctxRight k).map (·.1)
        |>.Perm ((ctxLeft k).map (·.1) ++ (f :: (T.node c l s e r).rootErased.map (·.1)) ++ (ctxRight k).map (·.1)) :=
          List.Perm.append_right _ (List.Perm.append_left _ h1)
      _ |>.Perm _ := by
          simp [List.append_assoc]
  refine ⟨{ tree := plug k' t', pool := st.pool.free f }, by simp [St.deleteAt, hdel], ⟨?_, ⟨m', hbal'⟩, ?_⟩,
    hents, by rw [hold]; simp, f, hslotperm, rfl⟩
  · -- keys: a sublist of a strictly increasing list
    show ((plug k' t').toList.map (·.2.key)).Pairwise (· < ·)
    have : (plug k' t').toList.map (·.2.key) = ((plug k' t').toList.map (·.2)).map (·.key) := by simp
    rw [this, hents]
    have hsub : (((ctxLeft k ++ l.toList).map (·.2) ++ (r.toList ++ ctxRight k).map (·.2)).map (·.key)).Sublist
        (st.tree.toList.map (·.2.key)) := by
      rw [hold]
      simp only [List.map_append, List.map_cons, List.append_assoc, List.map_map]
      refine List.Sublist.append (List.Sublist.refl _) (List.Sublist.append (List.Sublist.refl _) ?_)
      exact List.Sublist.cons _ (List.Sublist.refl _)
    exact List.Pairwise.sublist hsub hord
  · exact Pool.free_spec hslots hslotperm

end ITree
