import ITree.Lemmas.KTrace
import ITree.Lemmas.KHistory
/-!
# Arena growth of the expiring tree: lazy removals only free slots, an insert allocates one
-/
namespace ITree
variable {V : Type}

/-- the growth invariant in terms of the number of stored entries and the pool -/
structure GrowthP (c0 pk size : Nat) (p : Pool) : Prop where
  size_le : size ≤ pk
  base : c0 ≤ p.bufLen
  cap_le : p.cap ≤ max c0 (2 * p.bufLen)
  buf_le : p.bufLen ≤ max c0 (3 * (pk + 1))

theorem Growth.toP {c0 pk : Nat} {st : St V} (g : Growth c0 pk st) : GrowthP c0 pk st.tree.size st.pool :=
  ⟨g.size_le, g.base, g.cap_le, g.buf_le⟩
theorem GrowthP.toG {c0 pk : Nat} {st : St V} (g : GrowthP c0 pk st.tree.size st.pool) : Growth c0 pk st :=
  ⟨g.size_le, g.base, g.cap_le, g.buf_le⟩

theorem GrowthP.free {c0 pk n : Nat} {p : Pool} (f : Nat) (hc0 : 8 ≤ c0)
    (hcount : 1 + (n + 1) + p.unused.length = p.bufLen) (g : GrowthP c0 pk (n + 1) p) :
    GrowthP c0 pk n (p.free f) := by
  obtain ⟨c1, c2⟩ := Pool.free_cap p f (by omega)
  obtain ⟨gs, gb, gc, gbuf⟩ := g
  exact ⟨by omega, by rw [c2]; exact gb, by rw [c2]; omega, by rw [c2]; exact gbuf⟩

theorem GrowthP.alloc {c0 pk n : Nat} {p : Pool} (hc0 : 8 ≤ c0)
    (hcount : 1 + n + p.unused.length = p.bufLen) (g : GrowthP c0 pk n p) :
    GrowthP c0 (max pk (n + 1)) (n + 1) p.alloc.2 := by
  obtain ⟨gs, gb, gc, gbuf⟩ := g
  cases hu : p.unused with
  | cons x xs =>
    have hp : p.alloc.2 = { p with unused := xs } := by simp [Pool.alloc, hu]
    rw [hp]
    exact ⟨by omega, gb, gc, by simp only; omega⟩
  | nil =>
    have hp : p.alloc.2.bufLen = p.bufLen + p.cap ∧ p.alloc.2.cap = p.cap := by simp [Pool.alloc, hu]
    rw [hu] at hcount
    simp only [List.length_nil] at hcount
    exact ⟨by omega, by omega, by omega, by rw [hp.1]; omega⟩

theorem size_plug (k : Ctx (Ent V)) (t : T (Ent V)) :
    (plug k t).size = (ctxLeft k).length + t.size + (ctxRight k).length := by
  rw [← T.length_toList, toList_plug]; simp [T.length_toList]; omega

/-- one `delete_index`: one slot freed, one entry fewer -/
theorem deleteFocus_growth (k : Ctx (Ent V)) {c} {l r : T (Ent V)} {s} {e : Ent V} {p : Pool}
    {k1 : Ctx (Ent V)} {t1 : T (Ent V)} {fr : Nat} (c0 pk : Nat) (hc0 : 8 ≤ c0)
    (h : WF (⟨plug k (.node c l s e r), p⟩ : St V))
    (hd : deleteFocus k (.node c l s e r) = some (k1, t1, fr))
    (g : GrowthP c0 pk (plug k (.node c l s e r)).size p) :
    GrowthP c0 pk (plug k1 t1).size (p.free fr) := by
  obtain ⟨k1', t1', fr', hd', _, l1, l2, _, hsz, _⟩ := deleteFocus_full k h
  rw [hd] at hd'
  simp only [Option.some.injEq, Prod.mk.injEq] at hd'
  obtain ⟨rfl, rfl, rfl⟩ := hd'
  have hsize : (plug k1 t1).size + 1 = (plug k (T.node c l s e r)).size := by
    rw [size_plug, size_plug, l1, l2]; omega
  have hcount := h.slots.count
  simp only at hcount
  rw [← hsize] at g hcount
  exact g.free fr hc0 hcount

theorem expireFocus_growth (time : Int) (c0 pk : Nat) (hc0 : 8 ≤ c0) (fuel : Nat) :
    ∀ (k : Ctx (Ent V)) (f : T (Ent V)) (p : Pool) (tr : List (Ev V)),
    WF (⟨plug k f, p⟩ : St V) → GrowthP c0 pk (plug k f).size p →
    ∀ k' f' p' tr', expireFocus time fuel k f p tr = some (k', f', p', tr') →
      GrowthP c0 pk (plug k' f').size p' := by
  induction fuel with
  | zero => intro k f p tr _ _ k' f' p' tr' h; simp [expireFocus] at h
  | succ fuel ih =>
    intro k f p tr hw g k' f' p' tr' h
    cases f with
    | leaf =>
      simp only [expireFocus, Option.some.injEq, Prod.mk.injEq] at h
      obtain ⟨rfl, rfl, rfl, _⟩ := h; exact g
    | node c l s e r =>
      simp only [expireFocus] at h
      split at h
      · simp only [Option.some.injEq, Prod.mk.injEq] at h
        obtain ⟨rfl, rfl, rfl, _⟩ := h; exact g
      · obtain ⟨k1, t1, fr, hd, hw1, _⟩ := deleteFocus_full k hw
        simp only [hd] at h
        exact ih k1 t1 (p.free fr) _ hw1 (deleteFocus_growth k c0 pk hc0 hw hd g) _ _ _ _ h

theorem search_growth (mode : Mode) (time : Int) (f : Int → Ordering) (c0 pk : Nat) (hc0 : 8 ≤ c0) (fuel : Nat) :
    ∀ (k : Ctx (Ent V)) (t : T (Ent V)) (p : Pool) (res : Option V) (tr : List (Ev V)),
    WF (⟨plug k t, p⟩ : St V) → GrowthP c0 pk (plug k t).size p → t.size < fuel →
    ∀ t' p' r tr', search mode time f fuel k t p res tr = some (t', p', r, tr') → GrowthP c0 pk t'.size p' := by
  induction fuel with
  | zero => intro k t p res tr _ _ h; omega
  | succ fuel ih =>
    intro k t p res tr hw g hfuel t' p' r' tr' h
    cases t with
    | leaf =>
      simp only [search, Option.some.injEq, Prod.mk.injEq] at h
      obtain ⟨rfl, rfl, _⟩ := h; exact g
    | node c l s e r =>
      have goL : ∀ res0 tr0, (match expireFocus time (l.size + 1) (⟨c, s, e, r, .L⟩ :: k) l p tr0 with
          | none => none
          | some (k', t', p', tr') => search mode time f fuel k' t' p' res0 tr') = some (t', p', r', tr') →
          GrowthP c0 pk t'.size p' := by
        intro res0 tr0 hh
        obtain ⟨k1, f1, p1, tr1, he, hx⟩ := expireFocus_spec time (l.size + 1) (⟨c, s, e, r, .L⟩ :: k) l p tr0
          (by simpa [Frame.fill] using hw) (by omega)
        have g1 := expireFocus_growth time c0 pk hc0 (l.size + 1) _ _ _ _ (by simpa [Frame.fill] using hw)
          (by simpa [Frame.fill] using g) _ _ _ _ he
        rw [he] at hh
        exact ih k1 f1 p1 res0 tr1 hx.wf g1 (by have := hx.size_le; simp only [T.size_node] at hfuel; omega) _ _ _ _ hh
      have goR : ∀ res0 tr0, (match expireFocus time (r.size + 1) (⟨c, s, e, l, .R⟩ :: k) r p tr0 with
          | none => none
          | some (k', t', p', tr') => search mode time f fuel k' t' p' res0 tr') = some (t', p', r', tr') →
          GrowthP c0 pk t'.size p' := by
        intro res0 tr0 hh
        obtain ⟨k1, f1, p1, tr1, he, hx⟩ := expireFocus_spec time (r.size + 1) (⟨c, s, e, l, .R⟩ :: k) r p tr0
          (by simpa [Frame.fill] using hw) (by omega)
        have g1 := expireFocus_growth time c0 pk hc0 (r.size + 1) _ _ _ _ (by simpa [Frame.fill] using hw)
          (by simpa [Frame.fill] using g) _ _ _ _ he
        rw [he] at hh
        exact ih k1 f1 p1 res0 tr1 hx.wf g1 (by have := hx.size_le; simp only [T.size_node] at hfuel; omega) _ _ _ _ hh
      simp only [search] at h
      cases hfe : f e.key with
      | lt => rw [hfe] at h; exact goR _ _ h
      | gt => rw [hfe] at h; exact goL _ _ h
      | eq =>
        rw [hfe] at h
        cases mode with
        | fl => exact goL _ _ h
        | fle => simp only [Option.some.injEq, Prod.mk.injEq] at h; obtain ⟨rfl, rfl, _⟩ := h; exact g
        | get => simp only [Option.some.injEq, Prod.mk.injEq] at h; obtain ⟨rfl, rfl, _⟩ := h; exact g

theorem linkNew_size (k : Ctx (Ent V)) (slot : Nat) (e : Ent V) :
    (linkNew k slot e).size = (plug k .leaf).size + 1 := by
  rw [← T.length_toList, ← T.length_toList, linkNew_toList, toList_plug]; simp; omega

theorem insDescend_growth (time : Int) (e : Ent V) (c0 pk : Nat) (hc0 : 8 ≤ c0) (fuel : Nat) :
    ∀ (k : Ctx (Ent V)) (t : T (Ent V)) (p : Pool) (tr : List (Ev V)),
    WF (⟨plug k t, p⟩ : St V) → GrowthP c0 pk (plug k t).size p → t.size < fuel →
    ∀ t' p' tr', insDescend time e fuel k t p tr = some (t', p', tr') →
      GrowthP c0 (max pk t'.size) t'.size p' ∧ t'.size ≤ pk + 1 := by
  induction fuel with
  | zero => intro k t p tr _ _ h; omega
  | succ fuel ih =>
    intro k t p tr hw g hfuel t' p' tr' h
    cases t with
    | leaf =>
      simp only [insDescend, Option.some.injEq, Prod.mk.injEq] at h
      obtain ⟨rfl, rfl, _⟩ := h
      rw [linkNew_size]
      have hcount := hw.slots.count
      simp only at hcount
      exact ⟨g.alloc hc0 hcount, by have := g.size_le; omega⟩
    | node c l s x r =>
      simp only [insDescend] at h
      split at h
      · obtain ⟨k1, f1, p1, tr1, he, hx⟩ := expireFocus_spec time (l.size + 1) (⟨c, s, x, r, .L⟩ :: k) l p
          (⟨.cmp, x, k, T.node c l s x r, p⟩ :: tr) (by simpa [Frame.fill] using hw) (by omega)
        have g1 := expireFocus_growth time c0 pk hc0 (l.size + 1) _ _ _ _ (by simpa [Frame.fill] using hw)
          (by simpa [Frame.fill] using g) _ _ _ _ he
        rw [he] at h
        exact ih k1 f1 p1 tr1 hx.wf g1 (by have := hx.size_le; simp only [T.size_node] at hfuel; omega) _ _ _ h
      · obtain ⟨k1, f1, p1, tr1, he, hx⟩ := expireFocus_spec time (r.size + 1) (⟨c, s, x, l, .R⟩ :: k) r p
          (⟨.cmp, x, k, T.node c l s x r, p⟩ :: tr) (by simpa [Frame.fill] using hw) (by omega)
        have g1 := expireFocus_growth time c0 pk hc0 (r.size + 1) _ _ _ _ (by simpa [Frame.fill] using hw)
          (by simpa [Frame.fill] using g) _ _ _ _ he
        rw [he] at h
        exact ih k1 f1 p1 tr1 hx.wf g1 (by have := hx.size_le; simp only [T.size_node] at hfuel; omega) _ _ _ h

theorem expireSlot_growth (time : Int) (slot : Nat) (c0 pk : Nat) (hc0 : 8 ≤ c0) (fuel : Nat) :
    ∀ (t : T (Ent V)) (p : Pool) (tr : List (Ev V)), WF (⟨t, p⟩ : St V) → GrowthP c0 pk t.size p →
    ∀ t' p' tr', expireSlot time slot fuel t p tr = some (t', p', tr') → GrowthP c0 pk t'.size p' := by
  induction fuel with
  | zero => intro t p tr _ _ t' p' tr' h; simp [expireSlot] at h
  | succ fuel ih =>
    intro t p tr hw g t' p' tr' h
    simp only [expireSlot] at h
    cases hf : findSlot slot [] t with
    | none => simp only [hf, Option.some.injEq, Prod.mk.injEq] at h; obtain ⟨rfl, rfl, _⟩ := h; exact g
    | some q =>
      obtain ⟨k, f⟩ := q
      obtain ⟨hp, c, l, e, r, rfl⟩ := findSlot_some slot [] t hf
      simp only [plug_nil] at hp
      simp only [hf] at h
      split at h
      · simp only [Option.some.injEq, Prod.mk.injEq] at h; obtain ⟨rfl, rfl, _⟩ := h; exact g
      · obtain ⟨k1, t1, fr, hd, hw1, _⟩ := deleteFocus_full k (p := p) (hp ▸ hw)
        simp only [hd] at h
        exact ih (plug k1 t1) (p.free fr) _ hw1 (deleteFocus_growth k c0 pk hc0 (hp ▸ hw) hd (hp ▸ g)) _ _ _ h

theorem expireAll_growth (time : Int) (c0 pk : Nat) (hc0 : 8 ≤ c0) (slots : List Nat) :
    ∀ (t : T (Ent V)) (p : Pool) (tr : List (Ev V)), WF (⟨t, p⟩ : St V) → GrowthP c0 pk t.size p →
    ∀ t' p' tr', expireAll time slots t p tr = some (t', p', tr') → GrowthP c0 pk t'.size p' := by
  induction slots with
  | nil => intro t p tr _ g t' p' tr' h; simp only [expireAll, Option.some.injEq, Prod.mk.injEq] at h; obtain ⟨rfl, rfl, _⟩ := h; exact g
  | cons i is ih =>
    intro t p tr hw g t' p' tr' h
    obtain ⟨t1, p1, tr1, he, hres⟩ := expireSlot_spec time i (t.size + 1) t p tr hw (by omega)
    have g1 := expireSlot_growth time i c0 pk hc0 (t.size + 1) t p tr hw g _ _ _ he
    simp only [expireAll, he] at h
    exact ih t1 p1 tr1 hres.wf g1 _ _ _ h

/-- every operation of the expiring tree keeps the growth invariant, the peak being taken after the operation -/
theorem St.kstep_growth (st : St V) (op : KOp V) (c0 pk : Nat) (hc0 : 8 ≤ c0) (hw : WF st) (g : Growth c0 pk st)
    {st' : St V} {r : Option V} {vals : List V} {tr : List (Ev V)} (hs : st.kstep op = some (st', r, vals, tr)) :
    Growth c0 (max pk st'.tree.size) st' ∧ st'.tree.size ≤ pk + 1 := by
  cases op with
  | insert e t =>
    simp only [St.kstep, Option.map_eq_some_iff] at hs
    obtain ⟨⟨s, tr0⟩, h1, h2⟩ := hs
    simp only [Prod.mk.injEq] at h2
    obtain ⟨rfl, _⟩ := h2
    simp only [St.kInsert] at h1
    obtain ⟨k, f, p, tr1, he, hx⟩ := expireFocus_spec t (st.tree.size + 1) [] st.tree st.pool
      [⟨.exp, e, [], st.tree, st.pool⟩] (by simpa using hw) (by omega)
    have g1 := expireFocus_growth t c0 pk hc0 (st.tree.size + 1) [] st.tree st.pool _ (by simpa using hw)
      (by simpa using g.toP) _ _ _ _ he
    simp only [he] at h1
    cases hi : insDescend t e (f.size + 1) k f p tr1 with
    | none => simp [hi] at h1
    | some q =>
      obtain ⟨t', p', tr'⟩ := q
      simp only [hi, Option.some.injEq, Prod.mk.injEq] at h1
      obtain ⟨rfl, _⟩ := h1
      have := insDescend_growth t e c0 pk hc0 (f.size + 1) k f p tr1 hx.wf g1 (by omega) _ _ _ hi
      exact ⟨this.1.toG, this.2⟩
  | query mode t f =>
    simp only [St.kstep, Option.map_eq_some_iff] at hs
    obtain ⟨⟨s, r0, tr0⟩, h1, h2⟩ := hs
    simp only [Prod.mk.injEq] at h2
    obtain ⟨rfl, _⟩ := h2
    simp only [St.kQuery] at h1
    obtain ⟨k, ft, p, tr1, he, hx⟩ := expireFocus_spec t (st.tree.size + 1) [] st.tree st.pool []
      (by simpa using hw) (by omega)
    have g1 := expireFocus_growth t c0 pk hc0 (st.tree.size + 1) [] st.tree st.pool _ (by simpa using hw)
      (by simpa using g.toP) _ _ _ _ he
    simp only [he] at h1
    cases hi : search mode t f (ft.size + 1) k ft p none tr1 with
    | none => simp [hi] at h1
    | some q =>
      obtain ⟨t', p', r', tr'⟩ := q
      simp only [hi, Option.some.injEq, Prod.mk.injEq] at h1
      obtain ⟨rfl, _⟩ := h1
      have := search_growth mode t f c0 pk hc0 (ft.size + 1) k ft p none tr1 hx.wf g1 (by omega) _ _ _ _ hi
      exact ⟨(GrowthP.toG (st := ⟨t', p'⟩) this).mono (by omega), by have := this.size_le; show t'.size ≤ pk + 1; omega⟩
  | exportAt t =>
    simp only [St.kstep, Option.map_eq_some_iff] at hs
    obtain ⟨⟨s, v0, c1, tr0⟩, h1, h2⟩ := hs
    simp only [Prod.mk.injEq] at h2
    obtain ⟨rfl, _⟩ := h2
    simp only [St.kExport] at h1
    cases hi : expireAll t ((List.range st.pool.bufLen).drop 1) st.tree st.pool [] with
    | none => rw [hi] at h1; simp at h1
    | some q =>
      obtain ⟨t', p', tr'⟩ := q
      rw [hi] at h1
      simp only [Option.some.injEq, Prod.mk.injEq] at h1
      obtain ⟨rfl, _⟩ := h1
      have := expireAll_growth t c0 pk hc0 _ st.tree st.pool [] (by simpa using hw) g.toP _ _ _ hi
      exact ⟨(GrowthP.toG (st := ⟨t', p'⟩) this).mono (by omega), by have := this.size_le; show t'.size ≤ pk + 1; omega⟩
  | clear =>
    simp only [St.kstep, Option.some.injEq, Prod.mk.injEq] at hs
    obtain ⟨rfl, _⟩ := hs
    obtain ⟨gs, gb, gc, gbuf⟩ := g
    have hcap := Pool.freeAll_cap st.tree.bfs st.tree.slots st.pool (max c0 (2 * st.pool.bufLen))
      hw.slots.1 [] (by simpa using (T.bfs_perm st.tree).symm) gc (by omega) (by omega)
    refine ⟨⟨by simp [St.clear], by simp only [St.clear, Pool.freeAll]; omega, ?_, ?_⟩, by simp [St.clear]⟩
    · simp only [St.clear, Pool.freeAll]; rw [hcap.2]; exact hcap.1
    · simp only [St.clear, Pool.freeAll]; omega

end ITree
