import ITree.Lemmas.SegDefs
namespace ITree

set_option maxRecDepth 100000 in
/-- one insert writes at most 8 copies (and at least one) -/
theorem place_le_8 : ∀ a < 32, ∀ b < 32, a ≤ b →
    (bits (placeMask a b)).length ≤ 8 ∧ 0 < (bits (placeMask a b)).length := by decide +kernel


end ITree
