import ITree.Lemmas.ArenaDeleteTop
/-!
# `is_part_of_the_tree`: the walk over (possibly stale) parent links

For a slot of the tree the walk climbs to the root and answers `true`. For a slot that is *not* in the tree
(free, or never used) the answer must be `false`; this is an invariant about the garbage left in freed slots
(`Garbage`), preserved by every operation because operations write only into slots that are in the tree
afterwards (or into the scratch slot 0).
-/
namespace ITree
variable {V : Type}

theorem isPartOfTree_mono {a : Arena V} : ∀ (n m : Nat) (j : Nat) (b : Bool),
    Arena.isPartOfTree n a j = some b → n ≤ m → Arena.isPartOfTree m a j = some b := by
  intro n
  induction n with
  | zero => intro m j b h; simp [Arena.isPartOfTree] at h
  | succ n ih =>
    intro m j b h hm
    obtain ⟨m, rfl⟩ : ∃ m0, m = m0 + 1 := ⟨m - 1, by omega⟩
    simp only [Arena.isPartOfTree, Option.bind_eq_bind, Option.pure_def] at h ⊢
    cases hc : a.node j with
    | none => simp [hc] at h
    | some c =>
      simp only [hc, Option.bind_some] at h ⊢
      split
      · rename_i hpe; simpa [hpe] using h
      · rename_i hpe
        simp only [hpe, if_false] at h
        cases hp : a.node c.parent with
        | none => simp [hp] at h
        | some pn =>
          simp only [hp, Option.bind_some] at h ⊢
          split
          · rename_i hl; simpa [hl] using h
          · rename_i hl
            simp only [hl, if_false] at h
            exact ih m _ _ h (by omega)

/-- a slot of the tree: the walk reaches the root -/
theorem isPartOfTree_live {a : Arena V} (hsize : a.nodes.size ≤ EMPTY) : ∀ (k : Ctx (Ent V)) (i p : Nat) (ni : ANode V)
    (fuel : Nat), RepCtx a k i p → a.node i = some ni → ni.parent = p → k.length < fuel →
    Arena.isPartOfTree fuel a i = some true := by
  intro k
  induction k with
  | nil =>
    intro i p ni fuel hc hn hp hf
    obtain ⟨rfl, hroot⟩ := hc
    obtain ⟨fuel, rfl⟩ : ∃ f0, fuel = f0 + 1 := ⟨fuel - 1, by omega⟩
    simp [Arena.isPartOfTree, hn, hp, hroot]
  | cons f K ih =>
    intro i p ni fuel hc hn hp hf
    obtain ⟨rfl, pn, hpn, _, _, hside, hrest⟩ := hc
    obtain ⟨fuel, rfl⟩ : ∃ f0, fuel = f0 + 1 := ⟨fuel - 1, by omega⟩
    have hplt := node_lt hpn
    have hpe : (f.s == EMPTY) = false := by simp; omega
    have hlink : (pn.left != i && pn.right != i) = false := by
      cases hs : f.side with
      | L => simp only [hs] at hside; simp [hside.1]
      | R => simp only [hs] at hside; simp [hside.1]
    simp only [Arena.isPartOfTree, hn, Option.bind_eq_bind, Option.bind_some, hp, hpe, Bool.false_eq_true, if_false, hpn,
      hlink]
    exact ih f.s pn.parent pn fuel hrest hpn rfl (by simp at hf; omega)

/-- the state-level form: every slot of the represented tree is found -/
theorem isPartOfTree_mem {a : Arena V} {st : St V} (h : RepSt a st) (hs : SlotsOK st.tree st.pool)
    (hsize : a.nodes.size ≤ EMPTY) {slot : Nat} (hm : slot ∈ st.tree.slots) :
    Arena.isPartOfTree (a.nodes.size + 1) a slot = some true := by
  cases hf : findSlot slot [] st.tree with
  | none => exact absurd hm (findSlot_none slot [] st.tree hf)
  | some x =>
    obtain ⟨k, t⟩ := x
    obtain ⟨hplug, c, l, e, r, rfl⟩ := findSlot_some slot [] st.tree hf
    obtain ⟨p', hc, hr⟩ := findSlot_rep slot st.tree [] a.root EMPTY ⟨rfl, rfl⟩ h.tree hf
    obtain ⟨_, n, hn, hnp, _⟩ := hr
    obtain ⟨_, _, hnd, hlt, _⟩ := SlotsOK.arena h hs
    have hperm := slots_plug k (T.node c l slot e r)
    rw [hplug, plug_nil] at hperm
    have hnd' := hperm.nodup_iff.mp hnd
    exact isPartOfTree_live hsize k slot p' n _ hc hn hnp (ctx_fuel hc (List.nodup_append.mp hnd').2.1)

end ITree

namespace ITree
variable {V : Type}

/-- what the walk needs to know about the slots that are in the tree, the root and the scratch slot -/
structure LinksOK (a : Arena V) (live : List Nat) : Prop where
  child : ∀ s ∈ live, ∀ n, a.node s = some n →
    (n.left = EMPTY ∨ n.left ∈ live) ∧ (n.right = EMPTY ∨ n.right ∈ live)
  zero : ∀ n, a.node 0 = some n → (n.left = 0 ∨ n.left = EMPTY) ∧ (n.right = 0 ∨ n.right = EMPTY)
  root : a.root = EMPTY ∨ a.root ∈ live

/-- every slot that is not in the tree (and is not the scratch slot) is recognised as such -/
def Garbage (a : Arena V) (live : List Nat) : Prop :=
  ∀ j, j < a.nodes.size → j ∉ live → j ≠ 0 → Arena.isPartOfTree (a.nodes.size + 1) a j = some false

/-- a stale cursor whose parent is in the tree (or is the scratch slot) is rejected at once -/
theorem walk_reject {a : Arena V} {live : List Nat} (hl : LinksOK a live) (hsize : a.nodes.size ≤ EMPTY)
    {j : Nat} {c : ANode V} (hj : j ∉ live) (hj0 : j ≠ 0) (hjlt : j < a.nodes.size) (hc : a.node j = some c)
    (hp : c.parent = EMPTY ∨ ((c.parent ∈ live ∨ c.parent = 0) ∧ c.parent < a.nodes.size)) (fuel : Nat) :
    Arena.isPartOfTree (fuel + 1) a j = some false := by
  simp only [Arena.isPartOfTree, hc, Option.bind_eq_bind, Option.bind_some, Option.pure_def]
  rcases hp with hp | ⟨hp, hplt⟩
  · have hjr : (j == a.root) = false := by
      rcases hl.root with h | h
      · rw [h]; simp; omega
      · have : j ≠ a.root := fun e => hj (e ▸ h)
        simpa using this
    simp [hp, hjr]
  · have hpe : (c.parent == EMPTY) = false := by simp; omega
    obtain ⟨pn, hpn⟩ : ∃ pn, a.node c.parent = some pn := ⟨a.nodes[c.parent], by simp [Arena.node, hplt]⟩
    have hlinks : pn.left ≠ j ∧ pn.right ≠ j := by
      rcases hp with hp | hp
      · obtain ⟨h1, h2⟩ := hl.child _ hp pn hpn
        constructor
        · rcases h1 with h | h
          · omega
          · intro e; exact hj (e ▸ h)
        · rcases h2 with h | h
          · omega
          · intro e; exact hj (e ▸ h)
      · rw [hp] at hpn
        obtain ⟨h1, h2⟩ := hl.zero pn hpn
        constructor
        · rcases h1 with h | h <;> omega
        · rcases h2 with h | h <;> omega
    simp [hpe, hpn, hlinks.1, hlinks.2]

/-- **preservation**: an operation that leaves every slot outside the new tree (and other than slot 0)
untouched keeps the stale slots recognisable -/
theorem stale_pres {a a' : Arena V} {live' : List Nat} (hsz : a.nodes.size ≤ a'.nodes.size)
    (hsize' : a'.nodes.size ≤ EMPTY)
    (hframe : ∀ s, s ∉ live' → s ≠ 0 → s < a.nodes.size → a'.node s = a.node s)
    (hl : LinksOK a' live') :
    ∀ (fuel j : Nat), j ∉ live' → j ≠ 0 → j < a.nodes.size →
      Arena.isPartOfTree fuel a j = some false → Arena.isPartOfTree fuel a' j = some false := by
  intro fuel
  induction fuel with
  | zero => intro j _ _ _ h; simp [Arena.isPartOfTree] at h
  | succ fuel ih =>
    intro j hj hj0 hjlt h
    have hnj := hframe j hj hj0 hjlt
    simp only [Arena.isPartOfTree, Option.bind_eq_bind, Option.pure_def] at h
    cases hc : a.node j with
    | none => simp [hc] at h
    | some c =>
      simp only [hc, Option.bind_some] at h
      have hc' : a'.node j = some c := by rw [hnj, hc]
      by_cases hpe : c.parent = EMPTY
      · exact walk_reject hl hsize' hj hj0 (by omega) hc' (Or.inl hpe) fuel
      · have hpb : (c.parent == EMPTY) = false := by simpa using hpe
        simp only [hpb, Bool.false_eq_true, if_false] at h
        cases hp : a.node c.parent with
        | none => simp [hp] at h
        | some pn =>
          simp only [hp, Option.bind_some] at h
          have hplt := node_lt hp
          by_cases hpl : c.parent ∈ live' ∨ c.parent = 0
          · exact walk_reject hl hsize' hj hj0 (by omega) hc' (Or.inr ⟨hpl, by omega⟩) fuel
          · simp only [not_or] at hpl
            have hp' : a'.node c.parent = some pn := by rw [hframe _ hpl.1 hpl.2 hplt, hp]
            simp only [Arena.isPartOfTree, hc', Option.bind_eq_bind, Option.bind_some, Option.pure_def, hpb,
              Bool.false_eq_true, if_false, hp']
            split
            · rfl
            · rename_i hlk
              simp only [hlk, if_false] at h
              exact ih _ hpl.1 hpl.2 hplt h

end ITree

namespace ITree
variable {V : Type}

/-- child and parent fields of the nodes of a represented tree stay inside it (`P`: the slots above it) -/
theorem Rep.links {a : Arena V} : ∀ {t : T (Ent V)} {i p : Nat} {P : List Nat}, Rep a i p t → (p = EMPTY ∨ p ∈ P) →
    ∀ s ∈ t.slots, ∃ n, a.node s = some n ∧
      (n.left = EMPTY ∨ n.left ∈ t.slots) ∧ (n.right = EMPTY ∨ n.right ∈ t.slots) ∧
      (n.parent = EMPTY ∨ n.parent ∈ P ∨ n.parent ∈ t.slots) := by
  intro t
  induction t with
  | leaf => intro i p P _ _ s hs; simp at hs
  | node c l s0 e r ihl ihr =>
    intro i p P hr hp s hs
    obtain ⟨rfl, n, hn, hnp, _, _, hl, hrr⟩ := hr
    simp only [T.slots_node, List.mem_append, List.mem_cons] at hs
    have hleft : n.left = EMPTY ∨ n.left ∈ l.slots := by
      by_cases he : n.left = EMPTY
      · exact Or.inl he
      · exact Or.inr (hl.rootIdx_mem he)
    have hright : n.right = EMPTY ∨ n.right ∈ r.slots := by
      by_cases he : n.right = EMPTY
      · exact Or.inl he
      · exact Or.inr (hrr.rootIdx_mem he)
    have lift : ∀ (sub : T (Ent V)) (m : ANode V), (∀ x ∈ sub.slots, x ∈ (T.node c l i e r).slots) →
        (m.left = EMPTY ∨ m.left ∈ sub.slots) → (m.right = EMPTY ∨ m.right ∈ sub.slots) →
        (m.parent = EMPTY ∨ m.parent ∈ i :: P ∨ m.parent ∈ sub.slots) →
        (m.left = EMPTY ∨ m.left ∈ (T.node c l i e r).slots) ∧ (m.right = EMPTY ∨ m.right ∈ (T.node c l i e r).slots) ∧
        (m.parent = EMPTY ∨ m.parent ∈ P ∨ m.parent ∈ (T.node c l i e r).slots) := by
      intro sub m hsub h1 h2 h3
      refine ⟨?_, ?_, ?_⟩
      · rcases h1 with h | h
        · exact Or.inl h
        · exact Or.inr (hsub _ h)
      · rcases h2 with h | h
        · exact Or.inl h
        · exact Or.inr (hsub _ h)
      · rcases h3 with h | h | h
        · exact Or.inl h
        · simp only [List.mem_cons] at h
          rcases h with h | h
          · exact Or.inr (Or.inr (by simp [h]))
          · exact Or.inr (Or.inl h)
        · exact Or.inr (Or.inr (hsub _ h))
    rcases hs with hs | hs | hs
    · obtain ⟨m, hm, h1, h2, h3⟩ := ihl (P := i :: P) hl (Or.inr (by simp)) s hs
      exact ⟨m, hm, lift l m (fun x hx => by simp [hx]) h1 h2 h3⟩
    · subst hs
      refine ⟨n, hn, ?_, ?_, ?_⟩
      · rcases hleft with h | h
        · exact Or.inl h
        · exact Or.inr (by simp [h])
      · rcases hright with h | h
        · exact Or.inl h
        · exact Or.inr (by simp [h])
      · rw [hnp]
        rcases hp with h | h
        · exact Or.inl h
        · exact Or.inr (Or.inl h)
    · obtain ⟨m, hm, h1, h2, h3⟩ := ihr (P := i :: P) hrr (Or.inr (by simp)) s hs
      exact ⟨m, hm, lift r m (fun x hx => by simp [hx]) h1 h2 h3⟩

/-- no node of a represented tree is its own parent -/
theorem Rep.parent_ne_self {a : Arena V} : ∀ {t : T (Ent V)} {i p : Nat}, Rep a i p t → p ∉ t.slots → t.slots.Nodup →
    ∀ s ∈ t.slots, ∀ n, a.node s = some n → n.parent ≠ s := by
  intro t
  induction t with
  | leaf => intro i p _ _ _ s hs; simp at hs
  | node c l s0 e r ihl ihr =>
    intro i p hr hp hnd s hs n hn
    obtain ⟨rfl, m, hm, hmp, _, _, hl, hrr⟩ := hr
    simp only [T.slots_node, List.mem_append, List.mem_cons] at hs
    rcases hs with hs | hs | hs
    · exact ihl hl (by slots_tac hnd) (by slots_tac hnd) s hs n hn
    · subst hs
      rw [hm] at hn; cases hn
      rw [hmp]; intro h; apply hp; simp [h]
    · exact ihr hrr (by slots_tac hnd) (by slots_tac hnd) s hs n hn

/-- the walk's view of a represented state -/
theorem RepSt.linksOK {a : Arena V} {st : St V} (h : RepSt a st) (hz : ZeroOK a) : LinksOK a st.tree.slots := by
  refine ⟨?_, hz, ?_⟩
  · intro s hs n hn
    obtain ⟨m, hm, h1, h2, _⟩ := Rep.links (P := []) h.tree (Or.inl rfl) s hs
    rw [hn] at hm; cases hm
    exact ⟨h1, h2⟩
  · by_cases he : a.root = EMPTY
    · exact Or.inl he
    · exact Or.inr (h.tree.rootIdx_mem he)

end ITree

namespace ITree
variable {V : Type}

/-- representation **plus** the invariant about the garbage in freed slots and the scratch slot -/
structure RepStG (a : Arena V) (st : St V) : Prop where
  rep : RepSt a st
  garbage : Garbage a st.tree.slots
  zero : ZeroOK a

theorem free_unused_head (p : Pool) (f g : Nat) (h : p.free f = p.free g) : f = g := by
  have := congrArg Pool.unused h
  simp only [Pool.free, List.cons.injEq] at this
  exact this.1

/-- `delete_index` keeps the garbage invariant: it writes only into slots that stay in the tree (and slot 0),
and the slot it frees is unlinked from its parent first -/
theorem deleteAt_repG {a : Arena V} {st st' : St V} (h : RepStG a st) (hw : WF st)
    (hsize : a.nodes.size ≤ EMPTY) {k : Ctx (Ent V)} {c : Color} {l r : T (Ent V)} {s : Nat} {e : Ent V}
    (hplug : plug k (.node c l s e r) = st.tree)
    {p : Nat} (hc : RepCtx a k s p) (hr : Rep a s p (.node c l s e r))
    (hm : st.deleteAt k (.node c l s e r) = some st') :
    ∃ a', a.deleteIndex s = some a' ∧ RepStG a' st' ∧ a'.nodes.size = a.nodes.size ∧ a'.dflt = a.dflt := by
  obtain ⟨_, _, hnd, hlt, _⟩ := SlotsOK.arena h.rep hw.slots
  obtain ⟨h0, h0s⟩ := SlotsOK.zero h.rep hw.slots
  have hperm := slots_plug k (T.node c l s e r)
  rw [hplug] at hperm
  obtain ⟨st2, hdel2, hw2, _, _, f, hfperm, hfpool⟩ := St.deleteAt_spec st k hw hplug
  rw [hm] at hdel2
  cases hdel2
  simp only [St.deleteAt] at hm
  cases hdf : deleteFocus k (T.node c l s e r) with
  | none => simp [hdf] at hm
  | some x =>
  obtain ⟨k'', t'', freed⟩ := x
  simp only [hdf, Option.map_some, Option.some.injEq] at hm
  subst hm
  have hff : f = freed := free_unused_head _ _ _ hfpool.symm
  subst hff
  obtain ⟨a', h1, h2, h3, h4, h5, hfr, hz⟩ := deleteIndex_rep hsize hc hr (hperm.nodup_iff.mp hnd) h0
    (fun hx => h0s (hperm.mem_iff.mpr hx)) hdf
  have hrep' : RepSt a' ⟨plug k'' t'', st.pool.free f⟩ := ⟨h2, by rw [h3, h.rep.pool]⟩
  have hz' := hz h.zero
  have hlinks' := hrep'.linksOK hz'
  -- the frame in terms of the new tree
  have hframe : ∀ x, x ∉ (plug k'' t'').slots → x ≠ 0 → x < a.nodes.size → a'.node x = a.node x := by
    intro x hx hx0 _
    refine hfr x ?_ hx0
    by_cases hxf : x = f
    · exact Or.inr hxf
    · left
      intro hmem
      have : x ∈ st.tree.slots := hperm.mem_iff.mpr hmem
      have := hfperm.mem_iff.mp this
      simp only [List.mem_cons] at this
      rcases this with h' | h'
      · exact hxf h'
      · exact hx h'
  refine ⟨a', h1, ⟨hrep', ?_, hz'⟩, h4, h5⟩
  intro j hj hjl hj0
  rw [h4] at hj ⊢
  by_cases hjo : j ∈ st.tree.slots
  · -- the slot that was just freed
    have hjf : j = f := by
      have := hfperm.mem_iff.mp hjo
      simp only [List.mem_cons] at this
      rcases this with h' | h'
      · exact h'
      · exact absurd h' hjl
    subst hjf
    obtain ⟨n, hn, _, _, hpar⟩ := Rep.links (P := []) h.rep.tree (Or.inl rfl) j hjo
    have hn' : a'.node j = some n := by rw [hframe j hjl hj0 hj, hn]
    have hnd1 : (j :: (plug k'' t'').slots).Nodup := hfperm.nodup_iff.mp hnd
    refine walk_reject hlinks' (by rw [h4]; exact hsize) hjl hj0 (by rw [h4]; exact hj) hn' ?_ _
    rcases hpar with h' | h' | h'
    · exact Or.inl h'
    · simp at h'
    · right
      have hq := hfperm.mem_iff.mp h'
      simp only [List.mem_cons] at hq
      have hqlt : n.parent < a.nodes.size := hlt _ h'
      rcases hq with hq | hq
      · -- a node is not its own parent
        exfalso
        have hE : EMPTY ∉ st.tree.slots := fun hm' => by have := hlt _ hm'; omega
        exact Rep.parent_ne_self h.rep.tree hE hnd j hjo n hn hq
      · exact ⟨Or.inl hq, by rw [h4]; exact hqlt⟩
  · exact stale_pres (by rw [h4]; exact Nat.le_refl _) (by rw [h4]; exact hsize) hframe hlinks' _ j hjl hj0 hj
      (h.garbage j hj hjo hj0)

end ITree


namespace ITree
variable {V : Type}

/-- slots after an insertion: the allocated slot joins the tree -/
theorem St.insert_slots_perm (st : St V) (e : Ent V) :
    (st.insert e).tree.slots.Perm (st.pool.alloc.1 :: st.tree.slots) := by
  have hplug := descendIns_plug e.key [] st.tree
  simp only [plug_nil] at hplug
  have htl : st.tree.toList = ctxLeft (descendIns e.key [] st.tree) ++ ctxRight (descendIns e.key [] st.tree) := by
    have := congrArg T.toList hplug
    simpa [toList_plug] using this.symm
  have hnew : (st.insert e).tree.toList =
      ctxLeft (descendIns e.key [] st.tree) ++ (st.pool.alloc.1, e) :: ctxRight (descendIns e.key [] st.tree) := by
    simp only [St.insert]
    exact linkNew_toList _ _ _
  rw [T.slots_eq, T.slots_eq, hnew, htl]
  simp only [List.map_append, List.map_cons]
  exact List.perm_middle

theorem linkNew_slots_perm (k : Ctx (Ent V)) (i : Nat) (e : Ent V) :
    (linkNew k i e).slots.Perm (i :: (plug k (.leaf : T (Ent V))).slots) := by
  rw [T.slots_eq, T.slots_eq, linkNew_toList, toList_plug]
  simp only [T.toList, List.map_append, List.map_cons, List.map_nil, List.append_nil]
  exact List.perm_middle

/-- **growth of the tree** (nothing is freed): an operation that writes only into slots of the new tree and
leaves the fresh slots of a grown arena as `reserve` made them keeps the stale slots recognisable -/
theorem RepStG.of_grow {a a' : Arena V} {st st' : St V} (h : RepStG a st) (hrep' : RepSt a' st')
    (hsz : a.nodes.size ≤ a'.nodes.size) (hsize' : a'.nodes.size ≤ EMPTY) (h0 : 0 < a.nodes.size)
    (hsub : ∀ s ∈ st.tree.slots, s ∈ st'.tree.slots)
    (hframe : ∀ j, j ∉ st'.tree.slots → (j < a.nodes.size → a'.node j = a.node j) ∧
      (a.nodes.size ≤ j → j < a'.nodes.size → ∃ n, a'.node j = some n ∧ n.parent = 0))
    (h0s : 0 ∉ st'.tree.slots) : RepStG a' st' := by
  have hz' : ZeroOK a' := by
    intro n hn
    rw [(hframe 0 h0s).1 h0] at hn
    exact h.zero n hn
  have hl' := hrep'.linksOK hz'
  refine ⟨hrep', ?_, hz'⟩
  intro j hjlt hj hj0
  by_cases hjo : j < a.nodes.size
  · have hg := h.garbage j hjo (fun hm => hj (hsub j hm)) hj0
    have := stale_pres hsz hsize' (fun s hs _ hslt => (hframe s hs).1 hslt) hl' _ j hj hj0 hjo hg
    exact isPartOfTree_mono _ _ _ _ this (by omega)
  · obtain ⟨n, hn, hp⟩ := (hframe j hj).2 (by omega) hjlt
    exact walk_reject hl' hsize' hj hj0 hjlt hn (Or.inr ⟨Or.inr hp, by rw [hp]; omega⟩) _

/-- `insert` of the map / set keeps the garbage invariant -/
theorem insert_repG {a : Arena V} {st : St V} (e : Ent V) (h : RepStG a st) (hw : WF st)
    (hsize : a.nodes.size + a.cap ≤ EMPTY) :
    ∃ a', a.insert e = some a' ∧ RepStG a' (st.insert e) ∧ a'.nodes.size ≤ EMPTY ∧ a'.dflt = a.dflt := by
  obtain ⟨a', h1, h2, h3, h4, h5, h6⟩ := insert_rep e h.rep hw.slots hsize
  obtain ⟨h0, h0s⟩ := SlotsOK.zero h.rep hw.slots
  obtain ⟨a1, a2, _⟩ := Pool.alloc_spec hw.slots
  have hperm := St.insert_slots_perm st e
  have hal : (poolOf a).alloc.1 = st.pool.alloc.1 := by rw [h.rep.pool]
  refine ⟨a', h1, RepStG.of_grow h h2 h5 h3 h0 (fun s hs => hperm.mem_iff.mpr (by simp [hs])) ?_ ?_, h3, h4⟩
  · intro j hj
    exact h6 j (by rw [hal]; exact fun hm => hj (hperm.mem_iff.mpr hm))
  · intro hm
    have := hperm.mem_iff.mp hm
    simp only [List.mem_cons] at this
    rcases this with h' | h'
    · exact a2 h'.symm
    · exact h0s h'

/-- the walk's answer does not depend on the free list; with the root reset, no slot is found -/
theorem isPartOfTree_no_root {a a' : Arena V} (hn : a'.nodes = a.nodes) (hr : a'.root = EMPTY)
    (hsize : a.nodes.size ≤ EMPTY) : ∀ (fuel j : Nat) (b : Bool),
    Arena.isPartOfTree fuel a j = some b → Arena.isPartOfTree fuel a' j = some false := by
  intro fuel
  induction fuel with
  | zero => intro j b h; simp [Arena.isPartOfTree] at h
  | succ fuel ih =>
    intro j b h
    have hnode : ∀ x, a'.node x = a.node x := fun x => by simp [Arena.node, hn]
    simp only [Arena.isPartOfTree, Option.bind_eq_bind, Option.pure_def, hnode] at h ⊢
    cases hc : a.node j with
    | none => simp [hc] at h
    | some c =>
      have hjlt := node_lt hc
      simp only [hc, Option.bind_some] at h ⊢
      split
      · simp [hr]; omega
      · rename_i hpe
        simp only [hpe, if_false] at h
        cases hp : a.node c.parent with
        | none => simp [hp] at h
        | some pn =>
          simp only [hp, Option.bind_some] at h ⊢
          split
          · rfl
          · rename_i hl
            simp only [hl, if_false] at h
            exact ih _ _ h

end ITree
