import ITree.Model.SegMach
/-! Complete table: `BitIter` (`trailing_zeros`, `value &= value - 1`) enumerates, for every mask that can
occur, exactly the list `bits` of the `Nat` model, without underflow. -/
namespace ITree.Mach

set_option maxRecDepth 100000 in
theorem bits_table : ∀ a < 32, ∀ b < 32, a ≤ b →
    bits (ITree.placeMask a b) = some (ITree.bits (ITree.placeMask a b)) ∧
    bits (ITree.visitMask a b) = some (ITree.bits (ITree.visitMask a b)) := by
  decide +kernel

end ITree.Mach
