import ITree.Lemmas.WF
/-!
# The executable well-formedness checks of the driver decide the predicates of the theorems

The driver evaluates `St.wfCheck` on every real pre-state it receives; `wfCheck_iff` says that this is
exactly the hypothesis `WF` of the property theorems. So "the driver answered `wf=1`" means: the theorems
apply to that explored real state.
-/
namespace ITree
variable {ε V : Type}

theorem balCheck_iff (t : T ε) (n : Nat) : t.balCheck = some n ↔ Bal t n := by
  induction t generalizing n with
  | leaf =>
    simp only [T.balCheck, Option.some.injEq]
    constructor
    · rintro rfl; exact Bal.leaf
    · intro h; cases h; rfl
  | node c l s e r ihl ihr =>
    simp only [T.balCheck]
    constructor
    · intro h
      cases hl : l.balCheck with
      | none => simp [hl] at h
      | some a =>
        cases hr : r.balCheck with
        | none => simp [hl, hr] at h
        | some b =>
          simp only [hl, hr] at h
          by_cases hab : (a == b) = true
          · have : a = b := by simpa using hab
            subst this
            simp only [beq_self_eq_true, if_true] at h
            cases c with
            | black =>
              simp only [Option.some.injEq] at h; subst h
              exact Bal.black ((ihl a).mp hl) ((ihr a).mp hr)
            | red =>
              simp only at h
              split at h
              · rename_i hb
                simp only [Option.some.injEq] at h; subst h
                simp only [Bool.and_eq_true] at hb
                exact Bal.red ((ihl a).mp hl) ((ihr a).mp hr) hb.1 hb.2
              · simp at h
          · simp [hab] at h
    · intro h
      cases h with
      | red hl hr bl br =>
        rw [(ihl n).mpr hl, (ihr n).mpr hr]
        simp [bl, br]
      | black hl hr =>
        rw [(ihl _).mpr hl, (ihr _).mpr hr]
        simp

theorem strictlyIncreasing_iff (l : List Int) : strictlyIncreasing l = true ↔ l.Pairwise (· < ·) := by
  induction l with
  | nil => simp [strictlyIncreasing]
  | cons a as ih =>
    cases as with
    | nil => simp [strictlyIncreasing]
    | cons b bs =>
      simp only [strictlyIncreasing, Bool.and_eq_true, decide_eq_true_eq, ih, List.pairwise_cons]
      constructor
      · rintro ⟨hab, hb, hbs⟩
        refine ⟨?_, hb, hbs⟩
        intro x hx
        rcases List.mem_cons.mp hx with rfl | hx
        · exact hab
        · have := hb x hx; omega
      · rintro ⟨ha, hb, hbs⟩
        exact ⟨ha b (List.mem_cons_self ..), hb, hbs⟩

theorem slotsCheck_iff (t : T ε) (p : Pool) : slotsCheck t p = true ↔ SlotsOK t p := by
  simp only [slotsCheck, SlotsOK, Bool.and_eq_true, beq_iff_eq, decide_eq_true_eq]
  have hle_trans : ∀ (a b c : Nat), decide (a ≤ b) = true → decide (b ≤ c) = true → decide (a ≤ c) = true := by
    intro a b c h1 h2; simp only [decide_eq_true_eq] at *; omega
  have hle_total : ∀ (a b : Nat), (decide (a ≤ b) || decide (b ≤ a)) = true := by
    intro a b; simp only [Bool.or_eq_true, decide_eq_true_eq]; omega
  constructor
  · rintro ⟨⟨h1, h2⟩, h3⟩
    refine ⟨?_, h2, h3⟩
    have := List.mergeSort_perm (0 :: (t.slots ++ p.unused)) (fun a b => decide (a ≤ b))
    rw [h1] at this
    exact this.symm
  · rintro ⟨h1, h2, h3⟩
    refine ⟨⟨?_, h2⟩, h3⟩
    have hs := List.pairwise_mergeSort (le := fun a b => decide (a ≤ b)) hle_trans hle_total (0 :: (t.slots ++ p.unused))
    have hp := (List.mergeSort_perm (0 :: (t.slots ++ p.unused)) (fun a b => decide (a ≤ b))).trans h1
    have hr : (List.range p.bufLen).Pairwise (fun a b => decide (a ≤ b) = true) := by
      have : (List.range p.bufLen).Pairwise (· < ·) := List.pairwise_lt_range
      exact List.Pairwise.imp (fun h => by simp only [decide_eq_true_eq]; omega) this
    exact List.Perm.eq_of_pairwise (le := fun a b => decide (a ≤ b) = true)
      (by intro a b _ _ h1 h2; simp only [decide_eq_true_eq] at h1 h2; omega) hs hr hp

/-- the driver's `wf=1` is exactly the hypothesis `WF` of the theorems -/
theorem wfCheck_iff (st : St V) : st.wfCheck = true ↔ WF st := by
  simp only [St.wfCheck, Bool.and_eq_true]
  constructor
  · rintro ⟨⟨h1, h2⟩, h3⟩
    refine ⟨(strictlyIncreasing_iff _).mp h1, ?_, (slotsCheck_iff _ _).mp h3⟩
    cases hb : st.tree.balCheck with
    | none => simp [hb] at h2
    | some n => exact ⟨n, (balCheck_iff _ n).mp hb⟩
  · rintro ⟨h1, ⟨n, h2⟩, h3⟩
    exact ⟨⟨(strictlyIncreasing_iff _).mpr h1, by rw [(balCheck_iff _ n).mpr h2]; rfl⟩, (slotsCheck_iff _ _).mpr h3⟩

end ITree
