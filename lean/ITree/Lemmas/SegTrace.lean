import ITree.Lemmas.SegQuery
import ITree.Model.SegTrace
/-!
# The tree at every `expiration()` call of a segment-tree query is a partial purge of the tree before it
-/
namespace ITree
variable {V : Type}

/-- `s'` is `s` with some copies expired at `t` removed (in any places) -/
def Purged (t : Int) (s s' : Seg V) : Prop :=
  s'.chunks.length = s.chunks.length ∧ s'.layout = s.layout ∧
  ∀ i, ∃ rm, (chunkAt s i).Perm (chunkAt s' i ++ rm) ∧ ∀ e ∈ rm, keepAt t e = false

theorem Purged.refl (t : Int) (s : Seg V) : Purged t s s :=
  ⟨rfl, rfl, fun _ => ⟨[], by simp, by simp⟩⟩

theorem Purged.trans {t : Int} {s1 s2 s3 : Seg V} (h1 : Purged t s1 s2) (h2 : Purged t s2 s3) : Purged t s1 s3 := by
  refine ⟨h2.1.trans h1.1, h2.2.1.trans h1.2.1, ?_⟩
  intro i
  obtain ⟨r1, p1, q1⟩ := h1.2.2 i
  obtain ⟨r2, p2, q2⟩ := h2.2.2 i
  refine ⟨r2 ++ r1, ?_, ?_⟩
  · refine p1.trans ?_
    rw [← List.append_assoc]
    exact List.Perm.append_right r1 p2
  · intro e he
    rcases List.mem_append.mp he with h | h
    · exact q2 e h
    · exact q1 e h

/-- `s` with the bucket list of place `i0` replaced -/
def withChunk (s : Seg V) (i0 : Nat) (c : List (SegEnt V)) : Seg V := { s with chunks := s.chunks.set i0 c }

theorem withChunk_withChunk (s : Seg V) (i0 : Nat) (c c' : List (SegEnt V)) :
    withChunk (withChunk s i0 c) i0 c' = withChunk s i0 c' := by
  simp [withChunk, List.set_set]

theorem withChunk_self (s : Seg V) (i0 : Nat) (c : List (SegEnt V)) (h : s.chunks[i0]? = some c) :
    withChunk s i0 c = s := by
  obtain ⟨hlt, hc⟩ := List.getElem?_eq_some_iff.mp h
  cases s with
  | mk l cs =>
    simp only [withChunk, Seg.mk.injEq, true_and]
    simp only at hlt hc
    rw [← hc]; exact List.set_getElem_self hlt

/-- one `swap_remove` of a copy expired at `t` -/
theorem Purged.remove_step {t : Int} (s : Seg V) (i0 : Nat) (c : List (SegEnt V)) (i : Nat) (item : SegEnt V)
    (h0 : i0 < s.chunks.length) (hi : c[i]? = some item) (hx : item.exp < t) :
    Purged t (withChunk s i0 c) (withChunk s i0 (swapRemove c i)) := by
  obtain ⟨hlt, hci⟩ := List.getElem?_eq_some_iff.mp hi
  refine ⟨by simp [withChunk], rfl, ?_⟩
  intro j
  have e1 := chunkAt_set s i0 j c h0
  have e2 := chunkAt_set s i0 j (swapRemove c i) h0
  simp only [withChunk]
  rw [e1, e2]
  by_cases hj : j = i0
  · simp only [hj, if_true]
    obtain ⟨A, x, B, hl, hA, htake, hdrop, _⟩ := swapRemove_spec c i hlt
    have hxi : x = item := by
      subst hl
      have : (A ++ x :: B)[i]? = some x := by
        rw [← hA]; simp
      rw [List.getElem?_eq_getElem hlt] at this
      rw [← hci]; exact (Option.some.inj this).symm
    refine ⟨[item], ?_, ?_⟩
    · have hsplit : swapRemove c i = A ++ (swapRemove c i).drop i := by
        conv => lhs; rw [← List.take_append_drop i (swapRemove c i)]
        rw [htake]
      have h1 : c.Perm (item :: (A ++ B)) := by rw [hl, hxi]; exact List.perm_middle
      have h2 : (item :: (A ++ B)).Perm (item :: (A ++ (swapRemove c i).drop i)) :=
        List.Perm.cons _ (List.Perm.append_left A hdrop.symm)
      have h3 : (item :: (A ++ (swapRemove c i).drop i)).Perm ((A ++ (swapRemove c i).drop i) ++ [item]) :=
        (List.perm_append_singleton _ _).symm
      rw [hsplit]
      exact h1.trans (h2.trans h3)
    · intro e he
      simp only [List.mem_singleton] at he
      subst he
      simp only [keepAt, decide_eq_false_iff_not]; omega
  · simp only [hj, if_false]
    exact ⟨[], by simp, by simp⟩

/-! ### erasure -/

theorem scanChunkT_erase (s : Seg V) (t : Int) (q i0 : Nat) : ∀ (fuel : Nat) (c : List (SegEnt V)) (i : Nat) (tr : List (Seg V)),
    (scanChunkT s t q i0 fuel c i tr).1 = (scanChunk t q i0 fuel c i).1 ∧
    (scanChunkT s t q i0 fuel c i tr).2.1 = (scanChunk t q i0 fuel c i).2 := by
  intro fuel
  induction fuel with
  | zero => intro c i tr; exact ⟨rfl, rfl⟩
  | succ fuel ih =>
    intro c i tr
    simp only [scanChunkT, scanChunk]
    cases hci : c[i]? with
    | none => simp
    | some item =>
      simp only
      by_cases hx : item.exp < t
      · simp only [hx, if_true]; exact ih _ _ _
      · simp only [hx, if_false]
        by_cases hf : (tz (item.mask &&& q) == i0) = true
        · simp [hf]
        · simp only [hf, Bool.false_eq_true, if_false]; exact ih _ _ _

theorem segNextT_erase : ∀ (fuel : Nat) (s : Seg V) (it : SegIt) (tr : List (Seg V)),
    (segNextT fuel s it tr).map (fun x => (x.1, x.2.1, x.2.2.1)) = segNext fuel s it := by
  intro fuel
  induction fuel with
  | zero => intro s it tr; rfl
  | succ fuel ih =>
    intro s it tr
    simp only [segNextT, segNext]
    cases hi0 : it.i0 with
    | none => rfl
    | some i0 =>
      simp only
      cases hc : s.chunks[i0]? with
      | none => rfl
      | some c =>
        simp only
        obtain ⟨e1, e2⟩ := scanChunkT_erase s it.time it.mask i0 (2 * c.length + 1) c it.i1 tr
        rw [e1, e2]
        cases hr : (scanChunk it.time it.mask i0 (2 * c.length + 1) c it.i1).2 with
        | some vi => rfl
        | none =>
          simp only
          cases findNext (s.chunks.set i0 (scanChunk it.time it.mask i0 (2 * c.length + 1) c it.i1).1) it.rest with
          | none => rfl
          | some nr => exact ih _ _ _

theorem segTakeT_erase : ∀ (n : Nat) (s : Seg V) (it : SegIt) (acc : List V) (tr : List (Seg V)),
    (segTakeT n s it acc tr).map (fun x => (x.1, x.2.1, x.2.2.1)) = segTake n s it acc := by
  intro n
  induction n with
  | zero => intro s it acc tr; rfl
  | succ n ih =>
    intro s it acc tr
    simp only [segTakeT, segTake]
    rw [← segNextT_erase 64 s it tr]
    cases segNextT 64 s it tr with
    | none => rfl
    | some x =>
      obtain ⟨s', it', o, tr'⟩ := x
      cases o with
      | none => rfl
      | some v => simp only [Option.map_some]; exact ih _ _ _ _

/-! ### every recorded tree is a partial purge of the tree before the query -/

theorem scanChunkT_purged (S0 s : Seg V) (t : Int) (q i0 : Nat) (h0 : i0 < s.chunks.length) :
    ∀ (fuel : Nat) (c : List (SegEnt V)) (i : Nat) (tr : List (Seg V)),
    Purged t S0 (withChunk s i0 c) → (∀ ev ∈ tr, Purged t S0 ev) →
    Purged t S0 (withChunk s i0 (scanChunkT s t q i0 fuel c i tr).1) ∧
      ∀ ev ∈ (scanChunkT s t q i0 fuel c i tr).2.2, Purged t S0 ev := by
  intro fuel
  induction fuel with
  | zero => intro c i tr hc htr; exact ⟨hc, htr⟩
  | succ fuel ih =>
    intro c i tr hc htr
    simp only [scanChunkT]
    cases hci : c[i]? with
    | none => exact ⟨hc, htr⟩
    | some item =>
      simp only
      have htr1 : ∀ ev ∈ ({ s with chunks := s.chunks.set i0 c } :: tr : List (Seg V)), Purged t S0 ev := by
        intro ev hev
        rcases List.mem_cons.mp hev with rfl | hev
        · exact hc
        · exact htr ev hev
      by_cases hx : item.exp < t
      · simp only [hx, if_true]
        exact ih _ _ _ (hc.trans (Purged.remove_step s i0 c i item h0 hci hx)) htr1
      · simp only [hx, if_false]
        by_cases hf : (tz (item.mask &&& q) == i0) = true
        · simp only [hf, if_true]; exact ⟨hc, htr1⟩
        · simp only [hf, Bool.false_eq_true, if_false]; exact ih _ _ _ hc htr1

theorem segNextT_purged (S0 : Seg V) : ∀ (fuel : Nat) (s : Seg V) (it : SegIt) (tr : List (Seg V))
    {s' : Seg V} {it' : SegIt} {o : Option V} {tr' : List (Seg V)},
    Purged it.time S0 s → (∀ ev ∈ tr, Purged it.time S0 ev) →
    segNextT fuel s it tr = some (s', it', o, tr') →
    Purged it.time S0 s' ∧ (∀ ev ∈ tr', Purged it.time S0 ev) ∧ it'.time = it.time := by
  intro fuel
  induction fuel with
  | zero => intro s it tr s' it' o tr' _ _ h; simp [segNextT] at h
  | succ fuel ih =>
    intro s it tr s' it' o tr' hs htr h
    simp only [segNextT] at h
    cases hi0 : it.i0 with
    | none =>
      simp only [hi0, Option.some.injEq, Prod.mk.injEq] at h
      obtain ⟨rfl, rfl, _, rfl⟩ := h
      exact ⟨hs, htr, rfl⟩
    | some i0 =>
      simp only [hi0] at h
      cases hc : s.chunks[i0]? with
      | none =>
        simp only [hc, Option.some.injEq, Prod.mk.injEq] at h
        obtain ⟨rfl, rfl, _, rfl⟩ := h
        exact ⟨hs, htr, rfl⟩
      | some c =>
        simp only [hc] at h
        have h0 : i0 < s.chunks.length := (List.getElem?_eq_some_iff.mp hc).1
        have hsc : Purged it.time S0 (withChunk s i0 c) := by rw [withChunk_self s i0 c hc]; exact hs
        obtain ⟨p1, p2⟩ := scanChunkT_purged S0 s it.time it.mask i0 h0 (2 * c.length + 1) c it.i1 tr hsc htr
        cases hr : (scanChunkT s it.time it.mask i0 (2 * c.length + 1) c it.i1 tr).2.1 with
        | some vi =>
          obtain ⟨v, i1⟩ := vi
          simp only [hr, Option.some.injEq, Prod.mk.injEq] at h
          obtain ⟨rfl, rfl, _, rfl⟩ := h
          exact ⟨p1, p2, rfl⟩
        | none =>
          simp only [hr] at h
          cases hf : findNext (s.chunks.set i0 (scanChunkT s it.time it.mask i0 (2 * c.length + 1) c it.i1 tr).1) it.rest with
          | none => simp [hf] at h
          | some nr =>
            obtain ⟨n, rest⟩ := nr
            simp only [hf] at h
            have := ih _ { it with i0 := n, i1 := 0, rest := rest } _ (s' := s') (it' := it') (o := o) (tr' := tr') p1 p2 h
            exact this

theorem segTakeT_purged (S0 : Seg V) : ∀ (n : Nat) (s : Seg V) (it : SegIt) (acc : List V) (tr : List (Seg V))
    {s' : Seg V} {it' : SegIt} {items : List V} {tr' : List (Seg V)},
    Purged it.time S0 s → (∀ ev ∈ tr, Purged it.time S0 ev) →
    segTakeT n s it acc tr = some (s', it', items, tr') →
    Purged it.time S0 s' ∧ ∀ ev ∈ tr', Purged it.time S0 ev := by
  intro n
  induction n with
  | zero =>
    intro s it acc tr s' it' items tr' hs htr h
    simp only [segTakeT, Option.some.injEq, Prod.mk.injEq] at h
    obtain ⟨rfl, _, _, rfl⟩ := h
    exact ⟨hs, htr⟩
  | succ n ih =>
    intro s it acc tr s' it' items tr' hs htr h
    simp only [segTakeT] at h
    cases hn : segNextT 64 s it tr with
    | none => simp [hn] at h
    | some x =>
      obtain ⟨s1, it1, o, tr1⟩ := x
      obtain ⟨p1, p2, p3⟩ := segNextT_purged S0 64 s it tr hs htr hn
      cases o with
      | none =>
        simp only [hn, Option.some.injEq, Prod.mk.injEq] at h
        obtain ⟨rfl, _, _, rfl⟩ := h
        exact ⟨p1, p2⟩
      | some v =>
        simp only [hn] at h
        have := ih s1 it1 (v :: acc) tr1 (s' := s') (it' := it') (items := items) (tr' := tr')
          (by rw [p3]; exact p1) (by rw [p3]; exact p2) h
        rw [p3] at this
        exact this

end ITree
