import ITree.Model.SegMach
/-! Complete table: the machine-integer transcription of `range_to_place_mask` (incl. `u64::fill`) never
trips a check and computes the value of the `Nat` model. -/
namespace ITree.Mach

set_option maxRecDepth 100000 in
theorem placeMask_table : ∀ a < 32, ∀ b < 32, a ≤ b → placeMask a b = some (ITree.placeMask a b) := by
  decide +kernel

end ITree.Mach
