import ITree.Lemmas.Expire
/-!
# The three searches of the expiring tree return the answer of the live content
-/
namespace ITree
variable {V : Type}

/-- the reference answer of a predecessor / exact query on a list of live entries in key order -/
def specPred (mode : Mode) (f : Int → Ordering) (l : List (Ent V)) : Option V :=
  match mode with
  | .fl => ((l.filter fun e => f e.key == .lt).getLast?).map (·.val)
  | .fle => ((l.filter fun e => f e.key != .gt).getLast?).map (·.val)
  | .get => (l.find? fun e => f e.key == .eq).map (·.val)

/-- the remembered predecessor value: `get_value` remembers nothing -/
def resFor (mode : Mode) (v : Option V) : Option V :=
  match mode with
  | .get => none
  | _ => v

theorem getLast?_append_singleton {α} (l : List α) (a : α) : (l ++ [a]).getLast? = some a := by simp

/-- monotone comparator along a list of entries -/
def MonoE (f : Int → Ordering) (l : List (Ent V)) : Prop := MonoOn f (l.map (·.key))

theorem MonoE.split {f : Int → Ordering} {A B : List (Ent V)} {e : Ent V} (h : MonoE f (A ++ e :: B)) :
    (f e.key ≠ .gt → ∀ x ∈ A, f x.key = .lt) ∧ (f e.key ≠ .lt → ∀ x ∈ B, f x.key = .gt) := by
  simp only [MonoE, MonoOn, List.map_append, List.map_cons, List.pairwise_append, List.pairwise_cons,
    List.mem_map, List.mem_cons] at h
  obtain ⟨_, ⟨heb, _⟩, hab⟩ := h
  constructor
  · intro hne x hx
    exact hab _ ⟨x, hx, rfl⟩ e.key (Or.inl rfl) hne
  · intro hne x hx
    have := heb _ ⟨x, hx, rfl⟩
    cases hfx : f x.key with
    | gt => rfl
    | lt => exact absurd (this (by simp [hfx])) hne
    | eq => exact absurd (this (by simp [hfx])) hne

/-- loop invariant of `search` -/
structure SearchInv (mode : Mode) (time : Int) (f : Int → Ordering) (k : Ctx (Ent V)) (t : T (Ent V))
    (p : Pool) (res : Option V) : Prop where
  wf : WF (⟨plug k t, p⟩ : St V)
  root_live : ∀ c l s e r, t = .node c l s e r → time < e.exp
  mono : MonoE f (live time (plug k t).ents)
  left_lt : ∀ x ∈ live time (ctxLeftE k), f x.key = .lt
  right_ge : ∀ x ∈ live time (ctxRightE k), f x.key ≠ .lt ∧ (mode ≠ .fl → f x.key = .gt)
  res_eq : res = resFor mode (((live time (ctxLeftE k)).getLast?).map (·.val))

theorem filter_all {α} {p : α → Bool} {l : List α} (h : ∀ x ∈ l, p x = true) : l.filter p = l :=
  List.filter_eq_self.mpr h
theorem filter_none {α} {p : α → Bool} {l : List α} (h : ∀ x ∈ l, p x = false) : l.filter p = [] :=
  List.filter_eq_nil_iff.mpr (by intro x hx; simp [h x hx])

theorem search_spec (mode : Mode) (time : Int) (f : Int → Ordering) (fuel : Nat) :
    ∀ (k : Ctx (Ent V)) (t : T (Ent V)) (p : Pool) (res : Option V) (tr : List (Ev V)),
    SearchInv mode time f k t p res → t.size < fuel →
    ∃ t' p' r tr', search mode time f fuel k t p res tr = some (t', p', r, tr') ∧
      WF (⟨t', p'⟩ : St V) ∧ live time t'.ents = live time (plug k t).ents ∧
      r = specPred mode f (live time (plug k t).ents) := by
  induction fuel with
  | zero => intro k t p res tr _ h; omega
  | succ fuel ih =>
    intro k t p res tr inv hfuel
    obtain ⟨hwf, hroot, hmono, hL, hR, hres⟩ := inv
    have hW : live time (plug k t).ents = live time (ctxLeftE k) ++ live time t.ents ++ live time (ctxRightE k) := by
      rw [ents_plug, live_append, live_append]
    cases t with
    | leaf =>
      refine ⟨plug k .leaf, p, res, tr, rfl, hwf, rfl, ?_⟩
      rw [hW]
      simp only [T.ents_leaf, live_nil, List.append_nil]
      have hRlt : ∀ x ∈ live time (ctxRightE k), (f x.key == .lt) = false := by
        intro x hx; have := (hR x hx).1; cases hfx : f x.key <;> simp_all
      have hLlt : ∀ x ∈ live time (ctxLeftE k), (f x.key == .lt) = true := by
        intro x hx; simp [hL x hx]
      cases mode with
      | fl =>
        simp only [specPred, List.filter_append, filter_all hLlt, filter_none hRlt, List.append_nil]
        simpa [resFor] using hres
      | fle =>
        have h1 : ∀ x ∈ live time (ctxLeftE k), (f x.key != .gt) = true := by
          intro x hx; simp [hL x hx]
        have h2 : ∀ x ∈ live time (ctxRightE k), (f x.key != .gt) = false := by
          intro x hx; simp [(hR x hx).2 (by simp)]
        simp only [specPred, List.filter_append, filter_all h1, filter_none h2, List.append_nil]
        simpa [resFor] using hres
      | get =>
        simp only [specPred, List.find?_append]
        have h1 : (live time (ctxLeftE k)).find? (fun e => f e.key == .eq) = none := by
          rw [List.find?_eq_none]; intro x hx; simp [hL x hx]
        have h2 : (live time (ctxRightE k)).find? (fun e => f e.key == .eq) = none := by
          rw [List.find?_eq_none]; intro x hx; simp [(hR x hx).2 (by simp)]
        simp [h1, h2, hres, resFor]
    | node c l s e r =>
      have helive : time < e.exp := hroot c l s e r rfl
      -- the whole live list, split around the focus root
      have hW' : live time (plug k (T.node c l s e r)).ents =
          (live time (ctxLeftE k) ++ live time l.ents) ++ e :: (live time r.ents ++ live time (ctxRightE k)) := by
        rw [hW]; simp only [T.ents_node, live_append, live_cons, helive, if_true, List.append_assoc, List.cons_append]
      have hsp := MonoE.split (hW' ▸ hmono)
      -- going left
      have goLeft : ∀ (res0 : Option V) (tr0 : List (Ev V)),
          (f e.key ≠ .lt) → (mode ≠ .fl → f e.key = .gt) →
          (res0 = resFor mode (((live time (ctxLeftE k)).getLast?).map (·.val))) →
          ∃ t' p' ans tr',
            (match expireFocus time (l.size + 1) (⟨c, s, e, r, .L⟩ :: k) l p tr0 with
              | none => none
              | some (k', t', p', tr') => search mode time f fuel k' t' p' res0 tr') = some (t', p', ans, tr') ∧
            WF (⟨t', p'⟩ : St V) ∧ live time t'.ents = live time (plug k (T.node c l s e r)).ents ∧
            ans = specPred mode f (live time (plug k (T.node c l s e r)).ents) := by
        intro res0 tr0 hne hfl hres0
        obtain ⟨k', f', p', tr', he, hx⟩ := expireFocus_spec time (l.size + 1) (⟨c, s, e, r, .L⟩ :: k) l p tr0
          (by simpa [Frame.fill] using hwf) (by omega)
        have hplug : live time (plug k' f').ents = live time (plug k (T.node c l s e r)).ents := by
          rw [ents_plug, ents_plug]
          simp only [ctxLeftE, ctxRightE, hx.left, hx.right, live_append, hx.live_eq]
          simp [Frame.lefts, Frame.rights, live_append, live_cons, helive, T.ents, List.append_assoc]
        have inv' : SearchInv mode time f k' f' p' res0 := by
          refine ⟨hx.wf, hx.root_live, hplug ▸ hmono, ?_, ?_, ?_⟩
          · simp only [ctxLeftE, hx.left]
            simpa [ctxLeftE, Frame.lefts] using hL
          · simp only [ctxRightE, hx.right]
            intro x hx'
            simp only [ctxRight_cons, Frame.rights, List.map_append, List.map_cons, live_append, live_cons, helive,
              if_true, List.cons_append, List.mem_cons, List.mem_append] at hx'
            rcases hx' with rfl | hx' | hx'
            · exact ⟨hne, hfl⟩
            · have hg := hsp.2 hne x (by simp only [List.mem_append]; exact Or.inl (by simpa [T.ents] using hx'))
              exact ⟨by simp [hg], fun _ => hg⟩
            · exact hR x (by simpa [ctxRightE] using hx')
          · simp only [ctxLeftE, hx.left]
            simpa [ctxLeftE, Frame.lefts] using hres0
        obtain ⟨t', p'', r', tr'', hs, hw', hl', hr'⟩ := ih k' f' p' res0 tr' inv'
          (by have := hx.size_le; simp only [T.size_node] at hfuel; omega)
        exact ⟨t', p'', r', tr'', by rw [he]; exact hs, hw', hl'.trans hplug, hplug ▸ hr'⟩
      -- going right
      have goRight : ∀ (tr0 : List (Ev V)), f e.key = .lt →
          ∃ t' p' ans tr',
            (match expireFocus time (r.size + 1) (⟨c, s, e, l, .R⟩ :: k) r p tr0 with
              | none => none
              | some (k', t', p', tr') => search mode time f fuel k' t' p'
                  (match mode with | .get => res | _ => some e.val) tr') = some (t', p', ans, tr') ∧
            WF (⟨t', p'⟩ : St V) ∧ live time t'.ents = live time (plug k (T.node c l s e r)).ents ∧
            ans = specPred mode f (live time (plug k (T.node c l s e r)).ents) := by
        intro tr0 hlt
        obtain ⟨k', f', p', tr', he, hx⟩ := expireFocus_spec time (r.size + 1) (⟨c, s, e, l, .R⟩ :: k) r p tr0
          (by simpa [Frame.fill] using hwf) (by omega)
        have hplug : live time (plug k' f').ents = live time (plug k (T.node c l s e r)).ents := by
          rw [ents_plug, ents_plug]
          simp only [ctxLeftE, ctxRightE, hx.left, hx.right, live_append, hx.live_eq]
          simp [Frame.lefts, Frame.rights, live_append, live_cons, helive, T.ents, List.append_assoc]
        have inv' : SearchInv mode time f k' f' p' (match mode with | .get => res | _ => some e.val) := by
          refine ⟨hx.wf, hx.root_live, hplug ▸ hmono, ?_, ?_, ?_⟩
          · simp only [ctxLeftE, hx.left]
            intro x hx'
            simp only [ctxLeft_cons, Frame.lefts, List.map_append, List.map_cons, List.map_nil, live_append, live_cons,
              helive, if_true, live_nil, List.mem_append, List.mem_singleton] at hx'
            rcases hx' with hx' | hx' | rfl
            · exact hL x (by simpa [ctxLeftE] using hx')
            · exact hsp.1 (by simp [hlt]) x (by simp only [List.mem_append]; exact Or.inr (by simpa [T.ents] using hx'))
            · exact hlt
          · simp only [ctxRightE, hx.right]
            simpa [ctxRightE, Frame.rights] using hR
          · simp only [ctxLeftE, hx.left, ctxLeft_cons, Frame.lefts, List.map_append, List.map_cons, List.map_nil,
              live_append, live_cons, helive, if_true, live_nil]
            rw [← List.append_assoc, getLast?_append_singleton]
            cases mode <;> simp [hres, resFor]
        obtain ⟨t', p'', r', tr'', hs, hw', hl', hr'⟩ := ih k' f' p' _ tr' inv'
          (by have := hx.size_le; simp only [T.size_node] at hfuel; omega)
        exact ⟨t', p'', r', tr'', by rw [he]; exact hs, hw', hl'.trans hplug, hplug ▸ hr'⟩
      simp only [search]
      cases hfe : f e.key with
      | lt => exact goRight _ hfe
      | gt => exact goLeft res _ (by simp [hfe]) (fun _ => hfe) hres
      | eq =>
        cases mode with
        | fl => exact goLeft res _ (by simp [hfe]) (fun h => absurd rfl h) hres
        | fle =>
          refine ⟨_, _, _, _, rfl, hwf, rfl, ?_⟩
          rw [hW']
          have hA : ∀ x ∈ live time (ctxLeftE k) ++ live time l.ents, (f x.key != .gt) = true := by
            intro x hx; simp [hsp.1 (by simp [hfe]) x hx]
          have hB : ∀ x ∈ live time r.ents ++ live time (ctxRightE k), (f x.key != .gt) = false := by
            intro x hx; simp [hsp.2 (by simp [hfe]) x hx]
          simp only [specPred, List.filter_append, List.filter_cons, filter_all hA, hfe]
          have : (live time r.ents ++ live time (ctxRightE k)).filter (fun e => f e.key != .gt) = [] := filter_none hB
          simp only [List.filter_append] at this
          simp [this]
        | get =>
          refine ⟨_, _, _, _, rfl, hwf, rfl, ?_⟩
          rw [hW']
          have hA : (live time (ctxLeftE k) ++ live time l.ents).find? (fun e => f e.key == .eq) = none := by
            rw [List.find?_eq_none]; intro x hx; simp [hsp.1 (by simp [hfe]) x hx]
          simp only [specPred]
          rw [List.find?_append, hA]
          simp [hfe]

end ITree
