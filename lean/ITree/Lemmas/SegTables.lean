import ITree.Lemmas.SegVisitChar
import ITree.Lemmas.SegPlaceChar
import ITree.Lemmas.SegMasksLt
import ITree.Lemmas.SegPlaceLe8
import ITree.Lemmas.SegPlaceTiles
import ITree.Lemmas.SegBitsChar
/-! the complete mask tables (one module per table so that they are checked in parallel) -/
