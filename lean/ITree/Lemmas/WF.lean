import ITree.Lemmas.ToList
import ITree.Model.Check
/-!
# Well-formedness of tree states and its preservation by the map / set operations
-/
namespace ITree
variable {ε V : Type}

/-- keys strictly increasing in order -/
def Ordered (t : T (Ent V)) : Prop := t.keys.Pairwise (· < ·)

/-- slot 0 (the NIL sentinel), the slots of the tree and the free list are exactly the arena slots
`0 .. bufLen-1`, each once -/
def SlotsOK (t : T ε) (p : Pool) : Prop :=
  (0 :: (t.slots ++ p.unused)).Perm (List.range p.bufLen) ∧ p.unused.length ≤ p.cap ∧ 0 < p.cap

structure WF (st : St V) : Prop where
  ordered : Ordered st.tree
  bal : ∃ n, Bal st.tree n
  slots : SlotsOK st.tree st.pool

theorem T.keys_eq (t : T (Ent V)) : t.keys = t.toList.map (·.2.key) := rfl
theorem T.slots_eq (t : T ε) : t.slots = t.toList.map (·.1) := rfl

/-! ### descents -/

theorem descendIns_plug (key : Int) (k : Ctx (Ent V)) (t : T (Ent V)) :
    plug (descendIns key k t) .leaf = plug k t := by
  induction t generalizing k with
  | leaf => rfl
  | node c l s e r ihl ihr =>
    simp only [descendIns]
    split
    · rw [ihl]; rfl
    · rw [ihr]; rfl

/-- all keys left of the insertion point are `≤ key`… `< key` or `= key`; right of it `> key` -/
theorem descendIns_bounds (key : Int) (k : Ctx (Ent V)) (t : T (Ent V))
    (hl : ∀ x ∈ ctxLeft k, x.2.key ≤ key) (hr : ∀ x ∈ ctxRight k, key < x.2.key)
    (ho : (plug k t).keys.Pairwise (· < ·)) :
    (∀ x ∈ ctxLeft (descendIns key k t), x.2.key ≤ key) ∧
    (∀ x ∈ ctxRight (descendIns key k t), key < x.2.key) := by
  induction t generalizing k with
  | leaf => exact ⟨hl, hr⟩
  | node c l s e r ihl ihr =>
    have hsorted : ((ctxLeft k ++ (l.toList ++ (s, e) :: r.toList) ++ ctxRight k).map (·.2.key)).Pairwise (· < ·) := by
      simpa [T.keys, toList_plug] using ho
    simp only [descendIns]
    split
    · rename_i hlt
      apply ihl
      · simpa [Frame.lefts] using hl
      · intro x hx
        simp only [ctxRight_cons, Frame.rights, List.cons_append, List.mem_cons, List.mem_append] at hx
        rcases hx with rfl | hx | hx
        · exact hlt
        · -- x in r: e.key < x.key
          have : e.key < x.2.key := by
            simp only [List.map_append, List.map_cons, List.pairwise_append, List.pairwise_cons, List.mem_map] at hsorted
            exact hsorted.1.2.1.2.1.1 _ ⟨x, hx, rfl⟩
          omega
        · exact hr x hx
      · simpa [plug, Frame.fill] using ho
    · rename_i hge
      apply ihr
      · intro x hx
        simp only [ctxLeft_cons, Frame.lefts, List.mem_append, List.mem_singleton] at hx
        rcases hx with hx | hx | rfl
        · exact hl x hx
        · have : x.2.key < e.key := by
            simp only [List.map_append, List.map_cons, List.pairwise_append, List.pairwise_cons, List.mem_map, List.mem_cons] at hsorted
            exact hsorted.1.2.1.2.2 _ ⟨x, hx, rfl⟩ _ (Or.inl rfl)
          omega
        · simp only; omega
      · simpa [Frame.rights] using hr
      · simpa [plug, Frame.fill] using ho

theorem linkNew_toList (k : Ctx (Ent V)) (slot : Nat) (e : Ent V) :
    (linkNew k slot e).toList = ctxLeft k ++ (slot, e) :: ctxRight k := by
  cases k with
  | nil => simp [linkNew]
  | cons p rest =>
    simp only [linkNew]
    split <;> simp [insertFix_toList, toList_plug, toList_fill]

/-! ### the pool -/

theorem range_add_perm (n l : Nat) :
    (List.range (n + l)) = List.range n ++ (List.range l).map (· + n) := by
  rw [List.range_add]
  congr 1
  apply List.map_congr_left
  intro a _; omega

theorem Pool.alloc_spec {t : T ε} {p : Pool} (h : SlotsOK t p) :
    (p.alloc.1 ∉ t.slots) ∧ p.alloc.1 ≠ 0 ∧
    (0 :: ((p.alloc.1 :: t.slots) ++ p.alloc.2.unused)).Perm (List.range p.alloc.2.bufLen) ∧
    p.alloc.2.unused.length ≤ p.alloc.2.cap ∧ p.alloc.2.cap = p.cap ∧ p.bufLen ≤ p.alloc.2.bufLen := by
  obtain ⟨hperm, hlen, hcap⟩ := h
  have hnodup : (0 :: (t.slots ++ p.unused)).Nodup := hperm.nodup_iff.mpr List.nodup_range
  cases hu : p.unused with
  | cons x xs =>
    simp only [Pool.alloc, hu]
    rw [hu] at hperm hnodup hlen
    refine ⟨?_, ?_, ?_, ?_, trivial, Nat.le_refl _⟩
    · intro hx
      have := hnodup
      simp only [List.nodup_cons, List.nodup_append, List.mem_cons, List.mem_append] at this
      exact this.2.2.2 x hx x (Or.inl rfl) rfl
    · intro hx
      have := hnodup
      simp only [List.nodup_cons, List.mem_append, List.mem_cons] at this
      exact this.1 (Or.inr (Or.inl hx.symm))
    · refine List.Perm.trans ?_ hperm
      refine List.Perm.cons 0 ?_
      simpa using (List.perm_middle (l₁ := t.slots) (l₂ := xs) (a := x)).symm
    · simp only [List.length_cons] at hlen; omega
  | nil =>
    simp only [Pool.alloc, hu]
    rw [hu] at hperm hnodup
    have hmem : ∀ y, y ∈ (0 :: (t.slots ++ [])) ↔ y < p.bufLen := by
      intro y; rw [hperm.mem_iff]; simp
    refine ⟨?_, ?_, ?_, ?_, trivial, Nat.le_add_right _ _⟩
    · intro hx
      have := (hmem p.bufLen).mp (by simp [hx])
      omega
    · intro hx
      have := (hmem 0).mp (by simp)
      omega
    · rw [range_add_perm]
      have hl : List.range p.cap = 0 :: (List.range p.cap).drop 1 := by
        cases hc : p.cap with
        | zero => omega
        | succ c => simp [List.range_succ_eq_map]
      have : (List.range p.cap).map (· + p.bufLen) = p.bufLen :: ((List.range p.cap).drop 1).map (· + p.bufLen) := by
        conv => lhs; rw [hl]
        simp
      rw [this]
      have h0 : (0 :: t.slots).Perm (List.range p.bufLen) := by simpa using hperm
      calc 0 :: (p.bufLen :: t.slots ++ ((List.range p.cap).drop 1).map (· + p.bufLen))
          = (0 :: p.bufLen :: t.slots) ++ ((List.range p.cap).drop 1).map (· + p.bufLen) := by simp
        _ |>.Perm ((p.bufLen :: 0 :: t.slots) ++ ((List.range p.cap).drop 1).map (· + p.bufLen)) :=
            List.Perm.append_right _ (List.Perm.swap _ _ _)
        _ |>.Perm ((0 :: t.slots) ++ p.bufLen :: ((List.range p.cap).drop 1).map (· + p.bufLen)) := by
            simpa using (List.perm_middle (l₁ := 0 :: t.slots) (a := p.bufLen)).symm
        _ |>.Perm _ := List.Perm.append_right _ h0
    · simp

theorem Pool.free_spec {t t' : T ε} {p : Pool} {f : Nat} (h : SlotsOK t p)
    (hs : t.slots.Perm (f :: t'.slots)) : SlotsOK t' (p.free f) := by
  obtain ⟨hperm, hlen, hcap⟩ := h
  refine ⟨?_, ?_, ?_⟩
  · simp only [Pool.free]
    refine List.Perm.trans ?_ hperm
    refine List.Perm.cons 0 ?_
    calc t'.slots ++ f :: p.unused
        |>.Perm (f :: t'.slots ++ p.unused) := by simp
      _ |>.Perm (t.slots ++ p.unused) := List.Perm.append_right _ hs.symm
  · simp only [Pool.free, List.length_cons]
    split
    · rename_i heq
      have : p.unused.length = p.cap := by simpa using heq
      omega
    · rename_i hne
      have : p.unused.length ≠ p.cap := by simpa using hne
      omega
  · simp only [Pool.free]
    split <;> omega

end ITree
