import ITree.Lemmas.ArenaRotate
/-!
# Arena-level insertion realises the zipper-model insertion

`fixInsert_rep`: `fix_red_black_properties_after_insert` run on an arena that represents `(k, n)` produces
an arena that represents `insertFix k n`, touches nothing outside the slots of `(k, n)`, and never indexes
outside the arena (the result is `some`).
-/
namespace ITree
variable {V : Type}

theorem ctxSlots_append (k1 k2 : Ctx (Ent V)) : ctxSlots (k1 ++ k2) = ctxSlots k1 ++ ctxSlots k2 := by
  induction k1 with
  | nil => rfl
  | cons f k ih => simp [ctxSlots, ih]

/-- the whole arena represents `plug k t` -/
theorem Rep.plug {a : Arena V} {k : Ctx (Ent V)} {t : T (Ent V)} {i p : Nat}
    (hc : RepCtx a k i p) (ht : Rep a i p t) : Rep a a.root EMPTY (plug k t) := by
  induction k generalizing t i p with
  | nil => obtain ⟨rfl, hr⟩ := hc; rw [hr]; exact ht
  | cons f k ih =>
    obtain ⟨rfl, n, h2, h3, h4, h5, h6⟩ := hc
    rw [plug_cons]
    refine ih h6 ?_
    cases hside : f.side with
    | L =>
      simp only [hside] at h5
      simp only [Frame.fill, hside]
      exact ⟨rfl, n, h2, rfl, h3, h4, h5.1 ▸ ht, h5.2⟩
    | R =>
      simp only [hside] at h5
      simp only [Frame.fill, hside]
      exact ⟨rfl, n, h2, rfl, h3, h4, h5.2, h5.1 ▸ ht⟩

/-- one frame closed over its occupant -/
theorem Rep.fill {a : Arena V} {f : Frame (Ent V)} {k : Ctx (Ent V)} {t : T (Ent V)} {i p : Nat}
    (hc : RepCtx a (f :: k) i p) (ht : Rep a i p t) :
    ∃ pp, Rep a f.s pp (f.fill t) ∧ RepCtx a k f.s pp := by
  obtain ⟨rfl, n, h2, h3, h4, h5, h6⟩ := hc
  refine ⟨n.parent, ?_, h6⟩
  cases hside : f.side with
  | L =>
    simp only [hside] at h5
    simp only [Frame.fill, hside]
    exact ⟨rfl, n, h2, rfl, h3, h4, h5.1 ▸ ht, h5.2⟩
  | R =>
    simp only [hside] at h5
    simp only [Frame.fill, hside]
    exact ⟨rfl, n, h2, rfl, h3, h4, h5.2, h5.1 ▸ ht⟩

/-- a represented subtree does not see updates outside its slots -/
theorem Rep.upd_other {a : Arena V} {t : T (Ent V)} {i p m : Nat} (f : ANode V → ANode V)
    (h : Rep a i p t) (hm : m ∉ t.slots) : Rep (a.upd m f) i p t := by
  refine Rep.congr ?_ h
  intro s hs
  have : m ≠ s := fun heq => hm (heq ▸ hs)
  simp [this]

theorem RepCtx.upd_other {a : Arena V} {k : Ctx (Ent V)} {i p m : Nat} (f : ANode V → ANode V)
    (h : RepCtx a k i p) (hm : m ∉ ctxSlots k) : RepCtx (a.upd m f) k i p := by
  refine RepCtx.congr ?_ (by simp) h
  intro s hs
  have : m ≠ s := fun heq => hm (heq ▸ hs)
  simp [this]

/-- recolouring the root of a represented subtree -/
theorem Rep.setRed_root {a : Arena V} {c c' : Color} {l r : T (Ent V)} {s : Nat} {e : Ent V} {p : Nat} {b : Bool}
    (h : Rep a s p (.node c l s e r)) (hnd : (T.node c l s e r).slots.Nodup) (hb : b = isRedC c') :
    Rep (a.upd s fun n => { n with red := b }) s p (.node c' l s e r) := by
  obtain ⟨_, n, h1, h2, h3, h4, h5, h6⟩ := h
  simp only [T.slots_node, List.nodup_append, List.nodup_cons, List.mem_cons] at hnd
  obtain ⟨hl, ⟨hir, hr⟩, hdis⟩ := hnd
  refine ⟨rfl, { n with red := b }, by simp [h1], h2, hb, h4, ?_, ?_⟩
  · exact Rep.upd_other _ h5 (fun hx => hdis s hx s (Or.inl rfl) rfl)
  · exact Rep.upd_other _ h6 hir

theorem Rep.setRed_left {a : Arena V} {c c2 c2' : Color} {l2 r2 r : T (Ent V)} {s s2 : Nat} {e e2 : Ent V} {p : Nat} {b : Bool}
    (h : Rep a s p (.node c (.node c2 l2 s2 e2 r2) s e r)) (hnd : (T.node c (.node c2 l2 s2 e2 r2) s e r).slots.Nodup)
    (hb : b = isRedC c2') :
    Rep (a.upd s2 fun n => { n with red := b }) s p (.node c (.node c2' l2 s2 e2 r2) s e r) := by
  obtain ⟨_, n, h1, h2, h3, h4, h5, h6⟩ := h
  have hs : s2 ≠ s := by grind [T.slots_node, List.nodup_append, List.nodup_cons]
  have hs2r : s2 ∉ r.slots := by grind [T.slots_node, List.nodup_append, List.nodup_cons]
  have hnd2 : (T.node c2 l2 s2 e2 r2).slots.Nodup := by
    simp only [T.slots_node] at hnd ⊢; exact (List.nodup_append.mp hnd).1
  have h5' := h5
  obtain ⟨hi, _⟩ := h5'
  refine ⟨rfl, n, by simp [hs, h1], h2, h3, h4, ?_, Rep.upd_other _ h6 hs2r⟩
  rw [hi] at h5 ⊢
  exact Rep.setRed_root h5 hnd2 hb

theorem Rep.setRed_right {a : Arena V} {c c2 c2' : Color} {l2 r2 l : T (Ent V)} {s s2 : Nat} {e e2 : Ent V} {p : Nat} {b : Bool}
    (h : Rep a s p (.node c l s e (.node c2 l2 s2 e2 r2))) (hnd : (T.node c l s e (.node c2 l2 s2 e2 r2)).slots.Nodup)
    (hb : b = isRedC c2') :
    Rep (a.upd s2 fun n => { n with red := b }) s p (.node c l s e (.node c2' l2 s2 e2 r2)) := by
  obtain ⟨_, n, h1, h2, h3, h4, h5, h6⟩ := h
  have hs : s2 ≠ s := by grind [T.slots_node, List.nodup_append, List.nodup_cons]
  have hs2l : s2 ∉ l.slots := by grind [T.slots_node, List.nodup_append, List.nodup_cons]
  have hnd2 : (T.node c2 l2 s2 e2 r2).slots.Nodup := by
    simp only [T.slots_node] at hnd ⊢
    exact (List.nodup_cons.mp (List.nodup_append.mp hnd).2.1).2
  have h6' := h6
  obtain ⟨hi, _⟩ := h6'
  refine ⟨rfl, n, by simp [hs, h1], h2, h3, h4, Rep.upd_other _ h5 hs2l, ?_⟩
  rw [hi] at h6 ⊢
  exact Rep.setRed_root h6 hnd2 hb

/-- the colour test of the uncle -/
theorem Rep.isRed {a : Arena V} (hsize : a.nodes.size ≤ EMPTY) {t : T (Ent V)} {u q : Nat} (h : Rep a u q t) :
    (if u != EMPTY then (a.node u).map (·.red) else some false) = some t.isRedNode := by
  cases t with
  | leaf => simp [show u = EMPTY from h, T.isRedNode]
  | node c l s e r =>
    obtain ⟨rfl, n, h1, _, h3, _⟩ := h
    have := node_lt h1
    have hne : (u != EMPTY) = true := by simp; omega
    simp only [hne, if_true, h1, Option.map_some, h3]
    cases c <;> rfl


/-- disjointness side goals: unfold the slot lists of both the hypothesis and the goal, then `grind` -/
macro "slots_tac" h:ident : tactic =>
  `(tactic| (simp only [T.slots_node, ctxSlots, List.append_assoc, List.cons_append, List.nodup_append,
      List.nodup_cons, List.mem_append, List.mem_cons, not_or, List.append_nil, List.nodup_nil, List.not_mem_nil] at $h:ident ⊢ <;> grind))

theorem T.slots_setColor (c : Color) (t : T (Ent V)) : (t.setColor c).slots = t.slots := by
  simp [T.slots]

theorem fill_ne_leaf (f : Frame (Ent V)) (t : T (Ent V)) : f.fill t ≠ .leaf := by
  cases hs : f.side <;> simp [Frame.fill, hs]

/-- slots of two closed frames -/
theorem perm_fill2 (p g p' g' : Frame (Ent V)) (n : T (Ent V)) (R : Ctx (Ent V))
    (hp : p'.s = p.s) (hps : p'.sib.slots = p.sib.slots) (hg : g'.s = g.s) (hgs : g'.sib.slots = g.sib.slots) :
    ((g'.fill (p'.fill n)).slots ++ ctxSlots R).Perm (n.slots ++ ctxSlots (p :: g :: R)) := by
  have h1 := slots_fill g' (p'.fill n)
  have h2 := slots_fill p' n
  rw [hg, hgs] at h1
  rw [hp, hps] at h2
  have h3 : (g'.fill (p'.fill n)).slots.Perm ((n.slots ++ p.s :: p.sib.slots) ++ g.s :: g.sib.slots) :=
    h1.trans (List.Perm.append_right _ h2)
  refine (List.Perm.append_right _ h3).trans ?_
  simp [ctxSlots]

/-- the two recolourings after the rotations (new subtree root black, old grand-parent, now its right child, red) -/
theorem finish_right {b : Arena V} {rest : Ctx (Ent V)} {r pp gs : Nat} {c0 cg : Color} {L Rl Rr : T (Ent V)}
    {e0 ge : Ent V} (hc : RepCtx b rest r pp) (ht : Rep b r pp (.node c0 L r e0 (.node cg Rl gs ge Rr)))
    (hnd : ((T.node c0 L r e0 (.node cg Rl gs ge Rr)).slots ++ ctxSlots rest).Nodup) :
    ∃ b', (b.setRed r false).bind (fun a => a.setRed gs true) = some b' ∧
      Rep b' b'.root EMPTY (plug rest (.node .black L r e0 (.node .red Rl gs ge Rr))) ∧
      (∀ j, j ≠ r → j ≠ gs → b'.node j = b.node j) ∧
      b'.unused = b.unused ∧ b'.cap = b.cap ∧ b'.dflt = b.dflt ∧ b'.nodes.size = b.nodes.size := by
  have ht0 := ht
  obtain ⟨_, n0, h0, _, _, _, _, hR⟩ := ht0
  obtain ⟨hgi, ng, hg, _⟩ := hR
  have hrlt := node_lt h0
  have hglt := node_lt hg
  have hnd1 : (T.node c0 L r e0 (.node cg Rl gs ge Rr)).slots.Nodup := (List.nodup_append.mp hnd).1
  have h1 := Rep.setRed_root (c' := .black) (b := false) ht hnd1 rfl
  have h2 := Rep.setRed_right (c2' := .red) (b := true) h1 hnd1 rfl
  have hrk : r ∉ ctxSlots rest := by slots_tac hnd
  have hgk : gs ∉ ctxSlots rest := by slots_tac hnd
  have hc2 := (hc.upd_other (fun n => { n with red := false }) hrk).upd_other (fun n => { n with red := true }) hgk
  refine ⟨(b.upd r fun n => { n with red := false }).upd gs fun n => { n with red := true }, ?_, Rep.plug hc2 h2, ?_,
    by simp, by simp, by simp, by simp⟩
  · rw [Arena.setRed_eq _ hrlt]
    simp only [Option.bind_some]
    rw [Arena.setRed_eq _ (by simpa using hglt)]
  · intro j h1 h2
    simp [Ne.symm h1, Ne.symm h2]

theorem finish_left {b : Arena V} {rest : Ctx (Ent V)} {r pp gs : Nat} {c0 cg : Color} {R Ll Lr : T (Ent V)}
    {e0 ge : Ent V} (hc : RepCtx b rest r pp) (ht : Rep b r pp (.node c0 (.node cg Ll gs ge Lr) r e0 R))
    (hnd : ((T.node c0 (.node cg Ll gs ge Lr) r e0 R).slots ++ ctxSlots rest).Nodup) :
    ∃ b', (b.setRed r false).bind (fun a => a.setRed gs true) = some b' ∧
      Rep b' b'.root EMPTY (plug rest (.node .black (.node .red Ll gs ge Lr) r e0 R)) ∧
      (∀ j, j ≠ r → j ≠ gs → b'.node j = b.node j) ∧
      b'.unused = b.unused ∧ b'.cap = b.cap ∧ b'.dflt = b.dflt ∧ b'.nodes.size = b.nodes.size := by
  have ht0 := ht
  obtain ⟨_, n0, h0, _, _, _, hL, _⟩ := ht0
  obtain ⟨hgi, ng, hg, _⟩ := hL
  have hrlt := node_lt h0
  have hglt := node_lt hg
  have hnd1 : (T.node c0 (.node cg Ll gs ge Lr) r e0 R).slots.Nodup := (List.nodup_append.mp hnd).1
  have h1 := Rep.setRed_root (c' := .black) (b := false) ht hnd1 rfl
  have h2 := Rep.setRed_left (c2' := .red) (b := true) h1 hnd1 rfl
  have hrk : r ∉ ctxSlots rest := by slots_tac hnd
  have hgk : gs ∉ ctxSlots rest := by slots_tac hnd
  have hc2 := (hc.upd_other (fun n => { n with red := false }) hrk).upd_other (fun n => { n with red := true }) hgk
  refine ⟨(b.upd r fun n => { n with red := false }).upd gs fun n => { n with red := true }, ?_, Rep.plug hc2 h2, ?_,
    by simp, by simp, by simp, by simp⟩
  · rw [Arena.setRed_eq _ hrlt]
    simp only [Option.bind_some]
    rw [Arena.setRed_eq _ (by simpa using hglt)]
  · intro j h1 h2
    simp [Ne.symm h1, Ne.symm h2]

theorem fixInsert_rep : ∀ (fuel : Nat) (a : Arena V) (k : Ctx (Ent V)) (p : Frame (Ent V))
    (n : T (Ent V)) (ni : Nat),
    a.nodes.size ≤ EMPTY → k.length < fuel →
    RepCtx a (p :: k) ni p.s → Rep a ni p.s n → n ≠ .leaf → p.c = .red →
    (n.slots ++ ctxSlots (p :: k)).Nodup →
    ∃ a', Arena.fixInsert fuel a ni p.s = some a' ∧
      Rep a' a'.root EMPTY (insertFix (p :: k) n) ∧
      (∀ j, j ∉ n.slots ++ ctxSlots (p :: k) → a'.node j = a.node j) ∧
      a'.unused = a.unused ∧ a'.cap = a.cap ∧ a'.dflt = a.dflt ∧ a'.nodes.size = a.nodes.size := by
  intro fuel
  induction fuel using Nat.strongRecOn with
  | _ fuel ih =>
  intro a k p n ni hsize hfuel hctx hn hnl hpc hnd
  cases fuel with
  | zero => omega
  | succ fuel =>
  have hctx0 := hctx
  obtain ⟨_, np, hnp, hpr, hpe, hpside, hrest⟩ := hctx
  have hplt := node_lt hnp
  cases k with
  | nil =>
    obtain ⟨hpp, hroot⟩ := hrest
    refine ⟨a.upd p.s fun n => { n with red := false }, ?_, ?_, ?_, by simp, by simp, by simp, by simp⟩
    · simp only [Arena.fixInsert, hnp, Option.bind_eq_bind, Option.bind_some, hpp, beq_self_eq_true, if_true]
      exact Arena.setRed_eq _ hplt
    · simp only [insertFix]
      have hc1 : RepCtx (a.upd p.s fun n => { n with red := false }) [{ p with c := .black }] ni p.s := by
        refine ⟨rfl, { np with red := false }, by simp [hnp], rfl, hpe, ?_, ⟨hpp, by simpa using hroot⟩⟩
        cases hside : p.side with
        | L =>
          simp only [hside] at hpside ⊢
          exact ⟨hpside.1, Rep.upd_other _ hpside.2 (by grind [ctxSlots, List.nodup_append, List.nodup_cons])⟩
        | R =>
          simp only [hside] at hpside ⊢
          exact ⟨hpside.1, Rep.upd_other _ hpside.2 (by grind [ctxSlots, List.nodup_append, List.nodup_cons])⟩
      have hn1 : Rep (a.upd p.s fun n => { n with red := false }) ni p.s n :=
        Rep.upd_other _ hn (by grind [ctxSlots, List.nodup_append, List.nodup_cons])
      exact Rep.plug hc1 hn1
    · intro j hj
      have : p.s ≠ j := by
        intro h; apply hj; simp [ctxSlots, h]
      simp [this]
  | cons g rest =>
    obtain ⟨hpp, ng, hng, hgr, hge, hgside, hrest2⟩ := hrest
    have hglt := node_lt hng
    have hgne : (g.s == EMPTY) = false := by simp; omega
    have hgne' : g.s ≠ EMPTY := by omega
    have hpne : (np.parent == EMPTY) = false := by rw [hpp]; exact hgne
    -- the uncle
    have hunc : ∃ u, a.getUncle p.s = some u ∧ Rep a u g.s g.sib ∧
        ((p.s == ng.left) = (g.side == Side.L)) ∧ (g.side = .L → ng.right = u) ∧ (g.side = .R → ng.left = u) := by
      cases hside : g.side with
      | L =>
        simp only [hside] at hgside
        refine ⟨ng.right, ?_, hgside.2, by simp [hgside.1], fun _ => rfl, fun h => by cases h⟩
        simp [Arena.getUncle, hnp, hgne', hpp, hng, hgside.1]
      | R =>
        simp only [hside] at hgside
        have hne : ng.left ≠ p.s := by
          intro h
          by_cases he : ng.left = EMPTY
          · omega
          · have := hgside.2.rootIdx_mem he
            rw [h] at this
            grind [ctxSlots, List.nodup_append, List.nodup_cons]
        have hb : (p.s == ng.left) = (Side.R == Side.L) := by
          have : (p.s == ng.left) = false := by simpa using Ne.symm hne
          rw [this]; rfl
        refine ⟨ng.left, ?_, hgside.2, hb, (fun h => by cases h), fun _ => rfl⟩
        simp [Arena.getUncle, hnp, hgne', hpp, hng, hgside.1, hne]
    obtain ⟨u, hgu, hu, hgl, huL, huR⟩ := hunc
    have hured := Rep.isRed hsize hu
    by_cases hred : g.sib.isRedNode = true
    · -- case 3: red uncle
      cases hsib : g.sib with
      | leaf => simp [hsib, T.isRedNode] at hred
      | node cu sl su se sr =>
      cases cu with
      | black => simp [hsib, T.isRedNode] at hred
      | red =>
      rw [hsib] at hu
      obtain ⟨hus, nu, hnu, hnup, hnur, hnue, hsl, hsr⟩ := hu
      subst hus
      have hult := node_lt hnu
      have hune : (u != EMPTY) = true := by simp; omega
      have hnur' : nu.red = true := by rw [hnur]; rfl
      have hd : p.s ≠ g.s ∧ p.s ≠ u ∧ g.s ≠ u := by
        grind [ctxSlots, T.slots_node, List.nodup_append, List.nodup_cons]
      obtain ⟨hd1, hd2, hd3⟩ := hd
      let a1 := a.upd p.s fun n => { n with red := false }
      let a2 := a1.upd g.s fun n => { n with red := true }
      let a3 := a2.upd u fun n => { n with red := false }
      have h3p : a3.node p.s = some { np with red := false } := by
        simp [a3, a2, a1, hd1, Ne.symm hd1, Ne.symm hd2, hnp]
      have h3g : a3.node g.s = some { ng with red := true } := by
        simp [a3, a2, a1, hd1, Ne.symm hd3, hng]
      have h3u : a3.node u = some { nu with red := false } := by
        simp [a3, a2, a1, hd2, hd3, hnu]
      have h3o : ∀ s, s ≠ p.s → s ≠ g.s → s ≠ u → a3.node s = a.node s := by
        intro s h1 h2 h3
        simp [a3, a2, a1, Ne.symm h1, Ne.symm h2, Ne.symm h3]
      have hfar : ∀ s, s ∈ n.slots ∨ s ∈ p.sib.slots ∨ s ∈ sl.slots ∨ s ∈ sr.slots ∨ s ∈ ctxSlots rest →
          a3.node s = a.node s := by
        intro s hs
        refine h3o s ?_ ?_ ?_ <;> grind [ctxSlots, T.slots_node, List.nodup_append, List.nodup_cons]
      have hc' : RepCtx a3 rest g.s ng.parent :=
        RepCtx.congr (a := a) (fun s hs => hfar s (by simp [hs])) rfl hrest2
      have hP : Rep a3 p.s g.s (Frame.fill { p with c := .black } n) := by
        cases hside : p.side with
        | L =>
          simp only [hside] at hpside
          simp only [Frame.fill, hside]
          exact ⟨rfl, _, h3p, hpp, rfl, hpe, hpside.1 ▸ Rep.congr (fun s hs => hfar s (by simp [hs])) hn,
            Rep.congr (fun s hs => hfar s (by simp [hs])) hpside.2⟩
        | R =>
          simp only [hside] at hpside
          simp only [Frame.fill, hside]
          exact ⟨rfl, _, h3p, hpp, rfl, hpe, Rep.congr (fun s hs => hfar s (by simp [hs])) hpside.2,
            hpside.1 ▸ Rep.congr (fun s hs => hfar s (by simp [hs])) hn⟩
      have hU : Rep a3 u g.s (.node .black sl u se sr) :=
        ⟨rfl, _, h3u, hnup, rfl, hnue, Rep.congr (fun s hs => hfar s (by simp [hs])) hsl,
          Rep.congr (fun s hs => hfar s (by simp [hs])) hsr⟩
      have hn' : Rep a3 g.s ng.parent
          (Frame.fill { g with c := .red, sib := g.sib.setColor .black } (Frame.fill { p with c := .black } n)) := by
        cases hside : g.side with
        | L =>
          simp only [hside] at hgside
          simp only [Frame.fill, hside, hsib, T.setColor]
          exact ⟨rfl, _, h3g, rfl, rfl, hge, by rw [hgside.1]; exact hP, by rw [huL hside]; exact hU⟩
        | R =>
          simp only [hside] at hgside
          simp only [Frame.fill, hside, hsib, T.setColor]
          exact ⟨rfl, _, h3g, rfl, rfl, hge, by rw [huR hside]; exact hU, by rw [hgside.1]; exact hP⟩
      have hperm := perm_fill2 p g { p with c := .black } { g with c := .red, sib := g.sib.setColor .black } n rest
        rfl rfl rfl (T.slots_setColor _ _)
      -- the arena code up to the test of the great-grandparent
      have hcode : Arena.fixInsert (fuel + 1) a ni p.s =
          (if ng.parent != EMPTY then
            (a3.node ng.parent).bind fun ggN => if ggN.red then Arena.fixInsert fuel a3 g.s ng.parent else some a3
           else some a3) := by
        simp only [Arena.fixInsert, hnp, Option.bind_eq_bind, Option.bind_some, hpp, hgne, Bool.false_eq_true,
          if_false, hgu, hune, hnu, Option.map_some, hnur', if_true]
        rw [Arena.setRed_eq _ hplt]
        simp only [Option.bind_some]
        rw [Arena.setRed_eq _ (by simpa using hglt)]
        simp only [Option.bind_some]
        rw [Arena.setRed_eq _ (by simpa using hult)]
        simp only [Option.bind_some]
        have : a3.node g.s = some { ng with red := true } := h3g
        simp only [a3, a2, a1] at this
        rw [this]
        simp only [Option.bind_some, a3, a2, a1]
      have hframe3 : ∀ j, j ∉ n.slots ++ ctxSlots (p :: g :: rest) → a3.node j = a.node j := by
        intro j hj
        refine h3o j ?_ ?_ ?_ <;> (intro h; apply hj; simp [ctxSlots, h, hsib])
      cases rest with
      | nil =>
        obtain ⟨hgp, hroot⟩ := hrest2
        refine ⟨a3, ?_, ?_, hframe3, by simp [a3, a2, a1], by simp [a3, a2, a1], by simp [a3, a2, a1], by simp [a3, a2, a1]⟩
        · rw [hcode]; simp [hgp]
        · simp only [insertFix, hred, if_true]
          have := Rep.plug hc' hn'
          simpa using this
      | cons gg rest' =>
        have hrest2' := hrest2
        obtain ⟨hgp, ngg, hngg, hggr, _⟩ := hrest2'
        have hgglt := node_lt hngg
        have hggne : (gg.s != EMPTY) = true := by simp; omega
        have h3gg : a3.node gg.s = some ngg := by
          rw [hfar gg.s (by simp [ctxSlots]), hngg]
        by_cases hggc : gg.c = .red
        · -- continue two levels up
          have hggred : ngg.red = true := by rw [hggr, hggc]; rfl
          have hnd' : ((Frame.fill { g with c := .red, sib := g.sib.setColor .black }
              (Frame.fill { p with c := .black } n)).slots ++ ctxSlots (gg :: rest')).Nodup :=
            hperm.nodup_iff.mpr hnd
          obtain ⟨a', h1, h2, h3, h4, h5, h6, h7⟩ := ih fuel (by omega) a3 rest' gg _ g.s
            (by simp [a3, a2, a1]; exact hsize) (by simp at hfuel; omega) (hgp ▸ hc') (hgp ▸ hn') (fill_ne_leaf _ _) hggc hnd'
          refine ⟨a', ?_, ?_, ?_, by rw [h4]; simp [a3, a2, a1], by rw [h5]; simp [a3, a2, a1],
            by rw [h6]; simp [a3, a2, a1], by rw [h7]; simp [a3, a2, a1]⟩
          · rw [hcode]; simp only [hgp, hggne, if_true, h3gg, Option.bind_some, hggred]; exact h1
          · simp only [insertFix, hred, if_true, hggc, beq_self_eq_true]
            exact h2
          · intro j hj
            rw [h3 j (fun h => hj ((hperm.mem_iff).mp h)), hframe3 j hj]
        · have hggred : ngg.red = false := by
            rw [hggr]; cases hc : gg.c
            · exact absurd hc hggc
            · rfl
          refine ⟨a3, ?_, ?_, hframe3, by simp [a3, a2, a1], by simp [a3, a2, a1], by simp [a3, a2, a1], by simp [a3, a2, a1]⟩
          · rw [hcode]; simp only [hgp, hggne, if_true, h3gg, Option.bind_some, hggred, Bool.false_eq_true, if_false]
          · have : (gg.c == Color.red) = false := by cases hc : gg.c <;> simp_all
            simp only [insertFix, hred, if_true, this, Bool.false_eq_true, if_false]
            exact Rep.plug hc' hn'
    · -- cases 4/5: black uncle, rotations
      have hredf : g.sib.isRedNode = false := by simpa using hred
      cases n with
      | leaf => exact absurd rfl hnl
      | node cn nl sn en nr =>
      have hn0 := hn
      obtain ⟨hni, nn, hnn, hnnp, hnnr, hnne, hnlr, hnrr⟩ := hn
      subst hni
      have hnlt := node_lt hnn
      have hrest0 : RepCtx a (g :: rest) p.s g.s := ⟨rfl, ng, hng, hgr, hge, hgside, hrest2⟩
      -- the code up to the rotations
      have hcode : Arena.fixInsert (fuel + 1) a ni p.s =
          (if p.s == ng.left then
            (if ni == np.right then
              (Option.map (fun x => (x, ni)) (a.rotateLeft p.s)).bind fun x =>
                (x.1.rotateRight g.s).bind fun a => (a.setRed x.2 false).bind fun a => a.setRed g.s true
             else (a.rotateRight g.s).bind fun a => (a.setRed p.s false).bind fun a => a.setRed g.s true)
           else
            (if ni == np.left then
              (Option.map (fun x => (x, ni)) (a.rotateRight p.s)).bind fun x =>
                (x.1.rotateLeft g.s).bind fun a => (a.setRed x.2 false).bind fun a => a.setRed g.s true
             else (a.rotateLeft g.s).bind fun a => (a.setRed p.s false).bind fun a => a.setRed g.s true)) := by
        simp only [Arena.fixInsert, hnp, Option.bind_eq_bind, Option.bind_some, hpp, hgne, Bool.false_eq_true,
          if_false, hgu]
        have hm : (u != EMPTY) = true → Option.map (fun x => x.red) (a.node u) = some false := by
          intro h; simpa [h, hredf] using hured
        split
        · rw [hm ‹_›]; simp only [Option.bind_some, Bool.false_eq_true, if_false, hng]
        · simp only [hng, Option.bind_some]
      have hsibne : ∀ {q : Nat} {t : T (Ent V)} {c : Nat}, Rep a c q t → (∀ s ∈ t.slots, s ≠ ni) → c ≠ ni := by
        intro q t c hr hdis h
        by_cases he : c = EMPTY
        · omega
        · exact hdis c (hr.rootIdx_mem he) h
      rw [hcode, hgl]
      cases hgs : g.side with
      | L =>
        simp only [hgs] at hgside
        cases hps : p.side with
        | L =>
          simp only [hps] at hpside
          have hne : (ni == np.right) = false := by
            have := hsibne hpside.2 (by intro s hs; slots_tac hnd)
            simpa using Ne.symm this
          have hrepG : Rep a g.s ng.parent (.node g.c (.node p.c (.node cn nl ni en nr) p.s p.e p.sib) g.s g.e g.sib) :=
            ⟨rfl, ng, hng, rfl, hgr, hge,
              by rw [hgside.1]; exact ⟨rfl, np, hnp, hpp, hpr, hpe, by rw [hpside.1]; exact hn0, hpside.2⟩, hgside.2⟩
          obtain ⟨a1, hr1, hc1, ht1, hf1, _, hu1, hcap1, hd1, hs1⟩ :=
            rotateRight_rep hsize hrest2 hrepG (by slots_tac hnd)
          obtain ⟨a2, hr2, ht2, hf2, hu2, hcap2, hd2, hs2⟩ := finish_right hc1 ht1 (by slots_tac hnd)
          refine ⟨a2, ?_, ?_, ?_, by rw [hu2, hu1], by rw [hcap2, hcap1], by rw [hd2, hd1], by rw [hs2, hs1]⟩
          · simp only [beq_self_eq_true, if_true, hne, Bool.false_eq_true, if_false, hr1, Option.bind_some]
            exact hr2
          · simp only [insertFix, hredf, Bool.false_eq_true, if_false, hgs, hps]
            exact ht2
          · intro j hj
            rw [hf2 j (by slots_tac hj) (by slots_tac hj), hf1 j (by slots_tac hj)]
        | R =>
          simp only [hps] at hpside
          have hne : (ni == np.right) = true := by simp [hpside.1]
          have hrepP : Rep a p.s g.s (.node p.c p.sib p.s p.e (.node cn nl ni en nr)) :=
            ⟨rfl, np, hnp, hpp, hpr, hpe, hpside.2, by rw [hpside.1]; exact hn0⟩
          obtain ⟨a1, hr1, hc1, ht1, hf1, _, hu1, hcap1, hd1, hs1⟩ :=
            rotateLeft_rep hsize hrest0 hrepP (by slots_tac hnd)
          obtain ⟨pp, htg, hcg⟩ := Rep.fill hc1 ht1
          simp only [Frame.fill, hgs] at htg
          obtain ⟨a2, hr2, hc2, ht2, hf2, _, hu2, hcap2, hd2, hs2⟩ :=
            rotateRight_rep (by omega) hcg htg (by slots_tac hnd)
          obtain ⟨a3, hr3, ht3, hf3, hu3, hcap3, hd3, hs3⟩ := finish_right hc2 ht2 (by slots_tac hnd)
          refine ⟨a3, ?_, ?_, ?_, by rw [hu3, hu2, hu1], by rw [hcap3, hcap2, hcap1], by rw [hd3, hd2, hd1],
            by rw [hs3, hs2, hs1]⟩
          · simp only [beq_self_eq_true, if_true, hne, hr1, Option.map_some, Option.bind_some, hr2]
            exact hr3
          · simp only [insertFix, hredf, Bool.false_eq_true, if_false, hgs, hps]
            rw [hpc] at ht3
            exact ht3
          · intro j hj
            rw [hf3 j (by slots_tac hj) (by slots_tac hj), hf2 j (by slots_tac hj), hf1 j (by slots_tac hj)]
      | R =>
        simp only [hgs] at hgside
        have hLR : (Side.R == Side.L) = false := rfl
        cases hps : p.side with
        | R =>
          simp only [hps] at hpside
          have hne : (ni == np.left) = false := by
            have := hsibne hpside.2 (by intro s hs; slots_tac hnd)
            simpa using Ne.symm this
          have hrepG : Rep a g.s ng.parent (.node g.c g.sib g.s g.e (.node p.c p.sib p.s p.e (.node cn nl ni en nr))) :=
            ⟨rfl, ng, hng, rfl, hgr, hge, hgside.2,
              by rw [hgside.1]; exact ⟨rfl, np, hnp, hpp, hpr, hpe, hpside.2, by rw [hpside.1]; exact hn0⟩⟩
          obtain ⟨a1, hr1, hc1, ht1, hf1, _, hu1, hcap1, hd1, hs1⟩ :=
            rotateLeft_rep hsize hrest2 hrepG (by slots_tac hnd)
          obtain ⟨a2, hr2, ht2, hf2, hu2, hcap2, hd2, hs2⟩ := finish_left hc1 ht1 (by slots_tac hnd)
          refine ⟨a2, ?_, ?_, ?_, by rw [hu2, hu1], by rw [hcap2, hcap1], by rw [hd2, hd1], by rw [hs2, hs1]⟩
          · simp only [hLR, Bool.false_eq_true, if_false, hne, hr1, Option.bind_some]
            exact hr2
          · simp only [insertFix, hredf, Bool.false_eq_true, if_false, hgs, hps]
            exact ht2
          · intro j hj
            rw [hf2 j (by slots_tac hj) (by slots_tac hj), hf1 j (by slots_tac hj)]
        | L =>
          simp only [hps] at hpside
          have hne : (ni == np.left) = true := by simp [hpside.1]
          have hrepP : Rep a p.s g.s (.node p.c (.node cn nl ni en nr) p.s p.e p.sib) :=
            ⟨rfl, np, hnp, hpp, hpr, hpe, by rw [hpside.1]; exact hn0, hpside.2⟩
          obtain ⟨a1, hr1, hc1, ht1, hf1, _, hu1, hcap1, hd1, hs1⟩ :=
            rotateRight_rep hsize hrest0 hrepP (by slots_tac hnd)
          obtain ⟨pp, htg, hcg⟩ := Rep.fill hc1 ht1
          simp only [Frame.fill, hgs] at htg
          obtain ⟨a2, hr2, hc2, ht2, hf2, _, hu2, hcap2, hd2, hs2⟩ :=
            rotateLeft_rep (by omega) hcg htg (by slots_tac hnd)
          obtain ⟨a3, hr3, ht3, hf3, hu3, hcap3, hd3, hs3⟩ := finish_left hc2 ht2 (by slots_tac hnd)
          refine ⟨a3, ?_, ?_, ?_, by rw [hu3, hu2, hu1], by rw [hcap3, hcap2, hcap1], by rw [hd3, hd2, hd1],
            by rw [hs3, hs2, hs1]⟩
          · simp only [hLR, Bool.false_eq_true, if_false, hne, if_true, hr1, Option.map_some, Option.bind_some, hr2]
            exact hr3
          · simp only [insertFix, hredf, Bool.false_eq_true, if_false, hgs, hps]
            rw [hpc] at ht3
            exact ht3
          · intro j hj
            rw [hf3 j (by slots_tac hj) (by slots_tac hj), hf2 j (by slots_tac hj), hf1 j (by slots_tac hj)]

end ITree
