import ITree.Model.KeyExp
/-!
# Sorted-vector variants (`src/{map,set,key}/list.rs`)

Handles are positions. `std`'s `binary_search_by` is modelled **by its contract** on a slice that is
sorted w.r.t. the comparator: `Ok(i)` at an element comparing `Equal`, `Err(i)` at the insertion point.
The model scans linearly; which stored keys std actually probes is not modelled.
`Vec::insert`, `remove`, `retain`, `clear` are modelled as the corresponding list functions.
-/
namespace ITree
variable {V : Type}

/-- contract of `binary_search_by`: `.ok i` / `.error i` -/
def bsearch (f : Ent V → Ordering) : List (Ent V) → Nat → Except Nat Nat
  | [], i => .error i
  | e :: es, i =>
    match f e with
    | .lt => bsearch f es (i + 1)
    | .eq => .ok i
    | .gt => .error i

def insertAt (l : List (Ent V)) (i : Nat) (e : Ent V) : List (Ent V) := l.take i ++ e :: l.drop i

/-! ### `MapList` / `SetList` -/

abbrev LSt (V : Type) := List (Ent V)

/-- `new(capacity)`: the capacity hint is not observable -/
def LSt.new : LSt V := []
/-- `clear`: `Vec::clear` -/
def LSt.clear (_ : LSt V) : LSt V := []

def LSt.insert (l : LSt V) (e : Ent V) : LSt V :=
  match bsearch (fun x => compare x.key e.key) l 0 with
  | .ok i => insertAt l i e
  | .error i => insertAt l i e

def LSt.delete (l : LSt V) (key : Int) : LSt V :=
  match bsearch (fun x => compare x.key key) l 0 with
  | .ok i => l.eraseIdx i
  | .error _ => l

/-- `Vec::remove(index)` panics when out of range → fault -/
def LSt.deleteByIndex (l : LSt V) (i : Nat) : Option (LSt V) :=
  if i < l.length then some (l.eraseIdx i) else none

def LSt.getValue (l : LSt V) (key : Int) : Option V :=
  match bsearch (fun x => compare x.key key) l 0 with
  | .ok i => (l[i]?).map (·.val)
  | .error _ => none

def LSt.valueByIndex (l : LSt V) (i : Nat) : Option V := (l[i]?).map (·.val)

def LSt.setValueByIndex (l : LSt V) (i : Nat) (v : V) : Option (LSt V) :=
  match l[i]? with
  | none => none
  | some e => some (l.set i { e with val := v })

def LSt.firstIndexLessBy (l : LSt V) (f : Int → Ordering) : Option Nat :=
  match bsearch (fun x => f x.key) l 0 with
  | .ok i => some i
  | .error i => if i > 0 then some (i - 1) else none

def LSt.firstIndexLess (l : LSt V) (key : Int) : Option Nat :=
  l.firstIndexLessBy (fun k => compare k key)

/-- outer `none`: handle out of range (out of contract) -/
def LSt.indexAfter (l : LSt V) (i : Nat) : Option (Option Nat) :=
  if i < l.length then some (if i + 1 < l.length then some (i + 1) else none) else none

def LSt.indexBefore (l : LSt V) (i : Nat) : Option (Option Nat) :=
  if i < l.length then some (if i > 0 then some (i - 1) else none) else none

/-! ### `KeyExpList` -/

structure KL (V : Type) where
  buf : List (Ent V)
  minExp : Int
  /-- `E::max_expiration()` -/
  maxE : Int
  deriving Repr

def KL.new (maxE : Int) : KL V := { buf := [], minExp := maxE, maxE }

def KL.clear (s : KL V) : KL V := { s with buf := [], minExp := s.maxE }

/-- `clear_expired(time)`; returns also whether the purge ran -/
def KL.clearExpired (s : KL V) (time : Int) : KL V :=
  if time < s.minExp then s
  else
    let kept := s.buf.filter (fun e => time < e.exp)
    { s with buf := kept, minExp := kept.foldl (fun m e => min m e.exp) s.maxE }

/-- state of the list when the `i`-th element is handed to `expiration()` inside `retain`: the elements
before it have been filtered, the rest is untouched (this is also what `retain`'s drop guard leaves
behind if that call panics); the cached minimum is not yet updated -/
def KL.purgeStateAt (s : KL V) (time : Int) (i : Nat) : KL V :=
  { s with buf := (s.buf.take i).filter (fun e => time < e.exp) ++ s.buf.drop i }

/-- the states at the `expiration()` callbacks of `clear_expired(time)`, in order (none when the cached
minimum lets the purge be skipped) -/
def KL.purgeStates (s : KL V) (time : Int) : List (KL V) :=
  if time < s.minExp then [] else (List.range s.buf.length).map (s.purgeStateAt time)

/-- callback states of the three operation kinds: the `expiration()` calls in order, and the state
during the binary search (whose probes are not modelled individually) -/
def KL.insertStates (s : KL V) (e : Ent V) (time : Int) : List (KL V) × KL V :=
  let p := s.clearExpired time
  (s.purgeStates time ++ [p], { p with minExp := min p.minExp e.exp })

def KL.queryStates (s : KL V) (time : Int) : List (KL V) × KL V :=
  (s.purgeStates time, s.clearExpired time)

def KL.insert (s : KL V) (e : Ent V) (time : Int) : KL V :=
  let s := s.clearExpired time
  { s with minExp := min s.minExp e.exp, buf := LSt.insert s.buf e }

def KL.query (s : KL V) (mode : Mode) (time : Int) (f : Int → Ordering) : KL V × Option V :=
  let s := s.clearExpired time
  let r := bsearch (fun x => f x.key) s.buf 0
  (s, match mode, r with
    | .get, .ok i => (s.buf[i]?).map (·.val)
    | .get, .error _ => none
    | .fle, .ok i => (s.buf[i]?).map (·.val)
    | .fle, .error i => if i > 0 then (s.buf[i-1]?).map (·.val) else none
    | .fl, .ok i => if i > 0 then (s.buf[i-1]?).map (·.val) else none
    | .fl, .error i => if i > 0 then (s.buf[i-1]?).map (·.val) else none)

def KL.export (s : KL V) (time : Int) : KL V × List V :=
  let s := s.clearExpired time
  (s, s.buf.map (·.val))

end ITree
