import ITree.Model.Map
import ITree.Model.Lists
/-!
# Executable well-formedness checks

Boolean versions of the predicates the theorems are stated with; the driver evaluates them on every
real pre-state, and `ITree/Lemmas` proves them equivalent to the `Prop` versions.
-/
namespace ITree
variable {ε V : Type}

/-- black height if the colour/black-height invariant holds (red root allowed) -/
def T.balCheck : T ε → Option Nat
  | .leaf => some 0
  | .node c l _ _ r =>
    match l.balCheck, r.balCheck with
    | some a, some b =>
      if a == b then
        match c with
        | .black => some (a + 1)
        | .red => if l.isBlack && r.isBlack then some a else none
      else none
    | _, _ => none

def strictlyIncreasing : List Int → Bool
  | [] => true
  | [_] => true
  | a :: b :: rest => a < b && strictlyIncreasing (b :: rest)

def T.keys (t : T (Ent V)) : List Int := t.toList.map (·.2.key)
def T.slots (t : T ε) : List Nat := t.toList.map (·.1)

def T.orderedCheck (t : T (Ent V)) : Bool := strictlyIncreasing t.keys

/-- slot 0, the tree slots and the free list partition `0..bufLen`, without repetition:
sorted, they are exactly `0, 1, …, bufLen-1` -/
def slotsCheck (t : T ε) (p : Pool) : Bool :=
  (0 :: (t.slots ++ p.unused)).mergeSort (fun a b => decide (a ≤ b)) == List.range p.bufLen
    && decide (p.unused.length ≤ p.cap) && decide (0 < p.cap)

def St.wfCheck (st : St V) : Bool :=
  st.tree.orderedCheck && st.tree.balCheck.isSome && slotsCheck st.tree st.pool

/-- the buffer of a list variant is strictly sorted by key -/
def sortedCheck (l : List (Ent V)) : Bool := strictlyIncreasing (l.map (·.key))

/-- the cached earliest expiration of `KeyExpList` is a lower bound of the stored expirations -/
def KL.invCheck (s : KL V) : Bool := s.buf.all fun e => decide (s.minExp ≤ e.exp)

end ITree
