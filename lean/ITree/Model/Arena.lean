import ITree.Model.KeyExp
/-!
# Arena-level model: statement-by-statement transcription of the pointer code

`src/{map,set,key}/tree.rs`, `pool.rs`, `src/key/array.rs`. Unlike `Tree.lean` (labelled trees and
zippers) this model carries everything the Rust arena carries: parent links, the NIL stand-in in slot 0,
the stale contents of freed slots, the free list in `Vec` order. It is compared with the real arena
*field by field* on every explored transition, and the driver checks on every such transition that it
agrees with the zipper model the theorems are about (`abs`).

`none` = fault: an index outside the arena (in particular `EMPTY_REF`), a failed `debug_assert!`, or
exhausted loop fuel.
-/
namespace ITree

def EMPTY : Nat := 4294967295

structure ANode (V : Type) where
  parent : Nat
  left : Nat
  right : Nat
  red : Bool
  ent : Ent V
  deriving Repr

structure Arena (V : Type) where
  nodes : Array (ANode V)
  root : Nat
  /-- `unused` in `Vec` order: index 0 is the bottom of the stack -/
  unused : Array Nat
  cap : Nat
  /-- entity of a never used slot (`Default` / zeroed) -/
  dflt : Ent V

variable {V : Type}

namespace Arena

def node (a : Arena V) (i : Nat) : Option (ANode V) := a.nodes[i]?

/-- in-place update of one slot (a no-op outside the arena) -/
def upd (a : Arena V) (i : Nat) (f : ANode V → ANode V) : Arena V := { a with nodes := a.nodes.modify i f }

/-- `node_mut(i)` followed by field writes; an index outside the arena is a fault -/
def modify (a : Arena V) (i : Nat) (f : ANode V → ANode V) : Option (Arena V) :=
  if i < a.nodes.size then some (a.upd i f) else none

def setParent (a : Arena V) (i p : Nat) := a.modify i fun n => { n with parent := p }
def setLeft (a : Arena V) (i p : Nat) := a.modify i fun n => { n with left := p }
def setRight (a : Arena V) (i p : Nat) := a.modify i fun n => { n with right := p }
def setRed (a : Arena V) (i : Nat) (r : Bool) := a.modify i fun n => { n with red := r }
def setEnt (a : Arena V) (i : Nat) (e : Ent V) := a.modify i fun n => { n with ent := e }

/-- `is_black(index)` -/
def isBlack (a : Arena V) (i : Nat) : Option Bool :=
  if i == EMPTY then some true else (a.node i).map fun n => !n.red

/-! ### pool -/

/-- `Pool::reserve(length)` -/
def reserve (a : Arena V) (length : Nat) : Arena V :=
  let n := a.nodes.size
  let fresh : ANode V := ⟨0, 0, 0, true, a.dflt⟩
  { a with nodes := a.nodes ++ Array.replicate length fresh,
           unused := a.unused ++ ((List.range length).reverse.map (· + n)).toArray }

/-- `get_free_index` -/
def getFree (a : Arena V) : Option (Nat × Arena V) :=
  let a := if a.unused.isEmpty then a.reserve a.cap else a
  match a.unused.back? with
  | none => none
  | some i => some (i, { a with unused := a.unused.pop })

/-- `put_back` (with `Vec`'s amortised growth of the capacity) -/
def putBack (a : Arena V) (i : Nat) : Arena V :=
  { a with unused := a.unused.push i,
           cap := if a.unused.size == a.cap then max (2 * a.cap) 4 else a.cap }

/-- `new(capacity)` -/
def new (capacity : Nat) (dflt : Ent V) : Arena V :=
  let c := max capacity 8
  let a : Arena V := { nodes := #[], root := EMPTY, unused := #[], cap := c, dflt := dflt }
  let a := a.reserve c
  -- slot 0 is taken for NIL
  { a with unused := a.unused.pop }

/-! ### links -/

def replaceParentsChild (a : Arena V) (parent oldC newC : Nat) : Option (Arena V) := do
  let a ← a.setParent newC parent
  if parent == EMPTY then
    return { a with root := newC }
  let p ← a.node parent
  if !(p.left == oldC || p.right == oldC) then none   -- debug_assert!
  else if p.left == oldC then a.setLeft parent newC else a.setRight parent newC

def rotateRight (a : Arena V) (index : Nat) : Option (Arena V) := do
  let n ← a.node index
  let p := n.parent
  let lt := n.left
  let ltNode ← a.node lt
  let ltRight := ltNode.right
  let a ← a.setRight lt index
  let a ← if ltRight != EMPTY then a.setParent ltRight index else some a
  let a ← a.setLeft index ltRight
  let a ← a.setParent index lt
  a.replaceParentsChild p index lt

def rotateLeft (a : Arena V) (index : Nat) : Option (Arena V) := do
  let n ← a.node index
  let p := n.parent
  let rt := n.right
  let rtNode ← a.node rt
  let rtLeft := rtNode.left
  let a ← a.setLeft rt index
  let a ← if rtLeft != EMPTY then a.setParent rtLeft index else some a
  let a ← a.setRight index rtLeft
  let a ← a.setParent index rt
  a.replaceParentsChild p index rt

def getSibling (a : Arena V) (n : Nat) : Option Nat := do
  let nd ← a.node n
  let p ← a.node nd.parent
  if !(n == p.left || n == p.right) then none
  else if n == p.left then some p.right else some p.left

def getUncle (a : Arena V) (pIdx : Nat) : Option Nat := do
  let p ← a.node pIdx
  if p.parent == EMPTY then none
  else
    let g ← a.node p.parent
    if !(g.left == pIdx || g.right == pIdx) then none
    else if g.left == pIdx then some g.right else some g.left

/-! ### insert -/

/-- `fix_red_black_properties_after_insert` -/
def fixInsert : Nat → Arena V → Nat → Nat → Option (Arena V)
  | 0, _, _, _ => none
  | fuel+1, a, n, pOrigin => do
    let p ← a.node pOrigin
    let g := p.parent
    if g == EMPTY then
      a.setRed pOrigin false
    else
      let u ← a.getUncle pOrigin
      let uRed ← if u != EMPTY then (a.node u).map (·.red) else some false
      if uRed then
        let a ← a.setRed pOrigin false
        let a ← a.setRed g true
        let a ← a.setRed u false
        let gNode ← a.node g
        let gg := gNode.parent
        if gg != EMPTY then
          let ggNode ← a.node gg
          if ggNode.red then fixInsert fuel a g gg else some a
        else some a
      else
        let gNode ← a.node g
        if pOrigin == gNode.left then
          let pNode ← a.node pOrigin
          let (a, pIdx) ← if n == pNode.right then (a.rotateLeft pOrigin).map (·, n) else some (a, pOrigin)
          let a ← a.rotateRight g
          let a ← a.setRed pIdx false
          a.setRed g true
        else
          let pNode ← a.node pOrigin
          let (a, pIdx) ← if n == pNode.left then (a.rotateRight pOrigin).map (·, n) else some (a, pOrigin)
          let a ← a.rotateLeft g
          let a ← a.setRed pIdx false
          a.setRed g true

def insertNew (a : Arena V) (e : Ent V) (p : Nat) (red : Bool) : Option (Nat × Arena V) := do
  let (i, a) ← a.getFree
  let a ← a.modify i fun _ => ⟨p, EMPTY, EMPTY, red, e⟩
  return (i, a)

def insertRoot (a : Arena V) (e : Ent V) : Option (Arena V) := do
  let (i, a) ← a.insertNew e EMPTY false
  return { a with root := i }

def insertAs (a : Arena V) (e : Ent V) (p : Nat) (left : Bool) : Option (Arena V) := do
  let (i, a) ← a.insertNew e p true
  let a ← if left then a.setLeft p i else a.setRight p i
  let pn ← a.node p
  if pn.red then fixInsert (a.nodes.size + 1) a i p else some a

/-- `insert_entity` of the map / set -/
def insertLoop : Nat → Arena V → Ent V → Nat → Option (Arena V)
  | 0, _, _, _ => none
  | fuel+1, a, e, index => do
    let n ← a.node index
    if e.key < n.ent.key then
      if n.left == EMPTY then a.insertAs e index true else insertLoop fuel a e n.left
    else
      if n.right == EMPTY then a.insertAs e index false else insertLoop fuel a e n.right

def insert (a : Arena V) (e : Ent V) : Option (Arena V) :=
  if a.root == EMPTY then a.insertRoot e else insertLoop (a.nodes.size + 1) a e a.root

/-! ### delete -/

def findLeftMinimum : Nat → Arena V → Nat → Option Nat
  | 0, _, _ => none
  | fuel+1, a, i => do
    let n ← a.node i
    if n.left != EMPTY then findLeftMinimum fuel a n.left else some i

def removeParentsChild (a : Arena V) (parent oldC : Nat) (newC : Nat) : Option (Arena V) := do
  let p ← a.node parent
  if !(p.left == oldC || p.right == oldC) then none
  else if p.left == oldC then a.setLeft parent newC else a.setRight parent newC

/-- `handle_red_sibling` -/
def handleRedSibling (a : Arena V) (n s : Nat) : Option (Arena V) := do
  let a ← a.setRed s false
  let nd ← a.node n
  let p := nd.parent
  let a ← a.setRed p true
  let pn ← a.node p
  if n == pn.left then a.rotateLeft p else a.rotateRight p

/-- `handle_black_sibling_with_at_least_one_red_child` -/
def handleBlackSibling (a : Arena V) (n sOrigin : Nat) : Option (Arena V) := do
  let nd ← a.node n
  let p := nd.parent
  let sn ← a.node sOrigin
  let pn ← a.node p
  let isLeft := n == pn.left
  let srBlack ← a.isBlack sn.right
  let slBlack ← a.isBlack sn.left
  let (a, s, sl, sr) ←
    if isLeft && srBlack then do
      let a ← if sn.left != EMPTY then a.setRed sn.left false else some a
      let a ← a.setRed sOrigin true
      let a ← a.rotateRight sOrigin
      let pn ← a.node p
      let s := pn.right
      let sn ← a.node s
      pure (a, s, sn.left, sn.right)
    else if !isLeft && slBlack then do
      let a ← if sn.right != EMPTY then a.setRed sn.right false else some a
      let a ← a.setRed sOrigin true
      let a ← a.rotateLeft sOrigin
      let pn ← a.node p
      let s := pn.left
      let sn ← a.node s
      pure (a, s, sn.left, sn.right)
    else pure (a, sOrigin, sn.left, sn.right)
  let pn ← a.node p
  let a ← a.setRed s pn.red
  let a ← a.setRed p false
  if isLeft then
    let a ← if sr != EMPTY then a.setRed sr false else some a
    a.rotateLeft p
  else
    let a ← if sl != EMPTY then a.setRed sl false else some a
    a.rotateRight p

/-- `fix_red_black_properties_after_delete` -/
def fixDelete : Nat → Arena V → Nat → Option (Arena V)
  | 0, _, _ => none
  | fuel+1, a, n => do
    if n == a.root then return a
    let s ← a.getSibling n
    let sn ← a.node s
    let (a, s) ← if sn.red then do
        let a ← a.handleRedSibling n s
        let s ← a.getSibling n
        pure (a, s)
      else pure (a, s)
    let sn ← a.node s
    let lb ← a.isBlack sn.left
    let rb ← a.isBlack sn.right
    if lb && rb then
      let a ← a.setRed s true
      let nd ← a.node n
      let p := nd.parent
      let pn ← a.node p
      if pn.red then a.setRed p false else fixDelete fuel a p
    else a.handleBlackSibling n s

/-- `delete_index` -/
def deleteIndex (a : Arena V) (index : Nat) : Option (Arena V) := do
  let n ← a.node index
  let twoKids := n.left != EMPTY && n.right != EMPTY
  let (a, del, ndLeft, ndRight, ndParent, ndRed) ←
    if twoKids then do
      let succ ← findLeftMinimum (a.nodes.size + 1) a n.right
      let sn ← a.node succ
      let a ← a.setEnt index sn.ent
      pure (a, succ, sn.left, sn.right, sn.parent, sn.red)
    else pure (a, index, n.left, n.right, n.parent, n.red)
  let fuel := a.nodes.size + 1
  let a ←
    if ndLeft != EMPTY then do
      let a ← a.replaceParentsChild ndParent del ndLeft
      fixDelete fuel a ndLeft
    else if ndRight != EMPTY then do
      let a ← a.replaceParentsChild ndParent del ndRight
      fixDelete fuel a ndRight
    else if ndParent == EMPTY then
      pure { a with root := EMPTY }
    else if !ndRed then do
      -- temporary NIL node in slot 0
      let a ← a.modify 0 fun nd => { nd with parent := ndParent, left := EMPTY, right := EMPTY, red := true }
      let a ← a.removeParentsChild ndParent del 0
      let a ← fixDelete fuel a 0
      let nil ← a.node 0
      a.removeParentsChild nil.parent 0 EMPTY
    else a.removeParentsChild ndParent del EMPTY
  return a.putBack del

/-! ### searches of the map / set -/

def findIndex : Nat → Arena V → Int → Nat → Option Nat
  | 0, _, _, _ => none
  | fuel+1, a, key, i =>
    if i == EMPTY then some EMPTY else do
      let n ← a.node i
      if key < n.ent.key then findIndex fuel a key n.left
      else if n.ent.key < key then findIndex fuel a key n.right
      else some i

def firstLessBy : Nat → Arena V → (Int → Ordering) → Nat → Nat → Option Nat
  | 0, _, _, _, _ => none
  | fuel+1, a, f, i, res =>
    if i == EMPTY then some res else do
      let n ← a.node i
      match f n.ent.key with
      | .eq => some i
      | .lt => firstLessBy fuel a f n.right i
      | .gt => firstLessBy fuel a f n.left res

def delete (a : Arena V) (key : Int) : Option (Arena V) := do
  let i ← findIndex (a.nodes.size + 1) a key a.root
  if i != EMPTY then a.deleteIndex i else some a

/-- `clear`: the free list itself is the queue -/
def clearLoop : Nat → Arena V → Nat → Option (Arena V)
  | 0, _, _ => none
  | fuel+1, a, n =>
    if n == 0 then some a else do
      let i0 := a.unused.size - n
      let hi := a.unused.size
      let (a, cnt) ← (List.range (hi - i0)).foldlM (fun (acc : Arena V × Nat) j => do
          let idx ← acc.1.unused[i0 + j]?
          let nd ← acc.1.node idx
          let (a1, c1) := if nd.left != EMPTY then (acc.1.putBack nd.left, acc.2 + 1) else (acc.1, acc.2)
          let (a2, c2) := if nd.right != EMPTY then (a1.putBack nd.right, c1 + 1) else (a1, c1)
          pure (a2, c2)) (a, 0)
      clearLoop fuel a cnt

def clear (a : Arena V) : Option (Arena V) :=
  if a.root == EMPTY then some a
  else
    let a1 := a.putBack a.root
    clearLoop (a.nodes.size + 2) { a1 with root := EMPTY } 1

/-! ### neighbour steps of the set -/

def findRightMaximum : Nat → Arena V → Nat → Option Nat
  | 0, _, _ => none
  | fuel+1, a, i => do
    let n ← a.node i
    if n.right != EMPTY then findRightMaximum fuel a n.right else some i

def climb (fromRight : Bool) : Nat → Arena V → Nat → Nat → Option Nat
  | 0, _, _, _ => none
  | fuel+1, a, index, parentIdx =>
    if parentIdx == EMPTY then some EMPTY else do
      let p ← a.node parentIdx
      if (if fromRight then p.right else p.left) != index then some parentIdx
      else climb fromRight fuel a parentIdx p.parent

def indexAfter (a : Arena V) (index : Nat) : Option Nat := do
  let n ← a.node index
  if n.right != EMPTY then findLeftMinimum (a.nodes.size + 1) a n.right
  else climb true (a.nodes.size + 1) a index n.parent

def indexBefore (a : Arena V) (index : Nat) : Option Nat := do
  let n ← a.node index
  if n.left != EMPTY then findRightMaximum (a.nodes.size + 1) a n.left
  else climb false (a.nodes.size + 1) a index n.parent

/-! ### expiring-key tree -/

/-- which link of `n` (or the root) is re-read after each lazy removal -/
inductive Via where
  | root | left (n : Nat) | right (n : Nat)

def readVia (a : Arena V) : Via → Option Nat
  | .root => some a.root
  | .left n => (a.node n).map (·.left)
  | .right n => (a.node n).map (·.right)

/-- `expire_root` / `expire_left` / `expire_right` -/
def expireVia (time : Int) : Nat → Arena V → Via → Option (Nat × Arena V)
  | 0, _, _ => none
  | fuel+1, a, via => do
    let i ← a.readVia via
    if i == EMPTY then return (EMPTY, a)
    let n ← a.node i
    if time < n.ent.exp then return (i, a)
    let a ← a.deleteIndex i
    expireVia time fuel a via

/-- the three searches; `f` orders a stored key relative to the probe -/
def kSearch (mode : Mode) (time : Int) (f : Int → Ordering) : Nat → Arena V → Nat → Option V → Option (Arena V × Option V)
  | 0, _, _, _ => none
  | fuel+1, a, index, res =>
    if index == EMPTY then some (a, res) else do
      let n ← a.node index
      let goL := fun (res' : Option V) => do
        let (i, a) ← expireVia time (a.nodes.size + 1) a (.left index)
        kSearch mode time f fuel a i res'
      let goR := fun (res' : Option V) => do
        let (i, a) ← expireVia time (a.nodes.size + 1) a (.right index)
        kSearch mode time f fuel a i res'
      match f n.ent.key with
      | .eq => match mode with
        | .fl => goL res
        | _ => some (a, some n.ent.val)
      | .lt => goR (match mode with | .get => res | _ => some n.ent.val)
      | .gt => goL res

def kQuery (a : Arena V) (mode : Mode) (time : Int) (f : Int → Ordering) : Option (Arena V × Option V) := do
  let (i, a) ← expireVia time (a.nodes.size + 1) a .root
  kSearch mode time f (a.nodes.size + 1) a i none

def kInsertLoop (time : Int) (e : Ent V) : Nat → Arena V → Nat → Option (Arena V)
  | 0, _, _ => none
  | fuel+1, a, index => do
    let n ← a.node index
    if e.key < n.ent.key then
      let (i, a) ← expireVia time (a.nodes.size + 1) a (.left index)
      if i == EMPTY then a.insertAs e index true else kInsertLoop time e fuel a i
    else
      let (i, a) ← expireVia time (a.nodes.size + 1) a (.right index)
      if i == EMPTY then a.insertAs e index false else kInsertLoop time e fuel a i

def kInsert (a : Arena V) (e : Ent V) (time : Int) : Option (Arena V) := do
  let (i, a) ← expireVia time (a.nodes.size + 1) a .root
  if i == EMPTY then a.insertRoot e else kInsertLoop time e (a.nodes.size + 1) a i

/-- `is_part_of_the_tree`: walk over (possibly stale) parent links -/
def isPartOfTree : Nat → Arena V → Nat → Option Bool
  | 0, _, _ => none
  | fuel+1, a, cursor => do
    let c ← a.node cursor
    if c.parent == EMPTY then return (cursor == a.root)
    let p ← a.node c.parent
    if p.left != cursor && p.right != cursor then return false
    isPartOfTree fuel a c.parent

/-- `expire_all`, one slot -/
def expireSlotA (time : Int) (i : Nat) : Nat → Arena V → Option (Arena V)
  | 0, _ => none
  | fuel+1, a => do
    let part ← isPartOfTree (a.nodes.size + 1) a i
    if !part then return a
    let n ← a.node i
    if time < n.ent.exp then return a
    let a ← a.deleteIndex i
    expireSlotA time i fuel a

/-- in-order traversal by child links (the explicit-stack loop of `create_ordered_list`) -/
def inorderVals : Nat → Arena V → Nat → Option (List V)
  | 0, _, _ => none
  | fuel+1, a, i =>
    if i == EMPTY then some [] else do
      let n ← a.node i
      let l ← inorderVals fuel a n.left
      let r ← inorderVals fuel a n.right
      pure (l ++ n.ent.val :: r)

/-- `create_ordered_list(time)`: purged arena, exported values, requested capacity -/
def kExport (a : Arena V) (time : Int) : Option (Arena V × List V × Nat) := do
  let n := a.nodes.size
  let a ← ((List.range n).drop 1).foldlM (fun a i => expireSlotA time i (a.nodes.size + 1) a) a
  let vals ← inorderVals (a.nodes.size + 1) a a.root
  pure (a, vals, a.nodes.size - a.unused.size - 1)

/-! ### abstraction to the labelled tree of the zipper model -/

def absTree : Nat → Arena V → Nat → Option (T (Ent V))
  | 0, _, _ => none
  | fuel+1, a, i =>
    if i == EMPTY then some .leaf else do
      let n ← a.node i
      let l ← absTree fuel a n.left
      let r ← absTree fuel a n.right
      pure (.node (if n.red then .red else .black) l i n.ent r)

def abs (a : Arena V) : Option (St V) := do
  let t ← absTree (a.nodes.size + 1) a a.root
  pure { tree := t, pool := { bufLen := a.nodes.size, unused := a.unused.toList.reverse, cap := a.cap } }

/-! ### executable representation check (driver): the hypotheses of the arena-level theorems, decided on a
concrete arena. `absP` is `abs` that also insists on every parent field; `garbageOK` runs the stale-link walk
from every slot outside the tree; `zeroOK` looks at the scratch slot. Proved sound in `Lemmas/ArenaCheck.lean`. -/

def absTreeP : Nat → Arena V → Nat → Nat → Option (T (Ent V))
  | 0, _, _, _ => none
  | fuel+1, a, i, p =>
    if i == EMPTY then some .leaf else do
      let n ← a.node i
      if n.parent != p then none
      else
        let l ← absTreeP fuel a n.left i
        let r ← absTreeP fuel a n.right i
        pure (.node (if n.red then .red else .black) l i n.ent r)

def absP (a : Arena V) : Option (St V) := do
  let t ← absTreeP (a.nodes.size + 1) a a.root EMPTY
  pure { tree := t, pool := { bufLen := a.nodes.size, unused := a.unused.toList.reverse, cap := a.cap } }

def garbageOK (a : Arena V) (live : List Nat) : Bool :=
  (List.range a.nodes.size).all fun j =>
    j == 0 || live.contains j || (match isPartOfTree (a.nodes.size + 1) a j with | some false => true | _ => false)

def zeroOK (a : Arena V) : Bool :=
  match a.node 0 with
  | none => true
  | some n => (n.left == 0 || n.left == EMPTY) && (n.right == 0 || n.right == EMPTY)

end Arena
end ITree
