/-!
# Functional mirror of the arena red-black trees of iTree (`src/{map,set,key}/tree.rs`)

A tree is an inductive value whose nodes carry the *arena slot* (the public handle) of the Rust node.
All algorithms are written over a zipper (`Ctx`, innermost frame first), following the statement order
of the Rust code: descend pushing frames, rewrite the focus, walk the frames back up.

Parent links, the NIL stand-in (slot 0) and stale contents of freed slots are not part of the model;
the correspondence check's abstraction function validates them on every explored real state.

This file imports nothing outside core Lean, so that the driver executable links.
-/
namespace ITree

inductive Color where
  | red | black
  deriving DecidableEq, Repr, Inhabited

inductive T (ε : Type) where
  | leaf : T ε
  | node (c : Color) (l : T ε) (s : Nat) (e : ε) (r : T ε) : T ε
  deriving Repr, Inhabited

inductive Side where
  | L | R
  deriving DecidableEq, Repr, Inhabited

variable {ε : Type}

namespace T

/-- `is_black(index)`: `index == EMPTY_REF || color == Black`. -/
def isBlack : T ε → Bool
  | .leaf => true
  | .node c _ _ _ _ => c == .black

def isRedNode : T ε → Bool
  | .node .red _ _ _ _ => true
  | _ => false

def isLeaf : T ε → Bool
  | .leaf => true
  | _ => false

def setColor (c : Color) : T ε → T ε
  | .leaf => .leaf
  | .node _ l s e r => .node c l s e r

/-- in-order `(slot, entity)` pairs -/
def toList : T ε → List (Nat × ε)
  | .leaf => []
  | .node _ l s e r => l.toList ++ (s, e) :: r.toList

def size : T ε → Nat
  | .leaf => 0
  | .node _ l _ _ r => l.size + r.size + 1

def height : T ε → Nat
  | .leaf => 0
  | .node _ l _ _ r => max l.height r.height + 1

/-- slot of the root node, `none` for `EMPTY_REF` -/
def rootSlot : T ε → Option Nat
  | .leaf => none
  | .node _ _ s _ _ => some s

end T

/-- One step of a root-to-focus path: the node whose `side`-child is the hole. -/
structure Frame (ε : Type) where
  c : Color
  s : Nat
  e : ε
  sib : T ε
  side : Side
  deriving Repr

/-- innermost frame first -/
abbrev Ctx (ε : Type) := List (Frame ε)

def Frame.fill (f : Frame ε) (t : T ε) : T ε :=
  match f.side with
  | .L => .node f.c t f.s f.e f.sib
  | .R => .node f.c f.sib f.s f.e t

def plug : Ctx ε → T ε → T ε
  | [], t => t
  | f :: k, t => plug k (f.fill t)

/-! ## insert repair (`fix_red_black_properties_after_insert`)

`insertFix k n`: `n` is the red node just linked (or the re-coloured grand-parent), the innermost
frame of `k` is its **red** parent. -/
def insertFix : Ctx ε → T ε → T ε
  | [], n => n
  | [p], n => plug [{ p with c := .black }] n                       -- case 2: parent is the root
  | p :: g :: rest, n =>
    if g.sib.isRedNode then                                         -- case 3: red uncle
      let n' := plug [{ p with c := .black }, { g with c := .red, sib := g.sib.setColor .black }] n
      match rest with
      | [] => n'
      | gg :: _ => if gg.c == .red then insertFix rest n' else plug rest n'
    else
      match n with
      | .leaf => plug (p :: g :: rest) n                            -- unreachable: `n` is a node
      | .node _ nl sn en nr =>
        let top : T ε :=
          match g.side, p.side with
          | .L, .L => .node .black n p.s p.e (.node .red p.sib g.s g.e g.sib)                            -- 5a
          | .L, .R => .node .black (.node .red p.sib p.s p.e nl) sn en (.node .red nr g.s g.e g.sib)     -- 4a+5a
          | .R, .R => .node .black (.node .red g.sib g.s g.e p.sib) p.s p.e n                            -- 5b
          | .R, .L => .node .black (.node .red g.sib g.s g.e nl) sn en (.node .red nr p.s p.e p.sib)     -- 4b+5b
        plug rest top

/-! ## delete repair (`fix_red_black_properties_after_delete`) on frames

`fixFrame f` is one activation for a deficient hole below frame `f`. It returns the frames that
replace `f` (innermost first) and whether the deficit continues above them. `none` is a *fault*:
the Rust code would dereference `EMPTY_REF` (absent sibling / nephew). -/
def fixBlackSib (f : Frame ε) : Option (Ctx ε × Bool) :=
  match f.sib with
  | .leaf => none
  | .node _ SL sS eS SR =>
    if SL.isBlack && SR.isBlack then
      -- cases 3+4
      some ([{ f with c := .black, sib := .node .red SL sS eS SR }], f.c == .black)
    else match f.side with
      | .L =>
        if SR.isBlack then
          -- case 5 then 6
          match SL with
          | .node _ SLL sSL eSL SLR =>
            some ([{ f with c := .black, sib := SLL }, ⟨f.c, sSL, eSL, .node .black SLR sS eS SR, .L⟩], false)
          | .leaf => none
        else
          -- case 6
          some ([{ f with c := .black, sib := SL }, ⟨f.c, sS, eS, SR.setColor .black, .L⟩], false)
      | .R =>
        if SL.isBlack then
          match SR with
          | .node _ SRL sSR eSR SRR =>
            some ([{ f with c := .black, sib := SRR }, ⟨f.c, sSR, eSR, .node .black SL sS eS SRL, .R⟩], false)
          | .leaf => none
        else
          some ([{ f with c := .black, sib := SR }, ⟨f.c, sS, eS, SL.setColor .black, .R⟩], false)

def fixFrame (f : Frame ε) : Option (Ctx ε × Bool) :=
  match f.sib with
  | .node .red SL sS eS SR =>
    -- case 2: red sibling, rotate, then cases 3-6 with the new (black) sibling
    match f.side with
    | .L => (fixBlackSib { f with c := .red, sib := SL }).map
              fun (fs, _) => (fs ++ [⟨.black, sS, eS, SR, .L⟩], false)
    | .R => (fixBlackSib { f with c := .red, sib := SR }).map
              fun (fs, _) => (fs ++ [⟨.black, sS, eS, SL, .R⟩], false)
  | _ => fixBlackSib f

/-- repair outward through `k`; also returns the deficit that leaves the context
(a deficit arriving at the top is simply dropped: "do not color root to black") -/
def fixUpD : Ctx ε → Bool → Option (Ctx ε × Bool)
  | k, false => some (k, false)
  | [], true => some ([], true)
  | f :: rest, true =>
    match fixFrame f with
    | none => none
    | some (fs, d) => (fixUpD rest d).map fun (r, d') => (fs ++ r, d')

def fixUp (k : Ctx ε) (d : Bool) : Option (Ctx ε) := (fixUpD k d).map (·.1)

/-- `find_left_minimum` as a zipper descent -/
def leftmost : Ctx ε → T ε → Ctx ε × T ε
  | k, .node c (.node c' l' s' e' r') s e r => leftmost (⟨c, s, e, r, .L⟩ :: k) (.node c' l' s' e' r')
  | k, t => (k, t)

/-- `delete_index` of the root node of the focus `t` sitting in context `k`.
Returns the new context, the new focus (occupying the same hole) and the freed slot. -/
def deleteFocus (k : Ctx ε) : T ε → Option (Ctx ε × T ε × Nat)
  | .leaf => none
  | .node c l s _ r =>
    match l, r with
    | .node .., .node .. =>
      -- two children: the successor's entity moves into slot `s`, the successor's slot is freed
      let (k', succ) := leftmost [] r
      match succ with
      | .leaf => none
      | .node cs _ ss es rs =>
        let inner := k' ++ [⟨c, s, es, l, .R⟩]
        let (repl, d0) : T ε × Bool := match rs with
          | .node .. => (rs, true)
          | .leaf => (.leaf, cs == .black)
        match fixUpD inner d0 with
        | none => none
        | some (inner', d') =>
          (fixUp k d').map fun k'' => (k'', plug inner' repl, ss)
    | .node .., .leaf => (fixUp k true).map fun k' => (k', l, s)
    | .leaf, .node .. => (fixUp k true).map fun k' => (k', r, s)
    | .leaf, .leaf =>
      match k with
      | [] => some ([], .leaf, s)
      | _ => (fixUp k (c == .black)).map fun k' => (k', .leaf, s)

/-- locate the node stored in arena slot `slot` -/
def findSlot (slot : Nat) : Ctx ε → T ε → Option (Ctx ε × T ε)
  | _, .leaf => none
  | k, .node c l s e r =>
    if s == slot then some (k, .node c l s e r)
    else match findSlot slot (⟨c, s, e, r, .L⟩ :: k) l with
      | some x => some x
      | none => findSlot slot (⟨c, s, e, l, .R⟩ :: k) r

/-- breadth-first slot order in which `clear` releases the nodes below the given level -/
def bfsLevels : List (T ε) → Nat → List Nat
  | _, 0 => []
  | [], _ => []
  | level, fuel+1 =>
    let kids := level.flatMap fun t => match t with
      | .leaf => []
      | .node _ l _ _ r => [l, r].filter fun x => !x.isLeaf
    (kids.filterMap T.rootSlot) ++ bfsLevels kids fuel

def T.bfs (t : T ε) : List Nat :=
  match t with
  | .leaf => []
  | .node _ _ s _ _ => s :: bfsLevels [t] (t.size + 1)

end ITree
