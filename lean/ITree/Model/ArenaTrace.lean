import ITree.Model.Arena
/-!
# Arena-level model with user callbacks (C18, C20 at the pointer level)

The operations of the expiring-key tree in `Model/Arena.lean`, instrumented: every call of user code —
`ExpiredKey::expiration` on a stored key (`exp`), `Ord::cmp` / the comparator closure on a stored key
(`cmp`) — is recorded together with **the whole arena at that moment** (most recent first). That arena is
what the caller is left with if the callback panics there. The functions are the same statement sequences
as `expireVia`, `kSearch`, `kQuery`, `kInsertLoop`, `kInsert`, `expireSlotA`, `kExport`
(`Lemmas/ArenaTrace.lean` proves that forgetting the events gives exactly those functions).
-/
namespace ITree

structure AEv (V : Type) where
  kind : CbKind
  ent : Ent V
  arena : Arena V

variable {V : Type}

namespace Arena

/-- `expire_root` / `expire_left` / `expire_right` -/
def expireViaT (time : Int) : Nat → Arena V → Via → List (AEv V) → Option (Nat × Arena V × List (AEv V))
  | 0, _, _, _ => none
  | fuel+1, a, via, tr => do
    let i ← a.readVia via
    if i == EMPTY then return (EMPTY, a, tr)
    let n ← a.node i
    let tr := ⟨.exp, n.ent, a⟩ :: tr
    if time < n.ent.exp then return (i, a, tr)
    let a ← a.deleteIndex i
    expireViaT time fuel a via tr

def kSearchT (mode : Mode) (time : Int) (f : Int → Ordering) :
    Nat → Arena V → Nat → Option V → List (AEv V) → Option (Arena V × Option V × List (AEv V))
  | 0, _, _, _, _ => none
  | fuel+1, a, index, res, tr =>
    if index == EMPTY then some (a, res, tr) else do
      let n ← a.node index
      let tr := ⟨.cmp, n.ent, a⟩ :: tr
      let goL := fun (res' : Option V) => do
        let (i, a, tr) ← expireViaT time (a.nodes.size + 1) a (.left index) tr
        kSearchT mode time f fuel a i res' tr
      let goR := fun (res' : Option V) => do
        let (i, a, tr) ← expireViaT time (a.nodes.size + 1) a (.right index) tr
        kSearchT mode time f fuel a i res' tr
      match f n.ent.key with
      | .eq => match mode with
        | .fl => goL res
        | _ => some (a, some n.ent.val, tr)
      | .lt => goR (match mode with | .get => res | _ => some n.ent.val)
      | .gt => goL res

def kQueryT (a : Arena V) (mode : Mode) (time : Int) (f : Int → Ordering) :
    Option (Arena V × Option V × List (AEv V)) := do
  let (i, a, tr) ← expireViaT time (a.nodes.size + 1) a .root []
  kSearchT mode time f (a.nodes.size + 1) a i none tr

def kInsertLoopT (time : Int) (e : Ent V) : Nat → Arena V → Nat → List (AEv V) → Option (Arena V × List (AEv V))
  | 0, _, _, _ => none
  | fuel+1, a, index, tr => do
    let n ← a.node index
    let tr := ⟨.cmp, n.ent, a⟩ :: tr
    if e.key < n.ent.key then
      let (i, a, tr) ← expireViaT time (a.nodes.size + 1) a (.left index) tr
      if i == EMPTY then (a.insertAs e index true).map (·, tr) else kInsertLoopT time e fuel a i tr
    else
      let (i, a, tr) ← expireViaT time (a.nodes.size + 1) a (.right index) tr
      if i == EMPTY then (a.insertAs e index false).map (·, tr) else kInsertLoopT time e fuel a i tr

/-- the first event is the `debug_assert!(key.expiration() >= time)` of debug builds -/
def kInsertT (a : Arena V) (e : Ent V) (time : Int) : Option (Arena V × List (AEv V)) := do
  let (i, a, tr) ← expireViaT time (a.nodes.size + 1) a .root [⟨.exp, e, a⟩]
  if i == EMPTY then (a.insertRoot e).map (·, tr) else kInsertLoopT time e (a.nodes.size + 1) a i tr

/-- `expire_all`, one slot -/
def expireSlotAT (time : Int) (i : Nat) : Nat → Arena V → List (AEv V) → Option (Arena V × List (AEv V))
  | 0, _, _ => none
  | fuel+1, a, tr => do
    let part ← isPartOfTree (a.nodes.size + 1) a i
    if !part then return (a, tr)
    let n ← a.node i
    let tr := ⟨.exp, n.ent, a⟩ :: tr
    if time < n.ent.exp then return (a, tr)
    let a ← a.deleteIndex i
    expireSlotAT time i fuel a tr

def expireAllAT (time : Int) : List Nat → Arena V → List (AEv V) → Option (Arena V × List (AEv V))
  | [], a, tr => some (a, tr)
  | i :: is, a, tr => do
    let (a, tr) ← expireSlotAT time i (a.nodes.size + 1) a tr
    expireAllAT time is a tr

/-- `create_ordered_list(time)` with its callbacks (all of them in the purge; the traversal calls none) -/
def kExportT (a : Arena V) (time : Int) : Option (Arena V × List V × Nat × List (AEv V)) := do
  let n := a.nodes.size
  let (a, tr) ← expireAllAT time ((List.range n).drop 1) a []
  let vals ← inorderVals (a.nodes.size + 1) a a.root
  pure (a, vals, a.nodes.size - a.unused.size - 1, tr)

/-! ### map / set: the two mutating operations that call user code (`Ord::cmp` on the way down) -/

/-- `insert_entity` of the map / set, one comparison per visited node -/
def insertLoopT : Nat → Arena V → Ent V → Nat → List (AEv V) → Option (Arena V × List (AEv V))
  | 0, _, _, _, _ => none
  | fuel+1, a, e, index, tr => do
    let n ← a.node index
    let tr := ⟨.cmp, n.ent, a⟩ :: tr
    if e.key < n.ent.key then
      if n.left == EMPTY then (a.insertAs e index true).map (·, tr) else insertLoopT fuel a e n.left tr
    else
      if n.right == EMPTY then (a.insertAs e index false).map (·, tr) else insertLoopT fuel a e n.right tr

def insertT (a : Arena V) (e : Ent V) : Option (Arena V × List (AEv V)) :=
  if a.root == EMPTY then (a.insertRoot e).map (·, []) else insertLoopT (a.nodes.size + 1) a e a.root []

/-- `find_index` with its comparisons -/
def findIndexT : Nat → Arena V → Int → Nat → List (AEv V) → Option (Nat × List (AEv V))
  | 0, _, _, _, _ => none
  | fuel+1, a, key, i, tr =>
    if i == EMPTY then some (EMPTY, tr) else do
      let n ← a.node i
      let tr := ⟨.cmp, n.ent, a⟩ :: tr
      if key < n.ent.key then findIndexT fuel a key n.left tr
      else if n.ent.key < key then findIndexT fuel a key n.right tr
      else some (i, tr)

/-- `delete(key)`: the descent calls user code, `delete_index` does not -/
def deleteT (a : Arena V) (key : Int) : Option (Arena V × List (AEv V)) := do
  let (i, tr) ← findIndexT (a.nodes.size + 1) a key a.root []
  if i != EMPTY then (a.deleteIndex i).map (·, tr) else some (a, tr)

end Arena
end ITree

/-! ### the explicit-stack in-order walk of `create_ordered_list`

`Arena.inorderVals` (in `Model/Arena.lean`) is the recursive reading of the walk. This is the loop as written:
a `Vec<StackNode>` of `(index, left, right)` triples whose fields are overwritten with `EMPTY_REF` once used
("to skip next time"); one iteration of `while !stack.is_empty()` per call. `Lemmas/ArenaStack.lean` proves
that on an arena representing a tree it terminates within `3·size + 1` iterations and yields the values in key
order — the recursive function's result. -/
namespace ITree
variable {V : Type}

structure StackNode where
  index : Nat
  left : Nat
  right : Nat
  deriving Repr

namespace Arena

def stackNode (a : Arena V) (i : Nat) : Option StackNode := (a.node i).map fun n => ⟨i, n.left, n.right⟩

/-- the `while` loop; the stack's top is the head of the list; `acc` is `list` reversed -/
def exportLoop : Nat → Arena V → List StackNode → List V → Option (List V)
  | 0, _, _, _ => none
  | _+1, _, [], acc => some acc.reverse
  | fuel+1, a, s :: rest, acc =>
    if s.left != EMPTY then do
      -- go down left
      let c ← a.stackNode s.left
      exportLoop fuel a (c :: { s with left := EMPTY } :: rest) acc
    else do
      let (acc, s) ← if s.index != EMPTY then (a.node s.index).map fun n => (n.ent.val :: acc, { s with index := EMPTY })
                     else some (acc, s)
      if s.right != EMPTY then do
        -- go down right
        let c ← a.stackNode s.right
        exportLoop fuel a (c :: { s with right := EMPTY } :: rest) acc
      else
        -- go up
        exportLoop fuel a rest acc

/-- the traversal part of `create_ordered_list` as written -/
def exportStack (a : Arena V) : Option (List V) :=
  if a.root == EMPTY then some []
  else do
    let s ← a.stackNode a.root
    exportLoop (3 * a.nodes.size + 2) a [s] []

end Arena
/-! ### `height()`: the capacity `create_ordered_list` reserves for its stack (`key/array.rs`) -/

/-- the `while node.left != EMPTY_REF` loop of `height()` -/
def Arena.heightLoop : Nat → Arena V → ANode V → Nat → Option Nat
  | 0, _, _, _ => none
  | fuel + 1, a, n, h =>
    if n.left == EMPTY then some h
    else (a.node n.left).bind fun n' => Arena.heightLoop fuel a n' (if n'.red then h else h + 1)

/-- `height()` -/
def Arena.heightCap (a : Arena V) : Option Nat :=
  if a.root == EMPTY then some 0
  else (a.node a.root).bind fun n => (Arena.heightLoop (a.nodes.size + 1) a n 1).map (· * 2)

end ITree
