import ITree.Model.Tree
import ITree.Model.Pool
/-!
# `MapTree` and `SetTree` (`src/map/tree.rs`, `src/set/tree.rs`)

The two Rust files are textual copies of one algorithm; the set additionally offers the neighbour
steps `index_after` / `index_before`. One model serves both (entity = key + payload); the
correspondence check is run against each copy separately.

Handles are arena slots; `none` stands for `EMPTY_REF`. A result `none` of an `Option`-valued
*operation* is a **fault**: the Rust code would index the arena with `EMPTY_REF` or use a slot
that is not part of the tree (out of contract).
-/
namespace ITree

/-- stored entity: key, expiration (used by the expiring tree only), payload -/
structure Ent (V : Type) where
  key : Int
  exp : Int
  val : V
  deriving Repr, DecidableEq, Inhabited

def Ent.setVal {V : Type} (e : Ent V) (v : V) : Ent V := ⟨e.key, e.exp, v⟩

structure St (V : Type) where
  tree : T (Ent V)
  pool : Pool
  deriving Repr, Inhabited

variable {V ε : Type}

def St.new (c : Nat) : St V := { tree := .leaf, pool := Pool.new c }

def St.isEmpty (st : St V) : Bool := st.tree.isLeaf

/-- descent of `insert_entity`: `if key < node.key { left } else { right }` down to `EMPTY_REF` -/
def descendIns (key : Int) : Ctx (Ent V) → T (Ent V) → Ctx (Ent V)
  | k, .leaf => k
  | k, .node c l s e r =>
    if key < e.key then descendIns key (⟨c, s, e, r, .L⟩ :: k) l
    else descendIns key (⟨c, s, e, l, .R⟩ :: k) r

/-- link a new red node with entity `e` in slot `slot` into the hole of `k` and repair -/
def linkNew (k : Ctx (Ent V)) (slot : Nat) (e : Ent V) : T (Ent V) :=
  match k with
  | [] => .node .black .leaf slot e .leaf                                   -- `insert_root`
  | p :: _ =>
    let n : T (Ent V) := .node .red .leaf slot e .leaf
    if p.c == .red then insertFix k n else plug k n

def St.insert (st : St V) (e : Ent V) : St V :=
  let (slot, pool) := st.pool.alloc
  { tree := linkNew (descendIns e.key [] st.tree) slot e, pool }

/-- `find_index`: `key.cmp(node.key)` -/
def findKey (key : Int) : Ctx (Ent V) → T (Ent V) → Option (Ctx (Ent V) × T (Ent V))
  | _, .leaf => none
  | k, .node c l s e r =>
    if key < e.key then findKey key (⟨c, s, e, r, .L⟩ :: k) l
    else if e.key < key then findKey key (⟨c, s, e, l, .R⟩ :: k) r
    else some (k, .node c l s e r)

/-- `delete_index` at a located focus, then `put_back` -/
def St.deleteAt (st : St V) (k : Ctx (Ent V)) (t : T (Ent V)) : Option (St V) :=
  (deleteFocus k t).map fun (k', t', freed) => { tree := plug k' t', pool := st.pool.free freed }

def St.delete (st : St V) (key : Int) : Option (St V) :=
  match findKey key [] st.tree with
  | none => some st
  | some (k, t) => st.deleteAt k t

/-- `delete_by_index(slot)`; a slot that is not in the tree is out of contract → fault -/
def St.deleteByIndex (st : St V) (slot : Nat) : Option (St V) :=
  match findSlot slot [] st.tree with
  | none => none
  | some (k, t) => st.deleteAt k t

/-- `search_value` -/
def T.lookup (key : Int) : T (Ent V) → Option (Ent V)
  | .leaf => none
  | .node _ l _ e r =>
    if key < e.key then l.lookup key
    else if e.key < key then r.lookup key
    else some e

def St.getValue (st : St V) (key : Int) : Option V := (st.tree.lookup key).map (·.val)

/-- `search_first_less_by(f)`: `f(node.key)` is `Equal` → this slot; `Less` → remember, go right;
`Greater` → go left. `search_first_less(key)` is the instance `f = fun k => compare k key`. -/
def T.firstLEBy (f : Int → Ordering) : T (Ent V) → Option Nat → Option Nat
  | .leaf, res => res
  | .node _ l s e r, res =>
    match f e.key with
    | .eq => some s
    | .lt => r.firstLEBy f (some s)
    | .gt => l.firstLEBy f res

def St.firstIndexLessBy (st : St V) (f : Int → Ordering) : Option Nat := st.tree.firstLEBy f none
def St.firstIndexLess (st : St V) (key : Int) : Option Nat :=
  st.tree.firstLEBy (fun k => compare k key) none

/-! number of nodes visited (= user callbacks made) by the read-only descents -/
def T.visitIns (key : Int) : T (Ent V) → Nat
  | .leaf => 0
  | .node _ l _ e r => if key < e.key then l.visitIns key + 1 else r.visitIns key + 1

def T.visitFind (key : Int) : T (Ent V) → Nat
  | .leaf => 0
  | .node _ l _ e r =>
    if key < e.key then l.visitFind key + 1
    else if e.key < key then r.visitFind key + 1
    else 1

def T.visitLEBy (f : Int → Ordering) : T (Ent V) → Nat
  | .leaf => 0
  | .node _ l _ e r =>
    match f e.key with
    | .eq => 1
    | .lt => r.visitLEBy f + 1
    | .gt => l.visitLEBy f + 1

/-- entity stored in a slot (`value_by_index`); `none`: slot not in the tree (out of contract) -/
def T.atSlot (slot : Nat) : T (Ent V) → Option (Ent V)
  | .leaf => none
  | .node _ l s e r =>
    if s == slot then some e
    else match l.atSlot slot with
      | some x => some x
      | none => r.atSlot slot

def St.valueByIndex (st : St V) (slot : Nat) : Option V := (st.tree.atSlot slot).map (·.val)

def T.setAtSlot (slot : Nat) (v : V) : T (Ent V) → T (Ent V)
  | .leaf => .leaf
  | .node c l s e r =>
    if s == slot then .node c l s (e.setVal v) r
    else .node c (l.setAtSlot slot v) s e (r.setAtSlot slot v)

/-- `*value_by_index_mut(slot) = v` -/
def St.setValueByIndex (st : St V) (slot : Nat) (v : V) : Option (St V) :=
  match st.tree.atSlot slot with
  | none => none
  | some _ => some { st with tree := st.tree.setAtSlot slot v }

/-- `clear`: breadth-first release, using the free list itself as the queue -/
def St.clear (st : St V) : St V :=
  { tree := .leaf, pool := st.pool.freeAll st.tree.bfs }

/-! ### neighbour steps of the set (`index_after`, `index_before`) -/

def T.minSlot : T ε → Option Nat
  | .leaf => none
  | .node _ l s _ _ =>
    match l.minSlot with
    | some m => some m
    | none => some s

def T.maxSlot : T ε → Option Nat
  | .leaf => none
  | .node _ _ s _ r =>
    match r.maxSlot with
    | some m => some m
    | none => some s

/-- first ancestor of which the path comes from the left: climb while we are the right child.
`none` = `EMPTY_REF` (ran off the root). -/
def climbAfter : Ctx ε → Option Nat
  | [] => none
  | f :: k => match f.side with
    | .L => some f.s
    | .R => climbAfter k

def climbBefore : Ctx ε → Option Nat
  | [] => none
  | f :: k => match f.side with
    | .R => some f.s
    | .L => climbBefore k

/-- outer `none`: the slot is not in the tree (out of contract) -/
def St.indexAfter (st : St V) (slot : Nat) : Option (Option Nat) :=
  match findSlot slot [] st.tree with
  | none => none
  | some (k, t) =>
    match t with
    | .leaf => none
    | .node _ _ _ _ r =>
      match r with
      | .node .. => some r.minSlot
      | .leaf => some (climbAfter k)

def St.indexBefore (st : St V) (slot : Nat) : Option (Option Nat) :=
  match findSlot slot [] st.tree with
  | none => none
  | some (k, t) =>
    match t with
    | .leaf => none
    | .node _ l _ _ _ =>
      match l with
      | .node .. => some l.maxSlot
      | .leaf => some (climbBefore k)

end ITree
