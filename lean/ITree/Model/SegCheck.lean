import ITree.Model.Seg
/-!
# Executable check of the segment tree's relation to the logical list of inserted values

Evaluated by the driver on every explored real pre-state (the harness supplies the values inserted since
the last clear and the time of the last query); `ITree/Lemmas/SegCheckSound.lean` proves that it implies the
hypothesis `SegOK` of the C03 / C16 theorems.
-/
namespace ITree
variable {V : Type} [DecidableEq V]

/-- inserted value: range, value, expiration -/
structure SegIns (V : Type) where
  lo : Int
  hi : Int
  val : V
  exp : Int
  deriving DecidableEq, Repr

def SegIns.ent (l : Layout) (v : SegIns V) : SegEnt V := ⟨v.val, v.exp, l.insertMask v.lo v.hi⟩

def keptSince (T : Option Int) (e : SegEnt V) : Bool :=
  match T with
  | none => true
  | some t0 => decide (t0 ≤ e.exp)

def segOKCheck (s : Seg V) (LV : List (SegIns V)) (T : Option Int) (lo hi : Int) : Bool :=
  let L := LV.map (SegIns.ent s.layout)
  (Layout.new lo hi == some s.layout) &&
  (s.chunks.length == s.layout.count) &&
  LV.all (fun v => decide (s.layout.min ≤ v.lo) && decide (v.lo ≤ v.hi) && decide (v.hi ≤ s.layout.max)) &&
  L.all (fun e => decide (e.mask < 2 ^ 63)) &&
  (List.range s.chunks.length).all (fun i =>
    let c := (s.chunks[i]?).getD []
    (L ++ c).all (fun e =>
      let want := if e.mask.testBit i then L.count e else 0
      decide (c.count e ≤ want) && (!keptSince T e || c.count e == want)))

end ITree
