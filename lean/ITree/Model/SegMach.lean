import ITree.Model.Seg
/-!
# Machine-integer transcription of `src/seg/bit.rs`, `src/seg/heap.rs`, `src/seg/layout.rs`

`Model/Seg.lean` computes with unbounded `Nat` / `Int`. This file transcribes the same Rust functions
with the fixed-width types the code uses and with the checks a debug build performs: an operation
whose mathematical result does not fit its type, a shift by at least the bit width, a subtraction below
zero of an unsigned type, `ilog2(0)` and a failing `debug_assert!` all give `none` (= the panic of the
debug build, = silent wrap-around in a release build). Bits shifted out at the top are dropped silently
(`<<` checks only the shift *amount*), `as` casts truncate / reinterpret without a check.

`Lemmas/SegMach.lean` proves that inside the contract none of these checks ever fires and the results
are those of the `Nat` model — so the theorems about `placeMask`, `visitMask`, `Layout` are theorems
about this transcription. The driver answers `masks`, `new` and `index` requests with *these* functions.
-/
namespace ITree.Mach

def two32 : Nat := 4294967296
def two64 : Nat := 18446744073709551616
def two63 : Nat := 9223372036854775808
def two31 : Nat := 2147483648

/-! ### checked primitives -/

def addU32 (a b : Nat) : Option Nat := if a + b < two32 then some (a + b) else none
def subU32 (a b : Nat) : Option Nat := if b ≤ a then some (a - b) else none
def addUsize (a b : Nat) : Option Nat := if a + b < two64 then some (a + b) else none
def subUsize (a b : Nat) : Option Nat := if b ≤ a then some (a - b) else none
def subU64 (a b : Nat) : Option Nat := if b ≤ a then some (a - b) else none
/-- `x << n` on `u64`: only the shift amount is checked, high bits are dropped -/
def shlU64 (x n : Nat) : Option Nat := if n < 64 then some ((x <<< n) % two64) else none
def shrU64 (x n : Nat) : Option Nat := if n < 64 then some (x >>> n) else none
/-- `i32` loop counters of the two mask loops (`shift`, `lt`, `rt`, `pt`) -/
def addI32 (a b : Int) : Option Int := if -(two31 : Int) ≤ a + b ∧ a + b < two31 then some (a + b) else none
def subI32 (a b : Int) : Option Int := if -(two31 : Int) ≤ a - b ∧ a - b < two31 then some (a - b) else none
/-- shift amount given as an `i32`: negative or `≥ 64` panics -/
def amount (n : Int) : Option Nat := if 0 ≤ n ∧ n < 64 then some n.toNat else none
def shrI32 (a : Int) (n : Nat) : Option Int := if n < 32 then some (a >>> n) else none
def addI64 (a b : Int) : Option Int := if -(two63 : Int) ≤ a + b ∧ a + b < two63 then some (a + b) else none
def subI64 (a b : Int) : Option Int := if -(two63 : Int) ≤ a - b ∧ a - b < two63 then some (a - b) else none
/-- arithmetic `>>` on `i64` by a `u32` amount -/
def shrI64 (a : Int) (n : Nat) : Option Int := if n < 64 then some (a >>> n) else none
/-- `as usize` / `as u32` of an `i64`: two's-complement reinterpretation / truncation, never a panic -/
def asUsize (a : Int) : Nat := (a % (two64 : Int)).toNat
def asU32 (a : Int) : Nat := (a % (two32 : Int)).toNat
/-- `usize::ilog2`, panics on 0 -/
def ilog2 (n : Nat) : Option Nat := if n = 0 then none else some (Nat.log2 n)
def dbgAssert (b : Bool) : Option Unit := if b then some () else none
def inI64 (a : Int) : Prop := -(two63 : Int) ≤ a ∧ a < two63

/-- `for _ in 0..n { body }` -/
def forN {σ : Type} : Nat → (σ → Option σ) → σ → Option σ
  | 0, _, s => some s
  | n+1, body, s => (body s).bind (forN n body)

/-! ### `bit.rs`, `heap.rs` -/

/-- `u64::fill(start, end)`: `((1u64 << (end - start + 1)) - 1) << start` on `u32` arguments -/
def fill (s e : Nat) : Option Nat := do
  let d ← subU32 e s
  let d1 ← addU32 d 1
  let one ← shlU64 1 d1
  let m ← subU64 one 1
  shlU64 m s

/-- `order_to_heap_index`: `order + SUB_CAPACITY` -/
def orderToHeapIndex (order : Nat) : Option Nat := addU32 order 31

def fillMask (s e : Nat) : Option Nat := do
  let i0 ← orderToHeapIndex s
  let i1 ← orderToHeapIndex e
  fill i0 i1

/-- loop state of `range_to_intersect_mask`: `w`, `shift`, `lt` -/
structure VisitSt where
  w : Nat
  shift : Int
  lt : Int

def visitInner (st : VisitSt) : Option VisitSt := do
  let rt ← addI32 st.lt 1
  let pt ← shrI32 st.lt 1
  let ltBit := (← shrU64 st.w (← amount st.lt)) &&& 1
  let rtBit := (← shrU64 st.w (← amount rt)) &&& 1
  let ptBit := ltBit ||| rtBit
  let w := st.w ||| (← shlU64 ptBit (← amount pt))
  let lt ← addI32 st.lt 2
  pure { st with w := w, lt := lt }

def visitOuter (st : VisitSt) : Option VisitSt := do
  let lt ← subI32 st.shift 1
  let shift ← shrI32 st.shift 1
  forN shift.toNat visitInner { st with shift := shift, lt := lt }

/-- `range_to_intersect_mask(start, end)` -/
def visitMask (s e : Nat) : Option Nat := do
  dbgAssert (s < 32)
  dbgAssert (e < 32)
  let w ← fillMask s e
  let st ← forN 6 visitOuter { w := w, shift := 32, lt := 0 }
  pure st.w

structure PlaceSt where
  w : Nat
  m : Nat
  shift : Int
  lt : Int

def placeInner (st : PlaceSt) : Option PlaceSt := do
  let rt ← addI32 st.lt 1
  let pt ← shrI32 st.lt 1
  let ltA ← amount st.lt
  let rtA ← amount rt
  let ltBit := (← shrU64 st.w ltA) &&& 1
  let rtBit := (← shrU64 st.w rtA) &&& 1
  let ptBit := ltBit &&& rtBit
  let w := st.w ||| (← shlU64 ptBit (← amount pt))
  let m := st.m ||| (← shlU64 (ltBit ^^^ ptBit) ltA)
  let m := m ||| (← shlU64 (rtBit ^^^ ptBit) rtA)
  let lt ← addI32 st.lt 2
  pure { st with w := w, m := m, lt := lt }

def placeOuter (st : PlaceSt) : Option PlaceSt := do
  let lt ← subI32 st.shift 1
  let shift ← shrI32 st.shift 1
  forN shift.toNat placeInner { st with shift := shift, lt := lt }

/-- `range_to_place_mask(start, end)` -/
def placeMask (s e : Nat) : Option Nat := do
  dbgAssert (s < 32)
  dbgAssert (e < 32)
  if (← subU32 e s) == 31 then return 1
  let w ← fillMask s e
  let st ← forN 6 placeOuter { w := w, m := 0, shift := 32, lt := 0 }
  pure st.m

/-- `BitIter`: `pos = value.trailing_zeros() as usize; value &= value - 1` until `value == 0` -/
def bitsAux : Nat → Nat → Option (List Nat)
  | 0, v => if v == 0 then some [] else none
  | fuel+1, v =>
    if v == 0 then some [] else do
      let pos := tz v
      let v1 ← subU64 v 1
      let rest ← bitsAux fuel (v &&& v1)
      pure (pos :: rest)
def bits (v : Nat) : Option (List Nat) := bitsAux 64 v

/-! ### `layout.rs` -/

/-- `Layout::new(start, end)`; outer `none` = panic (overflow), inner `none` = the function's `None` -/
def layoutNew (start «end» : Int) : Option (Option Layout) := do
  let min := start
  let max := «end»
  let d ← subI64 max min
  let d1 ← addI64 d 1
  let len := asUsize d1
  if len < 5 then return none
  let l1 ← subUsize len 1
  let p ← addU32 (← ilog2 l1) 1
  if p < 5 then return none
  let scale ← subU32 p 5
  pure (some { min := min, max := max, scale := scale })

/-- `Layout::index(value)`: `((value - self.min) >> self.scale) as u32` -/
def index (l : Layout) (value : Int) : Option Nat := do
  let d ← subI64 value l.min
  let q ← shrI64 d l.scale
  pure (asU32 q)

/-- `Layout::count()`: `order_to_heap_index(index(max)) as usize + 1` -/
def count (l : Layout) : Option Nat := do
  let order ← index l l.max
  let h ← orderToHeapIndex order
  addUsize h 1

def insertMask (l : Layout) (a b : Int) : Option Nat := do
  let s ← index l a
  let e ← index l b
  placeMask s e

def queryMask (l : Layout) (a b : Int) : Option Nat := do
  let s ← index l a
  let e ← index l b
  visitMask s e

end ITree.Mach
