/-!
# `SegExpTree` (`src/seg/*.rs`)

A 32-leaf implicit heap: 63 places (bit `n` of a `u64` mask = place `n`; 0 is the root, 31..62 the
leaves = buckets 0..31). Masks are `Nat`s; every shift amount is `< 64` and every value `< 2^63`
(proved in the `Props`), so `u64` arithmetic never wraps.
-/
namespace ITree

/-- `u64::fill(start, end)` -/
def fillBits (s e : Nat) : Nat := ((1 <<< (e - s + 1)) - 1) <<< s

/-- `range_to_fill_mask`: leaves `start..=end` -/
def fillMask (s e : Nat) : Nat := fillBits (s + 31) (e + 31)

/-- the values taken by `lt` in the two nested `for` loops, in execution order -/
def ltSeq : List Nat :=
  [16, 8, 4, 2, 1].flatMap fun sh => (List.range sh).map fun j => 2 * sh - 1 + 2 * j

def visitStep (w lt : Nat) : Nat :=
  let ltBit := (w >>> lt) &&& 1
  let rtBit := (w >>> (lt + 1)) &&& 1
  w ||| ((ltBit ||| rtBit) <<< (lt >>> 1))

/-- `range_to_intersect_mask`: every place whose leaf interval meets the range -/
def visitMask (s e : Nat) : Nat := ltSeq.foldl visitStep (fillMask s e)

def placeStep (wm : Nat × Nat) (lt : Nat) : Nat × Nat :=
  let w := wm.1
  let m := wm.2
  let ltBit := (w >>> lt) &&& 1
  let rtBit := (w >>> (lt + 1)) &&& 1
  let ptBit := ltBit &&& rtBit
  (w ||| (ptBit <<< (lt >>> 1)),
   (m ||| ((ltBit ^^^ ptBit) <<< lt)) ||| ((rtBit ^^^ ptBit) <<< (lt + 1)))

/-- `range_to_place_mask`: the maximal places inside the range -/
def placeMask (s e : Nat) : Nat :=
  if e - s == 31 then 1 else (ltSeq.foldl placeStep (fillMask s e, 0)).2

/-- `u64::trailing_zeros` -/
def tzAux : Nat → Nat → Nat → Nat
  | 0, _, i => i
  | fuel+1, n, i => if n % 2 == 1 then i else tzAux fuel (n / 2) (i + 1)
def tz (n : Nat) : Nat := if n == 0 then 64 else tzAux 64 n 0

/-- set bits in increasing order (`BitIter`) -/
def bitsAux : Nat → Nat → Nat → List Nat
  | 0, _, _ => []
  | fuel+1, n, i => if n == 0 then [] else
      if n % 2 == 1 then i :: bitsAux fuel (n / 2) (i + 1) else bitsAux fuel (n / 2) (i + 1)
def bits (n : Nat) : List Nat := bitsAux 64 n 0

structure Layout where
  min : Int
  max : Int
  scale : Nat
  deriving Repr, DecidableEq

/-- `Layout::new(start, end)`, for `start ≤ end` -/
def Layout.new (lo hi : Int) : Option Layout :=
  let len := (hi - lo + 1).toNat
  if len < 5 then none
  else
    let p := Nat.log2 (len - 1) + 1
    if p < 5 then none else some { min := lo, max := hi, scale := p - 5 }

def Layout.index (l : Layout) (x : Int) : Nat := ((x - l.min).toNat) >>> l.scale

def Layout.count (l : Layout) : Nat := l.index l.max + 31 + 1

structure SegEnt (V : Type) where
  val : V
  exp : Int
  mask : Nat
  deriving Repr, DecidableEq

structure Seg (V : Type) where
  layout : Layout
  chunks : List (List (SegEnt V))
  deriving Repr

variable {V : Type}

def Seg.new (lo hi : Int) : Option (Seg V) :=
  (Layout.new lo hi).map fun l => { layout := l, chunks := List.replicate l.count [] }

def Seg.clear (s : Seg V) : Seg V := { s with chunks := s.chunks.map fun _ => [] }

def Layout.insertMask (l : Layout) (a b : Int) : Nat := placeMask (l.index a) (l.index b)
def Layout.queryMask (l : Layout) (a b : Int) : Nat := visitMask (l.index a) (l.index b)

/-- push onto chunk `i`; `none` if the place is not backed by storage (out-of-bounds write) -/
def pushAt (chunks : List (List (SegEnt V))) (i : Nat) (e : SegEnt V) : Option (List (List (SegEnt V))) :=
  match chunks[i]? with
  | none => none
  | some c => some (chunks.set i (c ++ [e]))

def Seg.insert (s : Seg V) (a b : Int) (val : V) (exp : Int) : Option (Seg V) :=
  let mask := s.layout.insertMask a b
  let e : SegEnt V := ⟨val, exp, mask⟩
  ((bits mask).foldlM (fun cs i => pushAt cs i e) s.chunks).map fun cs => { s with chunks := cs }

/-- `Vec::swap_remove(i)` for `i < len` -/
def swapRemove (l : List (SegEnt V)) (i : Nat) : List (SegEnt V) :=
  match l.getLast? with
  | none => l
  | some last => if i + 1 == l.length then l.dropLast else (l.set i last).dropLast

/-- iterator state; `i0 = none` is `usize::MAX` -/
structure SegIt where
  i0 : Option Nat
  i1 : Nat
  /-- bits not yet taken from `bit_iter` -/
  rest : List Nat
  mask : Nat
  time : Int
  deriving Repr, DecidableEq

/-- `find_next_not_empty_chunk`; outer `none`: a bit designates a place without storage -/
def findNext (chunks : List (List (SegEnt V))) : List Nat → Option (Option Nat × List Nat)
  | [] => some (none, [])
  | b :: bs =>
    match chunks[b]? with
    | none => none
    | some c => if c.isEmpty then findNext chunks bs else some (some b, bs)

def Seg.iter (s : Seg V) (a b : Int) (time : Int) : Option SegIt :=
  let mask := s.layout.queryMask a b
  (findNext s.chunks (bits mask)).map fun (i0, rest) => { i0, i1 := 0, rest, mask, time }

/-- the inner `while i < chunk.buffer.len()` loop over one chunk: returns the chunk after the scan,
and either the reported value with the new `i1`, or `none` when the chunk is exhausted -/
def scanChunk (time : Int) (qmask : Nat) (i0 : Nat) :
    Nat → List (SegEnt V) → Nat → List (SegEnt V) × Option (V × Nat)
  | 0, c, _ => (c, none)
  | fuel+1, c, i =>
    match c[i]? with
    | none => (c, none)
    | some item =>
      if item.exp < time then scanChunk time qmask i0 fuel (swapRemove c i) i
      else if tz (item.mask &&& qmask) == i0 then (c, some (item.val, i + 1))
      else scanChunk time qmask i0 fuel c (i + 1)

/-- `Iterator::next`; outer `none`: fault -/
def segNext : Nat → Seg V → SegIt → Option (Seg V × SegIt × Option V)
  | 0, _, _ => none
  | fuel+1, s, it =>
    match it.i0 with
    | none => some (s, it, none)
    | some i0 =>
      match s.chunks[i0]? with
      | none => some (s, it, none)          -- `i0 < chunks.len()` fails only for `usize::MAX`
      | some c =>
        let (c', r) := scanChunk it.time it.mask i0 (2 * c.length + 1) c it.i1
        let s' := { s with chunks := s.chunks.set i0 c' }
        match r with
        | some (v, i1) => some (s', { it with i1 := i1 }, some v)
        | none =>
          match findNext s'.chunks it.rest with
          | none => none
          | some (n, rest) => segNext fuel s' { it with i0 := n, i1 := 0, rest := rest }

/-- take up to `n` items (`none` = run to exhaustion with the given fuel bound) -/
def segTake : Nat → Seg V → SegIt → List V → Option (Seg V × SegIt × List V)
  | 0, s, it, acc => some (s, it, acc.reverse)
  | n+1, s, it, acc =>
    match segNext 64 s it with
    | none => none
    | some (s', it', none) => some (s', it', acc.reverse)
    | some (s', it', some v) => segTake n s' it' (v :: acc)

end ITree
