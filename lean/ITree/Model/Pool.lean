/-!
# The slot pool (`src/*/pool.rs`)

`buffer` is represented by its length only, `unused` by the list of free slots (head = top of the
stack, i.e. the *last* element of the Rust `Vec`), `cap` is `unused.capacity()`, which the Rust code
uses as the growth increment of the arena. `Vec`'s growth policy is a modelled assumption:
`with_capacity(n)` gives exactly `n`; `push` on a full vector gives `max(2*cap, 4)`;
`reserve(n)` with `len == 0` and `cap ≥ n` is a no-op.
-/
namespace ITree

structure Pool where
  bufLen : Nat
  unused : List Nat
  cap : Nat
  deriving Repr, DecidableEq, Inhabited

/-- `Pool::new(capacity)` followed by the `get_free_index()` that reserves slot 0 for NIL. -/
def Pool.new (c : Nat) : Pool :=
  let n := max c 8
  { bufLen := n, unused := (List.range n).drop 1, cap := n }

/-- `get_free_index` -/
def Pool.alloc (p : Pool) : Nat × Pool :=
  match p.unused with
  | x :: xs => (x, { p with unused := xs })
  | [] =>
    let n0 := p.bufLen
    let l := p.cap
    (n0, { bufLen := n0 + l, unused := ((List.range l).drop 1).map (· + n0), cap := p.cap })

/-- `put_back` -/
def Pool.free (p : Pool) (i : Nat) : Pool :=
  { p with unused := i :: p.unused,
           cap := if p.unused.length == p.cap then max (2 * p.cap) 4 else p.cap }

def Pool.freeAll (p : Pool) (l : List Nat) : Pool := l.foldl Pool.free p

end ITree
