import ITree.Model.Map
/-!
# `KeyExpTree` (`src/key/tree.rs`, `src/key/array.rs`)

Third copy of the red-black algorithm. Every descent goes through `expire_root` / `expire_left` /
`expire_right`, which physically delete expired nodes met on the path. In the zipper model the
subtree still to be searched is the focus; `expireFocus` deletes the focus root while it is expired.

Every operation also produces the list of user callbacks it makes (`Ev`, most recent first):
`exp` = `ExpiredKey::expiration` on a stored key, `cmp` = `Ord::cmp` / comparator closure on a stored
key. Each event records the state of the whole collection at the moment of the call
(`plug ctx focus`, `pool`), which is what a caller sees if that callback panics.

Loops take fuel; `none` is a fault (fuel exhausted = would not terminate, or an `EMPTY_REF`
dereference in the delete repair).
-/
namespace ITree

inductive CbKind where
  | cmp | exp
  deriving DecidableEq, Repr

structure Ev (V : Type) where
  kind : CbKind
  ent : Ent V
  ctx : Ctx (Ent V)
  focus : T (Ent V)
  pool : Pool

variable {V : Type}

def Ev.tree (ev : Ev V) : T (Ent V) := plug ev.ctx ev.focus

/-- `expire_root` / `expire_left` / `expire_right`: while the root of the focus is expired
(`!(expiration > time)`), `delete_index` it. -/
def expireFocus (time : Int) : Nat → Ctx (Ent V) → T (Ent V) → Pool → List (Ev V) →
    Option (Ctx (Ent V) × T (Ent V) × Pool × List (Ev V))
  | 0, _, _, _, _ => none
  | fuel+1, k, t, p, tr =>
    match t with
    | .leaf => some (k, t, p, tr)
    | .node _ _ _ e _ =>
      let tr := ⟨.exp, e, k, t, p⟩ :: tr
      if time < e.exp then some (k, t, p, tr)
      else match deleteFocus k t with
        | none => none
        | some (k', t', freed) => expireFocus time fuel k' t' (p.free freed) tr

inductive Mode where
  | fl    -- `first_less`
  | fle   -- `first_less_or_equal`, `first_less_or_equal_by`
  | get   -- `get_value`
  deriving DecidableEq, Repr

/-- the three searches. `f stored_key` is the ordering of the stored key relative to the probe. -/
def search (mode : Mode) (time : Int) (f : Int → Ordering) :
    Nat → Ctx (Ent V) → T (Ent V) → Pool → Option V → List (Ev V) →
    Option (T (Ent V) × Pool × Option V × List (Ev V))
  | 0, _, _, _, _, _ => none
  | fuel+1, k, t, p, res, tr =>
    match t with
    | .leaf => some (plug k t, p, res, tr)
    | .node c l s e r =>
      let tr := ⟨.cmp, e, k, t, p⟩ :: tr
      let goL : Unit → Option (T (Ent V) × Pool × Option V × List (Ev V)) := fun _ =>
        match expireFocus time (l.size + 1) (⟨c, s, e, r, .L⟩ :: k) l p tr with
        | none => none
        | some (k', t', p', tr') => search mode time f fuel k' t' p' res tr'
      let goR : Option V → Option (T (Ent V) × Pool × Option V × List (Ev V)) := fun res' =>
        match expireFocus time (r.size + 1) (⟨c, s, e, l, .R⟩ :: k) r p tr with
        | none => none
        | some (k', t', p', tr') => search mode time f fuel k' t' p' res' tr'
      match f e.key with
      | .eq =>
        match mode with
        | .fl => goL ()
        | _ => some (plug k t, p, some e.val, tr)
      | .lt => goR (match mode with | .get => res | _ => some e.val)
      | .gt => goL ()

def St.kQuery (st : St V) (mode : Mode) (time : Int) (f : Int → Ordering) :
    Option (St V × Option V × List (Ev V)) :=
  match expireFocus time (st.tree.size + 1) [] st.tree st.pool [] with
  | none => none
  | some (k, t, p, tr) =>
    match search mode time f (t.size + 1) k t p none tr with
    | none => none
    | some (t', p', r, tr') => some ({ tree := t', pool := p' }, r, tr')

/-- descent of `insert_entity` -/
def insDescend (time : Int) (e : Ent V) :
    Nat → Ctx (Ent V) → T (Ent V) → Pool → List (Ev V) → Option (T (Ent V) × Pool × List (Ev V))
  | 0, _, _, _, _ => none
  | fuel+1, k, t, p, tr =>
    match t with
    | .leaf =>
      let (slot, p') := p.alloc
      some (linkNew k slot e, p', tr)
    | .node c l s x r =>
      let tr := ⟨.cmp, x, k, t, p⟩ :: tr
      if e.key < x.key then
        match expireFocus time (l.size + 1) (⟨c, s, x, r, .L⟩ :: k) l p tr with
        | none => none
        | some (k', t', p', tr') => insDescend time e fuel k' t' p' tr'
      else
        match expireFocus time (r.size + 1) (⟨c, s, x, l, .R⟩ :: k) r p tr with
        | none => none
        | some (k', t', p', tr') => insDescend time e fuel k' t' p' tr'

/-- `insert(key, val, time)`. The first event is the `debug_assert!(key.expiration() >= time)`
of debug builds (the build the correspondence check runs). -/
def St.kInsert (st : St V) (e : Ent V) (time : Int) : Option (St V × List (Ev V)) :=
  match expireFocus time (st.tree.size + 1) [] st.tree st.pool [⟨.exp, e, [], st.tree, st.pool⟩] with
  | none => none
  | some (k, t, p, tr) =>
    match insDescend time e (t.size + 1) k t p tr with
    | none => none
    | some (t', p', tr') => some ({ tree := t', pool := p' }, tr')

/-- `expire_all`, one slot: `while is_part_of_the_tree(i) && expiration(i) <= time { delete_index(i) }` -/
def expireSlot (time : Int) (slot : Nat) :
    Nat → T (Ent V) → Pool → List (Ev V) → Option (T (Ent V) × Pool × List (Ev V))
  | 0, _, _, _ => none
  | fuel+1, t, p, tr =>
    match findSlot slot [] t with
    | none => some (t, p, tr)
    | some (k, f) =>
      match f with
      | .leaf => some (t, p, tr)
      | .node _ _ _ e _ =>
        let tr := ⟨.exp, e, k, f, p⟩ :: tr
        if time < e.exp then some (t, p, tr)
        else match deleteFocus k f with
          | none => none
          | some (k', f', freed) => expireSlot time slot fuel (plug k' f') (p.free freed) tr

def expireAll (time : Int) : List Nat → T (Ent V) → Pool → List (Ev V) →
    Option (T (Ent V) × Pool × List (Ev V))
  | [], t, p, tr => some (t, p, tr)
  | i :: is, t, p, tr =>
    match expireSlot time i (t.size + 1) t p tr with
    | none => none
    | some (t', p', tr') => expireAll time is t' p' tr'

/-- `create_ordered_list(time)` (the body of `into_ordered_vec`): purged state, exported values,
and the capacity requested for the result vector. -/
def St.kExport (st : St V) (time : Int) : Option (St V × List V × Nat × List (Ev V)) :=
  match expireAll time ((List.range st.pool.bufLen).drop 1) st.tree st.pool [] with
  | none => none
  | some (t, p, tr) =>
    some ({ tree := t, pool := p }, t.toList.map (·.2.val), p.bufLen - p.unused.length - 1, tr)

end ITree
