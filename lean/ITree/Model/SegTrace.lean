import ITree.Model.Seg
/-!
# Segment-tree query with its user callbacks (C18)

The only user code a query runs is `ExpiredVal::expiration()` of a stored copy, once per copy examined
(`item.val.expiration() < self.time` in `SegExpTreeIterator::next`). The functions below are `scanChunk`,
`segNext`, `segTake` of `Model/Seg.lean` instrumented: before each such call the whole tree as it is at that
moment — with the `swap_remove`s already performed in the current bucket list — is recorded (most recent
first). That is the tree the caller keeps if the accessor panics there.
-/
namespace ITree
variable {V : Type}

def scanChunkT (s : Seg V) (time : Int) (qmask : Nat) (i0 : Nat) :
    Nat → List (SegEnt V) → Nat → List (Seg V) → List (SegEnt V) × Option (V × Nat) × List (Seg V)
  | 0, c, _, tr => (c, none, tr)
  | fuel+1, c, i, tr =>
    match c[i]? with
    | none => (c, none, tr)
    | some item =>
      let tr := { s with chunks := s.chunks.set i0 c } :: tr
      if item.exp < time then scanChunkT s time qmask i0 fuel (swapRemove c i) i tr
      else if tz (item.mask &&& qmask) == i0 then (c, some (item.val, i + 1), tr)
      else scanChunkT s time qmask i0 fuel c (i + 1) tr

def segNextT : Nat → Seg V → SegIt → List (Seg V) → Option (Seg V × SegIt × Option V × List (Seg V))
  | 0, _, _, _ => none
  | fuel+1, s, it, tr =>
    match it.i0 with
    | none => some (s, it, none, tr)
    | some i0 =>
      match s.chunks[i0]? with
      | none => some (s, it, none, tr)
      | some c =>
        let r := scanChunkT s it.time it.mask i0 (2 * c.length + 1) c it.i1 tr
        let s' := { s with chunks := s.chunks.set i0 r.1 }
        match r.2.1 with
        | some (v, i1) => some (s', { it with i1 := i1 }, some v, r.2.2)
        | none =>
          match findNext s'.chunks it.rest with
          | none => none
          | some (n, rest) => segNextT fuel s' { it with i0 := n, i1 := 0, rest := rest } r.2.2

def segTakeT : Nat → Seg V → SegIt → List V → List (Seg V) → Option (Seg V × SegIt × List V × List (Seg V))
  | 0, s, it, acc, tr => some (s, it, acc.reverse, tr)
  | n+1, s, it, acc, tr =>
    match segNextT 64 s it tr with
    | none => none
    | some (s', it', none, tr') => some (s', it', acc.reverse, tr')
    | some (s', it', some v, tr') => segTakeT n s' it' (v :: acc) tr'

/-- a query over `[a, b]` at time `t` consumed up to `n` items: final tree, items, and the tree at every
`expiration()` call -/
def Seg.queryT (s : Seg V) (a b : Int) (t : Int) (n : Nat) : Option (Seg V × List V × List (Seg V)) :=
  match s.iter a b t with
  | none => none
  | some it => (segTakeT n s it [] []).map fun x => (x.1, x.2.2.1, x.2.2.2)

end ITree
