import ITree.Model.Tree
import ITree.Model.Pool
import ITree.Model.Map
import ITree.Model.KeyExp
import ITree.Model.Lists
import ITree.Model.Seg
