//! The seven real collections behind one text-operation interface.
use crate::keys::*;
use crate::snap::{abs, raw, structure_oracle, Abs};
use i_tree::key::array::IntoArray;
use i_tree::key::exp::KeyExpCollection;
use i_tree::key::list::KeyExpList;
use i_tree::key::tree::KeyExpTree;
use i_tree::map::list::MapList;
use i_tree::map::sort::MapCollection;
use i_tree::map::tree::MapTree;
use i_tree::seg::exp::{SegExpCollection, SegRange};
use i_tree::seg::tree::SegExpTree;
use i_tree::set::list::SetList;
use i_tree::set::sort::SetCollection;
use i_tree::set::tree::SetTree;
use i_tree::EMPTY_REF;

#[derive(Clone, Debug, PartialEq, Eq, Hash)]
pub struct Op {
    pub name: String,
    pub a: Vec<i64>,
}
impl Op {
    pub fn new(name: &str, a: &[i64]) -> Self {
        Op { name: name.to_string(), a: a.to_vec() }
    }
    pub fn parse(s: &str) -> Option<Op> {
        let mut it = s.split_whitespace();
        let name = it.next()?.to_string();
        let mut a = Vec::new();
        for t in it {
            a.push(t.parse().ok()?);
        }
        Some(Op { name, a })
    }
    pub fn text(&self) -> String {
        let mut s = self.name.clone();
        for x in &self.a {
            s.push(' ');
            s.push_str(&x.to_string());
        }
        s
    }
}

pub fn h2s(h: u32) -> String {
    if h == EMPTY_REF { "none".into() } else { h.to_string() }
}
fn opt2s(v: Option<i64>) -> String {
    match v { Some(v) => v.to_string(), None => "none".into() }
}
fn ints(v: &[i64]) -> String {
    format!("[{}]", v.iter().map(|x| x.to_string()).collect::<Vec<_>>().join(","))
}
/// default handed to the predecessor queries of the expiring collections; never used as a value
pub const DEFAULT_VAL: i64 = -777;
fn def2s(v: i64) -> String {
    if v == DEFAULT_VAL { "none".into() } else { v.to_string() }
}

pub trait Coll {
    fn coll(&self) -> &'static str;
    /// run one operation on the real collection; the canonical output string
    fn apply(&mut self, op: &Op) -> String;
    /// canonical abstract state (`Err` = abstraction failed: links / slots inconsistent)
    fn state(&self) -> Result<String, String>;
    /// in-order `(handle, key, exp, val)`: slots for the trees, positions for the lists
    fn entries(&self) -> Result<Vec<(u32, i64, i64, i64)>, String> {
        self.abs().expect("tree").map(|a| a.inorder)
    }
    /// raw arena contents (trees only) and the default entity of never used slots
    fn raw(&self) -> Option<String> { None }
    fn dflt(&self) -> String { "D 0 0 0".into() }
    /// slot-partition failure of an arena-backed tree (the state string is still printed)
    fn abs_note(&self) -> Option<String> { None }
    /// arena-backed trees only
    fn abs(&self) -> Option<Result<Abs, String>> { None }
    fn structure(&self) -> Option<Result<(usize, usize), String>> { None }
    /// expiring tree only: what `height()` reserves for the export's traversal stack
    fn stack_capacity(&self) -> Option<usize> { None }
}

// ---------------------------------------------------------------------------------------------
pub struct MapC<V: Val>(pub MapTree<IK, V>);
impl<V: Val> Coll for MapC<V> {
    fn coll(&self) -> &'static str { "map" }
    fn apply(&mut self, op: &Op) -> String {
        let a = &op.a;
        match op.name.as_str() {
            "insert" => { self.0.insert(IK::fresh_probe(a[0] as i32, 0), V::from_i64(a[1])); "ok".into() }
            "delete" => { self.0.delete(IK::probe(a[0] as i32)); "ok".into() }
            "delidx" => { self.0.delete_by_index(a[0] as u32); "ok".into() }
            "get" => opt2s(self.0.get_value(IK::probe(a[0] as i32)).map(|v| v.to_i64())),
            "validx" => self.0.value_by_index(a[0] as u32).to_i64().to_string(),
            "setidx" => { *self.0.value_by_index_mut(a[0] as u32) = V::from_i64(a[1]); "ok".into() }
            "fil" => h2s(self.0.first_index_less(IK::probe(a[0] as i32))),
            "filby" => h2s(self.0.first_index_less_by(cmp_q(a[0]))),
            "clear" => { self.0.clear(); "ok".into() }
            "isempty" => self.0.is_empty().to_string(),
            _ => panic!("bad op {:?}", op),
        }
    }
    fn state(&self) -> Result<String, String> { self.abs().unwrap().map(|a| a.state) }
    fn abs_note(&self) -> Option<String> { self.abs().unwrap().ok().and_then(|a| a.links_err.or(a.slots_err)) }
    fn abs(&self) -> Option<Result<Abs, String>> {
        Some(abs(&self.0.verif_snapshot(), &|e: &(IK, V)| (e.0.k as i64, 0, e.1.to_i64())))
    }
    fn structure(&self) -> Option<Result<(usize, usize), String>> {
        Some(structure_oracle(&self.0.verif_snapshot(), &|e: &(IK, V)| e.0.k as i64))
    }
    fn raw(&self) -> Option<String> { Some(raw(&self.0.verif_snapshot(), &|e: &(IK, V)| (e.0.k as i64, 0, e.1.to_i64()))) }
    fn dflt(&self) -> String { format!("D 0 0 {}", V::default().to_i64()) }
}

pub struct SetC<P: Val>(pub SetTree<IK, SV<P>>);
impl<P: Val> Coll for SetC<P> {
    fn coll(&self) -> &'static str { "set" }
    fn apply(&mut self, op: &Op) -> String {
        let a = &op.a;
        match op.name.as_str() {
            "insert" => { self.0.insert(SV { key: IK::fresh_probe(a[0] as i32, 0), payload: P::from_i64(a[1]) }); "ok".into() }
            "delete" => { self.0.delete(&IK::probe(a[0] as i32)); "ok".into() }
            "delidx" => { self.0.delete_by_index(a[0] as u32); "ok".into() }
            "get" => opt2s(self.0.get_value(&IK::probe(a[0] as i32)).map(|v| v.payload.to_i64())),
            "validx" => self.0.value_by_index(a[0] as u32).payload.to_i64().to_string(),
            "setidx" => { self.0.value_by_index_mut(a[0] as u32).payload = P::from_i64(a[1]); "ok".into() }
            "fil" => h2s(self.0.first_index_less(&IK::probe(a[0] as i32))),
            "filby" => h2s(self.0.first_index_less_by(cmp_q_ref(a[0]))),
            "after" => h2s(self.0.index_after(a[0] as u32)),
            "before" => h2s(self.0.index_before(a[0] as u32)),
            "clear" => { self.0.clear(); "ok".into() }
            "isempty" => self.0.is_empty().to_string(),
            _ => panic!("bad op {:?}", op),
        }
    }
    fn state(&self) -> Result<String, String> { self.abs().unwrap().map(|a| a.state) }
    fn abs_note(&self) -> Option<String> { self.abs().unwrap().ok().and_then(|a| a.links_err.or(a.slots_err)) }
    fn abs(&self) -> Option<Result<Abs, String>> {
        Some(abs(&self.0.verif_snapshot(), &|e: &SV<P>| (e.key.k as i64, 0, e.payload.to_i64())))
    }
    fn structure(&self) -> Option<Result<(usize, usize), String>> {
        Some(structure_oracle(&self.0.verif_snapshot(), &|e: &SV<P>| e.key.k as i64))
    }
    fn raw(&self) -> Option<String> { Some(raw(&self.0.verif_snapshot(), &|e: &SV<P>| (e.key.k as i64, 0, e.payload.to_i64()))) }
    fn dflt(&self) -> String { format!("D 0 0 {}", P::default().to_i64()) }
}

pub struct KeyC(pub KeyExpTree<IK, i32, i64>);
impl Coll for KeyC {
    fn coll(&self) -> &'static str { "key" }
    fn apply(&mut self, op: &Op) -> String {
        let a = &op.a;
        match op.name.as_str() {
            // insert k exp v t
            "insert" => { self.0.insert(IK::fresh_probe(a[0] as i32, a[1] as i32), a[2], a[3] as i32); "ok".into() }
            "fl" => def2s(self.0.first_less(a[0] as i32, DEFAULT_VAL, IK::probe(a[1] as i32))),
            "fle" => def2s(self.0.first_less_or_equal(a[0] as i32, DEFAULT_VAL, IK::probe(a[1] as i32))),
            "fleby" => def2s(self.0.first_less_or_equal_by(a[0] as i32, DEFAULT_VAL, cmp_q(a[1]))),
            "get" => opt2s(self.0.get_value(a[0] as i32, IK::probe(a[1] as i32))),
            "export" => { let (v, cap) = self.0.verif_export(a[0] as i32); format!("{} cap={}", ints(&v), cap) }
            // the public, consuming `into_ordered_vec` itself (the history ends here: a new tree takes its place)
            "consume" => {
                let old = std::mem::replace(&mut self.0, KeyExpTree::new(8));
                let v = old.into_ordered_vec(a[0] as i32);
                format!("{} cap={}", ints(&v), v.capacity())
            }
            "clear" => { self.0.clear(); "ok".into() }
            "isempty" => self.0.is_empty().to_string(),
            _ => panic!("bad op {:?}", op),
        }
    }
    fn state(&self) -> Result<String, String> { self.abs().unwrap().map(|a| a.state) }
    fn stack_capacity(&self) -> Option<usize> { Some(self.0.verif_stack_capacity()) }
    fn abs_note(&self) -> Option<String> { self.abs().unwrap().ok().and_then(|a| a.links_err.or(a.slots_err)) }
    fn abs(&self) -> Option<Result<Abs, String>> {
        Some(abs(&self.0.verif_snapshot(), &|e: &(IK, i64)| (e.0.k as i64, e.0.exp as i64, e.1)))
    }
    fn structure(&self) -> Option<Result<(usize, usize), String>> {
        Some(structure_oracle(&self.0.verif_snapshot(), &|e: &(IK, i64)| e.0.k as i64))
    }
    fn raw(&self) -> Option<String> { Some(raw(&self.0.verif_snapshot(), &|e: &(IK, i64)| (e.0.k as i64, e.0.exp as i64, e.1))) }
}

// ---------------------------------------------------------------------------------------------
fn list_state(ents: &[(i64, i64, i64)]) -> String {
    let mut s = format!("L {}", ents.len());
    for e in ents { s.push_str(&format!(" {} {} {}", e.0, e.1, e.2)); }
    s
}

pub struct MapListC<V: Val>(pub MapList<IK, V>);
impl<V: Val> Coll for MapListC<V> {
    fn coll(&self) -> &'static str { "mlist" }
    fn apply(&mut self, op: &Op) -> String {
        let a = &op.a;
        match op.name.as_str() {
            "insert" => { self.0.insert(IK::fresh_probe(a[0] as i32, 0), V::from_i64(a[1])); "ok".into() }
            "delete" => { self.0.delete(IK::probe(a[0] as i32)); "ok".into() }
            "delidx" => { self.0.delete_by_index(a[0] as u32); "ok".into() }
            "get" => opt2s(self.0.get_value(IK::probe(a[0] as i32)).map(|v| v.to_i64())),
            "validx" => self.0.value_by_index(a[0] as u32).to_i64().to_string(),
            "setidx" => { *self.0.value_by_index_mut(a[0] as u32) = V::from_i64(a[1]); "ok".into() }
            "fil" => h2s(self.0.first_index_less(IK::probe(a[0] as i32))),
            "filby" => h2s(self.0.first_index_less_by(cmp_q(a[0]))),
            "clear" => { self.0.clear(); "ok".into() }
            "isempty" => self.0.is_empty().to_string(),
            _ => panic!("bad op {:?}", op),
        }
    }
    fn state(&self) -> Result<String, String> {
        Ok(list_state(&self.0.verif_state().iter().map(|e| (e.0.k as i64, 0, e.1.to_i64())).collect::<Vec<_>>()))
    }
    fn entries(&self) -> Result<Vec<(u32, i64, i64, i64)>, String> {
        Ok(self.0.verif_state().iter().enumerate().map(|(i, e)| (i as u32, e.0.k as i64, 0, e.1.to_i64())).collect())
    }
}

pub struct SetListC<P: Val>(pub SetList<SV<P>>);
impl<P: Val> Coll for SetListC<P> {
    fn coll(&self) -> &'static str { "slist" }
    fn apply(&mut self, op: &Op) -> String {
        let a = &op.a;
        let l: &mut dyn SetCollectionDyn<P> = &mut self.0;
        l.apply_dyn(op.name.as_str(), a)
    }
    fn state(&self) -> Result<String, String> {
        Ok(list_state(&self.0.verif_state().iter().map(|e| (e.key.k as i64, 0, e.payload.to_i64())).collect::<Vec<_>>()))
    }
    fn entries(&self) -> Result<Vec<(u32, i64, i64, i64)>, String> {
        Ok(self.0.verif_state().iter().enumerate().map(|(i, e)| (i as u32, e.key.k as i64, 0, e.payload.to_i64())).collect())
    }
}
// helper so that the `K` type parameter of `SetCollection<K, V>` is pinned to `IK`
trait SetCollectionDyn<P: Val> { fn apply_dyn(&mut self, name: &str, a: &[i64]) -> String; }
impl<P: Val> SetCollectionDyn<P> for SetList<SV<P>> {
    fn apply_dyn(&mut self, name: &str, a: &[i64]) -> String {
        match name {
            "insert" => { SetCollection::<IK, SV<P>>::insert(self, SV { key: IK::fresh_probe(a[0] as i32, 0), payload: P::from_i64(a[1]) }); "ok".into() }
            "delete" => { SetCollection::<IK, SV<P>>::delete(self, &IK::probe(a[0] as i32)); "ok".into() }
            "delidx" => { SetCollection::<IK, SV<P>>::delete_by_index(self, a[0] as u32); "ok".into() }
            "get" => opt2s(SetCollection::<IK, SV<P>>::get_value(self, &IK::probe(a[0] as i32)).map(|v| v.payload.to_i64())),
            "validx" => SetCollection::<IK, SV<P>>::value_by_index(self, a[0] as u32).payload.to_i64().to_string(),
            "setidx" => { SetCollection::<IK, SV<P>>::value_by_index_mut(self, a[0] as u32).payload = P::from_i64(a[1]); "ok".into() }
            "fil" => h2s(SetCollection::<IK, SV<P>>::first_index_less(self, &IK::probe(a[0] as i32))),
            "filby" => h2s(SetCollection::<IK, SV<P>>::first_index_less_by(self, cmp_q_ref(a[0]))),
            "after" => h2s(SetCollection::<IK, SV<P>>::index_after(self, a[0] as u32)),
            "before" => h2s(SetCollection::<IK, SV<P>>::index_before(self, a[0] as u32)),
            "clear" => { SetCollection::<IK, SV<P>>::clear(self); "ok".into() }
            "isempty" => SetCollection::<IK, SV<P>>::is_empty(self).to_string(),
            _ => panic!("bad op {}", name),
        }
    }
}

pub struct KeyListC(pub Option<KeyExpList<IK, i32, i64>>);
impl Coll for KeyListC {
    fn coll(&self) -> &'static str { "klist" }
    fn apply(&mut self, op: &Op) -> String {
        let a = &op.a;
        if op.name == "export" {
            // consuming: the history ends here for the list
            let l = self.0.take().expect("list already consumed");
            let v = l.into_ordered_vec(a[0] as i32);
            return format!("{} cap={}", ints(&v), v.capacity());
        }
        let l = self.0.as_mut().expect("list already consumed");
        match op.name.as_str() {
            "insert" => { l.insert(IK::fresh_probe(a[0] as i32, a[1] as i32), a[2], a[3] as i32); "ok".into() }
            "fl" => def2s(l.first_less(a[0] as i32, DEFAULT_VAL, IK::probe(a[1] as i32))),
            "fle" => def2s(l.first_less_or_equal(a[0] as i32, DEFAULT_VAL, IK::probe(a[1] as i32))),
            "fleby" => def2s(l.first_less_or_equal_by(a[0] as i32, DEFAULT_VAL, cmp_q(a[1]))),
            "get" => opt2s(l.get_value(a[0] as i32, IK::probe(a[1] as i32))),
            "clear" => { l.clear(); "ok".into() }
            "isempty" => l.is_empty().to_string(),
            _ => panic!("bad op {:?}", op),
        }
    }
    fn state(&self) -> Result<String, String> {
        match &self.0 {
            None => Ok("-".into()),
            Some(l) => {
                let (ents, min_exp) = l.verif_state();
                let mut s = format!("K {} {} {}", min_exp, i32::MAX, ents.len());
                for e in &ents { s.push_str(&format!(" {} {} {}", e.0.k, e.0.exp, e.1)); }
                Ok(s)
            }
        }
    }
    fn entries(&self) -> Result<Vec<(u32, i64, i64, i64)>, String> {
        match &self.0 {
            None => Ok(vec![]),
            Some(l) => Ok(l.verif_state().0.iter().enumerate().map(|(i, e)| (i as u32, e.0.k as i64, e.0.exp as i64, e.1)).collect()),
        }
    }
}

// ---------------------------------------------------------------------------------------------
pub struct SegC(pub SegExpTree<i64, i32, SegV>);
impl SegC {
    pub fn new(lo: i64, hi: i64) -> Option<Self> {
        SegExpTree::new(SegRange { min: lo, max: hi }).map(SegC)
    }
}
impl Coll for SegC {
    fn coll(&self) -> &'static str { "seg" }
    fn apply(&mut self, op: &Op) -> String {
        let a = &op.a;
        match op.name.as_str() {
            // insert a b val exp
            "insert" => { self.0.insert_by_range(SegRange { min: a[0], max: a[1] }, SegV { id: a[2], exp: a[3] as i32 }); "ok".into() }
            // query a b time take(-1 = all)
            "query" => {
                let mut out = Vec::new();
                let it = self.0.iter_by_range(SegRange { min: a[0], max: a[1] }, a[2] as i32);
                if a[3] < 0 { for v in it { out.push(v.id); } } else { for v in it.take(a[3] as usize) { out.push(v.id); } }
                ints(&out)
            }
            "index" => self.0.verif_index(a[0]).to_string(),
            "clear" => { self.0.clear(); "ok".into() }
            _ => panic!("bad op {:?}", op),
        }
    }
    fn state(&self) -> Result<String, String> {
        let (min, max, scale, count) = self.0.verif_layout();
        let chunks = self.0.verif_chunks();
        if chunks.len() != count { return Err(format!("chunks.len() {} != layout.count() {}", chunks.len(), count)); }
        let mut s = format!("S {} {} {} {}", min, max, scale, count);
        for c in &chunks {
            s.push_str(&format!(" {}", c.len()));
            for (v, m) in c { s.push_str(&format!(" {} {} {}", v.id, v.exp, m)); }
        }
        Ok(s)
    }
    fn entries(&self) -> Result<Vec<(u32, i64, i64, i64)>, String> { Ok(vec![]) }
}

/// factory: a fresh real collection of the named kind. `variant` selects the payload type.
pub fn make(coll: &str, cap: usize, variant: u32) -> Box<dyn Coll> {
    match (coll, variant % 2) {
        ("map", 0) => Box::new(MapC::<String>(MapTree::new(cap))),
        ("map", _) => Box::new(MapC::<i64>(MapTree::new(cap))),
        ("set", 0) => Box::new(SetC::<String>(SetTree::new(cap))),
        ("set", _) => Box::new(SetC::<i64>(SetTree::new(cap))),
        ("key", _) => Box::new(KeyC(KeyExpTree::new(cap))),
        ("mlist", 0) => Box::new(MapListC::<String>(MapList::new(cap))),
        ("mlist", _) => Box::new(MapListC::<i64>(MapList::new(cap))),
        ("slist", 0) => Box::new(SetListC::<String>(SetList::new(cap))),
        ("slist", _) => Box::new(SetListC::<i64>(SetList::new(cap))),
        ("klist", _) => Box::new(KeyListC(Some(KeyExpList::new(cap)))),
        _ => panic!("unknown collection {}", coll),
    }
}
