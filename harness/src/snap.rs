//! Abstraction function: concrete arena snapshot -> labelled tree + pool (the model's state).
//! This is the only place where concrete links are interpreted. It FAILS unless the links are
//! mutually consistent, the sentinel is linked nowhere and the slots are partitioned.
use i_tree::verif::VerifSnapshot;
use i_tree::EMPTY_REF;

pub struct Abs {
    /// canonical state string `P … T …`
    pub state: String,
    /// in-order (slot, key, exp, val)
    pub inorder: Vec<(u32, i64, i64, i64)>,
    pub height: usize,
    pub buf_len: usize,
    pub unused_len: usize,
    pub cap: usize,
    /// slot partition violated (the tree walk itself succeeded)
    pub slots_err: Option<String>,
    /// a parent field disagrees with the child link it was reached through (walk continued on child links)
    pub links_err: Option<String>,
}

pub fn abs<T>(s: &VerifSnapshot<T>, ent: &dyn Fn(&T) -> (i64, i64, i64)) -> Result<Abs, String> {
    let n = s.nodes.len();
    let mut seen = vec![false; n];
    let mut tree = String::new();
    let mut inorder = Vec::new();
    let mut height = 0usize;
    // iterative pre-order with explicit stack: (slot, expected parent, depth)
    fn go<T>(
        s: &VerifSnapshot<T>,
        ent: &dyn Fn(&T) -> (i64, i64, i64),
        idx: u32,
        parent: u32,
        depth: usize,
        seen: &mut Vec<bool>,
        out: &mut String,
        inorder: &mut Vec<(u32, i64, i64, i64)>,
        height: &mut usize,
        links_err: &mut Option<String>,
    ) -> Result<(), String> {
        if idx == EMPTY_REF {
            out.push_str(" L");
            return Ok(());
        }
        if depth > 200 {
            return Err("tree deeper than 200 (cycle?)".into());
        }
        let i = idx as usize;
        if i == 0 {
            return Err("sentinel slot 0 is linked into the tree".into());
        }
        if i >= s.nodes.len() {
            return Err(format!("link to slot {} outside the arena ({})", i, s.nodes.len()));
        }
        if seen[i] {
            return Err(format!("slot {} reached twice", i));
        }
        seen[i] = true;
        let nd = &s.nodes[i];
        if nd.parent != parent && links_err.is_none() {
            *links_err = Some(format!("slot {} has parent field {} but is linked from {}", i, nd.parent as i64, parent as i64));
        }
        if depth + 1 > *height {
            *height = depth + 1;
        }
        let (k, e, v) = ent(&nd.entity);
        out.push_str(&format!(" N {} {} {} {} {}", if nd.red { "R" } else { "B" }, i, k, e, v));
        go(s, ent, nd.left, idx, depth + 1, seen, out, inorder, height, links_err)?;
        inorder.push((idx, k, e, v));
        go(s, ent, nd.right, idx, depth + 1, seen, out, inorder, height, links_err)?;
        Ok(())
    }
    let mut links_err = None;
    go(s, ent, s.root, EMPTY_REF, 0, &mut seen, &mut tree, &mut inorder, &mut height, &mut links_err)?;
    // partition: {0} + tree + unused == 0..n, no repetition
    let slots_err = (|| -> Option<String> {
        let mut free = vec![false; n];
        for &u in &s.unused {
            let u = u as usize;
            if u >= n { return Some(format!("free list holds slot {} outside the arena ({})", u, n)); }
            if u == 0 { return Some("free list holds the sentinel slot 0".into()); }
            if free[u] { return Some(format!("slot {} is on the free list twice", u)); }
            if seen[u] { return Some(format!("slot {} is in the tree and on the free list", u)); }
            free[u] = true;
        }
        for i in 1..n {
            if !seen[i] && !free[i] { return Some(format!("slot {} is neither in the tree nor on the free list (lost)", i)); }
        }
        None
    })();
    let mut pool = format!("P {} {} {}", n, s.unused_capacity, s.unused.len());
    for &u in &s.unused {
        pool.push_str(&format!(" {}", u));
    }
    Ok(Abs {
        state: format!("{} T{}", pool, tree),
        inorder,
        height,
        buf_len: n,
        unused_len: s.unused.len(),
        cap: s.unused_capacity,
        slots_err,
        links_err,
    })
}

/// independent structural oracle on the concrete snapshot (does not use `abs`):
/// BST order, red-red, black heights, links, sentinel, height bound
pub fn structure_oracle<T>(s: &VerifSnapshot<T>, key: &dyn Fn(&T) -> i64) -> Result<(usize, usize), String> {
    // returns (entries, height)
    fn rec<T>(
        s: &VerifSnapshot<T>,
        key: &dyn Fn(&T) -> i64,
        idx: u32,
        parent: u32,
        lo: Option<i64>,
        hi: Option<i64>,
        parent_red: bool,
        depth: usize,
        count: &mut usize,
        height: &mut usize,
    ) -> Result<usize, String> {
        if idx == EMPTY_REF {
            return Ok(0);
        }
        if depth > 200 {
            return Err("depth>200".into());
        }
        let i = idx as usize;
        if i == 0 || i >= s.nodes.len() {
            return Err(format!("bad link {}", i));
        }
        let nd = &s.nodes[i];
        if nd.parent != parent {
            return Err(format!("parent link of slot {} inconsistent (PARENT-LINK)", i));
        }
        let k = key(&nd.entity);
        if let Some(lo) = lo {
            if k <= lo {
                return Err(format!("search-tree order violated at slot {} (key {} <= {})", i, k, lo));
            }
        }
        if let Some(hi) = hi {
            if k >= hi {
                return Err(format!("search-tree order violated at slot {} (key {} >= {})", i, k, hi));
            }
        }
        if nd.red && parent_red {
            return Err(format!("red slot {} has a red parent", i));
        }
        *count += 1;
        if *count > s.nodes.len() {
            return Err("cycle".into());
        }
        if depth + 1 > *height {
            *height = depth + 1;
        }
        let bl = rec(s, key, nd.left, idx, lo, Some(k), nd.red, depth + 1, count, height)?;
        let br = rec(s, key, nd.right, idx, Some(k), hi, nd.red, depth + 1, count, height)?;
        if bl != br {
            return Err(format!("black heights differ below slot {} ({} vs {})", i, bl, br));
        }
        Ok(bl + if nd.red { 0 } else { 1 })
    }
    let mut count = 0;
    let mut height = 0;
    rec(s, key, s.root, EMPTY_REF, None, None, false, 0, &mut count, &mut height)?;
    // height <= 2*log2(n+1)+1
    let bound = 2.0 * ((count + 1) as f64).log2() + 1.0;
    if (height as f64) > bound + 1e-9 {
        return Err(format!("height {} exceeds 2*log2({}+1)+1 = {:.3}", height, count, bound));
    }
    Ok((count, height))
}

/// raw arena, field by field (the arena-level model is compared with this, stale slots included):
/// `R <root> <cap> <nUnused> u… N <n> (<parent> <left> <right> <red> <key> <exp> <val>)*`
pub fn raw<T>(s: &VerifSnapshot<T>, ent: &dyn Fn(&T) -> (i64, i64, i64)) -> String {
    let mut o = format!("R {} {} {}", s.root, s.unused_capacity, s.unused.len());
    for u in &s.unused { o.push_str(&format!(" {}", u)); }
    o.push_str(&format!(" N {}", s.nodes.len()));
    for n in &s.nodes {
        let (k, e, v) = ent(&n.entity);
        o.push_str(&format!(" {} {} {} {} {} {} {}", n.parent, n.left, n.right, if n.red { 1 } else { 0 }, k, e, v));
    }
    o
}
