//! Independent reference semantics (BTreeMap based) used to SEARCH for failing inputs and to validate
//! the unchanged tree. Nothing here is shared with the Lean model.
use std::collections::BTreeMap;

#[derive(Clone, Default, Debug)]
pub struct RefMap {
    /// key -> (exp, val); for the expiring collections this is the *live-relevant* content:
    /// an insert replaces an equal key (which the contract guarantees is expired)
    pub m: BTreeMap<i64, (i64, i64)>,
    /// last time supplied since the last clear (expiring collections)
    pub last_t: i64,
    pub peak: usize,
    pub cap0: usize,
}

impl RefMap {
    pub fn new(cap0: usize) -> Self { RefMap { m: BTreeMap::new(), last_t: i64::MIN, peak: 0, cap0 } }
    pub fn live(&self, t: i64) -> Vec<(i64, i64, i64)> {
        self.m.iter().filter(|(_, (e, _))| *e > t).map(|(k, (e, v))| (*k, *e, *v)).collect()
    }
    pub fn is_live(&self, k: i64, t: i64) -> bool { self.m.get(&k).map_or(false, |(e, _)| *e > t) }
    /// greatest key <= probe (2k <= q for the comparator family) among entries live at t
    pub fn pred_q(&self, q: i64, strict: bool, t: Option<i64>) -> Option<(i64, i64, i64)> {
        self.m
            .iter()
            .filter(|(k, (e, _))| (if strict { 2 * **k < q } else { 2 * **k <= q }) && t.map_or(true, |t| *e > t))
            .next_back()
            .map(|(k, (e, v))| (*k, *e, *v))
    }
    pub fn purge(&mut self, t: i64) { self.m.retain(|_, (e, _)| *e > t); }
}
