//! Instrumented key / value types: every user callback the library can make is counted, optionally
//! logged, and can be made to panic at a chosen invocation index.
use i_tree::set::sort::KeyValue;
use i_tree::{ExpiredKey, ExpiredVal};
use std::cell::RefCell;
use std::cmp::Ordering;

#[derive(Default)]
pub struct CbState {
    pub count: usize,
    pub inject_at: Option<usize>,
    /// (kind, key, exp): 'c' comparison on a stored key, 'e' expiration accessor, 'k' key accessor
    pub log: Vec<(char, i64, i64)>,
    pub logging: bool,
    pub probe_id: u32,
    pub next_id: u32,
    /// high-volume runs (no logging): the time of the running operation of an expiring collection; a comparison on
    /// a stored key whose expiration is not above it sets `stale_cmp` (C20)
    pub live_time: Option<i64>,
    pub stale_cmp: bool,
}

thread_local! {
    pub static CB: RefCell<CbState> = RefCell::new(CbState::default());
}

pub fn cb_reset(inject_at: Option<usize>, logging: bool) {
    CB.with(|c| {
        let mut c = c.borrow_mut();
        c.count = 0;
        c.inject_at = inject_at;
        c.log.clear();
        c.logging = logging;
    });
}

pub fn cb_take() -> (usize, Vec<(char, i64, i64)>) {
    CB.with(|c| {
        let mut c = c.borrow_mut();
        c.inject_at = None;
        (c.count, std::mem::take(&mut c.log))
    })
}

/// arm (`Some(time)`) or disarm the live-key check of comparisons; returns whether a stale key was compared since
pub fn live_check(t: Option<i64>) -> bool {
    CB.with(|c| { let mut c = c.borrow_mut(); let r = c.stale_cmp; c.stale_cmp = false; c.live_time = t; r })
}

pub fn set_probe(id: u32) {
    CB.with(|c| c.borrow_mut().probe_id = id);
}

pub fn fresh_id() -> u32 {
    CB.with(|c| {
        let mut c = c.borrow_mut();
        c.next_id += 1;
        c.next_id
    })
}

#[inline]
fn cb_event(kind: char, k: i64, exp: i64) {
    let fire = CB.with(|c| {
        let mut c = c.borrow_mut();
        let idx = c.count;
        c.count += 1;
        if c.logging {
            c.log.push((kind, k, exp));
        }
        if kind == 'c' { if let Some(t) = c.live_time { if exp <= t { c.stale_cmp = true; } } }
        c.inject_at == Some(idx)
    });
    if fire {
        std::panic::panic_any(InjectedPanic);
    }
}

pub struct InjectedPanic;

#[derive(Clone, Copy, Debug, Default)]
pub struct IK {
    pub k: i32,
    pub exp: i32,
    pub id: u32,
}

impl IK {
    pub fn new(k: i32, exp: i32) -> Self {
        IK { k, exp, id: fresh_id() }
    }
    pub fn probe(k: i32) -> Self {
        let id = fresh_id();
        set_probe(id);
        IK { k, exp: 0, id }
    }
    /// a new key that is about to be inserted: it is the probe of that operation
    pub fn fresh_probe(k: i32, exp: i32) -> Self {
        let id = fresh_id();
        set_probe(id);
        IK { k, exp, id }
    }
}

impl PartialEq for IK {
    fn eq(&self, o: &Self) -> bool {
        self.k == o.k
    }
}
impl Eq for IK {}
impl Ord for IK {
    fn cmp(&self, o: &Self) -> Ordering {
        let probe = CB.with(|c| c.borrow().probe_id);
        // log the stored side(s) of the comparison
        if self.id != probe {
            cb_event('c', self.k as i64, self.exp as i64);
            if o.id != probe {
                cb_event('c', o.k as i64, o.exp as i64);
            }
        } else if o.id != probe {
            cb_event('c', o.k as i64, o.exp as i64);
        } else {
            cb_event('c', o.k as i64, o.exp as i64);
        }
        self.k.cmp(&o.k)
    }
}
impl PartialOrd for IK {
    fn partial_cmp(&self, o: &Self) -> Option<Ordering> {
        Some(self.cmp(o))
    }
}
impl ExpiredKey<i32> for IK {
    fn expiration(&self) -> i32 {
        cb_event('e', self.k as i64, self.exp as i64);
        self.exp
    }
}

/// comparator closure family `f(k) = (2k).cmp(q)`; odd `q` never answers `Equal`
pub fn cmp_q(q: i64) -> impl Fn(IK) -> Ordering {
    move |k: IK| {
        cb_event('c', k.k as i64, k.exp as i64);
        (2 * k.k as i64).cmp(&q)
    }
}
pub fn cmp_q_ref(q: i64) -> impl Fn(&IK) -> Ordering {
    move |k: &IK| {
        cb_event('c', k.k as i64, k.exp as i64);
        (2 * k.k as i64).cmp(&q)
    }
}

/// payload types: plain integer and heap-allocated
pub trait Val: Clone + Default {
    fn from_i64(v: i64) -> Self;
    fn to_i64(&self) -> i64;
}
impl Val for i64 {
    fn from_i64(v: i64) -> Self {
        v
    }
    fn to_i64(&self) -> i64 {
        *self
    }
}
impl Val for String {
    fn from_i64(v: i64) -> Self {
        format!("payload-{}", v)
    }
    fn to_i64(&self) -> i64 {
        self.strip_prefix("payload-").and_then(|s| s.parse().ok()).unwrap_or(i64::MIN)
    }
}

/// set value carrying its own key
#[derive(Clone, Default, Debug)]
pub struct SV<P: Val> {
    pub key: IK,
    pub payload: P,
}
impl<P: Val> KeyValue<IK> for SV<P> {
    fn key(&self) -> &IK {
        cb_event('k', self.key.k as i64, self.key.exp as i64);
        &self.key
    }
}

/// segment-tree value
#[derive(Clone, Copy, Debug)]
pub struct SegV {
    pub id: i64,
    pub exp: i32,
}
impl ExpiredVal<i32> for SegV {
    fn expiration(&self) -> i32 {
        cb_event('e', self.id, self.exp as i64);
        self.exp
    }
}
