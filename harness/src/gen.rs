//! Generators: exhaustive small universes, structured random histories, corpus replay.
use crate::colls::*;
use crate::rng::Rng;
use crate::run::*;
use std::collections::{HashSet, VecDeque};

/// state key for de-duplication: colours + shape + keys + expirations, no slots, no pool, no payloads
pub fn shape_key(state: &str) -> String {
    let toks: Vec<&str> = state.split_whitespace().collect();
    let mut i = toks.iter().position(|t| *t == "T").map(|p| p + 1).unwrap_or(0);
    let mut out = String::new();
    while i < toks.len() {
        if toks[i] == "N" {
            out.push_str(toks[i + 1]); out.push(':'); out.push_str(toks[i + 3]); out.push(':'); out.push_str(toks[i + 4]); out.push(' ');
            i += 6;
        } else { out.push_str("L "); i += 1; }
    }
    out
}

type Path = Vec<(Op, Option<i64>)>;

/// the suite emits raw arena snapshots for the arena-level model (`VERIF_ARENA=1`, set by the `arena-*` suites)
pub fn arena_mode() -> bool { std::env::var("VERIF_ARENA").is_ok() }

fn rebuild<'a>(out: &'a mut Out, suite: &str, coll: &str, cap: usize, variant: u32, path: &Path) -> Runner<'a> {
    let mut r = Runner::new(out, suite, coll, cap, variant);
    r.emit = false;
    for (op, ek) in path { r.step(op, *ek); }
    r.emit = true;
    r
}

fn mapset_ops(coll: &str, entries: &[(u32, i64, i64, i64)], u: i64) -> Vec<(Op, Option<i64>, bool)> {
    // (op, expect_key, extends the frontier)
    let mut v = Vec::new();
    let present: Vec<i64> = entries.iter().map(|e| e.1).collect();
    for k in 0..u { if !present.contains(&k) { v.push((Op::new("insert", &[k, 10 * k]), None, true)); } }
    for k in 0..u { v.push((Op::new("delete", &[k]), None, true)); }
    for e in entries { v.push((Op::new("delidx", &[e.0 as i64]), Some(e.1), true)); }
    v.push((Op::new("clear", &[]), None, true));
    v.push((Op::new("isempty", &[]), None, false));
    for k in -1..=u { v.push((Op::new("get", &[k]), None, false)); v.push((Op::new("fil", &[k]), None, false)); }
    for q in -1..=2 * u { v.push((Op::new("filby", &[q]), None, false)); }
    for e in entries {
        v.push((Op::new("validx", &[e.0 as i64]), Some(e.1), false));
        v.push((Op::new("setidx", &[e.0 as i64, 10 * e.1 + 1]), Some(e.1), false));
        if coll == "set" || coll == "slist" {
            v.push((Op::new("after", &[e.0 as i64]), Some(e.1), false));
            v.push((Op::new("before", &[e.0 as i64]), Some(e.1), false));
        }
    }
    v
}

/// breadth-first over every reachable shape of a small key universe; returns (states, truncated)
pub fn exhaustive_mapset(out: &mut Out, coll: &str, u: i64, max_states: usize) -> (usize, bool) {
    let suite = format!("exh-{}{}-u{}", if arena_mode() { "a" } else { "" }, coll, u);
    let mut seen: HashSet<String> = HashSet::new();
    let mut queue: VecDeque<Path> = VecDeque::new();
    seen.insert(String::from("L "));
    queue.push_back(vec![]);
    let mut truncated = false;
    while let Some(path) = queue.pop_front() {
        let entries = { let r = rebuild(out, &suite, coll, 8, 0, &path); r.real.entries().unwrap_or_default() };
        for (op, ek, grows) in mapset_ops(coll, &entries, u) {
            let mut r = rebuild(out, &suite, coll, 8, 0, &path);
            r.step(&op, ek);
            r.end();
            if grows && !r.dead {
                if let Ok(st) = r.real.state() {
                    let key = if coll.ends_with("list") { st.clone() } else { shape_key(&st) };
                    if !seen.contains(&key) {
                        if seen.len() >= max_states { truncated = true; } else {
                            seen.insert(key);
                            let mut p = path.clone(); p.push((op.clone(), ek)); queue.push_back(p);
                        }
                    }
                }
            }
        }
    }
    (seen.len(), truncated)
}

fn key_ops(r: &Runner, u: i64, tmax: i64) -> Vec<Op> {
    let last = r.refm.last_t.max(0);
    let times: Vec<i64> = [last, last + 1].iter().cloned().filter(|t| *t <= tmax).collect();
    let mut v = Vec::new();
    for &t in &times {
        for k in 0..u {
            if !r.refm.is_live(k, t) {
                let mut exps = vec![t, t + 1, tmax + 1]; exps.dedup();
                for e in exps { v.push(Op::new("insert", &[k, e, 10 * k + e, t])); }
            }
        }
        for k in -1..=u { for m in ["fl", "fle", "get"] { v.push(Op::new(m, &[t, k])); } }
        for q in -1..=2 * u { v.push(Op::new("fleby", &[t, q])); }
        v.push(Op::new("export", &[t]));
    }
    v.push(Op::new("clear", &[]));
    v.push(Op::new("isempty", &[]));
    v
}

pub fn exhaustive_key(out: &mut Out, coll: &str, u: i64, tmax: i64, max_states: usize) -> (usize, bool) {
    let suite = format!("exh-{}{}-u{}", if arena_mode() { "a" } else { "" }, coll, u);
    let mut seen: HashSet<String> = HashSet::new();
    let mut queue: VecDeque<Path> = VecDeque::new();
    seen.insert(String::from("L @0"));
    queue.push_back(vec![]);
    let mut truncated = false;
    while let Some(path) = queue.pop_front() {
        let ops = { let r = rebuild(out, &suite, coll, 8, 0, &path); key_ops(&r, u, tmax) };
        for op in ops {
            let mut r = rebuild(out, &suite, coll, 8, 0, &path);
            r.step(&op, None);
            r.end();
            if r.dead || (coll == "klist" && op.name == "export") { continue; }
            if let Ok(st) = r.real.state() {
                let key = format!("{}@{}", if coll == "klist" { st.clone() } else { shape_key(&st) }, r.refm.last_t.max(0));
                if !seen.contains(&key) {
                    if seen.len() >= max_states { truncated = true; } else {
                        seen.insert(key);
                        let mut p = path.clone(); p.push((op.clone(), None)); queue.push_back(p);
                    }
                }
            }
        }
    }
    (seen.len(), truncated)
}

pub struct RandCfg { pub len: usize, pub universe: i64, pub cap: usize, pub variant: u32, pub profile: u32 }

/// search mode only: the structure oracle has failed; run a fixed, result-level probe on the broken collection
/// (fresh keys, handles taken and re-read across insertions, deletions followed by lookups) so that the
/// consequences of the broken invariant show up as wrong answers
fn consequence_probe(r: &mut Runner, u: i64) {
    let b = u + 10;
    let keys = [b + 3, b + 4, b + 5, b + 1, b + 2];
    let mut held: Vec<(i64, i64)> = vec![];
    for (i, &k) in keys.iter().enumerate() {
        r.step(&Op::new("insert", &[k, 1000 + i as i64]), None);
        let o = r.step(&Op::new("fil", &[k]), None);
        if let Ok(h) = o.parse::<i64>() { held.push((k, h)); }
        for &(kk, h) in &held { r.step(&Op::new("validx", &[h]), Some(kk)); }
        if r.dead { return; }
    }
    for &k in &[b + 4, b + 1, b + 5] {
        r.step(&Op::new("delete", &[k]), None);
        for &kk in &keys { r.step(&Op::new("get", &[kk]), None); }
        if r.dead { return; }
    }
    // exhaust the arena: a slot that is wrongly on the free list (the sentinel, a slot still in use) may sit
    // at the bottom of the stack and is then handed out last. Afterwards remove the entries one by one,
    // looking every remaining one up (and, for sets, stepping to the neighbours) after each removal.
    let (buf_len, stored) = match r.real.abs() { Some(Ok(a)) => (a.buf_len, a.inorder.len()), _ => return };
    if buf_len > 40 { return; }
    let mut fresh: Vec<i64> = vec![];
    let mut k = b + 10;
    for i in 0..(buf_len + 2).saturating_sub(stored) {
        r.step(&Op::new("insert", &[k, 2000 + i as i64]), None);
        fresh.push(k); k += 1;
        if r.dead { return; }
    }
    let is_set = r.coll == "set";
    let mut all: Vec<i64> = r.refm.m.keys().cloned().collect();
    let order: Vec<i64> = all.clone();
    for &d in order.iter() {
        r.step(&Op::new("delete", &[d]), None);
        all.retain(|&x| x != d);
        for &kk in all.iter() {
            r.step(&Op::new("get", &[kk]), None);
            if is_set {
                let o = r.step(&Op::new("fil", &[kk]), None);
                if let Ok(h) = o.parse::<i64>() {
                    r.step(&Op::new("after", &[h]), Some(kk));
                    r.step(&Op::new("before", &[h]), Some(kk));
                }
            }
            if r.dead { return; }
        }
        if r.dead { return; }
    }
}

pub fn random_mapset(out: &mut Out, coll: &str, rng: &mut Rng, cfg: &RandCfg) {
    let suite = format!("{}rand-{}", if arena_mode() { "arena-" } else { "" }, coll);
    let mut r = Runner::new(out, &suite, coll, cfg.cap, cfg.variant);
    let is_set = coll == "set" || coll == "slist";
    let is_list = coll.ends_with("list");
    let u = cfg.universe;
    // profile: 0 mixed, 1 insert-heavy, 2 delete-heavy churn, 3 handle-heavy
    let (w_ins, w_del) = match cfg.profile { 1 => (60, 10), 2 => (30, 35), 3 => (25, 10), _ => (35, 20) };
    for _ in 0..cfg.len {
        if r.dead { break; }
        if r.in_pm { consequence_probe(&mut r, u); break; }
        let entries = r.real.entries().unwrap_or_default();
        let x = rng.below(100);
        let n = entries.len() as i64;
        if x < w_ins && n < u {
            // a key that is absent
            let mut k = rng.range(0, u - 1);
            let mut guard = 0;
            while r.refm.m.contains_key(&k) && guard < 4 * u { k = (k + 1) % u; guard += 1; }
            if r.refm.m.contains_key(&k) { continue; }
            r.step(&Op::new("insert", &[k, rng.range(0, 1_000_000)]), None);
        } else if x < w_ins + w_del {
            if n > 0 && rng.chance(3, 4) {
                let e = entries[rng.below(n as u64) as usize];
                if rng.chance(1, 2) { r.step(&Op::new("delete", &[e.1]), None); }
                else if !is_list && r.handles.contains_key(&e.1) && rng.chance(1, 2) {
                    let h = r.handles[&e.1]; r.step(&Op::new("delidx", &[h as i64]), Some(e.1));
                } else { r.step(&Op::new("delidx", &[e.0 as i64]), Some(e.1)); }
            } else { r.step(&Op::new("delete", &[rng.range(-1, u)]), None); }
        } else if x < 70 {
            r.step(&Op::new("get", &[rng.range(-1, u)]), None);
        } else if x < 80 {
            if rng.chance(1, 2) { r.step(&Op::new("fil", &[rng.range(-1, u)]), None); } else { r.step(&Op::new("filby", &[rng.range(-2, 2 * u + 1)]), None); }
        } else if x < 94 && n > 0 {
            // through a handle: for trees prefer handles held since an earlier lookup (C17)
            let held: Vec<(i64, u32)> = r.handles.iter().map(|(k, h)| (*k, *h)).collect();
            let (k, h) = if !is_list && !held.is_empty() && rng.chance(3, 4) { held[rng.below(held.len() as u64) as usize] } else { let e = entries[rng.below(n as u64) as usize]; (e.1, e.0) };
            match rng.below(if is_set { 4 } else { 2 }) {
                0 => { r.step(&Op::new("validx", &[h as i64]), Some(k)); }
                1 => { r.step(&Op::new("setidx", &[h as i64, rng.range(0, 1_000_000)]), Some(k)); }
                2 => { r.step(&Op::new("after", &[h as i64]), Some(k)); }
                _ => { r.step(&Op::new("before", &[h as i64]), Some(k)); }
            }
        } else if x < 97 {
            r.step(&Op::new("isempty", &[]), None);
        } else if x < 98 {
            r.step(&Op::new("clear", &[]), None);
        } else {
            r.step(&Op::new("get", &[rng.range(-1, u)]), None);
        }
    }
    r.end();
}

pub fn random_key(out: &mut Out, coll: &str, rng: &mut Rng, cfg: &RandCfg) {
    let suite = format!("{}rand-{}", if arena_mode() { "arena-" } else { "" }, coll);
    let mut r = Runner::new(out, &suite, coll, cfg.cap, cfg.variant);
    let u = cfg.universe;
    let mut t: i64 = rng.range(0, 3);
    // profile: 0 mixed, 1 expiry storm (short lifetimes), 2 long-lived, 3 export-heavy
    let life = match cfg.profile { 1 => 2, 2 => 40, _ => 8 };
    for _ in 0..cfg.len {
        if r.dead { break; }
        if rng.chance(1, 3) { t += rng.range(0, if cfg.profile == 1 { 4 } else { 2 }); }
        let x = rng.below(100);
        if x < 40 {
            let mut k = rng.range(0, u - 1);
            let mut guard = 0;
            while r.refm.is_live(k, t) && guard < 2 * u { k = (k + 1) % u; guard += 1; }
            if r.refm.is_live(k, t) { continue; }
            // prefer re-inserting a key whose entry has expired
            let exp = if rng.chance(1, 6) { t } else { t + rng.range(0, life) };
            r.step(&Op::new("insert", &[k, exp, rng.range(0, 1_000_000), t]), None);
        } else if x < 55 { r.step(&Op::new("fl", &[t, rng.range(-1, u)]), None); }
        else if x < 70 { r.step(&Op::new("fle", &[t, rng.range(-1, u)]), None); }
        else if x < 80 { r.step(&Op::new("fleby", &[t, rng.range(-2, 2 * u + 1)]), None); }
        else if x < 92 { r.step(&Op::new("get", &[t, rng.range(-1, u)]), None); }
        else if x < 94 { r.step(&Op::new("isempty", &[]), None); }
        else if x < (if cfg.profile == 3 { 99 } else { 96 }) {
            r.step(&Op::new("export", &[t]), None);
            if coll == "klist" { break; }
        } else if x < 99 {
            r.step(&Op::new("clear", &[]), None);
            // the caller's clock may restart after a clear
            if rng.chance(1, 2) { t = rng.range(0, 3); }
        } else { r.step(&Op::new("get", &[t, rng.range(-1, u)]), None); }
    }
    // every history ends with an export
    if !r.dead && r.real.state().map_or(false, |s| s != "-") {
        let tt = t + rng.range(0, 2);
        r.step(&Op::new("export", &[tt]), None);
    }
    r.finish_key();
    r.end();
}

/// histories that fill the arena exactly (every slot up to the last one in use), with a mix of
/// short- and long-lived entries, then query / export at a time that expires the short-lived ones
pub fn arena_edge(out: &mut Out, coll: &str, rng: &mut Rng, rounds: usize) {
    for round in 0..rounds {
        for &cap in &[0usize, 1, 8, 9, 16] {
            let c0 = cap.max(8) as i64;
            for &n in &[c0 - 1, 2 * c0 - 1, c0 - 2, c0] {
                let mut r = Runner::new(out, &format!("{}edge-{}", if arena_mode() { "arena-" } else { "" }, coll), coll, cap, 0);
                let mut keys: Vec<i64> = (0..n).collect();
                for j in (1..keys.len()).rev() { let k = rng.below(j as u64 + 1) as usize; keys.swap(j, k); }
                for (i, k) in keys.iter().enumerate() {
                    // the entries inserted last (they occupy the highest slots) are preferably short-lived
                    let short = if i + 2 >= keys.len() { rng.chance(3, 4) } else { rng.chance(1, 3) };
                    let exp = if short { rng.range(1, 5) } else { rng.range(6, 12) };
                    r.step(&Op::new("insert", &[*k, exp, 100 * *k + round as i64, 0]), None);
                }
                let t = rng.range(1, 6);
                if rng.chance(1, 2) { r.step(&Op::new(["fl", "fle", "get"][rng.below(3) as usize], &[t, rng.range(-1, n)]), None); }
                r.step(&Op::new("export", &[t]), None);
                r.end();
            }
        }
    }
}

/// corpus file: `<coll> <variant> <cap> :: op ; op ; …` per line, `#` comments
pub fn corpus(out: &mut Out, path: &str) -> usize {
    let text = match std::fs::read_to_string(path) { Ok(t) => t, Err(_) => return 0 };
    let mut n = 0;
    for line in text.lines() {
        let line = line.trim();
        if line.is_empty() || line.starts_with('#') { continue; }
        let (head, ops) = match line.split_once("::") { Some(x) => x, None => continue };
        let h: Vec<&str> = head.split_whitespace().collect();
        if h.len() < 3 || h[0] == "seg" { continue; }
        let mut r = Runner::new(out, if arena_mode() { "arena-corpus" } else { "corpus" }, h[0], h[2].parse().unwrap_or(8), h[1].parse().unwrap_or(0));
        let mut inject: Option<usize> = None;
        for o in ops.split(';') {
            if let Some(op) = Op::parse(o.trim()) {
                if op.name == "@inject" { inject = Some(op.a[0] as usize); continue; }
                if let Some(k) = inject.take() {
                    let modelled = matches!(h[0], "map" | "set" | "key" | "mlist" | "slist" | "klist");
                    if !r.step_injected(&op, k, None, modelled) { break; }
                    continue;
                }
                // the key a handle designates = what it designates now
                let ek = if matches!(op.name.as_str(), "delidx" | "validx" | "setidx" | "after" | "before") {
                    r.real.entries().unwrap_or_default().iter().find(|e| e.0 as i64 == op.a[0]).map(|e| e.1)
                } else { None };
                // a replayed (possibly shrunk) history must itself respect the contract of the collection;
                // otherwise whatever it shows is not a property failure
                if !r.in_pm {
                    let expiring = matches!(h[0], "key" | "klist");
                    let mut bad: Option<String> = None;
                    if matches!(op.name.as_str(), "delidx" | "validx" | "setidx" | "after" | "before") && ek.is_none() {
                        bad = Some(format!("`{}`: the handle does not designate a stored entry", op.text()));
                    }
                    if op.name == "insert" {
                        if expiring {
                            if op.a.len() >= 4 && (op.a[3] < r.refm.last_t || op.a[1] < op.a[3] || r.refm.is_live(op.a[0], op.a[3])) {
                                bad = Some(format!("`{}`: time goes back, expiration below insertion time, or key is live", op.text()));
                            }
                        } else if r.refm.m.contains_key(&op.a[0]) {
                            bad = Some(format!("`{}`: key is already stored", op.text()));
                        }
                    } else if expiring && matches!(op.name.as_str(), "fl" | "fle" | "fleby" | "get" | "export") && op.a[0] < r.refm.last_t {
                        bad = Some(format!("`{}`: time goes back", op.text()));
                    }
                    if let Some(b) = bad { r.fail(&["REPLAY"], &format!("history is out of contract at {}", b), "in-contract history", "out of contract"); break; }
                }
                r.step(&op, ek);
            }
        }
        r.end();
        n += 1;
    }
    n
}

/// C01 / C06 quantify over *every* probe from the same state, and every query purges what it meets: the state
/// is rebuilt for each probe. A build history (inserts with assorted lifetimes, the clock advancing, a few purging
/// queries and re-insertions of expired keys in between — so that expired entries sit unpurged at every depth of
/// a tree already shaped by earlier removals) is generated once; then for each time of interest and each key —
/// stored and live, stored and expired, absent — one lookup / predecessor query is made on a fresh replay of it.
pub fn probe_all_keys(out: &mut Out, coll: &str, rng: &mut Rng, trees: usize, sizes: &[i64]) -> usize {
    let suite = format!("probe-{}", coll);
    let mut probes = 0;
    for ti in 0..trees {
        let n = sizes[ti % sizes.len()];
        let cap = [0usize, 8, 9, 64][ti % 4];
        // ---- the build history, generated against the reference so that it stays inside the contract
        let mut build: Vec<Op> = Vec::new();
        let mut t: i64 = 0;
        {
            let mut g = Runner::new(out, "probe-build", coll, cap, 0);
            g.emit = false;
            let style = ti % 3; // 0: inserts only at time 0, 1: sweep with purging queries, 2: long sweep with churn
            let len = match style { 0 => n, 1 => 3 * n, _ => 6 * n };
            for i in 0..len {
                if g.dead { break; }
                if style > 0 && rng.chance(1, 4) { t += 1; }
                let roll = rng.below(100);
                if style == 0 || roll < 70 {
                    let mut k = 2 * rng.range(0, n - 1);
                    let mut guard = 0;
                    while g.refm.is_live(k, t) && guard < 2 * n { k = (k + 2) % (2 * n); guard += 1; }
                    if g.refm.is_live(k, t) { continue; }
                    let life = if style == 0 { [3i64, 6, 9, 1000, 1000][rng.below(5) as usize] } else { [1i64, 2, 3, 5, 8, 1000][rng.below(6) as usize] };
                    let op = Op::new("insert", &[k, t + life, 7 * k + i, t]);
                    g.step(&op, None); build.push(op);
                } else {
                    let q = ["get", "fle", "fl"][rng.below(3) as usize];
                    let op = Op::new(q, &[t, rng.range(-1, 2 * n)]);
                    g.step(&op, None); build.push(op);
                }
            }
            g.end();
        }
        // ---- the probes
        let times: Vec<i64> = if ti % 3 == 0 { vec![3, 5, 6, 9] } else { vec![t, t + 1, t + 2, t + 4] };
        for &tp in &times {
            let mut pk: Vec<i64> = (-1..2 * n + 1).collect();
            if n > 24 { pk.retain(|_| rng.chance(1, 2)); }
            for &k in &pk {
                for (qi, q) in ["get", "fle", "fl"].iter().enumerate() {
                    // every probe kind on the stored keys, the gaps with the predecessor queries only
                    if k % 2 != 0 && qi == 0 { continue; }
                    if qi == 2 && rng.chance(1, 2) { continue; }
                    let mut r = Runner::new(out, &suite, coll, cap, 0);
                    r.emit = false; r.oracles = false;
                    for o in &build {
                        r.step_light(o); r.ops.push(o.clone());
                        if o.name == "insert" { r.ref_update(o, None); r.refm.last_t = r.refm.last_t.max(o.a[3]); } else { r.refm.last_t = r.refm.last_t.max(o.a[0]); }
                        if r.dead { break; }
                    }
                    if r.dead { continue; }
                    // (the storage-bound oracle needs the peak population: the quiet replay did not track it; the
                    // number of insertions is an upper bound)
                    r.refm.peak = r.refm.peak.max(build.iter().filter(|o| o.name == "insert").count());
                    r.oracles = true;
                    r.emit = true;
                    r.step(&Op::new(q, &[tp, k]), None);
                    probes += 1;
                    r.end();
                }
            }
        }
    }
    probes
}
