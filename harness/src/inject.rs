//! C18: a panic injected at every callback invocation index of every operation of a history.
use crate::colls::*;
use crate::gen::*;
use crate::keys::*;
use crate::rng::Rng;
use crate::run::*;
use crate::seg::*;
use std::io::Write;
use std::panic::{catch_unwind, AssertUnwindSafe};

fn record(out: &mut Out, coll: &str, rng: &mut Rng, cfg: &RandCfg) -> (Vec<(Op, Option<i64>)>, Vec<usize>) {
    // generate an in-contract history with the ordinary generator, quietly, and keep ops + callback counts
    let lines0 = out.lines;
    let mut tmp = Out::new(&format!("{}/.tmp-inject", out.dir));
    tmp.next_hid = 0;
    let mut ops = Vec::new();
    {
        if coll == "key" || coll == "klist" { random_key(&mut tmp, coll, rng, cfg); } else { random_mapset(&mut tmp, coll, rng, cfg); }
    }
    tmp.finish();
    let hist = std::fs::read_to_string(format!("{}/.tmp-inject/hist.txt", out.dir)).unwrap_or_default();
    let _ = std::fs::remove_dir_all(format!("{}/.tmp-inject", out.dir));
    if let Some(line) = hist.lines().next() {
        if let Some((_, o)) = line.split_once("::") {
            // (the consuming `into_ordered_vec` that ends a random history is the harness's own move of the tree:
            // no injection there)
            for t in o.split(';') { if let Some(op) = Op::parse(t.trim()) { if op.name != "consume" { ops.push(op); } } }
        }
    }
    // replay quietly to learn expected keys of handle ops and callback counts
    let mut r = Runner::new(out, "inject-record", coll, cfg.cap, cfg.variant);
    r.emit = false;
    let mut res = Vec::new();
    let mut counts = Vec::new();
    for op in ops {
        let ek = if matches!(op.name.as_str(), "delidx" | "validx" | "setidx" | "after" | "before") {
            r.real.entries().unwrap_or_default().iter().find(|e| e.0 as i64 == op.a[0]).map(|e| e.1)
        } else { None };
        r.step(&op, ek);
        counts.push(r.last_count);
        res.push((op, ek));
        if r.dead { break; }
    }
    debug_assert!(out.lines == lines0);
    (res, counts)
}

pub fn inject_suite(out: &mut Out, coll: &str, rng: &mut Rng, n_hist: usize, len: usize, universe: i64, max_points_per_op: usize) -> (usize, usize) {
    let suite = format!("{}inject-{}", if arena_mode() { "arena-" } else { "" }, coll);
    let modelled = matches!(coll, "map" | "set" | "key" | "mlist" | "slist" | "klist");
    let expiring = coll == "key" || coll == "klist";
    let mut points = 0usize;
    let mut ops_with_cb = 0usize;
    for h in 0..n_hist {
        let cfg = RandCfg { len, universe, cap: [0usize, 1, 8, 9][h % 4], variant: (h % 2) as u32, profile: (h % 4) as u32 };
        let (path, counts) = record(out, coll, rng, &cfg);
        for i in 0..path.len() {
            let n = counts[i];
            if n == 0 { continue; }
            ops_with_cb += 1;
            let (op, ek) = path[i].clone();
            if coll == "klist" && op.name == "export" { /* consuming; still inject */ }
            let ks: Vec<usize> = if n <= max_points_per_op { (0..n).collect() } else { let mut v: Vec<usize> = (0..max_points_per_op - 1).map(|j| j * n / max_points_per_op).collect(); v.push(n - 1); v.dedup(); v };
            for k in ks {
                points += 1;
                let prefix: Vec<(Op, Option<i64>)> = path[..i].to_vec();
                let mut r = Runner::new(out, &suite, coll, cfg.cap, cfg.variant);
                r.emit = false;
                for (o, e) in &prefix { r.step(o, *e); }
                r.emit = true;
                if !r.step_injected(&op, k, ek, modelled) { r.end(); continue; }
                // the survivor keeps working: a few more operations under the ordinary oracles;
                // whatever goes wrong from here on is a consequence of the panic (C18)
                r.emit = true;
                r.also = Some("C18");
                let mut extra = 0;
                for (o, _) in path[i + 1..].iter() {
                    if extra >= 4 || r.dead { break; }
                    if matches!(o.name.as_str(), "delidx" | "validx" | "setidx" | "after" | "before") { continue; }
                    if o.name == "insert" {
                        let live = if expiring { r.refm.is_live(o.a[0], o.a[3]) } else { r.refm.m.contains_key(&o.a[0]) };
                        if live { continue; }
                    }
                    if coll == "klist" && r.real.state().map_or(true, |s| s == "-") { break; }
                    r.step(o, None);
                    extra += 1;
                }
                // expiring collections: probe the survivor at every later expiration time - a cached
                // shortcut left inconsistent by the panic shows up as an expired entry being served
                if expiring && !r.dead && r.real.state().map_or(false, |s| s != "-") {
                    let t0 = r.refm.last_t;
                    let mut times: Vec<i64> = r.refm.m.values().map(|x| x.0).filter(|e| *e >= t0).collect();
                    times.sort(); times.dedup();
                    let keys: Vec<i64> = r.refm.m.keys().cloned().collect();
                    'probe: for tp in times {
                        for k in &keys {
                            if r.dead { break 'probe; }
                            r.step(&Op::new("get", &[tp, *k]), None);
                        }
                    }
                }
                r.end();
            }
        }
    }
    (points, ops_with_cb)
}

/// segment tree: panic in `expiration()` during any operation that calls it (the unchanged code: queries only)
pub fn inject_seg(out: &mut Out, rng: &mut Rng, n_hist: usize, len: usize) -> usize {
    let mut points = 0;
    for h in 0..n_hist {
        let (lo, hi) = if h % 2 == 0 { (0i64, 31i64) } else { (-100, 399) };
        // build a history
        let mut ops: Vec<Op> = Vec::new();
        let mut t = 0i64;
        let span = hi - lo;
        for id in 0..len as i64 {
            if rng.chance(1, 3) { t += rng.range(0, 2); }
            let a = lo + rng.below(span as u64 + 1) as i64;
            let b = (a + rng.below(span as u64 / 2 + 1) as i64).min(hi);
            if rng.chance(3, 5) { ops.push(Op::new("insert", &[a, b, id + 1, t + rng.range(-1, 4)])); } else { ops.push(Op::new("query", &[a, b, t, if rng.chance(1, 3) { 2 } else { -1 }])); }
        }
        for i in 0..ops.len() {
            // count callbacks of the clean run
            let n = {
                let mut c = SegC::new(lo, hi).unwrap();
                for o in &ops[..i] { c.apply(o); }
                cb_reset(None, false);
                c.apply(&ops[i]);
                cb_take().0
            };
            for k in 0..n.min(6) {
                points += 1;
                let mut r = SegRunner::new(out, "inject-seg", lo, hi);
                // quiet prefix: do not emit lines for it
                let lines0 = r.out.lines;
                for o in &ops[..i] { r.step(o); }
                let _ = lines0;
                if !r.step_injected(&ops[i], k) { continue; }
                if ops[i].name == "insert" { r.end(); continue; }
                // survivor: whole-domain query at the same time must still be exact
                let tq = ops[i].a[2];
                r.step(&Op::new("query", &[lo, hi, tq, -1]));
                r.end();
            }
        }
    }
    points
}
